(* Invariants of a whole task run: nothing is written before the head; the
   head is the serialisation of a clean task; both hold at every point of every
   script, whatever raises (C08, used by C09). *)
From Coq Require Import String.
From Coq Require Import List NArith ZArith Bool Lia Arith.
From WV Require Import Lib.PyBytes Gen.GenTables Model.Task Proof.TaskLines Proof.TaskHead Proof.TaskStart.
Import ListNotations.
Local Open Scope N_scope.

(* Every script is admissible: since start_response stores fresh tuples an
   in-place mutation of a header pair (AMutate) has no effect.  [app_ok] is kept
   as the (now trivial) side condition of the invariant lemmas. *)
Definition act_ok (a : action) : Prop := True.
Definition step_ok (s : istep) : Prop := Forall act_ok (s_acts s).
Definition app_ok (a : app) : Prop := Forall act_ok (a_call a) /\ Forall step_ok (a_steps a).

Lemma app_ok_all a : app_ok a.
Proof.
  split; apply Forall_forall; intros x _; [exact I|].
  apply Forall_forall. intros y _. exact I.
Qed.

Lemma write_soon_writes disc ch it ch' o : write_soon disc ch it = (ch', o) ->
  (ch_writes ch' = ch_writes ch \/ (ch_writes ch' = it :: ch_writes ch /\ o = Ok tt))
  /\ (forall e, o = Exn e -> ch_writes ch' = ch_writes ch).
Proof.
  unfold write_soon. destruct (negb (connected disc (S (ch_nws ch)))).
  - intro H; inversion H; subst. cbn. split; auto.
  - destruct it as [[|x b]|z content].
    + intro H; inversion H; subst. cbn. split; auto.
    + intro H; inversion H; subst. cbn. split; auto. intros e He. discriminate.
    + destruct (z <? 0)%Z; intro H; inversion H; subst; cbn; split; auto. intros e He. discriminate.
Qed.

Lemma write_soon_ok_nonempty disc ch x b ch' u :
  write_soon disc ch (WBytes (x :: b)) = (ch', Ok u) -> ch_writes ch' = WBytes (x :: b) :: ch_writes ch.
Proof.
  unfold write_soon. destruct (negb _); intro H; inversion H; subst; reflexivity.
Qed.

Lemma encode_nonempty a b : encode_latin1 (a ++ CRLF ++ CRLF) = Ok b -> exists x b', b = x :: b'.
Proof.
  intro H. apply encode_latin1_ok in H. subst b. destruct a; cbn; eauto.
Qed.

Section Run.
Variable cap : str -> str.
Variable lower : str -> str.
Hypothesis Hcap : forall s, clean s -> clean (cap s).
Variable c : cfg.
Hypothesis Hc : cfg_clean c.
Variable r : req.
Variable disc : option nat.

(* h is the serialisation of a clean task *)
Definition HeadOK (h : bytes) : Prop :=
  exists t0 t1, task_clean t0 /\ build_response_header cap lower c r t0 = (t1, Ok h).

Definition Inv (s : st) : Prop :=
  (t_wrote_header (fst s) = false -> task_clean (fst s) /\ ch_writes (snd s) = [])
  /\ (t_wrote_header (fst s) = true ->
      exists h rest, ch_writes (snd s) = rest ++ [WBytes h] /\ HeadOK h).

Lemma Inv_task_only t t' ch :
  t_wrote_header t' = t_wrote_header t -> (task_clean t -> task_clean t') -> Inv (t, ch) -> Inv (t', ch).
Proof.
  intros Hw Hcl [I1 I2]. split; cbn [fst snd] in *; rewrite Hw; intro H.
  - destruct (I1 H). split; auto.
  - auto.
Qed.

Lemma scof_clean t : task_clean t -> task_clean (set_close_on_finish cap lower t).
Proof.
  intros [H1 H2]. destruct (ext_scof cap lower c t) as [(sf & E & F) [S1 _]].
  split. rewrite S1; auto. rewrite E. apply Forall_app. split; auto.
  eapply Forall_impl; [|exact F]. intro h. apply server_field_clean; auto.
Qed.

Lemma scof_wrote t : t_wrote_header (set_close_on_finish cap lower t) = t_wrote_header t.
Proof.
  unfold set_close_on_finish. destruct (negb (t_wrote_header t)); [|reflexivity].
  destruct (fold_left _ (t_rh t) None); reflexivity.
Qed.

Lemma Inv_scof t ch : Inv (t, ch) -> Inv (set_close_on_finish cap lower t, ch).
Proof. apply Inv_task_only. apply scof_wrote. apply scof_clean. Qed.

Lemma bh_prepare_wrote t : t_wrote_header (bh_prepare cap lower c r t) = t_wrote_header t.
Proof.
  unfold bh_prepare.
  set (a := bh_loop cap t). set (t0 := set_rh (ac_rh a) t).
  assert (W0 : t_wrote_header t0 = t_wrote_header t) by reflexivity.
  assert (W1 : t_wrote_header (snd (bh_clen a t0)) = t_wrote_header t0).
  { unfold bh_clen. destruct (ac_cl a), (t_clen t0); try reflexivity. destruct (has_body t0); reflexivity. }
  destruct (bh_clen a t0) as [clh t1]. cbn [snd] in W1.
  assert (W2 : forall conn fc t, t_wrote_header (bh_conn cap lower conn fc clh t) = t_wrote_header t).
  { intros conn fc t2. unfold bh_conn.
    repeat match goal with
           | |- context [if ?b then _ else _] => destruct b
           end; rewrite ?scof_wrote; cbn [t_wrote_header set_chunked set_rh]; rewrite ?scof_wrote; reflexivity. }
  assert (W3 : forall t, t_wrote_header (bh_server c a t) = t_wrote_header t).
  { intro t2. unfold bh_server. destruct (negb _); destruct (c_ident c); reflexivity. }
  assert (W4 : forall t, t_wrote_header (bh_date c a t) = t_wrote_header t).
  { intro t2. unfold bh_date. destruct (negb _); reflexivity. }
  rewrite W4, W3, W2, W1, W0. reflexivity.
Qed.

(* Task.write: the head *)
Lemma Inv_write_header s s1 o1 :
  write_header cap lower c r disc s = (s1, o1) -> Inv s ->
  Inv s1 /\ (o1 = Ok tt -> t_wrote_header (fst s1) = true).
Proof.
  destruct s as [t ch]. unfold write_header. intros E I.
  destruct (t_wrote_header t) eqn:Ew; cbn [negb] in E.
  - inversion E; subst. split; auto.
  - destruct I as [I1 _]. destruct (I1 Ew) as [Hcl Hnil]. cbn [fst snd] in *.
    destruct (build_response_header cap lower c r t) as [t1 [rh|e]] eqn:Eb.
    + assert (Ht1 : t1 = bh_prepare cap lower c r t) by (unfold build_response_header in Eb; inversion Eb; auto).
      destruct (write_soon disc ch (WBytes rh)) as [ch1 [[]|e]] eqn:Ews.
      * inversion E; subst s1 o1. split; [|reflexivity].
        split; cbn [fst snd t_wrote_header set_wrote]; [discriminate|]. intros _.
        assert (Hne : exists x b', rh = x :: b').
        { unfold build_response_header, head_text in Eb. injection Eb as _ Hrh.
          eapply encode_nonempty; eauto. }
        destruct Hne as (x & b' & ->).
        apply write_soon_ok_nonempty in Ews.
        exists (x :: b'), []. rewrite Ews, Hnil. split; [reflexivity|]. exists t, t1. split; auto.
      * inversion E; subst s1 o1. split; [|discriminate].
        split; cbn [fst snd]; rewrite Ht1, bh_prepare_wrote, Ew; [intros _|discriminate].
        split. apply bh_prepare_clean; auto.
        apply write_soon_writes in Ews as [_ Hs]. rewrite (Hs e eq_refl). auto.
    + inversion E; subst s1 o1. split; [|discriminate].
      assert (Ht1 : t1 = bh_prepare cap lower c r t) by (unfold build_response_header in Eb; inversion Eb; auto).
      split; cbn [fst snd]; rewrite Ht1, bh_prepare_wrote, Ew; [intros _|discriminate].
      split; auto. apply bh_prepare_clean; auto.
Qed.

(* once the head is out, the writes only grow and the task's header state is irrelevant *)
Lemma Inv_grow t1 ch1 t2 ch2 :
  Inv (t1, ch1) -> t_wrote_header t1 = true -> t_wrote_header t2 = true ->
  (exists pre, ch_writes ch2 = pre ++ ch_writes ch1) -> Inv (t2, ch2).
Proof.
  intros [_ I2] W1 W2 [pre Hp]. split; cbn [fst snd]; rewrite W2; [discriminate|]. intros _.
  destruct (I2 W1) as (h & rest & Hr & Hok). cbn [snd] in Hr.
  exists h, (pre ++ rest). rewrite Hp, Hr, app_assoc. auto.
Qed.

Lemma write_soon_grows ch it ch' o : write_soon disc ch it = (ch', o) ->
  exists pre, ch_writes ch' = pre ++ ch_writes ch.
Proof.
  intro H. apply write_soon_writes in H as [[Hs|[Hs _]] _]; rewrite Hs; [exists []|eexists [_]]; reflexivity.
Qed.

Lemma write_body_frame s data s' o : write_body disc s data = (s', o) ->
  t_wrote_header (fst s') = t_wrote_header (fst s)
  /\ t_rh (fst s') = t_rh (fst s) /\ t_status (fst s') = t_status (fst s)
  /\ (exists pre, ch_writes (snd s') = pre ++ ch_writes (snd s))
  /\ (t_wrote_header (fst s) = false -> data = [] \/ True).
Proof.
  destruct s as [t ch]. unfold write_body.
  destruct data as [|x data]; [intro H; inversion H; subst; cbn; repeat split; auto; exists []; auto|].
  destruct (has_body t).
  - destruct (t_chunked t).
    + destruct (to_hex_upper _ ++ _) as [|y tw].
      * intro H; inversion H; subst; cbn; repeat split; auto; exists []; auto.
      * destruct (write_soon disc ch (WBytes (y :: tw))) as [ch2 o2] eqn:Ews.
        intro H; inversion H; subst; cbn; repeat split; auto. eapply write_soon_grows; eauto.
    + destruct (t_clen t) as [cl|].
      * destruct (py_slice_to _ _) as [|y tw].
        -- intro H; inversion H; subst; cbn; repeat split; auto; exists []; auto.
        -- destruct (write_soon disc ch (WBytes (y :: tw))) as [ch2 o2] eqn:Ews.
           intro H; inversion H; subst; cbn; repeat split; auto. eapply write_soon_grows; eauto.
      * destruct (write_soon disc ch (WBytes (x :: data))) as [ch2 o2] eqn:Ews.
        intro H; inversion H; subst; cbn; repeat split; auto. eapply write_soon_grows; eauto.
  - intro H; inversion H; subst; cbn; repeat split; auto; exists []; auto.
Qed.

(* Task.write *)
Lemma Inv_task_write s data s' o :
  task_write cap lower c r disc s data = (s', o) -> Inv s -> Inv s'.
Proof.
  unfold task_write. destruct (negb (t_complete (fst s))); [intro H; inversion H; subst; auto|].
  intros H I.
  destruct (write_header cap lower c r disc s) as [s1 [[]|e]] eqn:E.
  - destruct (Inv_write_header _ _ _ E I) as [I1 W1]. specialize (W1 eq_refl).
    destruct (write_body_frame _ _ _ _ H) as (F1 & _ & _ & F4 & _).
    destruct s1 as [t1 ch1], s' as [t2 ch2]. cbn [fst snd] in *.
    eapply Inv_grow; eauto; congruence.
  - destruct (Inv_write_header _ _ _ E I) as [I1 _]. inversion H; subst. auto.
Qed.


(* chunked_response is only ever set while the head is being built: along
   every path without an exception it implies wrote_header *)
Definition Chk (s : st) : Prop := t_chunked (fst s) = true -> t_wrote_header (fst s) = true.
Definition Good (s : st) : Prop := Inv s /\ Chk s.
(* what every step guarantees *)
Definition Post (s' : st) (o : outcome unit) : Prop := Inv s' /\ (o = Ok tt -> Chk s').

Lemma Post_Good s u : Post s (Ok u) -> Good s.
Proof. destruct u. intros [H1 H2]. split; auto. Qed.

Lemma write_body_chunked s data s' o : write_body disc s data = (s', o) ->
  t_chunked (fst s') = t_chunked (fst s).
Proof.
  destruct s as [t ch]. unfold write_body.
  destruct data as [|x data]; [intro H; inversion H; subst; auto|].
  destruct (has_body t).
  - destruct (t_chunked t) eqn:Ec.
    + destruct (to_hex_upper _ ++ _) as [|y tw].
      * intro H; inversion H; subst; auto.
      * destruct (write_soon disc ch (WBytes (y :: tw))) as [ch2 o2].
        intro H; inversion H; subst; auto.
    + destruct (t_clen t) as [cl|].
      * destruct (py_slice_to _ _) as [|y tw].
        -- intro H; inversion H; subst; auto.
        -- destruct (write_soon disc ch (WBytes (y :: tw))) as [ch2 o2].
           intro H; inversion H; subst; auto.
      * destruct (write_soon disc ch (WBytes (x :: data))) as [ch2 o2].
        intro H; inversion H; subst; auto.
  - intro H; inversion H; subst; auto.
Qed.

Lemma Post_task_write s data s' o :
  task_write cap lower c r disc s data = (s', o) -> Good s -> Post s' o.
Proof.
  intros H [I K]. split; [eapply Inv_task_write; eauto|]. intros ->.
  unfold task_write in H. destruct (negb (t_complete (fst s))); [discriminate|].
  destruct (write_header cap lower c r disc s) as [s1 [[]|e]] eqn:E; [|discriminate].
  destruct (Inv_write_header _ _ _ E I) as [_ W1]. specialize (W1 eq_refl).
  destruct (write_body_frame _ _ _ _ H) as (F1 & _). intros _. congruence.
Qed.

Lemma Post_run_action s a s' o : act_ok a ->
  run_action cap lower c r disc s a = (s', o) -> Good s -> Post s' o.
Proof.
  intros Ha H [I K]. destruct a as [status headers exc|data|e|i isv v|status headers exc]; cbn [run_action] in H.
  - pose proof (start_response_frame lower (fst s) status headers exc) as F. cbn zeta in F.
    pose proof (start_response_clean lower (fst s) status headers exc) as C.
    destruct (start_response lower (fst s) status headers exc) as [t o1]. inversion H; subst. clear H.
    cbn [fst] in *. destruct F as (F1 & _ & F3 & _). destruct s as [t0 ch]. cbn [fst snd] in *.
    split. eapply Inv_task_only; eauto. intros _. unfold Chk in *. cbn [fst] in *.
    intro Hx. rewrite F1. apply K. rewrite <- F3. exact Hx.
  - eapply Post_task_write; eauto. split; auto.
  - inversion H; subst. split; auto; discriminate.
  - inversion H; subst. split; auto.
  - (* a swallowed refusal: the task left behind is clean whatever start_response raised *)
    pose proof (start_response_frame lower (fst s) status headers exc) as F. cbn zeta in F.
    pose proof (start_response_clean lower (fst s) status headers exc) as C.
    destruct (start_response lower (fst s) status headers exc) as [t o1]. inversion H; subst. clear H.
    cbn [fst] in *. destruct F as (F1 & _ & F3 & _). destruct s as [t0 ch]. cbn [fst snd] in *.
    split. eapply Inv_task_only; eauto. intros _. unfold Chk in *. cbn [fst] in *.
    intro Hx. rewrite F1. apply K. rewrite <- F3. exact Hx.
Qed.

Lemma Post_run_actions l : forall s s' o, Forall act_ok l ->
  run_actions cap lower c r disc s l = (s', o) -> Good s -> Post s' o.
Proof.
  induction l as [|a l IH]; intros s s' o Hl H G; cbn [run_actions] in H.
  - inversion H; subst. destruct G. split; auto.
  - inversion Hl; subst.
    destruct (run_action cap lower c r disc s a) as [s1 [u|e]] eqn:E.
    + eapply IH; eauto. eapply Post_Good. eapply Post_run_action; eauto.
    + inversion H; subst. eapply Post_run_action; eauto.
Qed.

Lemma Good_set_clen z t ch : Good (t, ch) -> Good (set_clen z t, ch).
Proof. intros [I K]. split; auto. Qed.

Lemma Post_iterate steps : forall is_file len1 first s s' o, Forall step_ok steps ->
  iterate cap lower c r disc is_file len1 first s steps = (s', o) -> Good s -> Post s' o.
Proof.
  induction steps as [|sp steps IH]; intros is_file len1 first s s' o Hs H G; cbn [iterate] in H.
  - inversion H; subst. destruct G. split; auto.
  - inversion Hs as [|? ? Hsp Hrest]; subst.
    destruct (run_actions cap lower c r disc s (s_acts sp)) as [s1 [u|e]] eqn:E;
      [|inversion H; subst; eapply Post_run_actions; eauto].
    assert (G1 : Good s1) by (eapply Post_Good; eapply Post_run_actions; eauto).
    destruct (s_res sp) as [chunk|e]; [|inversion H; subst; destruct G1; split; auto; discriminate].
    destruct (is_file && _); [inversion H; subst; destruct G1; split; auto|].
    destruct s1 as [t ch].
    set (t1 := if first then _ else t) in H.
    assert (G2 : Good (t1, ch)).
    { subst t1. destruct first; auto. destruct (t_clen t); auto. destruct len1; auto; apply Good_set_clen; auto. }
    destruct chunk as [|x chunk].
    + eapply IH; eauto.
    + destruct (task_write cap lower c r disc (t1, ch) (x :: chunk)) as [s2 [u2|e]] eqn:Ew.
      * eapply IH; eauto. eapply Post_Good. eapply Post_task_write; eauto.
      * inversion H; subst. eapply Post_task_write; eauto.
Qed.

Lemma Post_task_finish s s' o : task_finish cap lower c r disc s = (s', o) -> Good s -> Post s' o.
Proof.
  unfold task_finish. intros H G.
  set (r1 := if negb (t_wrote_header (fst s)) then _ else _) in H.
  assert (P1 : Post (fst r1) (snd r1)).
  { subst r1. destruct (negb (t_wrote_header (fst s))).
    - destruct (task_write cap lower c r disc s []) as [s1 o1] eqn:E. eapply Post_task_write; eauto.
    - destruct G. split; auto. }
  destruct r1 as [[t ch] [u|e]]; cbn [fst snd] in P1; [|inversion H; subst; destruct P1 as [PA PB]; split; [exact PA|intro X; discriminate X]].
  apply Post_Good in P1. destruct P1 as [I1 K1].
  cbn [fst] in *.
  destruct (t_chunked t) eqn:Ec; cbn [andb] in H; [|inversion H; subst; split; auto; intros _; unfold Chk; cbn; congruence].
  destruct (negb (r_head r)); [|inversion H; subst; split; auto].
  destruct (write_soon disc ch (WBytes chunk_terminator)) as [ch1 o1] eqn:Ews. inversion H; subst. clear H.
  specialize (K1 Ec). cbn [fst] in K1. split.
  - eapply Inv_grow; eauto. eapply write_soon_grows; eauto.
  - intros _ _. exact K1.
Qed.


Lemma Good_task_only t t' ch :
  t_wrote_header t' = t_wrote_header t -> t_chunked t' = t_chunked t ->
  (task_clean t -> task_clean t') -> Good (t, ch) -> Good (t', ch).
Proof.
  intros Hw Hk Hcl [I K]. split. eapply Inv_task_only; eauto.
  unfold Chk in *. cbn [fst] in *. intro X. rewrite Hw. apply K. rewrite <- Hk. exact X.
Qed.

Lemma scof_chunked t : t_chunked (set_close_on_finish cap lower t) = t_chunked t.
Proof.
  unfold set_close_on_finish. destruct (negb (t_wrote_header t)); [|reflexivity].
  destruct (fold_left _ (t_rh t) None); reflexivity.
Qed.

Lemma Good_scof t ch : Good (t, ch) -> Good (set_close_on_finish cap lower t, ch).
Proof. apply Good_task_only. apply scof_wrote. apply scof_chunked. apply scof_clean. Qed.

Lemma Good_remove_cl t ch : Good (t, ch) -> Good (remove_content_length_header lower t, ch).
Proof.
  apply Good_task_only; try reflexivity. intros [H1 H2]. split; auto.
  unfold remove_content_length_header. cbn [t_rh set_rh].
  apply Forall_forall. intros x Hx. apply filter_In in Hx as [Hx _]. rewrite Forall_forall in H2. auto.
Qed.

Lemma Post_execute_body s a s' o cc : Forall step_ok (a_steps a) ->
  execute_body cap lower c r disc s a = (s', o, cc) -> Good s -> Post s' o.
Proof.
  intros Hs H G. unfold execute_body in H.
  set (ho := match a_kind a with KFile _ => _ | _ => None end) in H.
  assert (Hho : match ho with Some (s1, o1, _) => Post s1 o1 | None => True end).
  { subst ho. destruct (a_kind a) as [n| |seekable]; auto.
    destruct s as [t ch].
    set (size := if seekable then _ else 0%Z).
    destruct (size =? 0)%Z; auto.
    destruct (t_wrote_header t) eqn:Ewh0; auto.
    destruct (negb (has_body t)); auto.
    set (t1 := if match t_clen t with Some n => negb (n =? size)%Z | None => true end then _ else t).
    assert (G1 : Good (t1, ch)).
    { subst t1. destruct (match t_clen t with Some n => negb (n =? size)%Z | None => true end); auto.
      apply Good_set_clen. destruct (t_clen t); auto. apply Good_remove_cl; auto. }
    destruct (task_write cap lower c r disc (t1, ch) []) as [s1 [u|e]] eqn:Ew.
    - pose proof (Post_task_write _ _ _ _ Ew G1) as P1. apply Post_Good in P1.
      destruct s1 as [t2 ch2].
      destruct (write_soon disc ch2 _) as [ch3 [u3|e]] eqn:Ews.
      + destruct P1 as [I1 K1]. split.
        * (* after write(b"") succeeded the head is out *)
          unfold task_write in Ew. destruct (negb (t_complete (fst (t1, ch)))); [discriminate|].
          destruct (write_header cap lower c r disc (t1, ch)) as [s2 [[]|e2]] eqn:E; [|discriminate].
          destruct (Inv_write_header _ _ _ E (proj1 G1)) as [_ W1]. specialize (W1 eq_refl).
          destruct (write_body_frame _ _ _ _ Ew) as (F1 & _). cbn [fst] in F1.
          apply (Inv_grow t2 ch2 t2 ch3 I1); [congruence|congruence|eapply write_soon_grows; eauto].
        * intros _. exact K1.
      + destruct P1 as [I1 K1]. split; [|intro X; discriminate X].
        apply write_soon_writes in Ews as [_ Hx]. specialize (Hx e eq_refl).
        destruct I1 as [A B]. split; cbn [fst snd] in *; rewrite Hx; auto.
    - pose proof (Post_task_write _ _ _ _ Ew G1) as P1. destruct s1. exact P1. }
  destruct ho as [[[s1 o1] c1]|].
  - inversion H; subst. exact Hho.
  - destruct (iterate cap lower c r disc _ _ true s (a_steps a)) as [s1 [u|e]] eqn:Ei.
    + pose proof (Post_iterate _ _ _ _ _ _ _ Hs Ei G) as P1. apply Post_Good in P1.
      destruct s1 as [t ch]. inversion H; subst. clear H.
      assert (G2 : Good (match t_clen t with
                         | Some cl => if negb (t_cbw t =? cl)%Z && negb (r_head r) then set_close_on_finish cap lower t else t
                         | None => t end, ch)).
      { destruct (t_clen t); auto. destruct (_ && _); auto. apply Good_scof; auto. }
      destruct G2 as [A B]. split; [exact A|intros _; exact B].
    + destruct s1. inversion H; subst. eapply Post_iterate; eauto.
Qed.

Lemma Post_wsgi_execute s a : app_ok a -> Good s ->
  let x := wsgi_execute cap lower c r disc s a in Post (x_st x) (x_out x).
Proof.
  intros [Ha Hs] G. cbn zeta. unfold wsgi_execute.
  destruct (run_actions cap lower c r disc s (a_call a)) as [s1 [u|e]] eqn:E.
  - pose proof (Post_run_actions _ _ _ _ Ha E G) as P1. apply Post_Good in P1.
    destruct (execute_body cap lower c r disc s1 a) as [[s2 o] cc] eqn:Eb.
    pose proof (Post_execute_body _ _ _ _ _ Hs Eb P1) as P2.
    destruct (cc && a_has_close a); [destruct (a_close_exn a)|]; cbn [x_st x_out]; auto.
    destruct P2. split; auto. intro X; discriminate X.
  - cbn [x_st x_out]. eapply Post_run_actions; eauto.
Qed.

Definition err_clean (e : (str * str) * str) : Prop := clean (fst (fst e)) /\ clean (snd (fst e)).

Lemma Post_error_execute s e : err_clean e -> Good s ->
  let x := error_execute cap lower c r disc s e in Post (fst x) (snd x).
Proof.
  intros [E1 E2] G. cbn zeta. unfold error_execute. destruct e as [[code reason] body]. destruct s as [t ch].
  cbn [fst snd] in E1, E2.
  match goal with |- context [task_write cap lower c r disc ?s1 ?d] =>
    destruct (task_write cap lower c r disc s1 d) as [s2 o2] eqn:Ew;
    assert (G1 : Good s1) end.
  2: { cbn [fst snd]. eapply Post_task_write; eauto. }
  apply Good_set_clen. apply Good_scof.
  revert G. apply Good_task_only; try reflexivity.
  intros [H1 H2]. split; cbn [t_status t_rh set_rh set_status].
  - apply clean_app. split; [exact E1|]. apply clean_app. split; [reflexivity|exact E2].
  - apply Forall_app. split; [exact H2|]. constructor; [|constructor]. split; reflexivity.
Qed.

Lemma Post_task_run s job :
  match job with inl a => app_ok a | inr e => err_clean e end -> Good s ->
  let x := task_run cap lower c r disc s job in Post (x_st x) (x_out x).
Proof.
  intros Hj G. cbn zeta. unfold task_run.
  set (x := match job with inl a => _ | inr e => _ end).
  assert (P1 : Post (x_st x) (x_out x)).
  { subst x. destruct job as [a|e].
    - apply Post_wsgi_execute; auto.
    - pose proof (Post_error_execute s e Hj G) as P. cbn zeta in P.
      destruct (error_execute cap lower c r disc s e). exact P. }
  destruct (x_out x) as [u|e] eqn:Eo; [|rewrite Eo; exact P1].
  apply Post_Good in P1.
  destruct (task_finish cap lower c r disc (x_st x)) as [s2 o2] eqn:Ef. cbn [x_st x_out].
  eapply Post_task_finish; eauto.
Qed.

(* Task.service keeps the channel part; it can only set close_on_finish *)
Lemma Inv_task_service s job :
  match job with inl a => app_ok a | inr e => err_clean e end -> Good s ->
  Inv (x_st (task_service cap lower c r disc s job)).
Proof.
  intros Hj G. unfold task_service.
  pose proof (Post_task_run s job Hj G) as [I _]. cbn zeta in I.
  destruct (x_out (task_run cap lower c r disc s job)) as [u|e]; auto.
  destruct (is_OSError e); auto.
Qed.

End Run.
