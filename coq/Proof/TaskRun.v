(* Invariants of a whole task run: nothing is written before the head; the
   head is the serialisation of a clean task; both hold at every point of every
   script, whatever raises (C08, used by C09). *)
From Coq Require Import String.
From Coq Require Import List NArith ZArith Bool Lia Arith.
From WV Require Import Lib.PyBytes Gen.GenTables Model.Task Proof.TaskLines Proof.TaskHead Proof.TaskStart.
Import ListNotations.
Local Open Scope N_scope.

(* scripts whose in-place mutations of header pairs (possible only when the pairs
   were passed as lists) write clean strings; in particular scripts without AMutate *)
Definition act_ok (a : action) : Prop :=
  match a with AMutate _ _ v => clean v | _ => True end.
Definition step_ok (s : istep) : Prop := Forall act_ok (s_acts s).
Definition app_ok (a : app) : Prop := Forall act_ok (a_call a) /\ Forall step_ok (a_steps a).

Definition no_mutation_act (a : action) : Prop :=
  match a with AMutate _ _ _ => False | _ => True end.
Definition no_mutation (a : app) : Prop :=
  Forall no_mutation_act (a_call a) /\ Forall (fun s => Forall no_mutation_act (s_acts s)) (a_steps a).

Lemma no_mutation_ok a : no_mutation a -> app_ok a.
Proof.
  intros [H1 H2]. split.
  - eapply Forall_impl; [|exact H1]. intros [] H; simpl in *; auto. contradiction.
  - eapply Forall_impl; [|exact H2]. intros s Hs. unfold step_ok.
    eapply Forall_impl; [|exact Hs]. intros [] H; simpl in *; auto. contradiction.
Qed.

Lemma write_soon_writes disc ch it ch' o : write_soon disc ch it = (ch', o) ->
  (ch_writes ch' = ch_writes ch \/ (ch_writes ch' = it :: ch_writes ch /\ o = Ok tt))
  /\ (forall e, o = Exn e -> ch_writes ch' = ch_writes ch).
Proof.
  unfold write_soon. destruct (negb (connected disc (S (ch_nws ch)))).
  - intro H; inversion H; subst. cbn. split; auto.
  - destruct it as [[|x b]|z content].
    + intro H; inversion H; subst. cbn. split; auto.
    + intro H; inversion H; subst. cbn. split; auto. intros e He. discriminate.
    + destruct (z <? 0)%Z; intro H; inversion H; subst; cbn; split; auto. intros e He. discriminate.
Qed.

Lemma write_soon_ok_nonempty disc ch x b ch' u :
  write_soon disc ch (WBytes (x :: b)) = (ch', Ok u) -> ch_writes ch' = WBytes (x :: b) :: ch_writes ch.
Proof.
  unfold write_soon. destruct (negb _); intro H; inversion H; subst; reflexivity.
Qed.

Lemma encode_nonempty a b : encode_latin1 (a ++ CRLF ++ CRLF) = Ok b -> exists x b', b = x :: b'.
Proof.
  intro H. apply encode_latin1_ok in H. subst b. destruct a; cbn; eauto.
Qed.

Section Run.
Variable cap : str -> str.
Variable lower : str -> str.
Hypothesis Hcap : forall s, clean s -> clean (cap s).
Variable c : cfg.
Hypothesis Hc : cfg_clean c.
Variable r : req.
Variable disc : option nat.

(* h is the serialisation of a clean task *)
Definition HeadOK (h : bytes) : Prop :=
  exists t0 t1, task_clean t0 /\ build_response_header cap lower c r t0 = (t1, Ok h).

Definition Inv (s : st) : Prop :=
  (t_wrote_header (fst s) = false -> task_clean (fst s) /\ ch_writes (snd s) = [])
  /\ (t_wrote_header (fst s) = true ->
      exists h rest, ch_writes (snd s) = rest ++ [WBytes h] /\ HeadOK h).

Lemma Inv_task_only t t' ch :
  t_wrote_header t' = t_wrote_header t -> (task_clean t -> task_clean t') -> Inv (t, ch) -> Inv (t', ch).
Proof.
  intros Hw Hcl [I1 I2]. split; cbn [fst snd] in *; rewrite Hw; intro H.
  - destruct (I1 H). split; auto.
  - auto.
Qed.

Lemma scof_clean t : task_clean t -> task_clean (set_close_on_finish cap lower t).
Proof.
  intros [H1 H2]. destruct (ext_scof cap lower c t) as [(sf & E & F) [S1 _]].
  split. rewrite S1; auto. rewrite E. apply Forall_app. split; auto.
  eapply Forall_impl; [|exact F]. intro h. apply server_field_clean; auto.
Qed.

Lemma scof_wrote t : t_wrote_header (set_close_on_finish cap lower t) = t_wrote_header t.
Proof.
  unfold set_close_on_finish. destruct (negb (t_wrote_header t)); [|reflexivity].
  destruct (fold_left _ (t_rh t) None); reflexivity.
Qed.

Lemma Inv_scof t ch : Inv (t, ch) -> Inv (set_close_on_finish cap lower t, ch).
Proof. apply Inv_task_only. apply scof_wrote. apply scof_clean. Qed.

Lemma bh_prepare_wrote t : t_wrote_header (bh_prepare cap lower c r t) = t_wrote_header t.
Proof.
  unfold bh_prepare.
  set (a := bh_loop cap t). set (t0 := set_rh (ac_rh a) t).
  assert (W0 : t_wrote_header t0 = t_wrote_header t) by reflexivity.
  assert (W1 : t_wrote_header (snd (bh_clen a t0)) = t_wrote_header t0).
  { unfold bh_clen. destruct (ac_cl a), (t_clen t0); try reflexivity. destruct (has_body t0); reflexivity. }
  destruct (bh_clen a t0) as [clh t1]. cbn [snd] in W1.
  assert (W2 : forall conn t, t_wrote_header (bh_conn cap lower conn clh t) = t_wrote_header t).
  { intros conn t2. unfold bh_conn.
    repeat match goal with
           | |- context [if ?b then _ else _] => destruct b
           end; rewrite ?scof_wrote; cbn [t_wrote_header set_chunked set_rh]; rewrite ?scof_wrote; reflexivity. }
  assert (W3 : forall t, t_wrote_header (bh_server c a t) = t_wrote_header t).
  { intro t2. unfold bh_server. destruct (negb _); destruct (c_ident c); reflexivity. }
  assert (W4 : forall t, t_wrote_header (bh_date c a t) = t_wrote_header t).
  { intro t2. unfold bh_date. destruct (negb _); reflexivity. }
  rewrite W4, W3, W2, W1, W0. reflexivity.
Qed.

(* Task.write *)
Lemma Inv_task_write s data s' o :
  task_write cap lower c r disc s data = (s', o) -> Inv s -> Inv s'.
Proof.
  destruct s as [t ch]. unfold task_write.
  destruct (negb (t_complete t)); [intro H; inversion H; subst; auto|].
  intros H I.
  (* the header part *)
  assert (Hh : forall s1 o1,
     (if negb (t_wrote_header t)
      then match build_response_header cap lower c r t with
           | (t1, Exn e) => ((t1, ch), Exn e)
           | (t1, Ok rh) => match write_soon disc ch (WBytes rh) with
                            | (ch1, Exn e) => ((t1, ch1), Exn e)
                            | (ch1, Ok _) => ((set_wrote true t1, ch1), Ok tt)
                            end
           end
      else ((t, ch), Ok tt)) = (s1, o1) ->
     Inv s1 /\ (o1 = Ok tt -> t_wrote_header (fst s1) = true)).
  { intros s1 o1 E. destruct (t_wrote_header t) eqn:Ew; cbn [negb] in E.
    - inversion E; subst. split; auto.
    - destruct I as [I1 _]. destruct (I1 Ew) as [Hcl Hnil]. cbn [fst snd] in *.
      destruct (build_response_header cap lower c r t) as [t1 [rh|e]] eqn:Eb.
      + assert (Ht1 : t1 = bh_prepare cap lower c r t) by (unfold build_response_header in Eb; inversion Eb; auto).
        destruct (write_soon disc ch (WBytes rh)) as [ch1 [[]|e]] eqn:Ews.
        * inversion E; subst s1 o1. split; [|reflexivity].
          split; cbn [fst snd t_wrote_header set_wrote]; [discriminate|]. intros _.
          assert (Hne : exists x b', rh = x :: b').
          { unfold build_response_header, head_text in Eb. injection Eb as _ Hrh.
            eapply encode_nonempty; eauto. }
          destruct Hne as (x & b' & ->).
          apply write_soon_ok_nonempty in Ews.
          exists (x :: b'), []. rewrite Ews, Hnil. split; [reflexivity|]. exists t, t1. split; auto.
        * inversion E; subst s1 o1. split; [|discriminate].
          split; cbn [fst snd]; rewrite Ht1, bh_prepare_wrote, Ew; [intros _|discriminate].
          split. apply bh_prepare_clean; auto.
          apply write_soon_writes in Ews as [_ Hs]. rewrite (Hs e eq_refl). auto.
      + inversion E; subst s1 o1. split; [|discriminate].
        assert (Ht1 : t1 = bh_prepare cap lower c r t) by (unfold build_response_header in Eb; inversion Eb; auto).
        split; cbn [fst snd]; rewrite Ht1, bh_prepare_wrote, Ew; [intros _|discriminate].
        split; auto. apply bh_prepare_clean; auto. }
  destruct (if negb (t_wrote_header t) then _ else _) as [s1 [[]|e]] eqn:E.
  - destruct (Hh s1 (Ok tt) E) as [I1 W1]. specialize (W1 eq_refl). destruct s1 as [t1 ch1]. cbn [fst] in W1.
    (* the body part: wrote_header is true, writes only grow *)
    assert (Hgrow : forall t2 ch2, t_wrote_header t2 = true ->
                    (exists pre, ch_writes ch2 = pre ++ ch_writes ch1) -> Inv (t2, ch2)).
    { intros t2 ch2 W2 [pre Hp]. split; cbn [fst snd]; rewrite W2; [discriminate|]. intros _.
      destruct I1 as [_ I2]. destruct (I2 W1) as (h & rest & Hr & Hok). cbn [snd] in Hr.
      exists h, (pre ++ rest). rewrite Hp, Hr, app_assoc. auto. }
    destruct data as [|x data]; [inversion H; subst; auto|].
    destruct (has_body t1).
    + destruct (t_chunked t1).
      * destruct (to_hex_upper _ ++ _) as [|y tw] eqn:Et.
        -- inversion H; subst; auto.
        -- destruct (write_soon disc ch1 (WBytes (y :: tw))) as [ch2 o2] eqn:Ews.
           inversion H; subst. apply Hgrow; auto.
           apply write_soon_writes in Ews as [[Hs|[Hs _]] _]; rewrite Hs; [exists []|eexists [_]]; reflexivity.
      * destruct (t_clen t1) as [cl|].
        -- destruct (py_slice_to _ _) as [|y tw] eqn:Et.
           ++ inversion H; subst. apply Hgrow; auto. exists []. reflexivity.
           ++ destruct (write_soon disc ch1 (WBytes (y :: tw))) as [ch2 o2] eqn:Ews.
              inversion H; subst. apply Hgrow; auto.
              apply write_soon_writes in Ews as [[Hs|[Hs _]] _]; rewrite Hs; [exists []|eexists [_]]; reflexivity.
        -- destruct (write_soon disc ch1 (WBytes (x :: data))) as [ch2 o2] eqn:Ews.
           inversion H; subst. apply Hgrow; auto.
           apply write_soon_writes in Ews as [[Hs|[Hs _]] _]; rewrite Hs; [exists []|eexists [_]]; reflexivity.
    + inversion H; subst. apply Hgrow; auto. exists []. reflexivity.
  - destruct (Hh s1 (Exn e) E) as [I1 _]. inversion H; subst. auto.
Qed.

End Run.
