(* Proof/ChanExpect.v -- the theorems of C19 about the interleaving model
   Model/ChanExpect.v, for every schedule. *)
From Coq Require Import List Arith Bool Lia.
From RecordUpdate Require Import RecordUpdate.
From WV Require Import Model.ChanExpect Proof.ChanExpectBase Proof.ChanExpectLog Proof.ChanExpectCount.
Import ListNotations.

Record Inv (s : state) : Prop := { iA : InvA s; iB : InvB s; iC : InvC s }.

Lemma Inv_init : Inv init.
Proof. constructor; [apply InvA_init|apply InvB_init|apply InvC_init]. Qed.

Lemma InvC_step : forall s c s' l, InvA s -> InvB s -> InvC s -> step s c = Some (s', l) -> InvC s'.
Proof.
  intros s c s' l HA HB HC H.
  pose proof (InvC_easy s c s' l HA HC H) as E.
  destruct c; auto.
  - eapply InvC_CIOParse; eauto.
  - eapply InvC_CIOSend; eauto.
  - eapply InvC_CWKeep; eauto.
  - eapply InvC_CWSend; eauto.
Qed.

Lemma Inv_step : forall s c s' l, Inv s -> step s c = Some (s', l) -> Inv s'.
Proof.
  intros s c s' l [HA HB HC] H. constructor.
  - eapply InvA_step; eauto.
  - eapply InvB_step; eauto.
  - eapply InvC_step; eauto.
Qed.

Lemma run_snoc : forall sched c, run_tr (sched ++ [c]) = exec1 (run_tr sched) c.
Proof. intros. unfold run_tr. rewrite fold_left_app. reflexivity. Qed.

Theorem Inv_run : forall sched, Inv (run sched).
Proof.
  induction sched as [|c sched IH] using rev_ind.
  - exact Inv_init.
  - unfold run in *. rewrite run_snoc. unfold exec1.
    destruct (step (fst (run_tr sched)) c) as [[s' l]|] eqn:E; simpl.
    + eapply Inv_step; eauto.
    + exact IH.
Qed.

(* a property of every transition taken from a reachable state *)
Lemma reachable_step : forall (P : state -> choice -> state -> list label -> Prop),
  (forall s c s' l, Inv s -> step s c = Some (s', l) -> P s c s' l) ->
  forall sched c s' l, step (run sched) c = Some (s', l) -> P (run sched) c s' l.
Proof. intros P H sched c s' l E. apply H; [apply Inv_run|assumption]. Qed.

(* ---- C19_count ----------------------------------------------------------- *)

(* at most one interim response per request (parser object) *)
Theorem count_le_one : forall sched i, cnt i (outlog (run sched)) <= 1.
Proof. intros sched i. apply (C_cnt _ (iC _ (Inv_run sched))). Qed.

(* a client that waits is not left waiting: whenever nobody is inside a critical
   section of requests_lock, the connection is up and not closing, and the
   request at the head of the line (no request queued or in service before it)
   has finished its header block asking for 100-continue, the interim response
   HAS BEEN appended, exactly once, and the flag is consumed *)
Theorem never_left_waiting : forall sched q,
  let s := run sched in
  rlock s = false -> connected s = true -> close_when_flushed s = false ->
  requests s = [] -> request s = Some q -> a_hf q = true -> g_asked q = true ->
  cnt (rid q) (outlog s) = 1 /\ a_expect q = false /\ sent_continue s = true.
Proof.
  intros sched q s Hrl Hcon Hcwf Hrs Hq Hhf Hask.
  destruct (Inv_run sched) as [HA HB HC]. fold s in HA, HB, HC.
  assert (Hns : is_sending s = false).
  { unfold is_sending. destruct (A_lock s HA) as [_ L].
    destruct (io s) eqn:Eio.
    - simpl. destruct (existsb is_wsend (active s)) eqn:Ex; [|reflexivity].
      apply existsb_exists in Ex. destruct Ex as (w & Hw & Hw2). destruct w; try discriminate.
      rewrite L in Hrl; [discriminate|right; assumption].
    - rewrite L in Hrl; [discriminate|left; discriminate].
    - rewrite L in Hrl; [discriminate|left; discriminate]. }
  pose proof (C_good s HC q Hq) as G. unfold good_cur in G. rewrite Hns in G.
  destruct G as (G1 & G2 & G3).
  assert (He : a_expect q = false).
  { destruct (a_expect q) eqn:E; [|reflexivity]. exfalso. eapply (C_wait s HC); eauto. }
  unfold sent_for in *. rewrite Hask, He in *. simpl in *. auto.
Qed.

(* while an earlier request is queued or in service the interim response is
   deferred: the flag is still set and nothing has been sent for the object *)
Theorem deferred_while_queued : forall sched q,
  let s := run sched in
  rlock s = false -> request s = Some q -> a_expect q = true ->
  cnt (rid q) (outlog s) = 0.
Proof.
  intros sched q s Hrl Hq He.
  destruct (Inv_run sched) as [HA HB HC]. fold s in HA, HB, HC.
  assert (Hns : is_sending s = false).
  { unfold is_sending. destruct (A_lock s HA) as [_ L].
    destruct (io s) eqn:Eio.
    - simpl. destruct (existsb is_wsend (active s)) eqn:Ex; [|reflexivity].
      apply existsb_exists in Ex. destruct Ex as (w & Hw & Hw2). destruct w; try discriminate.
      rewrite L in Hrl; [discriminate|right; assumption].
    - rewrite L in Hrl; [discriminate|left; discriminate].
    - rewrite L in Hrl; [discriminate|left; discriminate]. }
  pose proof (C_good s HC q Hq) as G. unfold good_cur in G. rewrite Hns in G.
  destruct G as (G1 & G2 & G3). unfold sent_for in G2. rewrite He, andb_false_r in G2. assumption.
Qed.

(* the two sending sites exclude each other: both run under requests_lock, at
   most one worker is inside service() of the channel, and a worker in
   send_continue excludes the I/O thread from received() *)
Theorem senders_exclusive : forall sched,
  let s := run sched in
  (rlock s = true <-> (io s <> IOIdle \/ In WSend (active s))) /\
  length (active s) + queued s <= 1 /\
  ~ (io s <> IOIdle /\ In WSend (active s)).
Proof.
  intros sched s. destruct (Inv_run sched) as [HA _ _]. fold s in HA.
  split; [apply (A_lock s HA)|]. split; [apply (A_one s HA)|].
  intros [H1 H2]. pose proof (A_wk s HA WSend H2) as W. simpl in W.
  destruct W as (_ & _ & W & _). auto.
Qed.

Lemma io_complete_no_interim : forall s m s' l i w, io_complete s m = (s', l) -> ~ In (LInterim i w) l.
Proof.
  intros s m s' l i w H Hin. unfold io_complete in H.
  destruct (request s) as [q|]; [destruct (a_completed q); [destruct (a_empty q); simpl in H|]|].
  all: repeat match type of H with context[if ?c then _ else _] => destruct c end; inv_some.
  all: simpl in Hin; repeat (destruct Hin as [Hin|Hin]; try discriminate); tauto.
Qed.

Lemma parse_no_interim : forall s ev more s' l i w,
  step s (CIOParse ev more) = Some (s', l) -> ~ In (LInterim i w) l.
Proof.
  intros s ev more s' l i w H Hin. simpl in H.
  destruct (io s); try discriminate.
  destruct (request s) as [q|].
  - destruct (astep q ev) as [q1|]; try discriminate. simpl in H.
    match type of H with (if ?c then _ else _) = _ => destruct c end.
    + inv_some. simpl in Hin. tauto.
    + match type of H with (let '(_, _) := ?x in _) = _ => destruct x as [s2 l2] eqn:Ec end.
      inv_some. simpl in Hin. eapply io_complete_no_interim; eauto.
  - destruct (astep (fresh_req (next_id s)) ev) as [q1|]; try discriminate. simpl in H.
    match type of H with (if ?c then _ else _) = _ => destruct c end.
    + inv_some. simpl in Hin. destruct Hin as [Hin|[]]. discriminate.
    + match type of H with (let '(_, _) := ?x in _) = _ => destruct x as [s2 l2] eqn:Ec end.
      inv_some. simpl in Hin. destruct Hin as [Hin|Hin]; [discriminate|].
      eapply io_complete_no_interim; eauto.
Qed.

Lemma do_send_labels : forall s w0 s' l i w q, do_send s w0 = (s', l) -> request s = Some q ->
  In (LInterim i w) l -> i = rid q /\ w = w0.
Proof.
  intros s w0 s' l i w q H Hq Hin. unfold do_send in H. rewrite Hq in H.
  destruct (a_completed q); inv_some; simpl in Hin;
    repeat (destruct Hin as [Hin|Hin]; try discriminate); try tauto; inversion Hin; auto.
Qed.

(* every interim response is appended by a thread that holds requests_lock, for
   the object under construction, whose header block is finished, when no
   request is queued or in service before it *)
Theorem interim_site : forall sched c s' l i w,
  step (run sched) c = Some (s', l) -> In (LInterim i w) l ->
  let s := run sched in
  rlock s = true /\ requests s = [] /\
  (exists q, request s = Some q /\ rid q = i /\ a_hf q = true /\ g_asked q = true) /\
  outlog s' = outlog s ++ [TInterim i w] /\
  (c = CIOSend /\ w = false \/ exists k, c = CWSend k /\ w = true).
Proof.
  intros sched c s' l i w H Hin s.
  destruct (Inv_run sched) as [HA HB HC]. fold s in HA, HB, HC, H.
  destruct c.
  - exfalso. simpl in H. destruct (io s); try discriminate. destruct (rlock s); try discriminate.
    destruct (will_close s || close_when_flushed s); inv_some; simpl in Hin; intuition discriminate.
  - exfalso. eapply parse_no_interim; eauto.
  - simpl in H. destruct (io s) as [| |more] eqn:Eio; try discriminate.
    destruct (do_send s false) as [s1 l1] eqn:Ed.
    destruct (io_complete s1 more) as [s2 l2] eqn:Ec. inv_some.
    destruct (A_iosend s HA more Eio) as [Ers [q Eq]].
    pose proof (do_send_spec _ _ _ _ Ed q Eq) as D.
    destruct D as (D1 & D2 & D3 & D4 & D5 & D6 & D7 & D8 & D9 & D10 & D11 & D12 & D13 & D14).
    pose proof (io_complete_spec _ _ _ _ Ec) as S.
    destruct S as (S1 & S2 & S3 & S4 & S5 & S6 & S8 & S9 & S10 & S11).
    apply in_app_or in Hin. destruct Hin as [Hin|Hin]; [|exfalso; eapply io_complete_no_interim; eauto].
    destruct (do_send_labels _ _ _ _ _ _ _ Ed Eq Hin) as [-> ->].
    assert (Hs : is_sending s = true) by (unfold is_sending; rewrite Eio; reflexivity).
    destruct (C_sending s HC Hs q Eq) as [Hask Hhf].
    split; [apply (A_lock s HA); left; congruence|]. split; [assumption|].
    split; [exists q; auto|]. split; [congruence|]. left. auto.
  - exfalso. simpl in H. destruct (queued s); try discriminate. inv_some. simpl in Hin. tauto.
  - exfalso. simpl in H. destruct (nth_error (active s) i0) as [[]|]; try discriminate.
    destruct (requests s); inv_some; simpl in Hin; intuition discriminate.
  - exfalso. simpl in H. destruct (nth_error (active s) i0) as [[]|]; try discriminate. inv_some.
    simpl in Hin; intuition discriminate.
  - exfalso. simpl in H. destruct (nth_error (active s) i0) as [[]|]; try discriminate. inv_some. simpl in Hin. tauto.
  - exfalso. simpl in H. destruct (nth_error (active s) i0) as [[]|]; try discriminate.
    destruct (rlock s); try discriminate. inv_some. simpl in Hin; intuition discriminate.
  - exfalso. simpl in H. destruct (nth_error (active s) i0) as [[]|]; try discriminate.
    destruct (rlock s); try discriminate. destruct (requests s) as [|r rest]; [inv_some; simpl in Hin; tauto|].
    cbn [connected requests request sent_continue set eta_state] in H.
    destruct (connected s && negb (is_nil rest)); [inv_some; simpl in Hin; intuition discriminate|].
    destruct (connected s && wants_continue (s <| requests := rest |>)).
    + destruct (request s); try discriminate. inv_some. simpl in Hin; intuition discriminate.
    + inv_some. simpl in Hin; intuition discriminate.
  - simpl in H. destruct (nth_error (active s) i0) as [w0|] eqn:En; try discriminate.
    destruct w0; try discriminate.
    destruct (do_send s true) as [s1 l1] eqn:Ed. inv_some.
    destruct (worker_at _ _ _ HA En) as (Hact & -> & Hq).
    pose proof (A_wk s HA WSend) as W. rewrite Hact in W. specialize (W (or_introl eq_refl)).
    simpl in W. destruct W as (Ers & Erl & Eio & q & Eq).
    pose proof (do_send_spec _ _ _ _ Ed q Eq) as D.
    destruct D as (D1 & D2 & D3 & D4 & D5 & D6 & D7 & D8 & D9 & D10 & D11 & D12 & D13 & D14).
    destruct (do_send_labels _ _ _ _ _ _ _ Ed Eq Hin) as [-> ->].
    assert (Hs : is_sending s = true).
    { unfold is_sending. rewrite Hact. simpl. apply orb_true_r. }
    destruct (C_sending s HC Hs q Eq) as [Hask Hhf].
    split; [assumption|]. split; [assumption|].
    split; [exists q; auto|]. split; [simpl; congruence|]. right. eauto.
  - exfalso. simpl in H. destruct (io s); try discriminate. inv_some. simpl in Hin. tauto.
  - exfalso. simpl in H. inv_some. simpl in Hin. tauto.
Qed.

(* ---- C19_place ---------------------------------------------------------- *)

Theorem log_ordered : forall sched, ordered (outlog (run sched)).
Proof. intros. apply (B_ord _ (iB _ (Inv_run sched))). Qed.

(* where the interim response of object i sits in the sequence of appends:
   every chunk of a final response appended before it belongs to an earlier
   request, every chunk appended after it to request i or a later one *)
Theorem interim_position : forall sched l1 i w l2,
  outlog (run sched) = l1 ++ TInterim i w :: l2 ->
  (forall j, In (TFinal j) l1 -> j < i) /\
  (forall j, In (TFinal j) l2 -> i <= j) /\
  (forall j w', In (TInterim j w') l1 -> j <= i) /\
  (forall j w', In (TInterim j w') l2 -> i <= j).
Proof.
  intros sched l1 i w l2 E. pose proof (log_ordered sched) as O. rewrite E in O.
  apply ordered_split in O. destruct O as [O1 O2]. rewrite Forall_forall in O1, O2.
  repeat split; intros.
  - specialize (O1 _ H). simpl in O1. lia.
  - specialize (O2 _ H). simpl in O2. lia.
  - specialize (O1 _ H). simpl in O1. lia.
  - specialize (O2 _ H). simpl in O2. lia.
Qed.

(* ---- C19_none ------------------------------------------------------------ *)

Definition ev_asks (ev : pev) : bool :=
  match ev with
  | EvHead431 (Some true) _ => true
  | EvHead (Some true) _ _ => true
  | _ => false
  end.

Definition quiet (s : state) : Prop :=
  askers s = [] /\ forall q, request s = Some q -> g_asked q = false.

Lemma astep_quiet : forall q ev q', astep q ev = Some q' -> ev_asks ev = false ->
  g_asked q = false -> g_asked q' = false.
Proof.
  intros q ev q' H He Hq. unfold astep in H.
  destruct (a_completed q); [destruct ev; inv_some; auto|].
  destruct (a_body q); [destruct ev; inv_some; auto|].
  destruct ev as [|[[]|] b| |[[]|] b c|c]; simpl in He; try discriminate; simpl in H;
    try (destruct (b || c)); inv_some; simpl; rewrite ?Hq; auto.
Qed.

Lemma quiet_step : forall s c s' l, quiet s -> step s c = Some (s', l) ->
  (forall ev more, c = CIOParse ev more -> ev_asks ev = false) -> quiet s'.
Proof.
  intros s c s' l [Q1 Q2] H Hev. destruct c; simpl in H.
  - destruct (io s); try discriminate. destruct (rlock s); try discriminate.
    destruct (will_close s || close_when_flushed s); inv_some; split; auto.
  - specialize (Hev ev more eq_refl).
    destruct (step_parse_inv _ _ _ _ _ H) as (Eio & q0 & fresh & q1 & Hq0 & Ha & Hcase). clear H.
    assert (Hq1 : g_asked q1 = false).
    { eapply astep_quiet; eauto. destruct (request s) as [q|]; destruct Hq0 as [-> _]; auto. }
    pose proof (after_parse_fields s q1 fresh) as F. cbv zeta in F, Hcase.
    set (s1 := after_parse s q1 fresh) in *.
    destruct F as (F1 & F2 & F3 & F4 & F5 & F6 & F7 & F8 & F9 & F10 & F11 & F13 & F14).
    rewrite Hq1 in F14.
    destruct Hcase as [[Hw ->]|[Hw [l' Hc]]].
    + split; simpl; [congruence|]. intros q Hq. inv_some. simpl. assumption.
    + pose proof (io_complete_spec _ _ _ _ Hc) as S.
      destruct S as (S1 & S2 & S3 & S4 & S5 & S6 & S8 & S9 & S10 & S11).
      split; [congruence|].
      destruct S11 as [(q & _ & _ & _ & Sr & _)|[(q & _ & _ & _ & Sr & _)|(_ & Sr & _)]];
        rewrite Sr; try discriminate. rewrite F1. intros q Hq. inv_some. assumption.
  - destruct (io s) as [| |more] eqn:Eio; try discriminate.
    destruct (do_send s false) as [s1 l1] eqn:Ed.
    destruct (io_complete s1 more) as [s2 l2] eqn:Ec. inv_some.
    unfold do_send in Ed. destruct (request s) as [q|] eqn:Eq.
    + assert (D : askers s1 = [] /\ request s1 = Some q).
      { inv_some; simpl; auto. }
      destruct D as [D1 D2].
      pose proof (io_complete_spec _ _ _ _ Ec) as S.
      destruct S as (S1 & S2 & S3 & S4 & S5 & S6 & S8 & S9 & S10 & S11).
      split; [congruence|].
      destruct S11 as [(q' & _ & _ & _ & Sr & _)|[(q' & _ & _ & _ & Sr & _)|(_ & Sr & _)]];
        rewrite Sr; try discriminate. rewrite D2. intros q' Hq'. inv_some. simpl. auto.
    + inv_some.
      pose proof (io_complete_spec _ _ _ _ Ec) as S.
      destruct S as (S1 & S2 & S3 & S4 & S5 & S6 & S8 & S9 & S10 & S11).
      split; [congruence|].
      destruct S11 as [(q' & Sq & _)|[(q' & Sq & _)|(_ & Sr & _)]]; try congruence;
        try (rewrite Sr, Eq; discriminate).
  - destruct (queued s); try discriminate. inv_some. split; auto.
  - destruct (nth_error (active s) i) as [[]|]; try discriminate.
    destruct (requests s); inv_some; split; auto.
  - destruct (nth_error (active s) i) as [[]|]; try discriminate. inv_some. split; auto.
  - destruct (nth_error (active s) i) as [[]|]; try discriminate. inv_some. split; auto.
  - destruct (nth_error (active s) i) as [[]|]; try discriminate.
    destruct (rlock s); try discriminate. inv_some. split; auto.
  - destruct (nth_error (active s) i) as [[]|]; try discriminate.
    destruct (rlock s); try discriminate. destruct (requests s) as [|r rest]; [inv_some; split; auto|].
    cbn [connected requests request sent_continue set eta_state] in H.
    destruct (connected s && negb (is_nil rest)); [inv_some; split; auto|].
    destruct (connected s && wants_continue (s <| requests := rest |>)).
    + destruct (request s) as [q|] eqn:Eq; try discriminate. inv_some. split; auto.
      simpl. intros q' Hq'. inv_some. simpl. auto.
    + inv_some. split; auto.
  - destruct (nth_error (active s) i) as [[]|]; try discriminate.
    destruct (do_send s true) as [s1 l1] eqn:Ed. inv_some.
    unfold do_send in Ed. destruct (request s) as [q|] eqn:Eq.
    + inv_some; split; simpl; auto. rewrite Eq. assumption.
    + inv_some. split; simpl; auto. rewrite Eq. discriminate.
  - destruct (io s); try discriminate. inv_some. split; auto.
  - inv_some. split; auto.
Qed.

Lemma quiet_run : forall sched,
  (forall ev more, In (CIOParse ev more) sched -> ev_asks ev = false) -> quiet (run sched).
Proof.
  induction sched as [|c sched IH] using rev_ind; intros H.
  - split; [reflexivity|discriminate].
  - unfold run in *. rewrite run_snoc. unfold exec1.
    assert (IH' : quiet (fst (run_tr sched))).
    { apply IH. intros ev more Hin. apply (H ev more). apply in_or_app. left. assumption. }
    destruct (step (fst (run_tr sched)) c) as [[s' l]|] eqn:E; simpl; [|assumption].
    eapply quiet_step; eauto. intros ev more ->. apply (H ev more). apply in_or_app. right. left. reflexivity.
Qed.

(* an interim response is only ever appended for an object into which a head was
   parsed that set expect_continue *)
Theorem interim_only_if_asked : forall sched i w,
  In (TInterim i w) (outlog (run sched)) -> In i (askers (run sched)).
Proof. intros sched i w. apply (C_asked _ (iC _ (Inv_run sched))). Qed.

(* no parser call sets the flag (HTTP/1.0, no Expect field, another
   expectation) => no interim response, on any schedule *)
Theorem no_interim_unless_asked : forall sched,
  (forall ev more, In (CIOParse ev more) sched -> ev_asks ev = false) ->
  forall i w, ~ In (TInterim i w) (outlog (run sched)).
Proof.
  intros sched H i w Hin. apply interim_only_if_asked in Hin.
  destruct (quiet_run sched H) as [Q _]. rewrite Q in Hin. exact Hin.
Qed.

(* ---- C19_once (the part that belongs here) -------------------------------- *)

(* a queued request is complete, not empty, and exactly its own header block was
   parsed into it (none for the 431 stub) *)
Theorem queued_own_head : forall sched r,
  In r (requests (run sched)) ->
  a_completed r = true /\ a_empty r = false /\ g_heads r <= 1.
Proof. intros sched r. apply (C_queued _ (iC _ (Inv_run sched))). Qed.

(* the request is never lost: except inside a turn of received() that is about to
   call send_continue, the object under construction is NOT completed -- a
   completed request has been queued (or dropped as empty) in the step that
   completed it or in the send_continue step that follows *)
Theorem completed_never_kept : forall sched q,
  (forall m, io (run sched) <> IOSend m) -> request (run sched) = Some q -> a_completed q = false.
Proof. intros sched q H. apply (C_nc _ (iC _ (Inv_run sched)) H). Qed.

(* and the step that ends the turn queues it: after CIOSend nothing completed stays *)
Theorem send_then_queue : forall sched s' l,
  step (run sched) CIOSend = Some (s', l) ->
  forall q, request (run sched) = Some q -> a_completed q = true ->
  request s' = None /\ sent_continue s' = false /\
  (a_empty q = false -> requests s' = [q] /\ In (LQueue (rid q)) l /\ In LAddTask l).
Proof.
  intros sched s' l H q Hq Hc. set (s := run sched) in *.
  destruct (Inv_run sched) as [HA HB HC]. fold s in HA, HB, HC.
  simpl in H. destruct (io s) as [| |more] eqn:Eio; try discriminate.
  destruct (do_send s false) as [s1 l1] eqn:Ed.
  destruct (io_complete s1 more) as [s2 l2] eqn:Ec. inv_some.
  destruct (A_iosend s HA more Eio) as [Ers _].
  pose proof (do_send_spec _ _ _ _ Ed q Hq) as D.
  destruct D as (D1 & D2 & D3 & D4 & D5 & D6 & D7 & D8 & D9 & D10 & D11 & D12 & D13 & D14).
  unfold io_complete in Ec. rewrite D13, Hc in Ec.
  destruct (a_empty q) eqn:Ee; simpl in Ec.
  - destruct more; inv_some; simpl; repeat split; auto; discriminate.
  - rewrite D1, Ers in Ec. simpl in Ec.
    destruct more; inv_some; simpl; repeat split; auto;
      apply in_or_app; right; simpl; auto.
Qed.

(* ---- the hypotheses are satisfiable: concrete schedules ------------------- *)

(* GET /a complete, then the head of an expecting POST /b in the same read while
   /a is queued; the worker serves /a and sends the interim response for /b *)
Definition sched_worker_sends : list choice :=
  [CIOEnter; CIOParse (EvHead None false true) true; CIOParse (EvHead (Some true) true false) false;
   CTake; CWBegin 0; CWWrite 0; CWEnd 0 false; CWKeep 0; CWSend 0].

Example ex_worker_sends :
  outlog (run sched_worker_sends) = [TFinal 0; TInterim 1 true] /\
  rlock (run sched_worker_sends) = false /\ requests (run sched_worker_sends) = [] /\
  (exists q, request (run sched_worker_sends) = Some q /\ rid q = 1 /\ a_hf q = true /\ g_asked q = true).
Proof. vm_compute. repeat split. eexists. repeat split. Qed.

(* the expecting request is at the head of the line: the I/O thread answers *)
Definition sched_io_sends : list choice :=
  [CIOEnter; CIOParse (EvHead (Some true) true false) false; CIOSend;
   CIOEnter; CIOParse (EvBody true) false; CTake; CWBegin 0; CWWrite 0].

Example ex_io_sends :
  outlog (run sched_io_sends) = [TInterim 0 false; TFinal 0].
Proof. vm_compute. auto. Qed.

(* the class of the former findings F5/F6: a request complete at the end of its
   header block gets its (one) interim response and is queued at once *)
Definition sched_complete_at_head : list choice :=
  [CIOEnter; CIOParse (EvHead (Some true) false true) false; CIOSend].

Example ex_complete_at_head :
  outlog (run sched_complete_at_head) = [TInterim 0 false] /\
  map rid (requests (run sched_complete_at_head)) = [0] /\
  queued (run sched_complete_at_head) = 1 /\ request (run sched_complete_at_head) = None /\
  sent_continue (run sched_complete_at_head) = false.
Proof. vm_compute. repeat split. Qed.
