(* C01, composition, step 1: the head of one message.  What Parser.received
   makes of a stream that is offered to a FRESH parser in one call, against
   what the reference makes of the head it reads from the same stream: the
   same number of bytes consumed (T4a), the same refusal, or the same request
   line, field dict and framing decision (T1, T3 through C01_T13), including
   the leading empty lines, the whitespace around the request line, the 431
   limit and the 413 limit on a declared Content-Length. *)
From Coq Require Import List NArith ZArith Bool Lia Arith.
From RecordUpdate Require Import RecordUpdate.
From WV Require Import Lib.PyBytes Lib.Regex Gen.GenRegex Model.Receiver Model.UrlSplit Model.Parser Spec.Ref9112.
From WV Require Import Proof.PyBytesFacts Proof.ReceiverTotal Proof.ParserTotal Proof.SplitParser.
From WV Require Import Proof.C01Lib Proof.C01Body Proof.C01Block Proof.C01Boundary Proof.C01Head Proof.C01Framing
  Proof.C01ReqLine Proof.C01ParseHeader Proof.C01Observe Proof.C01ComposeLib.
Import ListNotations.
Local Open Scope N_scope.

Definition ne (l : bytes) : Prop := l <> [].

(* ---------------------------------------------------------------- *)
(* the lines of a head: only the first may be empty *)

Lemma read_head_shape_gen : forall n0 s, (length s <= n0)%nat -> forall cur acc n lines rest k,
  read_head s cur acc n = Some (lines, rest, k) ->
  exists more, lines = rev acc ++ more /\
    match acc with
    | [] => exists l0 tl, more = l0 :: tl /\ Forall ne tl
    | _ :: _ => Forall ne more
    end.
Proof.
  induction n0 as [|n0 IH]; intros s Hn cur acc n lines rest k.
  { destruct s; [discriminate|cbn in Hn; lia]. }
  destruct s as [|x [|y r']]; try discriminate. cbn [read_head].
  destruct ((x =? 13) && (y =? 10)).
  - assert (Hrec : forall line, (acc <> [] -> line <> []) ->
        read_head r' [] (line :: acc) (n + 2) = Some (lines, rest, k) ->
        exists more, lines = rev acc ++ more /\
          match acc with
          | [] => exists l0 tl, more = l0 :: tl /\ Forall ne tl
          | _ :: _ => Forall ne more
          end).
    { intros line Hline H0.
      destruct (IH r' ltac:(cbn [length] in Hn; lia) [] (line :: acc) (n + 2) lines rest k H0) as (more' & E & F).
      exists (line :: more'). split.
      - rewrite E. cbn [rev]. rewrite <- app_assoc. reflexivity.
      - destruct acc as [|a0 acc'].
        + exists line, more'. auto.
        + constructor; auto. apply Hline. discriminate. }
    destruct cur as [|c cur'].
    + destruct acc as [|a0 acc'].
      * intro H. apply (Hrec []); [congruence | exact H].
      * intro H. injection H as <- <- <-. exists []. rewrite app_nil_r. split; auto.
    + intro H. apply (Hrec (rev (c :: cur'))); [|exact H].
      intros _ E. apply (f_equal (@length N)) in E. rewrite rev_length in E. discriminate.
  - intro H. apply (IH (y :: r') ltac:(cbn [length] in *; lia) (x :: cur) acc (n + 1) lines rest k H).
Qed.

Lemma read_head_shape s lines rest n : read_head s [] [] 0 = Some (lines, rest, n) ->
  exists l0 tl, lines = l0 :: tl /\ Forall ne tl.
Proof.
  intro H. destruct (read_head_shape_gen (length s) s ltac:(lia) [] [] 0 lines rest n H) as (more & -> & l0 & tl & -> & F).
  exists l0, tl. auto.
Qed.

(* ---------------------------------------------------------------- *)
(* where the head is in the stream *)

Lemma head_geometry s lines rest n i :
  read_head s [] [] 0 = Some (lines, rest, n) -> find_double_newline s = Some i ->
  n = N.of_nat i /\ rest = skipn i s /\ firstn i s = block_of lines ++ CRLF /\ (4 <= i <= length s)%nat
  /\ forallb crlf_free lines = true /\ s = (block_of lines ++ CRLF) ++ rest.
Proof.
  intros Hrh Hi. pose proof (head_boundary s) as HB. rewrite Hrh, Hi in HB. destruct HB as [-> ->].
  destruct (read_head_lines s lines (skipn i s) (N.of_nat i) Hrh) as [Es Hf].
  apply fdn_Some in Hi as (j & Hj & ->). pose proof (find_bound _ _ _ Hj) as B.
  change (length CRLFCRLF) with 4%nat in B.
  repeat split; auto; try lia.
  assert (L : length (block_of lines ++ CRLF) = (j + 4)%nat).
  { apply (f_equal (@length N)) in Es. rewrite app_length, skipn_length in Es. lia. }
  rewrite Es at 1. rewrite <- L. apply firstn_length_app.
Qed.

(* ---------------------------------------------------------------- *)
(* the head block after the leading CRLFs are removed *)

Lemma block_cons l ls : block_of (l :: ls) = l ++ CRLF ++ block_of ls.
Proof. unfold block_of. cbn [map concat]. rewrite <- app_assoc. reflexivity. Qed.

Lemma nonempty_ne_b (l : bytes) : l <> [] -> nonempty l = true.
Proof. destruct l; [congruence|reflexivity]. Qed.

Lemma stripped_block l0 tl f : Forall ne tl -> forallb crlf_free (l0 :: tl) = true ->
  (length (block_of (l0 :: tl) ++ CRLF) <= f)%nat ->
  match drop_leading (l0 :: tl) with
  | [] => strip_leading_crlf f (block_of (l0 :: tl) ++ CRLF) = []
  | rl :: flines =>
      strip_leading_crlf f (block_of (l0 :: tl) ++ CRLF) = head_block rl flines
      /\ rl <> [] /\ Forall ne flines /\ crlf_free rl = true /\ forallb crlf_free flines = true
      /\ infix rl (block_of (l0 :: tl)) /\ Forall (fun l => infix l (block_of (l0 :: tl))) flines
  end.
Proof.
  intros Hne Hfree Hlen.
  assert (Hin : forall ls pre, Forall (fun l => infix l (pre ++ block_of ls)) ls).
  { induction ls as [|l ls IH]; intro pre; constructor.
    - rewrite block_cons. apply infix_mid.
    - rewrite block_cons. replace (pre ++ l ++ CRLF ++ block_of ls) with ((pre ++ l ++ CRLF) ++ block_of ls)
        by (rewrite <- !app_assoc; reflexivity). apply IH. }
  cbn [forallb] in Hfree. apply andb_true_iff in Hfree as [Hf0 Hft].
  destruct l0 as [|c l0'].
  - (* first line empty *)
    cbn [drop_leading nonempty]. destruct tl as [|rl flines].
    + cbn [drop_leading]. rewrite (strip_crlf_fuel f 4); [reflexivity | exact Hlen | cbn; lia].
    + inversion Hne as [|? ? Hrl Hfl]; subst.
      cbn [drop_leading]. rewrite (nonempty_ne_b rl Hrl).
      cbn [forallb] in Hft. apply andb_true_iff in Hft as [Hfr Hff].
      split; [|repeat split; auto].
      * rewrite block_cons. cbn [app]. destruct f as [|f']; [cbn in Hlen; lia|].
        rewrite block_cons.
        change (13 :: 10 :: (rl ++ CRLF ++ block_of flines) ++ CRLF)
          with (13 :: 10 :: ((rl ++ CRLF ++ block_of flines) ++ CRLF)).
        rewrite strip_leading_crlf_step. cbn [N.eqb Pos.eqb andb].
        unfold head_block. rewrite <- !app_assoc. apply strip_crlf_line; auto.
      * rewrite !block_cons. apply infix_app_r. apply (infix_mid rl CRLF).
      * rewrite block_cons. cbn [app]. rewrite block_cons.
        specialize (Hin flines (CRLF ++ rl ++ CRLF)). rewrite <- !app_assoc in Hin. exact Hin.
  - cbn [drop_leading nonempty]. split; [|repeat split; auto; try discriminate].
    + rewrite block_cons. unfold head_block. rewrite <- !app_assoc. apply strip_crlf_line; [discriminate|auto].
    + rewrite block_cons. apply infix_prefix.
    + rewrite block_cons. specialize (Hin tl ((c :: l0') ++ CRLF)). rewrite <- !app_assoc in Hin. exact Hin.
Qed.

(* ---------------------------------------------------------------- *)
(* parse_header: the first line *)

Lemma skipn_line {A} (l c X : list A) : skipn (length l + length c) (l ++ c ++ X) = X.
Proof.
  replace (length l + length c)%nat with (length (l ++ c)) by (rewrite app_length; reflexivity).
  rewrite (app_assoc l c), skipn_length_app. reflexivity.
Qed.

Lemma skipn_line2 (l X : bytes) : skipn (length l + 2) (l ++ CRLF ++ X) = X.
Proof. exact (skipn_line l CRLF X). Qed.

(* the block starts with a bare LF: refused *)
Lemma ph_bare_lf a p l Y : crlf_free l = true ->
  parse_header a p ((10 :: l) ++ CRLF ++ Y) = (p, PSError EBareCRLFFirstLine).
Proof.
  intro Hf. rewrite parse_header_eq.
  rewrite (find_line (10 :: l) Y) by (cbn [crlf_free]; rewrite Hf; reflexivity).
  cbv zeta. rewrite firstn_length_app.
  destruct (rstrip_cons_keep is_reqline_ws 10 l eq_refl) as (r & ->).
  unfold has_cr_or_lf. replace (memb 10 (10 :: r)) with true by reflexivity.
  rewrite orb_true_r. reflexivity.
Qed.

(* only the stripped first line and the field block matter *)
Lemma ph_first_line a p l1 l2 B : crlf_free l1 = true -> crlf_free l2 = true ->
  rstrip_by is_reqline_ws l1 = rstrip_by is_reqline_ws l2 ->
  parse_header a p (l1 ++ CRLF ++ B) = parse_header a p (l2 ++ CRLF ++ B).
Proof.
  intros H1 H2 E. rewrite !parse_header_eq.
  rewrite (find_line l1 B H1), (find_line l2 B H2). cbv zeta.
  rewrite !firstn_length_app, E.
  rewrite (skipn_line2 l1 B), (skipn_line2 l2 B). reflexivity.
Qed.

(* a first line with a CR or LF byte left after stripping: refused *)
Lemma ph_crlf_first a p l B : crlf_free l = true ->
  has_crlf_byte (rstrip_by is_reqline_ws l) = true ->
  parse_header a p (l ++ CRLF ++ B) = (p, PSError EBareCRLFFirstLine).
Proof.
  intros H1 H2. rewrite parse_header_eq. rewrite (find_line l B H1). cbv zeta.
  rewrite firstn_length_app, has_cr_or_lf_ref, H2. reflexivity.
Qed.

(* ---------------------------------------------------------------- *)
(* the request line of the reference has no CR / LF byte, and its target is
   a substring of the line *)

Lemma no_crlf_forallb (P : N -> bool) l :
  (forall x, P x = true -> (x =? 13) || (x =? 10) = false) -> forallb P l = true -> has_crlf_byte l = false.
Proof.
  intros HP H. unfold has_crlf_byte. induction l as [|x l IH]; cbn [existsb forallb] in *; auto.
  apply andb_true_iff in H as [H1 H2]. rewrite (HP x H1), IH; auto.
Qed.

Lemma tchar_no_crlf x : is_tchar x && negb (is_lower x) = true -> (x =? 13) || (x =? 10) = false.
Proof.
  intro H. destruct (x =? 13) eqn:E1; [apply N.eqb_eq in E1; subst; discriminate H|].
  destruct (x =? 10) eqn:E2; [apply N.eqb_eq in E2; subst; discriminate H|]. reflexivity.
Qed.

Lemma dig_no_crlf x : is_dig x = true -> (x =? 13) || (x =? 10) = false.
Proof.
  intro H. destruct (x =? 13) eqn:E1; [apply N.eqb_eq in E1; subst; discriminate H|].
  destruct (x =? 10) eqn:E2; [apply N.eqb_eq in E2; subst; discriminate H|]. reflexivity.
Qed.

Lemma target_no_crlf t : target_shape t = true -> has_crlf_byte t = false.
Proof.
  unfold target_shape. intro H. apply andb_true_iff in H as [_ H].
  eapply no_crlf_forallb; [|exact H]. intros x Hx. cbv beta in Hx.
  unfold target_byte in Hx. apply andb_true_iff in Hx as [Hx _]. apply N.leb_le in Hx.
  destruct (x =? 13) eqn:E1; [apply N.eqb_eq in E1; lia|].
  destruct (x =? 10) eqn:E2; [apply N.eqb_eq in E2; lia|]. reflexivity.
Qed.

Lemma method_no_crlf m : method_ok m = true -> has_crlf_byte m = false.
Proof.
  unfold method_ok. intro H. apply andb_true_iff in H as [_ H].
  eapply no_crlf_forallb; [|exact H]. apply tchar_no_crlf.
Qed.

Lemma shape_facts l m t v : request_line_shape l = Some (m, t, v) ->
  has_crlf_byte l = false /\ infix t l /\ target_shape t = true.
Proof.
  unfold request_line_shape.
  destruct (split_on_inv (length l) 32 l (le_n _)) as [E _].
  destruct (split_on 32 l []) as [|m' [|t' [|v' [|? ?]]]]; try discriminate.
  - destruct (method_ok m' && target_shape t') eqn:C; [|discriminate].
    intro H. injection H as <- <- <-. apply andb_true_iff in C as [C1 C2].
    cbn [join] in E. split; [|split; auto].
    + rewrite E, !has_crlf_app, (method_no_crlf _ C1), (target_no_crlf _ C2). reflexivity.
    + rewrite E. exists (m' ++ [32]), []. rewrite <- !app_assoc, app_nil_r. reflexivity.
  - destruct (method_ok m' && target_shape t') eqn:C; [|discriminate].
    destruct (version_of v') as [ver|] eqn:V; [|discriminate].
    intro H. injection H as <- <- <-. apply andb_true_iff in C as [C1 C2].
    apply version_of_spec in V as (da & db & -> & -> & Ha & Hb).
    cbn [join] in E. split; [|split; auto].
    + rewrite E, !has_crlf_app, (method_no_crlf _ C1), (target_no_crlf _ C2).
      unfold has_crlf_byte. cbn [existsb N.eqb Pos.eqb orb]. rewrite (dig_no_crlf _ Ha), (dig_no_crlf _ Hb). reflexivity.
    + rewrite E. exists (m' ++ [32]), ([32] ++ [72; 84; 84; 80; 47; da; 46; db]). rewrite <- !app_assoc. reflexivity.
Qed.

Lemma shape_crlf_none l : has_crlf_byte l = true -> request_line_shape l = None.
Proof.
  intro H. destruct (request_line_shape l) as [[[m t] v]|] eqn:E; auto.
  apply shape_facts in E as [E _]. congruence.
Qed.

(* ---------------------------------------------------------------- *)
(* the header dict that parse_header leaves on success *)

Lemma ph_v11_headers p h1 ver c : chunked p = false ->
  snd (ph_v11 p h1 ver c) = None ->
  version (fst (ph_v11 p h1 ver c)) = version p /\
  headers (fst (ph_v11 p h1 ver c)) =
    if beqb ver s_1_1
    then (if chunked (fst (ph_v11 p h1 ver c))
          then hpop (hpop h1 s_TRANSFER_ENCODING) s_CONTENT_LENGTH else hpop h1 s_TRANSFER_ENCODING)
    else headers p.
Proof.
  intro Hc. unfold ph_v11. repeat ph_step; cbn [fst snd] in *; psimpl; intros; try discriminate; try congruence; auto.
Qed.

Lemma ph_tail_keep p :
  headers (fst (ph_tail p)) = headers p /\ chunked (fst (ph_tail p)) = chunked p
  /\ version (fst (ph_tail p)) = version p.
Proof. unfold ph_tail. repeat ph_step; cbn [fst]; psimpl; auto. Qed.

Lemma ph_mid_headers a p h1 uri ver : chunked p = false -> headers p = h1 -> version p = ver ->
  snd (ph_mid a p h1 uri ver) = PSOk ->
  version (fst (ph_mid a p h1 uri ver)) = ver /\
  headers (fst (ph_mid a p h1 uri ver)) =
    if beqb ver s_1_1
    then (if chunked (fst (ph_mid a p h1 uri ver))
          then hpop (hpop h1 s_TRANSFER_ENCODING) s_CONTENT_LENGTH else hpop h1 s_TRANSFER_ENCODING)
    else h1.
Proof.
  intros Hc Hh Hv. unfold ph_mid.
  destruct (split_uri uri) as [sc nl pa qu fr| | |]; try discriminate.
  cbv zeta. set (c := hget_default h1 s_CONNECTION []).
  match goal with |- context [ph_v11 ?q h1 ver c] => set (q1 := q) end.
  assert (B1 : chunked q1 = false /\ headers q1 = h1 /\ version q1 = ver).
  { subst q1; destruct (_ && _); destruct (_ && _); psimpl; auto. }
  destruct B1 as (B1 & B2 & B3).
  pose proof (ph_v11_headers q1 h1 ver c B1) as V.
  destruct (ph_v11 q1 h1 ver c) as [p2 [e|]]; cbn [fst snd] in *; [discriminate|].
  intros _. destruct (V eq_refl) as [V1 V2].
  destruct (ph_tail_keep p2) as (T1 & T2 & T3).
  rewrite T1, T2, T3, V1, V2, B2, B3. auto.
Qed.

Lemma ph_headers a p hp p1 : chunked p = false -> parse_header a p hp = (p1, PSOk) ->
  exists idx lines h1, find hp CRLF = Some idx /\ get_header_lines (skipn (idx + 2) hp) = inr lines /\
    add_header_lines (headers p) lines = inr h1 /\
    headers p1 = if beqb (version p1) s_1_1
                 then (if chunked p1 then hpop (hpop h1 s_TRANSFER_ENCODING) s_CONTENT_LENGTH
                       else hpop h1 s_TRANSFER_ENCODING)
                 else h1.
Proof.
  intros Hc. rewrite parse_header_eq.
  destruct (find hp CRLF) as [idx|]; [|discriminate]. cbv zeta.
  destruct (has_cr_or_lf _); [discriminate|].
  destruct (get_header_lines _) as [e|lines] eqn:GL; [discriminate|].
  change (headers (p <| first_line := rstrip_by is_reqline_ws (firstn idx hp) |>)) with (headers p).
  destruct (add_header_lines (headers p) lines) as [[e h0]|h1] eqn:AL; [discriminate|].
  destruct (crack_first_line _) as [[[cmd uri] ver]|]; [|discriminate].
  destruct (beqb cmd [] && beqb uri [] && beqb ver []); [discriminate|].
  intro H.
  match type of H with ph_mid a ?q h1 uri ver = _ => set (q0 := q) in * end.
  destruct (ph_mid_headers a q0 h1 uri ver) as [M1 M2]; try reflexivity.
  { subst q0. psimpl. exact Hc. }
  { rewrite H. reflexivity. }
  rewrite H in M1, M2. cbn [fst] in M1, M2.
  exists idx, lines, h1. repeat split; auto. rewrite M1. exact M2.
Qed.

(* ---------------------------------------------------------------- *)
(* the head of one message: reference outcome and model outcome *)

Inductive head_out :=
| HOEmpty
| HORefuse (code : N)
| HOMsg (m t v : bytes) (fs : list (bytes * bytes)).

Definition ref_msg_out (c : cfg) (rl : bytes) (flines : list bytes) : head_out :=
  match head_fields flines with
  | None => HORefuse 400
  | Some fs =>
    match parse_request_line (prepare_request_line c rl) with
    | None => HORefuse 400
    | Some (m, t, v) =>
      match framing_of v (combined fs) with
      | FrRefuse code => HORefuse code
      | _ => HOMsg m t v fs
      end
    end
  end.

Definition ref_head_out (c : cfg) (lines : list bytes) : head_out :=
  match drop_leading lines with
  | [] => HOEmpty
  | rl :: flines => ref_msg_out c rl flines
  end.

Definition hd1 (dict : hdict) (v : bytes) : hdict :=
  if beqb v s_1_1 then hpop dict s_TRANSFER_ENCODING else dict.

Definition ph_rel (p' : parser) (st : ph_status) (o : head_out) : Prop :=
  match o with
  | HOEmpty => False
  | HORefuse code => exists e, st = PSError e /\ perr_code e = code
  | HOMsg m t v fs =>
    let dict := combined fs in
    st = PSOk /\ command p' = m /\ request_uri p' = t /\ version p' = v /\
    connection_close p' = model_cc dict v /\
    match framing_of v dict with
    | FrNone => chunked p' = false /\ body p' = None /\ headers p' = hd1 dict v
    | FrLength k => chunked p' = false /\ body p' = Some (BFixed (fixed_init k)) /\ content_length p' = k
                    /\ headers p' = hd1 dict v
    | FrChunked => chunked p' = true /\ body p' = Some (BChunked chunked_init)
                   /\ headers p' = hpop (hpop dict s_TRANSFER_ENCODING) s_CONTENT_LENGTH
    | FrRefuse _ => False
    end
  end.

Lemma prepare_eq a rl : prepare_request_line (cfg_of a) rl = strip_by is_reqline_ws rl.
Proof. unfold prepare_request_line, cfg_of. cbn [tol_reqline_ws]. symmetry. exact (strip_trim is_reqline_ws rl). Qed.

Lemma parse_request_line_nil : parse_request_line [] = None.
Proof. reflexivity. Qed.

Lemma ph_head a rl flines :
  rl <> [] -> crlf_free rl = true -> Forall ne flines -> forallb crlf_free flines = true ->
  bytes_ok rl -> Forall bytes_ok flines ->
  (forall t, infix t rl -> target_shape t = true -> uri_ok t) ->
  let hp := lstrip_by is_reqline_ws (head_block rl flines) in
  hp <> [] /\
  ph_rel (fst (parse_header a parser_init hp)) (snd (parse_header a parser_init hp))
         (ref_msg_out (cfg_of a) rl flines).
Proof.
  intros Hne Hfree Hnef Hfreef Hok Hokf Huri hp. subst hp. unfold head_block.
  set (B := block_of flines ++ CRLF).
  destruct (lstrip_by is_reqline_ws rl) as [|c r1] eqn:E1.
  - (* the first line is all whitespace: the block then starts with LF *)
    rewrite (lstrip_app_all _ rl (CRLF ++ B) E1).
    replace (lstrip_by is_reqline_ws (CRLF ++ B)) with (10 :: B) by reflexivity.
    split; [discriminate|].
    assert (EB : exists l Y, 10 :: B = (10 :: l) ++ CRLF ++ Y /\ crlf_free l = true).
    { subst B. destruct flines as [|l ls].
      - exists [], []. split; reflexivity.
      - exists l, (block_of ls ++ CRLF). rewrite block_cons, <- !app_assoc. split; [reflexivity|].
        cbn [forallb] in Hfreef. apply andb_true_iff in Hfreef as [H _]. exact H. }
    destruct EB as (l & Y & -> & Hl). rewrite ph_bare_lf by exact Hl. cbn [fst snd].
    assert (R : ref_msg_out (cfg_of a) rl flines = HORefuse 400).
    { unfold ref_msg_out. rewrite prepare_eq. unfold strip_by. rewrite E1. change (rstrip_by is_reqline_ws []) with (@nil N).
      rewrite parse_request_line_nil. destruct (head_fields flines); reflexivity. }
    rewrite R. exists EBareCRLFFirstLine. split; reflexivity.
  - assert (Hkeep : lstrip_by is_reqline_ws rl <> []) by (rewrite E1; discriminate).
    rewrite (lstrip_app_keep _ rl (CRLF ++ B) Hkeep). rewrite E1.
    split; [discriminate|].
    set (rl1 := c :: r1) in *. set (rl2 := rstrip_by is_reqline_ws rl1).
    assert (I1 : infix rl1 rl) by (rewrite <- E1, lstrip_drop_while; apply infix_drop_while).
    assert (F1 : crlf_free rl1 = true) by (eapply crlf_free_infix; eauto).
    destruct (rstrip_prefix is_reqline_ws rl1) as [post Epost]. fold rl2 in Epost.
    assert (I2 : infix rl2 rl).
    { eapply infix_trans; [|exact I1]. rewrite Epost. apply infix_prefix. }
    assert (F2 : crlf_free rl2 = true) by (rewrite Epost in F1; eapply crlf_free_app_l; eauto).
    assert (Eprep : prepare_request_line (cfg_of a) rl = rl2).
    { rewrite prepare_eq. unfold strip_by. rewrite E1. reflexivity. }
    destruct (has_crlf_byte rl2) eqn:Hcr.
    + rewrite (ph_crlf_first a parser_init rl1 B F1 Hcr). cbn [fst snd].
      assert (R : ref_msg_out (cfg_of a) rl flines = HORefuse 400).
      { unfold ref_msg_out. rewrite Eprep. unfold parse_request_line. rewrite (shape_crlf_none rl2 Hcr).
        destruct (head_fields flines); reflexivity. }
      rewrite R. exists EBareCRLFFirstLine. split; reflexivity.
    + assert (Eidem : rstrip_by is_reqline_ws rl1 = rstrip_by is_reqline_ws rl2)
        by (unfold rl2; rewrite rstrip_idem; reflexivity).
      rewrite (ph_first_line a parser_init rl1 rl2 B F1 F2 Eidem).
      change (rl2 ++ CRLF ++ B) with (head_block rl2 flines).
      assert (Hok2 : bytes_ok rl2) by (eapply infix_bytes_ok; eauto).
      assert (Htight : rstrip_by is_reqline_ws rl2 = rl2) by (unfold rl2; apply rstrip_idem).
      pose proof (parse_header_equiv a rl2 flines Hok2 Hcr Htight Hokf Hnef Hfreef) as T.
      destruct (parse_header a parser_init (head_block rl2 flines)) as [p' st] eqn:PH. cbn [fst snd].
      unfold ref_msg_out. rewrite Eprep. unfold ref_head in T.
      destruct (head_fields flines) as [fs|] eqn:HF; [|exact T].
      unfold parse_request_line.
      destruct (request_line_shape rl2) as [[[m t] v]|] eqn:Sh; [|exact T].
      destruct (shape_facts rl2 m t v Sh) as (_ & It & Ht).
      destruct (Huri t (infix_trans _ _ _ It I2) Ht) as [Hnu Hiff].
      destruct (split_uri t) as [sc nl pa qu fr| | |] eqn:Su.
      * assert (Hpol : target_policy t = true).
        { destruct (target_policy t) eqn:P; auto. destruct Hiff as [_ Hiff]. specialize (Hiff eq_refl). discriminate. }
        rewrite Hpol. destruct T as (T1 & T2 & T3 & T).
        destruct (framing_of v (combined fs)) as [|k| |code] eqn:Fr; cbn [ph_rel]; rewrite ?Fr.
        -- destruct T as (-> & Tc & Tb & Tcc).
           repeat split; try assumption.
           destruct (ph_headers a parser_init (head_block rl2 flines) p' eq_refl PH) as (idx & lines & h1 & Hf & Hg & Ha & Hh).
           destruct (head_block_cut rl2 flines F2 Hfreef) as (Hfind & _ & Hlines).
           rewrite Hfind in Hf. injection Hf as <-. rewrite Hlines in Hg.
           pose proof (head_equiv flines Hokf Hnef) as HE. rewrite Hg in HE.
           change (headers parser_init) with (@nil (bytes * bytes)) in Ha. rewrite Ha in HE.
           destruct HE as (fs' & HF' & <-). rewrite HF in HF'. injection HF' as <-.
           rewrite Hh, T3, Tc. reflexivity.
        -- destruct T as (-> & Tc & Tb & Tl & Tcc).
           repeat split; try assumption.
           destruct (ph_headers a parser_init (head_block rl2 flines) p' eq_refl PH) as (idx & lines & h1 & Hf & Hg & Ha & Hh).
           destruct (head_block_cut rl2 flines F2 Hfreef) as (Hfind & _ & Hlines).
           rewrite Hfind in Hf. injection Hf as <-. rewrite Hlines in Hg.
           pose proof (head_equiv flines Hokf Hnef) as HE. rewrite Hg in HE.
           change (headers parser_init) with (@nil (bytes * bytes)) in Ha. rewrite Ha in HE.
           destruct HE as (fs' & HF' & <-). rewrite HF in HF'. injection HF' as <-.
           rewrite Hh, T3, Tc. reflexivity.
        -- destruct T as (-> & Tc & Tb & Th & Tcc).
           repeat split; assumption.
        -- exact T.
      * assert (Hpol : target_policy t = false) by (apply Hiff; reflexivity).
        rewrite Hpol. exists EBadURI. split; [exact T | reflexivity].
      * exfalso. exact (split_uri_no_escape t Su).
      * exfalso. exact (Hnu eq_refl).
Qed.

(* ---------------------------------------------------------------- *)
(* Parser.received on a fresh parser: the head step *)

Definition head_rel (a : adj) (p : parser) (o : head_out) : Prop :=
  body_bytes_received p = 0%Z /\
  match o with
  | HOEmpty => completed p = true /\ empty p = true
  | HORefuse code => completed p = true /\ empty p = false /\ exists e, error p = Some e /\ perr_code e = code
  | HOMsg m t v fs =>
    let dict := combined fs in
    empty p = false /\ headers_finished p = true /\
    command p = m /\ request_uri p = t /\ version p = v /\ connection_close p = model_cc dict v /\
    match framing_of v dict with
    | FrNone => completed p = true /\ error p = None /\ body p = None /\ headers p = hd1 dict v
    | FrLength k =>
        body p = Some (BFixed (fixed_init k)) /\ chunked p = false /\ headers p = hd1 dict v /\ 0 < k /\
        (if max_request_body_size a <=? k then completed p = true /\ error p = Some EBodyTooLarge
         else completed p = false /\ error p = None)
    | FrChunked =>
        body p = Some (BChunked chunked_init) /\ chunked p = true
        /\ headers p = hpop (hpop dict s_TRANSFER_ENCODING) s_CONTENT_LENGTH
        /\ completed p = false /\ error p = None
    | FrRefuse _ => False
    end
  end.

Lemma framing_len_pos v d k : framing_of v d = FrLength k -> 0 < k.
Proof.
  unfold framing_of.
  destruct (if beqb v v11 then match lookup d K_TE with Some v0 => list_elems v0 | None => [] end else [])
    as [|e [|e' te']].
  - destruct (lookup d K_CL) as [v0|]; [|discriminate].
    destruct (content_length_of v0) as [[|q]|]; try discriminate.
    intro H. injection H as <-. reflexivity.
  - destruct (beqb e w_chunked); discriminate.
  - discriminate.
Qed.

Lemma head_step a s lines rest n :
  bytes_ok s -> targets_ok s ->
  read_head s [] [] 0 = Some (lines, rest, n) ->
  (max_request_header_size a <=? n) = false ->
  exists p, received a parser_init s = ROk p (Z.of_N n) /\ head_rel a p (ref_head_out (cfg_of a) lines).
Proof.
  intros Hok Htg Hrh Hmax.
  pose proof (head_boundary s) as HB. rewrite Hrh in HB.
  destruct (find_double_newline s) as [i|] eqn:Hi; [|contradiction]. clear HB.
  destruct (head_geometry s lines rest n i Hrh Hi) as (-> & -> & Hfirst & Hil & Hfree & Es).
  destruct (read_head_shape s lines _ _ Hrh) as (l0 & tl & -> & Hne).
  change parser_init with (P0 []). rewrite (received_head_eq a [] s). cbn [app]. rewrite Hi.
  replace (Z.of_N (lenN s) - (Z.of_nat (length s) - Z.of_nat i))%Z with (Z.of_N (N.of_nat i)) by (unfold lenN; lia).
  unfold head_found. cbv zeta. rewrite Hmax. rewrite Hfirst.
  assert (Hlen : (length (block_of (l0 :: tl) ++ CRLF) <= length s)%nat)
    by (rewrite <- Hfirst, firstn_length; lia).
  pose proof (stripped_block l0 tl (length s) Hne Hfree Hlen) as SB.
  unfold ref_head_out.
  destruct (drop_leading (l0 :: tl)) as [|rl flines].
  - rewrite SB. cbn [lstrip_by]. eexists. split; [reflexivity|]. split; [reflexivity|]. split; reflexivity.
  - destruct SB as (-> & Hrl & Hnef & Hfr & Hff & Irl & Ifl).
    assert (Iblock : infix (block_of (l0 :: tl)) s) by (rewrite Es, <- app_assoc; apply infix_prefix).
    assert (Hokrl : bytes_ok rl) by (eapply infix_bytes_ok; [eapply infix_trans; eauto | exact Hok]).
    assert (Hokf : Forall bytes_ok flines).
    { rewrite Forall_forall in *. intros l Hl. eapply infix_bytes_ok; [eapply infix_trans; [apply Ifl; exact Hl | exact Iblock] | exact Hok]. }
    assert (Huri : forall t, infix t rl -> target_shape t = true -> uri_ok t).
    { intros t It Ht. apply Htg; auto. eapply infix_trans; [exact It|]. eapply infix_trans; eauto. }
    destruct (ph_head a rl flines Hrl Hfr Hnef Hff Hokrl Hokf Huri) as (Hhp & Hrel).
    set (hp := lstrip_by is_reqline_ws (head_block rl flines)) in *.
    destruct hp as [|h0 hs]; [congruence|]. clear Hhp.
    change (P0 [] <| header_bytes_received := N.of_nat i |>) with (cset [] (N.of_nat i) parser_init).
    rewrite parse_header_hp.
    pose proof (parse_header_frame a parser_init (h0 :: hs)) as Fr.
    pose proof (parse_header_shape a parser_init (h0 :: hs)) as Sh.
    destruct (parse_header a parser_init (h0 :: hs)) as [p1 st]. cbn [fst snd] in *.
    destruct Fr as (F1 & F2 & F3 & F4 & F5 & F6 & F7).
    change (completed parser_init) with false in F1. change (empty parser_init) with false in F2.
    change (body_bytes_received parser_init) with 0%Z in F6. change (error parser_init) with (@None perr) in F7.
    destruct (ref_msg_out (cfg_of a) rl flines) as [|code|m t v fs]; cbn [ph_rel] in Hrel.
    + contradiction.
    + destruct Hrel as (e & -> & Hcode). eexists. split; [reflexivity|].
      unfold head_rel, cset. psimpl. rewrite F6, F2. repeat split. exists e. auto.
    + destruct Hrel as (-> & C1 & C2 & C3 & C4 & Hfr'). specialize (Sh p1 eq_refl eq_refl eq_refl eq_refl).
      unfold head_rel. cbv zeta.
      destruct (framing_of v (combined fs)) as [|k| |code] eqn:Efr.
      * destruct Hfr' as (Hc & Hb & Hh).
        assert (Hcl : content_length p1 = 0).
        { destruct Sh as [(S1 & S2 & S3)|[(S1 & S2 & S3)|(S1 & S2 & S3)]]; congruence. }
        unfold cset. psimpl. rewrite Hb. psimpl. rewrite Hcl. cbn [N.ltb N.compare andb].
        eexists. split; [reflexivity|]. psimpl. rewrite F6, F2, F7, Hb, Hh. repeat split; assumption.
      * destruct Hfr' as (Hc & Hb & Hl & Hh). pose proof (framing_len_pos _ _ _ Efr) as Hk.
        unfold cset. psimpl. rewrite Hb. psimpl. rewrite Hl.
        replace (0 <? k) with true by (symmetry; apply N.ltb_lt; exact Hk). cbn [andb].
        destruct (max_request_body_size a <=? k) eqn:Emb.
        -- eexists. split; [reflexivity|]. psimpl. rewrite F6, F2, Hb, Hh, Hc. repeat split; assumption.
        -- eexists. split; [reflexivity|]. psimpl. rewrite F6, F2, F1, F7, Hb, Hh, Hc. repeat split; assumption.
      * destruct Hfr' as (Hc & Hb & Hh).
        assert (Hcl : content_length p1 = 0).
        { destruct Sh as [(S1 & S2 & S3)|[(S1 & S2 & S3)|(S1 & S2 & S3)]]; congruence. }
        unfold cset. psimpl. rewrite Hb. psimpl. rewrite Hcl. cbn [N.ltb N.compare andb].
        eexists. split; [reflexivity|]. psimpl. rewrite F6, F2, F1, F7, Hb, Hh, Hc. repeat split; assumption.
      * contradiction.
Qed.

(* the 431 limit *)
Lemma head_431_fields a k consumed :
  exists p, head_431 a (P0 [] <| header_bytes_received := k |>) consumed = ROk p consumed
    /\ completed p = true /\ empty p = false /\ error p = Some EHeaderTooLarge.
Proof.
  unfold head_431. pose proof (fake_head_ok a [] k) as Fk.
  pose proof (parse_header_frame a (P0 [] <| header_bytes_received := k |>) fake_head_431) as Fr.
  destruct (parse_header a (P0 [] <| header_bytes_received := k |>) fake_head_431) as [p1 st].
  cbn [fst snd] in *. subst st. destruct Fr as (_ & F2 & _).
  eexists. split; [reflexivity|]. psimpl. rewrite F2. repeat split.
Qed.

Lemma head_step_431 a s lines rest n :
  read_head s [] [] 0 = Some (lines, rest, n) ->
  (max_request_header_size a <=? n) = true ->
  exists p, received a parser_init s = ROk p (Z.of_N n)
    /\ completed p = true /\ empty p = false /\ error p = Some EHeaderTooLarge.
Proof.
  intros Hrh Hmax.
  pose proof (head_boundary s) as HB. rewrite Hrh in HB.
  destruct (find_double_newline s) as [i|] eqn:Hi; [|contradiction]. clear HB.
  destruct (head_geometry s lines rest n i Hrh Hi) as (-> & -> & Hfirst & Hil & Hfree & Es).
  change parser_init with (P0 []). rewrite (received_head_eq a [] s). cbn [app]. rewrite Hi.
  replace (Z.of_N (lenN s) - (Z.of_nat (length s) - Z.of_nat i))%Z with (Z.of_N (N.of_nat i)) by (unfold lenN; lia).
  unfold head_found. cbv zeta. rewrite Hmax. apply head_431_fields.
Qed.

(* no complete head in the stream *)
Lemma head_step_none a s :
  read_head s [] [] 0 = None ->
  exists p, received a parser_init s = ROk p (Z.of_nat (length s)) /\
    if max_request_header_size a <=? lenN s
    then completed p = true /\ empty p = false /\ error p = Some EHeaderTooLarge
    else completed p = false /\ header_plus p = s /\ headers_finished p = false.
Proof.
  intros Hrh.
  pose proof (head_boundary s) as HB. rewrite Hrh in HB.
  destruct (find_double_newline s) as [i|] eqn:Hi; [contradiction|]. clear HB.
  change parser_init with (P0 []). rewrite (received_head_eq a [] s). cbn [app]. rewrite Hi.
  unfold head_more. cbv zeta. change (header_bytes_received (P0 [])) with 0. rewrite N.add_0_l.
  replace (Z.of_N (lenN s)) with (Z.of_nat (length s)) by (unfold lenN; lia).
  destruct (max_request_header_size a <=? lenN s).
  - apply head_431_fields.
  - eexists. split; [reflexivity|]. repeat split.
Qed.

Lemma head_rest s lines rest n : read_head s [] [] 0 = Some (lines, rest, n) ->
  exists i, n = N.of_nat i /\ rest = skipn i s /\ (4 <= i <= length s)%nat.
Proof.
  intro Hrh. pose proof (head_boundary s) as HB. rewrite Hrh in HB.
  destruct (find_double_newline s) as [i|] eqn:Hi; [|contradiction].
  destruct (head_geometry s lines rest n i Hrh Hi) as (-> & -> & _ & Hil & _). exists i. auto.
Qed.

Lemma ref_head_out_clean c lines m t v fs : ref_head_out c lines = HOMsg m t v fs -> values_clean (combined fs).
Proof.
  unfold ref_head_out, ref_msg_out. destruct (drop_leading lines) as [|rl flines]; [discriminate|].
  destruct (head_fields flines) as [fs'|] eqn:HF; [|discriminate].
  destruct (parse_request_line _) as [[[m' t'] v']|]; [|discriminate].
  destruct (framing_of v' (combined fs')); try discriminate; intro H; injection H as <- <- <- <-;
    eapply head_fields_clean; eauto.
Qed.
