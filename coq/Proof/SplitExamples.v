(* C02: the exact-tag statement (refuted in Findings/C02_KF1.v: finding F12, class
   kf_c02_1) and examples showing that the hypotheses of the C02 theorems are
   satisfiable by non-trivial states. *)
From Coq Require Import List NArith ZArith Bool Lia Arith.
From RecordUpdate Require Import RecordUpdate.
From WV Require Import Lib.PyBytes Lib.Regex Gen.GenRegex Model.Receiver Model.UrlSplit Model.Parser Model.ChanSeq
  Proof.PyBytesFacts Proof.ReceiverTotal Proof.ParserTotal Proof.ParserTotalChan Proof.SplitParser Proof.SplitChan.
Import ListNotations.
Local Open Scope N_scope.

Definition adj10 : adj :=
  {| max_request_header_size := 262144; max_request_body_size := 10; adj_url_scheme := [104;116;116;112] |}.

(* b"POST / HTTP/1.1\r\nTransfer-Encoding: chunked\r\n\r\nZZ\r\n" + b"x"*20 *)
Definition f12_stream : bytes :=
  [80;79;83;84;32;47;32;72;84;84;80;47;49;46;49;13;10;
   84;114;97;110;115;102;101;114;45;69;110;99;111;100;105;110;103;58;32;99;104;117;110;107;101;100;13;10;13;10;
   90;90;13;10;
   120;120;120;120;120;120;120;120;120;120;120;120;120;120;120;120;120;120;120;120].

Definition ev_err (e : event) : option (option perr) :=
  match e with EvDone o => Some (error o) | EvContinue => None end.

Definition bytewise (s : bytes) : list bytes := map (fun b => [b]) s.

Lemma bytewise_concat s : concat (bytewise s) = s.
Proof. unfold bytewise. induction s as [|b s IH]; [reflexivity|]. cbn [map concat app]. now rewrite IH. Qed.

(* the statement with exact error tags (false of the code: see Findings/C02_KF1.v) *)
Definition split_independent_exact : Prop :=
  forall a reads1 reads2, concat reads1 = concat reads2 ->
    cut (snd (feed_tr false a chan_init reads1)) = cut (snd (feed_tr false a chan_init reads2)).

(* ------------------------------------------------------------------ *)
(* non-trivial states satisfying the hypotheses *)

(* a chunked receiver in the middle of a chunk terminator, having seen CR *)
Example ex_wf_c :
  wf_c {| chunk_remainder := 0; validate_chunk_end := true; control_line := []; chunk_end := [13];
          all_chunks_received := false; trailer := []; c_completed := false; c_error := None;
          c_buf := [97;98;99] |}.
Proof. split; cbn; auto; try lia; intros; discriminate. Qed.

(* ... and one holding an unfinished trailer *)
Example ex_wf_c_trailer :
  wf_c {| chunk_remainder := 0; validate_chunk_end := false; control_line := []; chunk_end := [];
          all_chunks_received := true; trailer := [88;58;32;121;13;10;13]; c_completed := false; c_error := None;
          c_buf := [97;98;99] |}.
Proof. split; cbn; auto; try lia; intros; try discriminate; reflexivity. Qed.

(* a parser that has read "GET / HT" *)
Example ex_wf_p : wf_p adj10 (P0 [71;69;84;32;47;32;72;84]).
Proof.
  unfold wf_p, wf_body. cbn. split; [reflexivity|]. split; [reflexivity|].
  split; [eexists; split; reflexivity|]. split; [right; reflexivity | left; reflexivity].
Qed.

(* a pipeline: POST with Expect and a 3-byte body, then GET; byte-wise: the events
   are 100-continue, request, request -- no error *)
Definition pipeline : bytes :=
  (* POST /a HTTP/1.1\r\nExpect: 100-continue\r\nContent-Length: 3\r\n\r\nabcGET /b HTTP/1.1\r\n\r\n *)
  [80;79;83;84;32;47;97;32;72;84;84;80;47;49;46;49;13;10;
   69;120;112;101;99;116;58;32;49;48;48;45;99;111;110;116;105;110;117;101;13;10;
   67;111;110;116;101;110;116;45;76;101;110;103;116;104;58;32;51;13;10;13;10;
   97;98;99;
   71;69;84;32;47;98;32;72;84;84;80;47;49;46;49;13;10;13;10].

Example ex_pipeline :
  map ev_err (cut (snd (feed_tr true adj10 chan_init (bytewise pipeline)))) =
  [None; Some None; Some None].
Proof. vm_compute. reflexivity. Qed.

(* a channel with a request under construction and one queued request *)
Example ex_inv :
  inv adj10 (chan_init <| request := Some (P0 [71;69;84;32;47;32;72;84]) |> <| requests := [parser_init] |>).
Proof.
  split; [exact ex_wf_p|]. split; [|split; reflexivity].
  unfold ichan. cbn. split; [reflexivity | discriminate].
Qed.
