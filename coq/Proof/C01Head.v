(* T1 -- the field section of the head.  For every list of header lines the
   verdict and the resulting dict of the model (get_header_lines' folding,
   then add_header_line per line through the HEADER_FIELD_RE gate) equal those
   of the reference's character-by-character field-line parser.  The gate is
   consumed only through C10Gates.header_field_exact (the gate IS the grammar). *)
From Coq Require Import List NArith ZArith Bool Lia Arith.
From WV Require Import Lib.PyBytes Lib.Regex Lib.RegexDec Gen.GenRegex Spec.Grammar Proof.C10Gates.
From WV Require Import Model.Receiver Model.UrlSplit Model.Parser Spec.Ref9112 Proof.C01Lib Proof.C01Framing.
Import ListNotations.
Local Open Scope N_scope.

(* ---------------------------------------------------------------- *)
(* character classes of the reference against the ranges of Spec/Grammar *)

Definition tchar_ranges : list (N * N) :=
  [(33,33); (35,35); (36,36); (37,37); (38,38); (39,39); (42,42); (43,43);
   (45,45); (46,46); (94,94); (95,95); (96,96); (124,124); (126,126);
   (48,57); (65,90); (97,122)].
Definition fchar_ranges : list (N * N) := [(9,9); (32,126); (128,255)].

Lemma tchar_ranges_ok x : x < 256 -> in_ranges x tchar_ranges = is_tchar x.
Proof. apply (byte_table (fun x => in_ranges x tchar_ranges) is_tchar). vm_compute. reflexivity. Qed.

Lemma fchar_ranges_ok x : x < 256 -> in_ranges x fchar_ranges = is_field_char x.
Proof. apply (byte_table (fun x => in_ranges x fchar_ranges) is_field_char). vm_compute. reflexivity. Qed.

(* ---------------------------------------------------------------- *)
(* field-line = token ":" *( SP / HTAB / field-vchar ), as a language *)

Definition simple_field : re := Cat token (Cat (Sym 58) (Star (Cls fchar_ranges))).

Lemma spec_header_field_simple : forall s, bytes_ok s ->
  (Lang spec_header_field s <-> Lang simple_field s).
Proof. apply equiv_check_sound. vm_compute. reflexivity. Qed.

Lemma no_colon_tchar name : bytes_ok name ->
  forallb (fun x => in_ranges x tchar_ranges) name = true -> forallb (fun x => negb (x =? 58)) name = true.
Proof.
  intros _ H. rewrite forallb_forall in *. intros x Hx. specialize (H x Hx).
  destruct (x =? 58) eqn:E; auto. apply N.eqb_eq in E. subst x. vm_compute in H. discriminate.
Qed.

Lemma first_occurrence_unique c pre post pre' post' :
  forallb (fun x => negb (x =? c)) pre = true -> forallb (fun x => negb (x =? c)) pre' = true ->
  pre ++ c :: post = pre' ++ c :: post' -> pre = pre' /\ post = post'.
Proof.
  revert pre'. induction pre as [|x pre IH]; intros [|y pre'] H1 H2 E; simpl in *.
  - injection E as ->. auto.
  - injection E as <- _. rewrite N.eqb_refl in H2. discriminate.
  - injection E as -> _. rewrite N.eqb_refl in H1. discriminate.
  - injection E as -> E. apply andb_true_iff in H1 as [_ H1]. apply andb_true_iff in H2 as [_ H2].
    destruct (IH pre' H1 H2 E) as [-> ->]. auto.
Qed.

Lemma simple_field_shape s : bytes_ok s ->
  (Lang simple_field s <->
   exists name rest, s = name ++ 58 :: rest /\ name <> [] /\ forallb is_tchar name = true
                     /\ forallb is_field_char rest = true).
Proof.
  intro Hok. unfold simple_field, token, tchar. fold tchar_ranges. split.
  - intro H. apply Lang_Cat in H as (u & v & -> & Hu & Hv).
    apply Lang_Cat in Hv as (c & w & -> & Hc & Hw). apply Lang_Sym in Hc. subst c.
    apply Lang_plus_cls in Hu as [Hne Hu]. apply Lang_star_cls in Hw.
    apply bytes_ok_app in Hok as [Ho1 Ho2]. simpl in Ho2. inversion Ho2; subst.
    exists u, w. repeat split; auto.
    + rewrite <- Hu. apply forallb_ext_in. intros x Hx. symmetry. apply tchar_ranges_ok.
      unfold bytes_ok in Ho1. rewrite Forall_forall in Ho1. auto.
    + rewrite <- Hw. apply forallb_ext_in. intros x Hx. symmetry. apply fchar_ranges_ok.
      match goal with H : Forall _ w |- _ => rewrite Forall_forall in H; auto end.
  - intros (name & rest & -> & Hne & Hn & Hr).
    apply bytes_ok_app in Hok as [Ho1 Ho2]. simpl in Ho2. inversion Ho2; subst.
    apply LCat.
    + apply Lang_plus_cls. split; auto. rewrite <- Hn. apply forallb_ext_in. intros x Hx.
      apply tchar_ranges_ok. unfold bytes_ok in Ho1. rewrite Forall_forall in Ho1. auto.
    + change (58 :: rest) with ([58] ++ rest). apply LCat; [apply Lang_Sym; reflexivity|].
      apply Lang_star_cls. rewrite <- Hr. apply forallb_ext_in. intros x Hx.
      apply fchar_ranges_ok.
      match goal with H : Forall _ rest |- _ => rewrite Forall_forall in H; auto end.
Qed.

(* ---------------------------------------------------------------- *)
(* the reference's line parser *)

Lemma split_colon_none s acc : forallb (fun x => negb (x =? 58)) s = true -> split_colon s acc = None.
Proof.
  revert acc; induction s as [|x s IH]; intros acc H; simpl in *; auto.
  apply andb_true_iff in H as [H1 H2]. destruct (x =? 58); try discriminate. auto.
Qed.

Lemma split_colon_some pre post acc : forallb (fun x => negb (x =? 58)) pre = true ->
  split_colon (pre ++ 58 :: post) acc = Some (rev acc ++ pre, post).
Proof.
  revert acc; induction pre as [|x pre IH]; intros acc H; simpl in *.
  - rewrite app_nil_r. reflexivity.
  - apply andb_true_iff in H as [H1 H2]. destruct (x =? 58); try discriminate.
    rewrite IH; auto. simpl. rewrite <- app_assoc. reflexivity.
Qed.

Lemma is_tchar_no_colon name : forallb is_tchar name = true -> forallb (fun x => negb (x =? 58)) name = true.
Proof.
  intro H. rewrite forallb_forall in *. intros x Hx. specialize (H x Hx).
  destruct (x =? 58) eqn:E; auto. apply N.eqb_eq in E. subst x. vm_compute in H. discriminate.
Qed.

Lemma nonempty_ne (s : bytes) : nonempty s = true <-> s <> [].
Proof. destruct s; simpl; split; congruence. Qed.

(* a line without CR / LF *)
Definition line_ok (l : bytes) : Prop := bytes_ok l /\ has_crlf_byte l = false.

Lemma line_ok_clean l : line_ok l -> clean l = true.
Proof.
  intros [Ho Hc]. unfold clean. apply forallb_forall. intros x Hx.
  unfold bytes_ok in Ho. rewrite Forall_forall in Ho. specialize (Ho x Hx).
  unfold has_crlf_byte in Hc.
  assert (Hx2 : (x =? 13) || (x =? 10) = false).
  { destruct ((x =? 13) || (x =? 10)) eqn:E; auto.
    rewrite <- Hc. symmetry. apply existsb_exists. exists x. auto. }
  rewrite (byte_table (fun x => in_ranges x [(0,9); (11,12); (14,255)])
                      (fun x => negb ((x =? 13) || (x =? 10)))) by (vm_compute; reflexivity || exact Ho).
  rewrite Hx2. reflexivity.
Qed.

Lemma gate_header_field_ref l : line_ok l ->
  matches gate_header_field l = match parse_field_line l with Some _ => true | None => false end.
Proof.
  intro Hl. pose proof (line_ok_clean l Hl) as Hc. destruct Hl as [Hok _].
  pose proof (header_field_exact l Hok (clean_no_crlf l Hc)) as E1.
  pose proof (spec_header_field_simple l Hok) as E2.
  pose proof (simple_field_shape l Hok) as E3.
  rewrite <- matches_correct in E1.
  assert (E : matches gate_header_field l = true <->
              exists name rest, l = name ++ 58 :: rest /\ name <> [] /\ forallb is_tchar name = true
                                /\ forallb is_field_char rest = true) by tauto.
  clear E1 E2 E3. unfold parse_field_line.
  destruct (first_occurrence 58 l) as [H|(pre & post & -> & H)].
  - rewrite split_colon_none by exact H.
    destruct (matches gate_header_field l); auto.
    destruct E as [E _]. destruct (E eq_refl) as (name & rest & -> & _).
    rewrite forallb_app in H. apply andb_true_iff in H as [_ H]. simpl in H. discriminate.
  - rewrite split_colon_some by exact H. simpl.
    destruct (nonempty pre && forallb is_tchar pre && forallb is_field_char post) eqn:C.
    + apply E. apply andb_true_iff in C as [C C3]. apply andb_true_iff in C as [C1 C2].
      exists pre, post. repeat split; auto. apply nonempty_ne; auto.
    + destruct (matches gate_header_field (pre ++ 58 :: post)); auto.
      destruct E as [E _]. destruct (E eq_refl) as (name & rest & Eq & Hne & Hn & Hr).
      destruct (first_occurrence_unique 58 pre post name rest H (is_tchar_no_colon _ Hn) Eq) as [-> ->].
      apply nonempty_ne in Hne. rewrite Hne, Hn, Hr in C. discriminate.
Qed.

(* what the model extracts from an accepted line is what the reference extracts *)
Lemma partition_colon pre post : forallb (fun x => negb (x =? 58)) pre = true ->
  partition (pre ++ 58 :: post) [58] = (pre, [58], post).
Proof.
  intro H. unfold partition, find. rewrite find_from_one_some by exact H. simpl.
  rewrite firstn_app, Nat.sub_diag, firstn_all. simpl. rewrite app_nil_r.
  replace (length pre + 1)%nat with (length (pre ++ [58])) by (rewrite app_length; simpl; lia).
  replace (pre ++ 58 :: post) with ((pre ++ [58]) ++ post) by (rewrite <- app_assoc; reflexivity).
  rewrite skipn_app, Nat.sub_diag, skipn_all. reflexivity.
Qed.

Lemma header_key_norm name : header_key name = norm_name name.
Proof.
  unfold header_key, norm_name, replace_byte, upper_ascii. rewrite map_map. apply map_ext.
  intro x. unfold upper_ascii_b, is_lower.
  destruct ((97 <=? x) && (x <=? 122)) eqn:E.
  - apply andb_true_iff in E as [E1 E2]. apply N.leb_le in E1, E2.
    replace (x =? 45) with false by (symmetry; apply N.eqb_neq; lia).
    replace (x - 32 =? 45) with false by (symmetry; apply N.eqb_neq; lia). reflexivity.
  - reflexivity.
Qed.

Lemma is_singleton_key k : is_singleton k = is_single_key k.
Proof. reflexivity. Qed.

Lemma hset_combine_some h k old v : hget h k = Some old -> hset h k (old ++ [44; 32] ++ v) = combine_add h k v.
Proof.
  induction h as [|[k' w] h IH]; cbn [hget hset combine_add]; try discriminate.
  destruct (beqb k k'); intro H.
  - injection H as ->. reflexivity.
  - rewrite IH; auto.
Qed.

Lemma hset_combine_none h k v : hget h k = None -> hset h k v = combine_add h k v.
Proof.
  induction h as [|[k' w] h IH]; cbn [hget hset combine_add]; auto.
  destruct (beqb k k'); intro H; try discriminate. rewrite IH; auto.
Qed.

(* one step of the reference on the dict *)
Definition ref_add (h : hdict) (f : bytes * bytes) : perr + hdict :=
  let '(name, value) := f in
  if memb 95 name then inr h
  else let k := norm_name name in
       if is_single_key k && (match lookup h k with Some _ => true | None => false end)
       then inl EDuplicateHeader else inr (combine_add h k value).

Lemma add_header_line_ref h l : line_ok l ->
  add_header_line h l = match parse_field_line l with
                        | None => inl EInvalidHeader
                        | Some f => ref_add h f
                        end.
Proof.
  intro Hl. unfold add_header_line. rewrite (gate_header_field_ref l Hl).
  unfold parse_field_line.
  destruct (first_occurrence 58 l) as [H|(pre & post & -> & H)].
  - rewrite split_colon_none by exact H. reflexivity.
  - rewrite split_colon_some by exact H. simpl app.
    destruct (nonempty pre && forallb is_tchar pre && forallb is_field_char post); cbn [negb]; [|reflexivity].
    rewrite partition_colon by exact H. unfold ref_add.
    destruct (memb 95 pre); [reflexivity|].
    rewrite header_key_norm, strip_sp_htab. change lookup with hget.
    destruct (hget h (norm_name pre)) as [old|] eqn:E.
    + rewrite is_singleton_key. destruct (is_single_key (norm_name pre)); cbn [andb]; [reflexivity|].
      rewrite <- (hset_combine_some _ _ _ _ E). reflexivity.
    + rewrite andb_false_r. rewrite hset_combine_none by exact E. reflexivity.
Qed.

(* ---------------------------------------------------------------- *)
(* folding of obs-fold lines *)

Lemma memb_existsb c l : memb c l = existsb (fun x => x =? c) l.
Proof.
  unfold memb. induction l as [|x l IH]; cbn [existsb]; auto.
  rewrite IH, (N.eqb_sym c x). reflexivity.
Qed.

Lemma has_cr_or_lf_ref l : has_cr_or_lf l = has_crlf_byte l.
Proof.
  unfold has_cr_or_lf, has_crlf_byte. rewrite !memb_existsb.
  induction l as [|x l IH]; cbn [existsb]; auto. rewrite <- IH.
  destruct (x =? 13), (x =? 10), (existsb (fun y => y =? 13) l), (existsb (fun y => y =? 10) l); reflexivity.
Qed.

Lemma unfold_go_some : forall ls p r, Forall (fun l => l <> []) ls ->
  match unfold_lines ls (Some p) with
  | Some out => header_lines_go ls (p :: r) = inr (rev r ++ out)
  | None => exists e, header_lines_go ls (p :: r) = inl e /\ perr_code e = 400
  end.
Proof.
  induction ls as [|l ls IH]; intros p r Hne; cbn [unfold_lines header_lines_go].
  - reflexivity.
  - inversion Hne as [|? ? Hl Hls]; subst.
    destruct l as [|c l']; [congruence|].
    rewrite has_cr_or_lf_ref.
    destruct (has_crlf_byte (c :: l')); [eexists; split; reflexivity|].
    change (is_ows c) with ((c =? 32) || (c =? 9)).
    destruct ((c =? 32) || (c =? 9)).
    + apply IH. exact Hls.
    + specialize (IH (c :: l') (p :: r) Hls). revert IH.
      destruct (unfold_lines ls (@Some bytes (c :: l'))); auto.
      intro IH. rewrite IH. simpl. rewrite <- app_assoc. reflexivity.
Qed.

Lemma unfold_go : forall ls, Forall (fun l => l <> []) ls ->
  match unfold_lines ls None with
  | Some out => header_lines_go ls [] = inr out
  | None => exists e, header_lines_go ls [] = inl e /\ perr_code e = 400
  end.
Proof.
  intros [|l ls] Hne; cbn [unfold_lines header_lines_go]; [reflexivity|].
  inversion Hne as [|? ? Hl Hls]; subst.
  destruct l as [|c l']; [congruence|].
  rewrite has_cr_or_lf_ref.
  destruct (has_crlf_byte (c :: l')); [eexists; split; reflexivity|].
  change (is_ows c) with ((c =? 32) || (c =? 9)).
  destruct ((c =? 32) || (c =? 9)); [eexists; split; reflexivity|].
  pose proof (unfold_go_some ls (c :: l') [] Hls) as G. revert G.
  destruct (unfold_lines ls (@Some bytes (c :: l'))); auto.
Qed.

Lemma has_crlf_app a b : has_crlf_byte (a ++ b) = has_crlf_byte a || has_crlf_byte b.
Proof. unfold has_crlf_byte. apply existsb_app. Qed.

Lemma line_ok_app a b : line_ok a -> line_ok b -> line_ok (a ++ b).
Proof.
  intros [A1 A2] [B1 B2]. split.
  - apply bytes_ok_app; auto.
  - rewrite has_crlf_app, A2, B2. reflexivity.
Qed.

Lemma unfold_lines_ok : forall ls pending out, Forall bytes_ok ls ->
  (forall p, pending = Some p -> line_ok p) ->
  unfold_lines ls pending = Some out -> Forall line_ok out.
Proof.
  induction ls as [|l ls IH]; intros pending out Hok Hp; cbn [unfold_lines].
  - intro E. injection E as <-. destruct pending; constructor; auto.
  - inversion Hok as [|? ? Hl Hls]; subst.
    destruct (has_crlf_byte l) eqn:Ec; try discriminate.
    destruct l as [|c l']; try discriminate.
    assert (Hlo : line_ok (c :: l')) by (split; auto).
    destruct (is_ows c).
    + destruct pending as [p|]; try discriminate.
      apply IH; auto. intros q E. injection E as <-. apply line_ok_app; auto.
    + destruct (unfold_lines ls (@Some bytes (c :: l'))) as [out'|] eqn:E; try discriminate.
      intro E2. injection E2 as <-.
      assert (Forall line_ok out').
      { apply (IH (@Some bytes (c :: l')) out' Hls); [intros q Eq; injection Eq as <-; exact Hlo | exact E]. }
      destruct pending; auto.
Qed.

(* ---------------------------------------------------------------- *)
(* the list level *)

Fixpoint ref_adds (h : hdict) (fs : list (bytes * bytes)) : perr + hdict :=
  match fs with
  | [] => inr h
  | f :: r => match ref_add h f with
              | inl e => inl e
              | inr h' => ref_adds h' r
              end
  end.

Lemma add_header_lines_ref : forall joined h, Forall line_ok joined ->
  match parse_fields joined with
  | Some fs => match ref_adds h fs with
               | inr h' => add_header_lines h joined = inr h'
               | inl e => exists h', add_header_lines h joined = inl (e, h')
               end
  | None => exists e h', add_header_lines h joined = inl (e, h') /\ perr_code e = 400
  end.
Proof.
  induction joined as [|l ls IH]; intros h Hok; cbn [parse_fields add_header_lines ref_adds].
  - reflexivity.
  - inversion Hok as [|? ? Hl Hls]; subst.
    rewrite (add_header_line_ref h l Hl).
    destruct (parse_field_line l) as [f|].
    + destruct (ref_add h f) as [e|h1] eqn:Ea.
      * destruct (parse_fields ls).
        -- cbn [ref_adds]. rewrite Ea. eauto.
        -- exists e, h. split; auto.
           unfold ref_add in Ea. destruct f as [name value].
           destruct (memb 95 name); try discriminate.
           destruct (is_single_key (norm_name name) && _); try discriminate.
           injection Ea as <-. reflexivity.
      * specialize (IH h1 Hls). destruct (parse_fields ls) as [fs|].
        -- cbn [ref_adds]. rewrite Ea. exact IH.
        -- exact IH.
    + destruct (parse_fields ls); eauto.
Qed.

(* the reference's own formulation: drop "_" names, scan for repeated
   singletons, combine *)
Lemma lookup_combine_add h k v k' :
  (match lookup (combine_add h k v) k' with Some _ => true | None => false end)
  = beqb k' k || (match lookup h k' with Some _ => true | None => false end).
Proof.
  induction h as [|[k0 w] h IH]; cbn [combine_add lookup].
  - destruct (beqb k' k); reflexivity.
  - destruct (beqb k k0) eqn:E.
    + apply beqb_eq in E. subst k0. cbn [lookup]. destruct (beqb k' k); reflexivity.
    + cbn [lookup]. destruct (beqb k' k0) eqn:E2.
      * rewrite orb_true_r. reflexivity.
      * exact IH.
Qed.

Definition fold_add (h : hdict) (fs : list (bytes * bytes)) : hdict :=
  fold_left (fun d f => combine_add d (norm_name (fst f)) (snd f)) fs h.

Lemma ref_adds_scan : forall fs h seen,
  (forall k, existsb (beqb k) seen = match lookup h k with Some _ => true | None => false end) ->
  ref_adds h fs =
  if no_repeated_single seen (drop_underscore fs) then inr (fold_add h (drop_underscore fs))
  else inl EDuplicateHeader.
Proof.
  induction fs as [|[name value] fs IH]; intros h seen Hinv; cbn [ref_adds drop_underscore filter fst].
  - reflexivity.
  - unfold ref_add. destruct (memb 95 name) eqn:Eu; cbn [negb].
    + apply IH. exact Hinv.
    + cbn [no_repeated_single fold_add fold_left fst snd].
      rewrite Hinv.
      destruct (is_single_key (norm_name name) &&
                match lookup h (norm_name name) with Some _ => true | None => false end); [reflexivity|].
      apply IH. intro k. cbn [existsb]. rewrite lookup_combine_add, Hinv. reflexivity.
Qed.

Theorem head_equiv : forall ls, Forall bytes_ok ls -> Forall (fun l => l <> []) ls ->
  match header_lines_go ls [] with
  | inl e => head_fields ls = None /\ perr_code e = 400
  | inr joined =>
    match add_header_lines [] joined with
    | inl (e, _) => head_fields ls = None /\ perr_code e = 400
    | inr h => exists fs, head_fields ls = Some fs /\ combined fs = h
    end
  end.
Proof.
  intros ls Hok Hne. pose proof (unfold_go ls Hne) as G. unfold head_fields.
  destruct (unfold_lines ls None) as [out|] eqn:U.
  - rewrite G.
    assert (Hout : Forall line_ok out).
    { eapply unfold_lines_ok; eauto. intros p E. discriminate E. }
    pose proof (add_header_lines_ref out [] Hout) as A.
    destruct (parse_fields out) as [fs|] eqn:P.
    + rewrite (ref_adds_scan fs [] []) in A by (intro k; reflexivity).
      destruct (no_repeated_single [] (drop_underscore fs)).
      * rewrite A. exists (drop_underscore fs). split; reflexivity.
      * destruct A as [h' A]. rewrite A. split; reflexivity.
    + destruct A as (e & h' & A & Hc). rewrite A. split; auto.
  - destruct G as (e & G & Hc). rewrite G. split; auto.
Qed.

(* non-vacuity: two Host lines are a refusal, folding and combination work *)
Example head_equiv_example :
  head_fields [[72;111;115;116;58;32;97]; [88;45;65;58;49]; [9;50]; [120;45;97;58;32;51;32]]
  = Some [([72;111;115;116], [97]); ([88;45;65], [49;9;50]); ([120;45;97], [51])]
  /\ combined [([72;111;115;116], [97]); ([88;45;65], [49;9;50]); ([120;45;97], [51])]
     = [([72;79;83;84], [97]); ([88;95;65], [49;9;50;44;32;51])]
  /\ head_fields [[72;111;115;116;58;97]; [104;79;83;84;58;98]] = None.
Proof. repeat split; vm_compute; reflexivity. Qed.
