(* Non-vacuity of the end-to-end C15 theorems: two concrete byte-level requests
   of an untrusted peer -- hostile proxy headers in dash, upper-case and
   underscore spellings, a duplicate -- against the same request without them. *)
From Coq Require Import String.
From Coq Require Import List NArith ZArith Bool.
From WV Require Import Lib.PyBytes Lib.PyStrProxy Model.Receiver Model.Parser Model.Environ Model.Proxy
  Model.ProxyEnviron Spec.ProxySpec Proof.EnvironRun Proof.ProxyC15 Proof.C15Compose.
Import ListNotations.
Local Open Scope N_scope.

Definition crlf : bytes := [13; 10].
Definition ex_request (lines : list bytes) : bytes :=
  s2l "GET /p?q=1 HTTP/1.1" ++ crlf ++ concat (map (fun l => l ++ crlf) lines) ++ crlf.

Definition ex_with : list bytes :=
  [s2l "Host: front.example"; s2l "X-Forwarded-For: 6.6.6.6"; s2l "X_Forwarded_Host: evil.example";
   s2l "x-forwarded-proto: https"; s2l "X-FORWARDED-FOR:  7.7.7.7 "; s2l "Forwarded: for=:80";
   s2l "X-Forwarded_Port: 1"; s2l "User-Agent: x"].
Definition ex_without : list bytes := [s2l "Host: front.example"; s2l "User-Agent: x"].

Definition ex_adj : adj :=
  {| max_request_header_size := 262144; max_request_body_size := 1073741824; adj_url_scheme := s2l "http" |}.
Definition ex_ctx : Environ.config :=
  {| url_prefix := []; server_name := s2l "srv"; effective_port := PortInt 8080; ident := s2l "waitress";
     peer_addr := PeerTCP (s2l "203.0.113.9") 4711 |}.
Definition ex_clear : Proxy.config :=
  {| trusted_proxy := Some (s2l "10.0.0.1"); trusted_proxy_count := 1%Z;
     trusted_proxy_headers := Some [n_xff; n_xfproto]; clear_untrusted := true |}.
Definition ex_keep : Proxy.config :=
  {| trusted_proxy := None; trusted_proxy_count := 1%Z; trusted_proxy_headers := None; clear_untrusted := false |}.

Definition ex_p : parser :=
  match feed_all ex_adj [ex_request ex_with] with Some p => p | None => parser_init end.
Definition ex_p' : parser :=
  match feed_all ex_adj [ex_request ex_without] with Some p => p | None => parser_init end.

Example e2e_hyps_satisfiable :
  feed_all ex_adj [ex_request ex_with] = Some ex_p /\ accepted ex_p /\
  feed_all ex_adj [ex_request ex_without] = Some ex_p' /\ accepted ex_p' /\
  head_parts (concat [ex_request ex_with]) = Some (s2l "GET /p?q=1 HTTP/1.1", ex_with) /\
  head_parts (concat [ex_request ex_without]) = Some (s2l "GET /p?q=1 HTTP/1.1", ex_without) /\
  kept_lines ex_with = kept_lines ex_without /\
  ex_without = filter (fun l => negb (proxy_line l)) (filter (fun l => negb (underscore_name_line l)) ex_with) /\
  same_body ex_p ex_p' /\
  peer_untrusted ex_clear (addr0 (peer_addr ex_ctx)) /\ peer_untrusted ex_keep (addr0 (peer_addr ex_ctx)).
Proof.
  split; [vm_compute; reflexivity|]. split; [vm_compute; auto|].
  split; [vm_compute; reflexivity|]. split; [vm_compute; auto|].
  split; [vm_compute; reflexivity|]. split; [vm_compute; reflexivity|].
  split; [vm_compute; reflexivity|]. split; [vm_compute; reflexivity|].
  split; [vm_compute; auto|].
  split; split; discriminate.
Qed.

(* what the task builds: the dash / upper-case spellings land on the proxy
   keys (duplicates joined), the underscore spellings nowhere *)
Example e2e_environ_with :
  lookup k_xff (environ_of ex_ctx ex_p) = Some (s2l "6.6.6.6, 7.7.7.7") /\
  lookup k_xfh (environ_of ex_ctx ex_p) = None /\
  lookup k_xfport (environ_of ex_ctx ex_p) = None /\
  lookup k_xfproto (environ_of ex_ctx ex_p) = Some (s2l "https") /\
  lookup k_fwd (environ_of ex_ctx ex_p) = Some (s2l "for=:80") /\
  lookup k_remote_addr (environ_of ex_ctx ex_p) = Some (s2l "203.0.113.9").
Proof. vm_compute. repeat split. Qed.

(* clearing on: both requests give the application the same environ, none of the six in it *)
Example e2e_served_clear :
  serve_request ex_clear ex_ctx ex_p = serve_request ex_clear ex_ctx ex_p' /\
  exists o, serve_request ex_clear ex_ctx ex_p = Ok o /\
    lookup k_remote_addr o = Some (s2l "203.0.113.9") /\ lookup k_remote_port o = Some (s2l "4711") /\
    lookup k_server_name o = Some (s2l "srv") /\ lookup k_server_port o = Some (s2l "8080") /\
    lookup k_url_scheme o = Some (s2l "http") /\ lookup k_http_host o = Some (s2l "front.example") /\
    forallb (fun k => match lookup k o with None => true | Some _ => false end) proxy_keys = true.
Proof. split; [vm_compute; reflexivity|]. eexists. split; [vm_compute; reflexivity|]. vm_compute. repeat split. Qed.

(* clearing off, no middleware: the headers stay, the metadata is untouched *)
Example e2e_served_keep :
  exists o, serve_request ex_keep ex_ctx ex_p = Ok o /\
    lookup k_xff o = Some (s2l "6.6.6.6, 7.7.7.7") /\
    lookup k_remote_addr o = Some (s2l "203.0.113.9") /\ lookup k_url_scheme o = Some (s2l "http") /\
    lookup k_http_host o = Some (s2l "front.example").
Proof. eexists. split; [vm_compute; reflexivity|]. vm_compute. repeat split. Qed.
