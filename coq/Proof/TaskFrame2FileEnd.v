(* C03, widening: (4) the hand-over path of wsgi.file_wrapper, end to end. *)
From Coq Require Import String.
From Coq Require Import List NArith ZArith Bool Lia Arith Permutation.
From WV Require Import Lib.PyBytes Gen.GenTables Model.Task Spec.ClientParse
  Proof.TaskSort Proof.TaskLines Proof.TaskHead Proof.TaskStart Proof.TaskRun Proof.TaskChunk Proof.TaskClient
  Proof.TaskC08 Proof.TaskC09 Proof.TaskFrame Proof.TaskBody Proof.TaskSimple Proof.TaskFrameClient
  Proof.TaskFrameEnd Proof.TaskFrame2Sem Proof.TaskFrame2Run Proof.TaskFrame2Head Proof.TaskFrame2Dec
  Proof.TaskFrame2End Proof.TaskFrame2File.
Import ListNotations.
Local Open Scope N_scope.

Section FileEnd.
Variable cap : str -> str.
Variable lower : str -> str.
Hypothesis Hcap : forall s, clean s -> clean (cap s).
Hypothesis Hcap_conn : cap (lit "Connection") = lit "Connection".
Hypothesis Hcap_te : beqb (cap (lit "Transfer-Encoding")) (lit "Connection") = false.
Hypothesis Hcap_cl : beqb (cap (lit "Content-Length")) (lit "Connection") = false.
Variable c : cfg.
Hypothesis Hc : cfg_clean c.
Variable r : req.

(* no Content-Length declared: the server declares the file's size, hands the file
   over, and the client reads exactly the file's bytes; the connection is kept
   exactly when the head does not announce closing. *)
Theorem frame_file_nolen status hs chunks hc :
  r_error r = None -> Forall (not_cl lower) hs -> plain_fields cap (strs_of hs) ->
  r_head r = false -> no_body_st status = false ->
  file_content (plain_steps chunks) <> [] ->
  let content := file_content (plain_steps chunks) in
  let res := channel_service cap lower c r (fapp status hs chunks hc) None in
  o_raw res = None ->
  exists fields,
    parse_one false (wire (o_writes res))
    = Some (mkResponse (sl_of r status) fields (FLength (lenN content)) content, [])
    /\ (forall h, In h (strs_of hs) -> In (client_field (norm_field cap h)) fields)
    /\ o_next res = keep_of r /\ o_close res = negb (keep_of r)
    /\ (keep_of r = false -> In (client_field f_close) fields)
    /\ (keep_of r = true -> ~ In (client_field f_close) fields)
    /\ o_handover res = true /\ o_closes res = 0%nat.
Proof.
  intros He Hcl Hpl Hhead Hst Hne. cbn zeta. intro Hraw.
  set (content := file_content (plain_steps chunks)) in *.
  assert (Hlen : (0 < Z.of_nat (length content))%Z) by (destruct content; [congruence|cbn [length]; lia]).
  destruct (fapp_wire cap lower c r status hs chunks hc He Hst) with (2 := Hraw)
    as (t1 & tp & head & Esr & Eb & Ew & Ec & En & Eh & Ecl).
  { intros t1 Esr. destruct (nolen_start_facts lower r status hs t1 Esr Hcl) as (_ & _ & _ & _ & _ & _ & _ & _ & _ & L).
    unfold file_size. rewrite L. exact Hlen. }
  destruct (nolen_start_facts lower r status hs t1 Esr Hcl) as (Hclean1 & S2 & S3 & S4 & S5 & S6 & S7 & S8 & S9 & Hclen).
  fold content in Eb, Ew.
  assert (Esz : file_size t1 content = Z.of_nat (length content)) by (unfold file_size; rewrite Hclen; reflexivity).
  assert (Erec : reconciled lower t1 content = set_clen (Some (Z.of_nat (length content))) t1).
  { unfold reconciled. rewrite Esz, Hclen. reflexivity. }
  rewrite Erec in Eb. rewrite Esz, Nat2Z.id, firstn_all in Ew.
  set (t' := set_clen (Some (Z.of_nat (length content))) t1) in *.
  destruct (brh_ok cap lower c r _ _ _ Eb) as [Etp Ehead].
  assert (Hb1 : has_body t' = true).
  { change (has_body t') with (has_body t1). rewrite (has_body_status t1 status S2), Hst. reflexivity. }
  rewrite <- S3 in Hpl.
  pose proof (srvlen_head_facts cap lower Hcap Hcap_conn Hcap_te Hcap_cl c Hc r t' (Z.of_nat (length content))
                Hclean1 S6 S5 S7 S9 Hpl eq_refl (Nat2Z.is_nonneg _) Hb1) as F.
  cbn zeta in F. rewrite <- Etp in F.
  destruct F as (Hcleanp & Hnc & Pst & Pv & Pcof & Pchk & Pte & Pcl & Pin & Pc1 & Pc2).
  assert (Hbp : has_body tp = true) by (unfold has_body in *; rewrite Pst; exact Hb1).
  rewrite Ew, Ec, En, Eh, Ecl, Ehead, Pchk, Pcof. cbn [andb]. rewrite app_nil_r, negb_involutive.
  exists (cfields tp).
  rewrite <- nat_N_Z, N2Z.id in Pcl. fold (lenN content) in Pcl.
  pose proof (parse_length tp (to_dec (lenN content)) content [] Hcleanp Hnc Hbp Pte Pcl (to_dec_digits _)) as PL.
  rewrite dec_rt, app_nil_r in PL. rewrite (PL eq_refl).
  rewrite (first_line_sl r tp t' status Pst Pv S2 S9).
  split; [reflexivity|]. split; [intros h Hh; apply in_cfields; apply Pin; change (t_rh t') with (t_rh t1); rewrite S3; exact Hh|].
  split; [reflexivity|]. split; [reflexivity|]. split; [intro Hk; apply in_cfields; apply Pc1; exact Hk|].
  split; [exact Pc2|]. auto.
Qed.

(* a declared Content-Length not larger than the file (prepare(size) cuts a longer
   file at the declared length): the application's own header stays, the client
   reads exactly the declared number of bytes from the start of the file. *)
Theorem frame_file_declared status pre clname v post cl chunks hc :
  r_error r = None ->
  Forall (not_cl lower) post ->
  beqb (lower clname) (lit "content-length") = true -> py_int v = Some cl ->
  all_digits v = true -> Z.of_N (dec_value v) = cl ->
  plain_fields cap (strs_of pre) -> plain_fields cap (strs_of post) ->
  norm_name cap clname = lit "Content-Length" ->
  r_head r = false -> no_body_st status = false ->
  let content := file_content (plain_steps chunks) in
  (0 < cl)%Z -> (cl <= Z.of_nat (length content))%Z ->
  let hs := pre ++ (PStr clname, PStr v) :: post in
  let res := channel_service cap lower c r (fapp status hs chunks hc) None in
  o_raw res = None ->
  exists fields,
    parse_one false (wire (o_writes res))
    = Some (mkResponse (sl_of r status) fields (FLength (dec_value v)) (firstn (N.to_nat (dec_value v)) content), [])
    /\ (forall h, In h (strs_of hs) -> In (client_field (norm_field cap h)) fields)
    /\ o_next res = keep_of r /\ o_close res = negb (keep_of r)
    /\ (keep_of r = false -> In (client_field f_close) fields)
    /\ (keep_of r = true -> ~ In (client_field f_close) fields)
    /\ o_handover res = true /\ o_closes res = 0%nat.
Proof.
  intros He Hpost Hn Hv Hdig Hdv Ppre Ppost Hnorm Hhead Hst. cbn zeta. intros Hpos Hle Hraw.
  set (content := file_content (plain_steps chunks)) in *.
  set (hs := pre ++ (PStr clname, PStr v) :: post) in *.
  assert (Hsz : forall t1, t_clen t1 = Some cl -> file_size t1 content = cl).
  { intros t1 L. unfold file_size. rewrite L. clear - Hle. lia. }
  destruct (fapp_wire cap lower c r status hs chunks hc He Hst) with (2 := Hraw)
    as (t1 & tp & head & Esr & Eb & Ew & Ec & En & Eh & Ecl).
  { intros t1 Esr. fold content. rewrite (Hsz t1); [exact Hpos|].
    apply (start_response_cl lower _ clname v cl pre post status t1 Hpost Hn Hv Esr). }
  destruct (len_start_facts lower r status pre clname v post cl t1 Esr Hpost Hn Hv)
    as (Hclean1 & S2 & S3 & S4 & S5 & S6 & S7 & S8 & S9 & Hclen).
  fold content in Eb, Ew. rewrite (Hsz t1 Hclen) in Ew.
  assert (Erec : reconciled lower t1 content = t1).
  { unfold reconciled. rewrite (Hsz t1 Hclen), Hclen, Z.eqb_refl. reflexivity. }
  rewrite Erec in Eb.
  destruct (brh_ok cap lower c r _ _ _ Eb) as [Etp Ehead].
  assert (Hb1 : has_body t1 = true) by (rewrite (has_body_status t1 status S2), Hst; reflexivity).
  pose proof (len_head_facts cap lower Hcap Hcap_conn Hcap_te Hcap_cl c Hc r t1 (strs_of pre) clname v (strs_of post)
                             Hclean1 S6 S5 S7 S9 S3 Ppre Ppost Hnorm Hb1 Hdig) as F.
  cbn zeta in F. rewrite <- Etp in F.
  destruct F as (Hcleanp & Hnc & Pst & Pv & Pcof & Pchk & Pte & Pcl & Pin & Pc1 & Pc2).
  assert (Hbp : has_body tp = true) by (unfold has_body in *; rewrite Pst; exact Hb1).
  assert (Hn2 : Z.to_nat cl = N.to_nat (dec_value v)) by (rewrite <- Hdv; rewrite <- Z_N_nat, N2Z.id; reflexivity).
  rewrite Ew, Ec, En, Eh, Ecl, Ehead, Pchk, Pcof, Hn2. cbn [andb]. rewrite app_nil_r, negb_involutive.
  exists (cfields tp).
  assert (Hbl : lenN (firstn (N.to_nat (dec_value v)) content) = dec_value v).
  { unfold lenN. rewrite firstn_length, <- Hn2. rewrite Nat.min_l by (clear - Hle Hpos; lia).
    rewrite Z_nat_N, <- Hdv. apply N2Z.id. }
  pose proof (parse_length tp v _ [] Hcleanp Hnc Hbp Pte Pcl Hdig Hbl) as PL. rewrite app_nil_r in PL.
  rewrite PL, (first_line_sl r tp t1 status Pst Pv S2 S9).
  split; [reflexivity|].
  split; [intros h Hh; apply in_cfields; apply Pin; rewrite S3; unfold hs in Hh; rewrite strs_of_app in Hh; exact Hh|].
  split; [reflexivity|]. split; [reflexivity|]. split; [intro Hk; apply in_cfields; apply Pc1; exact Hk|].
  split; [exact Pc2|]. auto.
Qed.

End FileEnd.
