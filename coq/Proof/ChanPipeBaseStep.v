(* Proof/ChanPipeBaseStep.v -- layer L0 (lock well-formedness) is preserved by every step. *)
From Coq Require Import List Arith Bool ZArith Lia.
From WV Require Import Model.ChanPipe Proof.ChanPipeBase.
Import ListNotations.

Section Step.
Variable P : params.

Ltac lock_fin :=
  repeat match goal with
  | H : (_ && _)%bool = true |- _ => apply andb_true_iff in H; destruct H
  | H : free ?l = true |- _ => apply free_none in H
  | H : free ?l = false |- _ => apply free_some in H; destruct H as [? H]
  end;
  cbn in *;
  repeat match goal with
  | H : _ /\ _ |- _ => destruct H
  end;
  try solve [ intuition (try discriminate; try congruence) ].

Theorem L0_step : forall st c st' l, L0 st -> step P st c = Some (st', l) -> L0 st'.
Proof.
  intros st c st' l [[R1 R2] [O1 O2] [D1 D2]] Hs.
  unfold step in Hs. destruct c as [e | me e].
  - destruct (io_step P (sh st) (io st) e) as [[[s' i'] l']|] eqn:E; [|discriminate].
    inv_some Hs.
    unfold io_step, sc_step, at_step, fl_step, sc_enter, io_after_read in E.
    destruct st as [s i w]. cbn [sh io wk] in *.
    destruct i as [pc ir iw iws its icur icomp]. cbn [ipc] in *.
    destruct pc; break_step E; inv_some E;
      (split; split; cbn; [| intro j; specialize (R2 j); specialize (O2 j); specialize (D2 j) | | intro j; specialize (R2 j); specialize (O2 j); specialize (D2 j) | | intro j; specialize (R2 j); specialize (O2 j); specialize (D2 j)]);
      lock_fin.
  - destruct (Nat.ltb me (p_nw P)) eqn:Hme; [|discriminate].
    destruct (wk_step P me (sh st) (wk st me) e) as [[[s' w'] l']|] eqn:E; [|discriminate].
    inv_some Hs.
    unfold wk_step, sc_step, at_step, fl_step, sc_enter, wk_next_write in E.
    destruct st as [s i w]. cbn [sh io wk] in *.
    pose proof (R2 me) as R2m. pose proof (O2 me) as O2m. pose proof (D2 me) as D2m.
    destruct (w me) as [pc cur idx off cl] eqn:Hw. cbn [wpc] in *.
    destruct pc; break_step E; inv_some E;
      (split; split; cbn;
       [| intro j; unfold upd; destruct (Nat.eqb_spec j me); [subst j|specialize (R2 j)]
        | | intro j; unfold upd; destruct (Nat.eqb_spec j me); [subst j|specialize (O2 j)]
        | | intro j; unfold upd; destruct (Nat.eqb_spec j me); [subst j|specialize (D2 j)]]);
      lock_fin.
Qed.
End Step.
