(* build_http_date (Model/HttpDate.v): for EVERY time stamp the Date value consists of printable
   ASCII only (so it cannot add or split lines of a response head: the assumption "the date contains no
   CR/LF and is latin-1" of the C08 / C03 theorems holds for every date the server can produce), and for
   every time stamp up to the year 9999 it is an IMF-fixdate: Www, DD Mon YYYY HH:MM:SS GMT. *)
From Coq Require Import List NArith ZArith Bool Lia ZifyBool Arith.
From WV Require Import Lib.PyBytes Model.HttpDate.
Import ListNotations.
Local Open Scope N_scope.
Ltac Zify.zify_post_hook ::= Z.to_euclidean_division_equations.

Definition printable (x : N) : Prop := 32 <= x <= 126.
Definition digit (x : N) : Prop := 48 <= x <= 57.

Lemma digit_printable x : digit x -> printable x.
Proof. unfold digit, printable. lia. Qed.

Lemma to_dec_fuel_digits fuel : forall n acc, Forall digit acc -> Forall digit (to_dec_fuel fuel n acc).
Proof.
  induction fuel as [|f IH]; intros n acc H; cbn [to_dec_fuel]; [exact H|].
  assert (D : digit (48 + n mod 10)) by (unfold digit; pose proof (N.mod_upper_bound n 10); lia).
  destruct (n <? 10); [constructor; assumption | apply IH; constructor; assumption].
Qed.

Lemma to_dec_digits n : Forall digit (to_dec n).
Proof. apply to_dec_fuel_digits. constructor. Qed.

Lemma Forall_impl' {A} (P Q : A -> Prop) l : (forall x, P x -> Q x) -> Forall P l -> Forall Q l.
Proof. intros H F. eapply Forall_impl; eauto. Qed.

Lemma pad2_printable n : Forall printable (pad2 n).
Proof.
  unfold pad2. destruct (n <? 10).
  - constructor; [unfold printable; lia|]. apply (Forall_impl' digit); [apply digit_printable | apply to_dec_digits].
  - apply (Forall_impl' digit); [apply digit_printable | apply to_dec_digits].
Qed.

Lemma pad4_printable n : Forall printable (pad4 n).
Proof.
  unfold pad4. apply Forall_app; split.
  - apply Forall_forall. intros x Hx. apply repeat_spec in Hx. subst. unfold printable. lia.
  - apply (Forall_impl' digit); [apply digit_printable | apply to_dec_digits].
Qed.

Definition all_printable (s : bytes) : bool := forallb (fun x => (32 <=? x) && (x <=? 126)) s.

Lemma all_printable_spec s : all_printable s = true -> Forall printable s.
Proof.
  unfold all_printable. rewrite forallb_forall. intro H. apply Forall_forall. intros x Hx.
  specialize (H x Hx). unfold printable. lia.
Qed.

Lemma table_nth_printable (t : list bytes) k : forallb all_printable t = true -> Forall printable (nth k t []).
Proof.
  intro H. destruct (nth_in_or_default k t []) as [Hin | ->]; [|constructor].
  rewrite forallb_forall in H. apply all_printable_spec. apply H. exact Hin.
Qed.

(* D1: every character of every Date value is printable ASCII *)
Lemma lit_printable (s : bytes) : all_printable s = true -> Forall printable s.
Proof. apply all_printable_spec. Qed.

Theorem date_printable when : Forall printable (build_http_date when).
Proof.
  unfold build_http_date. cbv zeta.
  apply Forall_app; split; [apply table_nth_printable; reflexivity|].
  apply Forall_app; split; [apply lit_printable; reflexivity|].
  apply Forall_app; split; [apply pad2_printable|].
  apply Forall_app; split; [apply lit_printable; reflexivity|].
  apply Forall_app; split; [apply table_nth_printable; reflexivity|].
  apply Forall_app; split; [apply lit_printable; reflexivity|].
  apply Forall_app; split; [apply pad4_printable|].
  apply Forall_app; split; [apply lit_printable; reflexivity|].
  apply Forall_app; split; [apply pad2_printable|].
  apply Forall_app; split; [apply lit_printable; reflexivity|].
  apply Forall_app; split; [apply pad2_printable|].
  apply Forall_app; split; [apply lit_printable; reflexivity|].
  apply Forall_app; split; [apply pad2_printable|].
  apply lit_printable; reflexivity.
Qed.

Corollary date_no_crlf when : ~ In 13 (build_http_date when) /\ ~ In 10 (build_http_date when) /\
  Forall (fun x => x < 128) (build_http_date when).
Proof.
  pose proof (date_printable when) as H. rewrite Forall_forall in H. repeat split.
  - intro Hi. specialize (H _ Hi). unfold printable in H. lia.
  - intro Hi. specialize (H _ Hi). unfold printable in H. lia.
  - apply Forall_forall. intros x Hx. specialize (H _ Hx). unfold printable in H. lia.
Qed.

(* ---- the shape, up to the year 9999 ---------------------------------------------------- *)

(* month and day depend on the day of the 400-year era only; their bounds are linear arithmetic
   with constant divisors (decided by lia over the Euclidean-division equations) *)
Lemma civil_md days : let '(y, m, d) := civil_from_days days in 1 <= m <= 12 /\ 1 <= d <= 31.
Proof.
  unfold civil_from_days. set (z := days + 719468). set (era := z / 146097).
  set (doe := z - era * 146097).
  assert (Hdoe : doe < 146097).
  { subst doe era. pose proof (N.mod_upper_bound z 146097). pose proof (N.div_mod z 146097). lia. }
  clearbody doe. clear z era. cbv zeta.
  assert (H : let yoe := (doe - doe / 1460 + doe / 36524 - doe / 146096) / 365 in
              let doy := doe - (365 * yoe + yoe / 4 - yoe / 100) in
              let mp := (5 * doy + 2) / 153 in
              let d := doy - (153 * mp + 2) / 5 + 1 in
              mp <= 11 /\ 1 <= d <= 31) by (cbv zeta; lia).
  cbv zeta in H. destruct H as (Hmp & Hd).
  destruct ((5 * (doe - (365 * ((doe - doe / 1460 + doe / 36524 - doe / 146096) / 365) +
            (doe - doe / 1460 + doe / 36524 - doe / 146096) / 365 / 4 -
            (doe - doe / 1460 + doe / 36524 - doe / 146096) / 365 / 100)) + 2) / 153 <? 10) eqn:E; lia.
Qed.

Fixpoint upto (n : nat) : list N :=
  match n with O => [] | S k => N.of_nat k :: upto k end.

Lemma upto_in n x : x < N.of_nat n -> In x (upto n).
Proof.
  induction n as [|k IH]; intro H; [lia|]. cbn [upto].
  destruct (N.eq_dec x (N.of_nat k)) as [->|Hne]; [left; reflexivity | right; apply IH; lia].
Qed.

(* two decimal digits for 10..99, four for 1000..9999: finite sweeps *)
Definition two_digits (n : N) : bool := match to_dec n with [a; b] => true | _ => false end.
Definition four_digits (n : N) : bool := match to_dec n with [a; b; c; d] => true | _ => false end.
Definition one_digit (n : N) : bool := match to_dec n with [a] => true | _ => false end.

Lemma dec_sweep :
  forallb (fun n => if n <? 10 then one_digit n else two_digits n) (upto 100) = true /\
  forallb (fun n => if n <? 1000 then true else four_digits n) (upto (N.to_nat 10000)) = true.
Proof. split; vm_compute; reflexivity. Qed.

Lemma pad2_len n : n < 100 -> length (pad2 n) = 2%nat.
Proof.
  intro H. destruct dec_sweep as [S _]. rewrite forallb_forall in S.
  specialize (S n (upto_in 100 n ltac:(lia))). unfold pad2.
  destruct (n <? 10); [unfold one_digit in S | unfold two_digits in S];
    destruct (to_dec n) as [|a [|b [|c l]]]; try discriminate; reflexivity.
Qed.

Lemma pad4_len n : 1000 <= n <= 9999 -> length (pad4 n) = 4%nat /\ Forall digit (pad4 n).
Proof.
  intro H. destruct dec_sweep as [_ S]. rewrite forallb_forall in S.
  assert (Hin : In n (upto (N.to_nat 10000))) by (apply upto_in; rewrite N2Nat.id; lia).
  specialize (S n Hin). destruct (n <? 1000) eqn:E; [lia|].
  unfold four_digits in S. unfold pad4. pose proof (to_dec_digits n) as D.
  destruct (to_dec n) as [|a [|b [|c [|d [|e l]]]]]; try discriminate.
  cbn [length Nat.sub repeat app]. split; [reflexivity | exact D].
Qed.

Lemma name_len (t : list bytes) k : (k < length t)%nat -> forallb (fun s => Nat.eqb (length s) 3) t = true ->
  length (nth k t []) = 3%nat /\ In (nth k t []) t.
Proof.
  intros Hk H. assert (Hin : In (nth k t []) t) by (apply nth_In; exact Hk).
  rewrite forallb_forall in H. specialize (H _ Hin). apply Nat.eqb_eq in H. auto.
Qed.

(* D2: the IMF-fixdate shape *)
Theorem date_shape when : 1000 <= tm_year (gmtime when) <= 9999 ->
  exists W D M Y h m s,
    build_http_date when = W ++ [44; 32] ++ D ++ [32] ++ M ++ [32] ++ Y ++ [32] ++ h ++ [58] ++ m ++ [58] ++ s ++ [32; 71; 77; 84] /\
    In W weekdayname /\ In M monthname /\
    length D = 2%nat /\ length Y = 4%nat /\ length h = 2%nat /\ length m = 2%nat /\ length s = 2%nat /\
    Forall digit D /\ Forall digit Y /\ Forall digit h /\ Forall digit m /\ Forall digit s /\
    length (build_http_date when) = 29%nat.
Proof.
  intro Hy. unfold build_http_date.
  set (t := gmtime when) in *.
  assert (Hb : tm_wday t < 7 /\ 1 <= tm_mon t <= 12 /\ 1 <= tm_mday t <= 31 /\ tm_hour t < 24 /\ tm_min t < 60 /\ tm_sec t < 60).
  { subst t. unfold gmtime. pose proof (civil_md (when / 86400)) as C.
    destruct (civil_from_days (when / 86400)) as [[y mo] d]. cbn [tm_wday tm_mon tm_mday tm_hour tm_min tm_sec].
    pose proof (N.mod_upper_bound (when / 86400 + 3) 7). pose proof (N.mod_upper_bound when 86400).
    pose proof (N.mod_upper_bound (when mod 86400) 3600). pose proof (N.mod_upper_bound (when mod 86400) 60).
    assert (when mod 86400 / 3600 < 24) by (apply N.div_lt_upper_bound; lia).
    assert (when mod 86400 mod 3600 / 60 < 60) by (apply N.div_lt_upper_bound; lia).
    lia. }
  destruct Hb as (Hw & Hmo & Hd & Hh & Hmi & Hs).
  assert (Lw : (N.to_nat (tm_wday t) < length weekdayname)%nat) by (change (length weekdayname) with 7%nat; lia).
  destruct (name_len weekdayname (N.to_nat (tm_wday t)) Lw eq_refl) as (LW & IW).
  assert (Lm : (N.to_nat (tm_mon t - 1) < length monthname)%nat) by (change (length monthname) with 12%nat; lia).
  destruct (name_len monthname (N.to_nat (tm_mon t - 1)) Lm eq_refl) as (LM & IM).
  destruct (pad4_len (tm_year t) Hy) as (LY & DY).
  assert (P2 : forall n, Forall digit (pad2 n)).
  { intro n. unfold pad2. destruct (n <? 10); [constructor; [unfold digit; lia|]|]; apply to_dec_digits. }
  do 7 eexists. split; [reflexivity|].
  repeat split; auto; try (apply pad2_len; lia).
  rewrite !app_length, LW, LM, LY, !pad2_len by lia. reflexivity.
Qed.

Example date_examples :
  build_http_date 0 = [84;104;117;44;32;48;49;32;74;97;110;32;49;57;55;48;32;48;48;58;48;48;58;48;48;32;71;77;84] /\
  tm_year (gmtime 951782400) = 2000 /\ tm_mon (gmtime 951782400) = 2 /\ tm_mday (gmtime 951782400) = 29 /\
  tm_year (gmtime 253402300799) = 9999.
Proof. vm_compute. repeat split. Qed.

(* in the vocabulary of the response-head theorems (Model/Task.v: has_crlf = memb LF || memb CR) *)
Lemma printable_memb x s : Forall printable s -> ~ printable x -> PyBytes.memb x s = false.
Proof.
  unfold PyBytes.memb. induction s as [|y s IH]; intros H Hx; [reflexivity|]. inversion H; subst. cbn [existsb].
  destruct (N.eqb_spec x y) as [->|Hne]; [contradiction|]. cbn [orb]. apply IH; assumption.
Qed.

Theorem date_memb_crlf when : PyBytes.memb 10 (build_http_date when) = false /\ PyBytes.memb 13 (build_http_date when) = false.
Proof.
  split; apply printable_memb; try apply date_printable; unfold printable; lia.
Qed.
