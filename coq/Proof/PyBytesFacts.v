(* Facts about the PyBytes primitives (startswith / find / firstn / skipn)
   used by the proofs about the receivers and the parser. *)
From Coq Require Import List NArith ZArith Bool Lia Arith.
From WV Require Import Lib.PyBytes.
Import ListNotations.

(* ------------------------------------------------------------------ *)
(* startswith *)

Lemma startswith_nil s : startswith s [] = true.
Proof. destruct s; reflexivity. Qed.

Lemma startswith_spec s p : startswith s p = true <-> exists t, s = p ++ t.
Proof.
  revert s; induction p as [|x p IH]; intros s.
  - rewrite startswith_nil. split; [intros _; exists s; reflexivity | auto].
  - destruct s as [|y s]; simpl.
    + split; [discriminate | intros [t H]; discriminate].
    + rewrite andb_true_iff, IH, N.eqb_eq. split.
      * intros [-> [t ->]]. eauto.
      * intros [t H]. injection H as -> ->. eauto.
Qed.

Lemma startswith_app s t p : startswith s p = true -> startswith (s ++ t) p = true.
Proof.
  rewrite !startswith_spec. intros [u ->]. exists (u ++ t). now rewrite app_assoc.
Qed.

Lemma startswith_length s p : startswith s p = true -> length p <= length s.
Proof. rewrite startswith_spec. intros [t ->]. rewrite app_length. lia. Qed.

(* when s is at least as long as p, appending does not matter *)
Lemma startswith_app_long s t p : length p <= length s ->
  startswith (s ++ t) p = startswith s p.
Proof.
  revert s; induction p as [|x p IH]; intros s H.
  - now rewrite !startswith_nil.
  - destruct s as [|y s]; simpl in *; [lia|]. rewrite IH by lia. reflexivity.
Qed.

Lemma startswith_short s p : length s < length p -> startswith s p = false.
Proof.
  intros H. destruct (startswith s p) eqn:E; auto. apply startswith_length in E. lia.
Qed.

Lemma startswith_self_app p t : startswith (p ++ t) p = true.
Proof. apply startswith_spec. eauto. Qed.

(* ------------------------------------------------------------------ *)
(* find: first occurrence *)

Lemma find_from_shift s p i :
  find_from s p i = match find_from s p 0 with Some k => Some (i + k) | None => None end.
Proof.
  revert i; induction s as [|x s IH]; intros i; cbn [find_from].
  - destruct (startswith [] p); simpl; [f_equal; lia | reflexivity].
  - destruct (startswith (x :: s) p); simpl; [f_equal; lia|].
    rewrite (IH (S i)), (IH 1). destruct (find_from s p 0); simpl; [f_equal; lia | reflexivity].
Qed.

Lemma find_cons x s p :
  find (x :: s) p = if startswith (x :: s) p then Some 0
                    else match find s p with Some k => Some (S k) | None => None end.
Proof.
  unfold find. cbn [find_from]. destruct (startswith (x :: s) p); auto.
  rewrite find_from_shift. reflexivity.
Qed.

Lemma find_nil p : find [] p = if startswith [] p then Some 0 else None.
Proof. reflexivity. Qed.

(* occurrence at position i *)
Definition occ (s p : bytes) (i : nat) : Prop := startswith (skipn i s) p = true.

Lemma find_Some s p i : find s p = Some i ->
  occ s p i /\ i + length p <= length s /\ forall j, j < i -> startswith (skipn j s) p = false.
Proof.
  revert i; induction s as [|x s IH]; intros i.
  - rewrite find_nil. destruct (startswith [] p) eqn:E; [|discriminate].
    intros H; injection H as <-. unfold occ. cbn [skipn]. split; auto. split.
    + apply startswith_length in E. simpl in *. lia.
    + intros j Hj; lia.
  - rewrite find_cons. destruct (startswith (x :: s) p) eqn:E.
    + intros H; injection H as <-. unfold occ; cbn [skipn]. split; auto. split.
      * apply startswith_length in E. simpl in *. lia.
      * intros j Hj; lia.
    + destruct (find s p) as [k|] eqn:F; [|discriminate].
      intros H; injection H as <-. destruct (IH k eq_refl) as (O & L & M).
      split; [exact O|]. split; [simpl; lia|].
      intros [|j] Hj; cbn [skipn]; auto. apply M. lia.
Qed.

Lemma find_None s p : find s p = None -> forall j, startswith (skipn j s) p = false.
Proof.
  induction s as [|x s IH].
  - rewrite find_nil. destruct (startswith [] p) eqn:E; [discriminate|].
    intros _ [|j]; cbn [skipn]; auto.
  - rewrite find_cons. destruct (startswith (x :: s) p) eqn:E; [discriminate|].
    destruct (find s p) eqn:F; [discriminate|]. intros _ [|j]; cbn [skipn]; auto.
Qed.

Lemma find_first s p i :
  occ s p i -> i <= length s -> (forall j, j < i -> startswith (skipn j s) p = false) ->
  find s p = Some i.
Proof.
  revert i; induction s as [|x s IH]; intros i O L M.
  - simpl in L. assert (i = 0) by lia. subst. unfold occ in O. cbn [skipn] in O.
    rewrite find_nil, O. reflexivity.
  - rewrite find_cons. destruct i as [|i].
    + unfold occ in O; cbn [skipn] in O. now rewrite O.
    + pose proof (M 0 ltac:(lia)) as M0. cbn [skipn] in M0. rewrite M0.
      rewrite (IH i); auto.
      * simpl in L; lia.
      * intros j Hj. apply (M (S j)). lia.
Qed.

Lemma find_none_intro s p :
  (forall j, j <= length s -> startswith (skipn j s) p = false) -> find s p = None.
Proof.
  induction s as [|x s IH]; intros M.
  - rewrite find_nil. pose proof (M 0 ltac:(simpl; lia)) as M0. cbn [skipn] in M0. now rewrite M0.
  - rewrite find_cons. pose proof (M 0 ltac:(simpl; lia)) as M0. cbn [skipn] in M0. rewrite M0.
    rewrite IH; auto. intros j Hj. apply (M (S j)). simpl; lia.
Qed.

Lemma find_bound s p i : find s p = Some i -> i + length p <= length s.
Proof. intros H. apply find_Some in H. tauto. Qed.

Lemma skipn_app_le {A} (n : nat) (s t : list A) : n <= length s -> skipn n (s ++ t) = skipn n s ++ t.
Proof.
  intros H. rewrite skipn_app. replace (n - length s) with 0 by lia. reflexivity.
Qed.

Lemma firstn_app_le {A} (n : nat) (s t : list A) : n <= length s -> firstn n (s ++ t) = firstn n s.
Proof.
  intros H. rewrite firstn_app. replace (n - length s) with 0 by lia. simpl. now rewrite app_nil_r.
Qed.

(* an occurrence found inside s is the first occurrence of s ++ t *)
Lemma find_app_l s t p i : find s p = Some i -> find (s ++ t) p = Some i.
Proof.
  intros H. apply find_Some in H as (O & L & M).
  apply find_first.
  - unfold occ in *. rewrite skipn_app_le by lia. now apply startswith_app.
  - rewrite app_length. lia.
  - intros j Hj. rewrite skipn_app_le by lia.
    rewrite startswith_app_long; [apply M; lia|].
    rewrite skipn_length. lia.
Qed.

(* conversely an occurrence of s ++ t that ends inside s is one of s *)
Lemma find_app_inv s t p i :
  find (s ++ t) p = Some i -> i + length p <= length s -> find s p = Some i.
Proof.
  intros H L. apply find_Some in H as (O & _ & M).
  apply find_first.
  - unfold occ in *. rewrite skipn_app_le in O by lia.
    rewrite startswith_app_long in O; auto. rewrite skipn_length. lia.
  - lia.
  - intros j Hj. specialize (M j Hj). rewrite skipn_app_le in M by lia.
    rewrite startswith_app_long in M; auto. rewrite skipn_length. lia.
Qed.

(* s has no occurrence: an occurrence of s ++ t ends beyond s *)
Lemma find_app_none_l s t p i :
  find s p = None -> find (s ++ t) p = Some i -> length s < i + length p.
Proof.
  intros N H. destruct (le_lt_dec (i + length p) (length s)) as [L|L]; auto.
  rewrite (find_app_inv _ _ _ _ H L) in N. discriminate.
Qed.

Lemma find_app_none_both s t p :
  find (s ++ t) p = None -> find s p = None.
Proof.
  intros H. destruct (find s p) eqn:E; auto.
  rewrite (find_app_l _ t _ _ E) in H. discriminate.
Qed.

(* find on (s ++ t) when the occurrence found lies in s ++ t: firstn/skipn facts *)
Lemma firstn_app_find s t p i : find s p = Some i -> firstn i (s ++ t) = firstn i s.
Proof. intros H. apply find_bound in H. apply firstn_app_le. lia. Qed.

Lemma skipn_app_find s t p i : find s p = Some i ->
  skipn (i + length p) (s ++ t) = skipn (i + length p) s ++ t.
Proof. intros H. apply find_bound in H. apply skipn_app_le. lia. Qed.

(* ------------------------------------------------------------------ *)
(* two-byte patterns: CRLF-like *)

Lemma startswith2 s a b :
  startswith s [a; b] = match s with x :: y :: _ => N.eqb a x && N.eqb b y | _ => false end.
Proof.
  destruct s as [|x [|y s]]; simpl; auto.
  - now rewrite andb_false_r.
  - now rewrite startswith_nil, andb_true_r.
Qed.

(* appending one byte to a string without the pattern [a;b]: the pattern
   appears only if the string ends with a and the byte is b *)
Lemma find2_snoc s a b c i :
  find s [a; b] = None -> find (s ++ [c]) [a; b] = Some i ->
  S i = length s /\ c = b /\ exists s0, s = s0 ++ [a].
Proof.
  intros N H.
  pose proof (find_app_none_l _ _ _ _ N H) as L1. simpl in L1.
  pose proof (find_bound _ _ _ H) as L2. rewrite app_length in L2. simpl in L2.
  assert (S i = length s) by lia. split; auto.
  apply find_Some in H as (O & _ & _). unfold occ in O.
  assert (Hs : s = firstn i s ++ skipn i s) by (symmetry; apply firstn_skipn).
  remember (skipn i s) as u eqn:Eu.
  assert (Lu : length u = 1) by (subst u; rewrite skipn_length; lia).
  destruct u as [|x [|? ?]]; simpl in Lu; try lia.
  rewrite skipn_app_le in O by lia. rewrite <- Eu in O.
  change ([x] ++ [c]) with [x; c] in O. rewrite startswith2 in O.
  apply andb_true_iff in O as [O1 O2]. apply N.eqb_eq in O1, O2. subst.
  split; auto. eexists. exact Hs.
Qed.

Lemma lenN_app (s t : bytes) : lenN (s ++ t) = (lenN s + lenN t)%N.
Proof. unfold lenN. rewrite app_length. lia. Qed.

Lemma lenN_cons x (s : bytes) : lenN (x :: s) = (1 + lenN s)%N.
Proof. unfold lenN. simpl length. lia. Qed.

Lemma lenN_nil : lenN [] = 0%N.
Proof. reflexivity. Qed.

Lemma lenN_length (s : bytes) : N.to_nat (lenN s) = length s.
Proof. unfold lenN. lia. Qed.
