(* start_response: what it refuses, what it accepts, what it changes (C08). *)
From Coq Require Import String.
From Coq Require Import List NArith ZArith Bool Lia Arith.
From WV Require Import Lib.PyBytes Gen.GenTables Model.Task Proof.TaskLines Proof.TaskHead.
Import ListNotations.
Local Open Scope N_scope.

Definition bad_obj (o : pyobj) : bool :=
  match o with PNonStr => true | PStr s => has_crlf s end.

Definition str_of (o : pyobj) : str := match o with PStr s => s | PNonStr => [] end.
Definition strs_of (hs : list (pyobj * pyobj)) : list (str * str) :=
  map (fun h => (str_of (fst h), str_of (snd h))) hs.

Section Oracle.
Variable lower : str -> str.

Definition is_hop (o : pyobj) : bool :=
  match o with PStr k => existsb (beqb (lower k)) hop_by_hop | PNonStr => false end.

Definition not_token (o : pyobj) : bool :=
  match o with PStr k => negb (is_token k) | PNonStr => false end.

(* a (name, value) pair that start_response must refuse *)
Definition bad_header (h : pyobj * pyobj) : bool :=
  bad_obj (fst h) || bad_obj (snd h) || not_token (fst h) || is_hop (fst h).

Definition offending (status : pyobj) (headers : list (pyobj * pyobj)) : bool :=
  bad_obj status || existsb bad_header headers.

Lemma cl_not_hop kl : beqb kl (lit "content-length") = true -> existsb (beqb kl) hop_by_hop = false.
Proof. intro H. apply beqb_eq in H. subst kl. vm_compute. reflexivity. Qed.

(* the header loop touches content_length only *)
Lemma sr_headers_frame hs : forall t acc,
  let t' := fst (sr_headers lower t hs acc) in
  t_rh t' = t_rh t /\ t_status t' = t_status t /\ t_complete t' = t_complete t
  /\ t_wrote_header t' = t_wrote_header t /\ t_cof t' = t_cof t /\ t_chunked t' = t_chunked t
  /\ t_cbw t' = t_cbw t /\ t_v11 t' = t_v11 t.
Proof.
  induction hs as [|[k v] hs IH]; intros t acc; cbn [sr_headers].
  - cbn. tauto.
  - destruct k as [k|]; [|cbn; tauto]. destruct v as [v|]; [|cbn; tauto].
    destruct (has_crlf v); [cbn; tauto|]. destruct (has_crlf k); [cbn; tauto|].
    destruct (negb (is_token k)); [cbn; tauto|].
    destruct (beqb (lower k) _).
    + destruct (py_int v); [|cbn; tauto].
      specialize (IH (set_clen (Some z) t) (acc ++ [(k, v)])). cbn zeta in IH. exact IH.
    + destruct (existsb (beqb (lower k)) hop_by_hop); [cbn; tauto|]. apply IH.
Qed.

Lemma sr_headers_refuses hs : forall t acc, existsb bad_header hs = true ->
  exists e, snd (sr_headers lower t hs acc) = Exn e /\ (e = AssertionError \/ e = ValueError).
Proof.
  induction hs as [|[k v] hs IH]; intros t acc H; [discriminate|].
  cbn [sr_headers]. cbn [existsb] in H.
  destruct k as [k|]; [|eexists; split; [reflexivity|auto]].
  destruct v as [v|]; [|eexists; split; [reflexivity|auto]].
  destruct (has_crlf v) eqn:Ev; [eexists; split; [reflexivity|auto]|].
  destruct (has_crlf k) eqn:Ek; [eexists; split; [reflexivity|auto]|].
  unfold bad_header in H at 1. cbn [fst snd bad_obj is_hop not_token] in H. rewrite Ev, Ek in H. cbn [orb] in H.
  destruct (negb (is_token k)) eqn:Et; [eexists; split; [reflexivity|auto]|]. cbn [orb] in H.
  destruct (beqb (lower k) _) eqn:Ecl.
  - rewrite (cl_not_hop _ Ecl) in H. cbn [orb] in H.
    destruct (py_int v); [|eexists; split; [reflexivity|auto]]. apply IH; auto.
  - destruct (existsb (beqb (lower k)) hop_by_hop); [eexists; split; [reflexivity|auto]|].
    cbn [orb] in H. apply IH; auto.
Qed.

Lemma sr_headers_ok hs : forall t acc t' l, sr_headers lower t hs acc = (t', Ok l) ->
  l = acc ++ strs_of hs /\ existsb bad_header hs = false.
Proof.
  induction hs as [|[k v] hs IH]; intros t acc t' l H; cbn [sr_headers] in H.
  - inversion H. cbn. rewrite app_nil_r. auto.
  - destruct k as [k|]; [|discriminate]. destruct v as [v|]; [|discriminate].
    destruct (has_crlf v) eqn:Ev; [discriminate|]. destruct (has_crlf k) eqn:Ek; [discriminate|].
    destruct (negb (is_token k)) eqn:Et; [discriminate|].
    cbn [existsb]. unfold bad_header at 1. cbn [fst snd bad_obj is_hop not_token]. rewrite Ev, Ek, Et. cbn [orb].
    destruct (beqb (lower k) _) eqn:Ecl.
    + rewrite (cl_not_hop _ Ecl). cbn [orb].
      destruct (py_int v); [|discriminate]. apply IH in H as [-> ->].
      rewrite <- app_assoc. split; reflexivity.
    + destruct (existsb (beqb (lower k)) hop_by_hop); [discriminate|]. cbn [orb].
      apply IH in H as [-> ->]. rewrite <- app_assoc. split; reflexivity.
Qed.

(* C08, refusal: an offending status / header list makes start_response raise,
   with AssertionError or ValueError unless output has begun (then the
   exception carried by exc_info is re-raised).  start_response has no access
   to the channel: nothing is written. *)
Theorem start_response_refuses t status headers exc :
  offending status headers = true ->
  exists e, snd (start_response lower t status headers exc) = Exn e
            /\ (t_wrote_header t = false -> e = AssertionError \/ e = ValueError).
Proof.
  intro H. unfold start_response.
  destruct (t_complete t && _); [eexists; split; [reflexivity|auto]|].
  assert (Hgo : forall t1, exists e,
      snd (let t2 := set_complete true t1 in
           match status with
           | PStr s => if has_crlf s then (t2, Exn ValueError)
                       else let t3 := set_status s t2 in
                            match sr_headers lower t3 headers [] with
                            | (t4, Ok hs) => (set_rh (t_rh t4 ++ hs) t4, Ok tt)
                            | (t4, Exn e0) => (set_clen (t_clen t3) t4, Exn e0)
                            end
           | PNonStr => (t2, Exn AssertionError)
           end) = Exn e /\ (e = AssertionError \/ e = ValueError)).
  { intro t1. cbn zeta. unfold offending in H. destruct status as [s|]; [|eexists; split; [reflexivity|auto]].
    cbn [bad_obj] in H. destruct (has_crlf s); [eexists; split; [reflexivity|auto]|]. cbn [orb] in H.
    destruct (sr_headers_refuses headers (set_status s (set_complete true t1)) [] H) as (e & He & Hc).
    destruct (sr_headers lower _ headers []) as [t4 o]. cbn [snd] in He. subst o.
    exists e. split; auto. }
  destruct exc as [e0|].
  - destruct (t_wrote_header t) eqn:Ew.
    + exists e0. split; [reflexivity|discriminate].
    + destruct (Hgo (set_clen None (set_rh [] t))) as (e & He & Hc). exists e. split; auto.
  - destruct (Hgo t) as (e & He & Hc). exists e. split; auto.
Qed.

(* acceptance: the task now carries exactly the strings that were passed *)
Theorem start_response_ok t status headers exc t' :
  start_response lower t status headers exc = (t', Ok tt) ->
  offending status headers = false
  /\ t_status t' = str_of status
  /\ t_rh t' = (match exc with Some _ => [] | None => t_rh t end) ++ strs_of headers
  /\ t_complete t' = true
  /\ t_wrote_header t' = t_wrote_header t /\ t_cof t' = t_cof t /\ t_chunked t' = t_chunked t
  /\ t_cbw t' = t_cbw t /\ t_v11 t' = t_v11 t
  /\ (exc <> None -> t_wrote_header t = false).
Proof.
  unfold start_response. intro H.
  destruct (t_complete t && _); [discriminate|].
  set (t1 := match exc with Some _ => if t_wrote_header t then t else set_clen None (set_rh [] t) | None => t end).
  assert (H1 : (let t2 := set_complete true t1 in
           match status with
           | PStr s => if has_crlf s then (t2, Exn ValueError)
                       else let t3 := set_status s t2 in
                            match sr_headers lower t3 headers [] with
                            | (t4, Ok hs) => (set_rh (t_rh t4 ++ hs) t4, Ok tt)
                            | (t4, Exn e0) => (set_clen (t_clen t3) t4, Exn e0)
                            end
           | PNonStr => (t2, Exn AssertionError)
           end) = (t', Ok tt) /\ (exc <> None -> t_wrote_header t = false)).
  { subst t1. destruct exc as [e0|]; [destruct (t_wrote_header t); [discriminate|]|]; split; auto; congruence. }
  clear H. destruct H1 as [H Hw]. cbn zeta in H.
  destruct status as [s|]; [|discriminate]. destruct (has_crlf s) eqn:Es; [discriminate|].
  pose proof (sr_headers_frame headers (set_status s (set_complete true t1)) []) as F. cbn zeta in F.
  destruct (sr_headers lower _ headers []) as [t4 [hs|e]] eqn:Esr; [|discriminate].
  apply sr_headers_ok in Esr as [-> Hb]. cbn [fst] in F. destruct F as (F1 & F2 & F3 & F4 & F5 & F6 & F7 & F8).
  inversion H. subst t'. clear H. cbn [t_status t_rh t_complete t_wrote_header t_cof t_chunked t_cbw t_v11 set_rh].
  cbn [t_status t_rh t_complete t_wrote_header t_cof t_chunked t_cbw t_v11 set_status set_complete] in *.
  unfold offending. cbn [bad_obj]. rewrite Es, Hb. cbn [orb str_of List.app].
  rewrite F1, F2, F3, F4, F5, F6, F7, F8.
  subst t1. destruct exc as [e0|]; [destruct (t_wrote_header t) eqn:Ew|]; cbn; repeat split; auto; try congruence.
  exfalso. specialize (Hw ltac:(discriminate)). discriminate.
Qed.

(* whatever happens, the task stays clean, and only status / headers /
   complete / content_length change *)
Lemma strs_of_clean hs : existsb bad_header hs = false -> Forall clean_field (strs_of hs).
Proof.
  induction hs as [|[k v] hs IH]; cbn [existsb strs_of map]; intro H; [constructor|].
  apply orb_false_iff in H as [H1 H2]. constructor; auto.
  unfold bad_header in H1. cbn [fst snd] in *. apply orb_false_iff in H1 as [H1 _].
  apply orb_false_iff in H1 as [H1 _].
  apply orb_false_iff in H1 as [Hk Hv].
  destruct k, v; try discriminate. split; assumption.
Qed.

Theorem start_response_clean t status headers exc :
  task_clean t -> task_clean (fst (start_response lower t status headers exc)).
Proof.
  intros [Hs Hf]. unfold start_response.
  destruct (t_complete t && _); [split; auto|].
  set (t1 := match exc with Some _ => if t_wrote_header t then t else set_clen None (set_rh [] t) | None => t end).
  assert (C1 : task_clean t1).
  { subst t1. destruct exc; [destruct (t_wrote_header t)|]; split; auto; try constructor. }
  assert (G : task_clean (fst (let t2 := set_complete true t1 in
           match status with
           | PStr s => if has_crlf s then (t2, Exn ValueError)
                       else let t3 := set_status s t2 in
                            match sr_headers lower t3 headers [] with
                            | (t4, Ok hs) => (set_rh (t_rh t4 ++ hs) t4, @Ok unit tt)
                            | (t4, Exn e0) => (set_clen (t_clen t3) t4, Exn e0)
                            end
           | PNonStr => (t2, Exn AssertionError)
           end))).
  { cbn zeta. destruct C1 as [C1 C2]. destruct status as [s|]; [|split; auto].
    destruct (has_crlf s) eqn:Es; [split; auto|].
    pose proof (sr_headers_frame headers (set_status s (set_complete true t1)) []) as F. cbn zeta in F.
    destruct (sr_headers lower _ headers []) as [t4 [hs|e]] eqn:Esr; cbn [fst] in *;
      destruct F as (F1 & F2 & _); cbn [t_rh t_status set_status set_complete] in *.
    - apply sr_headers_ok in Esr as [-> Hb]. split; cbn [t_status t_rh set_rh].
      + rewrite F2. exact Es.
      + rewrite F1. apply Forall_app. split; auto. apply strs_of_clean; auto.
    - split; cbn [t_status t_rh set_clen]. rewrite F2. exact Es. rewrite F1. auto. }
  subst t1. destruct exc as [e0|]; [destruct (t_wrote_header t)|]; auto; split; auto.
Qed.

Lemma start_response_frame t status headers exc :
  let t' := fst (start_response lower t status headers exc) in
  t_wrote_header t' = t_wrote_header t /\ t_cof t' = t_cof t /\ t_chunked t' = t_chunked t
  /\ t_cbw t' = t_cbw t /\ t_v11 t' = t_v11 t.
Proof.
  cbn zeta. unfold start_response.
  destruct (t_complete t && _); [cbn; tauto|].
  assert (G : forall t1, let t' := fst (let t2 := set_complete true t1 in
           match status with
           | PStr s => if has_crlf s then (t2, Exn ValueError)
                       else let t3 := set_status s t2 in
                            match sr_headers lower t3 headers [] with
                            | (t4, Ok hs) => (set_rh (t_rh t4 ++ hs) t4, @Ok unit tt)
                            | (t4, Exn e0) => (set_clen (t_clen t3) t4, Exn e0)
                            end
           | PNonStr => (t2, Exn AssertionError)
           end) in
     t_wrote_header t' = t_wrote_header t1 /\ t_cof t' = t_cof t1 /\ t_chunked t' = t_chunked t1
     /\ t_cbw t' = t_cbw t1 /\ t_v11 t' = t_v11 t1).
  { intro t1. cbn zeta. destruct status as [s|]; [|cbn; tauto]. destruct (has_crlf s); [cbn; tauto|].
    pose proof (sr_headers_frame headers (set_status s (set_complete true t1)) []) as F. cbn zeta in F.
    destruct (sr_headers lower _ headers []) as [t4 [hs|e]]; cbn [fst] in *;
      destruct F as (_ & _ & _ & F4 & F5 & F6 & F7 & F8); cbn in *; tauto. }
  destruct exc as [e0|]; [destruct (t_wrote_header t) eqn:Ew|].
  - cbn. tauto.
  - pose proof (G (set_clen None (set_rh [] t))) as G1. cbn zeta in G1.
    change (t_wrote_header (set_clen None (set_rh [] t))) with (t_wrote_header t) in G1. rewrite Ew in G1. exact G1.
  - apply G.
Qed.

End Oracle.
