(* The persistence decision table of build_response_header (C03). *)
From Coq Require Import String.
From Coq Require Import List NArith ZArith Bool Lia Arith.
From WV Require Import Lib.PyBytes Gen.GenTables Model.Task.
Import ListNotations.
Local Open Scope N_scope.

Section Table.
Variable cap : str -> str.
Variable lower : str -> str.
(* oracle facts: capitalize on three ASCII names (true of CPython, tested; proved for py_cap) *)
Hypothesis Hcap_conn : cap (lit "Connection") = lit "Connection".
Hypothesis Hcap_te : beqb (cap (lit "Transfer-Encoding")) (lit "Connection") = false.

Definition f_close : str * str := (lit "Connection", lit "close").
Definition f_keep : str * str := (lit "Connection", lit "Keep-Alive").
Definition f_chunked : str * str := (lit "Transfer-Encoding", lit "chunked").

(* no field whose capitalised name is "Connection" (what set_close_on_finish looks for) *)
Definition NoConn (l : list (str * str)) : Prop :=
  Forall (fun h => beqb (cap (fst h)) (lit "Connection") = false) l.

Lemma scan_noconn l : NoConn l -> forall acc,
  fold_left (fun acc (h : str * str) =>
               if beqb (cap (fst h)) (lit "Connection") then Some (lower (snd h)) else acc) l acc = acc.
Proof.
  induction 1 as [|h l Hh Hl IH]; intro acc; cbn [fold_left]; auto. rewrite Hh. apply IH.
Qed.

Lemma scof_noconn t : t_wrote_header t = false -> NoConn (t_rh t) ->
  set_close_on_finish cap lower t = set_cof true (set_rh (t_rh t ++ [f_close]) t).
Proof.
  intros W N. unfold set_close_on_finish. rewrite W. cbn [negb]. rewrite scan_noconn by auto. reflexivity.
Qed.

Lemma scan_some l : forall v, exists v',
  fold_left (fun acc (h : str * str) =>
               if beqb (cap (fst h)) (lit "Connection") then Some (lower (snd h)) else acc) l (Some v) = Some v'.
Proof.
  induction l as [|h l IH]; intro v; cbn [fold_left]; eauto.
  destruct (beqb (cap (fst h)) _); apply IH.
Qed.

Lemma scof_hasconn t : t_wrote_header t = false ->
  Exists (fun h => beqb (cap (fst h)) (lit "Connection") = true) (t_rh t) ->
  set_close_on_finish cap lower t = set_cof true t.
Proof.
  intros W E. unfold set_close_on_finish. rewrite W. cbn [negb].
  assert (H : forall acc, exists v', fold_left (fun acc (h : str * str) =>
               if beqb (cap (fst h)) (lit "Connection") then Some (lower (snd h)) else acc) (t_rh t) acc = Some v').
  { induction E as [h l Hh|h l Hl IH]; intro acc; cbn [fold_left].
    - rewrite Hh. apply scan_some.
    - apply IH. }
  destruct (H None) as [v' ->]. reflexivity.
Qed.

(* the table: fields added, close_on_finish, chunked_response *)
Definition conn_table (v11 : bool) (conn : str) (fc has_cl hb : bool) : list (str * str) * bool * bool :=
  if v11 then
    let close1 := beqb conn (lit "close") || fc in
    if has_cl then ((if close1 then [f_close] else []), close1, false)
    else ((if close1 then [f_close] else []) ++ (if hb then [f_chunked] else [])
          ++ (if close1 then [] else [f_close]), true, hb)
  else if beqb conn (lit "keep-alive") && negb fc && has_cl then ([f_keep], false, false)
       else ([f_close], true, false).

Lemma noconn_app l1 l2 : NoConn l1 -> NoConn l2 -> NoConn (l1 ++ l2).
Proof. intros. apply Forall_app; auto. Qed.

Theorem bh_conn_table conn fc clh t :
  t_cof t = false -> t_wrote_header t = false -> t_chunked t = false -> NoConn (t_rh t) ->
  let t' := bh_conn cap lower conn fc clh t in
  let '(add, cof, chk) := conn_table (t_v11 t) conn fc (truthy clh) (has_body t) in
  t_rh t' = t_rh t ++ add /\ t_cof t' = cof /\ t_chunked t' = chk
  /\ t_status t' = t_status t /\ t_clen t' = t_clen t /\ t_cbw t' = t_cbw t
  /\ t_wrote_header t' = false /\ t_v11 t' = t_v11 t /\ t_complete t' = t_complete t.
Proof.
  intros C W K N. cbn zeta. unfold bh_conn, conn_table.
  destruct (t_v11 t) eqn:V; cbn [negb].
  - destruct (beqb conn (lit "close") || fc) eqn:Ec.
    + rewrite scof_noconn by auto.
      destruct (truthy clh); cbn [negb].
      * cbn. rewrite app_nil_r || idtac. repeat split; auto.
      * cbn [has_body t_status set_cof set_rh].
        change (has_body (set_cof true (set_rh (t_rh t ++ [f_close]) t))) with (has_body t).
        destruct (has_body t); cbn; rewrite ?app_nil_r, <- ?app_assoc; repeat split; auto.
    + destruct (truthy clh); cbn [negb].
      * cbn. rewrite app_nil_r. repeat split; auto.
      * destruct (has_body t) eqn:HB.
        -- cbn [t_cof set_chunked set_rh]. rewrite C. cbn [negb].
           rewrite scof_noconn.
           ++ cbn. rewrite <- app_assoc. repeat split; auto.
           ++ cbn [t_wrote_header set_chunked set_rh]. exact W.
           ++ cbn [t_rh set_chunked set_rh]. apply noconn_app; auto. constructor; [|constructor].
              cbn [fst f_chunked]. exact Hcap_te.
        -- rewrite C. cbn [negb]. rewrite scof_noconn by auto. cbn. repeat split; auto.
  - rewrite C. cbn [negb]. rewrite andb_true_r.
    destruct (beqb conn (lit "keep-alive") && negb fc) eqn:Ek; cbn [andb].
    + destruct (truthy clh); cbn [negb].
      * cbn. repeat split; auto.
      * rewrite scof_noconn by auto. cbn. repeat split; auto.
    + rewrite scof_noconn by auto. cbn. repeat split; auto.
Qed.

(* a task that has already decided to close (ErrorTask; too few bytes found before
   the head is built) does not announce Keep-Alive on HTTP/1.0 (commit 766d449) *)
Lemma bh_conn_closed_10 conn fc clh t : t_v11 t = false -> t_cof t = true ->
  bh_conn cap lower conn fc clh t = set_close_on_finish cap lower t.
Proof.
  intros V C. unfold bh_conn. rewrite V, C. cbn [negb]. rewrite andb_false_r. reflexivity.
Qed.

(* what the table says about announcing *)
Lemma table_announce v11 conn fc has_cl hb :
  let '(add, cof, chk) := conn_table v11 conn fc has_cl hb in
  (cof = true -> In f_close add /\ ~ In f_keep add)
  /\ (cof = false -> ~ In f_close add /\ (if v11 then add = [] else add = [f_keep]))
  /\ (chk = true -> v11 = true /\ has_cl = false /\ hb = true /\ In f_chunked add /\ cof = true)
  /\ (cof = true <-> (if v11 then beqb conn (lit "close") || fc || negb has_cl
                     else negb (beqb conn (lit "keep-alive") && negb fc && has_cl)) = true).
Proof.
  unfold conn_table, f_close, f_keep, f_chunked.
  destruct v11, (beqb conn (lit "close")), (beqb conn (lit "keep-alive")), fc, has_cl, hb; cbn;
    repeat split; try discriminate; try reflexivity; intros;
    try (solve [intuition (try discriminate; try congruence)]).
Qed.

End Table.

(* ---- too few bytes for the declared length: the connection is closed ---------- *)

From WV Require Import Proof.TaskLines Proof.TaskHead Proof.TaskStart Proof.TaskRun Proof.TaskC08 Proof.TaskC09.

Section TooFew.
Variable cap : str -> str.
Variable lower : str -> str.
Variable c : cfg.
Variable r : req.
Variable disc : option nat.

Lemma execute_body_too_few s a t' ch' :
  execute_body cap lower c r disc s a = ((t', ch'), Ok tt, true) ->
  forall cl, t_clen t' = Some cl -> t_cbw t' <> cl -> r_head r = false -> t_cof t' = true.
Proof.
  unfold execute_body.
  set (ho := match a_kind a with KFile _ => _ | _ => None end).
  intro H.
  assert (Hho : match ho with Some (_, Ok _, true) => False | _ => True end).
  { subst ho. destruct (a_kind a); auto. destruct s as [t ch].
    destruct (_ =? 0)%Z; auto. destruct (t_wrote_header t); auto. destruct (negb (has_body t)); auto.
    match goal with |- context [task_write cap lower c r disc ?s0 ?d] =>
      destruct (task_write cap lower c r disc s0 d) as [[t1 ch1] [u|e]] end; auto.
    destruct (write_soon disc ch1 _) as [ch2 [u2|e2]]; auto. }
  destruct ho as [[[s1 o1] cc1]|].
  - destruct o1 as [u|e], cc1; try contradiction; inversion H.
  - destruct (iterate cap lower c r disc _ _ true s (a_steps a)) as [[t ch] [u|e]]; [|discriminate].
    inversion H; subst. clear H. intros cl Hcl Hne Hh.
    destruct (t_clen t) as [cl0|] eqn:Ecl.
    + destruct (negb (t_cbw t =? cl0)%Z && negb (r_head r)) eqn:Eb.
      * apply (keeps_scof cap lower).
      * rewrite Ecl in Hcl. inversion Hcl; subst. rewrite Hh in Eb. cbn [negb] in Eb. rewrite andb_true_r in Eb.
        apply negb_false_iff, Z.eqb_eq in Eb. contradiction.
    + rewrite Ecl in Hcl. discriminate.
Qed.

Lemma task_finish_keeps s s' o : task_finish cap lower c r disc s = (s', o) ->
  t_clen (fst s') = t_clen (fst s) /\ t_cbw (fst s') = t_cbw (fst s).
Proof.
  unfold task_finish.
  set (r1 := if negb (t_wrote_header (fst s)) then _ else _).
  assert (F : t_clen (fst (fst r1)) = t_clen (fst s) /\ t_cbw (fst (fst r1)) = t_cbw (fst s)).
  { subst r1. destruct (negb _); [|auto]. unfold task_write.
    destruct (negb (t_complete (fst s))); [auto|].
    destruct s as [t ch]. unfold write_header. cbn [fst].
    destruct (negb (t_wrote_header t)); [|cbn; auto].
    unfold build_response_header. destruct (keeps_bh_prepare cap lower c r t) as (_ & _ & K3 & K4 & _).
    destruct (encode_latin1 _); [|cbn; auto].
    destruct (write_soon disc ch _) as [ch1 [u|e]]; cbn; auto. }
  destruct r1 as [[t ch] [u|e]]; cbn [fst snd] in F.
  - destruct (t_chunked t && negb (r_head r)); [destruct (write_soon disc ch _)|]; intro H; inversion H; subst; exact F.
  - intro H; inversion H; subst; exact F.
Qed.

(* C03, close: the application produced a number of bytes different from the
   declared Content-Length (too few: more are clamped) for a non-HEAD request,
   nothing was raised: the connection is closed, not reused. *)
Theorem too_few_closes a cl :
  r_error r = None -> connected disc 0 = true ->
  let res := channel_service cap lower c r a disc in
  o_raw res = None -> o_handover res = false -> o_iter res = true ->
  t_clen (o_task1 res) = Some cl -> t_cbw (o_task1 res) <> cl -> r_head r = false ->
  o_close res = true /\ o_next res = false.
Proof.
  intros He Hconn. cbn zeta. unfold channel_service. rewrite He, Hconn.
  set (s0 := (new_task (r_version r) false, mkChan [] 0)).
  unfold task_service.
  destruct (x_out (task_run cap lower c r disc s0 (inl a))) as [u|e] eqn:Eraw.
  2: { intro H. exfalso. revert H.
       match goal with |- context [ladder cap lower c r disc ?x0 ?raw0] =>
         destruct (ladder_fields cap lower c r disc x0 raw0) as (_ & _ & _ & E & _) end.
       cbn zeta in E. rewrite E. discriminate. }
  unfold ladder. rewrite Eraw. cbn [o_raw o_handover o_iter o_task1 o_close o_next fst snd].
  intros _ Hh Hi Hcl Hne Hhead.
  revert Eraw Hh Hi Hcl Hne. unfold task_run, wsgi_execute.
  destruct (run_actions cap lower c r disc s0 (a_call a)) as [s1 [u1|e1]]; [|cbn; discriminate].
  destruct (execute_body cap lower c r disc s1 a) as [[[t2 ch2] o2] cc] eqn:Eb.
  assert (Hmain : forall s3 o3, task_finish cap lower c r disc (t2, ch2) = (s3, o3) ->
     o2 = Ok tt -> cc = true ->
     t_clen (fst s3) = Some cl -> t_cbw (fst s3) <> cl -> t_cof (fst s3) = true).
  { intros s3 o3 Ef Ho Hcc Hcl Hne. subst o2 cc.
    destruct (task_finish_keeps _ _ _ Ef) as [K1 K2].
    destruct (task_finish_facts cap lower c r disc _ _ _ Ef) as (_ & F2 & _).
    cbn [fst] in *. apply F2. apply (execute_body_too_few _ _ _ _ Eb cl); auto.
    - rewrite <- K1. exact Hcl.
    - rewrite <- K2. exact Hne. }
  destruct (cc && a_has_close a) eqn:Ecc.
  - apply andb_true_iff in Ecc as [Ecc _]. destruct (a_close_exn a); cbn [x_out]; [discriminate|].
    destruct o2 as [[]|e2]; [|cbn; discriminate]. cbn [x_out x_st x_closes x_handover x_iter].
    destruct (task_finish cap lower c r disc (t2, ch2)) as [s3 o3] eqn:Ef.
    cbn [x_out x_st x_closes x_handover x_iter].
    intros Eo Hh Hi Hcl Hne.
    rewrite (Hmain s3 o3 eq_refl eq_refl Ecc Hcl Hne). auto.
  - destruct o2 as [[]|e2]; [|cbn; discriminate]. cbn [x_out x_st x_closes x_handover x_iter].
    destruct (task_finish cap lower c r disc (t2, ch2)) as [s3 o3] eqn:Ef.
    cbn [x_out x_st x_closes x_handover x_iter].
    intros Eo Hh Hi Hcl Hne. apply negb_false_iff in Hh.
    rewrite (Hmain s3 o3 eq_refl eq_refl Hh Hcl Hne). auto.
Qed.

End TooFew.
