(* Proof/ChanFlowReq.v -- L1: the request queue.  An active producer (a worker
   inside service() before it removed its request) implies requests <> []; a
   queued task implies requests <> [] and no active producer; len(requests) <=
   lookahead + 1. *)
From Coq Require Import List ZArith Bool Arith Lia.
From WV Require Import Lib.Conc Model.ChanFlow Proof.ChanFlow.
Import ListNotations.
Local Open Scope Z_scope.

Definition w_active (pc : wpc) : bool :=
  match pc with WIdle | WCloseRel => false | _ => true end.


(* program points reached only after readable() saw len(requests) <= lookahead *)
Definition io_rd (pc : iopc) : bool :=
  match pc with
  | IoRd4 | IoWr1 true | IoWr2 true | IoWr3 true | IoSel true _ | IoRecv _
  | IoRcvAcq _ | IoRcvWc _ | IoRcvCwf _ | IoRcvApp _ => true
  | _ => false
  end.

Definition r_io (pc : iopc) : bool :=
  match pc with IoRcvWc _ | IoRcvCwf _ | IoRcvApp _ | IoRcvRel _ => true | _ => false end.
Definition r_w (pc : wpc) : bool :=
  match pc with WCloseCwf | WCloseReq | WCloseRel => true | _ => false end.
Definition r_t (t : tlpc) (rel : bool) : bool :=
  match t with TPop | TConn => true | _ => false end || rel.


Definition t_early (t : tlpc) : bool := match t with TAcq | TPop => true | _ => false end.
Definition t_none (t : tlpc) : bool := match t with TNone => true | _ => false end.

Definition L1 (p : params) (s : state) : Prop :=
  (w_active (wk s) = true -> (1 <= nreq s)%nat /\ t_none (tlc s) = true)
  /\ (queued s = true -> (1 <= nreq s)%nat /\ w_active (wk s) = false /\ t_none (tlc s) = true)
  /\ (t_early (tlc s) = true -> (1 <= nreq s)%nat)
  /\ (io_rd (io s) = true -> (nreq s <= look p)%nat)
  /\ (nreq s <= S (look p))%nat
  /\ rlock s = (if r_io (io s) then Some TIo else if r_w (wk s) then Some TW
                else if r_t (tlc s) (trel s) then Some TT else None)
  /\ r_io (io s) && r_w (wk s) = false
  /\ r_io (io s) && r_t (tlc s) (trel s) = false
  /\ r_w (wk s) && r_t (tlc s) (trel s) = false
  /\ match tlc s with TPop | TConn => trel s = false | _ => True end.

Lemma L1_init p : L1 p init.
Proof. unfold L1, init; cbn; repeat split; intros; try discriminate; lia. Qed.

Ltac spec := repeat match goal with
  | H : ?A -> _, H' : ?A |- _ => specialize (H H')
  | H : true = true -> _ |- _ => specialize (H eq_refl)
  | H : false = false -> _ |- _ => specialize (H eq_refl)
  | H : false = true -> _ |- _ => clear H
  end.
Ltac conj := repeat match goal with H : _ /\ _ |- _ => destruct H end.
Ltac rwr := repeat match goal with
  | H : r_w ?x = _ |- context [r_w ?x] => rewrite H
  | H : r_io ?x = _ |- context [r_io ?x] => rewrite H
  | H : r_t ?x ?y = _ |- context [r_t ?x ?y] => rewrite H
  | H : w_active ?x = _ |- context [w_active ?x] => rewrite H
  end.
Ltac absurd1 := match goal with H : true = false |- _ => discriminate H | H : false = true |- _ => discriminate H end.
Ltac dtl := match goal with t : tlpc |- _ => destruct t; cbn in *; try absurd1 end.
Ltac core1 := spec; conj; try assumption; try absurd1; try exact I; try reflexivity; try zl; try (exfalso; zl).
Ltac fin1 := dk; hifs; try discriminate; unfold L1; unf; cbn; rwr; gifs; cbn; rwr; repeat split; try assumption; intros;
  try absurd1; try reflexivity; core1; b2p; subst; cbn in *; core1;
  try (match goal with |- ?b = false => destruct b eqn:?; [exfalso; core1 | reflexivity] end);
  try (match goal with |- ?b = true => destruct b eqn:?; [reflexivity | exfalso; core1] end);
  try (dtl; core1).

Lemma L1_step_io p s r res s' l : L1 p s -> step_io p s r res = Some (s', l) -> L1 p s'.
Proof.
  intros H E. ds s. unfold L1 in H. cbn in H.
  destruct H as (Ha & Hq & Ht & Hr & Hl & Hk & Hx1 & Hx2 & Hx3 & Hx4).
  unfold step_io in E. cbn [ChanFlow.io] in E.
  destruct io0; cbn in Hr, Hk, Hx1, Hx2; subst rlock0.
  all: cbn in E; unf; cbn in E.
  all: split_ifs E; try discriminate; try inv_some.
  all: fin1.
Qed.

Lemma L1_step_w p s r s' l : L1 p s -> step_w p s r = Some (s', l) -> L1 p s'.
Proof.
  intros H E. ds s. unfold L1 in H. cbn in H.
  destruct H as (Ha & Hq & Ht & Hr & Hl & Hk & Hx1 & Hx2 & Hx3 & Hx4).
  unfold step_w in E. cbn [ChanFlow.wk] in E.
  destruct wk0; cbn in Ha, Hq, Hk, Hx1, Hx3; subst rlock0.
  all: cbn in E; unf; cbn in E.
  all: split_ifs E; try discriminate; try inv_some.
  all: fin1.
Qed.

Lemma L1_step_tail p s n s' l : L1 p s -> step_tail s n = Some (s', l) -> L1 p s'.
Proof.
  intros H E. ds s. unfold L1 in H. cbn in H.
  destruct H as (Ha & Hq & Ht & Hr & Hl & Hk & Hx1 & Hx2 & Hx3 & Hx4).
  unfold step_tail in E.
  destruct n as [|[|[|[|[|[|n]]]]]]; cbn in E; try discriminate.
  all: try (destruct tlc0; try discriminate); cbn in Ha, Hq, Ht, Hk, Hx2, Hx3, Hx4; subst rlock0.
  all: cbn in E; split_ifs E; try discriminate; try inv_some.
  all: fin1.
Qed.

Lemma L1_step p s c s' l : L1 p s -> step p s c = Some (s', l) -> L1 p s'.
Proof.
  destruct c as [r res|r|n|a]; cbn [step].
  - apply L1_step_io.
  - apply L1_step_w.
  - apply L1_step_tail.
  - intros H E. ds s. destruct a; cbn in E; split_ifs E; try discriminate; inv_some; exact H.
Qed.

Theorem L1_all p sched : L1 p (run p sched).
Proof. unfold run. apply invariant_rule. apply L1_init. intros; eapply L1_step; eauto. Qed.
