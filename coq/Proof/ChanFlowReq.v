(* Proof/ChanFlowReq.v -- L1: the request queue.  An active producer (a worker
   inside service() before it removed its request) implies requests <> []; the
   unlocked flush of the I/O thread runs only while requests = []; hence the two
   never coexist (the "conditional discipline" handle_write relies on). *)
From Coq Require Import List ZArith Bool Arith Lia.
From WV Require Import Lib.Conc Model.ChanFlow Proof.ChanFlow.
Import ListNotations.
Local Open Scope Z_scope.

Definition w_active (pc : wpc) : bool :=
  match pc with WIdle | WCloseRel | WPopConn | WPopRel => false | _ => true end.

(* the I/O thread is inside _flush_some without the lock *)
Definition io_unl (pc : iopc) : bool :=
  match pc with IoFlush MU | IoSubR _ | IoSubW _ _ => true | _ => false end.

(* program points reached only after readable() saw len(requests) <= lookahead *)
Definition io_rd (pc : iopc) : bool :=
  match pc with
  | IoRd4 | IoWr1 true | IoWr2 true | IoWr3 true | IoSel true _ | IoRecv _
  | IoRcvAcq _ | IoRcvWc _ | IoRcvCwf _ | IoRcvApp _ => true
  | _ => false
  end.

Definition L1 (p : params) (s : state) : Prop :=
  (w_active (wk s) = true -> (1 <= nreq s)%nat)
  /\ (queued s = true -> (1 <= nreq s)%nat /\ w_active (wk s) = false)
  /\ (io_unl (io s) = true -> nreq s = 0%nat)
  /\ (io_rd (io s) = true -> (nreq s <= look p)%nat)
  /\ (nreq s <= S (look p))%nat.

Lemma L1_init p : L1 p init.
Proof. unfold L1, init; cbn; repeat split; intros; try discriminate; lia. Qed.

Ltac spec := repeat match goal with
  | H : ?A -> _, H' : ?A |- _ => specialize (H H')
  | H : true = true -> _ |- _ => specialize (H eq_refl)
  | H : false = false -> _ |- _ => specialize (H eq_refl)
  | H : false = true -> _ |- _ => clear H
  end.
Ltac conj := repeat match goal with H : _ /\ _ |- _ => destruct H end.
Ltac fin1 := dk; unfold L1; unf; cbn; gifs; cbn; repeat split; intros; try discriminate; try assumption; spec; conj;
  try discriminate; try assumption; b2p; subst; cbn in *; spec; conj; try assumption; try zl;
  try (match goal with |- ?b = false => destruct b eqn:?; [exfalso; spec; conj; zl | reflexivity] end).

Lemma L1_step_io p s r res s' l : L1 p s -> step_io p s r res = Some (s', l) -> L1 p s'.
Proof.
  intros H E. ds s. unfold L1 in H. cbn in H.
  destruct H as (Ha & Hq & Hu & Hr & Hl).
  unfold step_io in E. cbn [ChanFlow.io] in E.
  destruct io0; cbn in Hu, Hr.
  all: cbn in E; unf; cbn in E.
  all: split_ifs E; try discriminate; try inv_some.
  all: fin1.
Qed.

Lemma L1_step_w p s r s' l : L1 p s -> step_w p s r = Some (s', l) -> L1 p s'.
Proof.
  intros H E. ds s. unfold L1 in H. cbn in H.
  destruct H as (Ha & Hq & Hu & Hr & Hl).
  unfold step_w in E. cbn [ChanFlow.wk] in E.
  destruct wk0; cbn in Ha, Hq.
  all: cbn in E; unf; cbn in E.
  all: split_ifs E; try discriminate; try inv_some.
  all: fin1.
  all: try (idtac "left"; fail).
Qed.

Lemma L1_step p s c s' l : L1 p s -> step p s c = Some (s', l) -> L1 p s'.
Proof.
  destruct c as [r res|r|b|a]; cbn [step].
  - apply L1_step_io.
  - apply L1_step_w.
  - intros H E. ds s. unfold step_tail in E. cbn in E.
    split_ifs E; try discriminate; inv_some; exact H.
  - intros H E. ds s. destruct a; cbn in E; split_ifs E; try discriminate; inv_some; exact H.
Qed.

Theorem L1_all p sched : L1 p (run p sched).
Proof. unfold run. apply invariant_rule. apply L1_init. intros; eapply L1_step; eauto. Qed.

(* the exclusion the unlocked flush relies on *)
Theorem io_unlocked_excludes_producer p sched :
  io_unl (io (run p sched)) = true -> w_active (wk (run p sched)) = false.
Proof.
  intros H. destruct (L1_all p sched) as (Ha & _ & Hu & _).
  destruct (w_active (wk (run p sched))); auto. specialize (Ha eq_refl). specialize (Hu H). lia.
Qed.
