(* T1, request line.  crack_first_line (the first_line_re gate, the split on
   SP, the upper-case test) returns exactly what the reference's
   character-level request-line grammar returns: same verdict, same method,
   target and version.  The gate is consumed through C10Gates.request_line_exact
   and one inclusion check (a line accepted by the gate starts with a token
   and a space). *)
From Coq Require Import List NArith ZArith Bool Lia Arith.
From WV Require Import Lib.PyBytes Lib.Regex Lib.RegexDec Gen.GenRegex Spec.Grammar Proof.C10Gates.
From WV Require Import Model.Receiver Model.UrlSplit Model.Parser Spec.Ref9112 Proof.C01Lib.
Import ListNotations.
Local Open Scope N_scope.

(* ---------------------------------------------------------------- *)
(* split_on is inverse to joining *)

Lemma split_on_nonnil c s cur : split_on c s cur <> [].
Proof. revert cur; induction s as [|x s IH]; intro cur; cbn; [discriminate|]. destruct (x =? c); [discriminate|apply IH]. Qed.

Lemma split_on_inv : forall n c l, (length l <= n)%nat ->
  l = join [c] (split_on c l []) /\ Forall (fun p => forallb (fun x => negb (x =? c)) p = true) (split_on c l []).
Proof.
  induction n as [|n IH]; intros c l Hn.
  - destruct l; [|cbn in Hn; lia]. cbn. split; auto.
  - destruct (first_occurrence c l) as [H|(pre & post & -> & H)].
    + rewrite split_on_none by exact H. cbn. split; auto.
    + rewrite split_on_some by exact H.
      assert (Hp : (length post <= n)%nat) by (rewrite app_length in Hn; cbn in Hn; lia).
      destruct (IH c post Hp) as [E F]. split.
      * pose proof (split_on_nonnil c post []) as NN.
        destruct (split_on c post []) as [|p ps] eqn:Es; [congruence|].
        change (join [c] (pre :: p :: ps)) with (pre ++ [c] ++ join [c] (p :: ps)). rewrite <- E. reflexivity.
      * constructor; auto.
Qed.

(* ---------------------------------------------------------------- *)
(* character classes *)

Definition method_ranges : list (N * N) :=
  [(33,33); (35,39); (42,43); (45,46); (48,57); (65,90); (94,96); (124,124); (126,126)].
Definition target_ranges : list (N * N) := [(33,126); (128,255)].
Definition tchar_ranges' : list (N * N) :=
  [(33,33); (35,35); (36,36); (37,37); (38,38); (39,39); (42,42); (43,43);
   (45,45); (46,46); (94,94); (95,95); (96,96); (124,124); (126,126);
   (48,57); (65,90); (97,122)].

Lemma method_ranges_ok x : x < 256 -> in_ranges x method_ranges = is_tchar x && negb (is_lower x).
Proof.
  apply (byte_table (fun x => in_ranges x method_ranges) (fun x => is_tchar x && negb (is_lower x))).
  vm_compute. reflexivity.
Qed.

Lemma target_ranges_ok x : x < 256 ->
  in_ranges x target_ranges = target_byte x.
Proof.
  apply (byte_table (fun x => in_ranges x target_ranges) target_byte).
  vm_compute. reflexivity.
Qed.

Lemma forallb_ranges (R : list (N * N)) (f : N -> bool) s : bytes_ok s ->
  (forall x, x < 256 -> in_ranges x R = f x) ->
  forallb (fun x => in_ranges x R) s = forallb f s.
Proof.
  intros Hok H. apply forallb_ext_in. intros x Hx. apply H.
  unfold bytes_ok in Hok. rewrite Forall_forall in Hok. auto.
Qed.

Lemma no_sp_method m : forallb (fun x => is_tchar x && negb (is_lower x)) m = true ->
  forallb (fun x => negb (x =? 32)) m = true.
Proof.
  intro H. rewrite forallb_forall in *. intros x Hx. specialize (H x Hx).
  destruct (x =? 32) eqn:E; auto. apply N.eqb_eq in E. subst. vm_compute in H. discriminate.
Qed.

Lemma no_sp_target t : forallb target_byte t = true ->
  forallb (fun x => negb (x =? 32)) t = true.
Proof.
  intro H. rewrite forallb_forall in *. intros x Hx. specialize (H x Hx).
  destruct (x =? 32) eqn:E; auto. apply N.eqb_eq in E. subst. vm_compute in H. discriminate.
Qed.

(* ---------------------------------------------------------------- *)
(* the HTTP-version token *)

Lemma version_of_spec v ver : version_of v = Some ver ->
  exists a b, v = [72;84;84;80;47; a; 46; b] /\ ver = [a; 46; b] /\ is_dig a = true /\ is_dig b = true.
Proof.
  unfold version_of.
  destruct v as [|h [|t1 [|t2 [|p [|sl [|a [|dot [|b [|? ?]]]]]]]]]; try discriminate.
  destruct ((h =? 72) && (t1 =? 84) && (t2 =? 84) && (p =? 80) && (sl =? 47) && is_dig a && (dot =? 46) && is_dig b) eqn:E;
    [|discriminate].
  intro H. injection H as <-.
  repeat (apply andb_true_iff in E as [E ?]).
  repeat match goal with H : (_ =? _) = true |- _ => apply N.eqb_eq in H end. subst.
  exists a, b. auto.
Qed.

Lemma version_of_make a b : is_dig a = true -> is_dig b = true ->
  version_of [72;84;84;80;47; a; 46; b] = Some [a; 46; b].
Proof. intros Ha Hb. unfold version_of. cbn [N.eqb Pos.eqb andb]. rewrite Ha, Hb. reflexivity. Qed.

Lemma dig_ranges x : in_ranges x [(48, 57)] = is_dig x.
Proof. unfold is_dig. simpl. rewrite orb_false_r. reflexivity. Qed.

Lemma Lang_cls1 rs s : Lang (Cls rs) s <-> exists x, s = [x] /\ in_ranges x rs = true.
Proof.
  split.
  - intro H. inversion H; subst. eauto.
  - intros (x & -> & H). constructor. exact H.
Qed.

Lemma Lang_http_version hv :
  Lang http_version hv <-> exists a b, hv = [72;84;84;80;47; a; 46; b] /\ is_dig a = true /\ is_dig b = true.
Proof.
  unfold http_version, DIGIT. split.
  - intro H. apply Lang_Cat in H as (u & r & -> & Hu & Hr). apply Lang_Lit in Hu. subst u.
    apply Lang_Cat in Hr as (da & r2 & -> & Ha & Hr2). apply Lang_cls1 in Ha as (a & -> & Ha).
    apply Lang_Cat in Hr2 as (dot & db & -> & Hd & Hb). apply Lang_Sym in Hd. subst dot.
    apply Lang_cls1 in Hb as (b & -> & Hb). rewrite dig_ranges in Ha, Hb.
    exists a, b. auto.
  - intros (a & b & -> & Ha & Hb).
    change [72;84;84;80;47; a; 46; b] with ([72;84;84;80;47] ++ ([a] ++ ([46] ++ [b]))).
    apply LCat; [apply Lang_Lit; reflexivity|].
    apply LCat; [constructor; rewrite dig_ranges; exact Ha|].
    apply LCat; [apply Lang_Sym; reflexivity|]. constructor. rewrite dig_ranges. exact Hb.
Qed.

(* ---------------------------------------------------------------- *)
(* the request-line grammar of Spec/Grammar.v is the reference's shape test *)

Lemma nonempty_ne' (s : bytes) : nonempty s = true <-> s <> [].
Proof. destruct s; simpl; split; congruence. Qed.

Lemma shape_of_spec l : bytes_ok l -> Lang spec_request_line l ->
  exists m t v, request_line_shape l = Some (m, t, v).
Proof.
  intros Hok H. unfold spec_request_line, method_char, target_char, SP in H.
  fold method_ranges target_ranges in H.
  apply Lang_Cat in H as (m & r1 & -> & Hm & H). apply Lang_Cat in H as (sp & r2 & -> & Hsp & H).
  apply Lang_Sym in Hsp. subst sp. apply Lang_Cat in H as (t & o & -> & Ht & Ho).
  apply Lang_plus_cls in Hm as [Hmne Hm]. apply Lang_plus_cls in Ht as [Htne Ht].
  apply bytes_ok_app in Hok as [Hokm Hok]. apply bytes_ok_app in Hok as [_ Hok].
  apply bytes_ok_app in Hok as [Hokt Hoko].
  rewrite (forallb_ranges _ _ m Hokm method_ranges_ok) in Hm.
  rewrite (forallb_ranges _ _ t Hokt target_ranges_ok) in Ht.
  assert (Mok : method_ok m = true).
  { unfold method_ok. apply nonempty_ne' in Hmne. rewrite Hmne, Hm. reflexivity. }
  assert (Tok : target_shape t = true).
  { unfold target_shape. apply nonempty_ne' in Htne. rewrite Htne, Ht. reflexivity. }
  unfold request_line_shape. cbn [app].
  rewrite (split_on_some 32 m _ (no_sp_method m Hm)).
  unfold Opt in Ho. apply Lang_Alt in Ho as [Ho|Ho].
  - apply Lang_Eps in Ho. subst o. rewrite app_nil_r.
    rewrite (split_on_none 32 t (no_sp_target t Ht)). rewrite Mok, Tok. cbn [andb]. eauto.
  - apply Lang_Cat in Ho as (sp & hv & -> & Hsp & Hhv). apply Lang_Sym in Hsp. subst sp.
    apply Lang_http_version in Hhv as (a & b & -> & Ha & Hb).
    cbn [app]. rewrite (split_on_some 32 t _ (no_sp_target t Ht)).
    assert (Hv : forallb (fun x => negb (x =? 32)) [72;84;84;80;47; a; 46; b] = true).
    { assert (D : forall d, is_dig d = true -> (d =? 32) = false).
      { intros d Hd. unfold is_dig in Hd. apply andb_true_iff in Hd as [D1 _]. apply N.leb_le in D1.
        apply N.eqb_neq. lia. }
      cbn [forallb N.eqb Pos.eqb negb andb]. rewrite (D a Ha), (D b Hb). reflexivity. }
    rewrite (split_on_none 32 _ Hv).
    rewrite Mok, Tok, (version_of_make a b Ha Hb). cbn [andb]. eauto.
Qed.

Lemma spec_of_shape l m t v : bytes_ok l -> request_line_shape l = Some (m, t, v) ->
  Lang spec_request_line l.
Proof.
  intros Hok H. unfold request_line_shape in H.
  destruct (split_on_inv (length l) 32 l ltac:(lia)) as [E F].
  destruct (split_on 32 l []) as [|p1 [|p2 [|p3 [|p4 ps]]]] eqn:Es; try discriminate.
  - (* method SP target *)
    destruct (method_ok p1 && target_shape p2) eqn:C; [|discriminate]. injection H as <- <- <-.
    apply andb_true_iff in C as [Cm Ct]. unfold method_ok in Cm. unfold target_shape in Ct.
    apply andb_true_iff in Cm as [Cm1 Cm2]. apply andb_true_iff in Ct as [Ct1 Ct2].
    cbn [join] in E. rewrite E in Hok |- *.
    apply bytes_ok_app in Hok as [Hok1 Hok]. apply bytes_ok_app in Hok as [_ Hok2].
    unfold spec_request_line, method_char, target_char, SP. fold method_ranges target_ranges.
    apply LCat.
    + apply Lang_plus_cls. split; [apply nonempty_ne'; auto|].
      rewrite (forallb_ranges _ _ p1 Hok1 method_ranges_ok). exact Cm2.
    + apply LCat; [apply Lang_Sym; reflexivity|].
      rewrite <- (app_nil_r p2). apply LCat.
      * apply Lang_plus_cls. split; [apply nonempty_ne'; auto|].
        rewrite (forallb_ranges _ _ p2 Hok2 target_ranges_ok). exact Ct2.
      * apply LAltL. constructor.
  - (* method SP target SP version *)
    destruct (method_ok p1 && target_shape p2) eqn:C; [|discriminate].
    destruct (version_of p3) as [ver|] eqn:V; [|discriminate]. injection H as <- <- <-.
    apply version_of_spec in V as (a & b & -> & _ & Ha & Hb).
    apply andb_true_iff in C as [Cm Ct]. unfold method_ok in Cm. unfold target_shape in Ct.
    apply andb_true_iff in Cm as [Cm1 Cm2]. apply andb_true_iff in Ct as [Ct1 Ct2].
    cbn [join] in E. rewrite E in Hok |- *.
    apply bytes_ok_app in Hok as [Hok1 Hok]. apply bytes_ok_app in Hok as [_ Hok].
    apply bytes_ok_app in Hok as [Hok2 _].
    unfold spec_request_line, method_char, target_char, SP. fold method_ranges target_ranges.
    apply LCat.
    + apply Lang_plus_cls. split; [apply nonempty_ne'; auto|].
      rewrite (forallb_ranges _ _ p1 Hok1 method_ranges_ok). exact Cm2.
    + apply LCat; [apply Lang_Sym; reflexivity|].
      apply LCat.
      * apply Lang_plus_cls. split; [apply nonempty_ne'; auto|].
        rewrite (forallb_ranges _ _ p2 Hok2 target_ranges_ok). exact Ct2.
      * apply LAltR. apply LCat; [apply Lang_Sym; reflexivity|].
        apply Lang_http_version. eauto.
Qed.

(* ---------------------------------------------------------------- *)
(* the model *)

(* a line accepted by the gate starts with a token followed by SP *)
Definition tchar_prefix : re := Cat (Plus (Cls tchar_ranges')) (Cat (Sym 32) any_bytes).

Lemma gate_tchar_prefix : forall s, bytes_ok s -> Lang gate_request_line s -> Lang tchar_prefix s.
Proof. apply incl_check_sound. vm_compute. reflexivity. Qed.

Lemma has_crlf_clean l : bytes_ok l -> has_crlf_byte l = false -> clean l = true.
Proof.
  intros Ho Hc. unfold clean. apply forallb_forall. intros x Hx.
  unfold bytes_ok in Ho. rewrite Forall_forall in Ho. specialize (Ho x Hx).
  assert (Hx2 : (x =? 13) || (x =? 10) = false).
  { destruct ((x =? 13) || (x =? 10)) eqn:E; auto.
    rewrite <- Hc. symmetry. apply existsb_exists. exists x. auto. }
  rewrite (byte_table (fun x => in_ranges x [(0,9); (11,12); (14,255)])
                      (fun x => negb ((x =? 13) || (x =? 10)))) by (vm_compute; reflexivity || exact Ho).
  rewrite Hx2. reflexivity.
Qed.

Lemma method_ok_upper m : method_ok m = true -> beqb m (upper_ascii m) = true.
Proof.
  unfold method_ok. intro H. apply andb_true_iff in H as [_ H]. apply beqb_eq. unfold upper_ascii.
  induction m as [|x m IH]; cbn [map forallb] in *; auto.
  apply andb_true_iff in H as [Hx Hm]. rewrite <- IH by exact Hm. f_equal.
  apply andb_true_iff in Hx as [_ Hl]. unfold upper_ascii_b. unfold is_lower in Hl.
  destruct ((97 <=? x) && (x <=? 122)); [discriminate|reflexivity].
Qed.

Lemma tchar_upper_is_method m : bytes_ok m ->
  forallb (fun x => in_ranges x tchar_ranges') m = true -> beqb m (upper_ascii m) = true ->
  forallb (fun x => in_ranges x method_ranges) m = true.
Proof.
  intros Hok Ht Hu. apply beqb_eq in Hu. unfold upper_ascii in Hu.
  induction m as [|x m IH]; cbn [forallb map] in *; auto.
  apply andb_true_iff in Ht as [Hx Hm]. injection Hu as Hxu Hmu.
  inversion Hok; subst.
  rewrite IH; auto. rewrite andb_true_r.
  rewrite method_ranges_ok by assumption.
  assert (T : in_ranges x tchar_ranges' = is_tchar x).
  { apply (byte_table (fun x => in_ranges x tchar_ranges') is_tchar); [vm_compute; reflexivity|assumption]. }
  rewrite T in Hx. rewrite Hx. cbn [andb]. unfold is_lower. unfold upper_ascii_b in Hxu.
  destruct ((97 <=? x) && (x <=? 122)) eqn:E; auto.
  apply andb_true_iff in E as [E1 E2]. apply N.leb_le in E1, E2. lia.
Qed.

Lemma Lang_any_bytes' s : bytes_ok s -> Lang any_bytes s.
Proof.
  intro H. unfold any_bytes. apply Lang_star_cls. apply forallb_forall. intros x Hx.
  unfold bytes_ok in H. rewrite Forall_forall in H. specialize (H x Hx). simpl.
  rewrite orb_false_r. apply andb_true_iff. split; apply N.leb_le; lia.
Qed.

(* gate + upper-case method  =>  the request-line grammar *)
Lemma gate_upper_spec l m rest : bytes_ok l -> has_crlf_byte l = false ->
  matches gate_request_line l = true ->
  split_on 32 l [] = m :: rest -> beqb m (upper_ascii m) = true ->
  Lang spec_request_line l.
Proof.
  intros Hok Hc G Es Hu. apply matches_correct in G.
  pose proof (has_crlf_clean l Hok Hc) as Hcl.
  apply (request_line_exact l Hok (clean_no_crlf l Hcl)). split; auto.
  pose proof (gate_tchar_prefix l Hok G) as T. unfold tchar_prefix in T.
  apply Lang_Cat in T as (a & r & -> & Ha & Hr). apply Lang_Cat in Hr as (sp & b & -> & Hsp & _).
  apply Lang_Sym in Hsp. subst sp. apply Lang_plus_cls in Ha as [Hne Ha].
  apply bytes_ok_app in Hok as [Hoka Hokb].
  assert (Hns : forallb (fun x => negb (x =? 32)) a = true).
  { rewrite forallb_forall in *. intros x Hx. specialize (Ha x Hx).
    destruct (x =? 32) eqn:E; auto. apply N.eqb_eq in E. subst. vm_compute in Ha. discriminate. }
  cbn [app] in Es. rewrite (split_on_some 32 a _ Hns) in Es. injection Es as <- _.
  unfold upper_method_prefix, method_char. fold method_ranges.
  apply LCat.
  - apply Lang_plus_cls. split; auto. apply tchar_upper_is_method; auto.
  - apply LCat; [apply Lang_Sym; reflexivity|]. apply Lang_any_bytes'.
    simpl in Hokb. inversion Hokb; auto.
Qed.

Lemma version_skipn v ver : version_of v = Some ver -> skipn 5 v = ver.
Proof. intro H. apply version_of_spec in H as (a & b & -> & -> & _). reflexivity. Qed.

Theorem request_line_equiv : forall l, bytes_ok l -> has_crlf_byte l = false ->
  match crack_first_line l with
  | None => request_line_shape l = None
  | Some (m, u, v) =>
    if beqb m [] && beqb u [] && beqb v [] then request_line_shape l = None
    else request_line_shape l = Some (m, u, v)
  end.
Proof.
  intros l Hok Hc. unfold crack_first_line. rewrite split_one.
  destruct (matches gate_request_line l) eqn:G; cbn [negb].
  - (* the gate accepts *)
    destruct (split_on 32 l []) as [|m [|u [|v [|w ps]]]] eqn:Es;
      try (cbn; unfold request_line_shape; rewrite Es; reflexivity).
    + (* method SP target *)
      destruct (beqb m (upper_ascii m)) eqn:U.
      * pose proof (gate_upper_spec l m [u] Hok Hc G Es U) as S.
        destruct (shape_of_spec l Hok S) as (m' & t' & v' & Sh).
        pose proof Sh as Sh'. unfold request_line_shape in Sh. rewrite Es in Sh.
        destruct (method_ok m && target_shape u) eqn:C; [|discriminate].
        apply andb_true_iff in C as [Cm _]. unfold method_ok in Cm. apply andb_true_iff in Cm as [Cm _].
        destruct m; [discriminate|]. cbn [beqb andb]. rewrite Sh'. symmetry. exact Sh.
      * unfold request_line_shape. rewrite Es.
        destruct (method_ok m) eqn:Mo; [|reflexivity].
        rewrite (method_ok_upper m Mo) in U. discriminate.
    + (* method SP target SP version *)
      destruct (beqb m (upper_ascii m)) eqn:U.
      * pose proof (gate_upper_spec l m [u; v] Hok Hc G Es U) as S.
        destruct (shape_of_spec l Hok S) as (m' & t' & v' & Sh).
        pose proof Sh as Sh'. unfold request_line_shape in Sh. rewrite Es in Sh.
        destruct (method_ok m && target_shape u) eqn:C; [|discriminate].
        destruct (version_of v) as [ver|] eqn:V; [|discriminate].
        apply andb_true_iff in C as [Cm _]. unfold method_ok in Cm. apply andb_true_iff in Cm as [Cm _].
        destruct m; [discriminate|]. cbn [beqb andb]. rewrite Sh'. rewrite <- Sh.
        rewrite (version_skipn v ver V). reflexivity.
      * unfold request_line_shape. rewrite Es.
        destruct (method_ok m) eqn:Mo; [|reflexivity].
        rewrite (method_ok_upper m Mo) in U. discriminate.
  - (* the gate refuses: so does the grammar *)
    cbn. destruct (request_line_shape l) as [[[m t] v]|] eqn:Sh; auto.
    pose proof (spec_of_shape l m t v Hok Sh) as S.
    pose proof (has_crlf_clean l Hok Hc) as Hcl.
    apply (request_line_exact l Hok (clean_no_crlf l Hcl)) in S as [S _].
    apply matches_correct in S. congruence.
Qed.

(* "GET /a HTTP/1.1" *)
Example request_line_example :
  request_line_shape [71;69;84;32;47;97;32;72;84;84;80;47;49;46;49] = Some ([71;69;84], [47;97], [49;46;49])
  /\ request_line_shape [103;101;116;32;47] = None
  /\ request_line_shape [71;69;84;32;32;47] = None.
Proof. repeat split; reflexivity. Qed.
