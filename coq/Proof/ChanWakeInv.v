(* Proof/ChanWakeInv.v -- classification of the program points of Model/ChanWake.v
   and the inductive invariant of C05 in executable (boolean) form.  The boolean
   form is evaluated by the extracted explorer on every reachable state of small
   instances and on every model state visited while real traces are aligned
   (checks/C05.py); Proof/ChanWake.v proves it for all schedules. *)
From Coq Require Import List ZArith Bool Arith.
From WV Require Import Model.ChanWake.
Import ListNotations.
Open Scope Z_scope.

(* ---- the I/O thread's program points ---------------------------------------- *)
(* the coming select will still (re)read total_outbufs_len / will_close /
   close_when_flushed before it commits to an interest set without POLLOUT *)
Definition cov_tot (p : iopc) : bool :=
  match p with IoW2 _ | IoW3 _ | IoSel _ false => false | _ => true end.
Definition cov_wc (p : iopc) : bool :=
  match p with IoW3 _ | IoSel _ false => false | _ => true end.
Definition cov_cwf (p : iopc) : bool :=
  match p with IoSel _ false => false | _ => true end.
(* ... before it commits to an interest set without POLLIN *)
Definition rcov (p : iopc) : bool :=
  match p with IoW1 false | IoW2 false | IoW3 false | IoSel false _ => false | _ => true end.

Definition hc_is_sc (k : hcont) : bool := match k with HcSc _ _ => true | _ => false end.

Definition io_holds_o (p : iopc) : bool :=
  match p with
  | IoSc1 _ _ | IoScF _ _ | IoScRel _ _
  | IoFlL | IoNfy | IoNfy2 | IoRelL | IoRelX
  | IoHCb _ | IoHCc _ | IoHCd _ | IoHCe _ => true
  | IoHCx k => hc_locked k
  | _ => false
  end.
Definition io_holds_r (p : iopc) : bool :=
  match p with
  | IoRcv1 _ _ | IoRcv2 _ _ | IoRcvLoop _ _ | IoRcvApp _ _ | IoRcvAdd _ _
  | IoScA _ _ | IoSc1 _ _ | IoScF _ _ | IoScRel _ _ | IoRcvRel _ => true
  | IoHC k | IoHCb k | IoHCc k | IoHCd k | IoHCe k | IoHCx k => hc_is_sc k
  | _ => false
  end.
(* inside send_continue called from received() *)
Definition io_sc (p : iopc) : bool :=
  match p with
  | IoScA _ _ | IoSc1 _ _ | IoScF _ _ | IoScRel _ _ => true
  | IoHC k | IoHCb k | IoHCc k | IoHCd k | IoHCe k | IoHCx k => hc_is_sc k
  | _ => false
  end.
(* handle_close has cleared connected and not yet removed the channel from the map *)
Definition io_hc_late (p : iopc) : bool :=
  match p with IoHCd _ | IoHCe _ | IoHCx _ => true | _ => false end.
(* the consumer is between a locked flush and its notify, or inside handle_close before notify *)
Definition io_will_notify (p : iopc) : bool :=
  match p with IoFlL | IoNfy | IoNfy2 | IoHCb _ | IoHCc _ | IoHCd _ => true | _ => false end.
(* a locked flush failed (no notify), will_close is (being) set and the same handle_write goes on
   to handle_close, which notifies *)
Definition io_close_notify (p : iopc) (wcv : bool) : bool :=
  match p with
  | IoRelX | IoSetWc => true
  | IoHW3 | IoHW4 | IoHW5 | IoHW6 | IoHW7 | IoHC _ => wcv
  | _ => false
  end.
(* received() appended the first request and has not yet submitted the channel *)
Definition pendadd (s : state) : nat :=
  match io s with IoRcvAdd _ _ => if Nat.eqb (nreq s) 1 then 1%nat else 0%nat | _ => 0%nat end.

(* ---- the workers' program points ----------------------------------------------- *)
Definition w_holds_o (p : wpc) : bool :=
  match p with
  | WHw1 (SWr _) | WHwC _ | WHwF _ | WHwEP _ | WHwEW _ | WHwL1 _ | WHwL2 _ | WHwLP _ | WHwLW _ | WHwRel
  | WWs3 _ | WCdRel | WWs4 _ | WWs5 | WWsF _ | WWs6 | WWsP | WWsRel
  | WSc1 | WScF | WScRel | WScX => true
  | _ => false
  end.
Definition w_sc (p : wpc) : bool :=
  match p with
  | WScA | WSc1 | WScF | WScRel | WScX | WScX2 => true
  | _ => false
  end.
(* send_continue's flush raised: the exception is leaving service() *)
Definition w_scx (p : wpc) : bool := match p with WScX | WScX2 => true | _ => false end.
Definition w_holds_r (p : wpc) : bool :=
  match p with
  | WCl2 | WCl3 | WCl4 | WK4 | WK5 | WK5b | WK6 | WK7 => true
  | _ => w_sc p
  end.
(* the request being served is still requests[0] *)
Definition w_main (p : wpc) : bool :=
  match p with
  | WSvc | WSvc2 | WApp | WWs1 _ | WWs2 _
  | WHw1 _ | WHwA | WHwC _ | WHwF _ | WHwEP _ | WHwEW _ | WHwEPk _ _ | WHwEN _
  | WHwL1 _ | WHwL2 _ | WHwLP _ | WHwLW _ | WHwLPk _ | WHwLN _ | WHwRel
  | WWs3 _ | WWs4 _ | WWs5 | WWsF _ | WWs6 | WWsP | WWsRel | WCdRel
  | WCl1 | WCl2 | WCl3 | WK1 | WK3 | WK4 => true
  | _ => false
  end.
(* popped its request, has not yet decided about add_task *)
Definition w_chain (p : wpc) : bool := match p with WK5 | WK5b => true | _ => false end.
Definition w_busy (p : wpc) : bool := w_main p || w_chain p.
Definition w_idle (p : wpc) : bool := match p with WIdle => true | _ => false end.
Definition w_in_service (p : wpc) : bool :=
  match p with WIdle | WAcq | WNotif => false | _ => true end.
(* every path from here reaches a pull_trigger before the worker parks or leaves service()
   (or finds connected = False) *)
Definition will_pull (p : wpc) : bool := w_in_service p && negb (parked_o p).
Definition w_exc (p : wpc) : bool :=
  match p with WHwEP _ | WHwEW _ | WHwEPk _ _ | WHwEN _ => true | _ => false end.
Definition w_above (p : wpc) : bool :=
  match p with WHwLP _ | WHwLW _ => true | _ => false end.
Definition w_loopc (p : wpc) : bool :=
  match p with WHwF _ | WHwEP _ | WHwEW _ | WHwL2 _ | WHwLP _ | WHwLW _ => true | _ => false end.
Definition parked_conn (p : wpc) : bool :=
  match p with WHwLPk _ | WHwEPk _ _ => true | _ => false end.

Definition count_busy (l : list wpc) : nat := length (filter w_busy l).

Definition writable_now (s : state) : bool := (0 <? total s) || wc s || cwf s.
Definition readable_now (c : cfg) (s : state) : bool :=
  negb (wc s) && negb (cwf s) && Nat.leb (nreq s) (lookahead c) && (total s =? 0).
Definition io_covers (s : state) : bool :=
  ((0 <? total s) && cov_tot (io s)) || (wc s && cov_wc (io s)) || (cwf s && cov_cwf (io s)).

Definition imp (a b : bool) : bool := negb a || b.

(* the worker has changed total_outbufs_len / set a flag and its next steps decide about (or
   perform) the pull_trigger for it *)
Definition act_tot (p : wpc) : bool :=
  match p with
  | WWs5 | WWsF _ | WWs6 | WWsP => true
  | WScF | WScRel | WK7 | WEnd1 | WEnd2 => true     (* send_continue in service(), pull at its end *)
  | _ => false
  end.
Definition act_wc (p : wpc) : bool :=
  match p with
  | WWsP | WHwEP _ => true
  | WScRel | WK7 | WEnd1 | WEnd2 => true     (* flush error inside send_continue in service() *)
  | _ => false
  end.
Definition act_cwf (p : wpc) : bool :=
  match p with WCl3 | WCl4 | WEnd1 | WEnd2 => true | _ => false end.

(* wake-up per cause, also when workers sit in the application (WApp) *)
Definition g6_b (c : cfg) (s : state) : bool :=
  closed s ||
  (imp ((0 <? total s) && (sb c <=? total s)) (pulled s || cov_tot (io s) || existsb act_tot (ws s)) &&
   imp (wc s) (pulled s || cov_wc (io s) || existsb act_wc (ws s)) &&
   imp (cwf s) (pulled s || cov_cwf (io s) || existsb act_cwf (ws s))).

(* per-worker part; j is the worker's index *)
Definition winv_b (c : cfg) (s : state) (j : nat) (p : wpc) : bool :=
  imp (w_holds_o p) (holds (olock s) (TW j)) &&
  imp (w_holds_r p) (holds (rlock s) (TW j)) &&
  imp (w_main p) (Nat.leb 1 (nreq s)) &&
  imp (w_scx p) (negb (conn s)) &&
  imp (w_sc p) (Nat.eqb (nreq s) 0) &&
  imp (match p with WK6 => true | _ => false end) (Nat.eqb (nreq s) 0 || negb (conn s)) &&
  imp (w_exc p) (wc s) &&
  imp (w_above p) (hw c <? total s) &&
  imp (w_loopc p) (conn s) &&
  imp (match p with WHwEW _ => true | _ => false end) (closed s || pulled s || cov_wc (io s)) &&
  imp (match p with WHwLW _ => true | _ => false end) (closed s || pulled s || cov_tot (io s)) &&
  imp (match p with WHwLPk _ => true | _ => false end) ((hw c <? total s) || io_will_notify (io s) || io_close_notify (io s) (wc s)) &&
  imp (parked_conn p) (conn s || match io s with IoHCd _ => true | _ => false end) &&
  negb (parked_after_close p) &&
  (Bool.eqb (w_idle p) (existsb (Nat.eqb j) (qwait s))).

Fixpoint forallb_i {A} (f : nat -> A -> bool) (i : nat) (l : list A) : bool :=
  match l with [] => true | x :: r => f i x && forallb_i f (S i) r end.

Definition total_pend_ok (s : state) : bool :=
  (0 <=? pend s) &&
  match io s with
  | IoHCc _ => true
  | _ => imp (conn s) (total s =? pend s)
  end.

Definition inv_b (c : cfg) (s : state) : bool :=
  imp (io_holds_o (io s)) (holds (olock s) TIO) &&
  imp (io_holds_r (io s)) (holds (rlock s) TIO) &&
  Nat.leb (queue s + count_busy (ws s) + pendadd s) 1 &&
  imp (Nat.ltb 0 (queue s)) (Nat.leb 1 (nreq s)) &&
  imp (Nat.leb 1 (nreq s))
      (negb (conn s) || Nat.ltb 0 (queue s) || Nat.eqb (pendadd s) 1 || existsb w_busy (ws s)) &&
  imp (io_sc (io s)) (Nat.eqb (nreq s) 0) &&
  total_pend_ok s &&
  imp (closed s) (negb (conn s)) &&
  imp (negb (conn s)) (closed s || io_hc_late (io s)) &&
  imp (negb (closed s) && writable_now s) (pulled s || io_covers s || existsb will_pull (ws s)) &&
  imp (negb (closed s) && readable_now c s) (pulled s || rcov (io s) || existsb will_pull (ws s)) &&
  imp (Nat.ltb 0 (queue s)) (existsb (fun p => negb (w_idle p)) (ws s)) &&
  forallb (fun j => Nat.ltb j (length (ws s))) (qwait s) &&
  g6_b c s &&
  forallb_i (winv_b c s) 0 (ws s).

Definition inv_ok (c : cfg) (s : state) : bool := inv_b c s.

(* quiescence in the narrow sense of the property: the I/O thread sleeps in select,
   every worker is parked on queue_cv or on outbuf_lock's condition *)
(* ... or is inside the application (a streaming application waiting for its consumer) *)
Definition quiescent_app (s : state) : bool :=
  match io s with IoSel r w => negb (sel_enabled s r w) | _ => false end &&
  forallb (fun p => w_idle p || parked_o p || match p with WApp => true | _ => false end) (ws s).
Definition app_ok (c : cfg) (s : state) : bool :=
  (closed s || negb ((0 <? pend s) && (sb c <=? pend s))) && no_producer_parked s && closing_closed s.

Definition quiescent_parked (s : state) : bool :=
  match io s with IoSel r w => negb (sel_enabled s r w) | _ => false end &&
  forallb (fun p => w_idle p || parked_o p) (ws s).
