(* Proof/ChanExpectBase.v -- list lemmas and the first invariant (locks, program
   counters, one worker at a time, ids in arrival order) of Model/ChanExpect.v. *)
From Coq Require Import List Arith Bool Lia.
From RecordUpdate Require Import RecordUpdate.
From WV Require Import Model.ChanExpect.
Import ListNotations.

(* ---- ascending ids ---------------------------------------------------- *)

Fixpoint asc (l : list areq) (hi : nat) : Prop :=
  match l with
  | [] => True
  | r :: rest => rid r < (match rest with [] => hi | r2 :: _ => rid r2 end) /\ asc rest hi
  end.

Lemma asc_weaken : forall l hi hi', asc l hi -> hi <= hi' -> asc l hi'.
Proof.
  induction l as [|r rest IH]; simpl; auto.
  intros hi hi' [H1 H2] Hle. split; [|eauto].
  destruct rest; [lia|assumption].
Qed.

Lemma asc_all_lt : forall l hi, asc l hi -> Forall (fun x => rid x < hi) l.
Proof.
  induction l as [|r rest IH]; simpl; intros hi H; constructor.
  - destruct H as [H1 H2]. destruct rest as [|r2 rest2]; [assumption|].
    specialize (IH hi H2). inversion IH; subst. lia.
  - apply IH. tauto.
Qed.

Lemma asc_snoc : forall l q hi', asc l (rid q) -> rid q < hi' -> asc (l ++ [q]) hi'.
Proof.
  induction l as [|r rest IH]; simpl; intros q hi' H Hlt.
  - auto.
  - destruct H as [H1 H2]. split; [|auto].
    destruct rest; simpl; assumption.
Qed.

Lemma asc_tail : forall r rest hi, asc (r :: rest) hi -> asc rest hi /\ rid r < hi /\
  Forall (fun x => rid r < rid x) rest.
Proof.
  intros r rest hi H. pose proof (asc_all_lt _ _ H) as F.
  inversion F as [|? ? Hlt Hrest]; subst.
  simpl in H. destruct H as [Ha Hb]. repeat split; auto.
  clear F Hlt Hrest. revert r Ha Hb.
  induction rest as [|r2 rest2 IH]; intros r Ha Hb; constructor.
  - assumption.
  - simpl in Hb. destruct Hb as [Hc Hd].
    destruct rest2 as [|r3 rest3]; [constructor|].
    specialize (IH r2 Hc Hd). eapply Forall_impl; [|exact IH]. simpl. intros; lia.
Qed.

(* ---- the output log ---------------------------------------------------- *)

Definition key (t : tok) : nat :=
  match t with TInterim i _ => 2 * i | TFinal i => 2 * i + 1 end.

Fixpoint ordered (l : list tok) : Prop :=
  match l with
  | [] => True
  | t :: r => Forall (fun u => key t <= key u) r /\ ordered r
  end.

Lemma ordered_snoc : forall l t, ordered l -> Forall (fun u => key u <= key t) l -> ordered (l ++ [t]).
Proof.
  induction l as [|x r IH]; simpl; intros t Ho Hf.
  - split; constructor.
  - destruct Ho as [H1 H2]. inversion Hf; subst. split.
    + apply Forall_app. split; [assumption|]. constructor; [assumption|constructor].
    + apply IH; assumption.
Qed.

Lemma ordered_split : forall l1 t l2, ordered (l1 ++ t :: l2) ->
  Forall (fun u => key u <= key t) l1 /\ Forall (fun u => key t <= key u) l2.
Proof.
  induction l1 as [|x r IH]; simpl; intros t l2 H.
  - split; [constructor|tauto].
  - destruct H as [H1 H2]. specialize (IH _ _ H2). destruct IH as [IH1 IH2].
    split; [|assumption]. constructor; [|assumption].
    rewrite Forall_forall in H1. apply H1. apply in_or_app. right. left. reflexivity.
Qed.

Definition is_interim (i : nat) (t : tok) : bool :=
  match t with TInterim j _ => j =? i | TFinal _ => false end.

Definition cnt (i : nat) (l : list tok) : nat := length (filter (is_interim i) l).

Lemma cnt_snoc : forall i l t, cnt i (l ++ [t]) = cnt i l + (if is_interim i t then 1 else 0).
Proof.
  intros. unfold cnt. rewrite filter_app, app_length. simpl.
  destruct (is_interim i t); reflexivity.
Qed.

Lemma cnt_zero_above : forall i l, Forall (fun t => key t < 2 * i) l -> cnt i l = 0.
Proof.
  induction l as [|t r IH]; intros H; [reflexivity|].
  inversion H; subst. unfold cnt in *. simpl.
  destruct t as [j w|j]; simpl in *.
  - destruct (j =? i) eqn:E; [apply Nat.eqb_eq in E; lia|auto].
  - auto.
Qed.

Lemma cnt_pos_in : forall i l, cnt i l > 0 -> exists w, In (TInterim i w) l.
Proof.
  induction l as [|t r IH]; unfold cnt; simpl; intros H; [lia|].
  destruct t as [j w|j]; simpl in H.
  - destruct (j =? i) eqn:E.
    + apply Nat.eqb_eq in E. subst. exists w. left. reflexivity.
    + destruct (IH H) as [w' Hw]. exists w'. right. assumption.
  - destruct (IH H) as [w' Hw]. exists w'. right. assumption.
Qed.

Lemma in_cnt_pos : forall i w l, In (TInterim i w) l -> cnt i l > 0.
Proof.
  induction l as [|t r IH]; simpl; intros H; [tauto|].
  unfold cnt. simpl. destruct H as [H|H].
  - subst. simpl. rewrite Nat.eqb_refl. simpl. lia.
  - specialize (IH H). unfold cnt in IH. destruct (is_interim i t); simpl; lia.
Qed.

(* ---- list positions ---------------------------------------------------- *)

Lemma nth_error_single : forall {A} (w x : A) i, nth_error [w] i = Some x -> i = 0 /\ x = w.
Proof.
  intros A w x i H. destruct i as [|i]; simpl in H.
  - inversion H. auto.
  - destruct i; discriminate.
Qed.

(* ---- invariant A ------------------------------------------------------- *)

Definition wk_ok (s : state) (w : wpc) : Prop :=
  match w with
  | WStart | WClose | WKeep => requests s <> []
  | WTask id => exists r rest, requests s = r :: rest /\ rid r = id
  | WSend => requests s = [] /\ rlock s = true /\ io s = IOIdle /\ exists q, request s = Some q
  end.

Record InvA (s : state) : Prop := {
  A_one : length (active s) + queued s <= 1;
  A_wk : forall w, In w (active s) -> wk_ok s w;
  A_q : queued s >= 1 -> requests s <> [];
  A_lock : rlock s = true <-> (io s <> IOIdle \/ In WSend (active s));
  A_ids : match request s with
          | Some q => asc (requests s) (rid q) /\ rid q < next_id s
          | None => asc (requests s) (next_id s)
          end;
  A_iosend : forall m, io s = IOSend m -> requests s = [] /\ exists q, request s = Some q
}.

Lemma InvA_init : InvA init.
Proof.
  constructor; simpl; try tauto; try lia.
  - split; [discriminate|]. intros [H|H]; tauto.
  - discriminate.
Qed.

Lemma active_shape : forall s, InvA s ->
  (active s = [] ) \/ (exists w, active s = [w] /\ queued s = 0).
Proof.
  intros s H. pose proof (A_one s H) as H1.
  destruct (active s) as [|w [|w2 r]]; simpl in H1.
  - left. reflexivity.
  - right. exists w. split; [reflexivity|lia].
  - lia.
Qed.

Ltac inv_some :=
  repeat match goal with
  | H : Some _ = Some _ |- _ => inversion H; subst; clear H
  | H : (_, _) = (_, _) |- _ => inversion H; subst; clear H
  | H : None = Some _ |- _ => discriminate H
  | H : Some _ = None |- _ => discriminate H
  end.

(* effect of io_complete, field by field *)
Lemma io_complete_spec : forall s more s' l, io_complete s more = (s', l) ->
  will_close s' = will_close s /\ close_when_flushed s' = close_when_flushed s /\
  connected s' = connected s /\ active s' = active s /\ outlog s' = outlog s /\
  next_id s' = next_id s /\ askers s' = askers s /\
  io s' = (if more then IOLoop else IOIdle) /\
  rlock s' = (if more then rlock s else false) /\
  ((exists q, request s = Some q /\ a_completed q = true /\ a_empty q = false /\
      request s' = None /\ sent_continue s' = false /\ requests s' = requests s ++ [q] /\
      queued s' = (if is_nil (requests s) then S (queued s) else queued s)) \/
   (exists q, request s = Some q /\ a_completed q = true /\ a_empty q = true /\
      request s' = None /\ sent_continue s' = false /\ requests s' = requests s /\
      queued s' = queued s) \/
   ((forall q, request s = Some q -> a_completed q = false) /\
      request s' = request s /\ sent_continue s' = sent_continue s /\ requests s' = requests s /\
      queued s' = queued s)).
Proof.
  intros s more s' l H. unfold io_complete in H.
  destruct (request s) as [q|] eqn:Eq.
  - destruct (a_completed q) eqn:Ec.
    + destruct (a_empty q) eqn:Ee; simpl in H.
      * destruct more; inv_some; simpl; repeat split; auto;
          right; left; exists q; repeat split; auto.
      * destruct (requests s) as [|r0 rest] eqn:Er; simpl in H.
        -- destruct more; inv_some; simpl; rewrite ?Er; repeat split; auto;
             left; exists q; simpl; repeat split; auto.
        -- assert (E1 : (length (rest ++ [q]) =? 0) = false).
           { rewrite app_length. simpl. apply Nat.eqb_neq. lia. }
           rewrite E1 in H.
           destruct more; inv_some; simpl; rewrite ?Er; repeat split; auto;
             left; exists q; simpl; repeat split; auto.
    + destruct more; inv_some; simpl; repeat split; auto;
        right; right; repeat split; auto; intros q' Hq'; inversion Hq'; subst; assumption.
  - destruct more; inv_some; simpl; repeat split; auto;
      right; right; repeat split; auto; intros q' Hq'; discriminate.
Qed.

Lemma do_send_spec : forall s w s' l, do_send s w = (s', l) -> forall q, request s = Some q ->
  requests s' = requests s /\ will_close s' = will_close s /\
  close_when_flushed s' = close_when_flushed s /\ connected s' = connected s /\
  rlock s' = rlock s /\ io s' = io s /\ active s' = active s /\ queued s' = queued s /\
  next_id s' = next_id s /\ askers s' = askers s /\
  outlog s' = outlog s ++ [TInterim (rid q) w] /\ sent_continue s' = true /\
  request s' = Some q /\ l = [LInterim (rid q) w].
Proof.
  intros s w s' l H q Hq. unfold do_send in H. rewrite Hq in H.
  inv_some; simpl; repeat split; auto.
Qed.

(* ---- invariant A is inductive ------------------------------------------ *)

Ltac fin := simpl in *; try tauto; try congruence; try lia;
  try (intuition (try congruence; try lia; try discriminate; eauto)).

Ltac openA HA := destruct HA as [A1 A2 A3 A4 A5 A6].

Lemma wk_ok_frame : forall s s' w, wk_ok s w ->
  requests s' = requests s -> rlock s' = rlock s -> io s' = io s -> request s' = request s -> wk_ok s' w.
Proof. intros s s' w H E1 E2 E3 E4. destruct w; simpl in *; rewrite ?E1, ?E2, ?E3, ?E4; auto. Qed.

Lemma wk_ok_requests : forall s s' w, wk_ok s w -> w <> WSend -> requests s' = requests s -> wk_ok s' w.
Proof. intros s s' w H Hn E. destruct w; simpl in *; rewrite ?E; auto. congruence. Qed.

Lemma InvA_CIOEnter : forall s s' l, InvA s -> step s CIOEnter = Some (s', l) -> InvA s'.
Proof.
  intros s s' l HA H. simpl in H.
  destruct (io s) eqn:Eio; try discriminate.
  destruct (rlock s) eqn:Erl; try discriminate.
  destruct (will_close s || close_when_flushed s); inv_some; [assumption|].
  openA HA. rewrite ?Eio, ?Erl in *.
  constructor; simpl; rewrite ?Eio, ?Erl; auto.
  - intros w Hw. specialize (A2 w Hw). destruct w; simpl in *; auto.
    destruct A2 as (? & ? & ? & ?). congruence.
  - split; auto. intros _. left. discriminate.
  - discriminate.
Qed.

Lemma astep_rid : forall q ev q', astep q ev = Some q' -> rid q' = rid q.
Proof.
  intros q ev q' H. unfold astep in H.
  destruct (a_completed q); [destruct ev; inv_some; auto|].
  destruct (a_body q); [destruct ev; inv_some; auto|].
  destruct ev as [|se b| |se b c|c]; inv_some; auto.
  - destruct se; reflexivity.
  - destruct (b || c); inv_some. destruct se; reflexivity.
Qed.

(* the state after the parser call of a loop turn *)
Definition after_parse (s : state) (q1 : areq) (fresh : bool) : state :=
  let s := s <| request := Some q1 |> in
  let s := if fresh then s <| next_id := S (next_id s) |> else s in
  if g_asked q1 then s <| askers := rid q1 :: askers s |> else s.

Lemma after_parse_fields : forall s q1 fresh,
  let s1 := after_parse s q1 fresh in
  request s1 = Some q1 /\ requests s1 = requests s /\ sent_continue s1 = sent_continue s /\
  will_close s1 = will_close s /\ close_when_flushed s1 = close_when_flushed s /\
  connected s1 = connected s /\ rlock s1 = rlock s /\ io s1 = io s /\ active s1 = active s /\
  queued s1 = queued s /\ outlog s1 = outlog s /\
  next_id s1 = (if fresh then S (next_id s) else next_id s) /\
  askers s1 = (if g_asked q1 then rid q1 :: askers s else askers s).
Proof.
  intros. unfold s1, after_parse. destruct fresh; destruct (g_asked q1); simpl; repeat split; auto.
Qed.

Lemma step_parse_inv : forall s ev more s' l, step s (CIOParse ev more) = Some (s', l) ->
  io s = IOLoop /\
  exists q0 fresh q1, (match request s with Some q => q0 = q /\ fresh = false
                       | None => q0 = fresh_req (next_id s) /\ fresh = true end) /\
    astep q0 ev = Some q1 /\
    let s1 := after_parse s q1 fresh in
    ((wants_continue s1 && is_nil (requests s1) = true /\
      s' = s1 <| request := Some (q1 <| a_expect := false |>) |> <| io := IOSend more |>) \/
     (wants_continue s1 && is_nil (requests s1) = false /\
      exists l', io_complete s1 more = (s', l'))).
Proof.
  intros s ev more s' l H. simpl in H.
  destruct (io s); try discriminate. split; [reflexivity|].
  destruct (request s) as [q|] eqn:Er.
  - destruct (astep q ev) as [q1|] eqn:Ea; try discriminate.
    exists q, false, q1. split; [auto|]. split; [assumption|].
    unfold after_parse. simpl.
    match type of H with (if ?c then _ else _) = _ => destruct c eqn:Ew end.
    + left. inv_some. split; [exact Ew|reflexivity].
    + right. split; [exact Ew|].
      match type of H with (let '(_, _) := ?x in _) = _ => destruct x as [s2 l2] eqn:Ec end.
      inv_some. eauto.
  - destruct (astep (fresh_req (next_id s)) ev) as [q1|] eqn:Ea; try discriminate.
    exists (fresh_req (next_id s)), true, q1. split; [auto|]. split; [assumption|].
    unfold after_parse. simpl.
    match type of H with (if ?c then _ else _) = _ => destruct c eqn:Ew end.
    + left. inv_some. split; [exact Ew|reflexivity].
    + right. split; [exact Ew|].
      match type of H with (let '(_, _) := ?x in _) = _ => destruct x as [s2 l2] eqn:Ec end.
      inv_some. eauto.
Qed.

Lemma InvA_CIOParse : forall s ev more s' l, InvA s -> step s (CIOParse ev more) = Some (s', l) -> InvA s'.
Proof.
  intros s ev more s' l HA H.
  destruct (step_parse_inv _ _ _ _ _ H) as (Eio & q0 & fresh & q1 & Hq0 & Ha & Hcase). clear H.
  pose proof (astep_rid _ _ _ Ha) as Hrid.
  pose proof (after_parse_fields s q1 fresh) as F. cbv zeta in F, Hcase.
  set (s1 := after_parse s q1 fresh) in *.
  destruct F as (F1 & F2 & F3 & F4 & F5 & F6 & F7 & F8 & F9 & F10 & F11 & F13 & F14).
  openA HA.
  assert (Hrl : rlock s = true). { apply A4. left. rewrite Eio. discriminate. }
  assert (Hns : ~ In WSend (active s)).
  { intros Hin. specialize (A2 _ Hin). simpl in A2. destruct A2 as (_ & _ & A2 & _). congruence. }
  (* ids of s1 *)
  assert (Hids1 : asc (requests s) (rid q1) /\ rid q1 < next_id s1).
  { rewrite F13. destruct (request s) as [q|]; destruct Hq0 as [E1 E2]; rewrite E2, Hrid, E1.
    - assumption.
    - simpl. split; [assumption|lia]. }
  destruct Hcase as [[Hw ->]|[Hw [l' Hc]]].
  - (* goes to IOSend *)
    apply andb_true_iff in Hw. destruct Hw as [_ Hnil]. rewrite F2 in Hnil.
    constructor; simpl; rewrite ?F2, ?F7, ?F8, ?F9, ?F10; auto.
    + intros w Hw. apply wk_ok_requests with s; [apply A2; assumption|congruence|simpl; assumption].
    + rewrite Hrl. split; auto. intros _. left. discriminate.
    + intros m _. split; [|eauto]. destruct (requests s); [reflexivity|discriminate].
  - pose proof (io_complete_spec _ _ _ _ Hc) as S.
    destruct S as (S1 & S2 & S3 & S4 & S5 & S6 & S8 & S9 & S10 & S11).
    assert (Hlock' : rlock s' = true <-> io s' <> IOIdle \/ In WSend (active s')).
    { rewrite S9, S10, S4, F9, F7. destruct more.
      - rewrite Hrl. split; auto. intros _. left. discriminate.
      - split; [discriminate|]. intros [?|?]; [congruence|tauto]. }
    assert (Hios : forall m, io s' = IOSend m -> requests s' = [] /\ exists q, request s' = Some q).
    { intros m. rewrite S9. destruct more; discriminate. }
    destruct S11 as [(q & Sq & Sc & Se & Sr & Ssc & Srs & Sqd)|[(q & Sq & Sc & Se & Sr & Ssc & Srs & Sqd)|(Sc & Sr & Ssc & Srs & Sqd)]].
    + (* queued *)
      rewrite F1 in Sq. inv_some. rewrite F2 in Srs, Sqd. rewrite F10 in Sqd.
      constructor; auto.
      * rewrite S4, F9, Sqd. destruct (requests s) eqn:Ers; simpl; [|assumption].
        (* requests were empty: no worker, nothing queued *)
        destruct (active s) as [|w0 ?] eqn:Eact; simpl.
        -- destruct (queued s) eqn:Eqd; [lia|]. exfalso. apply A3; [lia|reflexivity].
        -- exfalso. specialize (A2 w0 (or_introl eq_refl)).
           destruct w0; simpl in A2; try congruence.
           ++ destruct A2 as (? & ? & ? & ?); congruence.
           ++ apply Hns. left. reflexivity.
      * rewrite S4, F9. intros w Hw0. assert (Hnw : w <> WSend) by congruence.
        specialize (A2 w Hw0).
        destruct w; simpl in *; rewrite ?Srs; try (destruct (requests s); simpl; congruence).
        destruct A2 as (r & rest & E1 & E2). rewrite E1. simpl. eauto.
      * intros _. rewrite Srs. destruct (requests s); simpl; discriminate.
      * rewrite Sr, Srs, S6. destruct Hids1 as [I1 I2]. apply asc_snoc; assumption.
    + rewrite F1 in Sq. inv_some. rewrite F2 in Srs. rewrite F10 in Sqd.
      constructor; auto.
      * rewrite S4, F9, Sqd. assumption.
      * rewrite S4, F9. intros w Hw0.
        apply wk_ok_requests with s; [apply A2; assumption|congruence|assumption].
      * rewrite Sqd, Srs. assumption.
      * rewrite Sr, Srs, S6. destruct Hids1 as [I1 I2]. eapply asc_weaken; [eassumption|lia].
    + rewrite F1 in Sr. rewrite F2 in Srs. rewrite F10 in Sqd.
      constructor; auto.
      * rewrite S4, F9, Sqd. assumption.
      * rewrite S4, F9. intros w Hw0.
        apply wk_ok_requests with s; [apply A2; assumption|congruence|assumption].
      * rewrite Sqd, Srs. assumption.
      * rewrite Sr, Srs, S6. assumption.
Qed.

Lemma InvA_CIOSend : forall s s' l, InvA s -> step s CIOSend = Some (s', l) -> InvA s'.
Proof.
  intros s s' l HA H. simpl in H.
  destruct (io s) as [| |more] eqn:Eio; try discriminate.
  destruct (do_send s false) as [s1 l1] eqn:Ed.
  destruct (io_complete s1 more) as [s2 l2] eqn:Ec. inv_some.
  openA HA.
  destruct (A6 more Eio) as [Ers [q Eq]].
  pose proof (do_send_spec _ _ _ _ Ed q Eq) as D.
  destruct D as (D1 & D2 & D3 & D4 & D5 & D6 & D7 & D8 & D9 & D10 & D11 & D12 & D13 & D14).
  pose proof (io_complete_spec _ _ _ _ Ec) as S.
  destruct S as (S1 & S2 & S3 & S4 & S5 & S6 & S8 & S9 & S10 & S11).
  assert (Hrl : rlock s = true). { apply A4. left. rewrite Eio. discriminate. }
  assert (Hns : ~ In WSend (active s)).
  { intros Hin. specialize (A2 _ Hin). simpl in A2. destruct A2 as (_ & _ & A2 & _). congruence. }
  assert (Hact : active s = []).
  { destruct (active s) as [|w0 ?] eqn:Eact; [reflexivity|]. exfalso.
    specialize (A2 w0 (or_introl eq_refl)). destruct w0; simpl in A2; try congruence.
    - destruct A2 as (? & ? & ? & ?); congruence.
    - apply Hns. left. reflexivity. }
  assert (Hqd : queued s = 0).
  { destruct (queued s) eqn:E; [reflexivity|]. exfalso. apply A3; [lia|assumption]. }
  rewrite Eq in A5. destruct A5 as [I1 I2].
  assert (Hlock' : rlock s' = true <-> io s' <> IOIdle \/ In WSend (active s')).
  { rewrite S9, S10, S4, D7, D5, Hact. destruct more.
    - rewrite Hrl. split; auto. intros _. left. discriminate.
    - split; [discriminate|]. intros [?|?]; [congruence|simpl in *; tauto]. }
  assert (Hios : forall m, io s' = IOSend m -> requests s' = [] /\ exists q, request s' = Some q).
  { intros m. rewrite S9. destruct more; discriminate. }
  destruct S11 as [(q' & Sq & Sc & Se & Sr & Ssc & Srs & Sqd)|[(q' & Sq & Sc & Se & Sr & Ssc & Srs & Sqd)|(Sc & Sr & Ssc & Srs & Sqd)]].
  - (* the request was complete at the end of its header block: queued now *)
    rewrite D13 in Sq. inv_some. rewrite D1, Ers in Srs, Sqd. simpl in Srs, Sqd.
    constructor; auto.
    + rewrite S4, D7, Sqd, D8, Hact, Hqd. simpl. lia.
    + rewrite S4, D7, Hact. simpl. tauto.
    + rewrite Srs. discriminate.
    + rewrite Sr, Srs, S6, D9. simpl. split; [assumption|exact I].
  - rewrite D13 in Sq. inv_some. rewrite D1, Ers in Srs.
    constructor; auto.
    + rewrite S4, D7, Sqd, D8. assumption.
    + rewrite S4, D7, Hact. simpl. tauto.
    + rewrite Sqd, D8, Hqd. lia.
    + rewrite Sr, Srs, S6, D9. simpl. exact I.
  - constructor; auto.
    + rewrite S4, D7, Sqd, D8. assumption.
    + rewrite S4, D7, Hact. simpl. tauto.
    + rewrite Sqd, D8, Hqd. lia.
    + rewrite Sr, D13, Srs, D1, S6, D9. simpl. split; assumption.
Qed.

Lemma InvA_CTake : forall s s' l, InvA s -> step s CTake = Some (s', l) -> InvA s'.
Proof.
  intros s s' l HA H. simpl in H.
  destruct (queued s) as [|k] eqn:Eq; try discriminate. inv_some.
  openA HA.
  assert (Hact : active s = []).
  { destruct (active s); [reflexivity|]. simpl in A1. lia. }
  assert (Hk : k = 0) by (rewrite Hact in A1; simpl in A1; lia). subst k.
  constructor; simpl; rewrite ?Hact; simpl; auto.
  - intros w [<-|[]]. simpl. apply A3. lia.
  - lia.
  - rewrite A4, Hact. simpl. split; intros [?|?]; auto; try tauto. destruct H as [?|[]]. discriminate.
Qed.

Lemma InvA_worker_pc : forall s w w', InvA s -> active s = [w] -> w <> WSend -> w' <> WSend ->
  wk_ok s w' -> InvA (s <| active := [w'] |>).
Proof.
  intros s w w' HA Hact Hn Hn' Hok. openA HA.
  constructor; simpl; auto.
  - rewrite Hact in A1. simpl in *. assumption.
  - intros x [<-|[]]. destruct w'; simpl in *; auto; try congruence.
  - rewrite A4, Hact. simpl. split; intros [?|[?|[]]]; auto; congruence.
Qed.

Lemma InvA_worker_gone : forall s s' w, InvA s -> active s = [w] ->
  active s' = [] -> queued s' <= 1 -> (queued s' >= 1 -> requests s' <> []) ->
  io s' = io s -> rlock s' = (if match w with WSend => true | _ => false end then false else rlock s) ->
  request s' = request s \/ (exists q q', request s = Some q /\ request s' = Some q' /\ rid q' = rid q) ->
  next_id s' = next_id s ->
  (requests s' = requests s \/ requests s' = tl (requests s) \/ requests s' = []) ->
  InvA s'.
Proof.
  intros s s' w HA Hact Hact' Hq1 Hq2 Hio Hrl Hreq Hnid Hrs. openA HA.
  assert (Hwk : wk_ok s w) by (apply A2; rewrite Hact; left; reflexivity).
  assert (Hasc : forall hi, asc (requests s) hi -> asc (requests s') hi).
  { intros hi Ha. destruct Hrs as [->|[->| ->]]; auto.
    - destruct (requests s) as [|r rest]; simpl; auto. apply asc_tail in Ha. tauto.
    - simpl. exact I. }
  constructor; auto.
  - rewrite Hact'. simpl. assumption.
  - rewrite Hact'. simpl. tauto.
  - rewrite Hrl, Hio, Hact'. destruct w; simpl in *;
      try (rewrite A4, Hact; simpl; split; intros [?|?]; auto; try tauto; destruct H as [?|[]]; discriminate).
    destruct Hwk as (_ & _ & E & _). rewrite E. split; [discriminate|]. intros [?|[]]. congruence.
  - rewrite Hnid. destruct Hreq as [->|(q & q' & E1 & E2 & E3)].
    + destruct (request s); [destruct A5; split; auto|auto].
    + rewrite E2, E3. rewrite E1 in A5. destruct A5. split; auto.
  - intros m Em. rewrite Hio in Em. exfalso.
    assert (rlock s = true) by (apply A4; left; congruence).
    destruct (A6 m Em) as [Ers _].
    destruct w; simpl in Hwk; try congruence.
    + destruct Hwk as (? & ? & ? & ?); congruence.
    + destruct Hwk as (_ & _ & E & _). congruence.
Qed.

Lemma worker_at : forall s i w, InvA s -> nth_error (active s) i = Some w ->
  active s = [w] /\ i = 0 /\ queued s = 0.
Proof.
  intros s i w HA H. destruct (active_shape s HA) as [E|(w0 & E & Q)]; rewrite E in H.
  - destruct i; discriminate.
  - apply nth_error_single in H. destruct H as [-> ->]. auto.
Qed.

Lemma InvA_frame : forall s s', InvA s ->
  request s' = request s -> requests s' = requests s -> rlock s' = rlock s -> io s' = io s ->
  active s' = active s -> queued s' = queued s -> next_id s' = next_id s -> InvA s'.
Proof.
  intros s s' HA E1 E2 E3 E4 E5 E6 E7. openA HA.
  constructor; rewrite ?E1, ?E2, ?E3, ?E4, ?E5, ?E6, ?E7; auto.
  intros w Hw. specialize (A2 w Hw). destruct w; simpl in *; rewrite ?E1, ?E2, ?E3, ?E4; auto.
Qed.

Lemma InvA_CWBegin : forall s i s' l, InvA s -> step s (CWBegin i) = Some (s', l) -> InvA s'.
Proof.
  intros s i s' l HA H. simpl in H.
  destruct (nth_error (active s) i) as [w|] eqn:En; try discriminate.
  destruct w; try discriminate.
  destruct (worker_at _ _ _ HA En) as (Hact & -> & Hq).
  destruct (requests s) as [|r rest] eqn:Er; inv_some; rewrite Hact; simpl.
  - eapply InvA_worker_gone with (s := s); eauto; simpl; try lia; try tauto.
  - eapply InvA_worker_pc; eauto; try congruence. simpl. eauto.
Qed.

Lemma InvA_CWWrite : forall s i s' l, InvA s -> step s (CWWrite i) = Some (s', l) -> InvA s'.
Proof.
  intros s i s' l HA H. simpl in H.
  destruct (nth_error (active s) i) as [w|] eqn:En; try discriminate.
  destruct w; try discriminate. inv_some.
  eapply InvA_frame; eauto.
Qed.

Lemma InvA_CWEnd : forall s i c s' l, InvA s -> step s (CWEnd i c) = Some (s', l) -> InvA s'.
Proof.
  intros s i c s' l HA H. simpl in H.
  destruct (nth_error (active s) i) as [w|] eqn:En; try discriminate.
  destruct w; try discriminate. inv_some.
  destruct (worker_at _ _ _ HA En) as (Hact & -> & Hq). rewrite Hact. simpl.
  assert (Hr : requests s <> []).
  { pose proof (A_wk s HA (WTask id)) as W. rewrite Hact in W. specialize (W (or_introl eq_refl)).
    simpl in W. destruct W as (r & rest & E & _). congruence. }
  destruct c; eapply InvA_worker_pc; eauto; try congruence.
Qed.

Lemma InvA_CWClose : forall s i s' l, InvA s -> step s (CWClose i) = Some (s', l) -> InvA s'.
Proof.
  intros s i s' l HA H. simpl in H.
  destruct (nth_error (active s) i) as [w|] eqn:En; try discriminate.
  destruct w; try discriminate.
  destruct (rlock s) eqn:Erl; try discriminate. inv_some.
  destruct (worker_at _ _ _ HA En) as (Hact & -> & Hq).
  eapply InvA_worker_gone with (s := s) (w := WClose); eauto; simpl; rewrite ?Hact; simpl; auto; try lia.
Qed.

Lemma InvA_CDisconnect : forall s s' l, InvA s -> step s CDisconnect = Some (s', l) -> InvA s'.
Proof.
  intros s s' l HA H. simpl in H. destruct (io s); try discriminate. inv_some.
  eapply InvA_frame; eauto.
Qed.

Lemma InvA_CWillClose : forall s s' l, InvA s -> step s CWillClose = Some (s', l) -> InvA s'.
Proof.
  intros s s' l HA H. simpl in H. inv_some. eapply InvA_frame; eauto.
Qed.

Lemma InvA_CWKeep : forall s i s' l, InvA s -> step s (CWKeep i) = Some (s', l) -> InvA s'.
Proof.
  intros s i s' l HA H. simpl in H.
  destruct (nth_error (active s) i) as [w|] eqn:En; try discriminate.
  destruct w; try discriminate.
  destruct (rlock s) eqn:Erl; try discriminate.
  destruct (worker_at _ _ _ HA En) as (Hact & -> & Hq).
  assert (Hio : io s = IOIdle).
  { destruct (io s) eqn:E; auto; exfalso;
      assert (rlock s = true) by (apply (A_lock s HA); left; congruence); congruence. }
  destruct (requests s) as [|r rest] eqn:Er.
  { inv_some. eapply InvA_worker_gone with (s := s) (w := WKeep); eauto; simpl; rewrite ?Hact; simpl; auto; try lia. }
  cbn [connected requests request sent_continue set eta_state] in H.
  destruct (connected s && negb (is_nil rest)) eqn:Ec.
  - inv_some. apply andb_true_iff in Ec. destruct Ec as [_ Ec].
    eapply InvA_worker_gone with (s := s) (w := WKeep); eauto; simpl; rewrite ?Hact, ?Er, ?Hq; simpl; auto.
    intros _. destruct rest; [discriminate|congruence].
  - destruct (connected s && wants_continue (s <| requests := rest |>)) eqn:Ew.
    + destruct (request s) as [q|] eqn:Eq; try discriminate. inv_some.
      apply andb_true_iff in Ew. destruct Ew as [Econ _]. rewrite Econ in Ec. simpl in Ec.
      assert (rest = []) by (destruct rest; [reflexivity|discriminate]). subst rest.
      pose proof HA as HA'. openA HA.
      constructor; simpl; rewrite ?Hact, ?Hq, ?Hio; simpl; auto.
      * intros w [<-|[]]. simpl. rewrite Hio. eauto.
      * intros ?. lia.
      * split; auto.
      * rewrite Eq in A5. destruct A5. split; [exact I|assumption].
      * discriminate.
    + inv_some.
      eapply InvA_worker_gone with (s := s) (w := WKeep); eauto; simpl; rewrite ?Hact, ?Er, ?Hq; simpl; auto; try lia.
Qed.

Lemma InvA_CWSend : forall s i s' l, InvA s -> step s (CWSend i) = Some (s', l) -> InvA s'.
Proof.
  intros s i s' l HA H. simpl in H.
  destruct (nth_error (active s) i) as [w|] eqn:En; try discriminate.
  destruct w; try discriminate.
  destruct (do_send s true) as [s1 l1] eqn:Ed. inv_some.
  destruct (worker_at _ _ _ HA En) as (Hact & -> & Hq).
  pose proof (A_wk s HA WSend) as W. rewrite Hact in W. specialize (W (or_introl eq_refl)).
  simpl in W. destruct W as (Ers & Erl & Eio & q & Eq).
  pose proof (do_send_spec _ _ _ _ Ed q Eq) as D.
  destruct D as (D1 & D2 & D3 & D4 & D5 & D6 & D7 & D8 & D9 & D10 & D11 & D12 & D13 & D14).
  eapply InvA_worker_gone with (s := s) (w := WSend); eauto; simpl; rewrite ?D7, ?Hact, ?D8, ?Hq; simpl; auto; try lia.
  right. exists q. eexists. split; [eassumption|]. split; [eassumption|reflexivity].
Qed.

Theorem InvA_step : forall s c s' l, InvA s -> step s c = Some (s', l) -> InvA s'.
Proof.
  intros s c s' l HA H. destruct c.
  - eapply InvA_CIOEnter; eauto.
  - eapply InvA_CIOParse; eauto.
  - eapply InvA_CIOSend; eauto.
  - eapply InvA_CTake; eauto.
  - eapply InvA_CWBegin; eauto.
  - eapply InvA_CWWrite; eauto.
  - eapply InvA_CWEnd; eauto.
  - eapply InvA_CWClose; eauto.
  - eapply InvA_CWKeep; eauto.
  - eapply InvA_CWSend; eauto.
  - eapply InvA_CDisconnect; eauto.
  - eapply InvA_CWillClose; eauto.
Qed.
