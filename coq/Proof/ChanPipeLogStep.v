(* Proof/ChanPipeLogStep.v -- layer L2 is preserved by every step. *)
From Coq Require Import List Arith Bool ZArith Lia.
From WV Require Import Model.ChanPipe Proof.ChanPipeBase Proof.ChanPipeOwn Proof.ChanPipeLog
                       Proof.ChanPipeLogStepIo Proof.ChanPipeLogStepWk.
Import ListNotations.

Theorem L2_step : forall P st c st' l, L0 st -> L1 st -> L2 st -> step P st c = Some (st', l) -> L2 st'.
Proof.
  intros P st c st' l HL0 HL1 HL2 Hs. destruct c as [e | me e].
  - eapply L2_step_io; eauto.
  - eapply L2_step_wk; eauto.
Qed.
