(* C03: closed instances and the refutation witnesses. *)
From Coq Require Import String.
From Coq Require Import List NArith ZArith Bool Lia Arith Permutation.
From WV Require Import Lib.PyBytes Gen.GenTables Model.Task Spec.ClientParse
  Proof.TaskHead Proof.TaskStart Proof.TaskRun Proof.TaskChunk Proof.TaskClient Proof.TaskOracle
  Proof.TaskC08 Proof.TaskC09 Proof.TaskFrame Proof.TaskBody Proof.TaskSimple Proof.TaskFrameClient Proof.TaskFrameEnd.
Import ListNotations.
Local Open Scope N_scope.

Lemma py_cap_connection : py_cap (lit "Connection") = lit "Connection".
Proof. reflexivity. Qed.
Lemma py_cap_te : beqb (py_cap (lit "Transfer-Encoding")) (lit "Connection") = false.
Proof. reflexivity. Qed.

(* typical application header names are plain *)
Example plain_examples :
  plain_fields py_cap [(lit "content-type", lit "text/plain"); (lit "X-Custom-header", lit "1");
                       (lit "Set-Cookie", lit "a=b"); (lit "ETag", lit "W/x"); (lit "Server", lit "app")].
Proof. unfold plain_fields, plain_name. repeat constructor. Qed.

(* ---- the three classes repaired in /repo, as instances ------------------------- *)

(* HEAD on HTTP/1.1 without Content-Length: nothing follows the head
   (before b49920f: "0\r\n\r\n") *)
Definition head_req : req := mkReq (lit "1.1") None true false None.
Definition empty_app : app :=
  mkApp [AStart (PStr (lit "200 OK")) [] None] (KSized 0) [] false None.

Lemma head_nothing_left :
  let res := run_task sample_cfg head_req empty_app None in
  exists resp, parse_stream [true] (wire (o_writes res)) = ([resp], [])
               /\ rs_framing resp = FNoBody.
Proof. vm_compute. eexists. split; reflexivity. Qed.

(* error responses to HTTP/1.0 keep-alive requests: Connection: close only
   (before 766d449 also Connection: Keep-Alive) *)
Definition ka10_req : req := mkReq (lit "1.0") (Some (lit "Keep-Alive")) false false None.
Definition failing_app : app := mkApp [ARaise AppException] KGen [] false None.

Lemma error_single_connection_field :
  let res := run_task sample_cfg ka10_req failing_app None in
  exists resp, parse_stream [false] (wire (o_writes res)) = ([resp], [])
               /\ filter (field_is (lit "connection")) (rs_fields resp) = [(lit "Connection", lit "close")]
               /\ o_close res = true.
Proof. vm_compute. eexists. split; [reflexivity|]. split; reflexivity. Qed.

(* write() and then a file wrapper: the file is iterated and framed like any
   other iterable (before 5ee3173 it was handed over raw after the head) *)
Definition write_then_file_app : app :=
  mkApp [AStart (PStr (lit "200 OK")) [] None; AWrite (lit "x")] (KFile true)
        [mkStep [] (SYield (lit "abcdef"))] true None.

Lemma write_then_file_framed :
  let res := run_task sample_cfg sample_req write_then_file_app None in
  o_raw res = None /\ o_handover res = false /\ o_closes res = 1%nat
  /\ exists resp, parse_stream [false] (wire (o_writes res)) = ([resp], [])
                  /\ rs_framing resp = FChunked /\ rs_body resp = lit "xabcdef".
Proof. vm_compute. repeat split; try reflexivity. eexists. repeat split; reflexivity. Qed.

(* the decision table's hypotheses are satisfiable: a kept-alive HTTP/1.1 response *)
Definition cl_app : app :=
  mkApp [AStart (PStr (lit "200 OK")) [(PStr (lit "Content-Length"), PStr (lit "5"))] None] KGen
        [mkStep [] (SYield (lit "hello"))] true None.

Example kept_alive_example :
  let res := run_task sample_cfg sample_req cl_app None in
  o_next res = true /\ o_close res = false
  /\ exists resp, parse_stream [false] (wire (o_writes res)) = ([resp], [])
                  /\ rs_body resp = lit "hello" /\ rs_framing resp = FLength 5.
Proof. vm_compute. repeat split; try reflexivity. eexists. repeat split; reflexivity. Qed.

Lemma py_cap_cl : beqb (py_cap (lit "Content-Length")) (lit "Connection") = false.
Proof. reflexivity. Qed.

(* the hypotheses of the declared-length frame theorem are satisfiable *)
Example frame_len_hypotheses :
  beqb (py_lower (lit "Content-Length")) (lit "content-length") = true
  /\ py_int (lit "5") = Some 5%Z /\ all_digits (lit "5") = true /\ Z.of_N (dec_value (lit "5")) = 5%Z
  /\ norm_name py_cap (lit "content-LENGTH") = lit "Content-Length"
  /\ Z.of_nat (length (concat [lit "he"; []; lit "llo"])) = 5%Z.
Proof. repeat split; reflexivity. Qed.
