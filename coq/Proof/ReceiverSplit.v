(* The chunked receiver does not depend on how its input is cut: feeding one
   byte and then the rest is the same as feeding everything at once -- exactly
   (state and consumed count) unless the byte itself raises an error, in which
   case both runs end with that same error.  The fixed receiver likewise. *)
From Coq Require Import List NArith ZArith Bool Lia Arith.
From WV Require Import Lib.PyBytes Lib.Regex Gen.GenRegex Model.Receiver Proof.PyBytesFacts
  Proof.ReceiverTotal.
Import ListNotations.

(* fuel-free view of the loop *)
Definition run (st : chunked_rcv) (s : bytes) (o : Z) (r : chunked_rcv * Z) : Prop :=
  exists f, chunked_loop f st s o = Some r.

Lemma run_det st s o r1 r2 : run st s o r1 -> run st s o r2 -> r1 = r2.
Proof.
  intros [f1 H1] [f2 H2].
  apply (loop_fuel_mono _ (Nat.max f1 f2)) in H1; [|lia].
  apply (loop_fuel_mono _ (Nat.max f1 f2)) in H2; [|lia]. congruence.
Qed.

Lemma run_total st s o : exists r, run st s o r.
Proof.
  destruct (chunked_loop (S (M st s)) st s o) as [r|] eqn:E.
  - exists r, (S (M st s)). exact E.
  - exfalso. revert E. apply loop_some. lia.
Qed.

Lemma run_nil st o r : run st [] o r <-> r = (st, o).
Proof.
  split.
  - intros [f H]. destruct f; simpl in H; congruence.
  - intros ->. exists 0. reflexivity.
Qed.

Lemma run_cons st x s o r :
  run st (x :: s) o r <->
  match chunked_iter st (x :: s) o with
  | Continue st' s' => run st' s' o r
  | Break st' => r = (st', o)
  | Return st' v => r = (st', v)
  end.
Proof.
  split.
  - intros [f H]. destruct f; [discriminate|]. cbn [chunked_loop] in H.
    destruct (chunked_iter st (x :: s) o); try congruence. exists f; auto.
  - intros H. destruct (chunked_iter st (x :: s) o) eqn:E.
    + destruct H as [f H]. exists (S f). cbn [chunked_loop]. now rewrite E.
    + exists 1. cbn [chunked_loop]. rewrite E. congruence.
    + exists 1. cbn [chunked_loop]. rewrite E. congruence.
Qed.

Lemma received_run st s r : c_completed st = false ->
  (chunked_received st s = Some r <-> run st s (Z.of_nat (length s)) r).
Proof.
  intros Hc. unfold chunked_received. rewrite Hc. split.
  - intros H. eexists; eauto.
  - intros H. destruct (chunked_loop (chunked_fuel st s) st s (Z.of_nat (length s))) as [r'|] eqn:E.
    + f_equal. eapply run_det; eauto. eexists; eauto.
    + exfalso. revert E. apply loop_some. unfold M, chunked_fuel. destruct (validate_chunk_end st); lia.
Qed.

(* the length of the call's data only shifts the result *)
Lemma iter_shift st s o k :
  chunked_iter st s (o + k) =
  match chunked_iter st s o with
  | Continue a b => Continue a b
  | Break a => Break a
  | Return a v => Return a (v + k)
  end.
Proof.
  unfold chunked_iter.
  repeat match goal with
  | |- context [if ?c then _ else _] => destruct c
  | |- context [match ?c with _ => _ end] => destruct c
  end; try reflexivity; f_equal; lia.
Qed.

Lemma loop_shift f k : forall st s o st' n,
  chunked_loop f st s o = Some (st', n) -> chunked_loop f st s (o + k) = Some (st', (n + k)%Z).
Proof.
  induction f as [|f IH]; intros st s o st' n H.
  - destruct s; simpl in *; congruence.
  - destruct s as [|x s]; [simpl in *; congruence|].
    cbn [chunked_loop] in *. rewrite iter_shift.
    destruct (chunked_iter st (x :: s) o); try congruence. apply IH; auto.
Qed.

Lemma run_shift st s o k st' n : run st s o (st', n) -> run st s (o + k) (st', (n + k)%Z).
Proof. intros [f H]. exists f. apply loop_shift; auto. Qed.

(* ------------------------------------------------------------------ *)
(* storing the unfinished piece and prepending it on the next call is the
   same as seeing the concatenation *)


Lemma iter_store_control st x y o :
  chunk_remainder st = 0%N -> validate_chunk_end st = false -> all_chunks_received st = false ->
  chunked_iter (set_control st (control_line st ++ x)) y o = chunked_iter st (x ++ y) o.
Proof.
  intros H1 H2 H3. destruct st. rsimpl. subst.
  unfold chunked_iter. rsimpl. cbn [N.ltb N.compare negb]. rewrite <- app_assoc. reflexivity.
Qed.

Lemma iter_store_chunk_end st x y o :
  chunk_remainder st = 0%N -> validate_chunk_end st = true ->
  chunked_iter (set_chunk_end st (chunk_end st ++ x)) y o = chunked_iter st (x ++ y) o.
Proof.
  intros H1 H2. destruct st. rsimpl. subst.
  unfold chunked_iter. rsimpl. cbn [N.ltb N.compare negb]. rewrite <- app_assoc. reflexivity.
Qed.



(* data branch *)
Lemma iter_data_one st b s o : chunk_remainder st = 1%N ->
  chunked_iter st (b :: s) o = Continue (set_validate (set_rem (buf_append st [b]) 0) true) s.
Proof.
  intros H. unfold chunked_iter. rewrite H. reflexivity.
Qed.

Lemma iter_data_more_1 st b o : (1 < chunk_remainder st)%N ->
  chunked_iter st [b] o = Continue (set_rem (buf_append st [b]) (chunk_remainder st - 1)) [].
Proof.
  intros H. unfold chunked_iter.
  destruct (0 <? chunk_remainder st)%N eqn:E; [|apply N.ltb_ge in E; lia].
  assert (Hn : N.to_nat (chunk_remainder st) = S (N.to_nat (chunk_remainder st - 1))) by lia.
  rewrite Hn. cbn [firstn]. rewrite firstn_nil. cbn [length skipn]. rsimpl.
  change (lenN [b]) with 1%N.
  destruct (chunk_remainder st - 1 =? 0)%N eqn:E2; [apply N.eqb_eq in E2; lia|]. reflexivity.
Qed.

Lemma iter_data_more st b s o : (1 < chunk_remainder st)%N ->
  chunked_iter st (b :: s) o
  = chunked_iter (set_rem (buf_append st [b]) (chunk_remainder st - 1)) s o.
Proof.
  intros H. unfold chunked_iter at 1.
  destruct (0 <? chunk_remainder st)%N eqn:E; [|apply N.ltb_ge in E; lia].
  assert (Hn : N.to_nat (chunk_remainder st) = S (N.to_nat (chunk_remainder st - 1))) by lia.
  rewrite Hn. cbn [firstn length skipn].
  unfold chunked_iter. rsimpl.
  destruct (0 <? chunk_remainder st - 1)%N eqn:E3; [|apply N.ltb_ge in E3; lia].
  rewrite lenN_cons. rewrite <- app_assoc. cbn [app].
  rewrite N.sub_add_distr. reflexivity.
Qed.


(* equality of receiver states up to the [trailer] field of a completed receiver
   (a "no trailer" completion keeps whatever piece was stored before) *)
Definition ceq (a b : chunked_rcv) : Prop :=
  (c_completed a = false /\ a = b) \/
  (c_completed a = true /\ set_trailer a [] = set_trailer b []).

Lemma ceq_refl a : ceq a a.
Proof. destruct (c_completed a) eqn:E; [right | left]; auto. Qed.

Lemma iter_store_trailer st x y o :
  chunk_remainder st = 0%N -> validate_chunk_end st = false -> all_chunks_received st = true ->
  match chunked_iter (set_trailer st (trailer st ++ x)) y o, chunked_iter st (x ++ y) o with
  | Continue a r, Continue a' r' => a = a' /\ r = [] /\ r' = []
  | Return a v, Return a' v' => v = v' /\ c_completed a = true /\ set_trailer a [] = set_trailer a' []
  | _, _ => False
  end.
Proof.
  intros H1 H2 H3. destruct st. rsimpl. subst.
  unfold chunked_iter. rsimpl. cbn [N.ltb N.compare negb]. rewrite <- app_assoc.
  destruct (startswith (trailer ++ x ++ y) CRLF).
  - rsimpl. auto.
  - destruct (find_double_newline (trailer ++ x ++ y)); rsimpl; auto.
Qed.

(* control line completed inside x: what follows is appended to the rest *)
Lemma iter_control_found st x y o pos :
  chunk_remainder st = 0%N -> validate_chunk_end st = false -> all_chunks_received st = false ->
  find (control_line st ++ x) CRLF = Some pos ->
  chunked_iter st (x ++ y) o =
  match chunked_iter st x o with
  | Continue a r => Continue a (r ++ y)
  | Break a => Break a
  | Return a v => Return a v
  end.
Proof.
  intros H1 H2 H3 Hf. unfold chunked_iter. rewrite H1, H2, H3. cbn [N.ltb N.compare negb].
  rewrite app_assoc. rewrite (find_app_l _ y _ _ Hf), Hf.
  rewrite (firstn_app_find _ y _ _ Hf).
  pose proof (skipn_app_find _ y _ _ Hf) as Hs. cbn [length CRLF] in Hs. rewrite Hs.
  destruct (firstn pos (control_line st ++ x)); auto.
  destruct (control_line_verdict _); auto. destruct (0 <? sz)%N; auto.
Qed.

(* trailer finished inside x *)
Lemma iter_trailer_return st x y o a v :
  chunk_remainder st = 0%N -> validate_chunk_end st = false -> all_chunks_received st = true ->
  chunked_iter st x o = Return a v ->
  chunked_iter st (x ++ y) (o + Z.of_nat (length y)) = Return a v.
Proof.
  intros H1 H2 H3. unfold chunked_iter. rewrite H1, H2, H3. cbn [N.ltb N.compare negb].
  rewrite app_assoc.
  destruct (startswith (trailer st ++ x) CRLF) eqn:Hsw.
  - rewrite (startswith_app _ y _ Hsw). intros H; injection H as <- <-. f_equal.
    rewrite !app_length, !Nat2Z.inj_add. lia.
  - destruct (find_double_newline (trailer st ++ x)) as [p|] eqn:Hd; [|discriminate].
    apply fdn_Some in Hd as (i & Hi & ->).
    pose proof (find_bound _ _ _ Hi) as B. change (length CRLFCRLF) with 4 in B.
    rewrite startswith_app_long by (change (length CRLF) with 2; lia). rewrite Hsw.
    unfold find_double_newline. rewrite (find_app_l _ y _ _ Hi).
    rewrite (firstn_app_le (i + 4) (trailer st ++ x) y) by lia.
    intros H; injection H as <- <-. f_equal. rewrite !app_length, !Nat2Z.inj_add. lia.
Qed.

(* an error, once set, stays: the receiver is then in the trailer phase *)
Lemma loop_error_kept f : forall st s o st' n e,
  chunk_remainder st = 0%N -> validate_chunk_end st = false -> all_chunks_received st = true ->
  c_error st = Some e -> chunked_loop f st s o = Some (st', n) -> c_error st' = Some e.
Proof.
  induction f as [|f IH]; intros st s o st' n e H1 H2 H3 He H.
  - destruct s; simpl in H; congruence.
  - destruct s as [|x s]; [simpl in H; congruence|].
    cbn [chunked_loop] in H. unfold chunked_iter in H. rewrite H1, H2, H3 in H.
    cbn [N.ltb N.compare negb] in H.
    destruct (startswith (trailer st ++ x :: s) CRLF).
    + injection H as <- <-. rsimpl. auto.
    + destruct (find_double_newline (trailer st ++ x :: s)).
      * injection H as <- <-. rsimpl. auto.
      * destruct f; simpl in H; injection H as <- <-; rsimpl; auto.
Qed.


Lemma find1_CRLF b : find [b] CRLF = None.
Proof. unfold find, CRLF. cbn. rewrite andb_false_r. reflexivity. Qed.

Lemma find2_CRLF c b : find [c; b] CRLF = if ((13 =? c) && (10 =? b))%N then Some 0 else None.
Proof.
  unfold find, CRLF. cbn. rewrite !andb_true_r, !andb_false_r.
  destruct ((13 =? c) && (10 =? b))%N; reflexivity.
Qed.

Lemma find_CRLF_0 c b s : find (c :: b :: s) CRLF = Some 0 <-> (c = 13 /\ b = 10)%N.
Proof.
  rewrite find_cons. unfold CRLF. rewrite startswith2.
  destruct ((13 =? c) && (10 =? b))%N eqn:E.
  - apply andb_true_iff in E as [E1 E2]. apply N.eqb_eq in E1, E2. subst. tauto.
  - split.
    + destruct (find (b :: s) [13; 10]%N); discriminate.
    + intros [-> ->]. discriminate.
Qed.

(* chunk terminator phase, nothing stored yet *)
Lemma iter_validate_store st b o :
  chunk_remainder st = 0%N -> validate_chunk_end st = true -> chunk_end st = [] ->
  chunked_iter st [b] o = Continue (set_chunk_end st [b]) [].
Proof.
  intros H1 H2 H3. unfold chunked_iter. rewrite H1, H2, H3. cbn [N.ltb N.compare app].
  rewrite find1_CRLF. reflexivity.
Qed.

Definition st_term_ok st := set_validate (set_chunk_end st []) false.
Definition st_term_bad st :=
  set_validate (set_all (set_error (set_chunk_end st []) (Some EChunkNotTerminated)) true) false.

Lemma iter_validate_ok st s o :
  chunk_remainder st = 0%N -> validate_chunk_end st = true -> chunk_end st = [13%N] ->
  chunked_iter st (10%N :: s) o = Continue (st_term_ok st) s.
Proof.
  intros H1 H2 H3. unfold chunked_iter. rewrite H1, H2, H3. cbn [N.ltb N.compare app].
  destruct (find_CRLF_0 13 10 s) as [_ F]. rewrite (F (conj eq_refl eq_refl)). reflexivity.
Qed.

Lemma iter_validate_bad st c b s o :
  chunk_remainder st = 0%N -> validate_chunk_end st = true -> chunk_end st = [c] ->
  ~ (c = 13 /\ b = 10)%N ->
  chunked_iter st (b :: s) o = Continue (st_term_bad st) (c :: b :: s).
Proof.
  intros H1 H2 H3 Hn. unfold chunked_iter. rewrite H1, H2, H3. cbn [N.ltb N.compare app].
  destruct (find (c :: b :: s) CRLF) as [[|p]|] eqn:E.
  - apply find_CRLF_0 in E. tauto.
  - reflexivity.
  - reflexivity.
Qed.


Lemma run_nonempty st s o r : s <> [] ->
  (run st s o r <->
   match chunked_iter st s o with
   | Continue st' s' => run st' s' o r
   | Break st' => r = (st', o)
   | Return st' v => r = (st', v)
   end).
Proof. destruct s; [congruence|]. intros _. apply run_cons. Qed.

Definition one_byte_concl st b s :=
  exists st1, run st [b] 1 (st1, 1%Z) /\
  ( (c_error st1 = None /\ c_completed st1 = true /\
     run st (b :: s) (Z.of_nat (S (length s))) (st1, 1%Z))
  \/ (c_error st1 = None /\ c_completed st1 = false /\
      forall st2 n2, run st1 s (Z.of_nat (length s)) (st2, n2) ->
        exists st', run st (b :: s) (Z.of_nat (S (length s))) (st', (1 + n2)%Z) /\ ceq st2 st')
  \/ (exists e, c_error st1 = Some e /\
      exists st' n', run st (b :: s) (Z.of_nat (S (length s))) (st', n') /\ c_error st' = Some e)).

Lemma iff_cont st b s st1 :
  (forall o, chunked_iter st (b :: s) o = Continue st1 s) ->
  forall o r, run st (b :: s) o r <-> run st1 s o r.
Proof. intros H o r. rewrite run_cons, H. tauto. Qed.

Lemma iff_iter st b s st1 : s <> [] ->
  (forall o, chunked_iter st (b :: s) o = chunked_iter st1 s o) ->
  forall o r, run st (b :: s) o r <-> run st1 s o r.
Proof.
  intros Hs H o r. destruct s as [|y s]; [congruence|].
  rewrite (run_cons st), (run_cons st1), H. tauto.
Qed.

Lemma same_cont st b s st1 :
  (forall o, chunked_iter st [b] o = Continue st1 []) ->
  (forall o r, run st (b :: s) o r <-> run st1 s o r) ->
  c_error st1 = None -> c_completed st1 = false -> one_byte_concl st b s.
Proof.
  intros H1 H2 He Hc. exists st1. split.
  - apply run_cons. rewrite H1. apply run_nil. reflexivity.
  - right; left. split; auto. split; auto. intros st2 n2 R.
    exists st2. split; [|apply ceq_refl].
    apply H2. apply (run_shift _ _ _ 1) in R.
    replace (Z.of_nat (S (length s))) with (Z.of_nat (length s) + 1)%Z by lia.
    replace (1 + n2)%Z with (n2 + 1)%Z by lia. exact R.
Qed.


(* explicit form of the control-line step *)
Definition ctl_step (st : chunked_rcv) (line rest : bytes) : iter_res :=
  let st1 := set_control st [] in
  match line with
  | [] => Break (set_all (set_error st1 (Some EInvalidChunkSize)) true)
  | _ =>
    match control_line_verdict line with
    | LVBadExt => Break (set_all (set_error st1 (Some EInvalidChunkExt)) true)
    | LVBadSize => Break (set_all (set_error st1 (Some EInvalidChunkSize)) true)
    | LVSize sz => if (0 <? sz)%N then Continue (set_rem st1 sz) rest else Continue (set_all st1 true) rest
    end
  end.

Lemma iter_control_line st x o pos :
  chunk_remainder st = 0%N -> validate_chunk_end st = false -> all_chunks_received st = false ->
  find (control_line st ++ x) CRLF = Some pos ->
  chunked_iter st x o = ctl_step st (firstn pos (control_line st ++ x)) (skipn (pos + 2) (control_line st ++ x)).
Proof.
  intros H1 H2 H3 Hf. unfold chunked_iter, ctl_step. rewrite H1, H2, H3, Hf. reflexivity.
Qed.

Lemma iter_control_store st x o :
  chunk_remainder st = 0%N -> validate_chunk_end st = false -> all_chunks_received st = false ->
  find (control_line st ++ x) CRLF = None ->
  chunked_iter st x o = Continue (set_control st (control_line st ++ x)) [].
Proof.
  intros H1 H2 H3 Hf. unfold chunked_iter. rewrite H1, H2, H3, Hf. reflexivity.
Qed.

Lemma iter_trailer_cases st x o :
  chunk_remainder st = 0%N -> validate_chunk_end st = false -> all_chunks_received st = true ->
  (exists a v, chunked_iter st x o = Return a v /\ c_error a = c_error st /\ c_completed a = true) \/
  (chunked_iter st x o = Continue (set_trailer st (trailer st ++ x)) []).
Proof.
  intros H1 H2 H3. unfold chunked_iter. rewrite H1, H2, H3. cbn [N.ltb N.compare negb].
  destruct (startswith (trailer st ++ x) CRLF).
  - left. eexists _, _. split; [reflexivity|]. rsimpl. auto.
  - destruct (find_double_newline (trailer st ++ x)).
    + left. eexists _, _. split; [reflexivity|]. rsimpl. auto.
    + right. reflexivity.
Qed.

Lemma sw2_CRLF c b : ~ (c = 13 /\ b = 10)%N -> startswith [c; b] CRLF = false.
Proof.
  intros H. unfold CRLF. rewrite startswith2.
  destruct ((13 =? c) && (10 =? b))%N eqn:E; auto.
  apply andb_true_iff in E as [E1 E2]. apply N.eqb_eq in E1, E2. subst. tauto.
Qed.

Lemma find_short s p : length s < length p -> find s p = None.
Proof.
  intros H. apply find_none_intro. intros j _. apply startswith_short.
  rewrite skipn_length. lia.
Qed.

Lemma iter_trailer_store st x o :
  chunk_remainder st = 0%N -> validate_chunk_end st = false -> all_chunks_received st = true ->
  startswith (trailer st ++ x) CRLF = false -> find_double_newline (trailer st ++ x) = None ->
  chunked_iter st x o = Continue (set_trailer st (trailer st ++ x)) [].
Proof.
  intros H1 H2 H3 H4 H5. unfold chunked_iter. rewrite H1, H2, H3. cbn [N.ltb N.compare negb].
  rewrite H4, H5. reflexivity.
Qed.

Lemma bad_term st c b s :
  chunk_remainder st = 0%N -> validate_chunk_end st = true -> chunk_end st = [c] ->
  trailer st = [] -> ~ (c = 13 /\ b = 10)%N -> one_byte_concl st b s.
Proof.
  intros H1 H2 H3 H4 Hn.
  exists (set_trailer (st_term_bad st) [c; b]). split.
  - apply run_cons. rewrite (iter_validate_bad st c b [] 1 H1 H2 H3 Hn).
    apply run_cons.
    assert (T : trailer (st_term_bad st) = []) by exact H4.
    rewrite (iter_trailer_store (st_term_bad st) [c; b] 1); auto.
    + rewrite T. apply run_nil. reflexivity.
    + rewrite T. apply (sw2_CRLF c b Hn).
    + rewrite T. unfold find_double_newline. cbn [app].
      rewrite (find_short [c; b] CRLFCRLF) by (simpl; lia). reflexivity.
  - right; right. exists EChunkNotTerminated. split; [reflexivity|].
    destruct (run_total (st_term_bad st) (c :: b :: s) (Z.of_nat (S (length s)))) as [[st' n'] R].
    exists st', n'. split.
    + apply run_cons. rewrite (iter_validate_bad st c b s _ H1 H2 H3 Hn). exact R.
    + destruct R as [f R]. eapply (loop_error_kept f (st_term_bad st)); eauto.
Qed.
Theorem run_one_byte st b s :
  wf_c st -> c_completed st = false -> c_error st = None -> s <> [] -> one_byte_concl st b s.
Proof.
  intros W Hc He Hs. pose proof W as W0. destruct W as [Wctl Wce Wt1 Wt2 Wall Wnall].
  specialize (Wt1 Hc). specialize (Wt2 Hc).
  destruct (0 <? chunk_remainder st)%N eqn:Hrm.
  { (* data *)
    apply N.ltb_lt in Hrm.
    destruct (N.eq_dec (chunk_remainder st) 1) as [E|E].
    - apply (same_cont _ _ _ (set_validate (set_rem (buf_append st [b]) 0) true)); auto.
      + intros o. apply iter_data_one; auto.
      + apply iff_cont. intros o. apply iter_data_one; auto.
    - apply (same_cont _ _ _ (set_rem (buf_append st [b]) (chunk_remainder st - 1))); auto.
      + intros o. apply iter_data_more_1. lia.
      + apply iff_iter; auto. intros o. apply iter_data_more. lia. }
  apply N.ltb_ge in Hrm. assert (Hrm0 : chunk_remainder st = 0%N) by lia.
  destruct (validate_chunk_end st) eqn:Hv.
  { (* chunk terminator *)
    assert (Hall : all_chunks_received st = false).
    { destruct (all_chunks_received st) eqn:E; auto. destruct (Wall eq_refl). congruence. }
    pose proof (Wnall Hall) as Htr.
    destruct (chunk_end st) as [|c [|c2 ce]] eqn:Hce; [| |simpl in Wce; lia].
    - apply (same_cont _ _ _ (set_chunk_end st [b])); auto.
      + intros o. apply iter_validate_store; auto.
      + apply iff_iter; auto. intros o.
        pose proof (iter_store_chunk_end st [b] s o Hrm0 Hv) as C. rewrite Hce in C. symmetry. exact C.
    - destruct (N.eq_dec c 13) as [Ec|Ec]; [destruct (N.eq_dec b 10) as [Eb|Eb]|].
      + subst c b. apply (same_cont _ _ _ (st_term_ok st)); auto.
        * intros o. apply (iter_validate_ok st [] o); auto.
        * apply iff_cont. intros o. apply iter_validate_ok; auto.
      + apply (bad_term st c b s); auto. intros [_ Hb]. auto.
      + apply (bad_term st c b s); auto. intros [Hb _]. auto. }
  destruct (all_chunks_received st) eqn:Hall.
  2:{ (* control line *)
    destruct (find (control_line st ++ [b]) CRLF) as [pos|] eqn:Hf.
    - pose proof (find2_snoc _ _ _ _ _ Wctl Hf) as (Lp & _ & _).
      assert (Hrest : skipn (pos + 2) (control_line st ++ [b]) = []).
      { apply skipn_all2. rewrite app_length. simpl. lia. }
      assert (Hf2 : find (control_line st ++ b :: s) CRLF = Some pos).
      { change (b :: s) with ([b] ++ s). rewrite app_assoc. apply find_app_l; auto. }
      assert (I1 : forall o, chunked_iter st [b] o = ctl_step st (firstn pos (control_line st ++ [b])) []).
      { intros o. rewrite (iter_control_line st [b] o pos); auto. now rewrite Hrest. }
      assert (I2 : forall o, chunked_iter st (b :: s) o = ctl_step st (firstn pos (control_line st ++ [b])) s).
      { intros o. rewrite (iter_control_line st (b :: s) o pos); auto.
        change (b :: s) with ([b] ++ s). rewrite app_assoc.
        rewrite (firstn_app_find _ s _ _ Hf).
        pose proof (skipn_app_find _ s _ _ Hf) as Hs2. change (length CRLF) with 2 in Hs2.
        rewrite Hs2, Hrest. reflexivity. }
      unfold ctl_step in I1, I2.
      destruct (firstn pos (control_line st ++ [b])) as [|l0 line].
      + eexists. split; [apply run_cons; rewrite I1; reflexivity|].
        right; right. exists EInvalidChunkSize. split; [reflexivity|].
        eexists _, _. split; [apply run_cons; rewrite I2; reflexivity | reflexivity].
      + destruct (control_line_verdict (l0 :: line)) as [sz| |].
        * destruct (0 <? sz)%N.
          -- apply (same_cont _ _ _ (set_rem (set_control st []) sz)); auto. apply iff_cont; auto.
          -- apply (same_cont _ _ _ (set_all (set_control st []) true)); auto. apply iff_cont; auto.
        * eexists. split; [apply run_cons; rewrite I1; reflexivity|].
          right; right. exists EInvalidChunkExt. split; [reflexivity|].
          eexists _, _. split; [apply run_cons; rewrite I2; reflexivity | reflexivity].
        * eexists. split; [apply run_cons; rewrite I1; reflexivity|].
          right; right. exists EInvalidChunkSize. split; [reflexivity|].
          eexists _, _. split; [apply run_cons; rewrite I2; reflexivity | reflexivity].
    - apply (same_cont _ _ _ (set_control st (control_line st ++ [b]))); auto.
      + intros o. apply iter_control_store; auto.
      + apply iff_iter; auto. intros o. symmetry. apply (iter_store_control st [b] s o); auto. }
  (* trailer *)
  destruct (iter_trailer_cases st [b] 1 Hrm0 Hv Hall) as [(a & v & Ha & Ea & Ca)|Hst].
  - assert (Hv1 : v = 1%Z).
    { pose proof (iter_spec 1 st [b] W0 Hc
                    ltac:(discriminate) ltac:(left; simpl; lia)) as S.
      change (Z.of_nat 1) with 1%Z in S. rewrite Ha in S. lia. }
    subst v. exists a. split; [apply run_cons; rewrite Ha; reflexivity|].
    left. split; [congruence|]. split; auto.
    apply run_cons. change (b :: s) with ([b] ++ s).
    replace (Z.of_nat (S (length s))) with (1 + Z.of_nat (length s))%Z by lia.
    rewrite (iter_trailer_return st [b] s 1 a 1 Hrm0 Hv Hall Ha). reflexivity.
  - exists (set_trailer st (trailer st ++ [b])). split; [apply run_cons; rewrite Hst; apply run_nil; reflexivity|].
    right; left. split; auto. split; auto. intros st2 n2 R.
    pose proof (iter_store_trailer st [b] s (Z.of_nat (length s)) Hrm0 Hv Hall) as Rel.
    apply run_nonempty in R; auto.
    assert (Sh : chunked_iter st (b :: s) (Z.of_nat (S (length s)))
                 = match chunked_iter st (b :: s) (Z.of_nat (length s)) with
                   | Continue a0 b0 => Continue a0 b0 | Break a0 => Break a0
                   | Return a0 v0 => Return a0 (v0 + 1) end).
    { replace (Z.of_nat (S (length s))) with (Z.of_nat (length s) + 1)%Z by lia.
      apply iter_shift. }
    change ([b] ++ s) with (b :: s) in Rel.
    destruct (chunked_iter (set_trailer st (trailer st ++ [b])) s (Z.of_nat (length s)))
      as [a1 r1| |a1 v1];
    destruct (chunked_iter st (b :: s) (Z.of_nat (length s))) as [a2 r2| |a2 v2];
      try contradiction.
    + destruct Rel as (-> & -> & ->). apply run_nil in R. injection R as -> ->.
      exists a2. split; [|apply ceq_refl]. apply run_cons. rewrite Sh. apply run_nil. f_equal. lia.
    + destruct Rel as (-> & Cc & Eq). injection R as -> ->.
      exists a2. split; [|right; auto]. apply run_cons. rewrite Sh. f_equal. lia.
Qed.

(* the same, in terms of chunked_received *)
Theorem chunked_one_byte st b s :
  wf_c st -> c_completed st = false -> c_error st = None -> s <> [] ->
  exists st1, chunked_received st [b] = Some (st1, 1%Z) /\
  ( (c_error st1 = None /\ c_completed st1 = true /\ chunked_received st (b :: s) = Some (st1, 1%Z))
  \/ (c_error st1 = None /\ c_completed st1 = false /\
      forall st2 n2, chunked_received st1 s = Some (st2, n2) ->
        exists st', chunked_received st (b :: s) = Some (st', (1 + n2)%Z) /\ ceq st2 st')
  \/ (exists e, c_error st1 = Some e /\
      exists st' n', chunked_received st (b :: s) = Some (st', n') /\ c_error st' = Some e)).
Proof.
  intros W Hc He Hs. destruct (run_one_byte st b s W Hc He Hs) as (st1 & R1 & Cases).
  exists st1. split; [apply received_run; auto|].
  destruct Cases as [(A & B & C)|[(A & B & C)|(e & A & st' & n' & C & D)]].
  - left. split; auto. split; auto. apply received_run; auto.
  - right; left. split; auto. split; auto. intros st2 n2 R.
    apply received_run in R; auto. destruct (C st2 n2 R) as (st' & R' & Q).
    exists st'. split; auto. apply received_run; auto.
  - right; right. exists e. split; auto. exists st', n'. split; auto. apply received_run; auto.
Qed.


(* ------------------------------------------------------------------ *)
(* the fixed-length receiver *)
Lemma fixed_one_byte f b s : (1 <= f_remain f)%N -> s <> [] ->
  exists f1, fixed_received f [b] = (f1, 1%Z) /\
  ((f_remain f = 1%N /\ f_completed f1 = true /\ fixed_received f (b :: s) = (f1, 1%Z)) \/
   ((1 < f_remain f)%N /\ f_completed f1 = f_completed f /\ (1 <= f_remain f1)%N /\
    forall f2 n2, fixed_received f1 s = (f2, n2) -> fixed_received f (b :: s) = (f2, (1 + n2)%Z))).
Proof.
  intros Hr Hs. unfold fixed_received at 1 2.
  destruct (f_remain f <? 1)%N eqn:E1; [apply N.ltb_lt in E1; lia|].
  change (lenN [b]) with 1%N. rewrite lenN_cons.
  assert (Hl : (1 <= lenN s)%N) by (destruct s; [congruence | rewrite lenN_cons; lia]).
  destruct (N.eq_dec (f_remain f) 1) as [E|E].
  - rewrite E. cbn [N.leb N.compare]. eexists. split; [reflexivity|]. left. split; auto. split; [reflexivity|].
    destruct (1 <=? 1 + lenN s)%N eqn:E2; [|apply N.leb_gt in E2; lia]. reflexivity.
  - destruct (f_remain f <=? 1)%N eqn:E2; [apply N.leb_le in E2; lia|].
    eexists. split; [reflexivity|]. right. split; [lia|]. cbn [f_completed f_remain f_buf].
    split; [reflexivity|]. split; [lia|].
    intros f2 n2. unfold fixed_received. cbn [f_completed f_remain f_buf].
   
    destruct (f_remain f - 1 <? 1)%N eqn:E3; [apply N.ltb_lt in E3; lia|].
    assert (Hn : N.to_nat (f_remain f) = S (N.to_nat (f_remain f - 1))) by lia.
    destruct (f_remain f - 1 <=? lenN s)%N eqn:E4.
    + apply N.leb_le in E4. destruct (f_remain f <=? 1 + lenN s)%N eqn:E5; [|apply N.leb_gt in E5; lia].
      intros H; injection H as <- <-. cbv zeta. rewrite E1, (lenN_cons b s), E5.
      rewrite Hn. cbn [firstn]. rewrite <- app_assoc. cbn [app].
      f_equal. lia.
    + apply N.leb_gt in E4. destruct (f_remain f <=? 1 + lenN s)%N eqn:E5; [apply N.leb_le in E5; lia|].
      intros H; injection H as <- <-. cbv zeta. rewrite E1, (lenN_cons b s), E5.
      rewrite <- app_assoc. cbn [app].
      f_equal; [f_equal; lia | lia].
Qed.
