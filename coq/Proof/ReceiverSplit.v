(* The chunked receiver does not depend on how its input is cut: feeding one
   byte and then the rest is the same as feeding everything at once -- exactly
   (state and consumed count) unless the byte itself raises an error, in which
   case both runs end with that same error.  The fixed receiver likewise. *)
From Coq Require Import List NArith ZArith Bool Lia Arith.
From WV Require Import Lib.PyBytes Lib.Regex Gen.GenRegex Model.Receiver Proof.PyBytesFacts
  Proof.ReceiverTotal.
Import ListNotations.

(* fuel-free view of the loop *)
Definition run (st : chunked_rcv) (s : bytes) (o : Z) (r : chunked_rcv * Z) : Prop :=
  exists f, chunked_loop f st s o = Some r.

Lemma run_det st s o r1 r2 : run st s o r1 -> run st s o r2 -> r1 = r2.
Proof.
  intros [f1 H1] [f2 H2].
  apply (loop_fuel_mono _ (Nat.max f1 f2)) in H1; [|lia].
  apply (loop_fuel_mono _ (Nat.max f1 f2)) in H2; [|lia]. congruence.
Qed.

Lemma run_total st s o : exists r, run st s o r.
Proof.
  destruct (chunked_loop (S (M st s)) st s o) as [r|] eqn:E.
  - exists r, (S (M st s)). exact E.
  - exfalso. revert E. apply loop_some. lia.
Qed.

Lemma run_nil st o r : run st [] o r <-> r = (st, o).
Proof.
  split.
  - intros [f H]. destruct f; simpl in H; congruence.
  - intros ->. exists 0. reflexivity.
Qed.

Lemma run_cons st x s o r :
  run st (x :: s) o r <->
  match chunked_iter st (x :: s) o with
  | Continue st' s' => run st' s' o r
  | Break st' => r = (st', o)
  | Return st' v => r = (st', v)
  end.
Proof.
  split.
  - intros [f H]. destruct f; [discriminate|]. cbn [chunked_loop] in H.
    destruct (chunked_iter st (x :: s) o); try congruence. exists f; auto.
  - intros H. destruct (chunked_iter st (x :: s) o) eqn:E.
    + destruct H as [f H]. exists (S f). cbn [chunked_loop]. now rewrite E.
    + exists 1. cbn [chunked_loop]. rewrite E. congruence.
    + exists 1. cbn [chunked_loop]. rewrite E. congruence.
Qed.

Lemma received_run st s r : c_completed st = false ->
  (chunked_received st s = Some r <-> run st s (Z.of_nat (length s)) r).
Proof.
  intros Hc. unfold chunked_received. rewrite Hc. split.
  - intros H. eexists; eauto.
  - intros H. destruct (chunked_loop (chunked_fuel st s) st s (Z.of_nat (length s))) as [r'|] eqn:E.
    + f_equal. eapply run_det; eauto. eexists; eauto.
    + exfalso. revert E. apply loop_some. unfold M, chunked_fuel. destruct (validate_chunk_end st); lia.
Qed.

(* the length of the call's data only shifts the result *)
Lemma iter_shift st s o k :
  chunked_iter st s (o + k) =
  match chunked_iter st s o with
  | Continue a b => Continue a b
  | Break a => Break a
  | Return a v => Return a (v + k)
  end.
Proof.
  unfold chunked_iter.
  repeat match goal with
  | |- context [if ?c then _ else _] => destruct c
  | |- context [match ?c with _ => _ end] => destruct c
  end; try reflexivity; f_equal; lia.
Qed.

Lemma loop_shift f k : forall st s o st' n,
  chunked_loop f st s o = Some (st', n) -> chunked_loop f st s (o + k) = Some (st', (n + k)%Z).
Proof.
  induction f as [|f IH]; intros st s o st' n H.
  - destruct s; simpl in *; congruence.
  - destruct s as [|x s]; [simpl in *; congruence|].
    cbn [chunked_loop] in *. rewrite iter_shift.
    destruct (chunked_iter st (x :: s) o); try congruence. apply IH; auto.
Qed.

Lemma run_shift st s o k st' n : run st s o (st', n) -> run st s (o + k) (st', (n + k)%Z).
Proof. intros [f H]. exists f. apply loop_shift; auto. Qed.

(* ------------------------------------------------------------------ *)
(* storing the unfinished piece and prepending it on the next call is the
   same as seeing the concatenation *)


Lemma iter_store_control st x y o :
  chunk_remainder st = 0%N -> validate_chunk_end st = false -> all_chunks_received st = false ->
  chunked_iter (set_control st (control_line st ++ x)) y o = chunked_iter st (x ++ y) o.
Proof.
  intros H1 H2 H3. destruct st. rsimpl. subst.
  unfold chunked_iter. rsimpl. cbn [N.ltb N.compare negb]. rewrite <- app_assoc. reflexivity.
Qed.

Lemma iter_store_chunk_end st x y o :
  chunk_remainder st = 0%N -> validate_chunk_end st = true ->
  chunked_iter (set_chunk_end st (chunk_end st ++ x)) y o = chunked_iter st (x ++ y) o.
Proof.
  intros H1 H2. destruct st. rsimpl. subst.
  unfold chunked_iter. rsimpl. cbn [N.ltb N.compare negb]. rewrite <- app_assoc. reflexivity.
Qed.



(* data branch *)
Lemma iter_data_one st b s o : chunk_remainder st = 1%N ->
  chunked_iter st (b :: s) o = Continue (set_validate (set_rem (buf_append st [b]) 0) true) s.
Proof.
  intros H. unfold chunked_iter. rewrite H. reflexivity.
Qed.

Lemma iter_data_more_1 st b o : (1 < chunk_remainder st)%N ->
  chunked_iter st [b] o = Continue (set_rem (buf_append st [b]) (chunk_remainder st - 1)) [].
Proof.
  intros H. unfold chunked_iter.
  destruct (0 <? chunk_remainder st)%N eqn:E; [|apply N.ltb_ge in E; lia].
  assert (Hn : N.to_nat (chunk_remainder st) = S (N.to_nat (chunk_remainder st - 1))) by lia.
  rewrite Hn. cbn [firstn]. rewrite firstn_nil. cbn [length skipn]. rsimpl.
  change (lenN [b]) with 1%N.
  destruct (chunk_remainder st - 1 =? 0)%N eqn:E2; [apply N.eqb_eq in E2; lia|]. reflexivity.
Qed.

Lemma iter_data_more st b s o : (1 < chunk_remainder st)%N ->
  chunked_iter st (b :: s) o
  = chunked_iter (set_rem (buf_append st [b]) (chunk_remainder st - 1)) s o.
Proof.
  intros H. unfold chunked_iter at 1.
  destruct (0 <? chunk_remainder st)%N eqn:E; [|apply N.ltb_ge in E; lia].
  assert (Hn : N.to_nat (chunk_remainder st) = S (N.to_nat (chunk_remainder st - 1))) by lia.
  rewrite Hn. cbn [firstn length skipn].
  unfold chunked_iter. rsimpl.
  destruct (0 <? chunk_remainder st - 1)%N eqn:E3; [|apply N.ltb_ge in E3; lia].
  rewrite lenN_cons. rewrite <- app_assoc. cbn [app].
  rewrite N.sub_add_distr. reflexivity.
Qed.


(* equality of receiver states up to the [trailer] field of a completed receiver
   (a "no trailer" completion keeps whatever piece was stored before) *)
Definition ceq (a b : chunked_rcv) : Prop :=
  (c_completed a = false /\ a = b) \/
  (c_completed a = true /\ set_trailer a [] = set_trailer b []).

Lemma ceq_refl a : ceq a a.
Proof. destruct (c_completed a) eqn:E; [right | left]; auto. Qed.

Lemma iter_store_trailer st x y o :
  chunk_remainder st = 0%N -> validate_chunk_end st = false -> all_chunks_received st = true ->
  match chunked_iter (set_trailer st (trailer st ++ x)) y o, chunked_iter st (x ++ y) o with
  | Continue a r, Continue a' r' => a = a' /\ r = [] /\ r' = []
  | Return a v, Return a' v' => v = v' /\ c_completed a = true /\ set_trailer a [] = set_trailer a' []
  | _, _ => False
  end.
Proof.
  intros H1 H2 H3. destruct st. rsimpl. subst.
  unfold chunked_iter. rsimpl. cbn [N.ltb N.compare negb]. rewrite <- app_assoc.
  destruct (startswith (trailer ++ x ++ y) CRLF).
  - rsimpl. auto.
  - destruct (find_double_newline (trailer ++ x ++ y)); rsimpl; auto.
Qed.

(* control line completed inside x: what follows is appended to the rest *)
Lemma iter_control_found st x y o pos :
  chunk_remainder st = 0%N -> validate_chunk_end st = false -> all_chunks_received st = false ->
  find (control_line st ++ x) CRLF = Some pos ->
  chunked_iter st (x ++ y) o =
  match chunked_iter st x o with
  | Continue a r => Continue a (r ++ y)
  | Break a => Break a
  | Return a v => Return a v
  end.
Proof.
  intros H1 H2 H3 Hf. unfold chunked_iter. rewrite H1, H2, H3. cbn [N.ltb N.compare negb].
  rewrite app_assoc. rewrite (find_app_l _ y _ _ Hf), Hf.
  rewrite (firstn_app_find _ y _ _ Hf).
  pose proof (skipn_app_find _ y _ _ Hf) as Hs. cbn [length CRLF] in Hs. rewrite Hs.
  destruct (firstn pos (control_line st ++ x)); auto.
  destruct (control_line_verdict _); auto. destruct (0 <? sz)%N; auto.
Qed.

(* trailer finished inside x *)
Lemma iter_trailer_return st x y o a v :
  chunk_remainder st = 0%N -> validate_chunk_end st = false -> all_chunks_received st = true ->
  chunked_iter st x o = Return a v ->
  chunked_iter st (x ++ y) (o + Z.of_nat (length y)) = Return a v.
Proof.
  intros H1 H2 H3. unfold chunked_iter. rewrite H1, H2, H3. cbn [N.ltb N.compare negb].
  rewrite app_assoc.
  destruct (startswith (trailer st ++ x) CRLF) eqn:Hsw.
  - rewrite (startswith_app _ y _ Hsw). intros H; injection H as <- <-. f_equal.
    rewrite !app_length, !Nat2Z.inj_add. lia.
  - destruct (find_double_newline (trailer st ++ x)) as [p|] eqn:Hd; [|discriminate].
    apply fdn_Some in Hd as (i & Hi & ->).
    pose proof (find_bound _ _ _ Hi) as B. change (length CRLFCRLF) with 4 in B.
    rewrite startswith_app_long by (change (length CRLF) with 2; lia). rewrite Hsw.
    unfold find_double_newline. rewrite (find_app_l _ y _ _ Hi).
    rewrite (firstn_app_le (i + 4) (trailer st ++ x) y) by lia.
    intros H; injection H as <- <-. f_equal. rewrite !app_length, !Nat2Z.inj_add. lia.
Qed.

(* an error, once set, stays: the receiver is then in the trailer phase *)
Lemma loop_error_kept f : forall st s o st' n e,
  chunk_remainder st = 0%N -> validate_chunk_end st = false -> all_chunks_received st = true ->
  c_error st = Some e -> chunked_loop f st s o = Some (st', n) -> c_error st' = Some e.
Proof.
  induction f as [|f IH]; intros st s o st' n e H1 H2 H3 He H.
  - destruct s; simpl in H; congruence.
  - destruct s as [|x s]; [simpl in H; congruence|].
    cbn [chunked_loop] in H. unfold chunked_iter in H. rewrite H1, H2, H3 in H.
    cbn [N.ltb N.compare negb] in H.
    destruct (startswith (trailer st ++ x :: s) CRLF).
    + injection H as <- <-. rsimpl. auto.
    + destruct (find_double_newline (trailer st ++ x :: s)).
      * injection H as <- <-. rsimpl. auto.
      * destruct f; simpl in H; injection H as <- <-; rsimpl; auto.
Qed.


Lemma find1_CRLF b : find [b] CRLF = None.
Proof. unfold find, CRLF. cbn. rewrite andb_false_r. reflexivity. Qed.

Lemma find2_CRLF c b : find [c; b] CRLF = if ((13 =? c) && (10 =? b))%N then Some 0 else None.
Proof.
  unfold find, CRLF. cbn. rewrite !andb_true_r, !andb_false_r.
  destruct ((13 =? c) && (10 =? b))%N; reflexivity.
Qed.

Lemma find_CRLF_0 c b s : find (c :: b :: s) CRLF = Some 0 <-> (c = 13 /\ b = 10)%N.
Proof.
  rewrite find_cons. unfold CRLF. rewrite startswith2.
  destruct ((13 =? c) && (10 =? b))%N eqn:E.
  - apply andb_true_iff in E as [E1 E2]. apply N.eqb_eq in E1, E2. subst. tauto.
  - split.
    + destruct (find (b :: s) [13; 10]%N); discriminate.
    + intros [-> ->]. discriminate.
Qed.

(* chunk terminator phase, nothing stored yet *)
Lemma iter_validate_store st b o :
  chunk_remainder st = 0%N -> validate_chunk_end st = true -> chunk_end st = [] ->
  chunked_iter st [b] o = Continue (set_chunk_end st [b]) [].
Proof.
  intros H1 H2 H3. unfold chunked_iter. rewrite H1, H2, H3. cbn [N.ltb N.compare app].
  rewrite find1_CRLF. reflexivity.
Qed.

Definition st_term_ok st := set_validate (set_chunk_end st []) false.
Definition st_term_bad st :=
  set_validate (set_all (set_error (set_chunk_end st []) (Some EChunkNotTerminated)) true) false.

Lemma iter_validate_ok st s o :
  chunk_remainder st = 0%N -> validate_chunk_end st = true -> chunk_end st = [13%N] ->
  chunked_iter st (10%N :: s) o = Continue (st_term_ok st) s.
Proof.
  intros H1 H2 H3. unfold chunked_iter. rewrite H1, H2, H3. cbn [N.ltb N.compare app].
  destruct (find_CRLF_0 13 10 s) as [_ F]. rewrite (F (conj eq_refl eq_refl)). reflexivity.
Qed.

Lemma iter_validate_bad st c b s o :
  chunk_remainder st = 0%N -> validate_chunk_end st = true -> chunk_end st = [c] ->
  ~ (c = 13 /\ b = 10)%N ->
  chunked_iter st (b :: s) o = Continue (st_term_bad st) (c :: b :: s).
Proof.
  intros H1 H2 H3 Hn. unfold chunked_iter. rewrite H1, H2, H3. cbn [N.ltb N.compare app].
  destruct (find (c :: b :: s) CRLF) as [[|p]|] eqn:E.
  - apply find_CRLF_0 in E. tauto.
  - reflexivity.
  - reflexivity.
Qed.
