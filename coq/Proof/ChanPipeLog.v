(* Proof/ChanPipeLog.v -- layer L2: the ghost logs.  Service starts are a
   prefix of the arrivals, application calls a prefix of the starts. *)
From Coq Require Import List Arith Bool ZArith Lia.
From WV Require Import Model.ChanPipe Proof.ChanPipeBase Proof.ChanPipeOwn.
Import ListNotations.

Definition prefix {A : Type} (a b : list A) : Prop := exists r, b = a ++ r.

(* the worker has read requests[0] and has neither popped it nor cleared the list *)
Definition serving (pc : wkpc) : bool :=
  match pc with
  | WSvConn | WSvWc
  | WWsConn | WWsAcq | WWsHw | WWsConn2 | WWsRelX | WWsRot | WWsApp | WWsTotR | WWsTotW _
  | WWsChk | WWsFl _ | WWsExcW | WWsChk2 | WWsTrig | WWsRel
  | WCbAcq | WCbCwf | WCbReq | WCbClr
  | WKbLen | WKbHw | WKbAcq | WKbPop => true
  | _ => false
  end.
(* ... and the application has been called for it and it is not being abandoned *)
Definition execd (pc : wkpc) : bool :=
  match pc with
  | WWsConn | WWsAcq | WWsHw | WWsConn2 | WWsRelX | WWsRot | WWsApp | WWsTotR | WWsTotW _
  | WWsChk | WWsFl _ | WWsExcW | WWsChk2 | WWsTrig | WWsRel
  | WKbLen | WKbHw | WKbAcq | WKbPop => true
  | _ => false
  end.
Definition is_cb2 (pc : wkpc) : bool := match pc with WCbReq | WCbClr => true | _ => false end.
Definition is_svconn (pc : wkpc) : bool := match pc with WSvConn | WSvWc => true | _ => false end.

Definition io_app (pc : iopc) : bool :=
  match pc with IoRcItem | IoRcChk | IoRcSc _ | IoRcApp | IoRcApp2 | IoRcLen | IoRcAt _ => true | _ => false end.
Definition is_rccwf (pc : iopc) : bool := match pc with IoRcCwf => true | _ => false end.
Definition is_wwc (pc : iopc) : bool := match pc with IoHwWWc => true | _ => false end.

Definition wa2 (pc : wkpc) : bool * bool * bool * bool := (serving pc, execd pc, is_cb2 pc, is_svconn pc).
Definition ia2 (pc : iopc) : bool * bool * bool := (io_app pc, is_rccwf pc, is_wwc pc).

Definition live (s : shared) : Prop := closing s = false \/ requests s <> [].

Record L2 (st : state) : Prop := {
  l2_arr : live (sh st) -> arrivals (sh st) = popped (sh st) ++ requests (sh st);
  l2_idle : live (sh st) -> (forall j, serving (wpc (wk st j)) = false) -> starts (sh st) = popped (sh st);
  l2_serv : forall j, serving (wpc (wk st j)) = true ->
            starts (sh st) = popped (sh st) ++ [w_cur (wk st j)] /\ hd_error (requests (sh st)) = Some (w_cur (wk st j));
  l2_pre : prefix (starts (sh st)) (arrivals (sh st));
  l2_ka : closing (sh st) = true -> cwf (sh st) = true \/ will_close (sh st) = true \/ is_wwc (ipc (io st)) = true;
  l2_kb : is_rccwf (ipc (io st)) = true -> closing (sh st) = true -> cwf (sh st) = true;
  l2_kc : io_app (ipc (io st)) = true -> closing (sh st) = false;
  l2_ex : starts (sh st) = execs (sh st) \/ exists x, starts (sh st) = execs (sh st) ++ [x];
  l2_ex2 : starts (sh st) <> execs (sh st) ->
           (exists j, serving (wpc (wk st j)) = true) \/ (closing (sh st) = true /\ requests (sh st) = []);
  l2_ex3 : forall j, execd (wpc (wk st j)) = true -> starts (sh st) = execs (sh st);
  l2_cb : forall j, is_cb2 (wpc (wk st j)) = true -> closing (sh st) = true;
  l2_sv : forall j, is_svconn (wpc (wk st j)) = true -> starts (sh st) = execs (sh st) ++ [w_cur (wk st j)]
}.

Lemma L2_init : L2 init.
Proof.
  split; simpl; intros; try discriminate; auto; try congruence.
  all: try (exists []; reflexivity).
Qed.

Lemma serving_owner : forall pc, serving pc = true -> wk_owner pc = true.
Proof. destruct pc; simpl; congruence. Qed.
Lemma serving_not_postpop : forall pc, serving pc = true -> postpop pc = false.
Proof. destruct pc; simpl; congruence. Qed.
Lemma execd_serving : forall pc, execd pc = true -> serving pc = true.
Proof. destruct pc; simpl; congruence. Qed.
Lemma io_app_rl : forall pc, io_app pc = true -> io_rl pc = true.
Proof. destruct pc; simpl; congruence. Qed.

(* ---- frame *)
Lemma L2_frame : forall st st',
  requests (sh st') = requests (sh st) -> arrivals (sh st') = arrivals (sh st) ->
  starts (sh st') = starts (sh st) -> execs (sh st') = execs (sh st) -> popped (sh st') = popped (sh st) ->
  closing (sh st') = closing (sh st) -> cwf (sh st') = cwf (sh st) -> (will_close (sh st) = true -> will_close (sh st') = true) ->
  ia2 (ipc (io st')) = ia2 (ipc (io st)) ->
  (forall j, wa2 (wpc (wk st' j)) = wa2 (wpc (wk st j)) /\ w_cur (wk st' j) = w_cur (wk st j)) ->
  L2 st -> L2 st'.
Proof.
  intros st st' Hr Ha Hs He Hp Hc Hf Hwc Hi Hw [A B C D Ka Kb Kc E1 E2 E3 Cb Sv].
  assert (Hsv : forall j, serving (wpc (wk st' j)) = serving (wpc (wk st j))) by (intro j; destruct (Hw j) as [X _]; unfold wa2 in X; congruence).
  assert (Hxd : forall j, execd (wpc (wk st' j)) = execd (wpc (wk st j))) by (intro j; destruct (Hw j) as [X _]; unfold wa2 in X; congruence).
  assert (Hcb : forall j, is_cb2 (wpc (wk st' j)) = is_cb2 (wpc (wk st j))) by (intro j; destruct (Hw j) as [X _]; unfold wa2 in X; congruence).
  assert (Hsc : forall j, is_svconn (wpc (wk st' j)) = is_svconn (wpc (wk st j))) by (intro j; destruct (Hw j) as [X _]; unfold wa2 in X; congruence).
  assert (Hcu : forall j, w_cur (wk st' j) = w_cur (wk st j)) by (intro j; destruct (Hw j); auto).
  assert (I1 : io_app (ipc (io st')) = io_app (ipc (io st))) by (unfold ia2 in Hi; congruence).
  assert (I2 : is_rccwf (ipc (io st')) = is_rccwf (ipc (io st))) by (unfold ia2 in Hi; congruence).
  assert (I3 : is_wwc (ipc (io st')) = is_wwc (ipc (io st))) by (unfold ia2 in Hi; congruence).
  unfold live in *.
  split; unfold live; rewrite ?Hr, ?Ha, ?Hs, ?He, ?Hp, ?Hc, ?Hf, ?I1, ?I2, ?I3; intros;
    repeat match goal with H : context [wk st' _] |- _ => rewrite ?Hsv, ?Hxd, ?Hcb, ?Hsc, ?Hcu in H end;
    rewrite ?Hsv, ?Hxd, ?Hcb, ?Hsc, ?Hcu; eauto.
  all: try (apply B; auto; intro j; rewrite <- Hsv; auto).
  all: try (destruct (E2 H) as [[j Hj]|X]; auto; left; exists j; rewrite Hsv; auto).
  all: try (destruct (Ka H) as [X|[X|X]]; auto).
Qed.

(* list facts *)
Lemma prefix_app_r : forall (A : Type) (a b : list A) x, prefix a b -> prefix a (b ++ [x]).
Proof. intros A a b x [r ->]. exists (r ++ [x]). rewrite app_assoc. reflexivity. Qed.
Lemma hd_error_app : forall (A : Type) (l : list A) x y, hd_error l = Some y -> hd_error (l ++ [x]) = Some y.
Proof. destruct l; simpl; intros; congruence. Qed.
Lemma hd_error_cons : forall (A : Type) (l : list A) y, hd_error l = Some y -> l = y :: tl l.
Proof. destruct l; simpl; intros; congruence. Qed.
Lemma app_one_inj : forall (A : Type) (a b : list A) x y, a ++ [x] = b ++ [y] -> a = b /\ x = y.
Proof. intros. apply app_inj_tail in H. auto. Qed.
Lemma app_one_neq : forall (A : Type) (a : list A) x, a ++ [x] <> a.
Proof.
  intros A a x H. assert (length (a ++ [x]) = length a) by congruence.
  rewrite app_length in H0. simpl in H0. lia.
Qed.

(* a worker that owns the connection is the only one serving *)
Lemma others_not_serving : forall st me, L1 st -> wk_owner (wpc (wk st me)) = true ->
  forall j, j <> me -> serving (wpc (wk st j)) = false.
Proof.
  intros st me HL1 Ho j Hj. destruct (serving (wpc (wk st j))) eqn:E; auto.
  apply serving_owner in E. exfalso. apply Hj. eapply l1_uniq; eauto.
Qed.

Lemma is_svconn_serving : forall pc, is_svconn pc = true -> serving pc = true.
Proof. destruct pc; simpl; congruence. Qed.
Lemma is_cb2_serving : forall pc, is_cb2 pc = true -> serving pc = true.
Proof. destruct pc; simpl; congruence. Qed.

(* the owner has not read requests[0] yet: nobody is serving, and every start so far
   was followed by its application call *)
Lemma not_started_facts : forall st me, L1 st -> L2 st ->
  wk_owner (wpc (wk st me)) = true -> serving (wpc (wk st me)) = false -> requests (sh st) <> [] ->
  starts (sh st) = popped (sh st) /\ starts (sh st) = execs (sh st) /\
  arrivals (sh st) = popped (sh st) ++ requests (sh st).
Proof.
  intros st me HL1 HL2 Ho Hs Hr.
  assert (Hnone : forall j, serving (wpc (wk st j)) = false).
  { intro j. destruct (Nat.eq_dec j me) as [->|N]; auto. eapply others_not_serving; eauto. }
  assert (Hlive : live (sh st)) by (right; auto).
  repeat split.
  - apply (l2_idle _ HL2); auto.
  - destruct (list_eq_dec Nat.eq_dec (starts (sh st)) (execs (sh st))) as [E|N]; auto.
    destruct (l2_ex2 _ HL2 N) as [[j Hj]|[_ X]].
    + rewrite Hnone in Hj. discriminate.
    + congruence.
  - apply (l2_arr _ HL2); auto.
Qed.

