(* Proof/ChanFaultStep.v -- how one step of Model/ChanFault.v is taken apart:
   a thread's step changes no other thread's stack or locals. *)
From Coq Require Import List Arith Bool Lia.
From WV Require Import Lib.Conc Model.ChanFault Proof.ChanFaultSpec Proof.ChanFaultBase.
Import ListNotations.

(* destruct the innermost scrutinee of the goal *)
Ltac split_innermost :=
  match goal with
  | |- context [match ?x with _ => _ end] =>
    lazymatch x with
    | context [match _ with _ => _ end] => fail
    | _ => destruct x eqn:?
    end
  end.

(* ... of a hypothesis *)
Ltac split_innermost_in H :=
  match type of H with
  | context [match ?x with _ => _ end] =>
    lazymatch x with
    | context [match _ with _ => _ end] => fail
    | _ => destruct x eqn:?
    end
  end.

Global Opaque setc setth getc getth set_srv set_dead maint asked_r asked_w map_empty.

Lemma exec_other_thread : forall g t i a s u,
  t <> u ->
  match exec g t i a s with
  | Blocked => True
  | Norm s' _ _ => getth s' u = getth s u
  | Raise s' _ _ => getth s' u = getth s u
  end.
Proof.
  intros g t i a s u Htu.
  destruct i; cbn [exec]; repeat split_innermost; auto;
  rewrite ?getth_setth_other, ?getth_setc, ?getth_set_srv by auto; auto.
Qed.

Lemma frame_other_thread : forall t k x s u,
  t <> u ->
  match frame t k x s with
  | FCatch s' _ _ => getth s' u = getth s u
  | FPass s' => getth s' u = getth s u
  end.
Proof.
  intros t k x s u Htu.
  destruct k; cbn [frame]; repeat split_innermost; auto;
  rewrite ?getth_setth_other, ?getth_setc, ?getth_set_srv by auto; auto.
Qed.

Lemma step_other_thread : forall g s t a s' l u,
  step g s (t, a) = Some (s', l) -> t <> u -> getth s' u = getth s u.
Proof.
  intros g s t a s' l u H Htu. unfold step in H.
  destruct (raising (getth s t)) as [x|] eqn:R.
  - destruct (drop_to_frame (stk (getth s t))) as [|k rest] eqn:D.
    + destruct t; inversion H; subst;
        rewrite ?getth_set_dead, ?getth_setth_other by auto; auto.
    + pose proof (frame_other_thread t k x s u Htu) as F.
      destruct (frame t k x s); inversion H; subst; rewrite getth_setth_other by auto; auto.
  - destruct (stk (getth s t)) as [|i rest] eqn:S.
    + destruct t as [|c]; try discriminate.
      destruct (queued (getc s c)); inversion H; subst.
      rewrite getth_setth_other, getth_setc by auto. reflexivity.
    + pose proof (exec_other_thread g t i a s u Htu) as E.
      destruct (exec g t i a s); inversion H; subst; rewrite getth_setth_other by auto; auto.
Qed.

(* a frame never touches its own thread's stack or raising flag (only locals) *)
Lemma drop_to_frame_last : forall pre k,
  is_frame k = true ->
  forall f rest, drop_to_frame (pre ++ [k]) = f :: rest ->
  (rest = [] /\ f = k) \/ (exists pre', rest = pre' ++ [k]).
Proof.
  induction pre as [|i pre IH]; simpl; intros k Hk f rest E.
  - rewrite Hk in E. inversion E; auto.
  - destruct (is_frame i).
    + inversion E; subst. right. exists pre. reflexivity.
    + eauto.
Qed.

(* exec / frame leave the stack and the raising flag of the running thread alone *)
Lemma exec_own_stack : forall g t i a s,
  match exec g t i a s with
  | Blocked => True
  | Norm s' _ _ => stk (getth s' t) = stk (getth s t) /\ raising (getth s' t) = raising (getth s t)
  | Raise s' _ _ => stk (getth s' t) = stk (getth s t) /\ raising (getth s' t) = raising (getth s t)
  end.
Proof.
  intros. destruct i; cbn [exec]; repeat split_innermost; auto;
  rewrite ?getth_setth_same, ?getth_setc, ?getth_set_srv; auto.
Qed.

