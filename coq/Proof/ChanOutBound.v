(* No output buffer of a channel grows without bound (the reason write_soon rotates to a fresh
   OverflowableBuffer once current_outbuf_count reaches outbuf_high_watermark): over Model/ChanOut.v,
   for every history of writes of at most W bytes each, file hand-overs and flushes, and every socket
   behaviour, every OverflowableBuffer in self.outbufs holds at most
       max(outbuf_high_watermark - 1, 0) + W
   bytes, the writable last one at most current_outbuf_count, and current_outbuf_count itself stays
   within that bound.  (ReadOnlyFileBasedBuffer elements are files of the application, not memory of
   the server; the bound on the TOTAL backlog is the interleaving property C12_bound: it needs the
   producer to wait.) *)
From Coq Require Import List NArith ZArith Bool Lia ZifyBool Arith.
From WV Require Import Lib.PyBytes Model.Buffers Spec.Fifo Proof.Buffers Proof.BuffersRefine Proof.BuffersRo
  Model.ChanOut Proof.ChanOut.
Import ListNotations.
Local Open Scope Z_scope.

Definition bnd (c : cfg) (W : Z) : Z := Z.max (c_high_watermark c - 1) 0 + W.

Definition ob_bounded (B : Z) (b : outbuf) : Prop := is_ob b = true -> q_len (babs b) <= B.

Definition last_le (ch : chan) : Prop :=
  forall l b, outbufs ch = l ++ [b] -> q_len (babs b) <= current_outbuf_count ch.

Definition binv (c : cfg) (W : Z) (ch : chan) : Prop :=
  cinv ch /\ Forall (ob_bounded (bnd c W)) (outbufs ch) /\
  0 <= current_outbuf_count ch <= bnd c W /\ last_le ch.

Lemma q_len_nonneg (q : list N) : 0 <= q_len q.
Proof. unfold q_len. lia. Qed.

Lemma binv_new c W : 0 <= W -> binv c W chan_new.
Proof.
  intro HW. split; [apply cinv_new|]. split; [|split].
  - constructor; [|constructor]. intros _. cbn. unfold bnd. lia.
  - cbn. unfold bnd. lia.
  - intros l b E. cbn in E. destruct l as [|x l]; [|destruct l; discriminate].
    injection E as <-. cbn. lia.
Qed.

Lemma app_one_inj {A} (l1 l2 : list A) (a b : A) : l1 ++ [a] = l2 ++ [b] -> l1 = l2 /\ a = b.
Proof. intro H. apply app_inj_tail in H. exact H. Qed.

(* ---- write_soon(bytes) ---- *)

Lemma write_bytes_bound c W ch data : 0 <= W -> lenZ data <= W -> binv c W ch ->
  exists ch', write_bytes_buf c ch data = (ch', Done) /\ binv c W ch'.
Proof.
  intros HW Hd (Hi & Hf & Hc & Hl).
  destruct (write_bytes_spec c ch data Hi) as (ch' & E & Hi' & Ha').
  exists ch'. split; [exact E|]. split; [exact Hi'|].
  (* redo the computation to see the shape of ch' *)
  unfold write_bytes_buf in E.
  destruct Hi as (Hfo & Hlw & Ht).
  destruct (lastw_split _ Hlw) as (l0 & o0 & El).
  destruct (current_outbuf_count ch >=? c_high_watermark c) eqn:Erot.
  - (* rotation: a fresh buffer takes the data *)
    cbv beta iota zeta in E. rewrite (match_app_one (outbufs ch) (OB o_new)), last_app_one in E.
    destruct (append_spec (c_strbuf_limit c) (c_overflow c) o_new data inv_new) as (o' & H1 & H2 & H3).
    rewrite H1, set_last_app in E. injection E as <-.
    cbn [outbufs current_outbuf_count]. split; [|split].
    + apply Forall_app; split; [exact Hf|]. constructor; [|constructor].
      intros _. cbn [babs]. rewrite H3. assert (E0 : abs o_new = []) by reflexivity. rewrite E0. cbn [app]. unfold bnd, q_len, lenZ in *. lia.
    + unfold bnd, lenZ in *. lia.
    + intros l b Eb. apply app_one_inj in Eb as [_ <-]. cbn [babs]. rewrite H3.
      assert (E0 : abs o_new = []) by reflexivity. rewrite E0. cbn [app current_outbuf_count]. unfold q_len, lenZ. lia.
  - (* same buffer *)
    cbv beta iota zeta in E. rewrite El in E. rewrite (match_app_one l0 (OB o0)), last_app_one in E.
    assert (Ho0 : inv o0).
    { rewrite El in Hfo. apply Forall_app in Hfo as [_ Hx]. inversion Hx; subst. assumption. }
    destruct (append_spec (c_strbuf_limit c) (c_overflow c) o0 data Ho0) as (o' & H1 & H2 & H3).
    rewrite H1, set_last_app in E. injection E as <-.
    cbn [outbufs current_outbuf_count].
    assert (Hlast : q_len (abs o0) <= current_outbuf_count ch) by (apply (Hl l0 (OB o0) El)).
    assert (Hnew : q_len (abs o0 ++ data) <= current_outbuf_count ch + lenZ data).
    { rewrite q_len_app. unfold q_len at 2. unfold lenZ. lia. }
    assert (Hcnt : current_outbuf_count ch + lenZ data <= bnd c W) by (unfold bnd; lia).
    split; [|split].
    + rewrite El in Hf. apply Forall_app in Hf as [Hf1 _].
      apply Forall_app; split; [exact Hf1|]. constructor; [|constructor].
      intros _. cbn [babs]. rewrite H3. lia.
    + unfold lenZ in *. lia.
    + intros l b Eb. apply app_one_inj in Eb as [_ <-]. cbn [babs current_outbuf_count]. rewrite H3. exact Hnew.
Qed.

(* ---- write_soon(file buffer) ---- *)

Lemma write_file_bound c W ch rb : 0 <= W -> bok (RO rb) -> binv c W ch -> binv c W (write_file_buf ch rb).
Proof.
  intros HW Hb (Hi & Hf & Hc & Hl).
  destruct (write_file_spec ch rb Hi Hb) as (Hi' & _).
  split; [exact Hi'|]. unfold write_file_buf. cbn [outbufs current_outbuf_count]. split; [|split].
  - apply Forall_app; split; [exact Hf|]. constructor; [intro X; discriminate X|].
    constructor; [|constructor]. intros _. cbn. unfold bnd. lia.
  - unfold bnd. lia.
  - intros l b Eb. change [RO rb; OB o_new] with ([RO rb] ++ [OB o_new]) in Eb. rewrite app_assoc in Eb.
    apply app_one_inj in Eb as [_ <-]. cbn. lia.
Qed.

(* ---- _flush_some ---- *)

Lemma Forall_skipn {A} (P : A -> Prop) n (l : list A) : Forall P l -> Forall P (skipn n l).
Proof.
  revert l; induction n as [|n IH]; intros l H; [exact H|]. destruct l as [|x l]; [constructor|].
  inversion H; subst. cbn. apply IH. assumption.
Qed.

Lemma nth_error_Forall {A} (P : A -> Prop) (l : list A) k x : Forall P l -> nth_error l k = Some x -> P x.
Proof. intros H E. rewrite Forall_forall in H. apply H. eapply nth_error_In; eauto. Qed.

(* the last element of  b' :: skipn (S k) l  is b' itself when k is the last index, else the last of l *)
Lemma last_of_suffix (l : list outbuf) k b' b0 l2 x :
  nth_error l k = Some b0 -> b' :: skipn (S k) l = l2 ++ [x] ->
  (x = b' /\ exists l1, l = l1 ++ [b0]) \/ (exists l1, l = l1 ++ [x]).
Proof.
  intros Hn E.
  assert (Hsplit : l = firstn k l ++ b0 :: skipn (S k) l).
  { clear E. revert l Hn. induction k as [|k IH]; intros l Hn; destruct l as [|y l]; try discriminate.
    - cbn in Hn. injection Hn as ->. reflexivity.
    - cbn [nth_error] in Hn. cbn [firstn skipn app]. f_equal. change (skipn (S k) l) with (skipn (S k) l).
      apply IH. exact Hn. }
  destruct (skipn (S k) l) as [|y r] eqn:Es.
  - destruct l2 as [|z l2]; [|destruct l2; discriminate]. injection E as <-.
    left. split; [reflexivity|]. exists (firstn k l). exact Hsplit.
  - right. destruct l2 as [|z l2]; [discriminate|]. injection E as <- E2.
    exists (firstn k l ++ b0 :: l2). rewrite Hsplit at 1. rewrite E2, <- app_assoc. reflexivity.
Qed.

Lemma flush_bound c W ch ans : cfg_ok c -> binv c W ch -> binv c W (f_chan (flush_some c ch ans)).
Proof.
  intros Hc (Hi & Hf & Hcnt & Hl).
  destruct (flush_some_spec c ch ans Hc Hi) as [S1 S2 S3 S4 S5 S6 S7 S8 S9].
  set (ch' := f_chan (flush_some c ch ans)) in *.
  destruct S9 as (k & K1 & K2 & K3 & K4).
  split; [exact S2|]. rewrite S8.
  destruct (outbufs ch') as [|b' rest'] eqn:Eo'.
  { destruct S2 as (_ & Hlw & _). rewrite Eo' in Hlw. discriminate. }
  cbn [tl] in K3. subst rest'.
  destruct (K4 b' eq_refl) as (b0 & Hn & Hle & Hk).
  pose proof (nth_error_Forall _ _ _ _ Hf Hn) as Hb0.
  split; [|split; [exact Hcnt|]].
  - constructor.
    + intro Hob. rewrite Hk in Hob. specialize (Hb0 Hob). lia.
    + apply Forall_skipn. exact Hf.
  - intros l2 x E. rewrite Eo' in E.
    destruct (last_of_suffix _ _ _ _ _ _ Hn E) as [(-> & l1 & El) | (l1 & El)].
    + specialize (Hl l1 b0 El). rewrite S8. lia.
    + rewrite S8. exact (Hl l1 x El).
Qed.

(* ---- histories ---- *)

(* send_continue appends without looking at the watermark: the bound is stated for histories of
   writes, hand-overs and flushes (an interim response adds 25 bytes to whatever the last buffer holds) *)
Definition cop_small (W : Z) (p : cop) : Prop :=
  match p with CWrite (WBytes data) _ => lenZ data <= W | CContinue _ => False | _ => True end.

Lemma cstep_bound c W ch p : cfg_ok c -> 0 <= W -> binv c W ch -> cop_ok p -> cop_small W p ->
  binv c W (fst (cstep c ch p)).
Proof.
  intros Hc HW Hb Hp Hs. destruct p as [d ans | ans | ans]; cbn [cstep fst]; [| |now elim Hs].
  - unfold write_soon. destruct (w_truthy d); cbn [negb]; [|exact Hb].
    assert (Hw : exists ch1, (match d with
                              | WBytes data => write_bytes_buf c ch data
                              | WFile rb => (write_file_buf ch rb, Done)
                              end) = (ch1, Done) /\ binv c W ch1).
    { destruct d as [data | rb].
      - apply write_bytes_bound; auto.
      - eexists; split; [reflexivity|]. apply write_file_bound; auto. }
    destruct Hw as (ch1 & -> & Hb1).
    destruct (total_outbufs_len ch1 >=? c_send_bytes c); cbn [w_chan]; [|exact Hb1].
    apply flush_bound; auto.
  - apply flush_bound; auto.
Qed.

Theorem out_buffers_bounded c W ps : cfg_ok c -> 0 <= W -> Forall cop_ok ps -> Forall (cop_small W) ps ->
  forall ch, binv c W ch -> binv c W (fst (crun c ch ps)).
Proof.
  intros Hc HW. induction ps as [|p ps IH]; intros Hok Hsm ch Hb; cbn [crun]; [exact Hb|].
  inversion Hok as [|? ? Ho1 Ho2]; subst. inversion Hsm as [|? ? Hs1 Hs2]; subst.
  pose proof (cstep_bound c W ch p Hc HW Hb Ho1 Hs1) as Hstep.
  destruct (cstep c ch p) as [ch1 o]. cbn [fst] in Hstep.
  specialize (IH Ho2 Hs2 ch1 Hstep).
  destruct (crun c ch1 ps) as [ch2 w]. exact IH.
Qed.

Corollary out_buffers_bounded_new c W ps : cfg_ok c -> 0 <= W -> Forall cop_ok ps -> Forall (cop_small W) ps ->
  let ch := fst (crun c chan_new ps) in
  Forall (ob_bounded (bnd c W)) (outbufs ch) /\ 0 <= current_outbuf_count ch <= bnd c W.
Proof.
  intros Hc HW Hok Hsm. destruct (out_buffers_bounded c W ps Hc HW Hok Hsm chan_new (binv_new c W HW)) as (_ & H1 & H2 & _).
  auto.
Qed.

(* the bound is attained: high watermark 4, writes of 3 bytes: a buffer of 3 + 3 = 6 bytes *)
Example bound_attained :
  let r := fst (crun ex_cfg chan_new [CWrite (WBytes [1;2;3]%N) []; CWrite (WBytes [4;5;6]%N) []]) in
  map (fun b => q_len (babs b)) (outbufs r) = [6] /\ bnd ex_cfg 3 = 6.
Proof. vm_compute. split; reflexivity. Qed.
