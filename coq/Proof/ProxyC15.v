(* C15: an untrusted peer cannot influence connection metadata.  The untrusted
   path of the middleware never reads the values of the six proxy headers, so
   the two-run statement is proved directly, for every environ, every header
   value and every configuration. *)
From Coq Require Import String.
From Coq Require Import List NArith ZArith Bool.
From WV Require Import Lib.PyBytes Lib.PyStrProxy Model.Proxy Spec.ProxySpec Proof.ProxyDict.
Import ListNotations.
Local Open Scope N_scope.

(* the same request with the six proxy headers deleted *)
Definition delete_proxy_headers (e : environ) : environ :=
  pop k_fwd (pop k_xfby (pop k_xfport (pop k_xfproto (pop k_xfh (pop k_xff e))))).

Lemma clear_all_is_delete e : clear_untrusted_headers e u_all = delete_proxy_headers e.
Proof. reflexivity. Qed.

Lemma is_proxy_key_spec k :
  is_proxy_key k = beqb k k_xff || beqb k k_xfh || beqb k k_xfproto || beqb k k_xfport || beqb k k_xfby || beqb k k_fwd.
Proof. unfold is_proxy_key, proxy_keys. cbn [existsb]. rewrite orb_false_r, !orb_assoc. reflexivity. Qed.

Lemma lookup_delete k e :
  lookup k (delete_proxy_headers e) = if is_proxy_key k then None else lookup k e.
Proof.
  unfold delete_proxy_headers. rewrite !lookup_pop, is_proxy_key_spec.
  destruct (beqb k k_xff), (beqb k k_xfh), (beqb k k_xfproto), (beqb k k_xfport), (beqb k k_xfby), (beqb k k_fwd);
    reflexivity.
Qed.

Lemma delete_agree e : agree_off is_proxy_key e (delete_proxy_headers e).
Proof. intros k Hk. rewrite lookup_delete, Hk. reflexivity. Qed.

Lemma metadata_not_proxy k : In k metadata_keys -> is_proxy_key k = false.
Proof.
  unfold metadata_keys. cbn [In].
  intros [H|[H|[H|[H|[H|[H|[H|[]]]]]]]]; subst k; vm_compute; reflexivity.
Qed.

Definition peer_untrusted (c : config) (peer : str) : Prop :=
  trusted_proxy c <> Some peer /\ trusted_proxy c <> Some s_star.

Lemma untrusted_test c peer : peer_untrusted c peer ->
  opt_str_eqb (trusted_proxy c) (Some s_star) || opt_str_eqb (Some peer) (trusted_proxy c) = false.
Proof.
  intros [H1 H2]. apply orb_false_iff. split.
  - destruct (trusted_proxy c) as [t|]; simpl; auto.
    apply beqb_false. intro E. subst. apply H2. reflexivity.
  - destruct (trusted_proxy c) as [t|]; simpl; auto.
    apply beqb_false. intro E. subst. apply H1. reflexivity.
Qed.

(* what the middleware does for an untrusted peer: nothing but the stripping *)
Lemma middleware_untrusted c e peer :
  lookup k_remote_addr e = Some peer -> peer_untrusted c peer ->
  middleware c e = Ok (if clear_untrusted c then delete_proxy_headers e else e).
Proof.
  intros Hp Hu. unfold middleware. rewrite Hp, (untrusted_test _ _ Hu). cbn [bind].
  destruct (clear_untrusted c); reflexivity.
Qed.

Lemma serve_untrusted c e peer :
  lookup k_remote_addr e = Some peer -> peer_untrusted c peer ->
  serve c e = Ok (if clear_untrusted c then delete_proxy_headers e else e).
Proof.
  intros Hp Hu. unfold serve. destruct (installed c) eqn:Hi.
  - eapply middleware_untrusted; eauto.
  - unfold installed in Hi. apply orb_false_iff in Hi as [_ Hc]. rewrite Hc. reflexivity.
Qed.

(* The general two-run form: two requests that differ at most in the six
   proxy headers (any values, present or absent). *)
Lemma c15_two_runs c e e' peer :
  lookup k_remote_addr e = Some peer -> peer_untrusted c peer ->
  agree_off is_proxy_key e e' ->
  exists o o',
    serve c e = Ok o /\ serve c e' = Ok o' /\
    agree_off is_proxy_key o o' /\
    (forall k, is_proxy_key k = false -> lookup k o = lookup k e) /\
    (forall k, In k metadata_keys -> lookup k o = lookup k e) /\
    (clear_untrusted c = true -> (forall k, is_proxy_key k = true -> lookup k o = None) /\
                                 (forall k, lookup k o = lookup k o')) /\
    (clear_untrusted c = false -> o = e).
Proof.
  intros Hp Hu Ha.
  assert (Hp' : lookup k_remote_addr e' = Some peer).
  { rewrite <- Ha; auto. }
  exists (if clear_untrusted c then delete_proxy_headers e else e),
         (if clear_untrusted c then delete_proxy_headers e' else e').
  split; [eapply serve_untrusted; eauto|]. split; [eapply serve_untrusted; eauto|].
  assert (Hfr : forall k, is_proxy_key k = false ->
                lookup k (if clear_untrusted c then delete_proxy_headers e else e) = lookup k e).
  { intros k Hk. destruct (clear_untrusted c); auto. rewrite lookup_delete, Hk. reflexivity. }
  split; [|split; [exact Hfr|split; [|split]]].
  - intros k Hk. destruct (clear_untrusted c); auto. rewrite !lookup_delete, Hk. auto.
  - intros k Hk. apply Hfr. apply metadata_not_proxy. exact Hk.
  - intros Hc. rewrite Hc. split.
    + intros k Hk. rewrite lookup_delete, Hk. reflexivity.
    + intros k. rewrite !lookup_delete. destruct (is_proxy_key k) eqn:Hk; auto.
  - intros Hc. rewrite Hc. reflexivity.
Qed.

(* The statement of the property: the same request with those headers deleted. *)
Lemma c15_deleted c e peer :
  lookup k_remote_addr e = Some peer -> peer_untrusted c peer ->
  exists o o',
    serve c e = Ok o /\ serve c (delete_proxy_headers e) = Ok o' /\
    agree_off is_proxy_key o o' /\
    (forall k, In k metadata_keys -> lookup k o = lookup k e /\ lookup k o' = lookup k e) /\
    (clear_untrusted c = true -> (forall k, is_proxy_key k = true -> lookup k o = None) /\
                                 (forall k, lookup k o = lookup k o')).
Proof.
  intros Hp Hu.
  destruct (c15_two_runs c e (delete_proxy_headers e) peer Hp Hu (delete_agree e))
    as (o & o' & H1 & H2 & H3 & H4 & H5 & H6 & H7).
  exists o, o'. split; [exact H1|]. split; [exact H2|]. split; [exact H3|]. split.
  - intros k Hk. split; [auto|]. rewrite <- H3 by (apply metadata_not_proxy; auto). auto.
  - exact H6.
Qed.

(* No middleware at all when neither trust nor clearing is configured. *)
Lemma c15_not_installed c e : installed c = false -> serve c e = Ok e.
Proof. intro H. unfold serve. rewrite H. reflexivity. Qed.

Lemma installed_spec c :
  installed c = true <-> (exists x t, trusted_proxy c = Some (x :: t)) \/ clear_untrusted c = true.
Proof.
  unfold installed. rewrite orb_true_iff. split; intros [H|H]; auto; left.
  - destruct (trusted_proxy c) as [[|x t]|]; simpl in H; try discriminate. eauto.
  - destruct H as (x & t & ->). reflexivity.
Qed.

Lemma c15_install c :
  (installed c = true <-> (exists x t, trusted_proxy c = Some (x :: t)) \/ clear_untrusted c = true) /\
  (installed c = false -> forall e, serve c e = Ok e).
Proof. split; [apply installed_spec|intros H e; apply c15_not_installed; exact H]. Qed.

(* non-vacuity: a hostile request from an untrusted peer, trust configured for another address *)
Definition ex_cfg : config :=
  {| trusted_proxy := Some (s2l "10.0.0.1"%string); trusted_proxy_count := 1%Z;
     trusted_proxy_headers := Some [n_xff; n_xfproto]; clear_untrusted := true |}.
Definition ex_env : environ :=
  [(k_remote_addr, s2l "203.0.113.9"); (k_url_scheme, s_http); (k_server_name, s2l "s");
   (k_xff, s2l "6.6.6.6"); (k_xfproto, s_https); (k_fwd, s2l "for=:80")].
Example c15_hyps_satisfiable :
  lookup k_remote_addr ex_env = Some (s2l "203.0.113.9"%string) /\ peer_untrusted ex_cfg (s2l "203.0.113.9"%string) /\
  serve ex_cfg ex_env = Ok [(k_remote_addr, s2l "203.0.113.9"); (k_url_scheme, s_http); (k_server_name, s2l "s")].
Proof. split; [reflexivity|split; [split; discriminate|vm_compute; reflexivity]]. Qed.
