(* Proof/ChanWakeL2.v -- layer 2 of the C05 invariant: the queue discipline.  The channel
   is "owned" by at most one of: a dispatcher-queue entry, a worker that serves
   requests[0] (or has just popped it and not yet decided about add_task), the I/O
   thread between requests.append and add_task. *)
From Coq Require Import List ZArith Bool Arith Lia.
From WV Require Import Model.ChanWake Proof.ChanWakeInv Proof.ChanWakeBase Proof.ChanWakeL1.
Import ListNotations.
Open Scope Z_scope.

Lemma notify_o_fwd : forall l j p,
  nth_error l j = Some p ->
  nth_error (notify_o l) j = Some p \/ (parked_o p = true /\ nth_error (notify_o l) j = Some (notified p)).
Proof.
  induction l; intros j p H.
  - destruct j; discriminate.
  - destruct j; simpl in H.
    + inversion H; subst. destruct p; simpl; auto.
    + destruct a; simpl; auto.
Qed.

Lemma busy_notified : forall p, w_busy (notified p) = w_busy p.
Proof. destruct p; reflexivity. Qed.
Lemma main_notified : forall p, w_main (notified p) = w_main p.
Proof. destruct p; reflexivity. Qed.
Lemma idle_notified : forall p, w_idle (notified p) = w_idle p.
Proof. destruct p; reflexivity. Qed.

Lemma count_busy_notify_o : forall l, count_busy (notify_o l) = count_busy l.
Proof.
  induction l; simpl; auto.
  destruct a; simpl; rewrite ?count_busy_cons; simpl; try rewrite IHl; auto.
Qed.

Lemma existsb_busy_notify_o : forall l, existsb w_busy (notify_o l) = existsb w_busy l.
Proof.
  induction l; simpl; auto. destruct a; simpl; try rewrite IHl; auto.
Qed.

Lemma count_busy_none : forall l,
  (forall j p, nth_error l j = Some p -> w_busy p = false) -> count_busy l = 0%nat.
Proof.
  induction l; intros; auto. rewrite count_busy_cons.
  rewrite (H 0%nat a eq_refl). simpl. apply IHl. intros j p Hj. apply (H (S j) p Hj).
Qed.

Lemma count_busy_upd_same : forall l i p q,
  nth_error l i = Some p -> w_busy p = w_busy q -> count_busy (upd i q l) = count_busy l.
Proof. intros. pose proof (count_busy_upd _ _ _ q H). rewrite H0 in H1. lia. Qed.

Definition is_wk6 (p : wpc) : bool := match p with WK6 => true | _ => false end.

Definition WInv2 (s : state) (j : nat) (p : wpc) : Prop :=
  (w_main p = true -> (1 <= nreq s)%nat) /\ (w_idle p = true -> In j (qwait s)).

(* a worker-side send_continue happens only after the last request was popped *)
Definition WSc2 (s : state) (p : wpc) : Prop :=
  (w_sc p = true -> nreq s = 0%nat) /\ (is_wk6 p = true -> nreq s = 0%nat \/ conn s = false).

Record Inv2 (s : state) : Prop := {
  i2_tok : (queue s + count_busy (ws s) + pendadd s <= 1)%nat;
  i2_q : (0 < queue s)%nat -> (1 <= nreq s)%nat;
  i2_w : forall j p, nth_error (ws s) j = Some p -> WInv2 s j p;
  i2_sc : forall j p, nth_error (ws s) j = Some p -> WSc2 s p;
  i2_qw : forall w, In w (qwait s) -> nth_error (ws s) w = Some WIdle;
  i2_nd : NoDup (qwait s);
  i2_len : (0 < length (ws s))%nat;
  i2_q1 : (0 < queue s)%nat -> exists j p, nth_error (ws s) j = Some p /\ w_idle p = false;
  i2_fl : io_sc (io s) = true -> nreq s = 0%nat;
  i2_s1 : (1 <= nreq s)%nat ->
          conn s = false \/ (0 < queue s)%nat \/ pendadd s = 1%nat \/ existsb w_busy (ws s) = true
}.

Lemma inv2_init : forall nw, (0 < nw)%nat -> Inv2 (init nw).
Proof.
  intros. constructor; simpl; intros; try lia; try contradiction; try discriminate.
  - unfold pendadd; simpl. rewrite count_busy_none; auto.
    intros j p Hj. apply nth_error_In in Hj. apply repeat_spec in Hj. subst. reflexivity.
  - apply nth_error_In in H0. apply repeat_spec in H0. subst. split; simpl; intros; discriminate.
  - apply nth_error_In in H0. apply repeat_spec in H0. subst. split; simpl; intros; discriminate.
  - constructor.
  - rewrite repeat_length. auto.
Qed.

Lemma wsc2_notify : forall s s' j q,
  nreq s' = nreq s -> conn s' = conn s ->
  (forall j p, nth_error (ws s) j = Some p -> WSc2 s p) ->
  nth_error (notify_o (ws s)) j = Some q -> WSc2 s' q.
Proof.
  intros s s' j q Hn Hc Hw Hj. destruct (notify_o_nth _ _ _ Hj) as (p & Hp & [->|[Pp ->]]).
  - specialize (Hw _ _ Hp). unfold WSc2 in *. rewrite Hn, Hc. auto.
  - destruct p; simpl in Pp; try discriminate; split; simpl; intros; discriminate.
Qed.

Lemma wsc2_add_task : forall s j q,
  (forall j p, nth_error (ws s) j = Some p -> WSc2 s p) ->
  nth_error (ws (add_task s)) j = Some q -> WSc2 s q.
Proof.
  intros s j q Hw Hj. unfold add_task in Hj. simpl in Hj. destruct (qwait s); simpl in Hj; eauto.
  apply nth_error_upd_cases in Hj. destruct Hj as [->|Hj]; eauto. split; simpl; intros; discriminate.
Qed.

(* the effect of add_task on the fields of this layer *)
Lemma add_task_cases : forall s,
  (qwait s = [] /\ ws (add_task s) = ws s /\ qwait (add_task s) = []) \/
  (exists w r, qwait s = w :: r /\ ws (add_task s) = upd w WNotif (ws s) /\ qwait (add_task s) = r).
Proof.
  intros. unfold add_task. simpl. destruct (qwait s) eqn:E; simpl; auto.
  right. exists n, l. auto.
Qed.
Lemma add_task_fields : forall s,
  queue (add_task s) = S (queue s) /\ nreq (add_task s) = nreq s /\ conn (add_task s) = conn s /\
  io (add_task s) = io s.
Proof. intros. unfold add_task. simpl. destruct (qwait s); simpl; auto. Qed.

Lemma add_task_ok : forall s,
  (forall j p, nth_error (ws s) j = Some p -> WInv2 s j p) ->
  (forall w, In w (qwait s) -> nth_error (ws s) w = Some WIdle) ->
  NoDup (qwait s) -> (0 < length (ws s))%nat ->
  count_busy (ws (add_task s)) = count_busy (ws s) /\
  (forall j p, nth_error (ws (add_task s)) j = Some p ->
     (w_main p = true -> (1 <= nreq s)%nat) /\ (w_idle p = true -> In j (qwait (add_task s)))) /\
  (forall w, In w (qwait (add_task s)) -> nth_error (ws (add_task s)) w = Some WIdle) /\
  NoDup (qwait (add_task s)) /\ (0 < length (ws (add_task s)))%nat /\
  (exists j p, nth_error (ws (add_task s)) j = Some p /\ w_idle p = false) /\
  existsb w_busy (ws (add_task s)) = existsb w_busy (ws s).
Proof.
  intros s Hw Hqw Hnd Hlen.
  destruct (add_task_cases s) as [(Eq & Ews & Eq')|(w & r & Eq & Ews & Eq')]; rewrite Ews, Eq'.
  - repeat split; auto.
    + apply (Hw j p H).
    + intros Hi. destruct (Hw j p H) as [_ Hin]. specialize (Hin Hi). rewrite Eq in Hin. contradiction.
    + intros w Hin. contradiction.
    + constructor.
    + destruct (ws s) as [|p l] eqn:E; [simpl in Hlen; lia|].
      exists 0%nat, p. split; auto. destruct (w_idle p) eqn:Ei; auto.
      destruct (Hw 0%nat p eq_refl) as [_ Hin]. specialize (Hin Ei). rewrite Eq in Hin. contradiction.
  - assert (Hidle : nth_error (ws s) w = Some WIdle) by (apply Hqw; rewrite Eq; left; auto).
    rewrite Eq in Hnd. inversion Hnd as [|? ? Hnotin Hnd']; subst.
    repeat split.
    + apply count_busy_upd_same with (p := WIdle); auto.
    + apply nth_error_upd_inv in H. destruct H as [[-> ->]|[Hn Hj]]; [discriminate|]. apply (Hw j p Hj).
    + intros Hi. apply nth_error_upd_inv in H. destruct H as [[-> ->]|[Hn Hj]]; [discriminate|].
      destruct (Hw j p Hj) as [_ Hin]. specialize (Hin Hi). rewrite Eq in Hin. destruct Hin; [congruence|auto].
    + intros w' Hin. rewrite nth_error_upd_other; [apply Hqw; rewrite Eq; right; auto|].
      intro; subst. contradiction.
    + auto.
    + rewrite length_upd. auto.
    + exists w, WNotif. split; [eapply nth_error_upd_same; eauto | reflexivity].
    + destruct (existsb w_busy (ws s)) eqn:E.
      * eapply existsb_upd_keep; eauto.
      * destruct (existsb w_busy (upd w WNotif (ws s))) eqn:E'; auto.
        apply existsb_ex in E'. destruct E' as (j & p & Hj & Hp).
        apply nth_error_upd_inv in Hj. destruct Hj as [[-> ->]|[Hn Hj]]; [discriminate|].
        rewrite (existsb_nth _ _ _ _ _ Hj Hp) in E. discriminate.
Qed.

Lemma winv2_notify : forall s s' j q,
  nreq s' = nreq s -> qwait s' = qwait s ->
  (forall j p, nth_error (ws s) j = Some p -> WInv2 s j p) ->
  nth_error (notify_o (ws s)) j = Some q -> WInv2 s' j q.
Proof.
  intros s s' j q Hn Hq Hw Hj. destruct (notify_o_nth _ _ _ Hj) as (p & Hp & [->|[Pp ->]]);
    specialize (Hw _ _ Hp); unfold WInv2 in *; rewrite Hn, Hq; auto.
  rewrite main_notified, idle_notified. auto.
Qed.

Lemma notify_o_idle : forall l w, nth_error l w = Some WIdle -> nth_error (notify_o l) w = Some WIdle.
Proof.
  intros. destruct (notify_o_fwd _ _ _ H) as [H1|[H1 _]]; auto. discriminate.
Qed.

Lemma notify_o_nonidle : forall l,
  (exists j p, nth_error l j = Some p /\ w_idle p = false) ->
  exists j p, nth_error (notify_o l) j = Some p /\ w_idle p = false.
Proof.
  intros l (j & p & Hj & Hp). destruct (notify_o_fwd _ _ _ Hj) as [H1|[_ H1]].
  - exists j, p. auto.
  - exists j, (notified p). rewrite idle_notified. auto.
Qed.

Ltac inv2_pre :=
  match goal with
  | H : Inv2 _ |- _ => destruct H as [Htok Hq Hw Hsc Hqw Hnd Hlen Hq1 Hfl Hs1]
  end; unfold pendadd in *.

Lemma inv2_step_io : forall c s ch s' l,
  Inv1 s -> Inv2 s -> step_io c s ch = Some (s', l) -> Inv2 s'.
Proof.
  intros c s ch s' l [Ho Hr Hw1 He] HI H. inv2_pre. unfold step_io in H. step_cases H; free_hyps.
  all: unfold after_read, turn_start, hc_return, goio in *.
  all: repeat match goal with |- context [if ?b then _ else _] => destruct b eqn:? end.
  all: cbv [io_holds_o io_holds_r hc_locked hc_is_sc io_sc] in Ho, Hr, Hfl; simpl in Hfl, Htok, Hs1.
  all: repeat match goal with
              | H : _ && _ = true |- _ => apply andb_true_iff in H; destruct H
              | H : (_ =? _)%nat = true |- _ => apply Nat.eqb_eq in H
              | H : (_ =? _)%nat = false |- _ => apply Nat.eqb_neq in H
              | H : (_ <? _)%nat = true |- _ => apply Nat.ltb_lt in H
              | H : (_ <? _)%nat = false |- _ => apply Nat.ltb_ge in H
              end.
  (* steps that leave ws, queue, nreq, qwait, conn alone *)
  all: try (constructor; simpl; unfold pendadd; simpl;
            try match goal with E : io _ = _ |- _ => rewrite ?E; simpl end;
            auto; try lia; try (intros; discriminate);
            try (intros j p Hj; apply (Hw j p Hj));
            try (intros j p Hj; destruct (Hsc j p Hj); split; auto; fail); fail).
  - (* requests.append *)
    specialize (Hr eq_refl).
    assert (Hb0 : nreq s = 0%nat -> count_busy (ws s) = 0%nat).
    { intros Hn. apply count_busy_none. intros j p Hj. unfold w_busy.
      destruct (w_main p) eqn:Em.
      - destruct (Hw j p Hj) as [Hm _]. specialize (Hm Em). lia.
      - destruct (w_chain p) eqn:Ec; auto.
        destruct (Hw1 j p Hj) as (_ & Hrr & _).
        assert (w_holds_r p = true) by (destruct p; simpl in Ec; try discriminate; reflexivity).
        specialize (Hrr H). congruence. }
    constructor; simpl; unfold pendadd; simpl; auto; try lia; try (intros; discriminate).
    + destruct (nreq s) eqn:En; simpl; [specialize (Hb0 eq_refl)|]; try lia.
    + intros j p Hj. destruct (Hw j p Hj). unfold WInv2; simpl. split; auto; intros; lia.
    + intros j p Hj. destruct (Hw1 j p Hj) as (_ & Hrr & _). unfold WSc2; simpl.
      split; intros Hx; exfalso;
        (assert (Hh : w_holds_r p = true) by (destruct p; simpl in Hx; try discriminate; reflexivity));
        specialize (Hrr Hh); congruence.
    + intros _. destruct (nreq s) eqn:En; simpl; auto.
      destruct Hs1 as [H1|[H1|[H1|H1]]]; auto; try lia.
  - (* add_task from received() *)
    destruct (add_task_ok s Hw Hqw Hnd Hlen) as (A1 & A2 & A3 & A4 & A5 & A6 & A7).
    destruct (add_task_fields s) as (F1 & F2 & F3 & F4).
    constructor; simpl; unfold pendadd; simpl; rewrite ?F1, ?F2, ?F3, ?A1, ?A7; auto; try lia;
      try (intros; discriminate).
    + intros j p Hj. destruct (A2 j p Hj). unfold WInv2; simpl. rewrite F2. split; auto.
    + intros j p Hj. pose proof (wsc2_add_task s j p Hsc Hj) as Hx. unfold WSc2 in *. simpl. rewrite F2, F3. exact Hx.
  - constructor; simpl; unfold pendadd; simpl;
       rewrite ?count_busy_notify_o, ?existsb_busy_notify_o, ?length_notify_o;
       auto; try lia; try (intros; discriminate);
       try (intros j p Hj; apply (winv2_notify s _ j p eq_refl eq_refl Hw Hj));
       try (intros j p Hj; apply (wsc2_notify s _ j p eq_refl eq_refl Hsc Hj));
       try (intros w Hin; apply notify_o_idle; auto);
       try (intros Hx; apply notify_o_nonidle; auto);
       try (destruct k; simpl in *; auto).
  - constructor; simpl; unfold pendadd; simpl;
       rewrite ?count_busy_notify_o, ?existsb_busy_notify_o, ?length_notify_o;
       auto; try lia; try (intros; discriminate);
       try (intros j p Hj; apply (winv2_notify s _ j p eq_refl eq_refl Hw Hj));
       try (intros j p Hj; apply (wsc2_notify s _ j p eq_refl eq_refl Hsc Hj));
       try (intros w Hin; apply notify_o_idle; auto);
       try (intros Hx; apply notify_o_nonidle; auto);
       try (destruct k; simpl in *; auto).
  - constructor; simpl; unfold pendadd; simpl;
       rewrite ?count_busy_notify_o, ?existsb_busy_notify_o, ?length_notify_o;
       auto; try lia; try (intros; discriminate);
       try (intros j p Hj; apply (winv2_notify s _ j p eq_refl eq_refl Hw Hj));
       try (intros j p Hj; apply (wsc2_notify s _ j p eq_refl eq_refl Hsc Hj));
       try (intros w Hin; apply notify_o_idle; auto);
       try (intros Hx; apply notify_o_nonidle; auto);
       try (destruct k; simpl in *; auto).
Qed.

Lemma wsc2_upd : forall s s' i p',
  (forall j p, nth_error (ws s) j = Some p -> WSc2 s p) -> ws s' = upd i p' (ws s) ->
  (nreq s = 0%nat -> nreq s' = 0%nat) -> (conn s = false -> conn s' = false) -> WSc2 s' p' ->
  forall j p, nth_error (ws s') j = Some p -> WSc2 s' p.
Proof.
  intros s s' i p' H Ews Hn Hc Hp' j p Hj. rewrite Ews in Hj. apply nth_error_upd_inv in Hj.
  destruct Hj as [[-> ->]|[_ Hj]]; auto. destruct (H _ _ Hj) as [A B]. split; intros Hx.
  - auto.
  - destruct (B Hx); auto.
Qed.

(* a worker moves between two program points of the same class; nothing else of this layer changes *)
Lemma inv2_upd_same : forall s s' i pc p',
  Inv2 s -> nth_error (ws s) i = Some pc -> ws s' = upd i p' (ws s) -> WSc2 s p' ->
  queue s' = queue s -> qwait s' = qwait s -> nreq s' = nreq s -> conn s' = conn s -> io s' = io s ->
  w_busy p' = w_busy pc -> (w_main p' = true -> w_main pc = true) ->
  w_idle p' = false -> w_idle pc = false -> Inv2 s'.
Proof.
  intros s s' i pc p' HI Hg Ews Hp' Eq Eqw En Ec Eio Hb Hm Hi' Hi. inv2_pre.
  assert (Hsc' : forall j p, nth_error (ws s') j = Some p -> WSc2 s' p).
  { apply (wsc2_upd s s' i p' Hsc Ews); try congruence. unfold WSc2 in *. rewrite En, Ec. exact Hp'. }
  constructor; unfold pendadd; try exact Hsc'; rewrite ?Ews, ?Eq, ?Eqw, ?En, ?Ec, ?Eio; auto.
  - rewrite (count_busy_upd_same _ _ _ _ Hg); auto.
  - intros j p Hj. apply nth_error_upd_inv in Hj. destruct Hj as [[-> ->]|[Hn Hj]].
    + destruct (Hw _ _ Hg) as [Hm0 _]. unfold WInv2. rewrite En, Eqw. split; auto. intros. congruence.
    + specialize (Hw _ _ Hj). unfold WInv2 in *. rewrite En, Eqw. auto.
  - intros w Hin. specialize (Hqw w Hin). rewrite nth_error_upd_other; auto.
    intro; subst. rewrite Hg in Hqw. inversion Hqw; subst. discriminate.
  - rewrite length_upd; auto.
  - intros _. exists i, p'. split; auto. eapply nth_error_upd_same; eauto.
  - intros Hn. destruct (Hs1 Hn) as [H1|[H1|[H1|H1]]]; auto.
    right; right; right. eapply existsb_upd_keep; eauto. rewrite Hb. destruct (w_busy pc); auto.
Qed.

Lemma busy_exclusive : forall s i pc,
  (queue s + count_busy (ws s) + pendadd s <= 1)%nat ->
  nth_error (ws s) i = Some pc -> w_busy pc = true ->
  queue s = 0%nat /\ pendadd s = 0%nat /\ count_busy (ws s) = 1%nat /\
  (forall j p, j <> i -> nth_error (ws s) j = Some p -> w_busy p = false).
Proof.
  intros s i pc Htok Hg Hb. pose proof (count_busy_ge _ _ _ Hg) as Hge. rewrite Hb in Hge. simpl in Hge.
  repeat split; try lia.
  intros j p Hn Hj. pose proof (count_busy_two _ _ _ _ _ Hn Hj Hg) as H2. rewrite Hb in H2.
  destruct (w_busy p); auto. simpl in H2. lia.
Qed.

Lemma NoDup_app_single : forall (l : list nat) x, NoDup l -> ~ In x l -> NoDup (l ++ [x]).
Proof.
  induction l; simpl; intros.
  - repeat constructor; auto.
  - inversion H; subst. constructor.
    + intro Hin. apply in_app_or in Hin. destruct Hin as [Hin|[<-|[]]]; auto.
    + apply IHl; auto.
Qed.

(* handler_thread finds the queue empty and waits *)
Lemma inv2_go_idle : forall s i pc,
  Inv2 s -> nth_error (ws s) i = Some pc -> w_busy pc = false -> w_idle pc = false -> queue s = 0%nat ->
  Inv2 (set_qwait (set_ws s (upd i WIdle (ws s))) (qwait s ++ [i])).
Proof.
  intros s i pc HI Hg Hb Hi Hq0. inv2_pre.
  assert (Hsc' : forall j p, nth_error (upd i WIdle (ws s)) j = Some p -> WSc2 s p).
  { intros j p Hj. apply nth_error_upd_inv in Hj. destruct Hj as [[-> ->]|[_ Hj]]; eauto. split; simpl; intros; discriminate. }
  assert (Hnotin : ~ In i (qwait s)).
  { intro Hin. specialize (Hqw _ Hin). rewrite Hg in Hqw. inversion Hqw; subst. discriminate. }
  constructor; simpl; unfold pendadd; simpl; try exact Hsc'; auto; try lia.
  - rewrite (count_busy_upd_same _ _ _ _ Hg); auto.
  - intros j p Hj. apply nth_error_upd_inv in Hj. destruct Hj as [[-> ->]|[Hn Hj]].
    + split; simpl; intros; try discriminate. apply in_or_app. right. left. auto.
    + destruct (Hw _ _ Hj). split; auto. intros. apply in_or_app. auto.
  - intros w Hin. apply in_app_or in Hin. destruct Hin as [Hin|[<-|[]]].
    + rewrite nth_error_upd_other; auto. intro; subst. contradiction.
    + eapply nth_error_upd_same; eauto.
  - apply NoDup_app_single; auto.
  - rewrite length_upd; auto.
  - intros Hn. destruct (Hs1 Hn) as [H1|[H1|[H1|H1]]]; auto.
    right; right; right. eapply existsb_upd_keep; eauto.
Qed.

(* handler_thread takes the channel from the queue *)
Lemma inv2_take : forall s i pc n,
  Inv2 s -> nth_error (ws s) i = Some pc -> w_busy pc = false -> w_idle pc = false -> queue s = S n ->
  Inv2 (set_ws (set_queue s n) (upd i WSvc (ws s))).
Proof.
  intros s i pc n HI Hg Hb Hi Hq0. inv2_pre.
  pose proof (count_busy_upd _ _ _ WSvc Hg) as Hc. rewrite Hb in Hc. simpl in Hc.
  assert (Hn1 : (1 <= nreq s)%nat) by (apply Hq; lia).
  assert (Hsc' : forall j p, nth_error (upd i WSvc (ws s)) j = Some p -> WSc2 s p).
  { intros j p Hj. apply nth_error_upd_inv in Hj. destruct Hj as [[-> ->]|[_ Hj]]; eauto. split; simpl; intros; discriminate. }
  constructor; simpl; unfold pendadd; simpl; try exact Hsc'; auto; try lia.
  - intros j p Hj. apply nth_error_upd_inv in Hj. destruct Hj as [[-> ->]|[Hn Hj]].
    + split; simpl; intros; auto. discriminate.
    + apply (Hw _ _ Hj).
  - intros w Hin. specialize (Hqw w Hin). rewrite nth_error_upd_other; auto.
    intro; subst. rewrite Hg in Hqw. inversion Hqw; subst. discriminate.
  - rewrite length_upd; auto.
  - intros _. right; right; right. eapply existsb_upd_new; eauto.
Qed.

(* a worker stops owning the channel without passing it on: requests is empty now, or the
   channel is not connected any more *)
Lemma inv2_leave : forall s s' i pc p',
  Inv2 s -> nth_error (ws s) i = Some pc -> w_busy pc = true -> w_busy p' = false -> w_idle p' = false ->
  w_sc p' = false ->
  ws s' = upd i p' (ws s) -> queue s' = queue s -> qwait s' = qwait s -> conn s' = conn s -> io s' = io s ->
  (nreq s' = nreq s \/ nreq s' = 0%nat) -> (nreq s' = 0%nat \/ conn s = false) -> Inv2 s'.
Proof.
  intros s s' i pc p' HI Hg Hb Hb' Hi' Hnsc Ews Eq Eqw Ec Eio En Hwhy.
  destruct (busy_exclusive s i pc (i2_tok _ HI) Hg Hb) as (Hq0 & Hpa & Hcb & Hoth). inv2_pre.
  assert (Hsc' : forall j p, nth_error (ws s') j = Some p -> WSc2 s' p).
  { apply (wsc2_upd s s' i p' Hsc Ews).
    - intros Hz. destruct En as [->| ->]; auto.
    - congruence.
    - split; intros Hx; [congruence|]. rewrite Ec. exact Hwhy. }
  pose proof (count_busy_upd _ _ _ p' Hg) as Hc. rewrite Hb, Hb' in Hc. simpl in Hc.
  assert (Hpa' : match io s with IoRcvAdd _ _ => if (nreq s' =? 1)%nat then 1%nat else 0%nat | _ => 0%nat end = 0%nat).
  { destruct (io s); auto. destruct En as [->| ->]; auto. }
  constructor; unfold pendadd; try exact Hsc'; rewrite ?Ews, ?Eq, ?Eqw, ?Ec, ?Eio; auto; try lia.
  - intros j p Hj. apply nth_error_upd_inv in Hj. destruct Hj as [[-> ->]|[Hn Hj]].
    + split; rewrite ?Eqw; intros; try congruence.
      unfold w_busy in Hb'. apply orb_false_iff in Hb'. destruct Hb'. congruence.
    + specialize (Hoth _ _ Hn Hj). destruct (Hw _ _ Hj) as [_ Hid]. split; rewrite ?Eqw; auto.
      intros Hm. unfold w_busy in Hoth. rewrite Hm in Hoth. discriminate.
  - intros w Hin. specialize (Hqw w Hin). rewrite nth_error_upd_other; auto.
    intro; subst. rewrite Hg in Hqw. inversion Hqw; subst. discriminate.
  - rewrite length_upd; auto.
  - intros Hf. specialize (Hfl Hf). destruct En as [->| ->]; auto.
  - intros Hn. destruct Hwhy as [H0|H0]; [lia|auto].
Qed.

(* requests.pop(0) *)
Lemma inv2_pop : forall s i,
  Inv1 s -> Inv2 s -> nth_error (ws s) i = Some WK4 ->
  Inv2 (set_ws (set_nreq s (pred (nreq s))) (upd i WK5 (ws s))).
Proof.
  intros s i HI1 HI Hg.
  destruct (busy_exclusive s i WK4 (i2_tok _ HI) Hg eq_refl) as (Hq0 & Hpa & Hcb & Hoth).
  assert (Hio : match io s with IoRcvAdd _ _ => False | _ => True end).
  { destruct HI1 as [_ Hr Hw1 _]. destruct (Hw1 _ _ Hg) as (_ & Hrr & _). specialize (Hrr eq_refl).
    destruct (io s); auto. simpl in Hr. specialize (Hr eq_refl). congruence. }
  inv2_pre.
  pose proof (count_busy_upd_same _ _ _ WK5 Hg eq_refl) as Hc.
  assert (Hsc' : forall j p, nth_error (upd i WK5 (ws s)) j = Some p ->
                             WSc2 (set_ws (set_nreq s (pred (nreq s))) (upd i WK5 (ws s))) p).
  { apply (wsc2_upd s (set_ws (set_nreq s (pred (nreq s))) (upd i WK5 (ws s))) i WK5 Hsc eq_refl); simpl; auto.
    - intros Hz. rewrite Hz. reflexivity.
    - split; simpl; intros; discriminate. }
  constructor; simpl; unfold pendadd; simpl; try exact Hsc'; auto; try lia.
  - rewrite Hc. destruct (io s); try lia; try contradiction.
  - intros j p Hj. apply nth_error_upd_inv in Hj. destruct Hj as [[-> ->]|[Hn Hj]].
    + split; simpl; intros; discriminate.
    + specialize (Hoth _ _ Hn Hj). destruct (Hw _ _ Hj) as [_ Hid]. split; auto.
      intros Hm. unfold w_busy in Hoth. rewrite Hm in Hoth. discriminate.
  - intros w Hin. specialize (Hqw w Hin). rewrite nth_error_upd_other; auto.
    intro; subst. rewrite Hg in Hqw. discriminate.
  - rewrite length_upd; auto.
  - intros Hf. specialize (Hfl Hf). rewrite Hfl. reflexivity.
  - intros _. right; right; right. eapply existsb_upd_new; eauto.
Qed.

(* the worker found another request and submits the channel again *)
Lemma inv2_chain_add : forall s i,
  Inv2 s -> nth_error (ws s) i = Some WK5b -> (0 < nreq s)%nat ->
  Inv2 (set_ws (add_task s) (upd i WK7 (ws (add_task s)))).
Proof.
  intros s i HI Hg Hn0.
  destruct (busy_exclusive s i WK5b (i2_tok _ HI) Hg eq_refl) as (Hq0 & Hpa & Hcb & Hoth).
  inv2_pre.
  destruct (add_task_ok s Hw Hqw Hnd Hlen) as (A1 & A2 & A3 & A4 & A5 & A6 & A7).
  destruct (add_task_fields s) as (F1 & F2 & F3 & F4).
  assert (Hg' : nth_error (ws (add_task s)) i = Some WK5b).
  { destruct (add_task_cases s) as [(_ & Ews & _)|(w & r & Eq & Ews & _)]; rewrite Ews; auto.
    rewrite nth_error_upd_other; auto. intro; subst.
    assert (nth_error (ws s) i = Some WIdle) by (apply Hqw; rewrite Eq; left; auto). congruence. }
  pose proof (count_busy_upd _ _ _ WK7 Hg') as Hc. simpl in Hc.
  assert (Hsc' : forall j p, nth_error (upd i WK7 (ws (add_task s))) j = Some p ->
                             WSc2 (set_ws (add_task s) (upd i WK7 (ws (add_task s)))) p).
  { intros j p Hj. apply nth_error_upd_inv in Hj. destruct Hj as [[-> ->]|[_ Hj]].
    - split; simpl; intros; discriminate.
    - pose proof (wsc2_add_task s j p Hsc Hj) as Hx. unfold WSc2 in *. simpl. rewrite F2, F3. exact Hx. }
  constructor; simpl; unfold pendadd; simpl; try exact Hsc'; rewrite ?F1, ?F2, ?F3, ?F4; auto; try lia.
  - intros j p Hj. apply nth_error_upd_inv in Hj. destruct Hj as [[-> ->]|[Hn Hj]].
    + split; simpl; intros; discriminate.
    + destruct (A2 _ _ Hj). unfold WInv2; simpl; rewrite F2. split; auto.
  - intros w Hin. specialize (A3 w Hin). rewrite nth_error_upd_other; auto.
    intro; subst. congruence.
  - rewrite length_upd; auto.
  - intros _. exists i, WK7. split; auto. eapply nth_error_upd_same; eauto.
Qed.

Lemma inv2_step_w : forall c s i ch s' l,
  Inv1 s -> Inv2 s -> step_w c s i ch = Some (s', l) -> Inv2 s'.
Proof.
  intros c s i ch s' l HI1 HI H. unfold step_w in H.
  destruct (getw s i) as [pc|] eqn:Hg; [|discriminate]. unfold getw in Hg.
  destruct (i2_sc _ HI _ _ Hg) as (Hsc1 & Hsc2).
  step_cases H; free_hyps; simpl in Hsc1, Hsc2.
  all: unfold setw, hw_exit in *.
  all: repeat match goal with |- context [if ?b then _ else _] => destruct b eqn:? end.
  all: repeat match goal with |- context [match ?b with SWr _ => _ | SEnd => _ end] => destruct b eqn:? end.
  all: repeat match goal with
              | H : _ && _ = true |- _ => apply andb_true_iff in H; destruct H
              end.
  all: try (eapply (inv2_upd_same s _ i _ _ HI Hg); simpl;
            first [ reflexivity | (intros; discriminate)
                  | (split; simpl; intros; try discriminate; auto;
                     try (destruct (Hsc2 eq_refl); [assumption | congruence]); fail)
                  | auto ]; fail).
  all: try (destruct HI; constructor; simpl; auto; fail).
  all: let n := numgoals in idtac "remaining" n.
  - apply (inv2_go_idle s i _ HI Hg); auto.
  - apply (inv2_take s i _ n HI Hg); auto.
  - apply (inv2_go_idle s i _ HI Hg); auto.
  - apply (inv2_take s i _ n HI Hg); auto.
  - eapply (inv2_leave s _ i _ _ HI Hg); simpl; auto; try reflexivity.
  - apply (inv2_pop s i HI1 HI Hg).
  - eapply (inv2_leave s _ i _ _ HI Hg); simpl; auto; try reflexivity.
  - apply Nat.ltb_lt in Heqb. apply (inv2_chain_add s i HI Hg Heqb).
  - apply Nat.ltb_ge in Heqb. eapply (inv2_leave s _ i _ _ HI Hg); simpl; auto; try reflexivity. left. lia.
Qed.

Lemma inv2_step : forall c s ch s' l,
  Inv1 s -> Inv2 s -> step c s ch = Some (s', l) -> Inv2 s'.
Proof.
  intros c s ch s' l HI1 HI H. unfold step in H. destruct ch;
    try (eapply inv2_step_io; eauto; fail); try (eapply inv2_step_w; eauto; fail).
  - destruct (gone s); [discriminate|]. inversion H; subst. destruct HI. constructor; simpl; auto.
  - destruct (gone s); [discriminate|]. inversion H; subst. destruct HI. constructor; simpl; auto.
Qed.

Lemma add_task_nth_keep : forall s i p,
  Inv2 s -> nth_error (ws s) i = Some p -> w_idle p = false -> nth_error (ws (add_task s)) i = Some p.
Proof.
  intros s i p HI Hi Hp. destruct (add_task_cases s) as [(_ & -> & _)|(w & r & Eq & -> & _)]; auto.
  rewrite nth_error_upd_other; auto. intro; subst.
  assert (Hw : nth_error (ws s) i = Some WIdle) by (apply (i2_qw _ HI); rewrite Eq; left; auto).
  rewrite Hw in Hi. inversion Hi; subst. discriminate.
Qed.

