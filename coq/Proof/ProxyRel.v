(* Two-run (relational) reasoning about parse_proxy_headers: if two environs
   agree outside a set D of keys and the blocks that read keys inside D are
   switched off by the configuration, the two runs do the same thing and the
   resulting environs still agree outside D.  Used for C16 (c) pruning and
   (d) kinds. *)
From Coq Require Import List NArith ZArith Bool Lia.
From WV Require Import Lib.PyBytes Lib.PyStrProxy Lib.Regex Gen.GenRegex Model.Proxy Spec.ProxySpec
  Proof.ProxyDict Proof.ProxyStr Proof.ProxyStages Proof.ProxyTotal Proof.ProxyHops.
Import ListNotations.
Local Open Scope N_scope.

Definition rrelG {A} (R : A -> A -> Prop) (r1 r2 : result A) : Prop :=
  match r1, r2 with
  | Ok a, Ok b => R a b
  | Malformed h1, Malformed h2 => h1 = h2
  | Exn x, Exn y => x = y
  | _, _ => False
  end.

Lemma rrelG_bind_same {A B} (R : B -> B -> Prop) (r : result A) f1 f2 :
  (forall a, rrelG R (f1 a) (f2 a)) -> rrelG R (bind r f1) (bind r f2).
Proof. intro H. destruct r; cbn; auto. Qed.

Lemma rrelG_bind {A B} (RA : A -> A -> Prop) (RB : B -> B -> Prop) r1 r2 f1 f2 :
  rrelG RA r1 r2 -> (forall a b, RA a b -> rrelG RB (f1 a) (f2 b)) -> rrelG RB (bind r1 f1) (bind r2 f2).
Proof. intros H Hf. destruct r1, r2; cbn in *; auto; contradiction. Qed.

Lemma rrelG_catch_all {A} (R : A -> A -> Prop) h r1 r2 :
  rrelG R r1 r2 -> rrelG R (catch_all h r1) (catch_all h r2).
Proof. destruct r1, r2; cbn; auto; try contradiction. Qed.

Lemma rrelG_handler {A} (R : A -> A -> Prop) key h (e1 e2 : environ) r1 r2 :
  lookup key e1 = lookup key e2 -> rrelG R r1 r2 ->
  rrelG R (handler_single key h e1 r1) (handler_single key h e2 r2).
Proof.
  intros Hl H. destruct r1, r2; cbn in *; auto; try contradiction.
  rewrite Hl. destruct (lookup key e2); cbn; auto.
Qed.

Record rel (D : str -> bool) (s1 s2 : pst) : Prop := {
  r_env : agree D (env s1) (env s2);
  r_client : client s1 = client s2;
  r_fhost : fhost s1 = fhost s2;
  r_fproto : fproto s1 = fproto s2;
  r_fport : fport s1 = fport s2;
  r_fwd : opt_truthy (fwd s1) = opt_truthy (fwd s2);
  r_unt : unt s1 = unt s2
}.

Definition rrel D := rrelG (rel D).

Lemma rrel_refl_ok D s1 s2 : rel D s1 s2 -> rrel D (Ok s1) (Ok s2).
Proof. auto. Qed.

Ltac relrec := constructor; cbn [env client fhost fproto fport fwd unt]; auto using agree_set.

Lemma blk_xff_rel D k tph s1 s2 :
  rel D s1 s2 -> (has tph n_xff = true -> D k_xff = false) ->
  rrel D (blk_xff k tph s1) (blk_xff k tph s2).
Proof.
  intros [] HD. unfold blk_xff. destruct (has tph n_xff); [|constructor; auto].
  rewrite (r_env0 k_xff (HD eq_refl)). destruct (lookup k_xff (env s2)); [|constructor; auto].
  apply rrelG_catch_all. cbv zeta. apply rrelG_bind_same. intro cs. apply rrelG_bind_same. intro c.
  rewrite r_unt0. apply rrelG_bind_same. intro u. cbn. relrec.
Qed.

Lemma blk_xfh_rel D k tph s1 s2 :
  rel D s1 s2 -> (has tph n_xfh = true -> D k_xfh = false) ->
  rrel D (blk_xfh k tph s1) (blk_xfh k tph s2).
Proof.
  intros [] HD. unfold blk_xfh. destruct (has tph n_xfh); [|constructor; auto].
  rewrite (r_env0 k_xfh (HD eq_refl)). destruct (lookup k_xfh (env s2)); [|constructor; auto].
  apply rrelG_catch_all. cbv zeta. apply rrelG_bind_same. intro cs. apply rrelG_bind_same. intro c.
  rewrite r_unt0. apply rrelG_bind_same. intro u. cbn. relrec.
Qed.

Lemma blk_proto_rel D tph s1 s2 :
  rel D s1 s2 -> (has tph n_xfproto = true -> D k_xfproto = false) ->
  rrel D (blk_proto tph s1) (blk_proto tph s2).
Proof.
  intros [] HD. unfold blk_proto. destruct (has tph n_xfproto); [|constructor; auto].
  pose proof (r_env0 k_xfproto (HD eq_refl)) as Hl.
  apply rrelG_handler; [exact Hl|]. rewrite (single_value_env _ _ _ Hl), r_unt0.
  apply rrelG_bind_same. intro v. apply rrelG_bind_same. intro u. cbn. relrec.
Qed.

Lemma blk_port_rel D tph s1 s2 :
  rel D s1 s2 -> (has tph n_xfport = true -> D k_xfport = false) ->
  rrel D (blk_port tph s1) (blk_port tph s2).
Proof.
  intros [] HD. unfold blk_port. destruct (has tph n_xfport); [|constructor; auto].
  pose proof (r_env0 k_xfport (HD eq_refl)) as Hl.
  apply rrelG_handler; [exact Hl|]. rewrite (single_value_env _ _ _ Hl), r_unt0.
  apply rrelG_bind_same. intro v. apply rrelG_bind_same. intro u. cbn. relrec.
Qed.

Lemma blk_by_rel D tph s1 s2 : rel D s1 s2 -> rrel D (blk_by tph s1) (blk_by tph s2).
Proof.
  intros []. unfold blk_by. destruct (has tph n_xfby); [|constructor; auto].
  rewrite r_unt0. apply rrelG_bind_same. intro u. cbn. relrec.
Qed.

(* forwarded = environ.get("HTTP_FORWARDED") and the block that uses it, together *)
Lemma blk_fwd_rel D k tph s1 s2 :
  rel D s1 s2 -> fwd s1 = Some [] -> fwd s2 = Some [] ->
  (has tph n_fwd = true -> D k_fwd = false) ->
  rrel D (blk_forwarded k (blk_fwd_get tph s1)) (blk_forwarded k (blk_fwd_get tph s2)).
Proof.
  intros [] F1 F2 HD. unfold blk_fwd_get. destruct (has tph n_fwd).
  - pose proof (r_env0 k_fwd (HD eq_refl)) as Hl. unfold blk_forwarded. cbn [fwd env client fhost fproto fport unt].
    rewrite Hl. destruct (lookup k_fwd (env s2)) as [[|c f]|] eqn:El; try (cbn; relrec; rewrite El; reflexivity).
    apply rrelG_bind_same. intro ps. cbv zeta.
    rewrite r_client0.
    destruct (fold_left fwd_fill _ _) as [[a b] d]. cbn. relrec.
  - unfold blk_forwarded. rewrite F1, F2. cbn. constructor; auto.
Qed.

Lemma stage_proto_rel D s1 s2 : rel D s1 s2 -> rrel D (stage_proto s1) (stage_proto s2).
Proof.
  intros []. unfold stage_proto. cbv zeta. rewrite r_fproto0, r_fwd0, r_fport0.
  destruct (truthy (fproto s2)); [|constructor; auto].
  destruct (negb (_ || _)); cbn; [reflexivity|]. relrec.
Qed.

Lemma stage_host_rel D s1 s2 : D k_url_scheme = false -> rel D s1 s2 -> rrel D (stage_host s1) (stage_host s2).
Proof.
  intros HD []. unfold stage_host. cbv zeta. rewrite r_fhost0, r_fport0, r_fwd0.
  destruct (truthy (fhost s2)); [|constructor; auto].
  destruct (last_opt (fhost s2)); [|reflexivity].
  destruct (has_char c_colon (fhost s2) && negb (n =? c_rbr)).
  - destruct (rsplit1 (fhost s2) [c_colon]) as [|a [|b [|c l]]]; cbn; try reflexivity.
    destruct (negb (truthy (strip a))); [reflexivity|]. relrec.
  - destruct (negb (truthy (strip (fhost s2)))); [reflexivity|].
    assert (Hs : lookup k_url_scheme (set k_http_host (fhost s2) (set k_server_name (fhost s2) (env s1))) =
                 lookup k_url_scheme (set k_http_host (fhost s2) (set k_server_name (fhost s2) (env s2)))).
    { apply (agree_set D k_http_host _ _ _ (agree_set D k_server_name _ _ _ r_env0)). exact HD. }
    apply rrelG_bind with (RA := agree D).
    + destruct (truthy (fport s2)); [|cbn; auto using agree_set].
      destruct (negb (beqb (fport s2) s_443 || beqb (fport s2) s_80)); [cbn; auto using agree_set|].
      rewrite Hs. clear Hs.
      destruct (beqb (fport s2) s_80); destruct (lookup k_url_scheme _); cbn [rrelG]; auto;
        destruct (negb (beqb _ _)); cbn [rrelG]; auto using agree_set.
    + intros e1 e2 He. cbn. relrec.
Qed.

Lemma stage_port_rel D s1 s2 : rel D s1 s2 -> rel D (stage_port s1) (stage_port s2).
Proof.
  intros []. unfold stage_port. rewrite r_fport0. destruct (truthy (fport s2)); relrec.
Qed.

Lemma stage_client_rel D s1 s2 : rel D s1 s2 -> rrel D (stage_client s1) (stage_client s2).
Proof.
  intros []. rewrite !stage_client_spec, r_client0.
  destruct (client s2) as [[|c0 c']|] eqn:Ec.
  - constructor; auto; congruence.
  - cbv zeta. rewrite r_fwd0. destruct (bad_client (c0 :: c')); [reflexivity|]. cbn [rrel rrelG]. relrec; try congruence.
    destruct (port_text (c0 :: c')); auto using agree_set.
  - constructor; auto; congruence.
Qed.

Lemma parse_apply_rel D s1 s2 : D k_url_scheme = false -> rel D s1 s2 -> rrel D (parse_apply s1) (parse_apply s2).
Proof.
  intros HD H. unfold parse_apply.
  apply rrelG_bind with (RA := rel D); [apply stage_proto_rel; exact H|]. intros a b Hab.
  apply rrelG_bind with (RA := rel D); [apply stage_host_rel; auto|]. intros a' b' Hab'.
  apply stage_client_rel. apply stage_port_rel. exact Hab'.
Qed.

(* the conditions under which the set D of differing keys is never read *)
Record unread (D : str -> bool) (tph : list str) : Prop := {
  ur_xff : has tph n_xff = true -> D k_xff = false;
  ur_xfh : has tph n_xfh = true -> D k_xfh = false;
  ur_proto : has tph n_xfproto = true -> D k_xfproto = false;
  ur_port : has tph n_xfport = true -> D k_xfport = false;
  ur_fwd : has tph n_fwd = true -> D k_fwd = false;
  ur_scheme : D k_url_scheme = false
}.

Lemma init_rel D e1 e2 : agree D e1 e2 -> rel D (init_pst e1) (init_pst e2).
Proof. intro H. constructor; auto. Qed.

Lemma rrel_ok_inv D r1 r2 s1 : rrel D r1 r2 -> r1 = Ok s1 -> exists s2, r2 = Ok s2 /\ rel D s1 s2.
Proof. intros H ->. destruct r2; cbn in H; try contradiction. eauto. Qed.

Lemma parse_select_rel D k tph e1 e2 : unread D tph -> agree D e1 e2 ->
  rrel D (parse_select e1 k tph) (parse_select e2 k tph).
Proof.
  intros [] Ha. unfold parse_select.
  pose proof (blk_xff_rel D k tph _ _ (init_rel D _ _ Ha) ur_xff0) as R1.
  destruct (blk_xff k tph (init_pst e1)) as [a1| |] eqn:A1, (blk_xff k tph (init_pst e2)) as [b1| |] eqn:B1;
    cbn in R1; try contradiction; cbn [bind]; auto.
  pose proof (blk_xfh_rel D k tph _ _ R1 ur_xfh0) as R2.
  destruct (blk_xfh k tph a1) as [a2| |] eqn:A2, (blk_xfh k tph b1) as [b2| |] eqn:B2;
    cbn in R2; try contradiction; cbn [bind]; auto.
  pose proof (blk_proto_rel D tph _ _ R2 ur_proto0) as R3.
  destruct (blk_proto tph a2) as [a3| |] eqn:A3, (blk_proto tph b2) as [b3| |] eqn:B3;
    cbn in R3; try contradiction; cbn [bind]; auto.
  pose proof (blk_port_rel D tph _ _ R3 ur_port0) as R4.
  destruct (blk_port tph a3) as [a4| |] eqn:A4, (blk_port tph b3) as [b4| |] eqn:B4;
    cbn in R4; try contradiction; cbn [bind]; auto.
  pose proof (blk_by_rel D tph _ _ R4) as R5.
  destruct (blk_by tph a4) as [a5| |] eqn:A5, (blk_by tph b4) as [b5| |] eqn:B5;
    cbn in R5; try contradiction; cbn [bind]; auto.
  apply blk_fwd_rel; auto.
  - apply blk_by_ok in A5 as (_ & _ & _ & _ & _ & ->).
    apply blk_port_ok in A4 as [[-> _]|(? & ? & _ & _ & _ & ->)];
    apply blk_proto_ok in A3 as [[-> _]|(? & ? & _ & _ & _ & ->)]; cbn [fwd];
    rewrite (fr_fwd _ _ (blk_xfh_frame _ _ _ _ A2)), (fr_fwd _ _ (blk_xff_frame _ _ _ _ A1)); reflexivity.
  - apply blk_by_ok in B5 as (_ & _ & _ & _ & _ & ->).
    apply blk_port_ok in B4 as [[-> _]|(? & ? & _ & _ & _ & ->)];
    apply blk_proto_ok in B3 as [[-> _]|(? & ? & _ & _ & _ & ->)]; cbn [fwd];
    rewrite (fr_fwd _ _ (blk_xfh_frame _ _ _ _ B2)), (fr_fwd _ _ (blk_xff_frame _ _ _ _ B1)); reflexivity.
Qed.

Lemma clear_agree D e1 e2 u : agree D e1 e2 -> agree D (clear_untrusted_headers e1 u) (clear_untrusted_headers e2 u).
Proof.
  intro H. unfold clear_untrusted_headers.
  destruct (u_for u), (u_host u), (u_proto u), (u_port u), (u_by u), (u_fwd u); auto 10 using agree_pop.
Qed.

(* the middleware on two environs that agree outside D *)
Lemma middleware_rel D c e1 e2 :
  unread D (tph_of c) -> D k_remote_addr = false -> agree D e1 e2 ->
  rrelG (agree D) (middleware c e1) (middleware c e2).
Proof.
  intros Hu Hra Ha. unfold middleware. rewrite (Ha k_remote_addr Hra).
  destruct (lookup k_remote_addr e2) as [peer|]; [|reflexivity].
  destruct (opt_str_eqb (trusted_proxy c) (Some s_star) || opt_str_eqb (Some peer) (trusted_proxy c)).
  - unfold parse_proxy_headers. fold (tph_of c).
    pose proof (parse_select_rel D (trusted_proxy_count c) (tph_of c) e1 e2 Hu Ha) as R1.
    destruct (parse_select e1 _ _) as [a| |], (parse_select e2 _ _) as [b| |]; cbn in R1; try contradiction; cbn [bind]; auto.
    pose proof (parse_apply_rel D a b (ur_scheme _ _ Hu) R1) as R2.
    destruct (parse_apply a) as [a'| |], (parse_apply b) as [b'| |]; cbn in R2; try contradiction; cbn [bind]; auto.
    destruct R2. cbn. rewrite r_unt0. destruct (clear_untrusted c); auto using clear_agree.
  - cbn. destruct (clear_untrusted c); auto. repeat apply agree_pop. exact Ha.
Qed.
