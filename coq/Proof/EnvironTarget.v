(* The request-line part of the environ: percent-decoding, the target
   components, the leading-slash rule and the url_prefix split of the model
   against Spec/Pep3333; the method is an upper-case ASCII token. *)
From Coq Require Import List NArith ZArith Bool Lia.
From RecordUpdate Require Import RecordUpdate.
From WV Require Import Lib.PyBytes Lib.Regex Lib.RegexDec Gen.GenRegex Model.Receiver Model.UrlSplit Model.Parser
  Model.Environ Spec.Pep3333 Proof.EnvironDict Proof.EnvironFields.
Import ListNotations.
Local Open Scope N_scope.

(* ------------------------------------------------------------------ *)
(* percent-decoding *)

Lemma hexval_hexdig x : hexval x = hexdig x.
Proof.
  unfold hexval, hexdig, digit.
  destruct ((48 <=? x) && (x <=? 57)) eqn:D; auto.
  destruct ((97 <=? x) && (x <=? 102)) eqn:L; destruct ((65 <=? x) && (x <=? 70)) eqn:U; auto.
  apply andb_true_iff in L as [L1 L2]. apply andb_true_iff in U as [U1 U2].
  apply N.leb_le in L1. apply N.leb_le in U2. lia.
Qed.

Lemma unquote_fuel_step f x s :
  unquote_fuel (S f) (x :: s) =
  if x =? 37 then
    match s with
    | a :: b :: s' =>
      match hexval a, hexval b with
      | Some ha, Some hb => (16 * ha + hb) :: unquote_fuel f s'
      | _, _ => x :: unquote_fuel f s
      end
    | _ => x :: unquote_fuel f s
    end
  else x :: unquote_fuel f s.
Proof.
  destruct (x =? 37) eqn:E.
  - apply N.eqb_eq in E. subst x. destruct s as [|a [|b s']]; reflexivity.
  - destruct s as [|a [|b s']];
      (destruct x as [|p]; [reflexivity|];
       do 6 (try (destruct p as [p|p|]; try reflexivity)); try reflexivity; try discriminate E).
Qed.

Lemma unquote_fuel_pct : forall f s, (length s < f)%nat -> unquote_fuel f s = pct_decode s.
Proof.
  induction f as [|f IH]; intros s H; [lia|].
  destruct s as [|x s]; [reflexivity|].
  rewrite unquote_fuel_step. cbn [pct_decode]. cbn [length] in H.
  destruct (x =? 37).
  - destruct s as [|a [|b s']].
    + rewrite IH by (cbn [length] in *; lia). reflexivity.
    + rewrite IH by (cbn [length] in *; lia). reflexivity.
    + rewrite <- !hexval_hexdig. cbn [length] in H.
      destruct (hexval a), (hexval b); rewrite IH by (cbn [length] in *; lia); reflexivity.
  - rewrite IH by lia. reflexivity.
Qed.

Lemma unquote_pct s : unquote_to_bytes s = pct_decode s.
Proof. unfold unquote_to_bytes. apply unquote_fuel_pct. lia. Qed.

(* ------------------------------------------------------------------ *)
(* find / firstn / skipn against until / from *)

Definition cut1 (s : bytes) (c : N) : bytes * bytes :=
  match find s [c] with
  | Some i => (firstn i s, skipn (S i) s)
  | None => (s, [])
  end.

Definition tail_of (s : bytes) : bytes := match s with _ :: r => r | [] => [] end.

Lemma cut1_spec c s : cut1 s c = (until (N.eqb c) s, tail_of (from (N.eqb c) s)).
Proof.
  unfold cut1, find. induction s as [|x s IH].
  - reflexivity.
  - cbn [find_from]. rewrite startswith_single. cbn [until from].
    destruct (c =? x) eqn:E.
    + reflexivity.
    + rewrite find_from_shift. destruct (find_from s [c] 0) as [i|]; cbn [option_map].
      * cbn [firstn skipn]. injection IH as IH1 IH2. rewrite IH1.
        cbn [skipn] in IH2. rewrite <- IH2. reflexivity.
      * injection IH as IH1 IH2. rewrite <- IH1 at 1. rewrite <- IH2. reflexivity.
Qed.

Lemma path_query_cut s :
  until (N.eqb 63) (until (N.eqb 35) s) = until path_end s /\
  tail_of (from (N.eqb 63) (until (N.eqb 35) s)) =
  match from path_end s with
  | x :: q => if x =? 63 then until (N.eqb 35) q else []
  | [] => []
  end.
Proof.
  induction s as [|x s [IH1 IH2]]; [split; reflexivity|].
  unfold path_end in *. cbn [until from].
  rewrite (N.eqb_sym 35 x).
  destruct (x =? 35) eqn:E35.
  - apply N.eqb_eq in E35. subst x. split; reflexivity.
  - cbn [until from]. rewrite (N.eqb_sym 63 x). destruct (x =? 63) eqn:E63; cbn [orb].
    + rewrite E63. split; reflexivity.
    + split; [f_equal; exact IH1 | exact IH2].
Qed.

(* the model's "#" then "?" split of what is left of the target *)
Lemma tail_cut u :
  let '(u5, fragment) := cut1 u 35 in
  let '(path, query) := cut1 u5 63 in
  path = until path_end u /\
  query = match from path_end u with
          | x :: q => if x =? 63 then until (N.eqb 35) q else []
          | [] => []
          end.
Proof.
  rewrite cut1_spec. rewrite cut1_spec. apply path_query_cut.
Qed.

Lemma firstn2_two_slashes u : beqb (firstn 2 u) [47; 47] = two_slashes u.
Proof.
  destruct u as [|x [|y r]]; try reflexivity.
  - cbn. rewrite andb_false_r. reflexivity.
  - cbn [firstn beqb two_slashes]. rewrite andb_true_r. reflexivity.
Qed.

Lemma startswith_two_slashes u : startswith u [47; 47] = two_slashes u.
Proof.
  destruct u as [|x [|y r]]; try reflexivity.
  - cbn. rewrite andb_false_r. reflexivity.
  - cbn [startswith two_slashes]. rewrite (N.eqb_sym 47 x), (N.eqb_sym 47 y).
    destruct r; rewrite andb_true_r; reflexivity.
Qed.

Lemma cut_at_spec f s : cut_at f s = (until f s, from f s).
Proof.
  unfold cut_at.
  set (go := fix go (s acc : bytes) {struct s} : bytes * bytes :=
               match s with
               | [] => (rev acc, [])
               | x :: s' => if f x then (rev acc, s) else go s' (x :: acc)
               end).
  assert (G : forall s acc, go s acc = (rev acc ++ until f s, from f s)).
  { induction s0 as [|x s0 IH]; intro acc; cbn [go until from].
    - rewrite app_nil_r. reflexivity.
    - destruct (f x).
      + rewrite app_nil_r. reflexivity.
      + rewrite IH. cbn [rev]. rewrite <- app_assoc. reflexivity. }
  rewrite G. reflexivity.
Qed.

(* ------------------------------------------------------------------ *)
(* urlsplit in stages *)

Definition us_scheme (url2 : bytes) : bytes * bytes :=
  match find url2 [58] with
  | Some (S i') =>
    let i := S i' in
    match url2 with
    | c0 :: _ =>
      if is_alpha c0 && forallb is_scheme_char (firstn i url2)
      then (lower_ascii (firstn i url2), skipn (S i) url2)
      else ([], url2)
    | [] => ([], url2)
    end
  | _ => ([], url2)
  end.

Definition us_netloc (url3 : bytes) : bytes * bytes * N :=
  if startswith url3 [47; 47] then
    let rest := skipn 2 url3 in
    let '(nl, u) := cut_at (fun x => (x =? 47) || (x =? 63) || (x =? 35)) rest in
    let hasl := memb 91 nl in
    let hasr := memb 93 nl in
    (nl, u, if hasl && hasr then 2 else if hasl || hasr then 1 else 0)
  else ([], url3, 0).

Definition us_tail (scheme netloc url4 : bytes) : usplit :=
  let '(url5, fragment) :=
    match find url4 [35] with
    | Some i => (firstn i url4, skipn (S i) url4)
    | None => (url4, [])
    end in
  let '(path, query) :=
    match find url5 [63] with
    | Some i => (firstn i url5, skipn (S i) url5)
    | None => (url5, [])
    end in
  UOk scheme netloc path query fragment.

Lemma urlsplit_stages url0 :
  urlsplit url0 =
  if existsb (fun x => 128 <=? x) url0 then UUnicodeError else
  let url1 := lstrip_by is_c0_or_space url0 in
  let url2 := filter (fun x => negb ((x =? 9) || (x =? 13) || (x =? 10))) url1 in
  let '(scheme, url3) := us_scheme url2 in
  let '(netloc, url4, bad) := us_netloc url3 in
  if bad =? 1 then UValueError else
  if bad =? 2 then UUnmodelled else
  us_tail scheme netloc url4.
Proof. reflexivity. Qed.

Lemma scheme_rest_find s :
  match find s [58] with
  | Some j => scheme_rest s = if forallb is_scheme_char (firstn j s) then Some (skipn (S j) s) else None
  | None => scheme_rest s = None
  end.
Proof.
  unfold find. induction s as [|x s IH].
  - reflexivity.
  - cbn [find_from]. rewrite startswith_single. cbn [scheme_rest].
    rewrite (N.eqb_sym 58 x). destruct (x =? 58) eqn:E.
    + reflexivity.
    + rewrite find_from_shift. destruct (find_from s [58] 0) as [j|]; cbn [option_map].
      * cbn [firstn forallb skipn]. change (scheme_char x) with (is_scheme_char x).
        destruct (is_scheme_char x); cbn [andb]; [exact IH|reflexivity].
      * rewrite IH. destruct (scheme_char x); reflexivity.
Qed.

Lemma us_scheme_spec t :
  snd (us_scheme t) = match after_scheme t with Some r => r | None => t end.
Proof.
  unfold us_scheme, after_scheme. destruct t as [|c0 t'].
  - reflexivity.
  - unfold find. cbn [find_from]. rewrite startswith_single.
    destruct (58 =? c0) eqn:E.
    + apply N.eqb_eq in E. subst c0. reflexivity.
    + rewrite find_from_shift. pose proof (scheme_rest_find t') as SR. unfold find in SR.
      destruct (find_from t' [58] 0) as [j|]; cbn [option_map].
      * cbv zeta. cbn [firstn forallb skipn]. change (alpha c0) with (is_alpha c0).
        destruct (is_alpha c0) eqn:A; cbn [andb].
        -- assert (SC : is_scheme_char c0 = true) by (unfold is_scheme_char; rewrite A; reflexivity).
           rewrite SC, SR. cbn [andb]. destruct (forallb is_scheme_char (firstn j t')); reflexivity.
        -- reflexivity.
      * rewrite SR. destruct (alpha c0); reflexivity.
Qed.

(* ------------------------------------------------------------------ *)
(* well-formed targets: visible ASCII only (DESIGN.md section 8: control
   bytes, SP and non-ASCII bytes in a target are outside the quantifier) *)

Definition vis (x : N) : bool := (33 <=? x) && (x <=? 126).
Definition wf_target (t : bytes) : Prop := forallb vis t = true.

Lemma wf_no_high t : wf_target t -> existsb (fun x => 128 <=? x) t = false.
Proof.
  unfold wf_target. induction t as [|x t IH]; cbn [forallb existsb]; auto.
  intro H. apply andb_true_iff in H as [V H]. rewrite (IH H), orb_false_r.
  unfold vis in V. apply andb_true_iff in V as [_ V]. apply N.leb_le in V. apply N.leb_gt. lia.
Qed.

Lemma wf_lstrip t : wf_target t -> lstrip_by is_c0_or_space t = t.
Proof.
  unfold wf_target. destruct t as [|x t]; cbn [forallb lstrip_by]; auto.
  intro H. apply andb_true_iff in H as [V _]. unfold vis in V. apply andb_true_iff in V as [V _].
  apply N.leb_le in V. unfold is_c0_or_space. destruct (x <=? 32) eqn:E; auto. apply N.leb_le in E. lia.
Qed.

Lemma wf_filter t : wf_target t -> filter (fun x => negb ((x =? 9) || (x =? 13) || (x =? 10))) t = t.
Proof.
  unfold wf_target. induction t as [|x t IH]; cbn [forallb filter]; auto.
  intro H. apply andb_true_iff in H as [V H]. unfold vis in V. apply andb_true_iff in V as [V _].
  apply N.leb_le in V.
  assert (E : (x =? 9) || (x =? 13) || (x =? 10) = false).
  { destruct (x =? 9) eqn:A; [apply N.eqb_eq in A; lia|].
    destruct (x =? 13) eqn:B; [apply N.eqb_eq in B; lia|].
    destruct (x =? 10) eqn:C; [apply N.eqb_eq in C; lia|]. reflexivity. }
  rewrite E. cbn [negb]. rewrite IH by exact H. reflexivity.
Qed.

Definition qpart (u : bytes) : bytes :=
  match from path_end u with
  | x :: q => if x =? 63 then until (N.eqb 35) q else []
  | [] => []
  end.

Lemma cut_match s c :
  match find s [c] with Some i => (firstn i s, skipn (S i) s) | None => (s, []) end
  = (until (N.eqb c) s, tail_of (from (N.eqb c) s)).
Proof. exact (cut1_spec c s). Qed.

Lemma us_tail_spec sc nl u :
  us_tail sc nl u = UOk sc nl (until path_end u) (qpart u) (tail_of (from (N.eqb 35) u)).
Proof.
  unfold us_tail. rewrite cut_match. rewrite cut_match.
  destruct (path_query_cut u) as [-> ->]. reflexivity.
Qed.

Lemma split_uri_slashes t :
  two_slashes t = true -> existsb (fun x => 128 <=? x) t = false ->
  split_uri t = SOk [] [] (unquote_to_bytes (until path_end t)) (qpart t) (tail_of (from (N.eqb 35) t)).
Proof.
  intros T2 A. unfold split_uri. rewrite firstn2_two_slashes, T2, A.
  rewrite cut_match. rewrite cut_match.
  destruct (path_query_cut t) as [-> ->]. reflexivity.
Qed.

(* the target components of the model are those of the specification *)
Theorem split_uri_spec t sc nl pa qu fr :
  wf_target t -> split_uri t = SOk sc nl pa qu fr ->
  pa = pct_decode (raw_path t) /\ qu = raw_query t.
Proof.
  intros W. unfold raw_path, raw_query, hier. fold (qpart (if two_slashes t then t
      else match after_scheme t with
           | Some rest => if two_slashes rest then from auth_end (skipn 2 rest) else rest
           | None => t end)).
  destruct (two_slashes t) eqn:T2.
  - rewrite split_uri_slashes by (auto using wf_no_high). intro H. injection H as _ _ <- <- _.
    rewrite unquote_pct. split; reflexivity.
  - unfold split_uri. rewrite firstn2_two_slashes, T2.
    rewrite urlsplit_stages. rewrite wf_no_high by exact W.
    cbv zeta. rewrite wf_lstrip by exact W. rewrite wf_filter by exact W.
    pose proof (us_scheme_spec t) as US.
    destruct (us_scheme t) as [scheme url3]. cbn [snd] in US.
    unfold us_netloc. rewrite startswith_two_slashes.
    destruct (two_slashes url3) eqn:T3.
    + rewrite cut_at_spec. cbv zeta.
      set (nlx := until (fun x => (x =? 47) || (x =? 63) || (x =? 35)) (skipn 2 url3)).
      destruct (memb 91 nlx && memb 93 nlx).
      { cbn. discriminate. }
      destruct (memb 91 nlx || memb 93 nlx).
      { cbn. discriminate. }
      cbn [N.eqb Pos.eqb]. rewrite us_tail_spec. intro H. injection H as _ _ <- <- _.
      rewrite unquote_pct.
      destruct (after_scheme t) as [rest|]; subst url3.
      * rewrite T3. split; reflexivity.
      * congruence.
    + cbn [N.eqb Pos.eqb]. rewrite us_tail_spec. intro H. injection H as _ _ <- <- _.
      rewrite unquote_pct.
      destruct (after_scheme t) as [rest|]; subst url3.
      * rewrite T3. split; reflexivity.
      * split; reflexivity.
Qed.

(* ------------------------------------------------------------------ *)
(* leading slashes and the url_prefix split *)

Lemma lstrip_drop_slashes s : lstrip_by (N.eqb 47) s = drop_slashes s.
Proof.
  induction s as [|x s IH]; cbn [lstrip_by drop_slashes]; auto.
  rewrite (N.eqb_sym 47 x). destruct (x =? 47); auto.
Qed.

Lemma prefix_cases pre : forall s,
  match strip_prefix pre s with
  | Some r =>
    beqb s pre = (match r with [] => true | _ => false end) /\
    startswith s (pre ++ [47]) = (match r with x :: _ => x =? 47 | [] => false end) /\
    skipn (length pre) s = r
  | None => beqb s pre = false /\ startswith s (pre ++ [47]) = false
  end.
Proof.
  induction pre as [|a pre IH]; intro s.
  - cbn [strip_prefix app length skipn]. destruct s as [|x s'].
    + auto.
    + rewrite startswith_single, (N.eqb_sym 47 x). auto.
  - destruct s as [|y s']; cbn [strip_prefix].
    + auto.
    + cbn [beqb app startswith length skipn]. rewrite (N.eqb_sym y a).
      destruct (a =? y); cbn [andb].
      * apply IH.
      * auto.
Qed.

Theorem environ_path_spec prefix path0 :
  environ_path prefix path0 = path_info prefix (collapse path0).
Proof.
  unfold environ_path.
  assert (C : (if startswith path0 [47] then 47 :: lstrip_by (N.eqb 47) path0 else path0) = collapse path0).
  { destruct path0 as [|x r]; [reflexivity|]. rewrite startswith_single, lstrip_drop_slashes.
    cbn [collapse]. rewrite (N.eqb_sym 47 x). reflexivity. }
  rewrite C. unfold path_info. destruct prefix as [|a pre]; [reflexivity|].
  pose proof (prefix_cases (a :: pre) (collapse path0)) as PC.
  destruct (strip_prefix (a :: pre) (collapse path0)) as [[|x r]|].
  - destruct PC as (-> & _). reflexivity.
  - destruct PC as (-> & -> & ->). destruct (x =? 47); reflexivity.
  - destruct PC as (-> & ->). reflexivity.
Qed.

(* ------------------------------------------------------------------ *)
(* the method *)

Definition ascii_visible : list (N * N) := [(33, 126)].
Definition method_shape : re :=
  Cat (Cat (Cls ascii_visible) (Star (Cls ascii_visible))) (Cat (Cls [(32, 32)]) (Star (Cls [(0, 255)]))).

(* a finite check on the request-line pattern regenerated from the source:
   every accepted line starts with visible ASCII characters followed by SP *)
Lemma request_line_method_shape :
  forall s, bytes_ok s -> Lang gate_request_line s -> Lang method_shape s.
Proof. apply incl_check_sound. vm_compute. reflexivity. Qed.

Lemma star_cls rs s : Lang (Star (Cls rs)) s -> Forall (fun x => in_ranges x rs = true) s.
Proof.
  intro H. remember (Star (Cls rs)) as r eqn:E. induction H; try discriminate.
  - constructor.
  - injection E as ->. inversion H; subst. cbn [app]. constructor; auto.
Qed.

Lemma until_app_stop f m x rest :
  Forall (fun y => f y = false) m -> f x = true -> until f (m ++ x :: rest) = m.
Proof.
  intros Hm Hx. induction Hm as [|y m Hy Hm IH]; cbn [app until].
  - rewrite Hx. reflexivity.
  - rewrite Hy, IH. reflexivity.
Qed.

Lemma split_head s c : exists tl, split s [c] = until (N.eqb c) s :: tl.
Proof.
  unfold split. cbn [split_fuel]. pose proof (cut1_spec c s) as C. unfold cut1 in C.
  destruct (find s [c]) as [i|].
  - injection C as C1 _. rewrite C1. eexists. reflexivity.
  - injection C as C1 _. rewrite <- C1. eexists. reflexivity.
Qed.

Lemma crack_first_line_method fl cmd uri ver :
  bytes_ok fl -> crack_first_line fl = Some (cmd, uri, ver) ->
  beqb cmd [] && beqb uri [] && beqb ver [] = false ->
  cmd = until (N.eqb 32) fl /\ cmd <> [] /\
  Forall (fun x => 33 <= x <= 126 /\ ~ (97 <= x <= 122)) cmd.
Proof.
  intros Hb H Hne. unfold crack_first_line in H.
  destruct (matches gate_request_line fl) eqn:M; cbn [negb] in H.
  2:{ injection H as <- <- <-. discriminate. }
  apply matches_correct in M. apply request_line_method_shape in M; [|exact Hb].
  unfold method_shape in M.
  apply Lang_Cat in M as (u & v & -> & Mu & Mv).
  apply Lang_Cat in Mu as (u1 & u2 & -> & Mu1 & Mu2).
  apply Lang_Cat in Mv as (v1 & v2 & -> & Mv1 & _).
  inversion Mu1 as [| rs x Hx | | | | | |]; subst. inversion Mv1 as [| rs y Hy | | | | | |]; subst.
  apply star_cls in Mu2.
  assert (Y : y = 32).
  { cbn in Hy. rewrite orb_false_r in Hy. apply andb_true_iff in Hy as [A B].
    apply N.leb_le in A. apply N.leb_le in B. lia. }
  subst y.
  assert (R : forall z, in_ranges z ascii_visible = true -> 33 <= z <= 126).
  { intros z Hz. cbn in Hz. rewrite orb_false_r in Hz. apply andb_true_iff in Hz as [A B].
    apply N.leb_le in A. apply N.leb_le in B. lia. }
  assert (FA : Forall (fun z => 33 <= z <= 126) ([x] ++ u2)).
  { cbn [app]. constructor; [apply R; exact Hx|]. eapply Forall_impl; [|exact Mu2]. exact R. }
  assert (U : until (N.eqb 32) ((([x] ++ u2) ++ [32] ++ v2)) = [x] ++ u2).
  { cbn [app]. change (x :: u2 ++ 32 :: v2) with ((x :: u2) ++ 32 :: v2).
    apply until_app_stop; [|reflexivity].
    eapply Forall_impl; [|exact FA]. intros z Hz. cbn beta in *. apply N.eqb_neq. lia. }
  destruct (split_head (([x] ++ u2) ++ [32] ++ v2) 32) as (tl & SP). rewrite U in SP.
  rewrite SP in H.
  assert (G : forall m, beqb m (upper_ascii m) = true -> Forall (fun z => 33 <= z <= 126) m ->
              Forall (fun z => 33 <= z <= 126 /\ ~ (97 <= z <= 122)) m).
  { induction m as [|z m IH]; intros Hu Hf; [constructor|].
    cbn [upper_ascii map beqb] in Hu. apply andb_true_iff in Hu as [Hz Hu].
    inversion Hf; subst. constructor.
    - split; auto. intro L. unfold upper_ascii_b in Hz.
      assert (E : (97 <=? z) && (z <=? 122) = true).
      { apply andb_true_iff. split; apply N.leb_le; lia. }
      rewrite E in Hz. apply N.eqb_eq in Hz. lia.
    - apply IH; auto. }
  destruct tl as [|u [|v [|w tl]]].
  - injection H as <- <- <-. discriminate.
  - destruct (beqb ([x] ++ u2) (upper_ascii ([x] ++ u2))) eqn:Eu; [|discriminate].
    injection H as <- <- <-. split; [symmetry; exact U|]. split; [discriminate|]. apply G; auto.
  - destruct (beqb ([x] ++ u2) (upper_ascii ([x] ++ u2))) eqn:Eu; [|discriminate].
    injection H as <- <- <-. split; [symmetry; exact U|]. split; [discriminate|]. apply G; auto.
  - injection H as <- <- <-. discriminate.
Qed.

Lemma upper_str_identity m :
  Forall (fun x => 33 <= x <= 126 /\ ~ (97 <= x <= 122)) m -> upper_str m = m.
Proof.
  unfold upper_str. induction 1 as [|x m [Hr Hl] _ IH]; cbn [flat_map]; auto.
  rewrite IH. unfold upper_str_c.
  destruct ((97 <=? x) && (x <=? 122)) eqn:E1.
  { apply andb_true_iff in E1 as [A B]. apply N.leb_le in A. apply N.leb_le in B. lia. }
  destruct (x =? 181) eqn:E2; [apply N.eqb_eq in E2; lia|].
  destruct (x =? 223) eqn:E3; [apply N.eqb_eq in E3; lia|].
  destruct ((224 <=? x) && (x <=? 254) && negb (x =? 247)) eqn:E4.
  { apply andb_true_iff in E4 as [E4 _]. apply andb_true_iff in E4 as [A _]. apply N.leb_le in A. lia. }
  destruct (x =? 255) eqn:E5; [apply N.eqb_eq in E5; lia|].
  reflexivity.
Qed.

(* ------------------------------------------------------------------ *)
(* split at SP and back: how the pieces sit in the request line *)

Lemma find_some_split c s : forall i,
  find s [c] = Some i -> s = firstn i s ++ c :: skipn (S i) s.
Proof.
  unfold find. induction s as [|x s IH]; intro i.
  - cbn. discriminate.
  - cbn [find_from]. rewrite startswith_single. destruct (c =? x) eqn:E.
    + intro H. injection H as <-. apply N.eqb_eq in E. subst. reflexivity.
    + rewrite find_from_shift. destruct (find_from s [c] 0) as [j|]; [|discriminate].
      cbn [option_map]. intro H. injection H as <-. cbn [firstn skipn app]. f_equal. apply IH. reflexivity.
Qed.

Lemma find_some_lt c s i : find s [c] = Some i -> (i < length s)%nat.
Proof.
  intro H. pose proof (find_some_split c s i H) as E.
  apply (f_equal (@length N)) in E. rewrite app_length in E. cbn [length] in E.
  rewrite firstn_length in E. lia.
Qed.

Lemma split_fuel_nonempty fuel s sep : split_fuel fuel s sep <> [].
Proof. destruct fuel; cbn [split_fuel]; [discriminate|]. destruct (find s sep); discriminate. Qed.

Lemma join_cons sep x l : l <> [] -> join sep (x :: l) = x ++ sep ++ join sep l.
Proof. destruct l; [contradiction|reflexivity]. Qed.

Lemma join_split_fuel c : forall fuel s, (length s < fuel)%nat -> join [c] (split_fuel fuel s [c]) = s.
Proof.
  induction fuel as [|f IH]; intros s H; [lia|]. cbn [split_fuel].
  destruct (find s [c]) as [i|] eqn:F; [|reflexivity].
  rewrite join_cons by apply split_fuel_nonempty.
  pose proof (find_some_lt _ _ _ F) as L.
  rewrite IH.
  - cbn [length]. replace (i + 1)%nat with (S i) by lia. symmetry. apply find_some_split. exact F.
  - rewrite skipn_length. cbn [length]. lia.
Qed.

Lemma join_split c s : join [c] (split s [c]) = s.
Proof. apply join_split_fuel. lia. Qed.

Lemma crack_first_line_shape fl cmd uri ver :
  crack_first_line fl = Some (cmd, uri, ver) ->
  beqb cmd [] && beqb uri [] && beqb ver [] = false ->
  (fl = cmd ++ [32] ++ uri /\ ver = []) \/
  (exists v, fl = cmd ++ [32] ++ uri ++ [32] ++ v /\ ver = skipn 5 v).
Proof.
  intros H Hne. unfold crack_first_line in H.
  destruct (negb (matches gate_request_line fl)).
  { injection H as <- <- <-. discriminate. }
  pose proof (join_split 32 fl) as J.
  destruct (split fl [32]) as [|m [|u [|v [|w tl]]]].
  - injection H as <- <- <-. discriminate.
  - injection H as <- <- <-. discriminate.
  - destruct (beqb m (upper_ascii m)); [|discriminate]. injection H as <- <- <-.
    left. split; [|reflexivity]. symmetry. exact J.
  - destruct (beqb m (upper_ascii m)); [|discriminate]. injection H as <- <- <-.
    right. exists v. split; [|reflexivity]. symmetry. exact J.
  - injection H as <- <- <-. discriminate.
Qed.
