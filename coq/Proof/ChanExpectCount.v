(* Proof/ChanExpectCount.v -- third invariant of Model/ChanExpect.v: the life of a
   parser object (header mode, expecting, answered), the count of interim
   responses per object, who asked, and "nobody is left waiting". *)
From Coq Require Import List Arith Bool Lia.
From RecordUpdate Require Import RecordUpdate.
From WV Require Import Model.ChanExpect Proof.ChanExpectBase Proof.ChanExpectLog.
Import ListNotations.

Definition good_pre (q : areq) : Prop :=
  a_completed q = false /\ (a_hf q = true -> a_body q = true) /\
  (a_hf q = false -> a_expect q = false /\ g_asked q = false /\ a_body q = false) /\
  g_heads q = (if a_hf q then 1 else 0).

Lemma astep_summary : forall q0 ev q1, astep q0 ev = Some q1 ->
  rid q1 = rid q0 /\ (g_asked q0 = true -> g_asked q1 = true) /\
  ((a_expect q0 = true -> g_asked q0 = true) -> (a_expect q1 = true -> g_asked q1 = true)) /\
  (good_pre q0 ->
     (a_completed q1 = false -> good_pre q1) /\ g_heads q1 <= 1 /\
     (a_hf q1 = true -> a_expect q1 = true -> g_heads q1 = 1) /\
     (a_hf q1 = true -> a_completed q1 = false -> a_body q1 = true) /\
     g_asked q1 && negb (a_expect q1) = g_asked q0 && negb (a_expect q0)).
Proof.
  intros q0 ev q1 H. destruct q0 as [i c e h b em a n]. unfold astep in H. simpl in H.
  unfold good_pre. simpl.
  destruct c.
  { destruct ev; inv_some; simpl; destruct h, e, a; simpl; intuition (try congruence; try lia). }
  destruct b.
  { destruct ev as [| | | |[]]; inv_some; simpl; destruct h, e, a; simpl; intuition (try congruence; try lia). }
  destruct ev as [|[[]|] []| |[[]|] [] []|[]]; simpl in H; inv_some; simpl;
    destruct h, e, a; simpl; intuition (try congruence; try lia).
Qed.

Definition is_wsend (w : wpc) : bool := match w with WSend => true | _ => false end.
Definition is_sending (s : state) : bool :=
  (match io s with IOSend _ => true | _ => false end) || existsb is_wsend (active s).

Definition sent_for (q : areq) : bool := g_asked q && negb (a_expect q).

Definition good_cur (s : state) (q : areq) : Prop :=
  if is_sending s then
    a_expect q = false /\ a_hf q = true /\ g_asked q = true /\ sent_continue s = false /\
    cnt (rid q) (outlog s) = 0 /\ g_heads q = 1 /\ (a_completed q = false -> a_body q = true)
  else
    good_pre q /\
    cnt (rid q) (outlog s) = (if sent_for q then 1 else 0) /\
    sent_continue s = sent_for q.

Record InvC (s : state) : Prop := {
  C_none : request s = None -> sent_continue s = false;
  C_ask : forall q, request s = Some q ->
          (a_expect q = true -> g_asked q = true) /\ (g_asked q = true -> In (rid q) (askers s));
  C_good : forall q, request s = Some q -> good_cur s q;
  C_queued : forall r, In r (requests s) ->
          a_completed r = true /\ a_empty r = false /\ g_heads r <= 1;
  C_cnt : forall i, cnt i (outlog s) <= 1;
  C_asked : forall i w, In (TInterim i w) (outlog s) -> In i (askers s);
  C_sending : is_sending s = true -> forall q, request s = Some q -> g_asked q = true /\ a_hf q = true;
  C_nc : (forall m, io s <> IOSend m) -> forall q, request s = Some q -> a_completed q = false;
  C_wait : is_sending s = false -> connected s = true -> close_when_flushed s = false ->
           requests s = [] -> forall q, request s = Some q ->
           a_hf q = true -> a_expect q = true -> False
}.

Lemma InvC_init : InvC init.
Proof. constructor; simpl; intros; try discriminate; try tauto; auto. Qed.

Lemma InvC_frame2 : forall s s', InvC s ->
  request s' = request s -> (forall x, In x (requests s') -> In x (requests s)) ->
  sent_continue s' = sent_continue s ->
  outlog s' = outlog s -> askers s' = askers s -> next_id s' = next_id s ->
  is_sending s' = is_sending s -> io s' = io s ->
  (is_sending s' = false -> connected s' = true -> close_when_flushed s' = false -> requests s' = [] ->
     (requests s = [] /\ connected s = true /\ close_when_flushed s = false) \/
     (forall q, request s = Some q -> a_hf q = true -> a_expect q = true -> False)) ->
  InvC s'.
Proof.
  intros s s' HC E1 E2 E3 E4 E6 E7 E8 Eio E9. destruct HC as [C1 C2 C3 C4 C5 C7 C9 C10 C8].
  constructor; rewrite ?E1, ?E3, ?E4, ?E5, ?E6, ?E7, ?E8, ?Eio; auto.
  - intros q Hq. specialize (C3 q Hq). unfold good_cur in *. rewrite E8, E3, E4. assumption.
  - intros Hs Hc Hf Hr q Hq Hh He. rewrite <- E8 in Hs.
    destruct (E9 Hs Hc Hf Hr) as [(R1 & R2 & R3)|R]; [eapply C8; eauto|eapply R; eauto].
Qed.

(* steps that touch none of the fields InvC reads, except pcs that keep is_sending *)
Lemma InvC_frame : forall s s', InvC s ->
  request s' = request s -> requests s' = requests s -> sent_continue s' = sent_continue s ->
  outlog s' = outlog s -> askers s' = askers s -> next_id s' = next_id s ->
  is_sending s' = is_sending s ->
  ((forall m, io s' <> IOSend m) -> (forall m, io s <> IOSend m)) ->
  (connected s' = true -> connected s = true) ->
  (close_when_flushed s' = false -> close_when_flushed s = false) -> InvC s'.
Proof.
  intros s s' HC E1 E2 E3 E4 E6 E7 E8 Eio E9 E10. destruct HC as [C1 C2 C3 C4 C5 C7 C9 C10 C8].
  constructor; rewrite ?E1, ?E2, ?E3, ?E4, ?E5, ?E6, ?E7, ?E8; auto.
  - intros q Hq. specialize (C3 q Hq). unfold good_cur in *. rewrite E8, E3, E4. assumption.
  - intros. eapply C8; eauto.
Qed.

Lemma is_sending_eq : forall s s', io s' = io s ->
  existsb is_wsend (active s') = existsb is_wsend (active s) -> is_sending s' = is_sending s.
Proof. intros s s' E1 E2. unfold is_sending. rewrite E1, E2. reflexivity. Qed.

Lemma cnt_final : forall i l j, cnt i (l ++ [TFinal j]) = cnt i l.
Proof. intros. rewrite cnt_snoc. simpl. lia. Qed.

Lemma good_cur_frame : forall s s' q, good_cur s q -> is_sending s' = is_sending s ->
  sent_continue s' = sent_continue s -> (forall i, cnt i (outlog s') = cnt i (outlog s)) -> good_cur s' q.
Proof. intros s s' q H E1 E2 E3. unfold good_cur in *. rewrite E1, E2, E3. assumption. Qed.

Lemma InvC_easy : forall s c s' l, InvA s -> InvC s -> step s c = Some (s', l) ->
  match c with
  | CIOEnter | CTake | CWBegin _ | CWEnd _ _ | CDisconnect | CWillClose | CWWrite _ | CWClose _ => InvC s'
  | _ => True
  end.
Proof.
  intros s c s' l HA HC H. destruct c; auto; simpl in H.
  - destruct (io s) eqn:Eio; try discriminate. destruct (rlock s); try discriminate.
    destruct (will_close s || close_when_flushed s); inv_some; auto.
    eapply InvC_frame; eauto; try (intros _ m; rewrite Eio; discriminate).
    unfold is_sending. simpl. rewrite Eio. reflexivity.
  - destruct (queued s) eqn:Eq; try discriminate. inv_some.
    eapply InvC_frame; eauto. apply is_sending_eq; auto. simpl.
    rewrite existsb_app. simpl. rewrite orb_false_r. reflexivity.
  - destruct (nth_error (active s) i) as [w|] eqn:En; try discriminate.
    destruct w; try discriminate.
    destruct (worker_at _ _ _ HA En) as (Hact & -> & Hq).
    destruct (requests s) eqn:Er; inv_some;
      (eapply InvC_frame; eauto; apply is_sending_eq; auto; simpl; rewrite Hact; reflexivity).
  - destruct (nth_error (active s) i) as [w|] eqn:En; try discriminate.
    destruct w; try discriminate. inv_some.
    destruct (worker_at _ _ _ HA En) as (Hact & -> & Hq).
    destruct HC as [C1 C2 C3 C4 C5 C7 C9 C10 C8].
    assert (Es : is_sending (s <| outlog := outlog s ++ [TFinal id] |>) = is_sending s) by reflexivity.
    constructor; cbn [request requests sent_continue outlog askers next_id connected close_when_flushed set eta_state]; auto.
    + intros q Hq'. apply good_cur_frame with s; auto. intros; apply cnt_final.
    + intros j. rewrite cnt_final. auto.
    + intros j w Hin. apply in_app_or in Hin. destruct Hin as [Hin|[Hin|[]]]; [eauto|discriminate].
  - destruct (nth_error (active s) i) as [w|] eqn:En; try discriminate.
    destruct w; try discriminate. inv_some.
    destruct (worker_at _ _ _ HA En) as (Hact & -> & Hq).
    eapply InvC_frame; eauto. apply is_sending_eq; auto. simpl. rewrite Hact. destruct close; reflexivity.
  - destruct (nth_error (active s) i) as [w|] eqn:En; try discriminate.
    destruct w; try discriminate. destruct (rlock s); try discriminate. inv_some.
    destruct (worker_at _ _ _ HA En) as (Hact & -> & Hq).
    destruct HC as [C1 C2 C3 C4 C5 C7 C9 C10 C8].
    assert (Es : is_sending (s <| close_when_flushed := true |> <| requests := [] |>
                               <| active := del_nth 0 (active s) |>) = is_sending s).
    { apply is_sending_eq; auto. simpl. rewrite Hact. reflexivity. }
    constructor; cbn [request requests sent_continue outlog askers next_id connected close_when_flushed set eta_state]; auto.
    + intros q Hq'. apply good_cur_frame with s; auto.
    + simpl. tauto.
    + rewrite Es. assumption.
    + intros; discriminate.
  - destruct (io s) eqn:Eio; try discriminate. inv_some.
    eapply InvC_frame; eauto. simpl. discriminate.
  - inv_some. eapply InvC_frame; eauto.
Qed.

Lemma cnt_interim_snoc : forall i j w l,
  cnt i (l ++ [TInterim j w]) = cnt i l + (if j =? i then 1 else 0).
Proof. intros. rewrite cnt_snoc. reflexivity. Qed.

(* the object after send_continue, if it stays the current request *)
Lemma InvC_after_send : forall s s' q w, InvA s -> InvC s ->
  is_sending s = true -> request s = Some q -> requests s = [] ->
  outlog s' = outlog s ++ [TInterim (rid q) w] -> sent_continue s' = true ->
  request s' = Some q -> a_completed q = false ->
  requests s' = requests s -> askers s' = askers s -> next_id s' = next_id s ->
  (forall m, io s' <> IOSend m) ->
  is_sending s' = false -> InvC s'.
Proof.
  intros s s' q w HA HC Hs Hq Hrs Eo Esc Er Ec Ers Eas En Hio' Hs'.
  destruct HC as [C1 C2 C3 C4 C5 C7 C9 C10 C8].
  destruct (C9 Hs q Hq) as [Hasked Hhf].
  pose proof (C3 q Hq) as G. unfold good_cur in G. rewrite Hs in G.
  destruct G as (G1 & G2 & G3 & G4 & G5 & G6 & G7).
  constructor.
  - rewrite Er. discriminate.
  - rewrite Er. intros q' Hq'. inv_some. rewrite Eas. apply (C2 q' Hq).
  - rewrite Er. intros q' Hq'. inv_some.
    unfold good_cur. rewrite Hs'. unfold good_pre, sent_for.
    rewrite Esc, Eo, cnt_interim_snoc, Nat.eqb_refl, G1, G2, G3, G5, G6, Ec.
    simpl. repeat split; auto; try discriminate.
  - rewrite Ers, Hrs. simpl. tauto.
  - intros i. rewrite Eo, cnt_interim_snoc. destruct (rid q =? i) eqn:E.
    + apply Nat.eqb_eq in E. subst i. rewrite G5. lia.
    + specialize (C5 i). lia.
  - intros i w' Hin. rewrite Eas. rewrite Eo in Hin. apply in_app_or in Hin.
    destruct Hin as [Hin|[Hin|[]]]; [eauto|]. inversion Hin; subst. apply (C2 q Hq). assumption.
  - rewrite Hs'. discriminate.
  - intros _ q' Hq'. rewrite Er in Hq'. inv_some. assumption.
  - intros _ _ _ _ q' Hq' _ He. rewrite Er in Hq'. inv_some. congruence.
Qed.

(* ... or if it was complete at the end of its header block and leaves at once *)
Lemma InvC_after_send_gone : forall s s' q w, InvA s -> InvC s ->
  is_sending s = true -> request s = Some q -> requests s = [] ->
  outlog s' = outlog s ++ [TInterim (rid q) w] -> sent_continue s' = false ->
  request s' = None -> a_completed q = true ->
  (requests s' = [q] /\ a_empty q = false \/ requests s' = []) ->
  askers s' = askers s -> next_id s' = next_id s ->
  is_sending s' = false -> InvC s'.
Proof.
  intros s s' q w HA HC Hs Hq Hrs Eo Esc Er Ec Ers Eas En Hs'.
  destruct HC as [C1 C2 C3 C4 C5 C7 C9 C10 C8].
  pose proof (C3 q Hq) as G. unfold good_cur in G. rewrite Hs in G.
  destruct G as (G1 & G2 & G3 & G4 & G5 & G6 & G7).
  constructor; rewrite ?Er; try discriminate; auto.
  - intros r Hr. destruct Ers as [[E1 E2]| E1]; rewrite E1 in Hr; [|destruct Hr].
    destruct Hr as [<-|[]]. repeat split; auto. rewrite G6. lia.
  - intros i. rewrite Eo, cnt_interim_snoc. destruct (rid q =? i) eqn:E.
    + apply Nat.eqb_eq in E. subst i. rewrite G5. lia.
    + specialize (C5 i). lia.
  - intros i w' Hin. rewrite Eas. rewrite Eo in Hin. apply in_app_or in Hin.
    destruct Hin as [Hin|[Hin|[]]]; [eauto|]. inversion Hin; subst. apply (C2 q Hq). assumption.
Qed.

Lemma InvC_CWSend : forall s i s' l, InvA s -> InvC s -> step s (CWSend i) = Some (s', l) -> InvC s'.
Proof.
  intros s i s' l HA HC H. simpl in H.
  destruct (nth_error (active s) i) as [w|] eqn:En; try discriminate.
  destruct w; try discriminate.
  destruct (do_send s true) as [s1 l1] eqn:Ed. inv_some.
  destruct (worker_at _ _ _ HA En) as (Hact & -> & Hq).
  pose proof (A_wk s HA WSend) as W. rewrite Hact in W. specialize (W (or_introl eq_refl)).
  simpl in W. destruct W as (Ers & Erl & Eio & q & Eq).
  pose proof (do_send_spec _ _ _ _ Ed q Eq) as D.
  destruct D as (D1 & D2 & D3 & D4 & D5 & D6 & D7 & D8 & D9 & D10 & D11 & D12 & D13 & D14).
  assert (Hc : a_completed q = false).
  { apply (C_nc s HC); [intros m; rewrite Eio; discriminate|assumption]. }
  eapply InvC_after_send with (s := s) (q := q) (w := true); eauto.
  - unfold is_sending. rewrite Hact. simpl. apply orb_true_r.
  - simpl. intros m. rewrite D6, Eio. discriminate.
  - unfold is_sending. simpl. rewrite D6, Eio, D7, Hact. reflexivity.
Qed.

Lemma InvC_CIOSend : forall s s' l, InvA s -> InvC s -> step s CIOSend = Some (s', l) -> InvC s'.
Proof.
  intros s s' l HA HC H. simpl in H.
  destruct (io s) as [| |more] eqn:Eio; try discriminate.
  destruct (do_send s false) as [s1 l1] eqn:Ed.
  destruct (io_complete s1 more) as [s2 l2] eqn:Ec. inv_some.
  destruct (A_iosend s HA more Eio) as [Ers [q Eq]].
  pose proof (do_send_spec _ _ _ _ Ed q Eq) as D.
  destruct D as (D1 & D2 & D3 & D4 & D5 & D6 & D7 & D8 & D9 & D10 & D11 & D12 & D13 & D14).
  pose proof (io_complete_spec _ _ _ _ Ec) as S.
  destruct S as (S1 & S2 & S3 & S4 & S5 & S6 & S8 & S9 & S10 & S11).
  assert (Hns : existsb is_wsend (active s) = false).
  { destruct (active s) as [|w0 rest] eqn:Eact; [reflexivity|].
    pose proof (A_wk s HA w0) as W. rewrite Eact in W. specialize (W (or_introl eq_refl)).
    destruct (active_shape s HA) as [E|(w1 & E & _)]; rewrite Eact in E; inversion E; subst.
    destruct w1; simpl in *; auto. destruct W as (_ & _ & W & _). congruence. }
  assert (Hs : is_sending s = true) by (unfold is_sending; rewrite Eio; reflexivity).
  assert (Hs' : is_sending s' = false).
  { unfold is_sending. rewrite S9, S4, D7, Hns. destruct more; reflexivity. }
  destruct S11 as [(q' & Sq & Sc & Se & Sr & Ssc & Srs & Sqd)|[(q' & Sq & Sc & Se & Sr & Ssc & Srs & Sqd)|(Sc & Sr & Ssc & Srs & Sqd)]].
  - rewrite D13 in Sq. inv_some. rewrite D1, Ers in Srs. simpl in Srs.
    eapply InvC_after_send_gone with (s := s) (q := q') (w := false); eauto; try congruence.
  - rewrite D13 in Sq. inv_some. rewrite D1, Ers in Srs.
    eapply InvC_after_send_gone with (s := s) (q := q') (w := false); eauto; try congruence.
  - eapply InvC_after_send with (s := s) (q := q) (w := false); eauto; try congruence.
    intros m. rewrite S9. destruct more; discriminate.
Qed.

Lemma not_sending_idle : forall s w, InvA s -> active s = [w] -> is_wsend w = false -> rlock s = false ->
  is_sending s = false /\ io s = IOIdle.
Proof.
  intros s w HA Hact Hw Hrl.
  assert (Hio : io s = IOIdle).
  { destruct (io s) eqn:E; auto; exfalso;
      assert (rlock s = true) by (apply (A_lock s HA); left; congruence); congruence. }
  split; [|assumption]. unfold is_sending. rewrite Hio, Hact. simpl. rewrite Hw. reflexivity.
Qed.

Lemma InvC_CWKeep : forall s i s' l, InvA s -> InvC s -> step s (CWKeep i) = Some (s', l) -> InvC s'.
Proof.
  intros s i s' l HA HC H. simpl in H.
  destruct (nth_error (active s) i) as [w|] eqn:En; try discriminate.
  destruct w; try discriminate.
  destruct (rlock s) eqn:Erl; try discriminate.
  destruct (worker_at _ _ _ HA En) as (Hact & -> & Hq).
  destruct (not_sending_idle s WKeep HA Hact eq_refl Erl) as [Hs Hio].
  destruct (requests s) as [|r rest] eqn:Er.
  { inv_some. eapply InvC_frame; eauto. apply is_sending_eq; auto. simpl. rewrite Hact. reflexivity. }
  cbn [connected requests request sent_continue set eta_state] in H.
  assert (Hsub : forall x, In x rest -> In x (requests s)) by (intros; rewrite Er; right; assumption).
  destruct (connected s && negb (is_nil rest)) eqn:Ec.
  - inv_some. apply andb_true_iff in Ec. destruct Ec as [_ Ec].
    eapply InvC_frame2; eauto.
    + apply is_sending_eq; auto. simpl. rewrite Hact. reflexivity.
    + simpl. intros _ _ _ E. rewrite E in Ec. discriminate.
  - destruct (connected s && wants_continue (s <| requests := rest |>)) eqn:Ew.
    + destruct HC as [C1 C2 C3 C4 C5 C7 C9 C10 C8].
      destruct (request s) as [q|] eqn:Eq; try discriminate. inv_some.
      apply andb_true_iff in Ew. destruct Ew as [Econ Ew]. rewrite Econ in Ec. simpl in Ec.
      assert (rest = []) by (destruct rest; [reflexivity|discriminate]). subst rest.
      unfold wants_continue in Ew. simpl in Ew. rewrite Eq in Ew.
      apply andb_true_iff in Ew. destruct Ew as [Ew Ew3]. apply andb_true_iff in Ew. destruct Ew as [Ew1 Ew2].
      apply negb_true_iff in Ew3.
      destruct (C2 q eq_refl) as [K1 K2].
      match goal with |- InvC ?x => set (s2 := x) end.
      assert (Es : is_sending s2 = true).
      { unfold is_sending, s2. simpl. rewrite Hact. simpl. apply orb_true_r. }
      assert (F1 : request s2 = Some (q <| a_expect := false |>)) by reflexivity.
      assert (F2 : requests s2 = []) by reflexivity.
      assert (F3 : sent_continue s2 = sent_continue s) by reflexivity.
      assert (F4 : outlog s2 = outlog s) by reflexivity.
      assert (F6 : askers s2 = askers s) by reflexivity.
      assert (F7 : next_id s2 = next_id s) by reflexivity.
      clearbody s2.
      constructor; rewrite ?F1, ?F2, ?F3, ?F4, ?F6, ?F7; auto.
      * intros q' Hq'. inv_some. simpl. split; [discriminate|assumption].
      * intros q' Hq'. inv_some. specialize (C3 q eq_refl).
        unfold good_cur in *. rewrite Hs in C3. rewrite Es, F3, F4.
        destruct C3 as ((G1 & G2 & G3 & G4) & G5 & G6). unfold sent_for in *.
        rewrite Ew1 in G5. rewrite andb_false_r in G5. rewrite Ew2 in G4.
        simpl. repeat split; auto; try congruence.
      * intros _ q' Hq'. inv_some. simpl. auto.
      * intros _ q' Hq'. inv_some. simpl. apply C10; [intros m; rewrite Hio; discriminate|reflexivity].
      * rewrite Es. discriminate.
    + inv_some. eapply InvC_frame2; eauto.
      * apply is_sending_eq; auto. simpl. rewrite Hact. reflexivity.
      * simpl. intros _ Hcon Hcwf Hrest. right. intros q Hq' Hhf Hex. subst rest.
        rewrite Hcon in Ew. simpl in Ew. unfold wants_continue in Ew. simpl in Ew. rewrite Hq', Hex, Hhf in Ew.
        simpl in Ew. apply negb_false_iff in Ew.
        pose proof (C_good s HC q Hq') as G. unfold good_cur in G. rewrite Hs in G.
        destruct G as (_ & _ & G6). unfold sent_for in G6. rewrite Hex, andb_false_r in G6. congruence.
Qed.

Lemma fresh_cnt_zero : forall s, InvA s -> InvB s -> request s = None -> cnt (next_id s) (outlog s) = 0.
Proof.
  intros s HA HB Hr. apply cnt_zero_above. eapply Forall_impl; [|apply (B_ub s HB)].
  simpl. intros t Ht. assert (ub s <= 2 * next_id s); [|lia].
  unfold ub. pose proof (A_ids s HA) as I. rewrite Hr in *.
  destruct (requests s) as [|r rest]; [lia|]. apply asc_tail in I. lia.
Qed.

Lemma InvC_CIOParse : forall s ev more s' l, InvA s -> InvB s -> InvC s ->
  step s (CIOParse ev more) = Some (s', l) -> InvC s'.
Proof.
  intros s ev more s' l HA HB HC H.
  destruct (step_parse_inv _ _ _ _ _ H) as (Eio & q0 & fresh & q1 & Hq0 & Ha & Hcase). clear H.
  pose proof (astep_summary _ _ _ Ha) as (Hrid & Hmono & Hask & Hgood).
  pose proof (after_parse_fields s q1 fresh) as F. cbv zeta in F, Hcase.
  set (s1 := after_parse s q1 fresh) in *.
  destruct F as (F1 & F2 & F3 & F4 & F5 & F6 & F7 & F8 & F9 & F10 & F11 & F13 & F14).
  destruct HC as [C1 C2 C3 C4 C5 C7 C9 C10 C8].
  (* no worker is sending while the I/O thread is in its loop *)
  assert (Hns : existsb is_wsend (active s) = false).
  { destruct (active s) as [|w0 rest] eqn:Eact; [reflexivity|].
    pose proof (A_wk s HA w0) as W. rewrite Eact in W. specialize (W (or_introl eq_refl)).
    destruct (active_shape s HA) as [E|(w1 & E & _)]; rewrite Eact in E; inversion E; subst.
    destruct w1; simpl in *; auto. destruct W as (_ & _ & W & _). congruence. }
  assert (Hs : is_sending s = false) by (unfold is_sending; rewrite Eio, Hns; reflexivity).
  (* facts about q0 *)
  assert (K0 : (a_expect q0 = true -> g_asked q0 = true) /\
               (g_asked q0 = true -> In (rid q0) (askers s)) /\
               (good_pre q0 /\ cnt (rid q0) (outlog s) = (if sent_for q0 then 1 else 0) /\
                sent_continue s = sent_for q0)).
  { destruct (request s) as [q|] eqn:Er; destruct Hq0 as [-> Hf].
    - destruct (C2 q eq_refl) as [K1 K2]. split; [auto|split; [auto|]].
      specialize (C3 q eq_refl); unfold good_cur in C3; rewrite Hs in C3; tauto.
    - simpl. split; [discriminate|split; [discriminate|]].
      split; [unfold good_pre; simpl; repeat split; auto; discriminate|].
      split; [apply fresh_cnt_zero; auto|apply C1; reflexivity]. }
  destruct K0 as (K1 & K2 & K3).
  assert (L1 : a_expect q1 = true -> g_asked q1 = true) by auto.
  assert (L2 : g_asked q1 = true -> In (rid q1) (askers s1)).
  { intros Hq. rewrite F14, Hq. left. reflexivity. }
  assert (Hask1 : forall i w, In (TInterim i w) (outlog s) -> In i (askers s1)).
  { intros i w Hi. rewrite F14. specialize (C7 i w Hi). destruct (g_asked q1); [right|]; assumption. }
  destruct Hcase as [[Hw ->]|[Hw [l' Hc]]].
  - (* send_continue *)
    apply andb_true_iff in Hw. destruct Hw as [Hw Hnil]. rewrite F2 in Hnil.
    unfold wants_continue in Hw. rewrite F1, F3 in Hw.
    apply andb_true_iff in Hw. destruct Hw as [Hw Hw3]. apply andb_true_iff in Hw. destruct Hw as [Hw1 Hw2].
    apply negb_true_iff in Hw3.
    match goal with |- InvC ?x => set (s2 := x) end.
    assert (Es : is_sending s2 = true) by reflexivity.
    assert (G1 : request s2 = Some (q1 <| a_expect := false |>)) by reflexivity.
    assert (G2 : requests s2 = requests s) by (unfold s2; simpl; assumption).
    assert (G3 : sent_continue s2 = sent_continue s) by (unfold s2; simpl; assumption).
    assert (G4 : outlog s2 = outlog s) by (unfold s2; simpl; assumption).
    assert (G6 : askers s2 = askers s1) by reflexivity.
    assert (G7 : next_id s2 = next_id s1) by reflexivity.
    assert (G8 : io s2 = IOSend more) by reflexivity.
    clearbody s2.
    constructor; rewrite ?G1, ?G2, ?G3, ?G4, ?G6, ?G7; auto.
    + intros q' Hq'. inv_some. simpl. split; [discriminate|assumption].
    + intros q' Hq'. inv_some.
      destruct K3 as (P1 & P2 & P3). destruct (Hgood P1) as (Q1 & Q2 & Q3 & Q4 & Q5).
      unfold good_cur. rewrite Es, G3, G4. simpl. rewrite Hrid, P2.
      unfold sent_for. rewrite <- Q5, Hw1, andb_false_r. repeat split; auto.
    + intros _ q' Hq'. inv_some. simpl. auto.
    + intros Hn. exfalso. apply (Hn more). exact G8.
    + rewrite Es. discriminate.
  - pose proof (io_complete_spec _ _ _ _ Hc) as S.
    destruct S as (S1 & S2 & S3 & S4 & S5 & S6 & S8 & S9 & S10 & S11).
    assert (Es : is_sending s' = false).
    { unfold is_sending. rewrite S9, S4, F9, Hns. destruct more; reflexivity. }
    destruct S11 as [(q & Sq & Sc & Se & Sr & Ssc & Srs & Sqd)|[(q & Sq & Sc & Se & Sr & Ssc & Srs & Sqd)|(Sc & Sr & Ssc & Srs & Sqd)]].
    + (* completed, queued *)
      rewrite F1 in Sq. inv_some.
      constructor; rewrite ?Sr, ?Ssc, ?Srs, ?S5, ?S6, ?S7, ?S8, ?F2, ?F11, ?F12; auto; try discriminate.
      * intros r Hr. apply in_app_or in Hr. destruct Hr as [Hr|[<-|[]]]; [auto|].
        repeat split; auto. destruct K3 as (P1 & _).
        destruct (Hgood P1) as (_ & Q2 & _). assumption.
    + rewrite F1 in Sq. inv_some.
      constructor; rewrite ?Sr, ?Ssc, ?Srs, ?S5, ?S6, ?S7, ?S8, ?F2, ?F11, ?F12; auto; try discriminate.
    + (* not completed: the object stays *)
      rewrite F1 in Sr. specialize (Sc q1 F1).
      constructor; rewrite ?Sr, ?Ssc, ?Srs, ?S5, ?S6, ?S7, ?S8, ?F2, ?F3, ?F11, ?F12; auto; try discriminate.
      * intros q' Hq'. inv_some. auto.
      * intros q' Hq'. inv_some.
        destruct K3 as (P1 & P2 & P3). destruct (Hgood P1) as (Q1 & Q2 & Q3 & Q4 & Q5).
        unfold good_cur. rewrite Es, Ssc, S5, F3, F11, Hrid, P2, P3. unfold sent_for in *. rewrite Q5.
        split; [auto|split; reflexivity].
      * rewrite Es. discriminate.
      * intros _ q' Hq'. inv_some. assumption.
      * intros _ Hcon Hcwf Hrs q' Hq' Hhf Hex. inv_some.
        destruct K3 as (P1 & P2 & P3). destruct (Hgood P1) as (Q1 & Q2 & Q3 & Q4 & Q5).
        unfold wants_continue in Hw. rewrite F1, F2, F3, Hrs, Hex, Hhf in Hw. simpl in Hw.
        rewrite andb_true_r in Hw. apply negb_false_iff in Hw.
        unfold sent_for in *. rewrite Hw in P3. rewrite <- Q5 in P3. rewrite Hex, andb_false_r in P3. discriminate.
Qed.
