(* Proof/ChanPipeOutStep.v -- layer L3 is preserved by every step. *)
From Coq Require Import List Arith Bool ZArith Lia.
From WV Require Import Model.ChanPipe Proof.ChanPipeBase Proof.ChanPipeOwn Proof.ChanPipeLog Proof.ChanPipeOut.
Import ListNotations.

(* ---- facts about program points *)
Lemma wk_fl_ol : forall pc f, wk_fl pc = Some f -> wk_ol pc = true.
Proof. destruct pc; simpl; try discriminate; auto. destruct sc; simpl; try discriminate; auto. Qed.
Lemma io_fl_touch : forall pc f, io_fl pc = Some f -> io_ol pc = true \/ io_unl pc = true.
Proof. destruct pc; simpl; try discriminate; auto. destruct sc; simpl; try discriminate; auto. Qed.
Lemma in_task_serving : forall pc, in_task pc = true -> serving pc = true.
Proof. destruct pc; simpl; congruence. Qed.
Lemma wk_ol_task_or_sc : forall pc, wk_ol pc = true -> in_task pc = true \/ is_sc pc = true.
Proof. destruct pc; simpl; auto; discriminate. Qed.
Lemma appended_task : forall pc, appended pc = true -> in_task pc = true.
Proof. destruct pc; simpl; congruence. Qed.

Section Step.
Variable P : params.
(* the code as it is: handle_write never flushes without outbuf_lock *)
Hypothesis Hunl : p_unlocked P = false.

(* ---- frame: a step that changes nothing L3 looks at, with the relaxations that are harmless:
   connected may drop; the request list may change where no clause reads it; a worker that is
   not inside task.service() may change its locals; a thread may ENTER _flush_some (fl0) when
   nothing is in flight. *)
Lemma L3_frame : forall st st',
  obs (sh st') = obs (sh st) -> infl (sh st') = infl (sh st) -> wire (sh st') = wire (sh st) ->
  produced (sh st') = produced (sh st) -> discarded (sh st') = discarded (sh st) -> units (sh st') = units (sh st) ->
  execs (sh st') = execs (sh st) -> cut (sh st') = cut (sh st) ->
  ((requests (sh st) = [] -> requests (sh st') = []) \/ is_iosc (ipc (io st')) = false) ->
  (connected (sh st') = true -> connected (sh st) = true) ->
  (forall f, io_fl (ipc (io st')) = Some f -> io_fl (ipc (io st)) = Some f \/ (f = fl0 /\ infl (sh st) = 0)) ->
  (io_fl (ipc (io st')) = None -> io_fl (ipc (io st)) = None) ->
  io_unl (ipc (io st')) = false ->
  (is_iosc (ipc (io st')) = true -> is_iosc (ipc (io st)) = true \/ requests (sh st') = []) ->
  (io_closed (ipc (io st)) = true -> io_closed (ipc (io st')) = true) ->
  (forall j, (forall f, wk_fl (wpc (wk st' j)) = Some f -> wk_fl (wpc (wk st j)) = Some f \/ (f = fl0 /\ infl (sh st) = 0)) /\
             (wk_fl (wpc (wk st' j)) = None -> wk_fl (wpc (wk st j)) = None) /\
             (is_relx (wpc (wk st' j)) = true -> is_relx (wpc (wk st j)) = true \/ connected (sh st') = false) /\
             (in_task (wpc (wk st' j)) = in_task (wpc (wk st j)) \/
              (in_task (wpc (wk st' j)) = false /\ connected (sh st) = false)) /\
             (in_task (wpc (wk st' j)) = true ->
              off_now P (wk st' j) = off_now P (wk st j) /\ w_cur (wk st' j) = w_cur (wk st j) /\
              w_idx (wk st' j) = w_idx (wk st j) /\ w_off (wk st' j) = w_off (wk st j))) ->
  L3' P st -> L3' P st'.
Proof.
  intros st st' H1 H2 H3 H4 H5 H6 H7 H7' H8 H9 I1 I1' I2 I3 I4 Hw [A B D E F G H C I J K L M N].
  assert (FE : forall f, FlInv (sh st) f -> FlInv (sh st') f) by (intros f X; unfold FlInv in *; rewrite H1, H2; exact X).
  assert (F0 : infl (sh st) = 0 -> FlInv (sh st') fl0) by (intro X; apply FlInv_fl0; congruence).
  split; unfold transport, tr_l, kept in *; rewrite ?H3, ?H4, ?H5, ?H6, ?H7, ?H7'; intros.
  - rewrite H1; assumption.
  - assumption.
  - destruct (I3 H0) as [X|X]; auto. destruct H8 as [H8|H8]; [apply H8; auto | congruence].
  - destruct (I1 f H0) as [X|[X Y]]; [auto | subst f; auto].
  - destruct (Hw j) as (X & _). destruct (X f H0) as [Y|[Y Z]]; [eauto | subst f; auto].
  - rewrite H2. apply G; auto. intro j. destruct (Hw j) as (_ & X & _). auto.
  - rewrite H1, H2. assumption.
  - assumption.
  - assumption.
  - assumption.
  - destruct (Hw j) as (_ & _ & _ & T & U). destruct T as [T|[T _]]; [|congruence].
    rewrite T in H0. destruct (U ltac:(congruence)) as (U1 & U2 & U3 & U4).
    destruct (K j H0) as (K1 & K2 & us & K3 & K4).
    unfold writes in *. rewrite U1, U2, U3, U4. repeat split; auto. exists us. split; auto.
  - destruct (connected (sh st)) eqn:Ec.
    + apply L; auto. intro j. destruct (Hw j) as (_ & _ & _ & T & _). destruct T as [T|[_ T]]; [|congruence].
      rewrite <- T. auto.
    + specialize (H9 H10). discriminate.
  - destruct (Hw j) as (_ & _ & X & _). destruct (connected (sh st')) eqn:Ec; auto.
    destruct (X H0) as [Y|Y]; [|congruence]. rewrite (M j Y) in H9. specialize (H9 eq_refl). discriminate.
  - auto.
Qed.

Ltac frame_side :=
  cbn; first [ reflexivity
             | assumption
             | left; let X := fresh in intro X; exact X
             | left; let X := fresh in intro X; rewrite X; reflexivity
             | left; intro; reflexivity
             | right; split; reflexivity
             | right; reflexivity
             | let X := fresh in intro X; exact X
             | let X := fresh in intro X; discriminate X
             | let X := fresh in intro X; left; exact X
             | let X := fresh in intro X; right; assumption
             | let f := fresh in let X := fresh in intros f X; left; exact X
             | let f := fresh in let X := fresh in intros f X; discriminate X
             | let f := fresh in let X := fresh in intros f X; right; split; [ congruence | assumption ]
             | idtac ].

Ltac wk_side :=
  cbn; repeat split; intros; repeat split;
  first [ reflexivity | assumption | congruence
        | left; reflexivity | left; assumption
        | right; split; [ reflexivity | assumption ]
        | right; split; [ congruence | assumption ]
        | right; assumption
        | idtac ].

Ltac frame_io HL3 :=
  apply (L3_frame _ _) with (17 := HL3);
  [ frame_side | frame_side | frame_side | frame_side | frame_side | frame_side | frame_side | frame_side
  | frame_side | frame_side | frame_side | frame_side | frame_side | frame_side | frame_side
  | cbn; intro; wk_side ].

Ltac frame_wk HL3 me Hw :=
  apply (L3_frame _ _) with (17 := HL3);
  [ frame_side | frame_side | frame_side | frame_side | frame_side | frame_side | frame_side | frame_side
  | frame_side | frame_side | frame_side | frame_side | frame_side | frame_side | frame_side
  | cbn; let j := fresh "j" in intro j; unfold upd; destruct (Nat.eqb_spec j me);
    [ subst j; rewrite Hw; wk_side | wk_side ] ].

(* like step_io / step_wk of Base, but _flush_some stays folded *)
Ltac step_io' Hs :=
  match type of Hs with step ?P ?st (CIo ?e) = Some (?st', ?l) =>
    unfold step in Hs;
    let E := fresh "E" in
    destruct (io_step P (sh st) (io st) e) as [[[s' i'] l']|] eqn:E; [|discriminate Hs];
    inv_some Hs;
    unfold io_step, sc_step, at_step, sc_enter, io_after_read in E;
    destruct st as [s i w]; cbn [sh io wk] in *;
    destruct i as [pc ir iw iws its icur icomp]; cbn [ipc i_r i_w i_ws i_items i_cur i_comp] in *;
    destruct pc; break_step E; inv_some E
  end.
Ltac step_wk' Hs :=
  match type of Hs with step ?P ?st (CWk ?me ?e) = Some (?st', ?l) =>
    unfold step in Hs;
    let Hme := fresh "Hme" in
    destruct (Nat.ltb me (p_nw P)) eqn:Hme; [|discriminate Hs];
    let E := fresh "E" in
    destruct (wk_step P me (sh st) (wk st me) e) as [[[s' w'] l']|] eqn:E; [|discriminate Hs];
    inv_some Hs;
    unfold wk_step, sc_step, at_step, sc_enter, wk_next_write in E;
    destruct st as [s i w]; cbn [sh io wk] in *;
    let Hw := fresh "Hw" in
    destruct (w me) as [pc cur idx off cl] eqn:Hw; cbn [wpc w_cur w_idx w_off w_close] in *;
    destruct pc; break_step E; inv_some E
  end.

(* ---- mutual exclusion facts at a state *)
Lemma nofl_io_ol : forall st, L0 st -> io_ol (ipc (io st)) = true -> forall j, wk_fl (wpc (wk st j)) = None.
Proof.
  intros st HL0 Hio j. destruct (wk_fl (wpc (wk st j))) eqn:E; auto.
  apply wk_fl_ol in E. pose proof (lock_ok_io_excl _ _ _ _ (l0_o _ HL0) Hio j). congruence.
Qed.

Lemma nofl_olock_free : forall st, L0 st -> olock (sh st) = None -> forall j, wk_fl (wpc (wk st j)) = None.
Proof.
  intros st HL0 Hf j. destruct (wk_fl (wpc (wk st j))) eqn:E; auto.
  apply wk_fl_ol in E. apply (proj2 (proj2 (l0_o _ HL0) j)) in E. congruence.
Qed.

Lemma notask_req_empty : forall st, L1 st -> requests (sh st) = [] -> forall j, in_task (wpc (wk st j)) = false.
Proof.
  intros st HL1 Hr j. destruct (in_task (wpc (wk st j))) eqn:E; auto.
  apply in_task_serving in E. exfalso.
  apply (l1_ownreq _ HL1 j (serving_owner _ E) (serving_not_postpop _ E)). exact Hr.
Qed.

Lemma wk_ol_excl : forall st me, L0 st -> L3' P st -> wk_ol (wpc (wk st me)) = true ->
  io_fl (ipc (io st)) = None /\ forall j, j <> me -> wk_fl (wpc (wk st j)) = None.
Proof.
  intros st me HL0 HL3 Hme. split.
  - destruct (io_fl (ipc (io st))) eqn:E; auto. apply io_fl_touch in E. destruct E as [E|E].
    + pose proof (lock_ok_io_excl _ _ _ _ (l0_o _ HL0) E me). congruence.
    + rewrite (o_unl _ _ HL3) in E. discriminate.
  - intros j Hj. destruct (wk_fl (wpc (wk st j))) eqn:E; auto. apply wk_fl_ol in E.
    exfalso. apply Hj. eapply (lock_ok_wk_excl _ _ _ _ (l0_o _ HL0)); eauto.
Qed.

Lemma owner_others_notask : forall st me, L1 st -> wk_owner (wpc (wk st me)) = true ->
  forall j, j <> me -> in_task (wpc (wk st j)) = false.
Proof.
  intros st me HL1 Ho j Hj. destruct (in_task (wpc (wk st j))) eqn:E; auto.
  apply in_task_serving in E. rewrite (others_not_serving st me HL1 Ho j Hj) in E. discriminate.
Qed.

(* ---- algebra of the transport statement *)
Lemma kept_app : forall c (d p x : list tok), c + length d <= length p ->
  firstn c (p ++ x) ++ skipn (c + length d) (p ++ x) = (firstn c p ++ skipn (c + length d) p) ++ x.
Proof.
  intros c d p x H. rewrite firstn_app. replace (c - length p) with 0 by lia. simpl. rewrite app_nil_r.
  rewrite skipn_app_le by lia. rewrite app_assoc. reflexivity.
Qed.

Lemma disc_app : forall c (d p x : list tok), c + length d <= length p ->
  firstn (length d) (skipn c (p ++ x)) = firstn (length d) (skipn c p).
Proof.
  intros c d p x H. rewrite skipn_app_le by lia. rewrite firstn_app.
  rewrite skipn_length. replace (length d - (length p - c)) with 0 by lia. simpl. rewrite app_nil_r. reflexivity.
Qed.

(* appending x to the last buffer and to produced, nothing in flight *)
Lemma transport_append : forall s s' x,
  transport s -> cut s + length (discarded s) <= length (produced s) -> infl s = 0 ->
  obs s' = app_last (obs s) x -> produced s' = produced s ++ x ->
  infl s' = infl s -> wire s' = wire s -> discarded s' = discarded s -> cut s' = cut s ->
  transport s' /\ cut s' + length (discarded s') <= length (produced s').
Proof.
  intros s s' x [T1 T2] Hc Hi E1 E2 E3 E4 E5 E6.
  unfold transport, tr_l, kept in *. rewrite E1, E2, E3, E4, E5, E6. rewrite Hi in *. cbn [skipn] in *.
  repeat split.
  - rewrite concat_app_last. rewrite kept_app by auto. rewrite <- T1. rewrite app_assoc. reflexivity.
  - rewrite disc_app by auto. exact T2.
  - rewrite app_length. lia.
Qed.

Ltac side := cbn; first [ reflexivity | assumption | discriminate | auto; fail
                        | let X := fresh in intro X; first [ discriminate X | exact X ] ].

(* ---- one step of _flush_some made by the I/O thread (under outbuf_lock) *)
Lemma L3_fl_io : forall s i w f e s' r l i',
  L0 {| sh := s; io := i; wk := w |} ->
  L3' P {| sh := s; io := i; wk := w |} ->
  io_fl (ipc i) = Some f ->
  fl_step s f e = Some (s', r, l) ->
  io_unl (ipc i') = false ->
  (is_iosc (ipc i') = true -> is_iosc (ipc i) = true) ->
  (io_closed (ipc i) = true -> io_closed (ipc i') = true) ->
  match r with FCont f' => io_fl (ipc i') = Some f' | _ => io_fl (ipc i') = None end ->
  L3' P {| sh := s'; io := i'; wk := w |}.
Proof.
  intros s i w f e s' r l i' HL0 HL3 Hf Hs Hu Hc Hcl Hr.
  assert (Hnone : forall j, wk_fl (wpc (w j)) = None).
  { destruct (io_fl_touch _ _ Hf) as [X|X].
    - apply (nofl_io_ol _ HL0 X).
    - pose proof (o_unl _ _ HL3) as Y. cbn [sh io wk] in *. congruence. }
  destruct HL3 as [A B D E F G H C I J K L M N]. cbn [sh io wk] in *.
  destruct (fl_step_ok s f e s' r l Hs A (E f Hf)) as (Hne & HT & (S1 & S2 & S3 & S4 & S5 & S6 & S7) & HI).
  destruct H as [T1 T2].
  split; cbn [sh io wk]; unfold transport, kept in *; rewrite ?HT, ?S1, ?S2, ?S3, ?S4, ?S5, ?S6, ?S7; intros; eauto.
  all: try (rewrite Hnone in *; discriminate).
  all: try (destruct r; try congruence; try contradiction;
            first [ exact HI | match goal with X : io_fl _ = Some ?a, Y : io_fl _ = Some ?b |- _ => assert (a = b) by congruence; subst; exact HI end ]).
  all: try congruence.
Qed.

(* ---- one step of _flush_some made by a worker (inside write_soon or send_continue) *)
Lemma L3_fl_wk : forall s i w me f e s' r l x,
  L0 {| sh := s; io := i; wk := w |} -> L1 {| sh := s; io := i; wk := w |} ->
  L3' P {| sh := s; io := i; wk := w |} ->
  wk_fl (wpc (w me)) = Some f ->
  fl_step s f e = Some (s', r, l) ->
  w_cur x = w_cur (w me) -> w_idx x = w_idx (w me) -> w_off x = w_off (w me) ->
  in_task (wpc x) = in_task (wpc (w me)) -> appended (wpc x) = appended (wpc (w me)) ->
  is_relx (wpc x) = false ->
  match r with FCont f' => wk_fl (wpc x) = Some f' | _ => wk_fl (wpc x) = None end ->
  L3' P {| sh := s'; io := i; wk := upd w me x |}.
Proof.
  intros s i w me f e s' r l x HL0 HL1 HL3 Hfme Hs Hc1 Hc2 Hc3 Ht Ha Hrx Hr.
  assert (Hol : wk_ol (wpc (w me)) = true) by (eapply wk_fl_ol; eauto).
  destruct (wk_ol_excl _ me HL0 HL3 Hol) as [Hio Hoth]. cbn [sh io wk] in *.
  assert (Hoff : off_now P x = off_now P (w me)).
  { unfold off_now, wsize. rewrite Ha, Hc1, Hc2, Hc3. reflexivity. }
  destruct HL3 as [A B D E F G H C I J K L M N]. cbn [sh io wk] in *.
  destruct (fl_step_ok s f e s' r l Hs A (F me f Hfme)) as (Hne & HT & (S1 & S2 & S3 & S4 & S5 & S6 & S7) & HI).
  destruct H as [T1 T2].
  split; cbn [sh io wk]; unfold transport, kept in *; rewrite ?HT, ?S1, ?S2, ?S3, ?S4, ?S5, ?S6, ?S7; intros; eauto.
  all: try congruence.
  - (* o_fwk *) unfold upd in H. destruct (Nat.eqb_spec j me).
    + destruct r; try congruence; assert (f0 = f1) by congruence; subst; exact HI.
    + rewrite Hoth in H by auto. discriminate.
  - (* o_infl *) specialize (H0 me). rewrite upd_same in H0. destruct r; try congruence; try contradiction; exact HI.
  - (* o_task *) unfold upd in *. destruct (Nat.eqb_spec j me).
    + subst j. rewrite Ht in H. destruct (K me H) as (K1 & K2 & us & K3 & K4).
      unfold writes in *. rewrite Hoff, Hc1, Hc2, Hc3. repeat split; auto. exists us. auto.
    + auto.
  - (* o_done *) apply L; auto. intro j. specialize (H j). unfold upd in H. destruct (Nat.eqb_spec j me); [subst j; congruence | auto].
  - (* o_relx *) unfold upd in H. destruct (Nat.eqb_spec j me); eauto. congruence.
Qed.

(* ---- send_continue appends an interim response (I/O thread in received(), or the finishing worker) *)
Lemma L3_append_cont : forall s i w s' i' w' id,
  L1 {| sh := s; io := i; wk := w |} ->
  L3' P {| sh := s; io := i; wk := w |} ->
  requests s = [] -> infl s = 0 ->
  (forall j, wk_fl (wpc (w' j)) = None) -> io_fl (ipc i') = None -> io_unl (ipc i') = false ->
  (forall j, in_task (wpc (w' j)) = in_task (wpc (w j))) ->
  (forall j, is_relx (wpc (w' j)) = true -> is_relx (wpc (w j)) = true) ->
  (io_closed (ipc i) = true -> io_closed (ipc i') = true) ->
  obs s' = app_last (obs s) (cont_toks P id) -> produced s' = produced s ++ cont_toks P id ->
  units s' = units s ++ [UCont id] ->
  infl s' = infl s -> wire s' = wire s -> discarded s' = discarded s -> execs s' = execs s ->
  requests s' = requests s -> connected s' = connected s -> cut s' = cut s ->
  L3' P {| sh := s'; io := i'; wk := w' |}.
Proof.
  intros s i w s' i' w' id HL1 HL3 Hreq Hinfl Hnf Hfl' Hun' Htk Hrx Hcl E1 E2 E3 E4 E5 E6 E7 E8 E9 E10.
  pose proof (notask_req_empty _ HL1 Hreq) as Hnt. cbn [sh io wk] in *.
  destruct HL3 as [A B D E F G H C I J K L M N]. cbn [sh io wk] in *.
  destruct (transport_append s s' (cont_toks P id) H C Hinfl E1 E2 E4 E5 E6 E10) as [HT HC].
  split; cbn [sh io wk]; auto; rewrite ?E3, ?E7, ?E8, ?E9; intros; eauto.
  all: try congruence.
  all: try (rewrite Hnf in *; discriminate).
  all: try (rewrite Htk, Hnt in *; discriminate).
  - rewrite E1. apply app_last_nonnil.
  - rewrite E2, flat_map_app. cbn. rewrite app_nil_r. congruence.
  - rewrite resp_ids_app. cbn. rewrite app_nil_r. assumption.
  - apply Forall_app. split; auto. constructor; simpl; auto.
  - rewrite E6 in *. auto.
Qed.

(* ---- handle_close empties the buffers *)
Lemma L3_close_bufs : forall s i w s' i',
  L0 {| sh := s; io := i; wk := w |} ->
  L3' P {| sh := s; io := i; wk := w |} ->
  io_ol (ipc i) = true -> io_fl (ipc i) = None -> io_closed (ipc i) = false ->
  io_fl (ipc i') = None -> io_unl (ipc i') = false -> is_iosc (ipc i') = false ->
  io_closed (ipc i') = true ->
  obs s' = map (fun _ => []) (obs s) -> discarded s' = skipn (infl s) (concat (obs s)) ++ discarded s ->
  cut s' = length (wire s) ->
  produced s' = produced s -> units s' = units s ->
  infl s' = infl s -> wire s' = wire s -> execs s' = execs s ->
  requests s' = requests s -> connected s' = connected s ->
  L3' P {| sh := s'; io := i'; wk := w |}.
Proof.
  intros s i w s' i' HL0 HL3 Hol Hfl Hncl Hfl' Hun' Hsc' Hcl' E1 E2 E2' E3 E4 E5 E6 E7 E8 E9.
  pose proof (nofl_io_ol _ HL0 Hol) as Hnf. cbn [sh io wk] in *.
  assert (Hinfl : infl s = 0) by (apply (o_infl _ _ HL3); auto).
  assert (Hdisc : discarded s = []).
  { destruct (discarded s) eqn:E; auto. assert (X : discarded s <> []) by (rewrite E; discriminate).
    apply (o_disc _ _ HL3) in X. cbn [sh io wk] in X. congruence. }
  destruct HL3 as [A B D E F G H C I J K L M N]. cbn [sh io wk] in *.
  destruct H as [T1 T2]. unfold tr_l, kept in T1. rewrite Hinfl, Hdisc in *. cbn [skipn length] in *.
  rewrite Nat.add_0_r in T1. rewrite firstn_skipn in T1. rewrite app_nil_r in E2.
  split; cbn [sh io wk]; unfold transport, tr_l, kept; rewrite ?E1, ?E2, ?E2', ?E3, ?E4, ?E5, ?E6, ?E7, ?E8, ?E9; intros; eauto.
  all: try congruence.
  all: try (rewrite Hnf in *; discriminate).
  - destruct (obs s); simpl; congruence.
  - rewrite concat_map_nil. cbn [skipn]. rewrite app_nil_r. rewrite <- T1.
    rewrite firstn_app, Nat.sub_diag, firstn_all. cbn [firstn]. rewrite app_nil_r.
    rewrite <- app_length, skipn_all, app_nil_r.
    split; [reflexivity|]. rewrite skipn_app, Nat.sub_diag, skipn_all. cbn [skipn app]. rewrite firstn_all. reflexivity.
  - rewrite <- T1. rewrite app_length. lia.
Qed.

Lemma list_sum_firstn_S : forall (l : list nat) i, i < length l ->
  list_sum (firstn (S i) l) = list_sum (firstn i l) + nth i l 0.
Proof.
  induction l as [|a r IH]; intros i Hi; simpl in *; [lia|].
  destruct i; simpl.
  - lia.
  - rewrite (IH i) by lia. lia.
Qed.

Ltac upd_me me :=
  unfold upd in *;
  repeat match goal with
  | |- context [Nat.eqb ?j me] => destruct (Nat.eqb_spec j me); [subst j|]
  | H : context [Nat.eqb ?j me] |- _ => destruct (Nat.eqb_spec j me); [subst j|]
  end.

(* ---- the application is called: a new response unit *)
Lemma L3_exec : forall s i w me x s',
  L0 {| sh := s; io := i; wk := w |} -> L1 {| sh := s; io := i; wk := w |} ->
  L3' P {| sh := s; io := i; wk := w |} ->
  wpc (w me) = WSvWc ->
  execs s' = execs s ++ [w_cur (w me)] -> units s' = units s ++ [UResp (w_cur (w me)) 0] ->
  obs s' = obs s -> infl s' = infl s -> wire s' = wire s -> produced s' = produced s ->
  discarded s' = discarded s -> requests s' = requests s -> connected s' = connected s -> cut s' = cut s ->
  w_cur x = w_cur (w me) -> w_idx x = 0 -> w_off x = 0 ->
  wk_fl (wpc x) = None -> is_relx (wpc x) = false -> appended (wpc x) = false ->
  (in_task (wpc x) = true -> 0 < length (r_writes (desc P (w_cur (w me))))) ->
  (in_task (wpc x) = false -> length (r_writes (desc P (w_cur (w me)))) = 0) ->
  L3' P {| sh := s'; io := i; wk := upd w me x |}.
Proof.
  intros s i w me x s' HL0 HL1 HL3 Hpc E1 E2 E3 E4 E5 E6 E7 E8 E9 E10 X1 X2 X3 X4 X6 X8 X9 X10.
  assert (Hown : wk_owner (wpc (w me)) = true) by (rewrite Hpc; reflexivity).
  pose proof (owner_others_notask _ me HL1 Hown) as Hoth. cbn [sh io wk] in *.
  assert (Hnt : forall j, in_task (wpc (w j)) = false).
  { intro j. destruct (Nat.eq_dec j me) as [->|N]; auto. rewrite Hpc. reflexivity. }
  assert (Hfme : wk_fl (wpc (w me)) = None) by (rewrite Hpc; reflexivity).
  destruct HL3 as [A B D E F G H C I J K L M N]. cbn [sh io wk] in *.
  pose proof (L Hnt) as Hall.
  assert (FE : forall f, FlInv s f -> FlInv s' f) by (intros f0 X; unfold FlInv in *; rewrite E3, E4; exact X).
  split; cbn [sh io wk]; unfold transport, tr_l, kept in *; rewrite ?E1, ?E2, ?E3, ?E4, ?E5, ?E6, ?E7, ?E8, ?E9, ?E10; intros; eauto.
  all: try congruence.
  all: try solve [apply FE; eauto].
  all: try solve [upd_me me; [congruence | apply FE; eauto]].
  - (* o_infl *) apply G; auto. intro j. specialize (H1 j). upd_me me; auto.
  - (* o_prod *) rewrite flat_map_app. cbn. unfold resp_toks. cbn. rewrite app_nil_r. assumption.
  - (* o_ids *) rewrite resp_ids_app. cbn. congruence.
  - (* o_task *) upd_me me.
    + unfold writes, off_now. rewrite X8, X1, X2, X3. cbn. repeat split; auto. exists (units s). split; auto.
    + rewrite Hnt in H0. discriminate.
  - (* o_done *) apply Forall_app. split; auto. constructor; auto. simpl.
    specialize (H0 me). rewrite upd_same in H0. specialize (X10 H0).
    unfold resp_len. destruct (r_writes (desc P (w_cur (w me)))); simpl in *; [reflexivity|discriminate].
  - (* o_relx *) upd_me me; [congruence | eauto].
Qed.

(* ---- write_soon rotates to a new buffer *)
Lemma L3_rot : forall s i w me x s',
  L0 {| sh := s; io := i; wk := w |} -> L1 {| sh := s; io := i; wk := w |} ->
  L3' P {| sh := s; io := i; wk := w |} ->
  wpc (w me) = WWsRot -> obs s' = obs s ++ [[]] ->
  infl s' = infl s -> wire s' = wire s -> produced s' = produced s -> units s' = units s ->
  discarded s' = discarded s -> requests s' = requests s -> connected s' = connected s -> execs s' = execs s ->
  cut s' = cut s ->
  w_cur x = w_cur (w me) -> w_idx x = w_idx (w me) -> w_off x = w_off (w me) ->
  wk_fl (wpc x) = None -> is_relx (wpc x) = false ->
  appended (wpc x) = false -> in_task (wpc x) = true ->
  L3' P {| sh := s'; io := i; wk := upd w me x |}.
Proof.
  intros s i w me x s' HL0 HL1 HL3 Hpc E1 E2 E3 E4 E5 E6 E7 E8 E9 E10 X1 X2 X3 X4 X6 X8 X9.
  assert (Hol : wk_ol (wpc (w me)) = true) by (rewrite Hpc; reflexivity).
  destruct (wk_ol_excl _ me HL0 HL3 Hol) as [Hio Hoth]. cbn [sh io wk] in *.
  assert (Hfme : wk_fl (wpc (w me)) = None) by (rewrite Hpc; reflexivity).
  assert (Hnf : forall j, wk_fl (wpc (w j)) = None).
  { intro j. destruct (Nat.eq_dec j me) as [->|N]; auto. }
  assert (Htme : in_task (wpc (w me)) = true) by (rewrite Hpc; reflexivity).
  assert (Hame : appended (wpc (w me)) = false) by (rewrite Hpc; reflexivity).
  assert (Hoff : off_now P x = off_now P (w me)) by (unfold off_now; rewrite X8, Hame; auto).
  destruct HL3 as [A B D E F G H C I J K L M N]. cbn [sh io wk] in *.
  split; cbn [sh io wk]; unfold transport, tr_l, kept in *; rewrite ?E1, ?E2, ?E3, ?E4, ?E5, ?E6, ?E7, ?E8, ?E9, ?E10; intros; eauto.
  all: try congruence.
  - destruct (obs s); simpl; discriminate.
  - upd_me me; [congruence | rewrite Hnf in *; discriminate].
  - rewrite concat_snoc_nil. assumption.
  - upd_me me.
    + destruct (K me Htme) as (K1 & K2 & us & K3 & K4).
      unfold writes in *. rewrite Hoff, X1, X2, X3. repeat split; auto. exists us. auto.
    + auto.
  - specialize (H0 me). rewrite upd_same in H0. congruence.
  - upd_me me; [congruence | eauto].
Qed.

(* ---- write_soon appends the data of the current call *)
Lemma L3_append_wk : forall s i w me x s',
  L0 {| sh := s; io := i; wk := w |} -> L1 {| sh := s; io := i; wk := w |} ->
  L3' P {| sh := s; io := i; wk := w |} ->
  wpc (w me) = WWsApp ->
  obs s' = app_last (obs s) (resp_toks (w_cur (w me)) (w_off (w me)) (wsize P (w me))) ->
  produced s' = produced s ++ resp_toks (w_cur (w me)) (w_off (w me)) (wsize P (w me)) ->
  units s' = bump (w_cur (w me)) (wsize P (w me)) (units s) ->
  infl s' = infl s -> wire s' = wire s -> discarded s' = discarded s -> requests s' = requests s ->
  connected s' = connected s -> execs s' = execs s -> cut s' = cut s ->
  w_cur x = w_cur (w me) -> w_idx x = w_idx (w me) -> w_off x = w_off (w me) ->
  wk_fl (wpc x) = None -> is_relx (wpc x) = false ->
  appended (wpc x) = true -> in_task (wpc x) = true ->
  L3' P {| sh := s'; io := i; wk := upd w me x |}.
Proof.
  intros s i w me x s' HL0 HL1 HL3 Hpc E1 E2 E3 E4 E5 E6 E7 E8 E9 E10 X1 X2 X3 X4 X6 X8 X9.
  assert (Hol : wk_ol (wpc (w me)) = true) by (rewrite Hpc; reflexivity).
  destruct (wk_ol_excl _ me HL0 HL3 Hol) as [Hio Hoth]. cbn [sh io wk] in *.
  assert (Hfme : wk_fl (wpc (w me)) = None) by (rewrite Hpc; reflexivity).
  assert (Hnf : forall j, wk_fl (wpc (w j)) = None).
  { intro j. destruct (Nat.eq_dec j me) as [->|N]; auto. }
  assert (Htme : in_task (wpc (w me)) = true) by (rewrite Hpc; reflexivity).
  assert (Hame : appended (wpc (w me)) = false) by (rewrite Hpc; reflexivity).
  assert (Hown : wk_owner (wpc (w me)) = true) by (rewrite Hpc; reflexivity).
  pose proof (owner_others_notask _ me HL1 Hown) as Hont. cbn [sh io wk] in *.
  assert (Hinfl : infl s = 0) by (apply (o_infl _ _ HL3); auto).
  destruct HL3 as [A B D E F G H C I J K L M N]. cbn [sh io wk] in *.
  destruct (transport_append s s' _ H C Hinfl E1 E2 E4 E5 E6 E10) as [HT HC].
  destruct (K me Htme) as (K1 & K2 & us & K3 & K4).
  unfold off_now in K3. rewrite Hame in K3.
  assert (Hbump : bump (w_cur (w me)) (wsize P (w me)) (units s) = us ++ [UResp (w_cur (w me)) (w_off (w me) + wsize P (w me))]).
  { rewrite K3. apply bump_last. }
  assert (Hoffx : off_now P x = w_off (w me) + wsize P (w me)).
  { unfold off_now, wsize. rewrite X8, X1, X2, X3. reflexivity. }
  split; cbn [sh io wk]; auto; rewrite ?E3, ?E7, ?E8, ?E9; intros; eauto.
  all: try congruence.
  - rewrite E1. apply app_last_nonnil.
  - upd_me me; [congruence | rewrite Hnf in *; discriminate].
  - rewrite E2, Hbump. rewrite I, K3. rewrite !flat_map_app. cbn. rewrite !app_nil_r.
    rewrite resp_toks_app. rewrite app_assoc. reflexivity.
  - rewrite Hbump. rewrite <- J, K3. rewrite !resp_ids_app. reflexivity.
  - rewrite Hbump. upd_me me.
    + unfold writes in *. rewrite Hoffx, X1, X2, X3. repeat split; auto. exists us. split; auto.
    + rewrite Hont in H0 by auto. discriminate.
  - specialize (H0 me). rewrite upd_same in H0. congruence.
  - upd_me me; [congruence | eauto].
  - rewrite E6 in H0. auto.
Qed.

(* ---- write_soon returns: the next call, or the end of the task *)
Lemma L3_rel : forall s i w me x s',
  L0 {| sh := s; io := i; wk := w |} -> L1 {| sh := s; io := i; wk := w |} ->
  L3' P {| sh := s; io := i; wk := w |} ->
  wpc (w me) = WWsRel ->
  obs s' = obs s -> infl s' = infl s -> wire s' = wire s -> produced s' = produced s -> units s' = units s ->
  discarded s' = discarded s -> requests s' = requests s -> connected s' = connected s -> execs s' = execs s ->
  cut s' = cut s ->
  w_cur x = w_cur (w me) -> w_idx x = S (w_idx (w me)) -> w_off x = w_off (w me) + wsize P (w me) ->
  wk_fl (wpc x) = None -> is_relx (wpc x) = false -> appended (wpc x) = false ->
  (in_task (wpc x) = true -> S (w_idx (w me)) < length (writes P (w me))) ->
  (in_task (wpc x) = false -> length (writes P (w me)) <= S (w_idx (w me))) ->
  L3' P {| sh := s'; io := i; wk := upd w me x |}.
Proof.
  intros s i w me x s' HL0 HL1 HL3 Hpc E1 E2 E3 E4 E5 E6 E7 E8 E9 E10 X1 X2 X3 X4 X6 X8 X9 X10.
  assert (Htme : in_task (wpc (w me)) = true) by (rewrite Hpc; reflexivity).
  assert (Hame : appended (wpc (w me)) = true) by (rewrite Hpc; reflexivity).
  assert (Hown : wk_owner (wpc (w me)) = true) by (rewrite Hpc; reflexivity).
  pose proof (owner_others_notask _ me HL1 Hown) as Hont. cbn [sh io wk] in *.
  assert (FE : forall f, FlInv s f -> FlInv s' f) by (intros f0 X; unfold FlInv in *; rewrite E1, E2; exact X).
  assert (Hfme : wk_fl (wpc (w me)) = None) by (rewrite Hpc; reflexivity).
  destruct HL3 as [A B D E F G H C I J K L M N]. cbn [sh io wk] in *.
  destruct (K me Htme) as (K1 & K2 & us & K3 & K4).
  unfold off_now in K3. rewrite Hame in K3.
  assert (Hsum : w_off (w me) + wsize P (w me) = list_sum (firstn (S (w_idx (w me))) (writes P (w me)))).
  { rewrite list_sum_firstn_S by auto. unfold wsize, writes in *. rewrite K2. reflexivity. }
  split; cbn [sh io wk]; unfold transport, tr_l, kept in *; rewrite ?E1, ?E2, ?E3, ?E4, ?E5, ?E6, ?E7, ?E8, ?E9, ?E10; intros; eauto.
  all: try congruence.
  all: try solve [apply FE; eauto].
  - upd_me me; [congruence | apply FE; eauto].
  - apply G; auto. intro j. specialize (H1 j). upd_me me; auto.
  - upd_me me.
    + specialize (X9 H0). unfold writes, off_now in *. rewrite X8, X1, X2, X3. repeat split; auto.
      exists us. split; auto.
    + rewrite Hont in H0 by auto. discriminate.
  - (* o_done: the response just finished is complete *)
    specialize (H0 me) as Hx. rewrite upd_same in Hx. specialize (X10 Hx).
    rewrite K3. apply Forall_app. split; auto. constructor; auto. simpl.
    rewrite Hsum. unfold resp_len, writes in *. rewrite firstn_all2 by lia. reflexivity.
  - upd_me me; [congruence | eauto].
Qed.

Ltac fl_io HL0 HL3 :=
  match goal with
  | E : fl_step ?s ?f ?e = Some (?s', ?r, ?l) |- L3' _ {| sh := ?s'; io := ?i'; wk := ?w |} =>
      eapply (L3_fl_io _ _ _ f e s' r l i' HL0 HL3); [ reflexivity | exact E | side | side | side | side ]
  end.

Ltac fl_wk me Hw HL0 HL1 HL3 :=
  match goal with
  | E : fl_step ?s ?f ?e = Some (?s', ?r, ?l) |- L3' _ {| sh := ?s'; io := ?i; wk := upd ?w me ?x |} =>
      eapply (L3_fl_wk _ _ _ me f e s' r l x HL0 HL1 HL3);
      [ rewrite Hw; reflexivity | exact E | rewrite Hw; reflexivity | rewrite Hw; reflexivity | rewrite Hw; reflexivity
      | rewrite Hw; reflexivity | rewrite Hw; reflexivity | side | side ]
  end.

Theorem L3_step : forall st c st' l, L0 st -> L1 st -> L2 st -> L3' P st ->
  step P st c = Some (st', l) -> L3' P st'.
Proof.
  intros st c st' l HL0 HL1 HL2 HL3 Hs.
  destruct c as [e | me e].
  - pose proof (nofl_io_ol st HL0) as Fa.
    pose proof (nofl_olock_free st HL0) as Fc.
    pose proof (o_infl _ _ HL3) as Hinf0.
    pose proof (o_unl _ _ HL3) as Hnu.
    pose proof (o_iosc _ _ HL3) as Hreq0.
    step_io' Hs; cbn [sh io wk ipc] in *.
    all: try congruence.
    all: cbn in Hnu; try discriminate Hnu.
    all: try solve [frame_io HL3].
    all: try solve [destruct icomp; frame_io HL3].
    all: try solve [fl_io HL0 HL3].
    (* entering _flush_some: nothing is in flight *)
    all: try (match goal with |- L3' _ {| sh := ?s0; io := _; wk := _ |} =>
                assert (Hinfl : infl s0 = 0) by
                 (cbn; apply Hinf0; [ reflexivity
                               | first [ apply Fa; reflexivity
                                       | apply Fc; apply free_none; assumption ] ]) end;
              cbn in Hinfl; solve [frame_io HL3]).
    (* send_continue appends *)
    all: try solve [ match goal with |- L3' _ {| sh := ?s0; io := ?i0; wk := ?w0 |} =>
                       eapply (L3_append_cont _ _ w0 s0 i0 w0 (pst_id s) HL1 HL3) end;
                     first [ apply Hreq0; reflexivity
                           | apply Hinf0; [reflexivity | apply Fa; reflexivity]
                           | apply Fa; reflexivity
                           | side | intros; reflexivity | intros; assumption ] ].
    (* handle_close *)
    all: try solve [ eapply (L3_close_bufs _ _ _ _ _ HL0 HL3); side ].
  - pose proof (o_relx _ _ HL3 me) as Hrelx.
    pose proof (o_unl _ _ HL3) as Hnu.
    pose proof (wk_ol_excl st me HL0 HL3) as Hexcl.
    pose proof (o_infl _ _ HL3) as Hinf0.
    pose proof (l1_sc _ HL1 me) as Hsc0.
    step_wk' Hs; cbn [sh io wk ipc] in *.
    all: cbn in Hrelx, Hexcl, Hsc0, Hnu.
    all: try solve [frame_wk HL3 me Hw].
    all: try solve [fl_wk me Hw HL0 HL1 HL3].
    all: try (match goal with |- L3' _ {| sh := ?s0; io := _; wk := _ |} =>
                assert (Hcf : connected s0 = false) by (cbn; apply Hrelx; reflexivity) end;
              cbn in Hcf; solve [frame_wk HL3 me Hw]).
    all: try (match goal with |- L3' _ {| sh := ?s0; io := _; wk := _ |} =>
                assert (Hinfl : infl s0 = 0) by
                 (cbn; destruct (Hexcl eq_refl) as [X1 X2]; apply Hinf0; [ exact X1 | ];
                  let j := fresh "j" in intro j; destruct (Nat.eq_dec j me) as [->|N]; [rewrite Hw; reflexivity | apply X2; exact N]) end;
              cbn in Hinfl; solve [frame_wk HL3 me Hw]).
    all: try solve [ match goal with |- L3' _ {| sh := ?s0; io := ?i0; wk := upd ?w0 ?me0 ?x |} =>
                       eapply (L3_exec _ i0 w0 me0 x s0 HL0 HL1 HL3) end;
                     rewrite ?Hw; unfold writes, wsize; rewrite ?Hw; cbn; intros; bool_hyps;
                     first [ reflexivity | assumption | lia | discriminate ] ].
    all: try solve [ match goal with |- L3' _ {| sh := ?s0; io := ?i0; wk := upd ?w0 ?me0 ?x |} =>
                       eapply (L3_rot _ i0 w0 me0 x s0 HL0 HL1 HL3) end;
                     rewrite ?Hw; unfold writes, wsize; rewrite ?Hw; cbn; intros; bool_hyps;
                     first [ reflexivity | assumption | lia | discriminate ] ].
    all: try solve [ match goal with |- L3' _ {| sh := ?s0; io := ?i0; wk := upd ?w0 ?me0 ?x |} =>
                       eapply (L3_append_wk _ i0 w0 me0 x s0 HL0 HL1 HL3) end;
                     rewrite ?Hw; unfold writes, wsize; rewrite ?Hw; cbn; intros; bool_hyps;
                     first [ reflexivity | assumption | lia | discriminate ] ].
    all: try solve [ match goal with |- L3' _ {| sh := ?s0; io := ?i0; wk := upd ?w0 ?me0 ?x |} =>
                       eapply (L3_rel _ i0 w0 me0 x s0 HL0 HL1 HL3) end;
                     rewrite ?Hw; unfold writes, wsize; rewrite ?Hw; cbn; intros; bool_hyps;
                     first [ reflexivity | assumption | lia | discriminate ] ].
    (* the finishing worker's send_continue appends the interim response *)
    destruct (Hexcl eq_refl) as [X1 X2].
    eapply (L3_append_cont s i w _ i _ (pst_id s) HL1 HL3).
    + apply Hsc0; reflexivity.
    + apply Hinf0; [exact X1|]. intro j. destruct (Nat.eq_dec j me) as [->|N]; [rewrite Hw; reflexivity | apply X2; exact N].
    + intro j. unfold upd. destruct (Nat.eqb_spec j me); [reflexivity | apply X2; assumption].
    + exact X1.
    + exact Hnu.
    + intro j. unfold upd. destruct (Nat.eqb_spec j me); [subst j; rewrite Hw; reflexivity | reflexivity].
    + intros j. unfold upd. destruct (Nat.eqb_spec j me); [cbn; discriminate | auto].
    + auto.
    + reflexivity.
    + reflexivity.
    + reflexivity.
    + reflexivity.
    + reflexivity.
    + reflexivity.
    + reflexivity.
    + reflexivity.
    + reflexivity.
    + reflexivity.
Qed.
End Step.
