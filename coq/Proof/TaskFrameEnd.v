(* C03_frame end to end for plain applications without a declared length:
   what HTTPChannel.service wrote is parsed by the client into the status
   line, the fields and exactly the application's bytes. *)
From Coq Require Import String.
From Coq Require Import List NArith ZArith Bool Lia Arith Permutation.
From WV Require Import Lib.PyBytes Gen.GenTables Model.Task Spec.ClientParse
  Proof.TaskSort Proof.TaskLines Proof.TaskHead Proof.TaskStart Proof.TaskRun Proof.TaskChunk Proof.TaskClient
  Proof.TaskC08 Proof.TaskC09 Proof.TaskFrame Proof.TaskBody Proof.TaskSimple Proof.TaskFrameClient.
Import ListNotations.
Local Open Scope N_scope.

Section End2End.
Variable cap : str -> str.
Variable lower : str -> str.
Hypothesis Hcap : forall s, clean s -> clean (cap s).
Hypothesis Hcap_conn : cap (lit "Connection") = lit "Connection".
Hypothesis Hcap_te : beqb (cap (lit "Transfer-Encoding")) (lit "Connection") = false.
Variable c : cfg.
Hypothesis Hc : cfg_clean c.
Variable r : req.

(* an application header name that plays no part in framing or persistence, as the
   client and the header builder see it after normalisation *)
Definition plain_name (k : str) : Prop :=
  let n := norm_name cap k in
  no_colon n
  /\ beqb n (lit "Content-Length") = false
  /\ beqb (cap n) (lit "Connection") = false
  /\ beqb (lower_ascii n) te_name = false
  /\ beqb (lower_ascii n) cl_name = false.

Definition plain_fields (l : list (str * str)) : Prop := Forall (fun h => plain_name (fst h)) l.

Lemma kept_plain hb l : plain_fields l -> filter (kept cap hb) l = l.
Proof.
  induction 1 as [|h l (_ & H2 & _) Hl IH]; [reflexivity|].
  cbn [filter]. rewrite IH. unfold kept. cbn zeta in H2. rewrite H2. reflexivity.
Qed.

Lemma norm_plain hb l : plain_fields l -> norm_fields cap hb l = map (norm_field cap) l.
Proof. intro H. unfold norm_fields. rewrite kept_plain by auto. reflexivity. Qed.

Lemma bh_loop_plain t : plain_fields (t_rh t) ->
  ac_rh (bh_loop cap t) = map (norm_field cap) (t_rh t) /\ ac_cl (bh_loop cap t) = None.
Proof.
  intro H. unfold bh_loop. split.
  - rewrite bh_fold_rh. cbn [ac_rh List.app]. apply norm_plain. auto.
  - assert (G : forall l a, plain_fields l -> ac_cl a = None ->
                            ac_cl (fold_left (bh_step cap (has_body t)) l a) = None).
    { induction l as [|h l IH]; intros a Hl Ha; cbn [fold_left]; auto.
      inversion Hl as [|? ? (_ & H2 & _) Hl']; subst. apply IH; auto.
      unfold bh_step. cbn zeta in H2. rewrite H2. cbn [andb]. cbn [ac_cl]. exact Ha. }
    apply G; auto.
Qed.

(* Server / Via / Date *)
Definition tail_field (h : str * str) : Prop :=
  fst h = lit "Server" \/ fst h = lit "Via" \/ fst h = lit "Date".

Definition tail_ext (t t' : task) : Prop :=
  exists sf, t_rh t' = t_rh t ++ sf /\ Forall tail_field sf
             /\ t_status t' = t_status t /\ t_chunked t' = t_chunked t /\ t_cof t' = t_cof t
             /\ t_v11 t' = t_v11 t.

Lemma tail_ext_refl t : tail_ext t t.
Proof. exists []. rewrite app_nil_r. repeat split; auto. Qed.

Lemma tail_ext_add t h : tail_field h -> tail_ext t (set_rh (t_rh t ++ [h]) t).
Proof. intro H. exists [h]. repeat split; auto. Qed.

Lemma tail_ext_trans a b d : tail_ext a b -> tail_ext b d -> tail_ext a d.
Proof.
  intros (s1 & E1 & F1 & A1 & A2 & A3 & A4) (s2 & E2 & F2 & B1 & B2 & B3 & B4).
  exists (s1 ++ s2). rewrite E2, E1, app_assoc. repeat split; try congruence. apply Forall_app; auto.
Qed.

Lemma bh_tail a t : tail_ext t (bh_date c a (bh_server c a t)).
Proof.
  eapply tail_ext_trans with (bh_server c a t).
  - unfold bh_server. destruct (negb (truthy (ac_server a))).
    + destruct (c_ident c); [apply tail_ext_refl|]. apply tail_ext_add. left. reflexivity.
    + apply tail_ext_add. right. left. reflexivity.
  - unfold bh_date. destruct (negb (truthy (ac_date a))); [|apply tail_ext_refl].
    apply tail_ext_add. right. right. reflexivity.
Qed.

Lemma noconn_plain l : plain_fields l -> NoConn cap (map (norm_field cap) l).
Proof.
  intro H. unfold NoConn. apply Forall_forall. intros x Hx. apply in_map_iff in Hx as (h & <- & Hh).
  unfold plain_fields in H. rewrite Forall_forall in H. destruct (H h Hh) as (_ & _ & H3 & _). exact H3.
Qed.

(* the prepared task of a plain application without Content-Length *)
Lemma prepared_nolen t1 :
  t_cof t1 = false -> t_wrote_header t1 = false -> t_chunked t1 = false -> t_clen t1 = None ->
  plain_fields (t_rh t1) ->
  let tp := bh_prepare cap lower c r t1 in
  let '(add, cof, chk) := conn_table (t_v11 t1) (request_connection r) (r_connection_close r) false (has_body t1) in
  exists tail, t_rh tp = map (norm_field cap) (t_rh t1) ++ add ++ tail /\ Forall tail_field tail
               /\ t_cof tp = cof /\ t_chunked tp = chk /\ t_status tp = t_status t1 /\ t_v11 tp = t_v11 t1.
Proof.
  intros C W K L P. cbn zeta. unfold bh_prepare.
  destruct (bh_loop_plain t1 P) as [Erh Ecl].
  set (a := bh_loop cap t1) in *.
  set (t0 := set_rh (ac_rh a) t1).
  assert (Eclen : bh_clen a t0 = (None, t0)).
  { unfold bh_clen. rewrite Ecl. subst t0. cbn [t_clen set_rh]. rewrite L. reflexivity. }
  rewrite Eclen.
  pose proof (bh_conn_table cap lower Hcap_te (request_connection r) (r_connection_close r) None t0) as T.
  cbn zeta in T. cbn [truthy] in T.
  assert (Hb0 : has_body t0 = has_body t1) by reflexivity.
  assert (Hv0 : t_v11 t0 = t_v11 t1) by reflexivity.
  rewrite Hb0, Hv0 in T.
  destruct (conn_table (t_v11 t1) (request_connection r) (r_connection_close r) false (has_body t1)) as [[add cof] chk].
  destruct T as (T1 & T2 & T3 & T4 & _ & _ & _ & T8 & _); auto.
  { subst t0. cbn [t_rh set_rh]. rewrite Erh. apply noconn_plain. auto. }
  destruct (bh_tail a (bh_conn cap lower (request_connection r) (r_connection_close r) None t0))
    as (tail & E & F & A1 & A2 & A3 & A4).
  exists tail. split; [rewrite E, T1; subst t0; cbn [t_rh set_rh]; rewrite Erh, <- app_assoc; reflexivity|].
  subst t0. cbn [t_status t_v11 set_rh] in T4, T8.
  split; [exact F|]. split; [rewrite A3; exact T2|]. split; [rewrite A2; exact T3|].
  split; [rewrite A1; exact T4|]. rewrite A4; exact T8.
Qed.

Lemma filter_none {A} (P : A -> bool) l : Forall (fun x => P x = false) l -> filter P l = [].
Proof. induction 1 as [|x l Hx Hl IH]; cbn [filter]; [reflexivity|]. rewrite Hx. exact IH. Qed.

Lemma tail_no_colon tail : Forall tail_field tail -> Forall (fun h => no_colon (fst h)) tail.
Proof.
  intro H. eapply Forall_impl; [|exact H]. intros h [->|[->| ->]]; reflexivity.
Qed.

Lemma tail_not_named tail name :
  beqb (lower_ascii (lit "Server")) name = false -> beqb (lower_ascii (lit "Via")) name = false ->
  beqb (lower_ascii (lit "Date")) name = false ->
  Forall tail_field tail -> filter (field_is name) (map client_field tail) = [].
Proof.
  intros H1 H2 H3 H. apply filter_none. apply Forall_forall. intros x Hx.
  apply in_map_iff in Hx as (h & <- & Hh). rewrite Forall_forall in H.
  unfold field_is, client_field. cbn [fst]. destruct (H h Hh) as [->|[->| ->]]; assumption.
Qed.

Lemma plain_not_named l name :
  (name = te_name \/ name = cl_name) -> plain_fields l ->
  filter (field_is name) (map client_field (map (norm_field cap) l)) = [].
Proof.
  intros Hn H. apply filter_none. apply Forall_forall. intros x Hx.
  apply in_map_iff in Hx as (y & <- & Hy). apply in_map_iff in Hy as (h & <- & Hh).
  unfold plain_fields in H. rewrite Forall_forall in H. destruct (H h Hh) as (_ & _ & _ & H4 & H5).
  unfold field_is, client_field, norm_field. cbn [fst]. destruct Hn as [->| ->]; assumption.
Qed.

Lemma plain_no_colon l : plain_fields l -> Forall (fun h => no_colon (fst h)) (map (norm_field cap) l).
Proof.
  intro H. apply Forall_forall. intros x Hx. apply in_map_iff in Hx as (h & <- & Hh).
  unfold plain_fields in H. rewrite Forall_forall in H. destruct (H h Hh) as (H1 & _). exact H1.
Qed.

(* C03_frame for plain applications without a declared length.  HTTP/1.1:
   chunked coding, decoded by the client to exactly the application's bytes;
   HTTP/1.0: close-delimited.  In both cases the head announces
   "Connection: close" and the connection is closed. *)
Theorem frame_nolen status hs kind chunks hc :
  r_error r = None -> is_file kind = false -> len1 kind = false -> Forall (not_cl lower) hs ->
  plain_fields (strs_of hs) ->
  r_head r = false ->
  startswith status (lit "1") || startswith status (lit "204") || startswith status (lit "304") = false ->
  let res := channel_service cap lower c r (simple_app status hs kind chunks hc) None in
  o_raw res = None ->
  exists sl fields,
    parse_one false (wire (o_writes res))
    = Some (mkResponse sl fields
                       (if beqb (r_version r) (lit "1.1") then FChunked else FEof) (concat chunks), [])
    /\ sl = lit "HTTP/" ++ (if beqb (r_version r) (lit "1.1") then lit "1.1" else lit "1.0") ++ [32] ++ status
    /\ (forall h, In h (strs_of hs) -> In (client_field (norm_field cap h)) fields)
    /\ In (client_field f_close) fields
    /\ o_close res = true /\ o_next res = false.
Proof.
  intros He Hf Hl Hcl Hpl Hhead Hst. cbn zeta. intro Hraw.
  destruct (simple_nolen_wire cap lower c r status hs kind chunks hc He Hf Hl Hcl Hraw)
    as (t1 & tp & head & Esr & Eb & Ew & Ec & En & _).
  destruct (start_response_ok lower _ _ _ _ _ Esr) as (_ & S2 & S3 & S4 & S5 & S6 & S7 & S8 & S9 & _).
  cbn [new_task t_rh t_wrote_header t_cof t_chunked t_cbw t_v11 str_of List.app] in *.
  pose proof (start_response_no_cl lower (new_task (r_version r) false) (PStr status) hs None Hcl) as Hclen.
  rewrite Esr in Hclen. cbn [fst new_task t_clen] in Hclen.
  assert (Hclean1 : task_clean t1).
  { pose proof (start_response_clean lower (new_task (r_version r) false) (PStr status) hs None) as G.
    rewrite Esr in G. cbn [fst] in G. apply G. split; [reflexivity|constructor]. }
  assert (Etp : tp = bh_prepare cap lower c r t1) by (unfold build_response_header in Eb; inversion Eb; auto).
  assert (Ehead : head = head_text tp).
  { unfold build_response_header in Eb. injection Eb as E1 E2. apply encode_latin1_ok in E2. subst. reflexivity. }
  assert (Hcleanp : task_clean tp) by (subst tp; apply bh_prepare_clean; auto).
  rewrite <- S3 in Hpl.
  pose proof (prepared_nolen t1 S6 S5 S7 Hclen Hpl) as P. cbn zeta in P. rewrite <- Etp in P.
  assert (Hb1 : has_body t1 = true).
  { unfold has_body. rewrite S2, Hst. reflexivity. }
  rewrite Hb1, S9 in P.
  unfold conn_table in P. rewrite andb_false_r in P.
  assert (Hbp : has_body tp = true).
  { assert (Pst' : t_status tp = t_status t1).
    { destruct (beqb (r_version r) (lit "1.1")); [destruct (_ || _)|];
        destruct P as (tail & _ & _ & _ & _ & P5 & _); exact P5. }
    unfold has_body. rewrite Pst', S2, Hst. reflexivity. }
  rewrite Ew, Ec, En, Ehead.
  destruct (beqb (r_version r) (lit "1.1")) eqn:Ev.
  - (* HTTP/1.1: chunked *)
    set (cl1 := beqb (request_connection r) (lit "close") || r_connection_close r) in *.
    destruct P as (tail & Prh & Ptail & Pcof & Pchk & Pst & Pv).
    rewrite Pchk, Pcof. unfold body_enc. rewrite Hbp, Pchk.
    fold (encode_chunked chunks).
    rewrite <- (app_nil_r (encode_chunked chunks)), app_assoc, <- app_assoc.
    assert (Hnc : Forall (fun h => no_colon (fst h)) (t_rh tp)).
    { rewrite Prh. apply Forall_app. split; [apply plain_no_colon; auto|]. apply Forall_app. split.
      - destruct cl1; repeat constructor.
      - apply tail_no_colon; auto. }
    assert (Hte : te_fields tp = [client_field f_chunked]).
    { unfold te_fields. rewrite Prh, !map_app, !filter_app.
      rewrite (plain_not_named _ te_name (or_introl eq_refl) Hpl).
      rewrite (tail_not_named tail te_name eq_refl eq_refl eq_refl Ptail).
      destruct cl1; reflexivity. }
    rewrite (parse_chunked tp chunks [] Hcleanp Hnc Hbp Hte).
    eexists _, _. split; [reflexivity|]. split.
    { unfold first_line, version_str. rewrite Pv, Pst, S2. reflexivity. }
    split; [|split; [|auto]].
    + intros h Hh. apply in_map. eapply Permutation_in; [apply Permutation_sym, sort_perm|].
      rewrite Prh. apply in_or_app. left. apply in_map. rewrite S3. exact Hh.
    + apply in_map. eapply Permutation_in; [apply Permutation_sym, sort_perm|].
      rewrite Prh. apply in_or_app. right. apply in_or_app. left. destruct cl1; cbn; auto.
  - (* HTTP/1.0: read to EOF *)
    destruct P as (tail & Prh & Ptail & Pcof & Pchk & Pst & Pv).
    rewrite Pchk, Pcof. unfold body_enc. rewrite Hbp, Pchk. rewrite app_nil_r.
    assert (Hnc : Forall (fun h => no_colon (fst h)) (t_rh tp)).
    { rewrite Prh. apply Forall_app. split; [apply plain_no_colon; auto|]. apply Forall_app. split.
      - repeat constructor.
      - apply tail_no_colon; auto. }
    assert (Hte : te_fields tp = []).
    { unfold te_fields. rewrite Prh, !map_app, !filter_app.
      rewrite (plain_not_named _ te_name (or_introl eq_refl) Hpl).
      rewrite (tail_not_named tail te_name eq_refl eq_refl eq_refl Ptail). reflexivity. }
    assert (Hcf : cl_fields tp = []).
    { unfold cl_fields. rewrite Prh, !map_app, !filter_app.
      rewrite (plain_not_named _ cl_name (or_intror eq_refl) Hpl).
      rewrite (tail_not_named tail cl_name eq_refl eq_refl eq_refl Ptail). reflexivity. }
    rewrite (parse_eof tp (concat chunks) Hcleanp Hnc Hbp Hte Hcf).
    eexists _, _. split; [reflexivity|]. split.
    { unfold first_line, version_str. rewrite Pv, Pst, S2. reflexivity. }
    split; [|split; [|auto]].
    + intros h Hh. apply in_map. eapply Permutation_in; [apply Permutation_sym, sort_perm|].
      rewrite Prh. apply in_or_app. left. apply in_map. rewrite S3. exact Hh.
    + apply in_map. eapply Permutation_in; [apply Permutation_sym, sort_perm|].
      rewrite Prh. apply in_or_app. right. apply in_or_app. left. cbn; auto.
Qed.

End End2End.
