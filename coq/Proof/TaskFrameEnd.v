(* C03_frame end to end for plain applications without a declared length:
   what HTTPChannel.service wrote is parsed by the client into the status
   line, the fields and exactly the application's bytes. *)
From Coq Require Import String.
From Coq Require Import List NArith ZArith Bool Lia Arith Permutation.
From WV Require Import Lib.PyBytes Gen.GenTables Model.Task Spec.ClientParse
  Proof.TaskSort Proof.TaskLines Proof.TaskHead Proof.TaskStart Proof.TaskRun Proof.TaskChunk Proof.TaskClient
  Proof.TaskC08 Proof.TaskC09 Proof.TaskFrame Proof.TaskBody Proof.TaskSimple Proof.TaskFrameClient.
Import ListNotations.
Local Open Scope N_scope.

Section End2End.
Variable cap : str -> str.
Variable lower : str -> str.
Hypothesis Hcap : forall s, clean s -> clean (cap s).
Hypothesis Hcap_conn : cap (lit "Connection") = lit "Connection".
Hypothesis Hcap_te : beqb (cap (lit "Transfer-Encoding")) (lit "Connection") = false.
Variable c : cfg.
Hypothesis Hc : cfg_clean c.
Variable r : req.

(* an application header name that plays no part in framing or persistence, as the
   client and the header builder see it after normalisation *)
Definition plain_name (k : str) : Prop :=
  let n := norm_name cap k in
  no_colon n
  /\ beqb n (lit "Content-Length") = false
  /\ beqb (cap n) (lit "Connection") = false
  /\ beqb (lower_ascii n) te_name = false
  /\ beqb (lower_ascii n) cl_name = false.

Definition plain_fields (l : list (str * str)) : Prop := Forall (fun h => plain_name (fst h)) l.

Lemma kept_plain hb l : plain_fields l -> filter (kept cap hb) l = l.
Proof.
  induction 1 as [|h l (_ & H2 & _) Hl IH]; [reflexivity|].
  cbn [filter]. rewrite IH. unfold kept. cbn zeta in H2. rewrite H2. reflexivity.
Qed.

Lemma norm_plain hb l : plain_fields l -> norm_fields cap hb l = map (norm_field cap) l.
Proof. intro H. unfold norm_fields. rewrite kept_plain by auto. reflexivity. Qed.

Lemma bh_loop_plain t : plain_fields (t_rh t) ->
  ac_rh (bh_loop cap t) = map (norm_field cap) (t_rh t) /\ ac_cl (bh_loop cap t) = None.
Proof.
  intro H. unfold bh_loop. split.
  - rewrite bh_fold_rh. cbn [ac_rh List.app]. apply norm_plain. auto.
  - assert (G : forall l a, plain_fields l -> ac_cl a = None ->
                            ac_cl (fold_left (bh_step cap (has_body t)) l a) = None).
    { induction l as [|h l IH]; intros a Hl Ha; cbn [fold_left]; auto.
      inversion Hl as [|? ? (_ & H2 & _) Hl']; subst. apply IH; auto.
      unfold bh_step. cbn zeta in H2. rewrite H2. cbn [andb]. cbn [ac_cl]. exact Ha. }
    apply G; auto.
Qed.

(* Server / Via / Date *)
Definition tail_field (h : str * str) : Prop :=
  fst h = lit "Server" \/ fst h = lit "Via" \/ fst h = lit "Date".

Definition tail_ext (t t' : task) : Prop :=
  exists sf, t_rh t' = t_rh t ++ sf /\ Forall tail_field sf
             /\ t_status t' = t_status t /\ t_chunked t' = t_chunked t /\ t_cof t' = t_cof t
             /\ t_v11 t' = t_v11 t.

Lemma tail_ext_refl t : tail_ext t t.
Proof. exists []. rewrite app_nil_r. repeat split; auto. Qed.

Lemma tail_ext_add t h : tail_field h -> tail_ext t (set_rh (t_rh t ++ [h]) t).
Proof. intro H. exists [h]. repeat split; auto. Qed.

Lemma tail_ext_trans a b d : tail_ext a b -> tail_ext b d -> tail_ext a d.
Proof.
  intros (s1 & E1 & F1 & A1 & A2 & A3 & A4) (s2 & E2 & F2 & B1 & B2 & B3 & B4).
  exists (s1 ++ s2). rewrite E2, E1, app_assoc. repeat split; try congruence. apply Forall_app; auto.
Qed.

Lemma bh_tail a t : tail_ext t (bh_date c a (bh_server c a t)).
Proof.
  eapply tail_ext_trans with (bh_server c a t).
  - unfold bh_server. destruct (negb (truthy (ac_server a))).
    + destruct (c_ident c); [apply tail_ext_refl|]. apply tail_ext_add. left. reflexivity.
    + apply tail_ext_add. right. left. reflexivity.
  - unfold bh_date. destruct (negb (truthy (ac_date a))); [|apply tail_ext_refl].
    apply tail_ext_add. right. right. reflexivity.
Qed.

Lemma noconn_plain l : plain_fields l -> NoConn cap (map (norm_field cap) l).
Proof.
  intro H. unfold NoConn. apply Forall_forall. intros x Hx. apply in_map_iff in Hx as (h & <- & Hh).
  unfold plain_fields in H. rewrite Forall_forall in H. destruct (H h Hh) as (_ & _ & H3 & _). exact H3.
Qed.

(* the prepared task of a plain application without Content-Length *)
Lemma prepared_nolen t1 :
  t_cof t1 = false -> t_wrote_header t1 = false -> t_chunked t1 = false -> t_clen t1 = None ->
  plain_fields (t_rh t1) ->
  let tp := bh_prepare cap lower c r t1 in
  let '(add, cof, chk) := conn_table (t_v11 t1) (request_connection r) (r_connection_close r) false (has_body t1) in
  exists tail, t_rh tp = map (norm_field cap) (t_rh t1) ++ add ++ tail /\ Forall tail_field tail
               /\ t_cof tp = cof /\ t_chunked tp = chk /\ t_status tp = t_status t1 /\ t_v11 tp = t_v11 t1.
Proof.
  intros C W K L P. cbn zeta. unfold bh_prepare.
  destruct (bh_loop_plain t1 P) as [Erh Ecl].
  set (a := bh_loop cap t1) in *.
  set (t0 := set_rh (ac_rh a) t1).
  assert (Eclen : bh_clen a t0 = (None, t0)).
  { unfold bh_clen. rewrite Ecl. subst t0. cbn [t_clen set_rh]. rewrite L. reflexivity. }
  rewrite Eclen.
  pose proof (bh_conn_table cap lower Hcap_te (request_connection r) (r_connection_close r) None t0) as T.
  cbn zeta in T. cbn [truthy] in T.
  assert (Hb0 : has_body t0 = has_body t1) by reflexivity.
  assert (Hv0 : t_v11 t0 = t_v11 t1) by reflexivity.
  rewrite Hb0, Hv0 in T.
  destruct (conn_table (t_v11 t1) (request_connection r) (r_connection_close r) false (has_body t1)) as [[add cof] chk].
  destruct T as (T1 & T2 & T3 & T4 & _ & _ & _ & T8 & _); auto.
  { subst t0. cbn [t_rh set_rh]. rewrite Erh. apply noconn_plain. auto. }
  destruct (bh_tail a (bh_conn cap lower (request_connection r) (r_connection_close r) None t0))
    as (tail & E & F & A1 & A2 & A3 & A4).
  exists tail. split; [rewrite E, T1; subst t0; cbn [t_rh set_rh]; rewrite Erh, <- app_assoc; reflexivity|].
  subst t0. cbn [t_status t_v11 set_rh] in T4, T8.
  split; [exact F|]. split; [rewrite A3; exact T2|]. split; [rewrite A2; exact T3|].
  split; [rewrite A1; exact T4|]. rewrite A4; exact T8.
Qed.

Lemma filter_none {A} (P : A -> bool) l : Forall (fun x => P x = false) l -> filter P l = [].
Proof. induction 1 as [|x l Hx Hl IH]; cbn [filter]; [reflexivity|]. rewrite Hx. exact IH. Qed.

Lemma tail_no_colon tail : Forall tail_field tail -> Forall (fun h => no_colon (fst h)) tail.
Proof.
  intro H. eapply Forall_impl; [|exact H]. intros h [->|[->| ->]]; reflexivity.
Qed.

Lemma tail_not_named tail name :
  beqb (lower_ascii (lit "Server")) name = false -> beqb (lower_ascii (lit "Via")) name = false ->
  beqb (lower_ascii (lit "Date")) name = false ->
  Forall tail_field tail -> filter (field_is name) (map client_field tail) = [].
Proof.
  intros H1 H2 H3 H. apply filter_none. apply Forall_forall. intros x Hx.
  apply in_map_iff in Hx as (h & <- & Hh). rewrite Forall_forall in H.
  unfold field_is, client_field. cbn [fst]. destruct (H h Hh) as [->|[->| ->]]; assumption.
Qed.

Lemma plain_not_named l name :
  (name = te_name \/ name = cl_name) -> plain_fields l ->
  filter (field_is name) (map client_field (map (norm_field cap) l)) = [].
Proof.
  intros Hn H. apply filter_none. apply Forall_forall. intros x Hx.
  apply in_map_iff in Hx as (y & <- & Hy). apply in_map_iff in Hy as (h & <- & Hh).
  unfold plain_fields in H. rewrite Forall_forall in H. destruct (H h Hh) as (_ & _ & _ & H4 & H5).
  unfold field_is, client_field, norm_field. cbn [fst]. destruct Hn as [->| ->]; assumption.
Qed.

Lemma plain_no_colon l : plain_fields l -> Forall (fun h => no_colon (fst h)) (map (norm_field cap) l).
Proof.
  intro H. apply Forall_forall. intros x Hx. apply in_map_iff in Hx as (h & <- & Hh).
  unfold plain_fields in H. rewrite Forall_forall in H. destruct (H h Hh) as (H1 & _). exact H1.
Qed.

(* C03_frame for plain applications without a declared length.  HTTP/1.1:
   chunked coding, decoded by the client to exactly the application's bytes;
   HTTP/1.0: close-delimited.  In both cases the head announces
   "Connection: close" and the connection is closed. *)
Theorem frame_nolen status hs kind chunks hc :
  r_error r = None -> is_file kind = false -> len1 kind = false -> Forall (not_cl lower) hs ->
  plain_fields (strs_of hs) ->
  r_head r = false ->
  startswith status (lit "1") || startswith status (lit "204") || startswith status (lit "304") = false ->
  let res := channel_service cap lower c r (simple_app status hs kind chunks hc) None in
  o_raw res = None ->
  exists sl fields,
    parse_one false (wire (o_writes res))
    = Some (mkResponse sl fields
                       (if beqb (r_version r) (lit "1.1") then FChunked else FEof) (concat chunks), [])
    /\ sl = lit "HTTP/" ++ (if beqb (r_version r) (lit "1.1") then lit "1.1" else lit "1.0") ++ [32] ++ status
    /\ (forall h, In h (strs_of hs) -> In (client_field (norm_field cap h)) fields)
    /\ In (client_field f_close) fields
    /\ o_close res = true /\ o_next res = false.
Proof.
  intros He Hf Hl Hcl Hpl Hhead Hst. cbn zeta. intro Hraw.
  destruct (simple_nolen_wire cap lower c r status hs kind chunks hc He Hf Hl Hcl Hraw)
    as (t1 & tp & head & Esr & Eb & Ew & Ec & En & _).
  destruct (start_response_ok lower _ _ _ _ _ Esr) as (_ & S2 & S3 & S4 & S5 & S6 & S7 & S8 & S9 & _).
  cbn [new_task t_rh t_wrote_header t_cof t_chunked t_cbw t_v11 str_of List.app] in *.
  pose proof (start_response_no_cl lower (new_task (r_version r) false) (PStr status) hs None eq_refl Hcl) as Hclen.
  rewrite Esr in Hclen. cbn [fst new_task t_clen] in Hclen.
  assert (Hclean1 : task_clean t1).
  { pose proof (start_response_clean lower (new_task (r_version r) false) (PStr status) hs None) as G.
    rewrite Esr in G. cbn [fst] in G. apply G. split; [reflexivity|constructor]. }
  assert (Etp : tp = bh_prepare cap lower c r t1) by (unfold build_response_header in Eb; inversion Eb; auto).
  assert (Ehead : head = head_text tp).
  { unfold build_response_header in Eb. injection Eb as E1 E2. apply encode_latin1_ok in E2. subst. reflexivity. }
  assert (Hcleanp : task_clean tp) by (subst tp; apply bh_prepare_clean; auto).
  rewrite <- S3 in Hpl.
  pose proof (prepared_nolen t1 S6 S5 S7 Hclen Hpl) as P. cbn zeta in P. rewrite <- Etp in P.
  assert (Hb1 : has_body t1 = true).
  { unfold has_body. rewrite S2, Hst. reflexivity. }
  rewrite Hb1, S9 in P.
  unfold conn_table in P. rewrite andb_false_r in P.
  assert (Hbp : has_body tp = true).
  { assert (Pst' : t_status tp = t_status t1).
    { destruct (beqb (r_version r) (lit "1.1")); [destruct (_ || _)|];
        destruct P as (tail & _ & _ & _ & _ & P5 & _); exact P5. }
    unfold has_body. rewrite Pst', S2, Hst. reflexivity. }
  rewrite Ew, Ec, En, Ehead, Hhead. cbn [negb]. rewrite andb_true_r.
  destruct (beqb (r_version r) (lit "1.1")) eqn:Ev.
  - (* HTTP/1.1: chunked *)
    set (cl1 := beqb (request_connection r) (lit "close") || r_connection_close r) in *.
    destruct P as (tail & Prh & Ptail & Pcof & Pchk & Pst & Pv).
    rewrite Pchk, Pcof. unfold body_enc. rewrite Hbp, Pchk.
    fold (encode_chunked chunks).
    rewrite <- (app_nil_r (encode_chunked chunks)), app_assoc, <- app_assoc.
    assert (Hnc : Forall (fun h => no_colon (fst h)) (t_rh tp)).
    { rewrite Prh. apply Forall_app. split; [apply plain_no_colon; auto|]. apply Forall_app. split.
      - destruct cl1; repeat constructor.
      - apply tail_no_colon; auto. }
    assert (Hte : te_fields tp = [client_field f_chunked]).
    { unfold te_fields. rewrite Prh, !map_app, !filter_app.
      rewrite (plain_not_named _ te_name (or_introl eq_refl) Hpl).
      rewrite (tail_not_named tail te_name eq_refl eq_refl eq_refl Ptail).
      destruct cl1; reflexivity. }
    rewrite (parse_chunked tp chunks [] Hcleanp Hnc Hbp Hte).
    eexists _, _. split; [reflexivity|]. split.
    { unfold first_line, version_str. rewrite Pv, Pst, S2. reflexivity. }
    split; [|split; [|auto]].
    + intros h Hh. apply in_map. eapply Permutation_in; [apply Permutation_sym, sort_perm|].
      rewrite Prh. apply in_or_app. left. apply in_map. rewrite S3. exact Hh.
    + apply in_map. eapply Permutation_in; [apply Permutation_sym, sort_perm|].
      rewrite Prh. apply in_or_app. right. apply in_or_app. left. destruct cl1; cbn; auto.
  - (* HTTP/1.0: read to EOF *)
    destruct P as (tail & Prh & Ptail & Pcof & Pchk & Pst & Pv).
    rewrite Pchk, Pcof. unfold body_enc. rewrite Hbp, Pchk. rewrite app_nil_r.
    assert (Hnc : Forall (fun h => no_colon (fst h)) (t_rh tp)).
    { rewrite Prh. apply Forall_app. split; [apply plain_no_colon; auto|]. apply Forall_app. split.
      - repeat constructor.
      - apply tail_no_colon; auto. }
    assert (Hte : te_fields tp = []).
    { unfold te_fields. rewrite Prh, !map_app, !filter_app.
      rewrite (plain_not_named _ te_name (or_introl eq_refl) Hpl).
      rewrite (tail_not_named tail te_name eq_refl eq_refl eq_refl Ptail). reflexivity. }
    assert (Hcf : cl_fields tp = []).
    { unfold cl_fields. rewrite Prh, !map_app, !filter_app.
      rewrite (plain_not_named _ cl_name (or_intror eq_refl) Hpl).
      rewrite (tail_not_named tail cl_name eq_refl eq_refl eq_refl Ptail). reflexivity. }
    rewrite (parse_eof tp (concat chunks) Hcleanp Hnc Hbp Hte Hcf).
    eexists _, _. split; [reflexivity|]. split.
    { unfold first_line, version_str. rewrite Pv, Pst, S2. reflexivity. }
    split; [|split; [|auto]].
    + intros h Hh. apply in_map. eapply Permutation_in; [apply Permutation_sym, sort_perm|].
      rewrite Prh. apply in_or_app. left. apply in_map. rewrite S3. exact Hh.
    + apply in_map. eapply Permutation_in; [apply Permutation_sym, sort_perm|].
      rewrite Prh. apply in_or_app. right. apply in_or_app. left. cbn; auto.
Qed.

(* ---- with a declared Content-Length ------------------------------------------- *)

Hypothesis Hcap_cl : beqb (cap (lit "Content-Length")) (lit "Connection") = false.

Lemma sr_headers_cl clname v cl post pre : forall t acc t' l,
  Forall (not_cl lower) post -> beqb (lower clname) (lit "content-length") = true -> py_int v = Some cl ->
  sr_headers lower t (pre ++ (PStr clname, PStr v) :: post) acc = (t', Ok l) -> t_clen t' = Some cl.
Proof.
  induction pre as [|[k w] pre IH]; intros t acc t' l Hpost Hn Hv H.
  - cbn [List.app sr_headers] in H.
    destruct (has_crlf v); [discriminate|]. destruct (has_crlf clname); [discriminate|].
    destruct (negb (is_token clname)); [discriminate|].
    rewrite Hn, Hv in H.
    pose proof (sr_headers_no_cl lower post Hpost (set_clen (Some cl) t) (acc ++ [(clname, v)])) as F.
    rewrite H in F. cbn [fst t_clen set_clen] in F. exact F.
  - cbn [List.app sr_headers] in H.
    destruct k as [k|]; [|discriminate]. destruct w as [w|]; [|discriminate].
    destruct (has_crlf w); [discriminate|]. destruct (has_crlf k); [discriminate|].
    destruct (negb (is_token k)); [discriminate|].
    destruct (beqb (lower k) (lit "content-length")).
    + destruct (py_int w); [|discriminate]. eapply IH; eauto.
    + destruct (existsb (beqb (lower k)) hop_by_hop); [discriminate|]. eapply IH; eauto.
Qed.

Lemma start_response_cl t clname v cl pre post status t' :
  Forall (not_cl lower) post -> beqb (lower clname) (lit "content-length") = true -> py_int v = Some cl ->
  start_response lower t (PStr status) (pre ++ (PStr clname, PStr v) :: post) None = (t', Ok tt) ->
  t_clen t' = Some cl.
Proof.
  intros Hpost Hn Hv. unfold start_response.
  destruct (t_complete t && true); [discriminate|].
  destruct (has_crlf status); [discriminate|].
  destruct (sr_headers lower _ _ []) as [t4 [l|e]] eqn:E; [|discriminate].
  intro H. inversion H; subst. cbn [t_clen set_rh]. eapply sr_headers_cl; eauto.
Qed.

Definition cl_field_at (l1 : list (str * str)) (h : str * str) (l2 : list (str * str)) : Prop :=
  plain_fields l1 /\ plain_fields l2 /\ norm_name cap (fst h) = lit "Content-Length".

Lemma bh_fold_plain hb l : plain_fields l -> forall a,
  ac_cl (fold_left (bh_step cap hb) l a) = ac_cl a
  /\ ac_rh (fold_left (bh_step cap hb) l a) = ac_rh a ++ map (norm_field cap) l.
Proof.
  induction 1 as [|h l (H1 & H2 & _) Hl IH]; intro a; cbn [fold_left map].
  - rewrite app_nil_r. auto.
  - destruct (IH (bh_step cap hb a h)) as [E1 E2]. rewrite E1, E2.
    unfold bh_step. cbn zeta in H2. rewrite H2. cbn [andb ac_cl ac_rh]. rewrite <- app_assoc. auto.
Qed.

Lemma bh_loop_cl t l1 h l2 : t_rh t = l1 ++ h :: l2 -> cl_field_at l1 h l2 -> has_body t = true ->
  ac_rh (bh_loop cap t) = map (norm_field cap) (t_rh t) /\ ac_cl (bh_loop cap t) = Some (snd h).
Proof.
  intros Erh (P1 & P2 & Hn) Hb. unfold bh_loop. rewrite Erh, fold_left_app. cbn [fold_left].
  destruct (bh_fold_plain (has_body t) l1 P1 (mkAcc [] None None None)) as [A1 A2].
  set (a1 := fold_left (bh_step cap (has_body t)) l1 (mkAcc [] None None None)) in *. clearbody a1.
  set (a2 := bh_step cap (has_body t) a1 h).
  assert (B : ac_cl a2 = Some (snd h) /\ ac_rh a2 = ac_rh a1 ++ [norm_field cap h]).
  { subst a2. unfold bh_step, norm_field. rewrite Hn, Hb. cbn. auto. }
  destruct B as [B1 B2].
  destruct (bh_fold_plain (has_body t) l2 P2 a2) as [C1 C2].
  rewrite C1, C2, B1, B2, A2. cbn [ac_rh List.app]. rewrite map_app. cbn [map]. rewrite <- app_assoc. auto.
Qed.

Lemma noconn_cl l1 h l2 : cl_field_at l1 h l2 -> NoConn cap (map (norm_field cap) (l1 ++ h :: l2)).
Proof.
  intros (P1 & P2 & Hn). rewrite map_app. cbn [map]. apply Forall_app. split; [apply noconn_plain; auto|].
  constructor; [|apply noconn_plain; auto]. unfold norm_field. cbn [fst]. rewrite Hn. exact Hcap_cl.
Qed.

Lemma prepared_len t1 l1 h l2 :
  t_cof t1 = false -> t_wrote_header t1 = false -> t_chunked t1 = false ->
  t_rh t1 = l1 ++ h :: l2 -> cl_field_at l1 h l2 -> has_body t1 = true -> snd h <> [] ->
  let tp := bh_prepare cap lower c r t1 in
  let '(add, cof, chk) := conn_table (t_v11 t1) (request_connection r) (r_connection_close r) true true in
  exists tail, t_rh tp = map (norm_field cap) (t_rh t1) ++ add ++ tail /\ Forall tail_field tail
               /\ t_cof tp = cof /\ t_chunked tp = chk /\ t_status tp = t_status t1 /\ t_v11 tp = t_v11 t1.
Proof.
  intros C W K Erh P Hb Hv. cbn zeta. unfold bh_prepare.
  destruct (bh_loop_cl t1 l1 h l2 Erh P Hb) as [Eacc Ecl].
  set (a := bh_loop cap t1) in *.
  set (t0 := set_rh (ac_rh a) t1).
  assert (Eclen : bh_clen a t0 = (Some (snd h), t0)).
  { unfold bh_clen. rewrite Ecl. reflexivity. }
  rewrite Eclen.
  pose proof (bh_conn_table cap lower Hcap_te (request_connection r) (r_connection_close r) (Some (snd h)) t0) as T.
  cbn zeta in T.
  assert (Htr : truthy (Some (snd h)) = true) by (destruct (snd h); [congruence|reflexivity]).
  rewrite Htr in T.
  assert (Hb0 : has_body t0 = true) by exact Hb.
  assert (Hv0 : t_v11 t0 = t_v11 t1) by reflexivity.
  rewrite Hb0, Hv0 in T.
  destruct (conn_table (t_v11 t1) (request_connection r) (r_connection_close r) true true) as [[add cof] chk].
  destruct T as (T1 & T2 & T3 & T4 & _ & _ & _ & T8 & _); auto.
  { subst t0. cbn [t_rh set_rh]. rewrite Eacc, Erh. apply noconn_cl. auto. }
  destruct (bh_tail a (bh_conn cap lower (request_connection r) (r_connection_close r) (Some (snd h)) t0))
    as (tail & E & F & A1 & A2 & A3 & A4).
  exists tail. split; [rewrite E, T1; subst t0; cbn [t_rh set_rh]; rewrite Eacc, <- app_assoc; reflexivity|].
  subst t0. cbn [t_status t_v11 set_rh] in T4, T8.
  split; [exact F|]. split; [rewrite A3; exact T2|]. split; [rewrite A2; exact T3|].
  split; [rewrite A1; exact T4|]. rewrite A4; exact T8.
Qed.

Lemma table_len_chk v11 conn fc : snd (conn_table v11 conn fc true true) = false.
Proof. unfold conn_table. destruct v11; [|destruct (_ && _ && true)]; reflexivity. Qed.

Lemma strs_of_app a b : strs_of (a ++ b) = strs_of a ++ strs_of b.
Proof. unfold strs_of. apply map_app. Qed.

(* C03_frame for plain applications that declare the exact Content-Length: the
   client reads exactly that many bytes, they are the application's bytes,
   nothing is left over; the connection is kept exactly when the head does not
   say "Connection: close" (HTTP/1.1) / says "Keep-Alive" (HTTP/1.0). *)
Theorem frame_len status pre clname v post kind chunks hc cl :
  r_error r = None -> is_file kind = false ->
  Forall (not_cl lower) pre -> Forall (not_cl lower) post ->
  beqb (lower clname) (lit "content-length") = true -> py_int v = Some cl ->
  all_digits v = true -> Z.of_N (dec_value v) = cl -> Z.of_nat (length (concat chunks)) = cl ->
  plain_fields (strs_of pre) -> plain_fields (strs_of post) ->
  norm_name cap clname = lit "Content-Length" ->
  r_head r = false ->
  startswith status (lit "1") || startswith status (lit "204") || startswith status (lit "304") = false ->
  let hs := pre ++ (PStr clname, PStr v) :: post in
  let res := channel_service cap lower c r (simple_app status hs kind chunks hc) None in
  let keep := if beqb (r_version r) (lit "1.1")
              then negb (beqb (request_connection r) (lit "close") || r_connection_close r)
              else beqb (request_connection r) (lit "keep-alive") && negb (r_connection_close r) in
  o_raw res = None ->
  exists sl fields,
    parse_one false (wire (o_writes res))
    = Some (mkResponse sl fields (FLength (dec_value v)) (concat chunks), [])
    /\ sl = lit "HTTP/" ++ (if beqb (r_version r) (lit "1.1") then lit "1.1" else lit "1.0") ++ [32] ++ status
    /\ (forall h, In h (strs_of hs) -> In (client_field (norm_field cap h)) fields)
    /\ o_next res = keep /\ o_close res = negb keep
    /\ (keep = false -> In (client_field f_close) fields)
    /\ (keep = true -> ~ In (client_field f_close) fields).
Proof.
  intros He Hfile Hpre Hpost Hn Hv Hdig Hdv Hlen Ppre Ppost Hnorm Hhead Hst. cbn zeta. intro Hraw.
  set (hs := pre ++ (PStr clname, PStr v) :: post) in *.
  (* ---- the run ---- *)
  revert Hraw. unfold channel_service. rewrite He. cbn [connected].
  set (t0 := new_task (r_version r) false).
  match goal with |- context [ladder cap lower c r None ?x0 ?raw0] =>
    destruct (ladder_fields cap lower c r None x0 raw0) as (_ & _ & _ & Eraw & _) end.
  cbn zeta in Eraw. rewrite Eraw. clear Eraw.
  unfold task_service.
  destruct (x_out (task_run cap lower c r None (t0, mkChan [] 0) (inl (simple_app status hs kind chunks hc)))) as [[]|e] eqn:Eraw;
    [|intro X; discriminate X].
  intros _. unfold ladder. rewrite Eraw. cbn [o_writes o_close o_next o_escaped fst snd].
  revert Eraw. unfold task_run, wsgi_execute, simple_app. cbn [a_call a_kind a_steps a_has_close a_close_exn].
  rewrite run_actions_single. cbn [run_action fst snd].
  destruct (start_response lower t0 (PStr status) hs None) as [t1 [[]|e1]] eqn:Esr; cbn [fst snd];
    [|cbn; intro X; discriminate X].
  destruct (start_response_ok lower _ _ _ _ _ Esr) as (_ & S2 & S3 & Hc1 & S5 & S6 & S7 & S8 & S9 & _).
  cbn [new_task t_rh t_wrote_header t_cof t_chunked t_cbw t_v11 str_of List.app t0] in *.
  pose proof (start_response_cl t0 clname v cl pre post status t1 Hpost Hn Hv Esr) as Hcl1.
  assert (Hclean1 : task_clean t1).
  { pose proof (start_response_clean lower t0 (PStr status) hs None) as G.
    rewrite Esr in G. cbn [fst] in G. apply G. split; [reflexivity|constructor]. }
  assert (Hb1 : has_body t1 = true) by (unfold has_body; rewrite S2, Hst; reflexivity).
  (* ---- the prepared task ---- *)
  assert (Erh1 : t_rh t1 = strs_of pre ++ (clname, v) :: strs_of post).
  { rewrite S3. subst hs. rewrite strs_of_app. reflexivity. }
  assert (Hvne : snd (clname, v) <> []).
  { cbn [snd]. unfold all_digits in Hdig. destruct v; [discriminate|discriminate]. }
  pose proof (prepared_len t1 (strs_of pre) (clname, v) (strs_of post) S6 S5 S7 Erh1
                (conj Ppre (conj Ppost Hnorm)) Hb1 Hvne) as P.
  cbn zeta in P. rewrite S9 in P.
  pose proof (table_len_chk (beqb (r_version r) (lit "1.1")) (request_connection r) (r_connection_close r)) as Hchk.
  destruct (conn_table (beqb (r_version r) (lit "1.1")) (request_connection r) (r_connection_close r) true true)
    as [[add cof] chk] eqn:Etab. cbn [snd] in Hchk. subst chk.
  destruct P as (tail & Prh & Ptail & Pcof & Pchk & Pst & Pv).
  (* ---- the iteration ---- *)
  unfold execute_body. cbn [a_kind a_steps].
  replace (match kind with KFile seekable => _ | _ => None end) with (@None (st * outcome unit * bool))
    by (destruct kind; auto; discriminate).
  replace (match kind with KFile _ => true | _ => false end) with false by (destruct kind; auto; discriminate).
  destruct (iterate cap lower c r None false (match kind with KSized n => n =? 1 | _ => false end) true
                    (t1, mkChan [] 0) (plain_steps chunks)) as [[t2 ch2] [[]|e2]] eqn:Eit.
  2: { destruct (true && hc); cbn; intro X; discriminate X. }
  assert (Etp0 : forall tp head, build_response_header cap lower c r t1 = (tp, Ok head) ->
                 tp = bh_prepare cap lower c r t1 /\ head = head_text tp).
  { intros tp head Eb. unfold build_response_header in Eb. injection Eb as E1 E2.
    apply encode_latin1_ok in E2. subst. auto. }
  assert (Hfit : (Z.of_nat (length (concat chunks)) <= cl)%Z) by (rewrite Hlen; apply Z.le_refl).
  set (tfin := match t_clen t2 with
               | Some cl0 => if negb (t_cbw t2 =? cl0)%Z && negb (r_head r) then set_close_on_finish cap lower t2 else t2
               | None => t2 end).
  assert (Hafter : x_out (if true && hc then mkExec (tfin, ch2) (Ok tt) 1 false true
                          else mkExec (tfin, ch2) (Ok tt) 0 (negb true) true) = Ok tt
     /\ x_st (if true && hc then mkExec (tfin, ch2) (Ok tt) 1 false true
              else mkExec (tfin, ch2) (Ok tt) 0 (negb true) true) = (tfin, ch2))
    by (destruct (true && hc); auto).
  destruct Hafter as [Ho Hst2]. rewrite Ho, Hst2. clear Ho Hst2.
  (* ---- the client, for whatever head the prepared task serialises to ---- *)
  set (keep := if beqb (r_version r) (lit "1.1")
               then negb (beqb (request_connection r) (lit "close") || r_connection_close r)
               else beqb (request_connection r) (lit "keep-alive") && negb (r_connection_close r)).
  assert (Hcof : cof = negb keep).
  { subst keep. unfold conn_table in Etab. destruct (beqb (r_version r) (lit "1.1")).
    - injection Etab as _ <-. rewrite negb_involutive. reflexivity.
    - rewrite andb_true_r in Etab. destruct (_ && _); injection Etab as _ <-; reflexivity. }
  assert (Hclient : forall tp head, build_response_header cap lower c r t1 = (tp, Ok head) ->
     t_cof tp = negb keep /\ t_chunked tp = false /\
     exists sl fields,
       parse_one false (head ++ concat chunks) = Some (mkResponse sl fields (FLength (dec_value v)) (concat chunks), [])
       /\ sl = lit "HTTP/" ++ (if beqb (r_version r) (lit "1.1") then lit "1.1" else lit "1.0") ++ [32] ++ status
       /\ (forall h, In h (strs_of hs) -> In (client_field (norm_field cap h)) fields)
       /\ (keep = false -> In (client_field f_close) fields)
       /\ (keep = true -> ~ In (client_field f_close) fields)).
  { intros tp head Eb. destruct (Etp0 tp head Eb) as [Etp ->]. rewrite <- Etp in Prh, Pcof, Pchk, Pst, Pv.
    split; [congruence|]. split; [exact Pchk|].
    assert (Hcleanp : task_clean tp) by (subst tp; apply bh_prepare_clean; auto).
    assert (Hbp : has_body tp = true) by (unfold has_body; rewrite Pst, S2, Hst; reflexivity).
    assert (Hadd : add = (if keep then (if beqb (r_version r) (lit "1.1") then [] else [f_keep]) else [f_close])).
    { subst keep. unfold conn_table in Etab. destruct (beqb (r_version r) (lit "1.1")).
      - destruct (beqb (request_connection r) (lit "close") || r_connection_close r);
          injection Etab as <- _; reflexivity.
      - rewrite andb_true_r in Etab.
        destruct (beqb (request_connection r) (lit "keep-alive") && negb (r_connection_close r));
          injection Etab as <- _; reflexivity. }
    assert (Hnc : Forall (fun h => no_colon (fst h)) (t_rh tp)).
    { rewrite Prh, Erh1, map_app. cbn [map]. apply Forall_app. split.
      - apply Forall_app. split; [apply plain_no_colon; auto|]. constructor; [|apply plain_no_colon; auto].
        unfold norm_field. cbn [fst]. rewrite Hnorm. reflexivity.
      - apply Forall_app. split; [|apply tail_no_colon; auto].
        rewrite Hadd. destruct keep; [destruct (beqb (r_version r) _)|]; repeat constructor. }
    assert (Hadd_te : filter (field_is te_name) (map client_field add) = []).
    { rewrite Hadd. destruct keep; [destruct (beqb (r_version r) _)|]; reflexivity. }
    assert (Hadd_cl : filter (field_is cl_name) (map client_field add) = []).
    { rewrite Hadd. destruct keep; [destruct (beqb (r_version r) _)|]; reflexivity. }
    assert (Hte : te_fields tp = []).
    { unfold te_fields. rewrite Prh, Erh1, !map_app. cbn [map]. rewrite !filter_app. cbn [filter].
      rewrite (plain_not_named _ te_name (or_introl eq_refl) Ppre), (plain_not_named _ te_name (or_introl eq_refl) Ppost).
      rewrite Hadd_te, (tail_not_named tail te_name eq_refl eq_refl eq_refl Ptail).
      unfold field_is, client_field, norm_field. cbn [fst]. rewrite Hnorm. reflexivity. }
    assert (Hcf : cl_fields tp = [(lit "Content-Length", v)]).
    { unfold cl_fields. rewrite Prh, Erh1, !map_app. cbn [map]. rewrite !filter_app. cbn [filter].
      rewrite (plain_not_named _ cl_name (or_intror eq_refl) Ppre), (plain_not_named _ cl_name (or_intror eq_refl) Ppost).
      rewrite Hadd_cl, (tail_not_named tail cl_name eq_refl eq_refl eq_refl Ptail).
      unfold field_is, client_field, norm_field. cbn [fst snd]. rewrite Hnorm. cbn [List.app].
      rewrite (strip_digits v Hdig). reflexivity. }
    assert (Hbl : lenN (concat chunks) = dec_value v).
    { unfold lenN. apply N2Z.inj. rewrite Hdv, <- Hlen. rewrite nat_N_Z. reflexivity. }
    pose proof (parse_length tp v (concat chunks) [] Hcleanp Hnc Hbp Hte Hcf Hdig Hbl) as PL.
    rewrite app_nil_r in PL.
    eexists _, _. split; [exact PL|]. split.
    { unfold first_line, version_str. rewrite Pv, Pst, S2. reflexivity. }
    split; [|split].
    - intros h Hh. apply in_map. eapply Permutation_in; [apply Permutation_sym, sort_perm|].
      rewrite Prh. apply in_or_app. left. apply in_map. rewrite S3. exact Hh.
    - intro Hk. apply in_map. eapply Permutation_in; [apply Permutation_sym, sort_perm|].
      rewrite Prh. apply in_or_app. right. apply in_or_app. left. rewrite Hadd, Hk. left. reflexivity.
    - intros Hk Hin. apply in_map_iff in Hin as (h & Eh & Hh).
      apply (Permutation_in _ (sort_perm _)) in Hh. rewrite Prh in Hh.
      assert (Hcc : beqb (cap (fst h)) (lit "Connection") = true).
      { unfold client_field, f_close in Eh. injection Eh as E1 _. rewrite E1. rewrite Hcap_conn. reflexivity. }
      apply in_app_or in Hh as [Hh|Hh].
      + pose proof (noconn_cl (strs_of pre) (clname, v) (strs_of post) (conj Ppre (conj Ppost Hnorm))) as NC.
        rewrite <- Erh1 in NC. unfold NoConn in NC. rewrite Forall_forall in NC. rewrite (NC h Hh) in Hcc. discriminate.
      + apply in_app_or in Hh as [Hh|Hh].
        * rewrite Hadd, Hk in Hh. destruct (beqb (r_version r) _); [destruct Hh|].
          destruct Hh as [<-|[]]. unfold client_field, f_keep, f_close in Eh. discriminate.
        * rewrite Forall_forall in Ptail. destruct (Ptail h Hh) as [E|[E|E]];
            unfold client_field, f_close in Eh; injection Eh as E1 _; rewrite E in E1; discriminate. }
  (* ---- the two ways the head goes out ---- *)
  destruct (iterate_fresh_len cap lower c r _ chunks t1 (mkChan [] 0) true cl _ _ Hc1 S5 Hcl1 S8 Pchk Hb1 Hfit Eit eq_refl)
    as [[Hall Hs]|(tp & head & Eb & S2' & B2 & W2)].
  - (* every chunk empty (so cl = 0): finish() sends the head *)
    inversion Hs; subst t2 ch2.
    assert (Hcl0 : cl = 0%Z) by (rewrite (all_empty_concat chunks Hall) in Hlen; cbn in Hlen; symmetry; exact Hlen).
    assert (Etf : tfin = t1) by (subst tfin; rewrite Hcl1, S8, Hcl0; reflexivity).
    rewrite Etf.
    destruct (task_finish cap lower c r None (t1, mkChan [] 0)) as [s3 [[]|e3]] eqn:Ef; cbn [x_out x_st];
      [|intro X; discriminate X].
    intros _. destruct (finish_fresh cap lower c r t1 (mkChan [] 0) s3 (Ok tt) Hc1 S5 Ef eq_refl) as (tp & head & Eb & Ht & W).
    destruct (Hclient tp head Eb) as (Ec & Ek & sl & fields & PL & Esl & Hin & Hk1 & Hk2).
    fold (chan_wire (snd s3)). rewrite W, Ht, Ek. cbn [andb chan_wire ch_writes rev wire flat_map List.app t_cof set_wrote].
    rewrite app_nil_r. rewrite (all_empty_concat chunks Hall), app_nil_r in PL.
    exists sl, fields. rewrite PL, (all_empty_concat chunks Hall), Ec, negb_involutive. repeat split; auto.
  - (* the head went out with the first non-empty chunk *)
    cbn [fst snd] in S2', B2, W2. destruct S2' as (A1 & A2 & A3 & A4 & A5 & A6 & A7 & A8).
    destruct (Hclient tp head Eb) as (Ec & Ek & sl & fields & PL & Esl & Hin & Hk1 & Hk2).
    assert (Hcl2 : t_clen t2 = Some cl).
    { rewrite A6. cbn [t_clen set_wrote]. destruct (Etp0 tp head Eb) as [-> _].
      destruct (keeps_bh_prepare cap lower c r t1) as (_ & _ & K3 & _). congruence. }
    assert (Etf : tfin = t2) by (subst tfin; rewrite Hcl2, B2, Hlen, Z.eqb_refl; reflexivity).
    rewrite Etf.
    assert (Hw2 : t_wrote_header t2 = true) by (rewrite A4; reflexivity).
    destruct (finish_after_head cap lower c r t2 ch2 Hw2) as (ch3 & Ef & W3). rewrite Ef. cbn [x_out x_st fst snd].
    intros _. fold (chan_wire ch3). rewrite W3, W2, A2, A3. cbn [t_chunked t_cof set_wrote]. rewrite Ek. cbn [andb]. rewrite app_nil_r.
    cbn [chan_wire ch_writes rev wire flat_map List.app].
    exists sl, fields. rewrite PL, Ec, negb_involutive. repeat split; auto.
Qed.

Lemma table_no_colon v11 conn fc has_cl hb :
  Forall (fun h : str * str => no_colon (fst h)) (fst (fst (conn_table v11 conn fc has_cl hb))).
Proof.
  unfold conn_table.
  destruct v11, (beqb conn (lit "close") || fc), (beqb conn (lit "keep-alive") && negb fc && has_cl), has_cl, hb;
    cbn; repeat constructor.
Qed.

(* C03_frame for HEAD: a plain application without a declared length that (as the
   WSGI contract demands for HEAD) produces no body bytes: the client, knowing it
   asked with HEAD, reads the head and NOTHING is left over -- whatever the head
   says about Transfer-Encoding (before b49920f a chunked terminator followed). *)
Theorem frame_head_nolen status hs kind chunks hc :
  r_error r = None -> is_file kind = false -> len1 kind = false -> Forall (not_cl lower) hs ->
  plain_fields (strs_of hs) ->
  r_head r = true -> all_empty chunks ->
  let res := channel_service cap lower c r (simple_app status hs kind chunks hc) None in
  o_raw res = None ->
  exists sl fields,
    parse_one true (wire (o_writes res)) = Some (mkResponse sl fields FNoBody [], [])
    /\ sl = lit "HTTP/" ++ (if beqb (r_version r) (lit "1.1") then lit "1.1" else lit "1.0") ++ [32] ++ status
    /\ (forall h, In h (strs_of hs) -> In (client_field (norm_field cap h)) fields).
Proof.
  intros He Hf Hl Hcl Hpl Hhead Hall. cbn zeta. intro Hraw.
  destruct (simple_nolen_wire cap lower c r status hs kind chunks hc He Hf Hl Hcl Hraw)
    as (t1 & tp & head & Esr & Eb & Ew & _).
  destruct (start_response_ok lower _ _ _ _ _ Esr) as (_ & S2 & S3 & S4 & S5 & S6 & S7 & S8 & S9 & _).
  cbn [new_task t_rh t_wrote_header t_cof t_chunked t_cbw t_v11 str_of List.app] in *.
  pose proof (start_response_no_cl lower (new_task (r_version r) false) (PStr status) hs None eq_refl Hcl) as Hclen.
  rewrite Esr in Hclen. cbn [fst new_task t_clen] in Hclen.
  assert (Hclean1 : task_clean t1).
  { pose proof (start_response_clean lower (new_task (r_version r) false) (PStr status) hs None) as G.
    rewrite Esr in G. cbn [fst] in G. apply G. split; [reflexivity|constructor]. }
  assert (Etp : tp = bh_prepare cap lower c r t1) by (unfold build_response_header in Eb; inversion Eb; auto).
  assert (Ehead : head = head_text tp).
  { unfold build_response_header in Eb. injection Eb as E1 E2. apply encode_latin1_ok in E2. subst. reflexivity. }
  assert (Hcleanp : task_clean tp) by (subst tp; apply bh_prepare_clean; auto).
  rewrite <- S3 in Hpl.
  pose proof (prepared_nolen t1 S6 S5 S7 Hclen Hpl) as P. cbn zeta in P. rewrite <- Etp in P.
  pose proof (table_no_colon (t_v11 t1) (request_connection r) (r_connection_close r) false (has_body t1)) as Hadd.
  destruct (conn_table (t_v11 t1) (request_connection r) (r_connection_close r) false (has_body t1)) as [[add cof] chk].
  cbn [fst] in Hadd. destruct P as (tail & Prh & Ptail & _ & _ & Pst & Pv).
  assert (Hnc : Forall (fun h => no_colon (fst h)) (t_rh tp)).
  { rewrite Prh. apply Forall_app. split; [apply plain_no_colon; auto|]. apply Forall_app. split; auto.
    apply tail_no_colon; auto. }
  rewrite Ew, Ehead, Hhead, (body_enc_all_empty tp chunks Hall). cbn [negb]. rewrite andb_false_r. cbn [List.app].
  pose proof (parse_nobody tp true [] Hcleanp Hnc (or_introl eq_refl)) as PN. rewrite !app_nil_r in *. rewrite PN.
  eexists _, _. split; [reflexivity|]. split.
  { unfold first_line, version_str. rewrite Pv, S9, Pst, S2. reflexivity. }
  intros h Hh. apply in_map. eapply Permutation_in; [apply Permutation_sym, sort_perm|].
  rewrite Prh. apply in_or_app. left. apply in_map. rewrite S3. exact Hh.
Qed.

End End2End.
