(* C16 (b), (c): which hop is selected, for every list length and count, and
   what the forwarded headers are pruned to. *)
From Coq Require Import List NArith ZArith Bool Lia.
From WV Require Import Lib.PyBytes Lib.PyStrProxy Lib.Regex Gen.GenRegex Model.Proxy Spec.ProxySpec
  Proof.ProxyDict Proof.ProxyStr Proof.ProxyStages Proof.ProxyTotal.
Import ListNotations.
Local Open Scope N_scope.

Ltac prj := cbn [env client fhost fproto fport fwd unt init_pst opt_truthy].
Tactic Notation "prj" "in" hyp(H) := cbn [env client fhost fproto fport fwd unt init_pst opt_truthy] in H.

(* the successful run of the header blocks, block by block *)
Lemma select_ok_inv e k tph s : parse_select e k tph = Ok s ->
  exists s1 s2 s3 s4 s5,
    blk_xff k tph (init_pst e) = Ok s1 /\ blk_xfh k tph s1 = Ok s2 /\ blk_proto tph s2 = Ok s3 /\
    blk_port tph s3 = Ok s4 /\ blk_by tph s4 = Ok s5 /\ blk_forwarded k (blk_fwd_get tph s5) = Ok s.
Proof.
  unfold parse_select. intro H.
  apply bind_ok in H as (s1 & E1 & H). apply bind_ok in H as (s2 & E2 & H).
  apply bind_ok in H as (s3 & E3 & H). apply bind_ok in H as (s4 & E4 & H).
  apply bind_ok in H as (s5 & E5 & H). eauto 12.
Qed.

(* l[-k:][0] is the k-th element from the right, the leftmost if there are fewer *)
Lemma lastk_head {A B} (f : A -> result B) (l : list A) cs p c :
  mapM f l = Ok cs -> hd_error (py_lastk cs (Zpos p)) = Some c ->
  exists h, pick l (Pos.to_nat p) = Some h /\ f h = Ok c.
Proof.
  intros Hm Hh. rewrite py_lastk_pos, suffix_hd in Hh. unfold pick in Hh.
  rewrite (mapM_ok_length _ _ _ Hm) in Hh.
  destruct (mapM_ok_nth _ _ _ _ _ Hm Hh) as (h & Hn & Hf). exists h. split; auto.
Qed.

(* ---- the X-Forwarded-* family (Forwarded not in effect) ------------------------------------ *)
Definition fwd_inactive (tph : list str) (e : environ) : Prop :=
  has tph n_fwd = false \/ match lookup k_fwd e with Some (_ :: _) => False | _ => True end.

Record xf_selection (e : environ) (p : positive) (tph : list str) (s : pst) : Prop := {
  xs_for_sel : forall raw, has tph n_xff = true -> lookup k_xff e = Some raw ->
     exists h cl, pick (split raw [c_comma]) (Pos.to_nat p) = Some h /\ xff_hop h = Ok cl /\
                  client s = Some cl /\
                  lookup k_xff (env s) = Some (strip (join [c_comma] (suffix (split raw [c_comma]) (Pos.to_nat p))));
  xs_for_none : has tph n_xff = false \/ lookup k_xff e = None ->
     client s = None /\ lookup k_xff (env s) = lookup k_xff e;
  xs_host_sel : forall raw, has tph n_xfh = true -> lookup k_xfh e = Some raw ->
     exists h v, pick (split raw [c_comma]) (Pos.to_nat p) = Some h /\ undquote (strip h) = Ok v /\
                 fhost s = v /\
                 lookup k_xfh (env s) = Some (strip (join [c_comma] (suffix (split raw [c_comma]) (Pos.to_nat p))));
  xs_host_none : has tph n_xfh = false \/ lookup k_xfh e = None ->
     fhost s = [] /\ lookup k_xfh (env s) = lookup k_xfh e;
  xs_proto : fproto s = if has tph n_xfproto
                        then match single_value k_xfproto e with Ok v => v | _ => [] end else [];
  xs_port : fport s = if has tph n_xfport
                      then match single_value k_xfport e with Ok v => v | _ => [] end else [];
  xs_other : forall key, beqb key k_xff = false -> beqb key k_xfh = false -> lookup key (env s) = lookup key e
}.

Lemma fwd_inactive_skip k tph s5 s e :
  fwd_inactive tph e -> fwd s5 = Some [] -> lookup k_fwd (env s5) = lookup k_fwd e ->
  blk_forwarded k (blk_fwd_get tph s5) = Ok s ->
  env s = env s5 /\ client s = client s5 /\ fhost s = fhost s5 /\ fproto s = fproto s5 /\ fport s = fport s5.
Proof.
  intros Hi Hf Hl H. unfold blk_fwd_get in H.
  destruct (has tph n_fwd) eqn:Eh.
  - destruct Hi as [Hi|Hi]; [congruence|]. rewrite <- Hl in Hi.
    unfold blk_forwarded in H. cbn [fwd] in H.
    destruct (lookup k_fwd (env s5)) as [[|c f]|]; try contradiction; injection H as <-; prj; auto.
  - unfold blk_forwarded in H. rewrite Hf in H. injection H as <-. auto.
Qed.

Lemma single_value_env key e1 e2 : lookup key e1 = lookup key e2 -> single_value key e1 = single_value key e2.
Proof. unfold single_value. intros ->. reflexivity. Qed.

Lemma select_xf e p tph s : fwd_inactive tph e ->
  parse_select e (Zpos p) tph = Ok s -> xf_selection e p tph s.
Proof.
  intros Hi H. apply select_ok_inv in H as (s1 & s2 & s3 & s4 & s5 & E1 & E2 & E3 & E4 & E5 & E6).
  (* block 1 *)
  pose proof (blk_xff_ok _ _ _ _ E1) as B1. pose proof (blk_xfh_ok _ _ _ _ E2) as B2.
  pose proof (blk_proto_ok _ _ _ E3) as B3. pose proof (blk_port_ok _ _ _ E4) as B4.
  pose proof (blk_by_ok _ _ _ E5) as (B5e & B5c & B5h & B5p & B5o & B5f).
  (* facts about s1 *)
  assert (A1 : fhost s1 = [] /\ fproto s1 = [] /\ fport s1 = [] /\ fwd s1 = Some [] /\
               (forall key, beqb key k_xff = false -> lookup key (env s1) = lookup key e)).
  { destruct B1 as [[-> _]|(raw & cs & c & u & _ & _ & _ & _ & _ & ->)]; prj; repeat split; auto.
    intros key Hk. rewrite lookup_set, Hk. reflexivity. }
  destruct A1 as (A1h & A1p & A1o & A1f & A1e).
  assert (A2 : client s2 = client s1 /\ fproto s2 = [] /\ fport s2 = [] /\ fwd s2 = Some [] /\
               (forall key, beqb key k_xfh = false -> lookup key (env s2) = lookup key (env s1))).
  { destruct B2 as [[-> _]|(raw & cs & c & u & _ & _ & _ & _ & _ & ->)]; prj; repeat split; auto.
    intros key Hk. rewrite lookup_set, Hk. reflexivity. }
  destruct A2 as (A2c & A2p & A2o & A2f & A2e).
  assert (A3 : client s3 = client s2 /\ fhost s3 = fhost s2 /\ fport s3 = [] /\ fwd s3 = Some [] /\ env s3 = env s2).
  { destruct B3 as [[-> _]|(v & u & _ & _ & _ & ->)]; prj; auto. }
  destruct A3 as (A3c & A3h & A3o & A3f & A3e).
  assert (A4 : client s4 = client s3 /\ fhost s4 = fhost s3 /\ fproto s4 = fproto s3 /\ fwd s4 = Some [] /\ env s4 = env s3).
  { destruct B4 as [[-> _]|(v & u & _ & _ & _ & ->)]; prj; auto. }
  destruct A4 as (A4c & A4h & A4p & A4f & A4e).
  assert (Hfk : lookup k_fwd (env s5) = lookup k_fwd e).
  { rewrite B5e, A4e, A3e, A2e by keq. apply A1e. keq. }
  destruct (fwd_inactive_skip _ _ _ _ _ Hi (eq_trans B5f A4f) Hfk E6) as (Fe & Fc & Fh & Fp & Fo).
  assert (Henv : env s = env s2) by congruence.
  constructor.
  - intros raw Ht Hl. destruct B1 as [[_ [Hc|Hc]]|(raw' & cs & c & u & _ & Hl' & Hm & Hh & _ & Hs1)];
      [congruence|prj in Hc; congruence|]. prj in Hl'. rewrite Hl in Hl'. injection Hl' as <-.
    destruct (lastk_head _ _ _ _ _ Hm Hh) as (h & Hp & Hf). exists h, c. repeat split; auto.
    + rewrite Fc, B5c, A4c, A3c, A2c, Hs1. reflexivity.
    + rewrite Henv, A2e by keq. rewrite Hs1. prj. rewrite lookup_set_same, py_lastk_pos. reflexivity.
  - intros Hn. destruct B1 as [[Hs1 _]|(raw' & cs & c & u & Ht & Hl' & _)].
    + split; [rewrite Fc, B5c, A4c, A3c, A2c, Hs1; reflexivity|].
      rewrite Henv, A2e by keq. rewrite Hs1. reflexivity.
    + prj in Hl'. destruct Hn; congruence.
  - intros raw Ht Hl.
    assert (Hl1 : lookup k_xfh (env s1) = Some raw) by (rewrite A1e by keq; exact Hl).
    destruct B2 as [[_ [Hc|Hc]]|(raw' & cs & c & u & _ & Hl' & Hm & Hh & _ & Hs2)]; [congruence|congruence|].
    rewrite Hl1 in Hl'. injection Hl' as <-.
    destruct (lastk_head _ _ _ _ _ Hm Hh) as (h & Hp & Hf). exists h, c. repeat split; auto.
    + rewrite Fh, B5h, A4h, A3h, Hs2. reflexivity.
    + rewrite Henv, Hs2. prj. rewrite lookup_set_same, py_lastk_pos. reflexivity.
  - intros Hn.
    assert (Hl1 : lookup k_xfh (env s1) = lookup k_xfh e) by (apply A1e; keq).
    destruct B2 as [[Hs2 _]|(raw' & cs & c & u & Ht & Hl' & _)].
    + split; [rewrite Fh, B5h, A4h, A3h, Hs2; exact A1h|]. rewrite Henv, Hs2. exact Hl1.
    + destruct Hn; congruence.
  - rewrite Fp, B5p, A4p.
    assert (Hsv : single_value k_xfproto (env s2) = single_value k_xfproto e).
    { apply single_value_env. rewrite A2e by keq. apply A1e. keq. }
    destruct B3 as [[-> ->]|(v & u & -> & Hv & _ & ->)]; [exact A2p|]. prj. rewrite <- Hsv, Hv. reflexivity.
  - rewrite Fo, B5o.
    assert (Hsv : single_value k_xfport (env s3) = single_value k_xfport e).
    { apply single_value_env. rewrite A3e, A2e by keq. apply A1e. keq. }
    destruct B4 as [[-> ->]|(v & u & -> & Hv & _ & ->)]; [exact A3o|]. prj. rewrite <- Hsv, Hv. reflexivity.
  - intros key H1 H2. rewrite Henv, A2e, A1e; auto.
Qed.

(* ---- Forwarded ------------------------------------------------------------------------------- *)
Record fwd_selection (e : environ) (p : positive) (raw : str) (s : pst) : Prop := {
  fs_parsed : exists ps, mapM fwd_element (split raw [c_comma]) = Ok ps /\
     let suf := suffix ps (Pos.to_nat p) in
     fhost s = first_nonempty (map f_host suf) /\
     fproto s = first_nonempty (map f_proto suf) /\
     (first_nonempty (map f_for suf) <> [] -> client s = Some (first_nonempty (map f_for suf)));
  fs_port : fport s = [];
  fs_header : lookup k_fwd (env s) = Some (strip (join [c_comma] (suffix (split raw [c_comma]) (Pos.to_nat p))));
  fs_truthy : opt_truthy (fwd s) = true
}.

Lemma first_nonempty_default (l : list forwarded_t) (g : forwarded_t -> str) :
  l <> [] -> match first_nonempty (map g l) with [] => g (last l fwd_empty) | x => x end = first_nonempty (map g l).
Proof.
  intro Hl. destruct (first_nonempty (map g l)) eqn:E; auto.
  apply (first_nonempty_nil _ E). apply in_map.
  destruct l; [congruence|]. apply (@exists_last _ (f :: l)) in Hl as (l' & a & ->).
  rewrite last_last. apply in_or_app. right. left. reflexivity.
Qed.

Lemma select_fwd e p tph raw s :
  has tph n_fwd = true -> lookup k_fwd e = Some raw -> truthy raw = true ->
  parse_select e (Zpos p) tph = Ok s -> fwd_selection e p raw s.
Proof.
  intros Ht Hl Hr H. apply select_ok_inv in H as (s1 & s2 & s3 & s4 & s5 & E1 & E2 & E3 & E4 & E5 & E6).
  assert (Hfk : lookup k_fwd (env s5) = Some raw).
  { apply blk_by_ok in E5 as (-> & _). rewrite (blk_port_env _ _ _ E4), (blk_proto_env _ _ _ E3).
    apply blk_xfh_ok in E2 as [[-> _]|(? & ? & ? & ? & _ & _ & _ & _ & _ & ->)];
    apply blk_xff_ok in E1 as [[-> _]|(? & ? & ? & ? & _ & _ & _ & _ & _ & ->)]; prj;
      rewrite ?lookup_set_other by keq; exact Hl. }
  unfold blk_fwd_get in E6. rewrite Ht in E6.
  apply blk_forwarded_ok in E6 as [[_ Hc]|(raw' & ps & Hf & _ & Hm & ->)].
  - prj in Hc. rewrite Hfk in Hc. prj in Hc. congruence.
  - prj in Hf. rewrite Hfk in Hf. injection Hf as <-. prj.
    assert (Hps : ps <> []).
    { intro Hn. subst ps. apply mapM_ok_length in Hm. destruct (split raw [c_comma]) eqn:Es; [|discriminate].
      eapply split_nonempty; eauto. }
    assert (Hsuf : suffix ps (Pos.to_nat p) <> []) by (apply suffix_nonempty; [exact Hps|lia]).
    constructor; prj.
    + exists ps. split; [exact Hm|]. cbv zeta. rewrite !py_lastk_pos.
      rewrite <- (suffix_last ps (Pos.to_nat p) fwd_empty Hps) by lia.
      rewrite !first_nonempty_default by exact Hsuf. repeat split.
      intro Hne. destruct (first_nonempty (map f_for (suffix ps (Pos.to_nat p)))); [congruence|reflexivity].
    + reflexivity.
    + rewrite lookup_set_same, py_lastk_pos. reflexivity.
    + rewrite Hfk. exact Hr.
Qed.

(* when the k-th entry from the right carries the field, that is the one *)
Lemma fwd_kth_wins (ps : list forwarded_t) (g : forwarded_t -> str) k x :
  pick ps k = Some x -> g x <> [] -> first_nonempty (map g (suffix ps k)) = g x.
Proof.
  rewrite <- suffix_hd. destruct (suffix ps k) as [|y l]; [discriminate|].
  intro H. injection H as ->. cbn [map first_nonempty]. destruct (g x); [congruence|reflexivity].
Qed.

(* and the selected entry is never left of the trusted suffix *)
Lemma fwd_selected_in_suffix (ps : list forwarded_t) (g : forwarded_t -> str) k :
  first_nonempty (map g (suffix ps k)) <> [] ->
  exists x, In x (suffix ps k) /\ g x = first_nonempty (map g (suffix ps k)).
Proof.
  intro H. apply first_nonempty_in in H. apply in_map_iff in H as (x & Hx & Hin). eauto.
Qed.

(* ---- writing the selection ------------------------------------------------------------------- *)
Record applied (s s' : pst) : Prop := {
  ap_client : forall c, client s = Some c -> c <> [] ->
     lookup k_remote_addr (env s') = Some (unbracket (addr_text c)) /\
     lookup k_remote_host (env s') = Some (unbracket (addr_text c)) /\
     lookup k_remote_port (env s') = match port_text c with Some pt => Some pt | None => lookup k_remote_port (env s) end;
  ap_noclient : client s = None \/ client s = Some [] ->
     lookup k_remote_addr (env s') = lookup k_remote_addr (env s) /\
     lookup k_remote_host (env s') = lookup k_remote_host (env s) /\
     lookup k_remote_port (env s') = lookup k_remote_port (env s);
  ap_host : fhost s <> [] ->
     lookup k_server_name (env s') = Some (strip (host_text (fhost s))) \/
     lookup k_server_name (env s') = Some (fhost s) /\ has_port (fhost s) = false;
  ap_nohost : fhost s = [] ->
     lookup k_server_name (env s') = lookup k_server_name (env s) /\
     lookup k_http_host (env s') = lookup k_http_host (env s);
  ap_scheme : lookup k_url_scheme (env s') =
              match fproto s with [] => lookup k_url_scheme (env s) | _ => Some (lower_latin1 (fproto s)) end;
  ap_other : forall key, In key metadata_keys \/ lookup key (env s') = lookup key (env s);
  ap_unt : unt s' = unt s
}.

Lemma in_meta key : existsb (beqb key) metadata_keys = true -> In key metadata_keys.
Proof. intro H. apply existsb_exists in H as (x & Hin & Hx). apply beqb_eq in Hx. subst. exact Hin. Qed.

Lemma apply_ok s s' : parse_apply s = Ok s' -> applied s s'.
Proof.
  unfold parse_apply. intro H.
  apply bind_ok in H as (s1 & E1 & H). apply bind_ok in H as (s2 & E2 & H).
  pose proof (stage_proto_ok _ _ E1) as (P1c & P1h & _ & P1u & P1).
  pose proof (stage_host_ok _ _ E2) as (P2c & _ & P2u & _ & P2e & P2n & P2h & _).
  destruct (stage_port_facts s2) as (P3c & _ & P3u & P3e).
  rewrite stage_client_spec in H. rewrite P3c, P2c, P1c in H.
  (* environ of s1 relative to s *)
  assert (Q1 : forall key, beqb key k_url_scheme = false -> lookup key (env s1) = lookup key (env s)).
  { intros key Hk. destruct P1 as [[-> _]|(_ & _ & _ & ->)]; auto. rewrite lookup_set, Hk. reflexivity. }
  assert (Q3 : forall key, beqb key k_url_scheme = false -> beqb key k_server_name = false ->
               beqb key k_http_host = false -> beqb key k_server_port = false ->
               lookup key (env (stage_port s2)) = lookup key (env s)).
  { intros key H1 H2 H3 H4. rewrite P3e, P2e, Q1; auto. }
  assert (Qs : lookup k_url_scheme (env (stage_port s2)) =
               match fproto s with [] => lookup k_url_scheme (env s) | _ => Some (lower_latin1 (fproto s)) end).
  { rewrite P3e, P2e by keq. destruct P1 as [[-> ->]|(Hne & _ & _ & ->)]; auto.
    rewrite lookup_set_same. destruct (fproto s); [congruence|reflexivity]. }
  assert (Qh : fhost s <> [] ->
     lookup k_server_name (env (stage_port s2)) = Some (strip (host_text (fhost s))) \/
     lookup k_server_name (env (stage_port s2)) = Some (fhost s) /\ has_port (fhost s) = false).
  { intro Hne. rewrite P3e by keq. rewrite <- P1h. apply P2h. rewrite P1h. exact Hne. }
  assert (Qn : fhost s = [] ->
     lookup k_server_name (env (stage_port s2)) = lookup k_server_name (env s) /\
     lookup k_http_host (env (stage_port s2)) = lookup k_http_host (env s)).
  { intro He. rewrite !P3e by keq. rewrite (P2n (eq_trans P1h He)). split; apply Q1; keq. }
  assert (Qo : forall key, existsb (beqb key) metadata_keys = false ->
               lookup key (env (stage_port s2)) = lookup key (env s)).
  { intros key Hk. unfold metadata_keys in Hk. cbn [existsb] in Hk.
    repeat (apply orb_false_iff in Hk as [? Hk]). apply Q3; assumption. }
  assert (Qu : unt (stage_port s2) = unt s) by congruence.
  assert (Qkeys : forall key, In key metadata_keys \/ lookup key (env (stage_port s2)) = lookup key (env s)).
  { intros key. destruct (existsb (beqb key) metadata_keys) eqn:Ek; [left; apply in_meta; exact Ek|right; auto]. }
  assert (Qra : lookup k_remote_addr (env (stage_port s2)) = lookup k_remote_addr (env s) /\
                lookup k_remote_host (env (stage_port s2)) = lookup k_remote_host (env s) /\
                lookup k_remote_port (env (stage_port s2)) = lookup k_remote_port (env s)).
  { repeat split; apply Q3; keq. }
  destruct (client s) as [[|c0 c']|] eqn:Ec.
  - injection H as H; subst s'. constructor; auto.
    intros c Hc Hne. congruence.
  - cbv zeta in H. destruct (bad_client (c0 :: c')); [discriminate|]. injection H as H; subst s'.
    constructor; cbn [env unt]; auto.
    + intros c Hc _. rewrite Ec in Hc. injection Hc as <-. destruct Qra as (Qa & Qb & Qc).
      destruct (port_text (c0 :: c')) as [pt|]; repeat split;
        repeat (first [rewrite lookup_set_same | rewrite lookup_set_other by keq]); try reflexivity.
      exact Qc.
    + intros [Hc|Hc]; congruence.
    + intros Hne. destruct (port_text (c0 :: c')); repeat (rewrite lookup_set_other by keq); auto.
    + intros He. destruct (port_text (c0 :: c')); repeat (rewrite lookup_set_other by keq); auto.
    + destruct (port_text (c0 :: c')); repeat (rewrite lookup_set_other by keq); auto.
    + intros key. destruct (existsb (beqb key) metadata_keys) eqn:Ek; [left; apply in_meta; exact Ek|right].
      pose proof Ek as Ek'. unfold metadata_keys in Ek'. cbn [existsb] in Ek'.
      repeat (apply orb_false_iff in Ek' as [? Ek']).
      assert (R1 : beqb key k_remote_host = false) by assumption.
      assert (R2 : beqb key k_remote_port = false) by assumption.
      assert (R3 : beqb key k_remote_addr = false) by assumption.
      destruct (port_text (c0 :: c')); rewrite !lookup_set, ?R1, ?R2, ?R3; auto.
  - injection H as H; subst s'. constructor; auto.
    intros c Hc. congruence.
Qed.
