(* Proof/ChanPipeSpec.v -- the invariants hold along every schedule; the C04
   statements and their executable forms. *)
From Coq Require Import List Arith Bool ZArith Lia.
From WV Require Import Model.ChanPipe Proof.ChanPipeBase Proof.ChanPipeOwn.
Import ListNotations.

Section Run.
Variable P : params.

Definition Inv (st : state) : Prop := L0 st /\ L1 st.

Lemma Inv_init : Inv init.
Proof. split; [apply L0_init | apply L1_init]. Qed.

Lemma Inv_step : forall st c st' l, Inv st -> step P st c = Some (st', l) -> Inv st'.
Proof.
  intros st c st' l [H0 H1] Hs. split.
  - eapply L0_step; eauto.
  - eapply L1_step; eauto.
Qed.

Lemma Inv_exec : forall sched st, Inv st -> Inv (fold_left (exec1 P) sched st).
Proof.
  induction sched as [|c sched IH]; simpl; intros st H; auto.
  apply IH. unfold exec1. destruct (step P st c) as [[st' l]|] eqn:E; auto.
  eapply Inv_step; eauto.
Qed.

Theorem Inv_run : forall sched, Inv (run P sched).
Proof. intro sched. unfold run. apply Inv_exec. apply Inv_init. Qed.

(* ---- C04_one_at_a_time / C04_one_entry *)

Definition no_owner (st : state) : Prop := forall j, wk_owner (wpc (wk st j)) = false.

Theorem one_at_a_time : forall sched j k,
  wk_owner (wpc (wk (run P sched) j)) = true -> wk_owner (wpc (wk (run P sched) k)) = true -> j = k.
Proof. intros sched j k. destruct (Inv_run sched) as [_ H1]. apply (l1_uniq _ H1). Qed.

Theorem one_entry : forall sched,
  let st := run P sched in
  queue (sh st) <= 1 /\
  (queue (sh st) = 1 -> requests (sh st) <> [] /\ no_owner st) /\
  (connected (sh st) = true -> requests (sh st) <> [] -> no_owner st -> io_handing (io st) = false ->
   queue (sh st) = 1).
Proof.
  intros sched st. destruct (Inv_run sched) as [_ H1]. fold st in H1. repeat split.
  - apply (l1_q _ H1).
  - apply (l1_qreq _ H1); auto.
  - intro j. apply (l1_qown _ H1); auto.
  - intros Hc Hr Hn Hh. apply (l1_cover _ H1); auto. rewrite Hh. discriminate.
Qed.
End Run.
