(* Proof/ChanPipeSpec.v -- the invariants hold along every schedule; the C04 statements. *)
From Coq Require Import List Arith Bool ZArith Lia.
From WV Require Import Model.ChanPipe Proof.ChanPipeBase Proof.ChanPipeBaseStep Proof.ChanPipeOwn Proof.ChanPipeOwnStep
                       Proof.ChanPipeLog Proof.ChanPipeLogStep Proof.ChanPipeOut Proof.ChanPipeOutStep
                       Proof.ChanPipeQuiet Proof.ChanPipeQuietStep Proof.ChanPipeArr Proof.ChanPipeArrStep.
Import ListNotations.

Section Run.
Variable P : params.

Definition Inv (st : state) : Prop := L0 st /\ L1 st /\ L2 st /\ (p_unlocked P = false -> L3' P st) /\ L4 P st /\ L5 P st.

Lemma Inv_init : Inv init.
Proof. split; [apply L0_init | split; [apply L1_init | split; [apply L2_init | split; [intros _; apply L3_init | split; [apply L4_init | apply L5_init]]]]]. Qed.

Lemma Inv_step : forall st c st' l, Inv st -> step P st c = Some (st', l) -> Inv st'.
Proof.
  intros st c st' l (H0 & H1 & H2 & H3 & H4 & H5) Hs.
  split; [eapply L0_step; eauto | split; [eapply L1_step; eauto | split; [eapply L2_step; eauto |
  split; [intro Hu; eapply L3_step; eauto | split; [eapply L4_step; eauto | eapply L5_step; eauto]]]]].
Qed.

Lemma Inv_exec : forall sched st, Inv st -> Inv (fold_left (exec1 P) sched st).
Proof.
  induction sched as [|c sched IH]; simpl; intros st H; auto.
  apply IH. unfold exec1. destruct (step P st c) as [[st' l]|] eqn:E; auto.
  eapply Inv_step; eauto.
Qed.

Theorem Inv_run : forall sched, Inv (run P sched).
Proof. intro sched. unfold run. apply Inv_exec. apply Inv_init. Qed.

(* ---- C04_one_at_a_time / C04_one_entry *)

Definition no_owner (st : state) : Prop := forall j, wk_owner (wpc (wk st j)) = false.

Theorem one_at_a_time : forall sched j k,
  wk_owner (wpc (wk (run P sched) j)) = true -> wk_owner (wpc (wk (run P sched) k)) = true -> j = k.
Proof. intros sched j k. destruct (Inv_run sched) as (_ & H1 & _). apply (l1_uniq _ H1). Qed.

Theorem one_entry : forall sched,
  let st := run P sched in
  queue (sh st) <= 1 /\
  (queue (sh st) = 1 -> requests (sh st) <> [] /\ no_owner st) /\
  (connected (sh st) = true -> requests (sh st) <> [] -> no_owner st -> io_handing (io st) = false ->
   queue (sh st) = 1).
Proof.
  intros sched st. destruct (Inv_run sched) as (_ & H1 & _). fold st in H1. repeat split.
  - apply (l1_q _ H1).
  - apply (l1_qreq _ H1); auto.
  - intro j. apply (l1_qown _ H1); auto.
  - intros Hc Hr Hn Hh. apply (l1_cover _ H1); auto. rewrite Hh. discriminate.
Qed.

(* ---- C04_once: the service starts are a prefix of the arrivals (in arrival order, each at
   most once), the application calls are the starts except possibly the last one *)

Theorem once : forall sched,
  let s := sh (run P sched) in
  prefix (starts s) (arrivals s) /\ (starts s = execs s \/ exists x, starts s = execs s ++ [x]).
Proof.
  intros sched s. destruct (Inv_run sched) as (_ & _ & H2 & _). split.
  - apply (l2_pre _ H2).
  - apply (l2_ex _ H2).
Qed.

Lemma NoDup_app_l : forall (A : Type) (a b : list A), NoDup (a ++ b) -> NoDup a.
Proof.
  induction a as [|x a IH]; intros b H; simpl in *; [constructor|].
  inversion H; subst. constructor.
  - intro X. apply H2. apply in_or_app. auto.
  - eapply IH; eauto.
Qed.

Lemma prefix_NoDup : forall (A : Type) (a b : list A), prefix a b -> NoDup b -> NoDup a.
Proof. intros A a b [r ->] H. eapply NoDup_app_l; eauto. Qed.

Theorem arrivals_nodup : forall sched, NoDup (arrivals (sh (run P sched))).
Proof. intro sched. destruct (Inv_run sched) as (_ & _ & _ & _ & _ & H5). apply (L5_NoDup P _ H5). Qed.

Theorem once_nodup : forall sched,
  let s := sh (run P sched) in
  NoDup (arrivals s) /\ NoDup (starts s) /\ NoDup (execs s).
Proof.
  intros sched s. pose proof (arrivals_nodup sched) as Hn. fold s in Hn. destruct (once sched) as [Hp He]. fold s in Hp, He.
  assert (Hs : NoDup (starts s)) by (eapply prefix_NoDup; eauto).
  repeat split; auto. destruct He as [E|[x E]].
  - congruence.
  - rewrite E in Hs. eapply NoDup_app_l; eauto.
Qed.

(* ---- C04_wire *)

(* For every schedule: what the client has received plus what is still pending is exactly what was
   produced, with the one contiguous segment cut out that handle_close discarded (empty unless the
   connection was closed with output pending); what was produced is the units in order: the
   responses of the executed requests in order, each contiguous, interim responses only between
   them. *)
Definition wire_statement (st : state) : Prop :=
  let s := sh st in
  wire s ++ pending s = kept s /\
  discarded s = firstn (length (discarded s)) (skipn (cut s) (produced s)) /\
  produced s = flat_map (utoks P) (units s) /\
  resp_ids (units s) = execs s.

Definition C04_wire_full : Prop := forall sched, wire_statement (run P sched).

Theorem wire_full : p_unlocked P = false -> C04_wire_full.
Proof.
  intros Hu sched. destruct (Inv_run sched) as (_ & _ & _ & H3 & _ & _). specialize (H3 Hu).
  unfold wire_statement, pending. destruct (o_wire _ _ H3) as [T1 T2]. repeat split; auto.
  - apply (o_prod _ _ H3).
  - apply (o_ids _ _ H3).
Qed.

(* while nothing was discarded: wire ++ pending = produced *)
Corollary wire_no_close : p_unlocked P = false -> forall sched,
  discarded (sh (run P sched)) = [] ->
  wire (sh (run P sched)) ++ pending (sh (run P sched)) = produced (sh (run P sched)).
Proof.
  intros Hu sched Hd. destruct (wire_full Hu sched) as [T _]. rewrite T. unfold kept. rewrite Hd.
  simpl. rewrite Nat.add_0_r. apply firstn_skipn.
Qed.

(* every response but the one being written is complete, while the connection is open *)
Theorem complete_full : p_unlocked P = false -> forall sched,
  let st := run P sched in
  connected (sh st) = true ->
  (forall j, in_task (wpc (wk st j)) = false) -> Forall (complete P) (units (sh st)).
Proof.
  intros Hu sched st Hc Hn. destruct (Inv_run sched) as (_ & _ & _ & H3 & _ & _). specialize (H3 Hu).
  apply (o_done _ _ H3); auto.
Qed.

Theorem complete_in_task : p_unlocked P = false -> forall sched j,
  let st := run P sched in
  connected (sh st) = true -> in_task (wpc (wk st j)) = true ->
  exists us n, units (sh st) = us ++ [UResp (w_cur (wk st j)) n] /\ Forall (complete P) us.
Proof.
  intros Hu sched j st Hc Hj. destruct (Inv_run sched) as (_ & _ & _ & H3 & _ & _). specialize (H3 Hu).
  destruct (o_task _ _ H3 j Hj) as (_ & _ & us & E & F). exists us, (off_now P (wk st j)). split; auto.
Qed.

(* the output-buffer state is touched only by the holder of outbuf_lock: a thread inside
   _flush_some holds it (the ownership discipline, at full strength since 8bcf05e) *)
Theorem flush_under_lock : p_unlocked P = false -> forall sched,
  let st := run P sched in
  (forall f, io_fl (ipc (io st)) = Some f -> olock (sh st) = Some TIo) /\
  (forall j f, wk_fl (wpc (wk st j)) = Some f -> olock (sh st) = Some (TW j)).
Proof.
  intros Hu sched st. destruct (Inv_run sched) as (H0 & _ & _ & H3 & _ & _). specialize (H3 Hu). fold st in H0, H3.
  destruct (l0_o _ H0) as [O1 O2]. split.
  - intros f Hf. apply O1. destruct (io_fl_touch _ _ Hf) as [X|X]; auto.
    rewrite (o_unl _ _ H3) in X. discriminate.
  - intros j f Hf. apply O2. eapply wk_fl_ol; eauto.
Qed.

(* ---- exactly once at quiescence *)

Lemma all_parked_spec : forall n st, all_parked n st = true ->
  forall j, j < n -> is_parked (wpc (wk st j)) = true /\ ~ In j (qnotified (sh st)).
Proof.
  induction n as [|n IH]; intros st H j Hj; [lia|].
  simpl in H. apply andb_true_iff in H. destruct H as [H Hr]. apply andb_true_iff in H. destruct H as [Hp Hn].
  destruct (Nat.eq_dec j n) as [->|N].
  - split.
    + destruct (wpc (wk st n)); try discriminate; reflexivity.
    + intro X. apply negb_true_iff in Hn. assert (existsb (Nat.eqb n) (qnotified (sh st)) = true).
      { apply existsb_exists. exists n. split; auto. apply Nat.eqb_refl. }
      congruence.
  - apply IH; auto. lia.
Qed.

Theorem quiescent_exactly_once : forall sched,
  let st := run P sched in
  1 <= p_nw P -> all_parked (p_nw P) st = true -> io_in_add_task (io st) = false ->
  connected (sh st) = true -> closing (sh st) = false ->
  requests (sh st) = [] /\ execs (sh st) = arrivals (sh st).
Proof.
  intros sched st Hnw Hpk Hio Hc Hcl.
  destruct (Inv_run sched) as (H0 & H1 & H2 & _ & H4 & _). fold st in H0, H1, H2, H4.
  pose proof (all_parked_spec _ _ Hpk) as Hall.
  assert (Hpc : forall j, wpc (wk st j) = WParked \/ wpc (wk st j) = WAcqD).
  { intro j. destruct (Nat.lt_ge_cases j (p_nw P)) as [L|G].
    - left. destruct (Hall j L) as [X _]. destruct (wpc (wk st j)); try discriminate; reflexivity.
    - right. rewrite (q_out _ _ H4 j G). reflexivity. }
  assert (Hno : forall j, wk_owner (wpc (wk st j)) = false) by (intro j; destruct (Hpc j) as [X|X]; rewrite X; reflexivity).
  assert (Hns : forall j, serving (wpc (wk st j)) = false) by (intro j; destruct (Hpc j) as [X|X]; rewrite X; reflexivity).
  assert (Hq : queue (sh st) = 0).
  { destruct (queue (sh st)) eqn:Eq; auto. exfalso.
    destruct (q_live _ _ H4 Hnw ltac:(lia)) as [[j [J1 J2]]|[X|X]].
    - destruct (Hall j J1) as [Y _]. destruct (wpc (wk st j)); simpl in *; discriminate.
    - assert (Hex : exists x, In x (qnotified (sh st))).
      { destruct (qnotified (sh st)) as [|x r]; [congruence|]. exists x. left. reflexivity. }
      destruct Hex as [x Hx0].
      assert (Hx : In x (qwait (sh st) ++ qnotified (sh st))) by (apply in_or_app; right; exact Hx0).
      apply (q_w _ _ H4) in Hx. destruct Hx as [Hx _]. destruct (Hall x Hx) as [_ Z]. apply Z. exact Hx0.
    - unfold io_in_add_task in Hio. unfold io_at_notify in X. destruct (ipc (io st)); try discriminate. }
  assert (Hr : requests (sh st) = []).
  { destruct (requests (sh st)) eqn:Er; auto. exfalso.
    assert (queue (sh st) = 1).
    { apply (l1_cover _ H1); auto; try (rewrite Er; discriminate).
      intro X. unfold io_handing in X. unfold io_in_add_task in Hio. destruct (ipc (io st)); try discriminate. }
    lia. }
  split; auto.
  assert (Hlive : live (sh st)) by (left; auto).
  pose proof (l2_arr _ H2 Hlive) as A. pose proof (l2_idle _ H2 Hlive Hns) as B.
  rewrite Hr, app_nil_r in A.
  destruct (list_eq_dec Nat.eq_dec (starts (sh st)) (execs (sh st))) as [E|N].
  - congruence.
  - destruct (l2_ex2 _ H2 N) as [[j Hj]|[X _]]; [rewrite Hns in Hj; discriminate | congruence].
Qed.
End Run.
