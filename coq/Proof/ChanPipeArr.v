(* Proof/ChanPipeArr.v -- layer L5: the arrival log has no duplicates.  Every completing item of the
   client's stream (IFull / IRest / IFullX of request id) is consumed at most once, and the ids of
   the stream are increasing: the ranks 2*id+1 of the arrivals, followed by the ranks of the
   completing items still ahead (the one in the parser's hands, those of the current read, those
   not yet read), form a strictly increasing list. *)
From Coq Require Import List Arith Bool ZArith Lia.
From WV Require Import Model.ChanPipe Proof.ChanPipeBase.
Import ListNotations.

Fixpoint sorted_lt (l : list nat) : Prop :=
  match l with
  | [] => True
  | x :: r => Forall (fun y => x < y) r /\ sorted_lt r
  end.

Lemma sorted_app : forall a b, sorted_lt (a ++ b) <->
  sorted_lt a /\ sorted_lt b /\ (forall x y, In x a -> In y b -> x < y).
Proof.
  induction a as [|x a IH]; intro b; simpl.
  - split; [intro H; repeat split; auto; intros; contradiction | intros (_ & H & _); exact H].
  - rewrite IH. rewrite Forall_app. split.
    + intros ((F1 & F2) & S1 & S2 & C). repeat split; auto.
      intros u v [->|Hu] Hv; [rewrite Forall_forall in F2; auto | auto].
    + intros ((F1 & S1) & S2 & C). repeat split; auto.
      apply Forall_forall. intros y Hy. apply C; auto.
Qed.

Lemma sorted_drop_mid : forall a b c, sorted_lt (a ++ b ++ c) -> sorted_lt (a ++ c).
Proof.
  intros a b c H. apply sorted_app in H. destruct H as (Sa & Sbc & C).
  apply sorted_app in Sbc. destruct Sbc as (Sb & Sc & C2).
  apply sorted_app. repeat split; auto. intros x y Hx Hy. apply C; auto. apply in_or_app. auto.
Qed.

Lemma sorted_NoDup : forall l, sorted_lt l -> NoDup l.
Proof.
  induction l as [|x r IH]; intro H; [constructor|].
  destruct H as [F S]. constructor; auto. intro X. rewrite Forall_forall in F. specialize (F x X). lia.
Qed.

(* ---- ranks *)
Definition rank (it : item) : nat :=
  match it with IFull i | IRest i | IFullX i => 2 * i + 1 | IHead i => 2 * i end.
Definition completing (it : item) : bool := match it with IHead _ => false | _ => true end.
Definition cranks (l : list item) : list nat := map rank (filter completing l).
Definition whole_items (l : list ritem) : list item :=
  flat_map (fun r => match r with Whole it => [it] | Piece _ => [] end) l.

Lemma cranks_app : forall a b, cranks (a ++ b) = cranks a ++ cranks b.
Proof. intros. unfold cranks. rewrite filter_app, map_app. reflexivity. Qed.

Lemma whole_items_app : forall a b, whole_items (a ++ b) = whole_items a ++ whole_items b.
Proof. intros. unfold whole_items. apply flat_map_app. Qed.

Lemma whole_items_map_whole : forall l, whole_items (map Whole l) = l.
Proof. induction l; simpl; congruence. Qed.

Lemma whole_items_map_piece : forall l, whole_items (map Piece l) = [].
Proof. induction l; simpl; auto. Qed.

(* the stream of a script is increasing in rank *)
Lemma stream_sorted : forall script k,
  sorted_lt (map rank (items_from k script)) /\ Forall (fun r => 2 * k <= r) (map rank (items_from k script)).
Proof.
  induction script as [|d r IH]; intro k; simpl; [split; constructor|].
  destruct (IH (S k)) as [Hs Hf].
  assert (F1 : Forall (fun x => 2 * k + 1 < x) (map rank (items_from (S k) r))).
  { eapply Forall_impl; [|exact Hf]. simpl. intros; lia. }
  assert (F0 : Forall (fun x => 2 * k < x) (map rank (items_from (S k) r))).
  { eapply Forall_impl; [|exact Hf]. simpl. intros; lia. }
  assert (F2 : Forall (fun x => 2 * k <= x) (map rank (items_from (S k) r))).
  { eapply Forall_impl; [|exact Hf]. simpl. intros; lia. }
  destruct (r_expect d); [destruct (r_nobody d)|]; simpl.
  - split; [split; [replace (k + (k + 0) + 1) with (2 * k + 1) by lia; exact F1 | exact Hs]
           | constructor; [lia | replace (k + (k + 0)) with (2 * k) by lia; exact F2]].
  - split.
    + split; [constructor; [lia | replace (k + (k + 0)) with (2 * k) by lia; exact F0]|].
      split; [replace (k + (k + 0) + 1) with (2 * k + 1) by lia; exact F1 | exact Hs].
    + constructor; [lia|]. constructor; [lia|]. replace (k + (k + 0)) with (2 * k) by lia. exact F2.
  - split; [split; [replace (k + (k + 0) + 1) with (2 * k + 1) by lia; exact F1 | exact Hs]
           | constructor; [lia | replace (k + (k + 0)) with (2 * k) by lia; exact F2]].
Qed.

Lemma sorted_filter_map : forall (l : list item), sorted_lt (map rank l) -> sorted_lt (cranks l).
Proof.
  induction l as [|x l IH]; simpl; intro H; auto.
  destruct H as [F S]. unfold cranks in *. simpl. destruct (completing x); simpl; auto.
  split; auto. apply Forall_forall. intros y Hy. rewrite Forall_forall in F. apply F.
  apply in_map_iff in Hy. destruct Hy as (z & <- & Hz). apply filter_In in Hz. apply in_map. tauto.
Qed.

(* ---- the invariant *)
Definition io_hold (pc : iopc) (comp : bool) : bool :=
  match pc with IoRcChk | IoRcSc _ => comp | IoRcApp | IoRcApp2 => true | _ => false end.

Section L5.
Variable P : params.

Definition pend (st : state) : list nat :=
  (if io_hold (ipc (io st)) (i_comp (io st)) then [2 * i_cur (io st) + 1] else []) ++
  cranks (whole_items (i_items (io st))) ++ cranks (skipn (nxt (sh st)) (stream P)).

Definition L5 (st : state) : Prop :=
  sorted_lt (map (fun x => 2 * x + 1) (arrivals (sh st)) ++ pend st).

Lemma L5_init : L5 init.
Proof.
  unfold L5, pend. simpl. apply sorted_filter_map. apply (proj1 (stream_sorted (p_script P) 0)).
Qed.

Lemma L5_NoDup : forall st, L5 st -> NoDup (arrivals (sh st)).
Proof.
  intros st H. unfold L5 in H. apply sorted_app in H. destruct H as (H & _).
  apply sorted_NoDup in H. eapply NoDup_map_inv; eauto.
Qed.

Lemma L5_frame : forall st st',
  arrivals (sh st') = arrivals (sh st) -> nxt (sh st') = nxt (sh st) ->
  i_items (io st') = i_items (io st) -> i_cur (io st') = i_cur (io st) ->
  io_hold (ipc (io st')) (i_comp (io st')) = io_hold (ipc (io st)) (i_comp (io st)) ->
  L5 st -> L5 st'.
Proof. intros st st' H1 H2 H3 H4 H5 H. unfold L5, pend in *. rewrite H1, H2, H3, H4, H5. exact H. Qed.
End L5.
