(* Proof/ChanWakeL4.v -- layer 4 of the C05 invariant: what holds at the program points
   around the two waits of _flush_outbufs_below_high_watermark (the trigger is pulled
   before each wait and the I/O thread cannot have committed to a stale interest set;
   a parked producer is above the watermark, or about to be notified, and connected). *)
From Coq Require Import List ZArith Bool Arith Lia.
From WV Require Import Model.ChanWake Proof.ChanWakeInv Proof.ChanWakeBase Proof.ChanWakeL1 Proof.ChanWakeL2
  Proof.ChanWakeL3.
Import ListNotations.
Open Scope Z_scope.

Definition is_hcd (p : iopc) : bool := match p with IoHCd _ => true | _ => false end.

Definition notif_soon (c : cfg) (s : state) : Prop :=
  hw c < total s \/ io_will_notify (io s) = true \/ io_close_notify (io s) (wc s) = true.

Definition WInv4 (c : cfg) (s : state) (p : wpc) : Prop :=
  match p with
  | WHwF _ => conn s = true
  | WHwEN _ => wc s = true
  | WHwEP _ => wc s = true /\ conn s = true
  | WHwEW _ => wc s = true /\ conn s = true /\ (closed s = true \/ pulled s = true \/ cov_wc (io s) = true)
  | WHwEPk _ cap => wc s = true /\ cap = true /\ (conn s = true \/ is_hcd (io s) = true)
  | WHwL2 _ => conn s = true
  | WHwLP _ => conn s = true /\ hw c < total s
  | WHwLW _ => conn s = true /\ hw c < total s /\
               (closed s = true \/ pulled s = true \/ cov_tot (io s) = true)
  | WHwLPk _ => notif_soon c s /\ (conn s = true \/ is_hcd (io s) = true)
  | _ => True
  end.

Definition Inv4 (c : cfg) (s : state) : Prop :=
  forall j p, nth_error (ws s) j = Some p -> WInv4 c s p.

Lemma inv4_init : forall c nw, Inv4 c (init nw).
Proof.
  intros c nw j p H. simpl in H. apply nth_error_In in H. apply repeat_spec in H. subst. exact I.
Qed.

Lemma winv4_nonmain : forall c s p, w_main p = false -> WInv4 c s p.
Proof. intros c s p H. destruct p; simpl in H; try discriminate; exact I. Qed.

Lemma winv4_notified : forall c s p, WInv4 c s p -> WInv4 c s (notified p).
Proof. intros c s p H. destruct p; simpl in *; auto; tauto. Qed.

(* nothing that the layer looks at changes, except that flags may be raised *)
Lemma winv4_mono : forall c s s' p,
  WInv4 c s p ->
  (wc s = true -> wc s' = true) -> total s' = total s -> closed s' = closed s ->
  (pulled s = true -> pulled s' = true) -> io s' = io s -> conn s' = conn s -> WInv4 c s' p.
Proof.
  intros c s s' p H Hwc Ht Hc Hp Hio Hcn. destruct p; simpl in *; auto; unfold notif_soon in *;
    rewrite ?Ht, ?Hc, ?Hio, ?Hcn; try tauto.
  destruct H as [[H|[H|H]] H2]; split; auto.
  right; right. destruct (io s); simpl in *; auto; try discriminate.
Qed.

(* at most one worker is parked on outbuf_lock: parked workers serve requests[0] *)
Lemma parked_unique : forall s,
  Inv2 s -> forall i j p q, nth_error (ws s) i = Some p -> nth_error (ws s) j = Some q ->
  parked_o p = true -> parked_o q = true -> i = j.
Proof.
  intros s HI i j p q Hi Hj Pp Pq. destruct (Nat.eq_dec i j); auto. exfalso.
  assert (w_busy p = true) by (destruct p; simpl in Pp; try discriminate; reflexivity).
  assert (w_busy q = true) by (destruct q; simpl in Pq; try discriminate; reflexivity).
  pose proof (count_busy_two _ _ _ _ _ n Hi Hj) as H2. rewrite H, H0 in H2. simpl in H2.
  pose proof (i2_tok _ HI). lia.
Qed.

Ltac nat_hyps :=
  repeat match goal with
         | H : (_ =? _)%nat = true |- _ => apply Nat.eqb_eq in H
         | H : (_ =? _)%nat = false |- _ => apply Nat.eqb_neq in H
         | H : (_ <? _)%nat = true |- _ => apply Nat.ltb_lt in H
         | H : (_ <? _)%nat = false |- _ => apply Nat.ltb_ge in H
         end.

(* the facts of the lower layers about one worker, in the form the case analysis uses *)
Lemma worker_facts : forall s j p,
  Inv1 s -> Inv2 s -> nth_error (ws s) j = Some p ->
  (w_holds_o p = true -> olock s = Some (TW j)) /\ (w_main p = true -> (1 <= nreq s)%nat).
Proof.
  intros s j p H1 H2 Hj. destruct (i1_w _ H1 _ _ Hj) as (Ho & _ & _). destruct (i2_w _ H2 _ _ Hj) as (Hm & _). auto.
Qed.

Lemma add_task_fields4 : forall s,
  wc (add_task s) = wc s /\ total (add_task s) = total s /\ closed (add_task s) = closed s /\
  pulled (add_task s) = pulled s /\ conn (add_task s) = conn s.
Proof. intros. unfold add_task. simpl. destruct (qwait s); simpl; auto. Qed.

Lemma inv4_step_io : forall c s ch s' l,
  0 <= hw c -> Inv1 s -> Inv2 s -> Inv3 s -> Inv4 c s ->
  step_io c s ch = Some (s', l) -> Inv4 c s'.
Proof.
  intros c s ch s' l Hhw HI1 HI2 HI3 HI4 H.
  pose proof (i1_io_o _ HI1) as Ho. pose proof (i2_fl _ HI2) as Hfl.
  pose proof (parked_unique s HI2) as Huniq.
  unfold step_io in H. step_cases H; free_hyps.
  all: unfold after_read, turn_start, hc_return, goio in *.
  all: repeat match goal with |- context [if ?b then _ else _] => destruct b eqn:? end.
  all: z_hyps; nat_hyps.
  all: cbv [io_holds_o hc_locked io_sc hc_is_sc orb] in Ho, Hfl.
  all: intros j q Hj; simpl in Hj.
  (* notify: nobody stays parked *)
  all: try (pose proof (notify_o_none_parked _ Huniq _ _ Hj) as Hnp;
            destruct (notify_o_nth _ _ _ Hj) as (p & Hp & [->|[Pp ->]]);
            [ | pose proof (HI4 j p Hp) as H4; destruct p; simpl in Pp; try discriminate Pp; simpl in *; tauto ];
            clear Hj; rename Hp into Hj).
  all: try (apply ws_add_task_inv in Hj; destruct Hj as [->|Hj]; [exact I|]).
  all: try rename q into p.
  all: destruct (worker_facts s j p HI1 HI2 Hj) as (Hlk & Hmn); pose proof (HI4 j p Hj) as H4.
  all: try match goal with E : io _ = _ |- _ => unfold WInv4, notif_soon in H4; rewrite ?E in H4 end.
  all: destruct p; try exact I; simpl in H4, Hlk, Hmn |- *; try (simpl in Hnp; discriminate Hnp).
  all: try (specialize (Hlk eq_refl)); try (specialize (Hmn eq_refl)).
  all: try (exfalso; (specialize (Ho eq_refl); congruence) || (specialize (Hfl eq_refl); lia)).
  all: unfold notif_soon in *; simpl in *.
  all: try match goal with E : io _ = _ |- _ => rewrite ?E; simpl end.
  all: try match goal with |- context [add_task ?x] =>
         destruct (add_task_fields4 x) as (F1 & F2 & F3 & F4 & F5); rewrite ?F1, ?F2, ?F3, ?F4, ?F5 end.
  all: try tauto.
  all: try (exfalso; lia).
  all: try (intuition (try lia; try congruence); fail).
Qed.

Lemma inv4_step_w : forall c s i ch s' l,
  0 <= hw c -> Inv1 s -> Inv2 s -> Inv3 s -> Inv4 c s ->
  step_w c s i ch = Some (s', l) -> Inv4 c s'.
Proof.
  intros c s i ch s' l Hhw HI1 HI2 HI3 HI4 H. unfold step_w in H.
  destruct (getw s i) as [pc|] eqn:Hg; [|discriminate]. unfold getw in Hg.
  pose proof (HI4 _ _ Hg) as Hi4.
  destruct (worker_facts s i pc HI1 HI2 Hg) as (Hlk & Hmn).
  pose proof (i1_io_o _ HI1) as Ho.
  (* the other workers: if this one owns the channel they are not in service of requests[0] *)
  assert (Hoth : w_busy pc = true -> forall j p, j <> i -> nth_error (ws s) j = Some p -> w_main p = false).
  { intros Hb j p Hn Hj. destruct (busy_exclusive s i pc (i2_tok _ HI2) Hg Hb) as (_ & _ & _ & Hx).
    specialize (Hx _ _ Hn Hj). unfold w_busy in Hx. apply orb_false_iff in Hx. tauto. }
  (* ... nor while it sends a deferred 100 Continue: requests is empty then *)
  assert (Hoth2 : w_sc pc = true -> forall j p, nth_error (ws s) j = Some p -> w_main p = false).
  { intros Hb j p Hj. destruct (i2_sc _ HI2 _ _ Hg) as (Hn0 & _). specialize (Hn0 Hb).
    destruct (w_main p) eqn:Em; auto. destruct (i2_w _ HI2 _ _ Hj) as (Hm & _). specialize (Hm Em). lia. }
  step_cases H; free_hyps.
  all: unfold setw, hw_exit in *.
  all: repeat match goal with |- context [if ?b then _ else _] => destruct b eqn:? end.
  all: repeat match goal with |- context [match ?b with SWr _ => _ | SEnd => _ end] => destruct b eqn:? end.
  all: z_hyps; nat_hyps.
  all: intros j q Hj; simpl in Hj.
  all: first [ apply nth_error_upd_inv in Hj; destruct Hj as [[-> ->]|[Hne Hj]]
             | destruct (Nat.eq_dec j i) as [->|Hne]; [rewrite Hg in Hj; inversion Hj; subst q; simpl in *; first [exact I | exact Hi4]|] ].
  (* the other workers *)
  all: try (try (apply ws_add_task_inv in Hj; destruct Hj as [->|Hj]; [exact I|]);
            first [ apply winv4_nonmain; apply (Hoth eq_refl _ _ Hne Hj)
                  | apply winv4_nonmain; apply (Hoth2 eq_refl _ _ Hj)
                  | apply (winv4_mono c s _ q (HI4 _ _ Hj)); simpl;
                    try match goal with |- context [add_task ?x] =>
                      destruct (add_task_fields4 x) as (F1 & F2 & F3 & F4 & F5); rewrite ?F1, ?F2, ?F3, ?F4, ?F5 end;
                    auto; unfold add_task; simpl; destruct (qwait s); reflexivity ]; fail).
  all: simpl; try exact I.
  all: simpl in Hi4, Hlk, Hmn; unfold notif_soon in *.
  all: try tauto.
  all: try (intuition (try lia; try congruence); fail).
Qed.

Lemma inv4_step : forall c s ch s' l,
  0 <= hw c -> Inv1 s -> Inv2 s -> Inv3 s -> Inv4 c s ->
  step c s ch = Some (s', l) -> Inv4 c s'.
Proof.
  intros c s ch s' l Hhw HI1 HI2 HI3 HI H. unfold step in H. destruct ch;
    try (eapply inv4_step_io; eauto; fail); try (eapply inv4_step_w; eauto; fail).
  - destruct (gone s); [discriminate|]. inversion H; subst. intros j p Hj. apply (HI j p Hj).
  - destruct (gone s); [discriminate|]. inversion H; subst. intros j p Hj. apply (HI j p Hj).
Qed.
