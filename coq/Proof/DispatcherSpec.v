(* Proof/DispatcherSpec.v -- the specifications of Spec/Pool.v follow from the
   inductive invariant of Proof/DispatcherInv.v, for every schedule. *)
From Coq Require Import List Arith ZArith Bool Lia.
From WV Require Import Lib.Conc Model.Dispatcher Spec.Pool Proof.DispatcherLib Proof.DispatcherInv.
Import ListNotations.

Definition runD (sched : list choice) : state := run step init sched.
Definition traceD (sched : list choice) : list label := trace step init sched.

Theorem Inv_run : forall sched, Inv (runD sched).
Proof.
  intros. unfold runD. apply invariant_rule.
  - apply Inv_init.
  - intros. eapply Inv_step; eauto.
Qed.

(* ---- exactly once ------------------------------------------------------------- *)

Lemma Inv_once : forall s, Inv s -> once_spec s.
Proof.
  intros s [IA IB IC ID]. pose proof (nodup_ws s IA) as Hnd.
  destruct IC as [Ctk Cq Cled Crun].
  assert (Hinq : forall t, In t (queue s) <-> taken s <= t < length (ledger s)).
  { intros t. rewrite Cq. rewrite in_seq. lia. }
  constructor; unfold submitted, next_id, st, svc, cnc, info.
  - rewrite Cq. apply seq_NoDup.
  - intros t Hin. apply Hinq in Hin. lia.
  - intros t Ht. rewrite Hinq. specialize (Cled t Ht). unfold led_ok, led_ok_at in Cled.
    destruct (ti_st (nth t (ledger s) ti0)); split; intros H; try discriminate; try lia; auto.
  - intros t w Ht. split.
    + intros H. specialize (Cled t Ht). unfold led_ok, led_ok_at in Cled. rewrite H in Cled. tauto.
    + intros H. apply Crun in H. tauto.
  - intros t w H. apply Crun in H. tauto.
  - intros w pc1 pc2 H1 H2. eapply In_unique; eauto.
  - intros t Ht. specialize (Cled t Ht). unfold led_ok, led_ok_at in Cled.
    destruct (ti_st (nth t (ledger s) ti0)); tauto.
  - intros t Ht. specialize (Cled t Ht). unfold led_ok, led_ok_at in Cled.
    destruct (ti_st (nth t (ledger s) ti0)); tauto.
Qed.

Theorem once_all_schedules : forall sched, once_spec (runD sched).
Proof. intros. apply Inv_once. apply Inv_run. Qed.

(* never both run and cancelled, never twice *)
Corollary once_counts : forall sched t, submitted (runD sched) t ->
  svc (runD sched) t + cnc (runD sched) t <= 1.
Proof.
  intros sched t Ht. pose proof (once_all_schedules sched) as O.
  rewrite (once_svc _ O t Ht), (once_cnc _ O t Ht).
  destruct (st (runD sched) t); simpl; lia.
Qed.

(* ---- labels of one step ---------------------------------------------------------- *)

Lemma submits_app : forall a b, submits (a ++ b) = submits a ++ submits b.
Proof. induction a as [|x a IH]; simpl; intros; auto. destruct x; simpl; rewrite ?IH; auto. Qed.
Lemma takes_app : forall a b, takes (a ++ b) = takes a ++ takes b.
Proof. induction a as [|x a IH]; simpl; intros; auto. destruct x; simpl; rewrite ?IH; auto. Qed.
Lemma starts_app : forall a b, starts (a ++ b) = starts a ++ starts b.
Proof. induction a as [|x a IH]; simpl; intros; auto. destruct x; simpl; rewrite ?IH; auto. Qed.

Definition quiet (l : list label) : Prop := submits l = [] /\ takes l = [] /\ starts l = [].

Lemma quiet_starts : forall new, quiet (map LStart new).
Proof. induction new; simpl; unfold quiet in *; simpl; tauto. Qed.

Lemma notify_q_quiet : forall k s s' l, notify_q k s = Some (s', l) -> quiet l.
Proof.
  intros k s s' l H. unfold notify_q in H. destruct (qwait s).
  - inv H. repeat split.
  - destruct (nth_error (n :: l0) k); inv H. repeat split.
Qed.

(* what a step does to the three projections of the trace *)
Inductive step_kind (s s' : state) (c : choice) (l : list label) : Prop :=
| K_quiet : quiet l -> length (ledger s') = length (ledger s) -> taken s' = taken s -> step_kind s s' c l
| K_submit : submits l = [length (ledger s)] -> takes l = [] -> starts l = [] ->
             length (ledger s') = S (length (ledger s)) -> taken s' = taken s -> step_kind s s' c l
| K_pop : forall w, c = CWork w -> In w (map fst (workers s)) ->
          submits l = [] -> takes l = [taken s] -> starts l = [taken s] ->
          length (ledger s') = length (ledger s) -> taken s' = S (taken s) -> step_kind s s' c l
| K_cancel : submits l = [] -> takes l = [taken s] -> starts l = [] ->
          length (ledger s') = length (ledger s) -> taken s' = S (taken s) -> step_kind s s' c l.

Lemma do_add_kind : forall b k s s' l c, InvA s -> do_add b k s = Some (s', l) -> step_kind s s' c l.
Proof.
  intros b k s s' l c IA H.
  destruct (do_add_frame _ _ _ _ _ IA H) as [F1 [F2 _]].
  rewrite do_add_eq in H.
  destruct (notify_q k (add_state s)) as [[s2 l2]|] eqn:E; [|discriminate]. inv H.
  destruct (notify_q_quiet _ _ _ _ E) as [Q1 [Q2 Q3]].
  apply K_submit; simpl; rewrite ?Q1, ?Q2, ?Q3; auto.
  rewrite F1. rewrite app_length. simpl. lia.
Qed.

Lemma do_resize_quiet : forall n s s' l, InvA s -> do_resize n s = (s', l) -> quiet l.
Proof.
  intros n s s' l IA H. unfold do_resize in H.
  destruct (length (threads s) - stop_count s <? n).
  - destruct (spawn (n - (length (threads s) - stop_count s)) 0 (threads s) (workers s) (active_count s) [])
      as [[[ths ws] act] ls] eqn:Es.
    inv H. apply spawn_spec in Es; [|apply (A_nodup s IA)].
    destruct Es as [new [_ [_ [_ [_ [_ H6]]]]]]. subst. simpl. apply quiet_starts.
  - destruct (n <? length (threads s) - stop_count s); inv H; repeat split.
Qed.

Lemma do_resize_kind : forall n s s' l c, InvA s -> do_resize n s = (s', l) -> step_kind s s' c l.
Proof.
  intros n s s' l c IA H.
  destruct (do_resize_frame _ _ _ _ H) as [_ [_ [_ [_ [F5 [F6 _]]]]]].
  apply K_quiet; auto; [|congruence]. eapply do_resize_quiet; eauto.
Qed.

Lemma do_work_kind : forall w pc s s' l, InvC s -> In (w, pc) (workers s) ->
  do_work w pc s = Some (s', l) -> step_kind s s' (CWork w) l.
Proof.
  intros w pc s s' l IC Hin H. unfold do_work in H.
  destruct (stop_count s) as [|st] eqn:Est.
  - destruct (queue s) as [|t q] eqn:Eq; inv H.
    + apply K_quiet; repeat split.
    + destruct (queue_head_taken s t q IC Eq) as [E _]. subst t.
      apply (K_pop _ _ _ _ w); simpl; auto.
      * eapply In_fst; eauto.
      * rewrite upd_length. auto.
  - destruct (queue s); inv H; apply K_quiet; simpl; auto;
      destruct (xwait s); repeat split.
Qed.

Lemma do_sd_kind : forall e s s' l c, InvC s -> do_sd e s = Some (s', l) -> step_kind s s' c l.
Proof.
  intros e s s' l c IC H. unfold do_sd in H. destruct (sd s); try discriminate.
  - destruct (free s); [|discriminate].
    destruct (threads s); [|destruct e]; destruct (sd_cancel s); inv H;
      apply K_quiet; simpl; auto; repeat split.
  - inv H. apply K_quiet; simpl; auto; repeat split.
  - destruct (queue s) as [|t q] eqn:Eq; inv H.
    + apply K_quiet; simpl; auto; repeat split.
    + destruct (queue_head_taken s t q IC Eq) as [E _]. subst t.
      apply K_cancel; simpl; auto. rewrite upd_length. auto.
Qed.

Lemma step_kind_of : forall s c s' l, InvA s -> InvC s -> step s c = Some (s', l) -> step_kind s s' c l.
Proof.
  intros s c s' l IA IC H. pose proof (nodup_ws s IA) as Hnd.
  destruct c; simpl in H.
  - destruct (free s); [|discriminate]. eapply do_add_kind; eauto.
  - destruct (free s); [|discriminate]. inv H. eapply do_resize_kind; eauto.
  - destruct (free s); [|discriminate].
    destruct (get_pc w (workers s)) as [pc|] eqn:Eg; [|discriminate].
    apply get_pc_In in Eg; auto.
    destruct pc; try discriminate; eapply do_work_kind; eauto.
  - destruct (free s); [|discriminate].
    destruct (get_pc w (workers s)) as [[]|]; try discriminate. eapply do_add_kind; eauto.
  - destruct (get_pc w (workers s)) as [[]|]; try discriminate. inv H.
    apply K_quiet; simpl; auto. repeat split. rewrite upd_length. auto.
  - destruct (free s); [|discriminate]. destruct (sd s); try discriminate.
    destruct (do_resize 0 s) as [s1 ls] eqn:Er. inv H.
    destruct (do_resize_quiet 0 s s1 ls IA Er) as [Q1 [Q2 Q3]].
    destruct (do_resize_frame _ _ _ _ Er) as [_ [_ [_ [_ [F5 [F6 _]]]]]].
    apply K_quiet; simpl; try congruence. repeat split; auto.
  - eapply do_sd_kind; eauto.
Qed.

(* ---- submission order ------------------------------------------------------------- *)

Lemma Subseq_nil_l : forall A (l : list A), Subseq [] l.
Proof. induction l; constructor; auto. Qed.

Lemma Subseq_app : forall A (a b c d : list A), Subseq a b -> Subseq c d -> Subseq (a ++ c) (b ++ d).
Proof.
  intros A a b c d H. induction H; simpl; intros;
    [auto | apply Subseq_skip; auto | apply Subseq_take; auto].
Qed.

Definition InvT (s : state) (tr : list label) : Prop :=
  Inv s /\ submits tr = seq 0 (length (ledger s)) /\ takes tr = seq 0 (taken s) /\
  Subseq (starts tr) (takes tr).

Lemma InvT_init : InvT init [].
Proof. split. apply Inv_init. simpl. repeat split; constructor. Qed.

Lemma InvT_step : forall s tr c s' l, InvT s tr -> step s c = Some (s', l) -> InvT s' (tr ++ l).
Proof.
  intros s tr c s' l [I [T1 [T2 T3]]] H.
  split; [eapply Inv_step; eauto|].
  rewrite submits_app, takes_app, starts_app.
  destruct (step_kind_of s c s' l (inv_A s I) (inv_C s I) H)
    as [[Q1 [Q2 Q3]] K2 K3 | K1 K2 K3 K4 K5 | w Kc Kw K1 K2 K3 K4 K5 | K1 K2 K3 K4 K5].
  - rewrite Q1, Q2, Q3, K2, K3, !app_nil_r. auto.
  - rewrite K1, K2, K3, K4, K5, !app_nil_r. rewrite seq_S. simpl. rewrite T1. auto.
  - rewrite K1, K2, K3, K4, K5, !app_nil_r. rewrite seq_S. simpl. rewrite T2.
    repeat split; auto. apply Subseq_app; auto. rewrite <- T2. auto.
    apply Subseq_take. apply Subseq_nil.
  - rewrite K1, K2, K3, K4, K5, !app_nil_r. rewrite seq_S. simpl. rewrite T2.
    repeat split; auto. rewrite <- (app_nil_r (starts tr)). apply Subseq_app.
    rewrite <- T2. auto. apply Subseq_skip. apply Subseq_nil.
Qed.

Theorem InvT_run : forall sched, InvT (runD sched) (traceD sched).
Proof.
  intros. unfold runD, traceD. apply (invariant_rule_tr _ _ _ step InvT).
  - apply InvT_init.
  - intros. eapply InvT_step; eauto.
Qed.

Theorem fifo_all_schedules : forall sched, fifo_spec (runD sched) (traceD sched).
Proof.
  intros sched. destruct (InvT_run sched) as [I [T1 [T2 T3]]].
  destruct (inv_C _ I) as [Ctk Cq _ _].
  constructor; auto.
  - rewrite T1, T2, Cq. rewrite <- seq_app. f_equal. lia.
  - rewrite T1. apply seq_NoDup.
Qed.

(* the i-th task to leave the queue is the i-th task submitted *)
Corollary fifo_nth : forall sched i t, nth_error (takes (traceD sched)) i = Some t ->
  nth_error (submits (traceD sched)) i = Some t.
Proof.
  intros sched i t H. rewrite (fifo_queue _ _ (fifo_all_schedules sched)).
  rewrite nth_error_app1; auto. apply nth_error_Some. congruence.
Qed.

(* ---- quiescence and resize ----------------------------------------------------------- *)

Lemma quiescent_parts : forall s, quiescent s = true ->
  lock s = None /\ (forall w pc, In (w, pc) (workers s) -> pc = WWait) /\
  (sd s = SdIdle \/ exists r, sd s = SdDone r).
Proof.
  intros s H. unfold quiescent in H. apply andb_true_iff in H. destruct H as [H H3].
  apply andb_true_iff in H. destruct H as [H1 H2]. split; [apply free_true; auto|]. split.
  - intros w pc Hin. rewrite forallb_forall in H2. specialize (H2 _ Hin). simpl in H2.
    destruct pc; try discriminate; auto.
  - destruct (sd s); try discriminate; eauto.
Qed.

Lemma Inv_quiescent : forall s, Inv s -> quiescent_spec s.
Proof.
  intros s [IA IB IC ID] Hq Hne. apply quiescent_parts in Hq. destruct Hq as [_ [Hw _]].
  assert (E : workers s = []).
  { destruct (workers s) as [|[w pc] ws] eqn:Ew; auto. exfalso.
    assert (Hp : pc = WWait) by (apply (Hw w pc); left; auto). subst pc. rewrite <- Ew in Hw.
    assert (Hin : In (w, WWait) (workers s)) by (rewrite Ew; left; auto).
    assert (Hqw : qwait s <> []).
    { apply (A_qw s IA) in Hin. intro Hc. rewrite Hc in Hin. destruct Hin. }
    pose proof (B_wake s IB Hqw) as Hlen.
    rewrite (cnt_zero is_notified (workers s)) in Hlen.
    - destruct (queue s); [congruence|simpl in Hlen; lia].
    - intros v q Hv. rewrite (Hw v q Hv). auto. }
  split; auto. rewrite <- (A_ths s IA). rewrite E. auto.
Qed.

Lemma Inv_resize : forall s, Inv s -> resize_spec s.
Proof.
  intros s I. pose proof I as [IA IB IC ID]. split; [apply (B_req s IB)|].
  intros Hq. pose proof (quiescent_parts s Hq) as [_ [Hw _]].
  assert (Hl : length (workers s) = length (threads s)).
  { rewrite <- (A_ths s IA). rewrite map_length. auto. }
  assert (Hs : stop_count s = 0).
  { destruct (stop_count s) eqn:Es; auto. exfalso.
    assert (Hz : qwait s = []) by (apply (B_stop s IB); lia).
    destruct (workers s) as [|[w pc] ws] eqn:Ew.
    - pose proof (B_req s IB) as Hr. rewrite <- Hl in Hr. simpl in Hr. lia.
    - assert (Hp : pc = WWait) by (apply (Hw w pc); left; auto). subst pc.
      assert (Hin : In (w, WWait) (workers s)) by (rewrite Ew; left; auto).
      apply (A_qw s IA) in Hin. rewrite Hz in Hin. destruct Hin. }
  split; auto. pose proof (B_req s IB) as Hr. lia.
Qed.

Theorem quiescent_all_schedules : forall sched, quiescent_spec (runD sched).
Proof. intros. apply Inv_quiescent. apply Inv_run. Qed.

Theorem resize_all_schedules : forall sched, resize_spec (runD sched).
Proof. intros. apply Inv_resize. apply Inv_run. Qed.

(* [quiescent] is the right notion: it holds exactly when no thread of the pool can
   move, i.e. every enabled choice is an environment choice *)
Lemma do_work_total : forall w pc s, exists r, do_work w pc s = Some r.
Proof. intros. unfold do_work. destruct (queue s); destruct (stop_count s); eauto. Qed.

Theorem quiescent_char : forall s, Inv s ->
  (quiescent s = true <-> forall c, is_env c = false -> step s c = None).
Proof.
  intros s I. pose proof I as [IA IB IC ID]. pose proof (nodup_ws s IA) as Hnd. split.
  - intros Hq c Hc. destruct (quiescent_parts s Hq) as [Hl [Hw Hs]].
    destruct c; simpl in Hc; try discriminate; simpl.
    + destruct (free s); auto. destruct (get_pc w (workers s)) as [pc|] eqn:Eg; auto.
      apply get_pc_In in Eg; auto. rewrite (Hw w pc Eg). auto.
    + destruct (free s); auto. destruct (get_pc w (workers s)) as [pc|] eqn:Eg; auto.
      apply get_pc_In in Eg; auto. rewrite (Hw w pc Eg). auto.
    + destruct (get_pc w (workers s)) as [pc|] eqn:Eg; auto.
      apply get_pc_In in Eg; auto. rewrite (Hw w pc Eg). auto.
    + unfold do_sd. destruct Hs as [Hs|[r Hs]]; rewrite Hs; auto.
  - intros H.
    assert (Hsd : sd s = SdIdle \/ exists r, sd s = SdDone r).
    { destruct (sd s) eqn:Esd; eauto; exfalso.
      - pose proof (H (CSd true) eq_refl) as H1. simpl in H1. unfold do_sd in H1. rewrite Esd in H1.
        assert (Hf : free s = true).
        { unfold free. rewrite (A_lock2 s IA); auto. congruence. }
        rewrite Hf in H1. destruct (threads s); destruct (sd_cancel s); discriminate.
      - pose proof (H (CSd true) eq_refl) as H1. simpl in H1. unfold do_sd in H1. rewrite Esd in H1.
        discriminate.
      - pose proof (H (CSd true) eq_refl) as H1. simpl in H1. unfold do_sd in H1. rewrite Esd in H1.
        destruct (queue s); discriminate. }
    assert (Hf : free s = true).
    { unfold free. rewrite (A_lock2 s IA); auto. destruct Hsd as [E|[r E]]; congruence. }
    unfold quiescent. rewrite Hf. simpl. apply andb_true_iff. split.
    + apply forallb_forall. intros [w pc] Hin. simpl.
      pose proof Hin as Hg. apply get_pc_In in Hg; auto.
      destruct pc; auto; exfalso.
      * pose proof (H (CWork w) eq_refl) as H1. simpl in H1. rewrite Hf, Hg in H1.
        destruct (do_work_total w WAcq s) as [r Hr]. congruence.
      * pose proof (H (CWork w) eq_refl) as H1. simpl in H1. rewrite Hf, Hg in H1.
        destruct (do_work_total w WNotified s) as [r Hr]. congruence.
      * pose proof (H (CFinish w false) eq_refl) as H1. simpl in H1. rewrite Hg in H1. discriminate.
    + destruct Hsd as [E|[r E]]; rewrite E; auto.
Qed.

(* ---- shutdown ------------------------------------------------------------------------- *)

Lemma no_ret_notify : forall k s s' l r, notify_q k s = Some (s', l) -> ~ In (LSdReturn r) l.
Proof.
  intros k s s' l r H Hin. unfold notify_q in H. destruct (qwait s).
  - inv H. destruct Hin.
  - destruct (nth_error (n :: l0) k); inv H. destruct Hin as [Hd|[]]. discriminate.
Qed.

Lemma no_ret_add : forall b k s s' l r, do_add b k s = Some (s', l) -> ~ In (LSdReturn r) l.
Proof.
  intros b k s s' l r H Hin. rewrite do_add_eq in H.
  destruct (notify_q k (add_state s)) as [[s2 l2]|] eqn:E; [|discriminate]. inv H.
  destruct Hin as [Hd|Hin]; [discriminate|]. eapply no_ret_notify; eauto.
Qed.

Lemma no_ret_resize : forall n s s' l r, InvA s -> do_resize n s = (s', l) -> ~ In (LSdReturn r) l.
Proof.
  intros n s s' l r IA H Hin. unfold do_resize in H.
  destruct (length (threads s) - stop_count s <? n).
  - destruct (spawn (n - (length (threads s) - stop_count s)) 0 (threads s) (workers s) (active_count s) [])
      as [[[ths ws] act] ls] eqn:Es.
    inv H. apply spawn_spec in Es; [|apply (A_nodup s IA)].
    destruct Es as [new [_ [_ [_ [_ [_ H6]]]]]]. subst. simpl in Hin.
    apply in_map_iff in Hin. destruct Hin as [x [Hx _]]. discriminate.
  - destruct (n <? length (threads s) - stop_count s); inv H; simpl in Hin.
    + destruct Hin as [Hd|[Hd|[]]]; discriminate.
    + destruct Hin.
Qed.

Lemma no_ret_work : forall w pc s s' l r, do_work w pc s = Some (s', l) -> ~ In (LSdReturn r) l.
Proof.
  intros w pc s s' l r H Hin. unfold do_work in H.
  destruct (queue s); destruct (stop_count s); inv H; simpl in Hin;
    try (destruct (xwait s); simpl in Hin); intuition discriminate.
Qed.

(* a return label can only come from the shutdown thread *)
Lemma ret_is_sd : forall s c s' l r, InvA s -> step s c = Some (s', l) -> In (LSdReturn r) l ->
  exists e, c = CSd e /\ do_sd e s = Some (s', l).
Proof.
  intros s c s' l r IA H Hin. destruct c; simpl in H.
  - destruct (free s); [|discriminate]. exfalso. eapply no_ret_add; eauto.
  - destruct (free s); [|discriminate]. inv H. exfalso. eapply no_ret_resize; eauto.
  - destruct (free s); [|discriminate].
    destruct (get_pc w (workers s)) as [[]|]; try discriminate; exfalso; eapply no_ret_work; eauto.
  - destruct (free s); [|discriminate].
    destruct (get_pc w (workers s)) as [[]|]; try discriminate. exfalso. eapply no_ret_add; eauto.
  - destruct (get_pc w (workers s)) as [[]|]; try discriminate. inv H.
    destruct Hin as [Hd|[]]. discriminate.
  - destruct (free s); [|discriminate]. destruct (sd s); try discriminate.
    destruct (do_resize 0 s) as [s1 ls] eqn:Er. inv H.
    destruct Hin as [Hd|Hin]; [discriminate|]. exfalso. eapply no_ret_resize; eauto.
  - eauto.
Qed.

Theorem shutdown_true_step : forall s c s' l, Inv s -> step s c = Some (s', l) -> shutdown_true_spec s' l.
Proof.
  intros s c s' l I H Hin. pose proof (Inv_step _ _ _ _ I H) as I'.
  destruct (ret_is_sd _ _ _ _ _ (inv_A s I) H Hin) as [e [Ec Hsd]].
  assert (Hs' : sd s' = SdDone true /\ queue s' = []).
  { unfold do_sd in Hsd. destruct (sd s); try discriminate.
    - destruct (free s); [|discriminate].
      destruct (threads s); [|destruct e]; destruct (sd_cancel s); inv Hsd; simpl in Hin;
        intuition discriminate.
    - inv Hsd. simpl in Hin. intuition discriminate.
    - destruct (queue s); inv Hsd; simpl in Hin; [auto|intuition discriminate]. }
  destruct Hs' as [S1 S2]. split; auto.
  intros t Ht. destruct (D_done s' (inv_D s' I') S1 t Ht) as [C1 C2].
  pose proof (C_led s' (inv_C s' I') t C1) as Hok.
  unfold led_ok, led_ok_at, linfo, st, cnc, svc, info in *. rewrite C2 in Hok. tauto.
Qed.

Theorem shutdown_false_step : forall s c s' l, Inv s -> step s c = Some (s', l) -> shutdown_false_spec s s' l.
Proof.
  intros s c s' l I H Hin.
  destruct (ret_is_sd _ _ _ _ _ (inv_A s I) H Hin) as [e [Ec Hsd]].
  unfold do_sd in Hsd. destruct (sd s); try discriminate.
  - destruct (free s); [|discriminate].
    destruct (threads s); [|destruct e]; destruct (sd_cancel s) eqn:Ecp; inv Hsd; simpl in Hin;
      try (intuition discriminate); simpl; auto.
  - inv Hsd. simpl in Hin. intuition discriminate.
  - destruct (queue s); inv Hsd; simpl in Hin; intuition discriminate.
Qed.

Theorem shutdown_snap_step : forall s c s' l, Inv s -> step s c = Some (s', l) -> shutdown_snap_spec s c s'.
Proof.
  intros s c s' l I H. pose proof (inv_A s I) as IA. split.
  - intros Hn Hc. destruct c; simpl in H.
    + destruct (free s); [|discriminate].
      destruct (do_add_frame _ _ _ _ _ IA H) as [_ [_ [_ [F4 _]]]]. congruence.
    + destruct (free s); [|discriminate]. inv H.
      destruct (do_resize_frame _ _ _ _ H1) as [F1 _]. congruence.
    + destruct (free s); [|discriminate].
      destruct (get_pc w (workers s)) as [[]|]; try discriminate;
        destruct (do_work_frame _ _ _ _ _ H) as [_ [F|F]]; congruence.
    + destruct (free s); [|discriminate].
      destruct (get_pc w (workers s)) as [[]|]; try discriminate.
      destruct (do_add_frame _ _ _ _ _ IA H) as [_ [_ [_ [F4 _]]]]. congruence.
    + destruct (get_pc w (workers s)) as [[]|]; try discriminate. inv H. simpl in Hc. congruence.
    + destruct (free s); [|discriminate]. destruct (sd s); try discriminate.
      destruct (do_resize 0 s) as [s1 ls]. inv H. simpl in Hc. discriminate.
    + unfold do_sd in H. destruct (sd s); try discriminate; try congruence.
      * destruct (free s); [|discriminate].
        destruct (threads s); [|destruct expired]; destruct (sd_cancel s); inv H; simpl in *;
          try discriminate; auto.
      * inv H. simpl in Hc. discriminate.
  - intros Hc.
    assert (Hf : free s = false).
    { unfold free. rewrite (A_lock1 s IA Hc). auto. }
    destruct c; simpl in H; rewrite ?Hf in H; try discriminate.
    + destruct (get_pc w (workers s)) as [[]|]; try discriminate. inv H. simpl. auto.
    + unfold do_sd in H. rewrite Hc in H. destruct (queue s) as [|t q] eqn:Eq; inv H; simpl.
      * auto.
      * split; auto. right. exists t, expired. auto.
Qed.

Theorem no_worker_step : forall s c s' l, Inv s -> step s c = Some (s', l) -> no_worker_spec s l.
Proof.
  intros s c s' l I H Hw.
  destruct (step_kind_of s c s' l (inv_A s I) (inv_C s I) H)
    as [[Q1 [Q2 Q3]] K2 K3 | K1 K2 K3 K4 K5 | w Kc Kw K1 K2 K3 K4 K5 | K1 K2 K3 K4 K5]; auto.
  rewrite Hw in Kw. destruct Kw.
Qed.

(* with no worker alive the queued tasks stay queued, whatever happens, until
   set_thread_count is called again or shutdown cancels them *)
Theorem stranded_step : forall s c s' l, Inv s -> step s c = Some (s', l) -> workers s = [] ->
  (forall n, c <> CResize n) -> (forall e, c <> CSd e) ->
  forall t, In t (queue s) -> In t (queue s') /\ st s' t = Queued.
Proof.
  intros s c s' l I H Hw Hr Hs t Hin.
  pose proof (Inv_step _ _ _ _ I H) as I'. pose proof (Inv_once s' I') as O'.
  assert (Hq : In t (queue s')).
  { pose proof (inv_A s I) as IA. destruct c; simpl in H.
    - destruct (free s); [|discriminate].
      destruct (do_add_frame _ _ _ _ _ IA H) as [_ [_ [F3 _]]]. rewrite F3. apply in_or_app; auto.
    - exfalso. eapply Hr; eauto.
    - rewrite Hw in H. simpl in H. destruct (free s); discriminate.
    - rewrite Hw in H. simpl in H. destruct (free s); discriminate.
    - rewrite Hw in H. simpl in H. discriminate.
    - destruct (free s); [|discriminate]. destruct (sd s); try discriminate.
      destruct (do_resize 0 s) as [s1 ls] eqn:Er. inv H. simpl.
      destruct (do_resize_frame _ _ _ _ Er) as [_ [_ [_ [F4 _]]]]. congruence.
    - exfalso. eapply Hs; eauto. }
  split; auto. apply (once_queued s' O'); auto. apply (once_queue_submitted s' O'); auto.
Qed.

(* ---- the statements of Props/C14.v ------------------------------------------------------ *)

Theorem quiescent_char_all_schedules : forall sched,
  quiescent (runD sched) = true <-> (forall c, is_env c = false -> step (runD sched) c = None).
Proof. intros sched. apply quiescent_char. apply Inv_run. Qed.

Theorem shutdown_all_schedules : forall sched c s' l, step (runD sched) c = Some (s', l) ->
  shutdown_true_spec s' l /\ shutdown_snap_spec (runD sched) c s' /\
  shutdown_false_spec (runD sched) s' l /\ no_worker_spec (runD sched) l.
Proof.
  intros sched c s' l H. pose proof (Inv_run sched) as I.
  split. eapply shutdown_true_step; eauto.
  split. eapply shutdown_snap_step; eauto.
  split. eapply shutdown_false_step; eauto.
  eapply no_worker_step; eauto.
Qed.

Theorem stranded_all_schedules : forall sched c s' l,
  step (runD sched) c = Some (s', l) -> workers (runD sched) = [] ->
  (forall n, c <> CResize n) -> (forall e, c <> CSd e) ->
  forall t, In t (queue (runD sched)) -> In t (queue s') /\ st s' t = Queued.
Proof. intros sched c s' l H. eapply stranded_step; eauto. apply Inv_run. Qed.

(* the meaning of the four shared variables, in every reachable state *)
Definition bookkeeping_spec (s : state) : Prop :=
  map fst (workers s) = threads s /\ NoDup (threads s) /\
  active_count s = Z.of_nat (cnt is_active (workers s)) /\
  length (threads s) = requested s + stop_count s /\
  (stop_count s > 0 -> qwait s = []) /\
  (forall w, In w (qwait s) <-> In (w, WWait) (workers s)) /\
  (lock s = None <-> sd s <> SdCancel).

Theorem bookkeeping_all_schedules : forall sched, bookkeeping_spec (runD sched).
Proof.
  intros sched. destruct (Inv_run sched) as [IA IB _ _]. unfold bookkeeping_spec.
  split. apply (A_ths _ IA). split. apply (A_nodup _ IA). split. apply (B_act _ IB).
  split. apply (B_req _ IB). split. apply (B_stop _ IB). split. apply (A_qw _ IA).
  split.
  - intros Hl Hc. apply (A_lock1 _ IA) in Hc. congruence.
  - apply (A_lock2 _ IA).
Qed.
