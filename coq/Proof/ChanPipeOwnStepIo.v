(* Proof/ChanPipeOwnStepIo.v -- L1 is preserved by the steps of the I/O thread. *)
From Coq Require Import List Arith Bool ZArith Lia.
From WV Require Import Model.ChanPipe Proof.ChanPipeBase Proof.ChanPipeOwn Proof.ChanPipeOwnTac.
Import ListNotations.

Section Step.
Variable P : params.

Theorem L1_step_io : forall st e st' l, L0 st -> L1 st -> step P st (CIo e) = Some (st', l) -> L1 st'.
Proof.
  intros st e st' l HL0 HL1 Hs.
  pose proof (io_rl_empty_no_owner st HL0 HL1) as Hemp.
  step_io Hs; cbn [sh io wk ipc] in *.
    all: try (frame_io HL1).
    all: destruct HL1 as [Hu Hq Hqo Hqr Hor Hcv Hc2 Hsc Hat Hh]; l0_facts HL0; cbn [sh io wk ipc] in *.
    all: split; cbn [sh io wk ipc io_handing is_atacq]; intros.
    all: fin.
Qed.
End Step.
