(* C20: the equivalence half.  The runner form of an option (through
   getopt, Adjustments.parse_args and runner.run's clean-up) denotes the same
   Adjustments as the keyword form -- for every parameter of the generated
   _params table and for EVERY value string. *)
From Coq Require Import List NArith ZArith Bool Lia.
From WV Require Import Lib.PyBytes Gen.GenAdjust Model.Adjust Proof.AdjustSpec Proof.AdjustChecks
  Proof.AdjustLists.
Import ListNotations.
Local Open Scope N_scope.

(* ---- dictionaries ---- *)
Section DictLemmas.
  Context {V : Type}.
  Definition has_key (k : str) (d : list (str * V)) : bool :=
    match dict_get k d with Some _ => true | None => false end.

  Lemma dict_set_fresh : forall k (v : V) d, dict_get k d = None -> dict_set k v d = d ++ [(k, v)].
  Proof.
    induction d as [|[k' v'] d IH]; intro H; [reflexivity|].
    cbn [dict_get] in H. cbn [dict_set app]. destruct (beqb k k'); [discriminate|].
    rewrite IH by assumption. reflexivity.
  Qed.

  Lemma dict_get_app_l : forall k d (d' : list (str * V)), has_key k d = true ->
    dict_get k (d ++ d') = dict_get k d.
  Proof.
    unfold has_key. induction d as [|[k' v'] d IH]; intros d' H; [discriminate|].
    cbn [dict_get app] in *. destruct (beqb k k'); [reflexivity|]. apply IH. exact H.
  Qed.

  Lemma dict_set_app_l : forall k (v : V) d d', has_key k d = true ->
    dict_set k v (d ++ d') = dict_set k v d ++ d'.
  Proof.
    unfold has_key. induction d as [|[k' v'] d IH]; intros d' H; [discriminate|].
    cbn [dict_get dict_set app] in *. destruct (beqb k k'); [reflexivity|].
    rewrite IH by assumption. reflexivity.
  Qed.

  Lemma dict_del_app_l : forall k d (d' : list (str * V)), has_key k d = true ->
    dict_del k (d ++ d') = dict_del k d ++ d'.
  Proof.
    unfold has_key. induction d as [|[k' v'] d IH]; intros d' H; [discriminate|].
    cbn [dict_get dict_del app] in *. destruct (beqb k k'); [reflexivity|].
    rewrite IH by assumption. reflexivity.
  Qed.
End DictLemmas.

(* ---- getopt ---- *)
Lemma startswith_nil : forall s, startswith s [] = true.
Proof. destruct s; reflexivity. Qed.

Lemma find_from_eq_first : forall name v i, memb 61 name = false ->
  find_from (name ++ 61 :: v) [61] i = Some (i + length name)%nat.
Proof.
  induction name as [|x name IH]; intros v i H.
  - cbn [app find_from startswith]. rewrite N.eqb_refl, startswith_nil. cbn [andb length]. f_equal. lia.
  - cbn [memb existsb] in H. apply orb_false_iff in H as [Hx H].
    cbn [app find_from startswith]. rewrite Hx. cbn [andb].
    fold (memb 61 name) in H. rewrite IH by exact H. f_equal. cbn [length]. lia.
Qed.

Lemma find_from_none : forall name i, memb 61 name = false -> find_from name [61] i = None.
Proof.
  induction name as [|x name IH]; intros i H; [reflexivity|].
  cbn [memb existsb] in H. apply orb_false_iff in H as [Hx H].
  cbn [find_from startswith]. rewrite Hx. cbn [andb]. apply IH. exact H.
Qed.

Lemma firstn_length_app : forall {A} (a b : list A), firstn (length a) (a ++ b) = a.
Proof. induction a; intro b; cbn; [reflexivity|]. f_equal. apply IHa. Qed.
Lemma skipn_S_length_app : forall {A} (a : list A) x b, skipn (S (length a)) (a ++ x :: b) = b.
Proof. induction a; intros x b; cbn; [reflexivity|]. apply IHa. Qed.

(* --name=v *)
Lemma do_longs_eq : forall name v lo args, memb 61 name = false ->
  do_longs (name ++ 61 :: v) lo args =
  match long_has_args name lo with
  | Exn e => Exn e
  | Ok (true, o) => Ok ((dashdash ++ o, v), args)
  | Ok (false, _) => Exn GetoptError
  end.
Proof.
  intros name v lo args H. unfold do_longs, find. rewrite find_from_eq_first by exact H.
  cbn [plus]. rewrite firstn_length_app, skipn_S_length_app.
  destruct (long_has_args name lo) as [[[] o]|e]; reflexivity.
Qed.

(* --name [next argument] *)
Lemma do_longs_plain : forall name lo args, memb 61 name = false ->
  do_longs name lo args =
  match long_has_args name lo with
  | Exn e => Exn e
  | Ok (true, o) => match args with [] => Exn GetoptError | a :: r => Ok ((dashdash ++ o, a), r) end
  | Ok (false, o) => Ok ((dashdash ++ o, []), args)
  end.
Proof.
  intros name lo args H. unfold do_longs, find. rewrite find_from_none by exact H.
  destruct (long_has_args name lo) as [[[] o]|e]; reflexivity.
Qed.

Lemma getopt_go_long : forall f body rest lo opts, nonempty body = true ->
  getopt_go (S f) ((dashdash ++ body) :: rest) lo opts =
  match do_longs body lo rest with
  | Exn e => Exn e
  | Ok (o, args') => getopt_go f args' lo (o :: opts)
  end.
Proof.
  intros f [|b body] rest lo opts H; [discriminate|]. reflexivity.
Qed.

Lemma getopt_go_stop : forall f a rest lo opts, startswith a [45] = false ->
  getopt_go (S f) (a :: rest) lo opts = Ok (rev opts, a :: rest).
Proof. intros f a rest lo opts H. cbn [getopt_go]. rewrite H. reflexivity. Qed.

Definition opt_eq (name v : str) : str := dashdash ++ name ++ 61 :: v.   (* --name=v *)
Definition opt_plain (name : str) : str := dashdash ++ name.             (* --name *)

Lemma nonempty_app_cons : forall (a : str) x b, nonempty (a ++ x :: b) = true.
Proof. intros [|y a] x b; reflexivity. Qed.

Lemma getopt_go_eq_step : forall f name v rest lo opts o, memb 61 name = false ->
  long_has_args name lo = Ok (true, o) ->
  getopt_go (S f) (opt_eq name v :: rest) lo opts = getopt_go f rest lo ((dashdash ++ o, v) :: opts).
Proof.
  intros f name v rest lo opts o Hm Hl. unfold opt_eq.
  rewrite getopt_go_long by apply nonempty_app_cons.
  rewrite do_longs_eq by exact Hm. rewrite Hl. reflexivity.
Qed.

Lemma getopt_go_sep_step : forall f name v rest lo opts o, memb 61 name = false -> nonempty name = true ->
  long_has_args name lo = Ok (true, o) ->
  getopt_go (S f) (opt_plain name :: v :: rest) lo opts = getopt_go f rest lo ((dashdash ++ o, v) :: opts).
Proof.
  intros f name v rest lo opts o Hm Hn Hl. unfold opt_plain.
  rewrite getopt_go_long by exact Hn.
  rewrite do_longs_plain by exact Hm. rewrite Hl. reflexivity.
Qed.

Lemma getopt_go_flag_step : forall f name rest lo opts o, memb 61 name = false -> nonempty name = true ->
  long_has_args name lo = Ok (false, o) ->
  getopt_go (S f) (opt_plain name :: rest) lo opts = getopt_go f rest lo ((dashdash ++ o, []) :: opts).
Proof.
  intros f name rest lo opts o Hm Hn Hl. unfold opt_plain.
  rewrite getopt_go_long by exact Hn.
  rewrite do_longs_plain by exact Hm. rewrite Hl. reflexivity.
Qed.

(* the fuel of getopt is always enough *)
Lemma long_has_args_exn : forall opt lo e, long_has_args opt lo = Exn e -> e = GetoptError.
Proof.
  intros opt lo e. unfold long_has_args. cbv zeta.
  match goal with |- context [filter ?f lo] => destruct (filter f lo) as [|u [|u2 l]] end; intro H.
  - injection H; auto.
  - destruct (memstr _ _); [discriminate|]. destruct (memstr _ _); [discriminate|].
    destruct (endswith _ _); discriminate.
  - destruct (memstr _ _); [discriminate|]. destruct (memstr _ _); [discriminate|].
    injection H; auto.
Qed.

Lemma do_longs_shape : forall body lo args,
  match do_longs body lo args with
  | Exn e => e = GetoptError
  | Ok (_, args') => (length args' <= length args)%nat
  end.
Proof.
  intros body lo args. unfold do_longs.
  destruct (find body [61]) as [i|].
  - destruct (long_has_args _ lo) as [[[] o]|e] eqn:E; cbn; try lia; try reflexivity.
    eapply long_has_args_exn; eassumption.
  - destruct (long_has_args _ lo) as [[[] o]|e] eqn:E; cbn; try lia; try reflexivity.
    + destruct args; cbn; [reflexivity|lia].
    + eapply long_has_args_exn; eassumption.
Qed.

Lemma getopt_go_fuel : forall fuel args lo opts, (length args < fuel)%nat ->
  getopt_go fuel args lo opts <> Exn OutOfFuel.
Proof.
  induction fuel as [|f IH]; intros args lo opts H; [lia|].
  cbn [getopt_go]. destruct args as [|a rest]; [discriminate|].
  destruct (startswith a [45] && negb (beqb a [45])); [|discriminate].
  destruct (beqb a dashdash); [discriminate|].
  destruct (startswith a dashdash); [|discriminate].
  pose proof (do_longs_shape (skipn 2 a) lo rest) as S.
  destruct (do_longs (skipn 2 a) lo rest) as [[o args']|e].
  - apply IH. cbn [length] in H. lia.
  - subst e. discriminate.
Qed.

Theorem getopt_fuel_enough : forall args lo, getopt args lo <> Exn OutOfFuel.
Proof. intros. unfold getopt. apply getopt_go_fuel. lia. Qed.

(* ---- the facts about each parameter that the equivalence needs, decided by computation ---- *)
Definition true_s : str := [116;114;117;101].
Definition false_s : str := [102;97;108;115;101].

Definition lha_is (r : outcome (bool * str)) (b : bool) (o : str) : bool :=
  match r with Ok (b', o') => Bool.eqb b b' && beqb o o' | Exn _ => false end.
Lemma lha_is_eq : forall r b o, lha_is r b o = true -> r = Ok (b, o).
Proof.
  intros [[b' o']|e] b o H; [|discriminate]. cbn in H. apply andb_true_iff in H as [H1 H2].
  apply Bool.eqb_prop in H1. apply beqb_eq in H2. subst. reflexivity.
Qed.

Definition action_eqb (a b : cli_action) : bool :=
  match a, b with
  | ActAccum s d, ActAccum s' d' => beqb s s' && beqb d d'
  | ActStripPrefix n v, ActStripPrefix n' v' => Nat.eqb n n' && beqb v v'
  | ActSetTrue, ActSetTrue | ActApp, ActApp | ActValue, ActValue => true
  | ActConst v, ActConst v' => beqb v v'
  | _, _ => false
  end.
Lemma action_eqb_eq : forall a b, action_eqb a b = true -> a = b.
Proof.
  intros [] []; cbn; intro H; try discriminate; try reflexivity.
  - apply andb_true_iff in H as [H1 H2]. apply beqb_eq in H1, H2. subst. reflexivity.
  - apply andb_true_iff in H as [H1 H2]. apply Nat.eqb_eq in H1. apply beqb_eq in H2. subst. reflexivity.
  - apply beqb_eq in H. subst. reflexivity.
Qed.
Definition action_is (r : option cli_action) (a : cli_action) : bool :=
  match r with Some a' => action_eqb a' a | None => false end.
Lemma action_is_eq : forall r a, action_is r a = true -> r = Some a.
Proof. intros [a'|] a H; [|discriminate]. apply action_eqb_eq in H. subst. reflexivity. Qed.

Definition castof_is (p : str) (c : cast) : bool :=
  match castof p with Some c' => cast_eqb c' c | None => false end.
Lemma castof_is_eq : forall p c, castof_is p c = true -> castof p = Some c.
Proof.
  unfold castof_is. intros p c H. destruct (castof p) as [c'|]; [|discriminate].
  destruct c', c; try discriminate; reflexivity.
Qed.

Definition fresh_key (p : str) : bool := negb (has_key p initial_kw).

Definition cli_param_ok (pc : str * cast) : bool :=
  let p := fst pc in let c := snd pc in let m := cli_mangle p in
  negb (memb 61 m) && nonempty m && fresh_key p && castof_is p c
  && beqb (cli_unmangle (dashdash ++ m)) p
  && if cast_eqb c CBool then
       lha_is (long_has_args m cli_long_opts) false m
       && lha_is (long_has_args (no_dash_prefix ++ m) cli_long_opts) false (no_dash_prefix ++ m)
       && beqb (cli_unmangle (dashdash ++ no_dash_prefix ++ m)) (no_underscore_prefix ++ p)
       && action_is (cli_classify castof p) (ActConst true_s)
       && action_is (cli_classify castof (no_underscore_prefix ++ p)) (ActStripPrefix 3 false_s)
     else
       lha_is (long_has_args m cli_long_opts) true m
       && action_is (cli_classify castof p) (if beqb p k_listen then ActAccum [32] [] else ActValue).

Lemma cli_params_bool : forallb cli_param_ok params = true.
Proof. vm_compute. reflexivity. Qed.

Lemma fresh_key_none : forall p, fresh_key p = true -> dict_get p initial_kw = None.
Proof.
  unfold fresh_key, has_key. intros p H. destruct (dict_get p initial_kw); [discriminate|reflexivity].
Qed.

(* ---- from parse_args' dictionary to Adjustments, for any tail of real options ---- *)
Lemma kw_help_false : forall t, kw_flag k_help (initial_kw ++ t) = false.
Proof. intro t. unfold kw_flag. rewrite dict_get_app_l by reflexivity. reflexivity. Qed.
Lemma kw_call_false : forall t, kw_flag k_call (initial_kw ++ t) = false.
Proof. intro t. unfold kw_flag. rewrite dict_get_app_l by reflexivity. reflexivity. Qed.

(* parse_args' epilogue (positional application, del kw["call"]) followed by
   runner.run's clean-up (del kw["help"], kw["app"]) leaves exactly the options *)
Lemma epilogue : forall e argv opts t app,
  getopt argv cli_long_opts = Ok (opts, [app]) ->
  pa_loop opts initial_kw None = Ok (initial_kw ++ t, None) ->
  cli_construct e argv = lift Some (construct e t).
Proof.
  intros e argv opts t app Hg Hp.
  assert (P : parse_args argv = Ok ([(k_help, VBool false); (k_app, VApp app false)] ++ t)).
  { unfold parse_args. rewrite Hg, Hp. rewrite kw_help_false. cbn [negb].
    rewrite kw_call_false. rewrite dict_set_app_l by reflexivity.
    rewrite dict_del_app_l by reflexivity. reflexivity. }
  unfold cli_construct. rewrite P. reflexivity.
Qed.

Lemma construct_cast_eq : forall e k c v v', castof k = Some c ->
  cast_value c v = cast_value c v' -> construct e [(k, v)] = construct e [(k, v')].
Proof.
  intros e k c v v' Hc H. unfold construct. cbn [map fst assign_loop]. rewrite Hc, H. reflexivity.
Qed.

Lemma cast_list_str : forall s, cast_value CList (VStr s) = Ok (SList (aslist_str s)).
Proof. reflexivity. Qed.

Lemma castof_listen : castof k_listen = Some CList.
Proof. vm_compute. reflexivity. Qed.

Lemma cast_eqb_true : forall c, cast_eqb c CBool = true -> c = CBool.
Proof. intros [] H; try discriminate; reflexivity. Qed.

Lemma memb_app : forall x (a b : str), memb x (a ++ b) = memb x a || memb x b.
Proof. intros. unfold memb. apply existsb_app. Qed.

Section PerParam.
  Variables (p : str) (c : cast).
  Hypothesis Hin : In (p, c) params.
  Let m := cli_mangle p.

  Lemma param_facts : memb 61 m = false /\ nonempty m = true /\ dict_get p initial_kw = None
    /\ castof p = Some c /\ cli_unmangle (dashdash ++ m) = p.
  Proof.
    pose proof (proj1 (forallb_forall _ _) cli_params_bool (p, c) Hin) as K.
    unfold cli_param_ok in K. cbn [fst snd] in K. fold m in K.
    apply andb_true_iff in K as [K _].
    apply andb_true_iff in K as [K K5]. apply andb_true_iff in K as [K K4].
    apply andb_true_iff in K as [K K3]. apply andb_true_iff in K as [K1 K2].
    apply negb_true_iff in K1. apply beqb_eq in K5. apply castof_is_eq in K4.
    apply fresh_key_none in K3. auto.
  Qed.

  Lemma value_facts : cast_eqb c CBool = false ->
    long_has_args m cli_long_opts = Ok (true, m)
    /\ cli_classify castof p = Some (if beqb p k_listen then ActAccum [32] [] else ActValue).
  Proof.
    intro Hc. pose proof (proj1 (forallb_forall _ _) cli_params_bool (p, c) Hin) as K.
    unfold cli_param_ok in K. cbn [fst snd] in K. fold m in K. rewrite Hc in K.
    apply andb_true_iff in K as [_ K]. apply andb_true_iff in K as [L A].
    apply lha_is_eq in L. apply action_is_eq in A. auto.
  Qed.

  Lemma flag_facts : cast_eqb c CBool = true ->
    long_has_args m cli_long_opts = Ok (false, m)
    /\ long_has_args (no_dash_prefix ++ m) cli_long_opts = Ok (false, no_dash_prefix ++ m)
    /\ cli_unmangle (dashdash ++ no_dash_prefix ++ m) = no_underscore_prefix ++ p
    /\ cli_classify castof p = Some (ActConst true_s)
    /\ cli_classify castof (no_underscore_prefix ++ p) = Some (ActStripPrefix 3 false_s).
  Proof.
    intro Hc. pose proof (proj1 (forallb_forall _ _) cli_params_bool (p, c) Hin) as K.
    unfold cli_param_ok in K. cbn [fst snd] in K. fold m in K. rewrite Hc in K.
    apply andb_true_iff in K as [_ K].
    apply andb_true_iff in K as [K A2]. apply andb_true_iff in K as [K A1].
    apply andb_true_iff in K as [K U]. apply andb_true_iff in K as [L1 L2].
    apply lha_is_eq in L1, L2. apply beqb_eq in U. apply action_is_eq in A1, A2. auto.
  Qed.

  (* the dictionary after the option loop, for a value option given once *)
  Lemma pa_loop_value : forall v, cast_eqb c CBool = false ->
    exists v', pa_loop [(dashdash ++ m, v)] initial_kw None = Ok (initial_kw ++ [(p, VStr v')], None)
               /\ forall e, construct e [(p, VStr v')] = construct e [(p, VStr v)].
  Proof.
    intros v Hc. destruct param_facts as [K1 [K2 [K3 [K4 K5]]]]. destruct (value_facts Hc) as [L A].
    cbn [pa_loop]. rewrite K5, A. destruct (beqb p k_listen) eqn:El.
    - exists (32 :: v). rewrite K3. cbn [pa_loop app]. rewrite dict_set_fresh by exact K3.
      split; [reflexivity|]. intro e. apply beqb_eq in El.
      assert (c = CList) by (rewrite El, castof_listen in K4; injection K4; auto). subst c.
      apply construct_cast_eq with (c := CList); [exact K4|].
      rewrite !cast_list_str. rewrite aslist_str_cons_sep by reflexivity. reflexivity.
    - exists v. cbn [pa_loop]. rewrite dict_set_fresh by exact K3. split; reflexivity.
  Qed.

  (* --name=v *)
  Theorem cli_value_eq : forall e v app, cast_eqb c CBool = false -> startswith app [45] = false ->
    cli_construct e [opt_eq m v; app] = lift Some (construct e [(p, VStr v)]).
  Proof.
    intros e v app Hc Happ. destruct param_facts as [K1 [K2 _]]. destruct (value_facts Hc) as [L _].
    destruct (pa_loop_value v Hc) as [v' [P E]].
    rewrite <- E. apply epilogue with (opts := [(dashdash ++ m, v)]) (app := app); [|exact P].
    unfold getopt. cbn [length]. rewrite (getopt_go_eq_step _ m v [app] _ [] m K1 L).
    rewrite getopt_go_stop by exact Happ. reflexivity.
  Qed.

  (* --name v *)
  Theorem cli_value_sep : forall e v app, cast_eqb c CBool = false -> startswith app [45] = false ->
    cli_construct e [opt_plain m; v; app] = lift Some (construct e [(p, VStr v)]).
  Proof.
    intros e v app Hc Happ. destruct param_facts as [K1 [K2 _]]. destruct (value_facts Hc) as [L _].
    destruct (pa_loop_value v Hc) as [v' [P E]].
    rewrite <- E. apply epilogue with (opts := [(dashdash ++ m, v)]) (app := app); [|exact P].
    unfold getopt. cbn [length]. rewrite (getopt_go_sep_step _ m v [app] _ [] m K1 K2 L).
    rewrite getopt_go_stop by exact Happ. reflexivity.
  Qed.

  (* --name *)
  Theorem cli_flag_on : forall e app, cast_eqb c CBool = true -> startswith app [45] = false ->
    cli_construct e [opt_plain m; app] = lift Some (construct e [(p, VBool true)]).
  Proof.
    intros e app Hc Happ. destruct param_facts as [K1 [K2 [K3 [K4 K5]]]].
    destruct (flag_facts Hc) as [L1 [L2 [U [A1 A2]]]].
    pose proof (cast_eqb_true _ Hc) as Ec.
    rewrite <- (construct_cast_eq e p c (VStr true_s) (VBool true) K4) by (rewrite Ec; reflexivity).
    apply epilogue with (opts := [(dashdash ++ m, [])]) (app := app).
    - unfold getopt. cbn [length]. rewrite (getopt_go_flag_step _ m [app] _ [] m K1 K2 L1).
      rewrite getopt_go_stop by exact Happ. reflexivity.
    - cbn [pa_loop]. rewrite K5, A1. cbn [pa_loop]. rewrite dict_set_fresh by exact K3. reflexivity.
  Qed.

  (* --no-name *)
  Theorem cli_flag_off : forall e app, cast_eqb c CBool = true -> startswith app [45] = false ->
    cli_construct e [opt_plain (no_dash_prefix ++ m); app] = lift Some (construct e [(p, VBool false)]).
  Proof.
    intros e app Hc Happ. destruct param_facts as [K1 [K2 [K3 [K4 K5]]]].
    destruct (flag_facts Hc) as [L1 [L2 [U [A1 A2]]]].
    pose proof (cast_eqb_true _ Hc) as Ec.
    rewrite <- (construct_cast_eq e p c (VStr false_s) (VBool false) K4) by (rewrite Ec; reflexivity).
    apply epilogue with (opts := [(dashdash ++ no_dash_prefix ++ m, [])]) (app := app).
    - unfold getopt. cbn [length].
      rewrite (getopt_go_flag_step _ (no_dash_prefix ++ m) [app] _ [] (no_dash_prefix ++ m)).
      + rewrite getopt_go_stop by exact Happ. reflexivity.
      + rewrite memb_app, K1. reflexivity.
      + reflexivity.
      + exact L2.
    - cbn [pa_loop]. rewrite U, A2. cbn [pa_loop].
      change (skipn 3 (no_underscore_prefix ++ p)) with p.
      rewrite dict_set_fresh by exact K3. reflexivity.
  Qed.
End PerParam.

(* ---- --listen given several times ---- *)
Definition ml : str := cli_mangle k_listen.

Lemma listen_facts : memb 61 ml = false /\ long_has_args ml cli_long_opts = Ok (true, ml)
  /\ cli_unmangle (dashdash ++ ml) = k_listen
  /\ cli_classify castof k_listen = Some (ActAccum [32] [])
  /\ dict_get k_listen initial_kw = None.
Proof. repeat split; vm_compute; reflexivity. Qed.

Lemma getopt_listen_many : forall ap vs opts fuel, startswith ap [45] = false ->
  (length vs < fuel)%nat ->
  getopt_go fuel (map (opt_eq ml) vs ++ [ap]) cli_long_opts opts
  = Ok (rev opts ++ map (fun v => (dashdash ++ ml, v)) vs, [ap]).
Proof.
  intros ap. destruct listen_facts as [K1 [L _]].
  induction vs as [|v vs IH]; intros opts fuel Happ Hf.
  - destruct fuel as [|f]; [lia|]. cbn [map app]. rewrite getopt_go_stop by exact Happ.
    rewrite app_nil_r. reflexivity.
  - destruct fuel as [|f]; [cbn in Hf; lia|]. cbn [map app].
    rewrite (getopt_go_eq_step f ml v _ _ opts ml K1 L).
    rewrite IH by (try exact Happ; cbn [length] in Hf; lia).
    cbn [rev]. rewrite <- app_assoc. reflexivity.
Qed.

Section DictLast.
  Context {V : Type}.
  Lemma dict_get_last : forall k (x : V) d, dict_get k d = None -> dict_get k (d ++ [(k, x)]) = Some x.
  Proof.
    induction d as [|[k' v'] d IH]; intro H; cbn [app dict_get] in *.
    - rewrite beqb_refl. reflexivity.
    - destruct (beqb k k'); [discriminate|]. apply IH. exact H.
  Qed.
  Lemma dict_set_last : forall k (x v : V) d, dict_get k d = None ->
    dict_set k v (d ++ [(k, x)]) = d ++ [(k, v)].
  Proof.
    induction d as [|[k' v'] d IH]; intro H; cbn [app dict_get dict_set] in *.
    - rewrite beqb_refl. reflexivity.
    - destruct (beqb k k'); [discriminate|]. rewrite IH by exact H. reflexivity.
  Qed.
End DictLast.

Lemma pa_loop_listen_more : forall vs acc,
  pa_loop (map (fun v => (dashdash ++ ml, v)) vs) (initial_kw ++ [(k_listen, VStr acc)]) None
  = Ok (initial_kw ++ [(k_listen, VStr (fold_left (fun a v => a ++ [32] ++ v) vs acc))], None).
Proof.
  destruct listen_facts as [_ [_ [U [A F]]]].
  induction vs as [|v vs IH]; intro acc; [reflexivity|].
  cbn [map pa_loop]. rewrite U, A. rewrite dict_get_last by exact F. cbn [py_str].
  rewrite dict_set_last by exact F. rewrite IH. reflexivity.
Qed.

Lemma pa_loop_listen_many : forall vs, vs <> [] ->
  pa_loop (map (fun v => (dashdash ++ ml, v)) vs) initial_kw None
  = Ok (initial_kw ++ [(k_listen, VStr (accumulated vs))], None).
Proof.
  destruct listen_facts as [_ [_ [U [A F]]]].
  intros [|v vs] H; [contradiction H; reflexivity|].
  cbn [map pa_loop]. rewrite U, A, F. rewrite dict_set_fresh by exact F.
  rewrite pa_loop_listen_more. reflexivity.
Qed.

Theorem cli_listen_repeated : forall e vs app, vs <> [] -> startswith app [45] = false ->
  cli_construct e (map (opt_eq ml) vs ++ [app])
  = lift Some (construct e [(k_listen, VStr (join [32] vs))]).
Proof.
  intros e vs app Hvs Happ.
  rewrite <- (construct_cast_eq e k_listen CList (VStr (accumulated vs)) (VStr (join [32] vs)) castof_listen)
    by (rewrite !cast_list_str, aslist_accumulated_joined; reflexivity).
  apply epilogue with (opts := map (fun v => (dashdash ++ ml, v)) vs) (app := app).
  - unfold getopt. rewrite getopt_listen_many; [reflexivity|exact Happ|].
    rewrite app_length, map_length. cbn. lia.
  - apply pa_loop_listen_many. exact Hvs.
Qed.

(* asbool on the two strings the runner produces, and on their usual variants *)
Lemma asbool_true_false :
  asbool (VStr true_s) = Ok true /\ asbool (VStr false_s) = Ok false
  /\ asbool (VStr [32; 84; 82; 85; 69; 10]) = Ok true      (* " TRUE\n" *)
  /\ asbool (VStr [89; 101; 115]) = Ok true                  (* "Yes" *)
  /\ asbool (VStr [116; 32; 114; 117; 101]) = Ok false.      (* "t rue" *)
Proof. repeat split; vm_compute; reflexivity. Qed.

Example cli_value_example :
  cli_construct {| has_ipv6 := true; has_af_unix := true |}
    [[45;45;112;111;114;116;61;56;48]; [97]]                      (* --port=80 a *)
  = lift Some (construct {| has_ipv6 := true; has_af_unix := true |} [(k_port, VInt 80)]).
Proof. vm_compute. reflexivity. Qed.
