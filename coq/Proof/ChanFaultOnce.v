(* Proof/ChanFaultOnce.v -- C13_loop and C13_once outside finding F18.

   In every execution in which no worker reaches send_continue() ([no_wcont]),
   whatever the environment answers (errnos, EOF, partial sends, exceptional
   conditions, at any call, any number of times) and however the I/O thread and
   the workers interleave:
     * no exception escapes the I/O loop                         (loop_partial)
     * every socket.close(), every removal from the socket map or from
       active_channels and every closing of output buffers is performed by the
       I/O thread; a channel's socket is closed at most once; once it is closed
       the descriptor is out of the map and of active_channels and the buffers
       have been closed                                           (once_partial)
   The proof is one inductive invariant:
     W  a worker's stack holds only instructions that do not tear anything down
        (closed under execution unless the label LWCont is emitted);
     J  per channel, the teardown-relevant fields are consistent (in the map =>
        descriptor open; socket closed => out of the map, ...);
     K  the shape of the I/O thread's stack: the close sequence of handle_close and
        the accept sequence of handle_accept occur only as its leading segment,
        each stage with the facts established so far; every instruction that can
        raise has a catch-all frame of wasyncore below it; select() is only ever
        called with open descriptors. *)
From Coq Require Import List Arith Bool Lia.
From WV Require Import Lib.Conc Model.ChanFault Proof.ChanFaultSpec Proof.ChanFaultBase Proof.ChanFaultStep.
Import ListNotations.

(* ---- W: worker instructions ------------------------------------------------------ *)
Definition winstr (i : instr) : bool :=
  match i with
  | ISvcStart _ | ISvcChkWc _ | IApp _ | IErrTask _ | IWsChk1 _ | IFbh _ | IFbhChk _ | IFbhAfter _ | IFbhLoop _ | IWsChk2 _
  | IWsAppend _ _ | IWsFlush _ | IWsAfter _ | ISvcEnd _ | ISetCwf _ | ISvcPop _ | ISvcTail _
  | IPull _ | IAddTask _ | IAcqO _ | IAcqR _ | IRelR _ | IWaitO _ | IWake _ _ | IContPre _ | IContAppend _
  | KFlushExc _ | KRelO _ | KRelR _ | KSvcTry _ | KSvcTry2 _ | KWorkerTop _ => true
  | IFlushStart _ dc | IFlush _ dc _ | IFlushSend _ dc _ _ => negb dc
  | _ => false
  end.

(* the teardown view of the state: what C13 is about *)
Definition tv (x : chan_st) := (accepted x, in_map x, in_act x, fileno x, sock x, bufc x, nclose x).
Definition srv4 (s : state) := (lst_in_map s, trg_in_map s, lst_open s, trg_open s).
Definition tvs (s : state) := (tv (chA s), tv (chB s), srv4 s).

Lemma tvs_getc : forall s s' c, tvs s' = tvs s -> tv (getc s' c) = tv (getc s c).
Proof.
  Transparent getc. intros s s' c H. destruct c; simpl.
  - exact (f_equal (fun p => fst (fst p)) H).
  - exact (f_equal (fun p => snd (fst p)) H).
Qed.
Opaque getc.

Definition has_wcont (ls : list label) : bool :=
  existsb (fun l => match l with LWCont _ => true | _ => false end) ls.
Definition teardown_free (ls : list label) : bool :=
  forallb (fun l => match teardown_thread l with Some _ => false | None => match l with LLoopDied _ => false | _ => true end end) ls.

Lemma tv_setc_same : forall s c v, tv v = tv (getc s c) -> tvs (setc s c v) = tvs s.
Proof. Transparent getc setc. intros s c v H. unfold tvs, srv4. destruct c; simpl in *; rewrite H; reflexivity. Qed.
Opaque getc setc.
Lemma tvs_setth : forall s t v, tvs (setth s t v) = tvs s.
Proof. Transparent setth. intros s t v. destruct t as [|[|]]; reflexivity. Qed.
Opaque setth.

Ltac tv_solve :=
  repeat first
    [ rewrite tvs_setth
    | rewrite tv_setc_same by (rewrite ?getc_setth; unfold tv; simpl; congruence) ];
  try reflexivity.

Lemma exec_winstr : forall g t i a s,
  winstr i = true ->
  match exec g t i a s with
  | Blocked => True
  | Norm s' push ls =>
      tvs s' = tvs s /\ teardown_free ls = true /\
      (has_wcont ls = false \/ wc_close g = false -> forallb winstr push = true)
  | Raise s' x ls => tvs s' = tvs s /\ teardown_free ls = true
  end.
Proof.
  intros g t i a s Hw.
  destruct i; try discriminate Hw;
  try match goal with dc : bool |- _ => destruct dc; try discriminate Hw end;
  cbn [exec flush_some write_soon send_continue send_continue_dc app]; repeat split_innermost; auto;
  repeat split; auto; try (intro; discriminate); tv_solve.
  all: try (intros [Hx|Hx]; [discriminate Hx|rewrite Hx; reflexivity]).
Qed.

Lemma frame_winstr : forall t k x s,
  winstr k = true ->
  match frame t k x s with
  | FCatch s' push ls => tvs s' = tvs s /\ teardown_free ls = true /\ forallb winstr push = true
  | FPass s' => tvs s' = tvs s
  end.
Proof.
  intros t k x s Hw.
  destruct k; try discriminate Hw; cbn [frame]; repeat split_innermost; auto;
  repeat split; auto; tv_solve.
Qed.

(* ---- K: the shape of the I/O thread's stack ----------------------------------------- *)
(* instructions that occur only in the leading segment of the I/O thread's stack *)
Definition chain_only (i : instr) : bool :=
  match i with
  | ICloseBufs _ | IDClose1 _ | IDelMapTest _ | IDelMapDo _ | IFilenoNone _ | IDelAct _ _
  | ISockClose _ | ISockCloseCall _ | ISockNone _ | IRelO _
  | ISetOpts _ | KAccTry _ | IInitGso _ | IInitSbl _ | IAddChan _ | ISelect _ _ _ => true
  | _ => false
  end.
Definition tail_ok (l : list instr) : bool := forallb (fun i => negb (chain_only i)) l.

Definition catchall (i : instr) : bool := match i with KWasyn _ | KReadwrite _ => true | _ => false end.
Definition has_ca (l : list instr) : bool := existsb catchall l.

(* instructions that may stand where no catch-all frame is below them: they neither raise
   (given K) nor push anything that is not covered by a frame pushed with it *)
Definition exempt (i : instr) : bool :=
  match i with
  | IPoll | ISelect _ _ _ | ISelWait _ _ _ | IDisp _ _ | IDisp2 _ _ _ _ _
  | IHClose _ | ICloseBufs _ | INotifyO _ | IRelO _ | IDClose1 _ | IDelMapTest _ | IDelMapDo _
  | IFilenoNone _ | IDelAct _ _ | ISockClose _ | ISockCloseCall _ | ISockNone _ | IAcqO _
  | ITrigClose | ILstClose | IRwClose _ | ISetConnF _
  | KWasyn _ | KReadwrite _ | KFlushExc _ | KRelO _ | KRelR _ | KSvcTry _ | KSvcTry2 _ | KWorkerTop _ => true
  | _ => false
  end.
Fixpoint covb (l : list instr) : bool :=
  match l with
  | [] => true
  | i :: r => (exempt i || has_ca r) && covb r
  end.

Definition acc_pre (x : chan_st) : Prop :=
  accepted x = true /\ sock x = SOpen /\ nclose x = 0 /\ in_map x = false /\ in_act x = false.

Definition closed_part (x : chan_st) : Prop := bufc x = true.

Inductive lead (g : cfg) (s : state) : list instr -> Prop :=
| LT : forall r, tail_ok r = true -> lead g s r
| LSel : forall r w e rest,
    (use_poll2 g = false -> forallb (fd_open s) e = true) -> tail_ok rest = true ->
    lead g s (ISelect r w e :: rest)
| LC0 : forall c r, tail_ok r = true ->
    lead g s (IAcqO c :: ICloseBufs c :: INotifyO c :: IRelO c :: IDClose1 c :: IDelMapTest c :: ISockClose c :: r)
| LC1 : forall c r, tail_ok r = true ->
    lead g s (ICloseBufs c :: INotifyO c :: IRelO c :: IDClose1 c :: IDelMapTest c :: ISockClose c :: r)
| LC2 : forall c r, tail_ok r = true -> bufc (getc s c) = true ->
    lead g s (INotifyO c :: IRelO c :: IDClose1 c :: IDelMapTest c :: ISockClose c :: r)
| LC3 : forall c r, tail_ok r = true -> bufc (getc s c) = true ->
    lead g s (IRelO c :: IDClose1 c :: IDelMapTest c :: ISockClose c :: r)
| LC4 : forall c r, tail_ok r = true -> bufc (getc s c) = true ->
    lead g s (IDClose1 c :: IDelMapTest c :: ISockClose c :: r)
| LC5 : forall c r, tail_ok r = true -> bufc (getc s c) = true ->
    lead g s (IDelMapTest c :: ISockClose c :: r)
| LC6 : forall c r, tail_ok r = true -> bufc (getc s c) = true -> in_map (getc s c) = true ->
    lead g s (IDelMapDo c :: IFilenoNone c :: IDelAct c true :: ISockClose c :: r)
| LC7 : forall c v r, tail_ok r = true -> bufc (getc s c) = true -> in_map (getc s c) = false ->
    (v = false -> in_act (getc s c) = false) ->
    lead g s (IFilenoNone c :: IDelAct c v :: ISockClose c :: r)
| LC8 : forall c v r, tail_ok r = true -> bufc (getc s c) = true -> in_map (getc s c) = false ->
    fileno (getc s c) = false -> (v = false -> in_act (getc s c) = false) ->
    lead g s (IDelAct c v :: ISockClose c :: r)
| LC9 : forall c r, tail_ok r = true -> bufc (getc s c) = true -> in_map (getc s c) = false ->
    fileno (getc s c) = false -> in_act (getc s c) = false ->
    lead g s (ISockClose c :: r)
| LC9b : forall c r, tail_ok r = true -> bufc (getc s c) = true -> in_map (getc s c) = false ->
    fileno (getc s c) = false -> in_act (getc s c) = false -> sock (getc s c) = SOpen ->
    lead g s (ISockCloseCall c :: ISockNone c :: r)
| LC10 : forall c r, tail_ok r = true -> bufc (getc s c) = true -> in_map (getc s c) = false ->
    in_act (getc s c) = false -> sock (getc s c) = SClosed ->
    lead g s (ISockNone c :: r)
| LA1 : forall c r, tail_ok r = true -> acc_pre (getc s c) -> lead g s (ISetOpts c :: KAccTry c :: r)
| LA2 : forall c r, tail_ok r = true -> acc_pre (getc s c) -> lead g s (KAccTry c :: r)
| LA3 : forall c r, tail_ok r = true -> acc_pre (getc s c) -> lead g s (IInitGso c :: IInitSbl c :: IAddChan c :: r)
| LA4 : forall c r, tail_ok r = true -> acc_pre (getc s c) -> lead g s (IInitSbl c :: IAddChan c :: r)
| LA5 : forall c r, tail_ok r = true -> acc_pre (getc s c) -> lead g s (IAddChan c :: r)
(* ... and when the channel is constructed inside handle_accept's try ([init_guarded]) *)
| LG1 : forall c r, tail_ok r = true -> acc_pre (getc s c) -> init_guarded g = true ->
    lead g s (ISetOpts c :: IInitGso c :: IInitSbl c :: IAddChan c :: KAccTry c :: r)
| LG2 : forall c r, tail_ok r = true -> acc_pre (getc s c) -> init_guarded g = true ->
    lead g s (IInitGso c :: IInitSbl c :: IAddChan c :: KAccTry c :: r)
| LG3 : forall c r, tail_ok r = true -> acc_pre (getc s c) -> init_guarded g = true ->
    lead g s (IInitSbl c :: IAddChan c :: KAccTry c :: r)
| LG4 : forall c r, tail_ok r = true -> acc_pre (getc s c) -> init_guarded g = true ->
    lead g s (IAddChan c :: KAccTry c :: r)
| LG5 : forall c r, tail_ok r = true -> init_guarded g = true -> lead g s (KAccTry c :: r).

(* ---- J: consistency of the teardown-relevant fields ------------------------------------ *)
Record chan_ok (x : chan_st) (c : chan) (io : thread_st) : Prop := {
  k_map : in_map x = true -> fileno x = true /\ sock x = SOpen;
  k_actf : in_act x = true -> fileno x = false ->
           raising io = None /\ exists r, stk io = IDelAct c true :: r;
  k_unacc : accepted x = false -> sock x = SNone /\ nclose x = 0 /\ in_map x = false /\ in_act x = false;
  k_open : sock x = SOpen -> nclose x = 0;
  k_le : nclose x <= 1;
  k_rel : nclose x <> 0 -> in_map x = false /\ in_act x = false /\ bufc x = true;
  k_closed : sock x = SClosed -> raising io = None /\ exists r, stk io = ISockNone c :: r
}.

Definition srv_ok (s : state) : Prop :=
  (lst_in_map s = true -> lst_open s = true) /\ (trg_in_map s = true -> trg_open s = true).

Definition raise_ok (x : exn) (l : list instr) : Prop :=
  tail_ok (drop_to_frame l) = true \/
  (exists c r, drop_to_frame l = KAccTry c :: r /\ is_oserror x = true /\ tail_ok r = true).

Record ioK (g : cfg) (s : state) (th : thread_st) : Prop := {
  k_lead : raising th = None -> lead g s (stk th);
  k_cov : covb (stk th) = true;
  k_raise : forall x, raising th = Some x -> x <> XReraised /\ has_ca (stk th) = true /\ raise_ok x (stk th)
}.

Definition SInv (g : cfg) (s : state) : Prop :=
  (forall c, forallb winstr (stk (getth s (W c))) = true) /\
  (forall c, chan_ok (getc s c) c (getth s IO)) /\ srv_ok s /\ ioK g s (getth s IO).

Definition no_died (tr : list label) : Prop := forall x, ~ In (LLoopDied x) tr.

Definition OInv (g : cfg) (s : state) (tr : list label) : Prop :=
  no_wcont tr \/ wc_close g = false ->
  SInv g s /\ io_only tr /\ no_died tr /\ forall c, closes c tr = nclose (getc s c).

(* ---- list lemmas ------------------------------------------------------------------------ *)
Lemma has_ca_app : forall p r, has_ca (p ++ r) = has_ca p || has_ca r.
Proof. intros. unfold has_ca. apply existsb_app. Qed.

Lemma covb_app_cov : forall p r, has_ca r = true -> covb r = true -> covb (p ++ r) = true.
Proof.
  induction p as [|i p IH]; simpl; intros r Hc Hr; auto.
  rewrite has_ca_app, Hc, orb_true_r, orb_true_r, IH; auto.
Qed.

Lemma covb_app_self : forall p r, covb p = true -> covb r = true -> covb (p ++ r) = true.
Proof.
  induction p as [|i p IH]; simpl; intros r Hp Hr; auto.
  apply andb_true_iff in Hp. destruct Hp as [Hi Hp]. rewrite IH by auto. rewrite andb_true_r.
  rewrite has_ca_app. destruct (exempt i); simpl in *; auto. rewrite Hi. reflexivity.
Qed.

Lemma covb_tail : forall i r, covb (i :: r) = true -> covb r = true.
Proof. simpl; intros i r H. apply andb_true_iff in H. tauto. Qed.

Lemma covb_suffix : forall p r, covb (p ++ r) = true -> covb r = true.
Proof. induction p; simpl; intros; auto. apply andb_true_iff in H. destruct H. eauto. Qed.

Lemma covb_drop : forall l, covb l = true -> covb (drop_to_frame l) = true.
Proof. intros l H. destruct (drop_to_frame_suffix l) as [pre E]. rewrite E in H. eapply covb_suffix; eauto. Qed.

Lemma has_ca_drop : forall l, has_ca (drop_to_frame l) = has_ca l.
Proof.
  induction l as [|i l IH]; simpl; auto. destruct (is_frame i) eqn:F; auto.
  rewrite IH. destruct i; simpl in *; try discriminate; auto.
Qed.

Lemma covb_exempt : forall l, forallb exempt l = true -> covb l = true.
Proof.
  induction l as [|i l IH]; simpl; intro H; auto. apply andb_true_iff in H. destruct H as [Hi Hl].
  rewrite Hi, IH by auto. reflexivity.
Qed.

Lemma tail_ok_app : forall p r, tail_ok (p ++ r) = tail_ok p && tail_ok r.
Proof. intros. unfold tail_ok. apply forallb_app. Qed.

Lemma tail_ok_drop : forall l, tail_ok l = true -> tail_ok (drop_to_frame l) = true.
Proof. intros. apply forallb_drop_to_frame. auto. Qed.

Lemma map_disp_exempt : forall k l, forallb exempt (map (IDisp k) l) = true.
Proof. induction l; simpl; auto. Qed.
Lemma map_p2_exempt : forall l, forallb exempt (map p2_instr l) = true.
Proof. induction l as [|p l IH]; simpl; auto. destruct p as [[f [rd wr]] [pri hup]]. simpl. auto. Qed.
Lemma map_disp_tail : forall k l, tail_ok (map (IDisp k) l) = true.
Proof. induction l; simpl; auto. Qed.
Lemma map_p2_tail : forall l, tail_ok (map p2_instr l) = true.
Proof. induction l as [|p l IH]; simpl; auto. destruct p as [[f [rd wr]] [pri hup]]. simpl. auto. Qed.

(* ---- what one instruction does ------------------------------------------------------------ *)
Definition labels_by (t : tid) (ls : list label) : bool :=
  forallb (fun l => match teardown_thread l with
                    | Some u => tid_eqb u t
                    | None => match l with LLoopDied _ => false | _ => true end
                    end) ls.

Lemma tid_eqb_refl : forall t, tid_eqb t t = true.
Proof. intro t. apply tid_eqb_eq. reflexivity. Qed.

Lemma exec_gen : forall g t i a s,
  match exec g t i a s with
  | Blocked => True
  | Norm s' push ls => (exempt i = true -> covb push = true) /\ labels_by t ls = true
  | Raise s' x ls => x <> XReraised /\ (exempt i = false \/ chain_only i = true) /\ labels_by t ls = true
  end.
Proof.
  intros g t i a s.
  destruct i;
  try match goal with f : fdt |- _ => destruct f as [| |cc] end;
  try match goal with k : evk |- _ => destruct k end;
  cbn [exec event chan_event hclose_fd herror hclose hclose_body server_close]; repeat split_innermost; auto;
  repeat split; auto; try (intro; discriminate); try (left; reflexivity); try (right; reflexivity);
  simpl; rewrite ?tid_eqb_refl; auto.
  all: intros _; apply covb_exempt; rewrite ?forallb_app, ?map_p2_exempt, ?map_disp_exempt; reflexivity.
Qed.

Definition special (i : instr) : bool :=
  match i with IHClose _ | IPoll | IAccept | ITrigClose | ILstClose => true | _ => false end.

Lemma exec_tail : forall g t i a s,
  chain_only i = false -> special i = false ->
  match exec g t i a s with
  | Blocked => True
  | Norm s' push ls => tvs s' = tvs s /\ tail_ok push = true
  | Raise s' x ls => tvs s' = tvs s
  end.
Proof.
  intros g t i a s Hc Hs.
  destruct i; try discriminate Hc; try discriminate Hs;
  try match goal with f : fdt |- _ => destruct f as [| |cc] end;
  try match goal with k : evk |- _ => destruct k end;
  cbn [exec event chan_event hclose_fd herror hclose server_close flush_some write_soon send_continue app];
  repeat split_innermost; auto; repeat split; auto; tv_solve.
  all: rewrite ?tail_ok_app, ?map_p2_tail, ?map_disp_tail; reflexivity.
Qed.

Lemma frame_gen : forall t k x s,
  match frame t k x s with
  | FCatch s' push ls =>
      tvs s' = tvs s /\ tail_ok push = true /\ labels_by t ls = true /\
      (catchall k = true -> covb push = true) /\ (forall c, closes c ls = 0)
  | FPass s' => tvs s' = tvs s /\ (catchall k = true -> x = XReraised)
  end.
Proof.
  intros t k x s.
  destruct k;
  try match goal with f : fdt |- _ => destruct f as [| |cc] end;
  cbn [frame herror hclose_fd hclose server_close]; repeat split_innermost; auto;
  repeat split; auto; tv_solve; try (intro; discriminate); try (intros [|]; reflexivity).
  all: try (destruct x; simpl in *; congruence).
Qed.

Transparent getc setc setth set_srv maint.
Lemma exec_closes : forall g t i a s cq,
  match exec g t i a s with
  | Blocked => True
  | Norm s' _ ls => nclose (getc s' cq) = nclose (getc s cq) + closes cq ls
  | Raise s' _ ls => nclose (getc s' cq) = nclose (getc s cq) + closes cq ls
  end.
Proof.
  intros g t i a s cq.
  destruct cq; destruct i; repeat match goal with d : chan |- _ => destruct d end;
  try match goal with f : fdt |- _ => destruct f as [| |[|]] end;
  cbn [exec]; unfold maint; repeat split_innermost; auto;
  destruct t as [|[|]]; simpl; unfold closes; simpl; try lia.
  all: destruct c; simpl; lia.
Qed.
Opaque getc setc setth set_srv maint.

(* ---- the invariant only looks at the teardown view ------------------------------------------ *)
Lemma tv_fields : forall x y, tv x = tv y ->
  accepted x = accepted y /\ in_map x = in_map y /\ in_act x = in_act y /\ fileno x = fileno y /\
  sock x = sock y /\ bufc x = bufc y /\ nclose x = nclose y.
Proof. unfold tv. intros x y H. injection H as -> -> -> -> -> -> ->. repeat split. Qed.

Lemma chan_ok_tv : forall x y c io, tv y = tv x -> chan_ok x c io -> chan_ok y c io.
Proof.
  intros x y c io H [K1 K2 K3 K4 K5 K6 K7].
  destruct (tv_fields _ _ H) as (E1 & E2 & E3 & E4 & E5 & E6 & E7).
  constructor; rewrite ?E1, ?E2, ?E3, ?E4, ?E5, ?E6, ?E7; auto.
Qed.

(* a channel that is not in the middle of its close sequence: its consistency does not depend on the I/O stack *)
Definition quiet (x : chan_st) : Prop := sock x <> SClosed /\ (in_act x = true -> fileno x = true).

Lemma chan_ok_quiet : forall x c io io', quiet x -> chan_ok x c io -> chan_ok x c io'.
Proof.
  intros x c io io' [Q1 Q2] [K1 K2 K3 K4 K5 K6 K7]. constructor; auto.
  - intros Ha Hf. rewrite Q2 in Hf by auto. discriminate.
  - intro Hs. contradiction.
Qed.

Lemma quiet_of : forall x c io, chan_ok x c io ->
  (forall r, stk io <> IDelAct c true :: r) -> (forall r, stk io <> ISockNone c :: r) -> quiet x.
Proof.
  intros x c io [K1 K2 K3 K4 K5 K6 K7] H1 H2. split.
  - intro Hs. destruct (K7 Hs) as [_ [r Er]]. eapply H2; eauto.
  - intro Ha. destruct (fileno x) eqn:Ef; auto. destruct (K2 Ha eq_refl) as [_ [r Er]]. exfalso. eapply H1; eauto.
Qed.

Lemma quiet_tv : forall x y, tv y = tv x -> quiet x -> quiet y.
Proof.
  intros x y H [Q1 Q2]. destruct (tv_fields _ _ H) as (E1 & E2 & E3 & E4 & E5 & E6 & E7).
  split; rewrite ?E3, ?E4, ?E5; auto.
Qed.

Transparent getc.
Lemma fd_open_tvs : forall s s' f, tvs s' = tvs s -> fd_open s' f = fd_open s f.
Proof.
  intros s s' f H. unfold tvs, srv4 in H.
  assert (HA : tv (chA s') = tv (chA s)) by exact (f_equal (fun p => fst (fst p)) H).
  assert (HB : tv (chB s') = tv (chB s)) by exact (f_equal (fun p => snd (fst p)) H).
  assert (HS : srv4 s' = srv4 s) by exact (f_equal snd H).
  unfold srv4 in HS. injection HS as H1 H2 H3 H4.
  destruct (tv_fields _ _ HA) as (_ & _ & _ & _ & EA & _).
  destruct (tv_fields _ _ HB) as (_ & _ & _ & _ & EB & _).
  destruct f as [| |[|]]; simpl; rewrite ?EA, ?EB; auto.
Qed.
Opaque getc.

Lemma srv_ok_tvs : forall s s', tvs s' = tvs s -> srv_ok s -> srv_ok s'.
Proof.
  intros s s' H [A B]. assert (HS : srv4 s' = srv4 s) by exact (f_equal snd H).
  unfold srv4 in HS. injection HS as H1 H2 H3 H4. unfold srv_ok. rewrite H1, H2, H3, H4. auto.
Qed.

Lemma acc_pre_tv : forall x y, tv y = tv x -> acc_pre x -> acc_pre y.
Proof.
  intros x y H (A1 & A2 & A3 & A4 & A5). destruct (tv_fields _ _ H) as (E1 & E2 & E3 & E4 & E5 & E6 & E7).
  unfold acc_pre. rewrite E1, E2, E3, E5, E7. auto.
Qed.

Lemma forallb_ext' : forall (A : Type) (p q : A -> bool) l, (forall x, p x = q x) -> forallb p l = forallb q l.
Proof. induction l; simpl; intros; auto. rewrite H, IHl; auto. Qed.

Lemma lead_tvs : forall g s s' l, tvs s' = tvs s -> lead g s l -> lead g s' l.
Proof.
  intros g s s' l H L.
  assert (F : forall c, tv (getc s' c) = tv (getc s c)) by (intro; apply tvs_getc; auto).
  assert (B : forall c, bufc (getc s' c) = bufc (getc s c)) by (intro c; destruct (tv_fields _ _ (F c)); tauto).
  assert (M : forall c, in_map (getc s' c) = in_map (getc s c)) by (intro c; destruct (tv_fields _ _ (F c)); tauto).
  assert (A : forall c, in_act (getc s' c) = in_act (getc s c)) by (intro c; destruct (tv_fields _ _ (F c)); tauto).
  assert (N : forall c, fileno (getc s' c) = fileno (getc s c)) by (intro c; destruct (tv_fields _ _ (F c)); tauto).
  assert (S : forall c, sock (getc s' c) = sock (getc s c)) by (intro c; destruct (tv_fields _ _ (F c)); tauto).
  inversion L; subst.
  - apply LT; auto.
  - apply LSel; auto. intro Hp. rewrite <- H0 by auto. apply forallb_ext'. intro f. apply fd_open_tvs. auto.
  - apply LC0; auto.
  - apply LC1; auto.
  - apply LC2; rewrite ?B; auto.
  - apply LC3; rewrite ?B; auto.
  - apply LC4; rewrite ?B; auto.
  - apply LC5; rewrite ?B; auto.
  - apply LC6; rewrite ?B, ?M; auto.
  - apply LC7; rewrite ?B, ?M, ?A; auto.
  - apply LC8; rewrite ?B, ?M, ?A, ?N; auto.
  - apply LC9; rewrite ?B, ?M, ?A, ?N; auto.
  - apply LC9b; rewrite ?B, ?M, ?A, ?N, ?S; auto.
  - apply LC10; rewrite ?B, ?M, ?A, ?S; auto.
  - apply LA1; auto. eapply acc_pre_tv; eauto.
  - apply LA2; auto. eapply acc_pre_tv; eauto.
  - apply LA3; auto. eapply acc_pre_tv; eauto.
  - apply LA4; auto. eapply acc_pre_tv; eauto.
  - apply LA5; auto. eapply acc_pre_tv; eauto.
  - apply LG1; auto. eapply acc_pre_tv; eauto.
  - apply LG2; auto. eapply acc_pre_tv; eauto.
  - apply LG3; auto. eapply acc_pre_tv; eauto.
  - apply LG4; auto. eapply acc_pre_tv; eauto.
  - apply LG5; auto.
Qed.

Lemma tail_ok_lead_head : forall i r, tail_ok (i :: r) = true -> chain_only i = false /\ tail_ok r = true.
Proof. unfold tail_ok. simpl. intros i r H. apply andb_true_iff in H. destruct H as [H1 H2]. apply negb_true_iff in H1. auto. Qed.

(* ---- trace facts -------------------------------------------------------------------------------- *)
Lemma closes_app : forall c a b, closes c (a ++ b) = closes c a + closes c b.
Proof. intros. unfold closes. rewrite filter_app, app_length. reflexivity. Qed.

Lemma teardown_free_facts : forall ls, teardown_free ls = true ->
  io_only ls /\ no_died ls /\ forall c, closes c ls = 0.
Proof.
  unfold teardown_free. intros ls H. rewrite forallb_forall in H. repeat split.
  - intros l t Hin E. specialize (H _ Hin). rewrite E in H. discriminate.
  - intros x Hin. specialize (H _ Hin). simpl in H. discriminate.
  - intro c. unfold closes. induction ls as [|l ls IH]; simpl; auto.
    assert (Hl := H l (or_introl eq_refl)).
    destruct l; simpl in *; try discriminate; apply IH; intros; apply H; auto.
Qed.

Lemma labels_by_io_facts : forall ls, labels_by IO ls = true -> io_only ls /\ no_died ls.
Proof.
  unfold labels_by. intros ls H. rewrite forallb_forall in H. split.
  - intros l t Hin E. specialize (H _ Hin). rewrite E in H. destruct t; auto. discriminate.
  - intros x Hin. specialize (H _ Hin). simpl in H. discriminate.
Qed.

Lemma io_only_app : forall a b, io_only a -> io_only b -> io_only (a ++ b).
Proof. unfold io_only. intros a b Ha Hb l t Hin E. apply in_app_or in Hin. destruct Hin; eauto. Qed.
Lemma no_died_app : forall a b, no_died a -> no_died b -> no_died (a ++ b).
Proof. unfold no_died. intros a b Ha Hb x Hin. apply in_app_or in Hin. destruct Hin; [eapply Ha|eapply Hb]; eauto. Qed.

Lemma has_wcont_no : forall l, no_wcont l -> has_wcont l = false.
Proof.
  unfold no_wcont, has_wcont. induction l as [|x l IH]; simpl; intro H; auto.
  rewrite IH by (intros c Hin; apply (H c); auto).
  destruct x; auto. exfalso. apply (H c). auto.
Qed.

(* ---- a worker's step ------------------------------------------------------------------------------ *)
Lemma SInv_tvs_other : forall g s s' c,
  SInv g s -> tvs s' = tvs s -> getth s' IO = getth s IO ->
  (forall d, d <> c -> getth s' (W d) = getth s (W d)) ->
  forallb winstr (stk (getth s' (W c))) = true ->
  SInv g s'.
Proof.
  intros g s s' c (Hw & Hc & Hs & Hk) Ht Hio Hoth Hnew. split; [|split; [|split]].
  - intro d. destruct (chan_dec d c); [subst; auto|rewrite Hoth by auto; auto].
  - intro d. rewrite Hio. eapply chan_ok_tv; [apply tvs_getc; eauto|auto].
  - eapply srv_ok_tvs; eauto.
  - rewrite Hio. destruct Hk as [K1 K2 K3]. constructor; auto.
    intro R. eapply lead_tvs; eauto.
Qed.

Lemma worker_step : forall g s c a s' l,
  SInv g s -> step g s (W c, a) = Some (s', l) -> (has_wcont l = false \/ wc_close g = false) ->
  SInv g s' /\ tvs s' = tvs s /\ teardown_free l = true.
Proof.
  intros g s c a s' l HS H Hwc.
  assert (Hother : forall u, W c <> u -> getth s' u = getth s u) by (intros; eapply step_other_thread; eauto).
  assert (Hio : getth s' IO = getth s IO) by (apply Hother; discriminate).
  assert (Hoth : forall d, d <> c -> getth s' (W d) = getth s (W d)) by (intros; apply Hother; congruence).
  pose proof HS as (Hw & _). specialize (Hw c).
  unfold step in H.
  destruct (raising (getth s (W c))) as [x|] eqn:R.
  - destruct (drop_to_frame (stk (getth s (W c)))) as [|k rest] eqn:D.
    + injection H as Es El. subst l.
      assert (Ht : tvs s' = tvs s) by (subst s'; apply tvs_setth).
      split; [|split; auto]. eapply SInv_tvs_other; eauto. subst s'. rewrite getth_setth_same. reflexivity.
    + assert (Hkr : forallb winstr (k :: rest) = true) by (rewrite <- D; apply forallb_drop_to_frame; auto).
      simpl in Hkr. apply andb_true_iff in Hkr. destruct Hkr as [Hk Hr].
      pose proof (frame_winstr (W c) k x s Hk) as FW.
      destruct (frame (W c) k x s) as [s1 push ls|s1] eqn:F; injection H as Es El; subst l.
      * destruct FW as (Et & Ef & Pw).
        assert (Ht : tvs s' = tvs s) by (subst s'; rewrite tvs_setth; auto).
        split; [|split; auto]. eapply SInv_tvs_other; eauto. subst s'. rewrite getth_setth_same. simpl.
        rewrite forallb_app, Pw, Hr. reflexivity.
      * assert (Ht : tvs s' = tvs s) by (subst s'; rewrite tvs_setth; auto).
        split; [|split; auto]. eapply SInv_tvs_other; eauto. subst s'. rewrite getth_setth_same. simpl. auto.
  - destruct (stk (getth s (W c))) as [|i rest] eqn:S.
    + destruct (queued (getc s c)); [|discriminate]. injection H as Es El. subst l.
      assert (Ht : tvs s' = tvs s) by (subst s'; tv_solve).
      split; [|split; auto]. eapply SInv_tvs_other; eauto. subst s'. rewrite getth_setth_same. reflexivity.
    + simpl in Hw. apply andb_true_iff in Hw. destruct Hw as [Hi Hr].
      pose proof (exec_winstr g (W c) i a s Hi) as EW.
      destruct (exec g (W c) i a s) as [|s1 push ls|s1 x ls] eqn:E; [discriminate| |]; injection H as Es El; subst l.
      * destruct EW as (Et & Ef & Pw).
        assert (Ht : tvs s' = tvs s) by (subst s'; rewrite tvs_setth; auto).
        split; [|split; auto]. eapply SInv_tvs_other; eauto. subst s'. rewrite getth_setth_same. simpl.
        rewrite forallb_app, Pw, Hr by auto. reflexivity.
      * destruct EW as (Et & Ef).
        assert (Ht : tvs s' = tvs s) by (subst s'; rewrite tvs_setth; auto).
        split; [|split; auto]. eapply SInv_tvs_other; eauto. subst s'. rewrite getth_setth_same. simpl. auto.
Qed.

(* ---- the I/O thread's step ---------------------------------------------------------------------------- *)
Lemma ioK_setth : forall g s1 th', ioK g s1 th' -> ioK g (setth s1 IO th') th'.
Proof.
  intros g s1 th' [K1 K2 K3]. constructor; auto. intro R. eapply lead_tvs; [apply tvs_setth|auto].
Qed.

Lemma io_finish : forall g s s1 th' c,
  SInv g s ->
  (forall d, d <> c -> tv (getc s1 d) = tv (getc s d) /\ quiet (getc s d)) ->
  srv_ok s1 ->
  (forall d, getth s1 (W d) = getth s (W d)) ->
  chan_ok (getc s1 c) c th' ->
  ioK g s1 th' ->
  SInv g (setth s1 IO th').
Proof.
  intros g s s1 th' c (Hw & Hc & Hs & Hk) Hoth Hsrv Hwt Hcc HK. split; [|split; [|split]].
  - intro d. rewrite getth_setth_other by discriminate. rewrite Hwt. auto.
  - intro d. rewrite getth_setth_same, getc_setth. destruct (chan_dec d c) as [->|NE]; auto.
    destruct (Hoth d NE) as [Et Q]. eapply chan_ok_tv; eauto. eapply chan_ok_quiet; eauto.
  - destruct Hsrv as [A B]. destruct (srv_setth s1 IO th') as (E1 & E2 & E3 & E4 & _).
    unfold srv_ok. rewrite E1, E2, E3, E4. auto.
  - rewrite getth_setth_same. apply ioK_setth. auto.
Qed.

(* all channels are quiet when the I/O thread's next instruction is not IDelAct / ISockNone *)
Lemma all_quiet : forall g s, SInv g s ->
  (forall d r, stk (getth s IO) <> IDelAct d true :: r) ->
  (forall d r, stk (getth s IO) <> ISockNone d :: r) ->
  forall d, quiet (getc s d).
Proof. intros g s (_ & Hc & _) H1 H2 d. eapply quiet_of; eauto. Qed.

Lemma all_quiet_raising : forall g s x, SInv g s -> raising (getth s IO) = Some x -> forall d, quiet (getc s d).
Proof.
  intros g s x (_ & Hc & _) R d. destruct (Hc d) as [K1 K2 K3 K4 K5 K6 K7]. split.
  - intro Hs. destruct (K7 Hs) as [E _]. congruence.
  - intro Ha. destruct (fileno (getc s d)) eqn:Ef; auto. destruct (K2 Ha eq_refl) as [E _]. congruence.
Qed.

Lemma srv_ok_tvs' : forall s s1, tvs s1 = tvs s -> srv_ok s -> srv_ok s1.
Proof. intros; eapply srv_ok_tvs; eauto. Qed.

(* the unwinding step *)
Lemma io_raise_step : forall g s a s' l x,
  SInv g s -> raising (getth s IO) = Some x -> step g s (IO, a) = Some (s', l) ->
  SInv g s' /\ labels_by IO l = true /\ (forall c, nclose (getc s' c) = nclose (getc s c) + closes c l).
Proof.
  intros g s a s' l x HS R H.
  pose proof HS as (Hw & Hc & Hs & [K1 K2 K3]).
  destruct (K3 x R) as (Hx & Hca & Hro).
  pose proof (all_quiet_raising g s x HS R) as HQ.
  unfold step in H. rewrite R in H.
  destruct (drop_to_frame (stk (getth s IO))) as [|k rest] eqn:D.
  { rewrite <- has_ca_drop, D in Hca. discriminate. }
  assert (Hcov : covb (k :: rest) = true) by (rewrite <- D; apply covb_drop; auto).
  assert (Hca' : has_ca (k :: rest) = true) by (rewrite <- D, has_ca_drop; auto).
  pose proof (frame_gen IO k x s) as FG.
  pose proof (frame_other_thread IO k x s) as FO.
  destruct (frame IO k x s) as [s1 push ls|s1] eqn:F; injection H as Es El; subst l.
  - destruct FG as (Et & Pt & Pl & Pc & Pz).
    assert (Htl : tail_ok rest = true).
    { destruct Hro as [Ht|(c & r & Ed & _ & Ht)].
      - rewrite D in Ht. apply tail_ok_lead_head in Ht. tauto.
      - rewrite D in Ed. injection Ed as _ ->. auto. }
    split; [|split; auto].
    + subst s'. eapply (io_finish g s s1 _ A); eauto.
      * intros d _. split; [apply tvs_getc; auto|auto].
      * eapply srv_ok_tvs; eauto.
      * intro d. apply FO. discriminate.
      * eapply chan_ok_tv; [apply tvs_getc; eauto|]. eapply chan_ok_quiet; eauto.
      * unfold set_raising. constructor; simpl.
        -- intros _. apply LT. rewrite tail_ok_app, Pt, Htl. reflexivity.
        -- destruct (catchall k) eqn:Ek.
           ++ apply covb_app_self; auto. eapply covb_tail; eauto.
           ++ apply covb_app_cov; [|eapply covb_tail; eauto].
              simpl in Hca'. unfold has_ca in Hca'. simpl in Hca'. rewrite Ek in Hca'. auto.
        -- intros y Ey. discriminate.
    + intro c. subst s'. rewrite getc_setth, Pz, Nat.add_0_r.
      destruct (tv_fields _ _ (tvs_getc _ _ c Et)) as (_ & _ & _ & _ & _ & _ & E). auto.
  - destruct FG as (Et & Pc).
    assert (Ek : catchall k = false) by (destruct (catchall k); auto; exfalso; apply Hx; auto).
    split; [|split; auto].
    + subst s'. eapply (io_finish g s s1 _ A); eauto.
      * intros d _. split; [apply tvs_getc; auto|auto].
      * eapply srv_ok_tvs; eauto.
      * intro d. apply FO. discriminate.
      * eapply chan_ok_tv; [apply tvs_getc; eauto|]. eapply chan_ok_quiet; eauto.
      * unfold set_raising. constructor; simpl.
        -- intro; discriminate.
        -- eapply covb_tail; eauto.
        -- intros y Ey. injection Ey as <-. split; [auto|split].
           ++ simpl in Hca'. unfold has_ca in Hca'. simpl in Hca'. rewrite Ek in Hca'. auto.
           ++ left. destruct Hro as [Ht|(c & r & Ed & Ho & Ht)].
              ** rewrite D in Ht. apply tail_ok_lead_head in Ht. apply tail_ok_drop. tauto.
              ** exfalso. rewrite D in Ed. injection Ed as -> ->. cbn [frame] in F. rewrite Ho in F. discriminate.
    + intro c. subst s'. rewrite getc_setth. simpl. rewrite Nat.add_0_r.
      destruct (tv_fields _ _ (tvs_getc _ _ c Et)) as (_ & _ & _ & _ & _ & _ & E). auto.
Qed.

Lemma has_ca_cons_nonca : forall i r, catchall i = false -> has_ca (i :: r) = has_ca r.
Proof. intros. unfold has_ca. simpl. rewrite H. reflexivity. Qed.

Lemma covb_head : forall i r, covb (i :: r) = true -> exempt i = false -> has_ca r = true.
Proof. simpl. intros i r H E. rewrite E in H. simpl in H. apply andb_true_iff in H. tauto. Qed.

(* new I/O thread after a normal / raising instruction *)
Definition th_norm (th1 : thread_st) (stack : list instr) : thread_st := set_stk th1 stack.
Definition th_raise (th1 : thread_st) (stack : list instr) (x : exn) : thread_st := set_raising th1 stack (Some x).

Lemma ioK_norm : forall g s1 th1 stack,
  raising th1 = None -> lead g s1 stack -> covb stack = true -> ioK g s1 (set_stk th1 stack).
Proof.
  intros g s1 th1 stack R L C. constructor; simpl; auto. intros x E. congruence.
Qed.

Lemma ioK_raise : forall g s1 th1 stack x,
  x <> XReraised -> has_ca stack = true -> raise_ok x stack -> covb stack = true ->
  ioK g s1 (set_raising th1 stack (Some x)).
Proof.
  intros g s1 th1 stack x Hx Hc Hr Hv. constructor; simpl; auto.
  - intro; discriminate.
  - intros y Ey. injection Ey as <-. auto.
Qed.

(* the generic case: an instruction that is neither part of the close / accept sequences nor special *)
Lemma io_tail_step : forall g s i rest a,
  SInv g s -> raising (getth s IO) = None -> stk (getth s IO) = i :: rest ->
  tail_ok (i :: rest) = true -> special i = false ->
  match exec g IO i a s with
  | Blocked => True
  | Norm s1 push ls => SInv g (setth s1 IO (set_stk (getth s1 IO) (push ++ rest)))
  | Raise s1 x ls => SInv g (setth s1 IO (set_raising (getth s1 IO) rest (Some x)))
  end.
Proof.
  intros g s i rest a HS R S Ht Hsp.
  pose proof HS as (Hw & Hc & Hs & [K1 K2 K3]). rewrite S in K2.
  destruct (tail_ok_lead_head _ _ Ht) as [Hco Htr].
  assert (HQ : forall d, quiet (getc s d)).
  { eapply all_quiet; eauto; intros d r E; rewrite S in E; injection E as -> _; discriminate. }
  pose proof (exec_tail g IO i a s Hco Hsp) as ET.
  pose proof (exec_gen g IO i a s) as EG.
  pose proof (exec_own_stack g IO i a s) as EO.
  assert (EW : forall d, match exec g IO i a s with Blocked => True | Norm s1 _ _ | Raise s1 _ _ => getth s1 (W d) = getth s (W d) end).
  { intro d. pose proof (exec_other_thread g IO i a s (W d)) as X. destruct (exec g IO i a s); auto; apply X; discriminate. }
  destruct (exec g IO i a s) as [|s1 push ls|s1 x ls]; auto.
  - destruct ET as [Et Pt]. destruct EG as [Pc _]. destruct EO as [_ ER].
    refine (io_finish g s s1 _ A HS _ _ _ _ _).
    + intros d _. split; [apply tvs_getc; auto|auto].
    + eapply srv_ok_tvs; eauto.
    + intro d. apply (EW d).
    + eapply chan_ok_tv; [apply tvs_getc; eauto|]. eapply chan_ok_quiet; eauto.
    + apply ioK_norm; [congruence| |].
      * apply LT. rewrite tail_ok_app, Pt, Htr. reflexivity.
      * destruct (exempt i) eqn:Ee.
        -- apply covb_app_self; auto. eapply covb_tail; eauto.
        -- apply covb_app_cov; [eapply covb_head; eauto|eapply covb_tail; eauto].
  - destruct EG as (Hx & He & _). destruct EO as [_ ER].
    assert (Ee : exempt i = false) by (destruct He; congruence).
    refine (io_finish g s s1 _ A HS _ _ _ _ _).
    + intros d _. split; [apply tvs_getc; auto|auto].
    + eapply srv_ok_tvs; eauto.
    + intro d. apply (EW d).
    + eapply chan_ok_tv; [apply tvs_getc; eauto|]. eapply chan_ok_quiet; eauto.
    + apply ioK_raise; auto.
      * eapply covb_head; eauto.
      * left. apply tail_ok_drop. auto.
      * eapply covb_tail; eauto.
Qed.

Lemma others_quiet : forall g s c i rest,
  SInv g s -> stk (getth s IO) = i :: rest ->
  (forall d, d <> c -> i <> IDelAct d true /\ i <> ISockNone d) ->
  forall d, d <> c -> quiet (getc s d).
Proof.
  intros g s c i rest (_ & Hc & _) S Hi d Hd. destruct (Hi d Hd) as [N1 N2].
  eapply quiet_of; eauto; intros r E; rewrite S in E; injection E as E _; congruence.
Qed.

Transparent maint.
Lemma tv_maint : forall x b, tv (maint x b) = tv x.
Proof. intros. unfold maint. destruct (b && in_act x && (nreq x =? 0)); reflexivity. Qed.
Opaque maint.

Transparent asked_r asked_w getc.
Lemma asked_open : forall g s,
  (forall c, in_map (getc s c) = true -> sock (getc s c) = SOpen) -> srv_ok s ->
  forallb (fd_open s) (asked_r g s ++ asked_w s) = true.
Proof.
  intros g s Hm [HL HT]. pose proof (Hm A) as HA. pose proof (Hm B) as HB. simpl in HA, HB.
  unfold asked_r, asked_w. rewrite !forallb_app.
  destruct (trg_in_map s) eqn:E1; destruct (lst_in_map s) eqn:E2;
  destruct (in_map (chA s)) eqn:E3; destruct (in_map (chB s)) eqn:E4; simpl;
  repeat match goal with |- context [if ?b then _ else _] => destruct b end; simpl;
  rewrite ?HL, ?HT, ?HA, ?HB by auto; reflexivity.
Qed.
Opaque asked_r asked_w getc.

(* updating one channel's record *)
Lemma others_setc : forall s c v d, d <> c -> tv (getc (setc s c v) d) = tv (getc s d).
Proof. intros. rewrite getc_setc_other by auto. reflexivity. Qed.

Lemma srv_ok_setc : forall s c v, srv_ok s -> srv_ok (setc s c v).
Proof. intros s c v [A B]. destruct (srv_setc s c v) as (E1 & E2 & E3 & E4 & _). unfold srv_ok. rewrite E1, E2, E3, E4. auto. Qed.

Transparent getc setc set_srv setth.
Lemma tvs_poll : forall s b1 b2,
  tvs (setc (setc s A (maint (chA s) b1)) B (maint (chB (setc s A (maint (chA s) b1))) b2)) = tvs s.
Proof. intros. unfold tvs, srv4. simpl. rewrite !tv_maint. reflexivity. Qed.

Lemma set_srv_fields : forall s a b c d,
  lst_in_map (set_srv s a b c d) = a /\ trg_in_map (set_srv s a b c d) = b /\
  lst_open (set_srv s a b c d) = c /\ trg_open (set_srv s a b c d) = d.
Proof. intros. simpl. auto. Qed.
Opaque getc setc set_srv setth.

Lemma lead_LT_any : forall g (s' : state) l, tail_ok l = true -> lead g s' l.
Proof. intros. apply LT. auto. Qed.

Ltac step_compute H R S :=
  unfold step in H; rewrite R, S in H; cbn [exec hclose hclose_body] in H;
  repeat split_innermost_in H; try discriminate H; injection H as <- <-.

Ltac others_tac HS S :=
  let d := fresh "d" in let Hd := fresh "Hd" in
  intros d Hd; split;
  [ rewrite ?getc_setc_other by auto; reflexivity
  | eapply others_quiet; [exact HS|exact S| |exact Hd];
    let e := fresh "e" in let He := fresh "He" in intros e He; split; congruence ].

Ltac tv_case HS H0 c Hc leadtac :=
  rewrite ?getth_setc; cbn [app];
  refine (io_finish _ _ _ _ c HS _ _ _ _ _);
  [ others_tac HS H0
  | try apply srv_ok_setc; auto
  | intro; rewrite ?getth_setc; reflexivity
  | rewrite ?getc_setc_same;
    (eapply chan_ok_tv; [|eapply chan_ok_quiet; [|apply Hc]];
     [reflexivity| eapply quiet_of; [apply Hc| |]; intros ? E; rewrite H0 in E; discriminate])
  | apply ioK_norm; auto; leadtac ].

Ltac stack_eq S :=
  match goal with E : _ = stk (getth _ IO) |- _ => symmetry in E; rename E into S end.

Ltac chan_fin :=
  try (intro; discriminate); try (intros; congruence);
  try match goal with
  | Q2 : in_act ?x = true -> fileno ?x = true |- in_act ?x = true -> fileno ?x = false -> _ =>
      let Ha := fresh in let Hf := fresh in intros Ha Hf; rewrite Q2 in Hf by auto; discriminate
  end;
  try match goal with
  | J6 : nclose ?x <> 0 -> _ |- nclose ?x <> 0 -> _ =>
      let Hn := fresh in intro Hn; destruct (J6 Hn) as (? & ? & ?); auto
  end;
  try match goal with
  | J3 : accepted ?x = false -> _ |- accepted ?x = false -> _ =>
      let Ha := fresh in intro Ha; destruct (J3 Ha) as (? & ? & ? & ?); repeat split; auto; congruence
  end;
  try match goal with
  | Q1 : sock ?x <> SClosed |- sock ?x = SClosed -> _ => let Hs := fresh in intro Hs; contradiction
  end.

Lemma io_norm_step : forall g s a s' l,
  SInv g s -> raising (getth s IO) = None -> step g s (IO, a) = Some (s', l) -> SInv g s'.
Proof.
  intros g s a s' l HS R H.
  pose proof HS as (Hw & Hc & Hs & [K1 K2 K3]). specialize (K1 R).
  inversion K1 as [rr Ht|? ? ? rest Hopen Ht|c r Ht|c r Ht|c r Ht Hb|c r Ht Hb|c r Ht Hb|c r Ht Hb|c r Ht Hb Hm
                 |c v r Ht Hb Hm Hv|c v r Ht Hb Hm Hf Hv|c r Ht Hb Hm Hf Ha|c r Ht Hb Hm Hf Ha Hso|c r Ht Hb Hm Ha Hk
                 |c r Ht Hp|c r Ht Hp|c r Ht Hp|c r Ht Hp|c r Ht Hp
                 |c r Ht Hp Hg|c r Ht Hp Hg|c r Ht Hp Hg|c r Ht Hp Hg|c r Ht Hg]; stack_eq H0; rewrite H0 in K2.
  - (* LT: an ordinary instruction *)
    destruct rr as [|i rest].
    { unfold step in H. rewrite R, H0 in H. discriminate. }
    try rewrite H0 in Ht.
    assert (HQ : forall d, quiet (getc s d)).
    { destruct (tail_ok_lead_head _ _ Ht) as [Hco _].
      eapply all_quiet; eauto; intros d r E; rewrite H0 in E; injection E as -> _; discriminate. }
    assert (Hcq : forall d io', chan_ok (getc s d) d io') by (intros; eapply chan_ok_quiet; eauto).
    destruct (tail_ok_lead_head _ _ Ht) as [Hco Htr].
    destruct (special i) eqn:Hsp.
    + destruct i; try discriminate Hsp.
      * (* IPoll *)
        unfold step in H. rewrite R, H0 in H. cbn [exec] in H.
        destruct (map_empty s); injection H as <- <-; cbn [app].
        -- refine (io_finish g s s _ A HS _ _ _ _ _); auto.
           apply ioK_norm; auto; try (apply LT; auto); try (eapply covb_tail; eauto).
        -- rewrite !getth_setc.
           match goal with |- SInv g (setth ?sx IO _) => set (s1 := sx) end.
           assert (Et : tvs s1 = tvs s) by apply tvs_poll.
           refine (io_finish g s s1 _ A HS _ _ _ _ _).
           ++ intros d _. split; [apply tvs_getc; auto|auto].
           ++ eapply srv_ok_tvs; eauto.
           ++ intro d. unfold s1. rewrite !getth_setc. reflexivity.
           ++ eapply chan_ok_tv; [apply tvs_getc; eauto|auto].
           ++ apply ioK_norm; auto; try (simpl; eapply covb_tail; eauto).
              apply LSel; auto. intros _. apply asked_open.
              ** intros d Hd. destruct (tv_fields _ _ (tvs_getc _ _ d Et)) as (_ & E2 & _ & _ & E5 & _).
                 rewrite E2 in Hd. rewrite E5. destruct (Hc d) as [J1 _ _ _ _ _ _]. apply J1; auto.
              ** eapply srv_ok_tvs; eauto.
      * (* IAccept *)
        unfold step in H. rewrite R, H0 in H. cbn [exec] in H.
        destruct a as [| | | |ra| | | | | | |]; try discriminate H. destruct ra as [c|e].
        -- destruct (accepted (getc s c)) eqn:Eacc; [discriminate|]. injection H as <- <-.
           rewrite getth_setc. cbn [app].
           refine (io_finish g s _ _ c HS _ _ _ _ _).
           ++ intros d Hd. rewrite getc_setc_other by auto. split; auto.
           ++ apply srv_ok_setc; auto.
           ++ intro d. rewrite getth_setc. reflexivity.
           ++ rewrite getc_setc_same. destruct (Hc c) as [J1 J2 J3 J4 J5 J6 J7].
              destruct (J3 Eacc) as (E1 & E2 & E3 & E4).
              constructor; simpl; auto; try (intro; congruence); try (intros; congruence); try (rewrite E2; auto).
           ++ assert (AP : acc_pre (getc (setc s c (upd_accepted (getc s c))) c)).
              { rewrite getc_setc_same. destruct (Hc c) as [J1 J2 J3 J4 J5 J6 J7].
                destruct (J3 Eacc) as (E1 & E2 & E3 & E4). repeat split; simpl; auto. }
              destruct (init_guarded g) eqn:Eg; apply ioK_norm; auto.
              ** apply LG1; auto.
              ** apply (covb_app_cov [ISetOpts c; IInitGso c; IInitSbl c; IAddChan c; KAccTry c] rest);
                   [eapply covb_head; eauto|eapply covb_tail; eauto].
              ** apply LA1; auto.
              ** apply (covb_app_cov [ISetOpts c; KAccTry c] rest); [eapply covb_head; eauto|eapply covb_tail; eauto].
        -- injection H as <- <-. cbn [app].
           refine (io_finish g s s _ A HS _ _ _ _ _); auto.
           apply ioK_norm; auto; try (apply LT; auto); try (eapply covb_tail; eauto).
      * (* ITrigClose *)
        unfold step in H. rewrite R, H0 in H. cbn [exec] in H.
        destruct (trg_open s); injection H as <- <-; cbn [app]; rewrite ?getth_set_srv.
        -- refine (io_finish g s _ _ A HS _ _ _ _ _).
           ++ intros d _. rewrite getc_set_srv. split; auto.
           ++ destruct Hs as [HL HT]. unfold srv_ok. destruct (set_srv_fields s (lst_in_map s) false (lst_open s) false) as (-> & -> & -> & ->).
              split; auto; intro; discriminate.
           ++ intro d. rewrite getth_set_srv. reflexivity.
           ++ rewrite getc_set_srv. auto.
           ++ apply ioK_norm; auto; try (apply LT; auto); try (eapply covb_tail; eauto).
        -- refine (io_finish g s s _ A HS _ _ _ _ _); auto.
           apply ioK_norm; auto; try (apply LT; auto); try (eapply covb_tail; eauto).
      * (* ILstClose *)
        unfold step in H. rewrite R, H0 in H. cbn [exec] in H. injection H as <- <-. cbn [app]. rewrite ?getth_set_srv.
        refine (io_finish g s _ _ A HS _ _ _ _ _).
        -- intros d _. rewrite getc_set_srv. split; auto.
        -- destruct Hs as [HL HT]. unfold srv_ok. destruct (set_srv_fields s false (trg_in_map s) false (trg_open s)) as (-> & -> & -> & ->).
           split; auto; intro; discriminate.
        -- intro d. rewrite getth_set_srv. reflexivity.
        -- rewrite getc_set_srv. auto.
        -- apply ioK_norm; auto; try (apply LT; auto); try (eapply covb_tail; eauto).
      * (* IHClose *)
        unfold step in H. rewrite R, H0 in H. cbn [exec hclose_body] in H. injection H as <- <-. cbn [app].
        refine (io_finish g s s _ A HS _ _ _ _ _); auto.
        apply ioK_norm; auto; try (apply LC0; auto); try (simpl; eapply covb_tail; eauto).
    + pose proof (io_tail_step g s i rest a HS R H0 Ht Hsp) as TS.
      unfold step in H. rewrite R, H0 in H.
      destruct (exec g IO i a s); [discriminate| |]; injection H as <- <-; exact TS.
  - (* LSel: select() is called *)
    assert (HQ : forall d, quiet (getc s d)).
    { eapply all_quiet; eauto; intros d rr E; rewrite H0 in E; discriminate. }
    unfold step in H. rewrite R, H0 in H. cbn [exec] in H.
    destruct (negb (use_poll2 g) && negb (forallb (fd_open s) e)) eqn:Ec.
    + exfalso. apply andb_true_iff in Ec. destruct Ec as [E1 E2]. apply negb_true_iff in E1, E2.
      rewrite Hopen in E2 by auto. discriminate.
    + injection H as <- <-. cbn [app].
      refine (io_finish g s s _ A HS _ _ _ _ _); auto.
      * eapply chan_ok_quiet; eauto.
      * apply ioK_norm; auto; try (apply LT; auto); try (simpl; eapply covb_tail; eauto).
  - (* LC0: acquire outbuf_lock *)
    step_compute H R H0; tv_case HS H0 c Hc ltac:(apply LC1; auto).
  - (* LC1: close the buffers *)
    step_compute H R H0. rewrite getth_setc. cbn [app].
    refine (io_finish g s _ _ c HS _ _ _ _ _).
    + others_tac HS H0.
    + apply srv_ok_setc; auto.
    + intro d. rewrite getth_setc. reflexivity.
    + rewrite getc_setc_same.
      assert (Q : quiet (getc s c)) by (eapply quiet_of; [apply Hc| |]; intros rr E; rewrite H0 in E; discriminate).
      destruct (Hc c) as [J1 J2 J3 J4 J5 J6 J7]. destruct Q as [Q1 Q2].
      constructor; simpl; auto; chan_fin.
    + apply ioK_norm; auto. apply LC2; auto. rewrite getc_setc_same. reflexivity.
  - (* LC2: notify *)
    step_compute H R H0; tv_case HS H0 c Hc ltac:(apply LC3; auto; rewrite getc_setc_same; exact Hb).
  - (* LC3: release *)
    step_compute H R H0; tv_case HS H0 c Hc ltac:(apply LC4; auto; rewrite getc_setc_same; exact Hb).
  - (* LC4: dispatcher.close flags *)
    step_compute H R H0; tv_case HS H0 c Hc ltac:(apply LC5; auto; rewrite getc_setc_same; exact Hb).
  - (* LC5: `if fd in map` *)
    assert (Q : quiet (getc s c)) by (eapply quiet_of; [apply Hc| |]; intros rr E; rewrite H0 in E; discriminate).
    destruct (Hc c) as [J1 J2 J3 J4 J5 J6 J7]. destruct Q as [Q1 Q2].
    step_compute H R H0; cbn [app].
    + apply andb_true_iff in Heqb. destruct Heqb as [Ef Em].
      refine (io_finish g s _ _ c HS _ _ _ _ _).
      * others_tac HS H0.
      * auto.
      * reflexivity.
      * eapply chan_ok_quiet; [split; eauto|apply Hc].
      * apply ioK_norm; auto. rewrite Ef. apply LC6; auto.
    + refine (io_finish g s _ _ c HS _ _ _ _ _).
      * others_tac HS H0.
      * auto.
      * reflexivity.
      * eapply chan_ok_quiet; [split; eauto|apply Hc].
      * apply ioK_norm; auto. apply LC7; auto.
        -- destruct (in_map (getc s c)) eqn:Em; auto. destruct (J1 eq_refl) as [Ef _]. rewrite Ef in Heqb. discriminate.
        -- intro Ef. destruct (in_act (getc s c)) eqn:Ea; auto. rewrite Q2 in Ef by auto. discriminate.
  - (* LC6: del map[fd] *)
    step_compute H R H0; [|congruence]. rewrite getth_setc. cbn [app].
    refine (io_finish g s _ _ c HS _ _ _ _ _).
    + others_tac HS H0.
    + apply srv_ok_setc; auto.
    + intro d. rewrite getth_setc. reflexivity.
    + rewrite getc_setc_same.
      assert (Q : quiet (getc s c)) by (eapply quiet_of; [apply Hc| |]; intros rr E; rewrite H0 in E; discriminate).
      destruct (Hc c) as [J1 J2 J3 J4 J5 J6 J7]. destruct Q as [Q1 Q2].
      constructor; simpl; auto; chan_fin.
    + apply ioK_norm; auto. apply LC7; auto; rewrite getc_setc_same; simpl; auto. intro; discriminate.
  - (* LC7: self._fileno = None *)
    step_compute H R H0. rewrite getth_setc. cbn [app].
    refine (io_finish g s _ _ c HS _ _ _ _ _).
    + others_tac HS H0.
    + apply srv_ok_setc; auto.
    + intro d. rewrite getth_setc. reflexivity.
    + rewrite getc_setc_same.
      assert (Q : quiet (getc s c)) by (eapply quiet_of; [apply Hc| |]; intros rr E; rewrite H0 in E; discriminate).
      destruct (Hc c) as [J1 J2 J3 J4 J5 J6 J7]. destruct Q as [Q1 Q2].
      constructor; simpl; auto; chan_fin.
      intros Ha _. split; auto. destruct v; [eexists; reflexivity|]. rewrite Hv in Ha by auto. discriminate.
    + apply ioK_norm; auto. apply LC8; auto; rewrite getc_setc_same; simpl; auto.
  - (* LC8: `if fd in ac: del ac[fd]` *)
    destruct (Hc c) as [J1 J2 J3 J4 J5 J6 J7].
    assert (Q1 : sock (getc s c) <> SClosed).
    { intro E. destruct (J7 E) as [_ [rr Er]]. rewrite H0 in Er. discriminate. }
    step_compute H R H0; cbn [app].
    + rewrite getth_setc.
      refine (io_finish g s _ _ c HS _ _ _ _ _).
      * others_tac HS H0.
      * apply srv_ok_setc; auto.
      * intro d. rewrite getth_setc. reflexivity.
      * rewrite getc_setc_same. constructor; simpl; auto; chan_fin.
      * apply ioK_norm; auto. apply LC9; auto; rewrite getc_setc_same; simpl; auto.
    + assert (Ea : in_act (getc s c) = false).
      { destruct v; simpl in Heqb; auto. }
      refine (io_finish g s _ _ c HS _ _ _ _ _).
      * others_tac HS H0.
      * auto.
      * reflexivity.
      * eapply chan_ok_quiet; [split; auto|apply Hc]. intro Ha. congruence.
      * apply ioK_norm; auto. apply LC9; auto.
  - (* LC9: `if self.socket is not None` *)
    destruct (Hc c) as [J1 J2 J3 J4 J5 J6 J7].
    step_compute H R H0; cbn [app].
    + (* open *)
      refine (io_finish g s _ _ c HS _ _ _ _ _).
      * others_tac HS H0.
      * auto.
      * reflexivity.
      * eapply chan_ok_quiet; [split|apply Hc]; [congruence|intro; congruence].
      * apply ioK_norm; auto. apply LC9b; auto.
    + exfalso. destruct (J7 eq_refl) as [_ [rr Er]]. rewrite H0 in Er. discriminate.
    + refine (io_finish g s _ _ c HS _ _ _ _ _).
      * others_tac HS H0.
      * auto.
      * reflexivity.
      * eapply chan_ok_quiet; [split|apply Hc]; [congruence|intro; congruence].
      * apply ioK_norm; auto. apply LT; auto.
  - (* LC9b: self.socket.close() *)
    destruct (Hc c) as [J1 J2 J3 J4 J5 J6 J7].
    step_compute H R H0; try (exfalso; congruence). rewrite getth_setc. cbn [app].
    refine (io_finish g s _ _ c HS _ _ _ _ _).
    + others_tac HS H0.
    + apply srv_ok_setc; auto.
    + intro d. rewrite getth_setc. reflexivity.
    + rewrite getc_setc_same. rewrite (J4 Hso). constructor; simpl; auto; chan_fin.
      all: try (intro Hacc; destruct (J3 Hacc) as (E & _); congruence).
      all: try (intros _; split; auto; eexists; reflexivity).
    + apply ioK_norm; auto. apply LC10; auto; rewrite getc_setc_same; simpl; auto.
  - (* LC10: self.socket = None *)
    step_compute H R H0. rewrite getth_setc. cbn [app].
    destruct (Hc c) as [J1 J2 J3 J4 J5 J6 J7].
    refine (io_finish g s _ _ c HS _ _ _ _ _).
    + others_tac HS H0.
    + apply srv_ok_setc; auto.
    + intro d. rewrite getth_setc. reflexivity.
    + rewrite getc_setc_same. constructor; simpl; auto; chan_fin.
    + apply ioK_norm; auto. apply LT; auto.
  - (* LA1: set_socket_options *)
    assert (HQ : forall d, quiet (getc s d)).
    { eapply all_quiet; eauto; intros d rr E; rewrite H0 in E; discriminate. }
    unfold step in H. rewrite R, H0 in H. cbn [exec] in H.
    destruct a as [| | |ro| | | | | | | |]; try discriminate H. destruct ro as [e|]; injection H as <- <-; cbn [app].
    + refine (io_finish g s s _ A HS _ _ _ _ _); auto.
      * eapply chan_ok_quiet; eauto.
      * apply ioK_raise.
        -- discriminate.
        -- eapply covb_head; eauto.
        -- right. exists c, r. simpl. auto.
        -- eapply covb_tail; eauto.
    + refine (io_finish g s s _ A HS _ _ _ _ _); auto.
      * eapply chan_ok_quiet; eauto.
      * apply ioK_norm; auto; try (apply LA2; auto); try (eapply covb_tail; eauto).
  - (* LA2: leave the try, construct the channel *)
    assert (HQ : forall d, quiet (getc s d)).
    { eapply all_quiet; eauto; intros d rr E; rewrite H0 in E; discriminate. }
    unfold step in H. rewrite R, H0 in H. cbn [exec] in H. destruct (init_guarded g) eqn:Eg; injection H as <- <-.
    { refine (io_finish g s s _ A HS _ _ _ _ _); auto.
      * eapply chan_ok_quiet; eauto.
      * apply ioK_norm; auto; try (apply LT; auto). eapply covb_tail; eauto. }
    refine (io_finish g s s _ A HS _ _ _ _ _); auto.
    * eapply chan_ok_quiet; eauto.
    * apply ioK_norm; auto; try (apply LA3; auto).
      apply (covb_app_cov [IInitGso c; IInitSbl c; IAddChan c] r); [eapply covb_head; eauto|eapply covb_tail; eauto].
  - (* LA3: getsockopt(SO_SNDBUF) *)
    assert (HQ : forall d, quiet (getc s d)).
    { eapply all_quiet; eauto; intros d rr E; rewrite H0 in E; discriminate. }
    unfold step in H. rewrite R, H0 in H. cbn [exec] in H.
    destruct a as [| | |ro| | | | | | | |]; try discriminate H. destruct ro as [e|]; injection H as <- <-; cbn [app].
    + refine (io_finish g s s _ A HS _ _ _ _ _); auto.
      * eapply chan_ok_quiet; eauto.
      * apply ioK_raise.
        -- discriminate.
        -- eapply covb_head; eauto.
        -- left. simpl. apply tail_ok_drop. auto.
        -- eapply covb_tail; eauto.
    + refine (io_finish g s s _ A HS _ _ _ _ _); auto.
      * eapply chan_ok_quiet; eauto.
      * apply ioK_norm; auto; try (apply LA4; auto); try (eapply covb_tail; eauto).
  - (* LA4: setblocking(0) *)
    assert (HQ : forall d, quiet (getc s d)).
    { eapply all_quiet; eauto; intros d rr E; rewrite H0 in E; discriminate. }
    unfold step in H. rewrite R, H0 in H. cbn [exec] in H.
    destruct a as [| | |ro| | | | | | | |]; try discriminate H. destruct ro as [e|]; injection H as <- <-; cbn [app].
    + refine (io_finish g s s _ A HS _ _ _ _ _); auto.
      * eapply chan_ok_quiet; eauto.
      * apply ioK_raise.
        -- discriminate.
        -- eapply covb_head; eauto.
        -- left. simpl. apply tail_ok_drop. auto.
        -- eapply covb_tail; eauto.
    + refine (io_finish g s s _ A HS _ _ _ _ _); auto.
      * eapply chan_ok_quiet; eauto.
      * apply ioK_norm; auto; try (apply LA5; auto); try (eapply covb_tail; eauto).
  - (* LA5: add_channel *)
    unfold step in H. rewrite R, H0 in H. cbn [exec] in H. injection H as <- <-. rewrite getth_setc. cbn [app].
    destruct Hp as (P1 & P2 & P3 & P4 & P5).
    refine (io_finish g s _ _ c HS _ _ _ _ _).
    + others_tac HS H0.
    + apply srv_ok_setc; auto.
    + intro d. rewrite getth_setc. reflexivity.
    + rewrite getc_setc_same. constructor; simpl; auto; try (intro; congruence); try (intros; congruence).
      all: try (intros; lia).
    + apply ioK_norm; auto; try (apply LT; auto); try (eapply covb_tail; eauto).
  - (* LG1: set_socket_options, inside the try that also covers the constructor *)
    assert (HQ : forall d, quiet (getc s d)).
    { eapply all_quiet; eauto; intros d rr E; rewrite H0 in E; discriminate. }
    unfold step in H. rewrite R, H0 in H. cbn [exec] in H.
    destruct a as [| | |ro| | | | | | | |]; try discriminate H. destruct ro as [e|]; injection H as <- <-; cbn [app].
    + refine (io_finish g s s _ A HS _ _ _ _ _); auto.
      * eapply chan_ok_quiet; eauto.
      * apply ioK_raise.
        -- discriminate.
        -- eapply covb_head; eauto.
        -- right. exists c, r. simpl. auto.
        -- eapply covb_tail; eauto.
    + refine (io_finish g s s _ A HS _ _ _ _ _); auto.
      * eapply chan_ok_quiet; eauto.
      * apply ioK_norm; auto; try (apply LG2; auto); try (eapply covb_tail; eauto).
  - (* LG2: getsockopt(SO_SNDBUF) inside the try *)
    assert (HQ : forall d, quiet (getc s d)).
    { eapply all_quiet; eauto; intros d rr E; rewrite H0 in E; discriminate. }
    unfold step in H. rewrite R, H0 in H. cbn [exec] in H.
    destruct a as [| | |ro| | | | | | | |]; try discriminate H. destruct ro as [e|]; injection H as <- <-; cbn [app].
    + refine (io_finish g s s _ A HS _ _ _ _ _); auto.
      * eapply chan_ok_quiet; eauto.
      * apply ioK_raise.
        -- discriminate.
        -- eapply covb_head; eauto.
        -- right. exists c, r. simpl. auto.
        -- eapply covb_tail; eauto.
    + refine (io_finish g s s _ A HS _ _ _ _ _); auto.
      * eapply chan_ok_quiet; eauto.
      * apply ioK_norm; auto; try (apply LG3; auto); try (eapply covb_tail; eauto).
  - (* LG3: setblocking(0) inside the try *)
    assert (HQ : forall d, quiet (getc s d)).
    { eapply all_quiet; eauto; intros d rr E; rewrite H0 in E; discriminate. }
    unfold step in H. rewrite R, H0 in H. cbn [exec] in H.
    destruct a as [| | |ro| | | | | | | |]; try discriminate H. destruct ro as [e|]; injection H as <- <-; cbn [app].
    + refine (io_finish g s s _ A HS _ _ _ _ _); auto.
      * eapply chan_ok_quiet; eauto.
      * apply ioK_raise.
        -- discriminate.
        -- eapply covb_head; eauto.
        -- right. exists c, r. simpl. auto.
        -- eapply covb_tail; eauto.
    + refine (io_finish g s s _ A HS _ _ _ _ _); auto.
      * eapply chan_ok_quiet; eauto.
      * apply ioK_norm; auto; try (apply LG4; auto); try (eapply covb_tail; eauto).
  - (* LG4: add_channel inside the try *)
    unfold step in H. rewrite R, H0 in H. cbn [exec] in H. injection H as <- <-. rewrite getth_setc. cbn [app].
    destruct Hp as (P1 & P2 & P3 & P4 & P5).
    refine (io_finish g s _ _ c HS _ _ _ _ _).
    + others_tac HS H0.
    + apply srv_ok_setc; auto.
    + intro d. rewrite getth_setc. reflexivity.
    + rewrite getc_setc_same. constructor; simpl; auto; try (intro; congruence); try (intros; congruence).
      all: try (intros; lia).
    + apply ioK_norm; auto; try (apply LG5; auto); try (eapply covb_tail; eauto).
  - (* LG5: leave the try *)
    assert (HQ : forall d, quiet (getc s d)).
    { eapply all_quiet; eauto; intros d rr E; rewrite H0 in E; discriminate. }
    unfold step in H. rewrite R, H0 in H. cbn [exec] in H. rewrite Hg in H. injection H as <- <-.
    refine (io_finish g s s _ A HS _ _ _ _ _); auto.
    * eapply chan_ok_quiet; eauto.
    * apply ioK_norm; auto; try (apply LT; auto). eapply covb_tail; eauto.
Qed.


(* labels and the close counter of a normal I/O step *)
Lemma io_norm_labels : forall g s a s' l,
  raising (getth s IO) = None -> step g s (IO, a) = Some (s', l) ->
  labels_by IO l = true /\ forall c, nclose (getc s' c) = nclose (getc s c) + closes c l.
Proof.
  intros g s a s' l R H. unfold step in H. rewrite R in H.
  destruct (stk (getth s IO)) as [|i rest]; [discriminate|].
  pose proof (exec_gen g IO i a s) as EG.
  assert (EC : forall c, match exec g IO i a s with Blocked => True
                         | Norm s1 _ ls | Raise s1 _ ls => nclose (getc s1 c) = nclose (getc s c) + closes c ls end)
    by (intro c; apply exec_closes).
  destruct (exec g IO i a s) as [|s1 push ls|s1 x ls]; [discriminate| |]; injection H as <- <-.
  - split; [tauto|]. intro c. rewrite getc_setth. apply (EC c).
  - split; [tauto|]. intro c. rewrite getc_setth. apply (EC c).
Qed.

Lemma SInv_init : forall g, SInv g init.
Proof.
  intro g. split; [|split; [|split]].
  - intros [|]; reflexivity.
  - intros [|]; constructor; simpl; auto; try (intro; discriminate); try (intros; congruence).
  - split; reflexivity.
  - constructor; simpl; auto.
    + intros _. apply LT. reflexivity.
    + intros x E. discriminate.
Qed.

Lemma OInv_step : forall g s tr ch s' l, OInv g s tr -> step g s ch = Some (s', l) -> OInv g s' (tr ++ l).
Proof.
  intros g s tr [t a] s' l Inv H Hno.
  assert (Hn1 : no_wcont tr \/ wc_close g = false).
  { destruct Hno as [Hno|Hno]; auto. apply no_wcont_app in Hno. tauto. }
  assert (Hn2 : has_wcont l = false \/ wc_close g = false).
  { destruct Hno as [Hno|Hno]; auto. apply no_wcont_app in Hno. left. apply has_wcont_no. tauto. }
  destruct (Inv Hn1) as (HS & Hio & Hnd & Hcl). clear Inv.
  destruct t as [|c].
  - destruct (raising (getth s IO)) as [x|] eqn:R.
    + destruct (io_raise_step g s a s' l x HS R H) as (HS' & Hl & Hc).
      destruct (labels_by_io_facts _ Hl) as [L1 L2].
      split; [auto|split; [|split]].
      * apply io_only_app; auto.
      * apply no_died_app; auto.
      * intro d. rewrite closes_app, Hcl, Hc. reflexivity.
    + pose proof (io_norm_step g s a s' l HS R H) as HS'.
      destruct (io_norm_labels g s a s' l R H) as (Hl & Hc).
      destruct (labels_by_io_facts _ Hl) as [L1 L2].
      split; [auto|split; [|split]].
      * apply io_only_app; auto.
      * apply no_died_app; auto.
      * intro d. rewrite closes_app, Hcl, Hc. reflexivity.
  - destruct (worker_step g s c a s' l HS H Hn2) as (HS' & Ht & Hf).
    destruct (teardown_free_facts _ Hf) as (L1 & L2 & L3).
    split; [auto|split; [|split]].
    + apply io_only_app; auto.
    + apply no_died_app; auto.
    + intro d. rewrite closes_app, Hcl, L3, Nat.add_0_r.
      destruct (tv_fields _ _ (tvs_getc _ _ d Ht)) as (_ & _ & _ & _ & _ & _ & E). auto.
Qed.

Lemma OInv_all : forall g sched, OInv g (ChanFault.run g sched) (ChanFault.trace g sched).
Proof.
  intros g sched. apply (inv_rule_tr g (OInv g)).
  - intros _. split; [apply SInv_init|split; [|split]].
    + intros l t [].
    + intros x [].
    + intros [|]; reflexivity.
  - apply OInv_step.
Qed.

(* C13_once outside F18 *)
Theorem once_partial : forall g sched,
  no_wcont (ChanFault.trace g sched) ->
  once_ok (ChanFault.run g sched) (ChanFault.trace g sched).
Proof.
  intros g sched Hn. destruct (OInv_all g sched (or_introl Hn)) as ((_ & Hc & _) & Hio & _ & Hcl).
  split; auto. intro c. destruct (Hc c) as [J1 J2 J3 J4 J5 J6 J7]. split.
  - rewrite Hcl. auto.
  - exact J6.
Qed.

(* ... and with the repair of F18 (service() reaches _flush_some with do_close=False) the
   statement holds for EVERY execution *)
Theorem once_repaired : forall g sched,
  wc_close g = false -> once_ok (ChanFault.run g sched) (ChanFault.trace g sched).
Proof.
  intros g sched Hn. destruct (OInv_all g sched (or_intror Hn)) as ((_ & Hc & _) & Hio & _ & Hcl).
  split; auto. intro c. destruct (Hc c) as [J1 J2 J3 J4 J5 J6 J7]. split.
  - rewrite Hcl. auto.
  - exact J6.
Qed.

(* C13_loop outside F18 *)
Theorem loop_partial : forall g sched,
  no_wcont (ChanFault.trace g sched) -> loop_ok (ChanFault.trace g sched).
Proof.
  intros g sched Hn. destruct (OInv_all g sched (or_introl Hn)) as (_ & _ & Hnd & _).
  intros x Hin. exfalso. eapply Hnd; eauto.
Qed.

Theorem loop_repaired : forall g sched,
  wc_close g = false -> loop_ok (ChanFault.trace g sched).
Proof.
  intros g sched Hn. destruct (OInv_all g sched (or_intror Hn)) as (_ & _ & Hnd & _).
  intros x Hin. exfalso. eapply Hnd; eauto.
Qed.

(* the state facts behind the theorems, for every reachable state of such an execution:
   a descriptor that is polled is open, and a closed one is not polled *)
Theorem polled_is_open : forall g sched c,
  no_wcont (ChanFault.trace g sched) ->
  in_map (getc (ChanFault.run g sched) c) = true -> sock (getc (ChanFault.run g sched) c) = SOpen.
Proof.
  intros g sched c Hn Hm. destruct (OInv_all g sched (or_introl Hn)) as ((_ & Hc & _) & _).
  destruct (Hc c) as [J1 _ _ _ _ _ _]. apply J1. auto.
Qed.
