(* String and list lemmas used by the C16 proofs: the fuelled / index based
   Python primitives of Lib/PyBytes.v (find, partition, rsplit) against the
   structurally recursive vocabulary of Spec/ProxySpec.v, the monadic list
   traversals of the model, and l[-k:]. *)
From Coq Require Import List NArith ZArith Bool Lia Arith.
From WV Require Import Lib.PyBytes Lib.PyStrProxy Model.Proxy Spec.ProxySpec Proof.ProxyDict.
Import ListNotations.
Local Open Scope N_scope.

(* ---- single character search -------------------------------------------- *)
Lemma startswith_char s c : startswith s [c] = match s with y :: _ => c =? y | [] => false end.
Proof. destruct s as [|y s]; cbn [startswith]; auto. destruct s; apply andb_true_r. Qed.

Lemma memb_cons c y s : memb c (y :: s) = (c =? y) || memb c s.
Proof. reflexivity. Qed.

Lemma find_from_char c s i :
  find_from s [c] i = if memb c s then Some (i + List.length (take_until c s))%nat else None.
Proof.
  revert i. induction s as [|y s IH]; intro i.
  - reflexivity.
  - cbn [find_from]. rewrite startswith_char, memb_cons. cbn [take_until].
    rewrite (N.eqb_sym y c). destruct (c =? y) eqn:E; cbn [orb].
    + simpl. f_equal. lia.
    + rewrite IH. destruct (memb c s); auto. simpl. f_equal. lia.
Qed.

Lemma take_drop c s : memb c s = true -> s = take_until c s ++ c :: drop_through c s.
Proof.
  induction s as [|y s IH]; simpl; [discriminate|].
  rewrite (N.eqb_sym y c). destruct (c =? y) eqn:E; simpl.
  - intros _. apply N.eqb_eq in E. subst. reflexivity.
  - intro H. f_equal. auto.
Qed.

Lemma partition_char c s :
  partition s [c] = if memb c s then (take_until c s, [c], drop_through c s) else (s, [], []).
Proof.
  unfold partition, find. rewrite find_from_char. destruct (memb c s) eqn:E; auto.
  pose proof (take_drop c s E) as H. simpl.
  assert (H1 : firstn (List.length (take_until c s)) s = take_until c s).
  { rewrite H at 2. rewrite firstn_app, Nat.sub_diag, firstn_all. simpl. apply app_nil_r. }
  assert (H2 : skipn (List.length (take_until c s) + 1) s = drop_through c s).
  { rewrite H at 2. rewrite skipn_app.
    replace (List.length (take_until c s) + 1 - List.length (take_until c s))%nat with 1%nat by lia.
    rewrite skipn_all2 by lia. reflexivity. }
  rewrite H1, H2. reflexivity.
Qed.

Lemma take_until_no c s : memb c s = false -> take_until c s = s.
Proof.
  induction s as [|y s IH]; simpl; auto. rewrite (N.eqb_sym y c).
  destruct (c =? y); simpl; [discriminate|]. intro H. f_equal. auto.
Qed.

(* ---- last occurrence ------------------------------------------------------ *)
Lemma rfind_from_char c s i best :
  rfind_from s [c] i best =
  match split_last c s with Some (a, _) => Some (i + List.length a)%nat | None => best end.
Proof.
  revert i best. induction s as [|y s IH]; intros i best.
  - reflexivity.
  - cbn [rfind_from split_last]. rewrite startswith_char, IH.
    destruct (split_last c s) as [[a b]|].
    + simpl. f_equal. lia.
    + rewrite (N.eqb_sym y c). destruct (c =? y); simpl; auto; f_equal; lia.
Qed.

Lemma split_last_app c s a b : split_last c s = Some (a, b) -> s = a ++ c :: b.
Proof.
  revert a b. induction s as [|y s IH]; intros a b; simpl; [discriminate|].
  destruct (split_last c s) as [[a' b']|].
  - intro H. injection H as <- <-. simpl. f_equal. auto.
  - destruct (y =? c) eqn:E; [|discriminate]. intro H. injection H as <- <-.
    apply N.eqb_eq in E. subst. reflexivity.
Qed.

Lemma split_last_none c s : split_last c s = None <-> memb c s = false.
Proof.
  induction s as [|y s IH]; simpl; [tauto|].
  rewrite (N.eqb_sym c y). destruct (split_last c s) as [[a b]|].
  - split; [discriminate|]. intro H. apply orb_false_iff in H as [_ H]. apply IH in H. discriminate.
  - destruct (y =? c); simpl; split; try discriminate; auto. intros _. apply IH. reflexivity.
Qed.

Lemma rsplit1_char c s :
  rsplit1 s [c] = match split_last c s with Some (a, b) => [a; b] | None => [s] end.
Proof.
  unfold rsplit1, rfind. rewrite rfind_from_char.
  destruct (split_last c s) as [[a b]|] eqn:E; auto.
  apply split_last_app in E. subst s. simpl.
  rewrite firstn_app, Nat.sub_diag, firstn_all. simpl. rewrite app_nil_r.
  rewrite skipn_app. replace (List.length a + 1 - List.length a)%nat with 1%nat by lia.
  rewrite skipn_all2 by lia. reflexivity.
Qed.

Lemma rsplit1_has c s : memb c s = true ->
  rsplit1 s [c] = [before_last c s; after_last c s].
Proof.
  intro H. rewrite rsplit1_char. unfold before_last, after_last.
  destruct (split_last c s) as [[a b]|] eqn:E; auto.
  apply split_last_none in E. congruence.
Qed.

(* ---- s[-1] ----------------------------------------------------------------- *)
Lemma last_opt_truthy s : truthy s = true -> exists x, last_opt s = Some x.
Proof.
  induction s as [|y s IH]; simpl; [discriminate|]. intros _.
  destruct s as [|z s]; [eauto|]. apply IH. reflexivity.
Qed.

Lemma last_opt_none s : last_opt s = None -> s = [].
Proof.
  destruct s as [|y s]; auto. intro H.
  destruct (last_opt_truthy (y :: s) eq_refl) as [x Hx]. congruence.
Qed.

Lemma truthy_false s : truthy s = false <-> s = [].
Proof. destruct s; simpl; split; congruence. Qed.

Lemma truthy_true s : truthy s = true <-> s <> [].
Proof. destruct s; simpl; split; congruence. Qed.

(* ---- mapM / foldM ---------------------------------------------------------- *)
Section MapM.
  Context {A B : Type} (f : A -> result B).

  Lemma mapM_cons x l : mapM f (x :: l) = bind (f x) (fun y => bind (mapM f l) (fun ys => Ok (y :: ys))).
  Proof. reflexivity. Qed.

  Lemma mapM_ok_length l l' : mapM f l = Ok l' -> List.length l' = List.length l.
  Proof.
    revert l'. induction l as [|x l IH]; intros l'; simpl.
    - intro H. injection H as <-. reflexivity.
    - destruct (f x) as [y| |]; simpl; try discriminate.
      destruct (mapM f l) as [ys| |]; simpl; try discriminate.
      intro H. injection H as <-. simpl. f_equal. auto.
  Qed.

  Lemma mapM_ok_nth l l' i y : mapM f l = Ok l' -> nth_error l' i = Some y ->
    exists x, nth_error l i = Some x /\ f x = Ok y.
  Proof.
    revert l' i. induction l as [|x l IH]; intros l' i; simpl.
    - intro H. injection H as <-. destruct i; discriminate.
    - destruct (f x) as [y0| |] eqn:Ef; simpl; try discriminate.
      destruct (mapM f l) as [ys| |] eqn:Em; simpl; try discriminate.
      intro H. injection H as <-. destruct i; simpl.
      + intro H. injection H as ->. eauto.
      + intro H. eapply IH; eauto.
  Qed.

  Lemma mapM_ok_skipn l l' i : mapM f l = Ok l' -> mapM f (skipn i l) = Ok (skipn i l').
  Proof.
    revert l l'. induction i as [|i IH]; intros l l' H; [exact H|].
    destruct l as [|x l]; simpl in *.
    - injection H as <-. reflexivity.
    - destruct (f x) as [y0| |]; simpl in H; try discriminate.
      destruct (mapM f l) as [ys| |] eqn:Em; simpl in H; try discriminate.
      injection H as <-. simpl. apply IH. exact Em.
  Qed.

  Lemma mapM_ok_forall l l' : mapM f l = Ok l' -> forall x, In x l -> exists y, f x = Ok y.
  Proof.
    revert l'. induction l as [|x l IH]; intros l'; simpl; [tauto|].
    destruct (f x) as [y0| |] eqn:Ef; simpl; try discriminate.
    destruct (mapM f l) as [ys| |] eqn:Em; simpl; try discriminate.
    intros _ x' [<-|Hin]; eauto.
  Qed.

  (* an element on which f raises makes the traversal raise (f never yields Malformed here) *)
  Lemma mapM_exn l x e : In x l -> f x = Exn e -> (forall a h, f a <> Malformed h) ->
    exists e', mapM f l = Exn e'.
  Proof.
    intros Hin Hx Hm. induction l as [|a l IH]; [destruct Hin|].
    simpl. destruct Hin as [->|Hin].
    - rewrite Hx. simpl. eauto.
    - destruct (f a) as [y| |] eqn:Ea; simpl; eauto.
      + destruct (IH Hin) as [e' ->]. simpl. eauto.
      + exfalso. eapply Hm; eauto.
  Qed.

  Lemma mapM_no_malformed l : (forall a h, f a <> Malformed h) -> forall h, mapM f l <> Malformed h.
  Proof.
    intros Hm. induction l as [|a l IH]; intros h; simpl; [discriminate|].
    destruct (f a) as [y| |] eqn:Ea; simpl; try discriminate.
    - destruct (mapM f l) as [ys| |] eqn:Em; simpl; try discriminate. intro H. injection H as ->. eapply IH; eauto.
    - intro H. injection H as ->. eapply Hm; eauto.
  Qed.

  Lemma mapM_all_ok l : (forall x, In x l -> exists y, f x = Ok y) -> exists l', mapM f l = Ok l'.
  Proof.
    induction l as [|a l IH]; intro H; simpl; [eauto|].
    destruct (H a (or_introl eq_refl)) as [y ->]. simpl.
    destruct IH as [l' ->]; [intros; apply H; right; auto|]. simpl. eauto.
  Qed.
End MapM.

(* ---- l[-k:] ------------------------------------------------------------------ *)
Lemma py_lastk_pos {A} (l : list A) p : py_lastk l (Zpos p) = suffix l (Pos.to_nat p).
Proof.
  unfold py_lastk, last_k, suffix, pick_index. f_equal.
  destruct (Nat.min_spec (Pos.to_nat p) (List.length l)) as [[? ->]|[? ->]]; lia.
Qed.

Lemma suffix_hd {A} (l : list A) k : hd_error (suffix l k) = pick l k.
Proof.
  unfold suffix, pick. generalize (pick_index (List.length l) k). intro i.
  revert l. induction i as [|i IH]; intros l; destruct l; simpl; auto.
Qed.

Lemma pick_some {A} (l : list A) k : l <> [] -> (1 <= k)%nat -> exists x, pick l k = Some x.
Proof.
  intros Hl Hk. unfold pick, pick_index.
  destruct (nth_error l (List.length l - Nat.min k (List.length l))) eqn:E; eauto.
  apply nth_error_None in E. destruct l as [|a l]; [congruence|].
  remember (List.length (a :: l)) as n eqn:Hn. assert (1 <= n)%nat by (subst n; simpl; lia).
  destruct (Nat.min_spec k n) as [[? Hm]|[? Hm]]; rewrite Hm in E; lia.
Qed.

Lemma suffix_nonempty {A} (l : list A) k : l <> [] -> (1 <= k)%nat -> suffix l k <> [].
Proof.
  intros Hl Hk H. destruct (pick_some l k Hl Hk) as [x Hx].
  rewrite <- suffix_hd, H in Hx. discriminate.
Qed.

Lemma suffix_last {A} (l : list A) k d : l <> [] -> (1 <= k)%nat -> last (suffix l k) d = last l d.
Proof.
  intros Hl Hk. unfold suffix, pick_index.
  assert (Hi : (List.length l - Nat.min k (List.length l) < List.length l)%nat).
  { destruct l as [|a l]; [congruence|].
    remember (List.length (a :: l)) as n eqn:Hn. assert (1 <= n)%nat by (subst n; simpl; lia).
    destruct (Nat.min_spec k n) as [[? ->]|[? ->]]; lia. }
  revert Hi. generalize (List.length l - Nat.min k (List.length l))%nat. intro i.
  revert l Hl. induction i as [|i IH]; intros l Hl Hi; [reflexivity|].
  destruct l as [|x l]; [congruence|]. simpl in Hi.
  cbn [skipn]. destruct l as [|y l]; [simpl in Hi; lia|].
  rewrite IH; [reflexivity|discriminate|simpl in *; lia].
Qed.

Lemma suffix_suffix_of {A} (l : list A) k : exists pre, l = pre ++ suffix l k.
Proof. unfold suffix. exists (firstn (pick_index (List.length l) k) l). symmetry. apply firstn_skipn. Qed.

Lemma split_nonempty s sep : split s sep <> [].
Proof.
  unfold split. generalize (S (List.length s)). intro fuel. revert s.
  destruct fuel; intro s; simpl; [discriminate|].
  destruct (find s sep); discriminate.
Qed.

(* ---- first_nonempty ----------------------------------------------------------- *)
Lemma first_nonempty_nil l : first_nonempty l = [] -> forall x, In x l -> x = [].
Proof.
  induction l as [|a l IH]; simpl; [tauto|].
  destruct a; [|discriminate]. intros H x [<-|Hin]; auto.
Qed.

Lemma first_nonempty_in l : first_nonempty l <> [] -> In (first_nonempty l) l.
Proof.
  induction l as [|a l IH]; simpl; [congruence|].
  destruct a; auto.
Qed.
