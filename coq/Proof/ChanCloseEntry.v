(* Proof/ChanCloseEntry.v -- the converse of "a dispatcher entry implies requests <> []": while the
   channel is connected, a non-empty `requests` is always held by somebody -- a dispatcher entry,
   a worker inside service() before its hand-over point, the I/O thread between its append and
   its add_task, or a cancel() in progress.  (So the chain "the finishing worker submits the
   next request" never drops a buffered request, which is what makes "buffered behind the
   decision" meaningful.) *)
From Coq Require Import List Arith Bool Lia.
From WV Require Import Lib.Conc Model.ChanClose Proof.ChanCloseBase Proof.ChanCloseTok Proof.ChanCloseInv.
Import ListNotations.

(* nobody holds the channel: no dispatcher entry, no worker inside service() before its hand-over
   point, the I/O thread not about to submit, no cancel() in progress *)
Definition notok (s : state) : Prop :=
  queue s = 0 /\ (forall w, active (wk s w) = false) /\ ~ tokio s /\ sd s = SdIdle.

Definition Entry (s : state) : Prop := conn s = true -> notok s -> reqs s = [].

Lemma inactive_others : forall s w p,
  (forall w0, active (if w0 =? w then p else wk s w0) = false) ->
  active (wk s w) = false -> forall w0, active (wk s w0) = false.
Proof.
  intros s w p H A w0. destruct (Nat.eqb_spec w0 w) as [->|N]; auto.
  specialize (H w0). rewrite (proj2 (Nat.eqb_neq w0 w) N) in H. exact H.
Qed.

Lemma at_w : forall s w p,
  (forall w0, active (if w0 =? w then p else wk s w0) = false) -> active p = false.
Proof. intros s w p H. specialize (H w). rewrite Nat.eqb_refl in H. exact H. Qed.

Lemma Entry_step : forall s c s' l, Inv s -> Entry s -> step s c = Some (s', l) -> Entry s'.
Proof.
  intros s c s' l I E H. unfold Entry, notok in *.
  destruct c as [e|w e|]; simpl in H.
  - destruct (i_mret s I) as [MR|MR]; io_cases H; prep; intros C (Q & A & T & S);
    try solve [apply E; auto; repeat split; auto; intuition (try congruence; try discriminate; try lia)];
    try solve [exfalso; intuition (try congruence; try discriminate; try lia)];
    try assumption.
    all: try solve [exfalso; apply T; right; split; [reflexivity|]; rewrite E;
                    [reflexivity | assumption | repeat split; auto; intros [X|[X _]]; discriminate X]].
  - wk_cases H; prep; intros C (Q & A & T & S); try solve [exfalso; act_contra];
    try (pose proof (at_w _ _ _ A) as AW; simpl in AW); try discriminate;
    try solve [reflexivity]; try solve [congruence]; try solve [exfalso; lia].
    all: try solve [apply E; auto; repeat split; auto; eapply inactive_others; eauto; rewrite Heqw0; reflexivity].
  - sd_cases H; prep; intros C (Q & A & T & S); try discriminate; try congruence; try reflexivity.
Qed.

Lemma Entry_init : forall L, Entry (init L).
Proof. intros L _ _. reflexivity. Qed.

Theorem Entry_run : forall L sched, Entry (run step (init L) sched).
Proof.
  intros L sched.
  pose proof (invariant_rule _ _ _ step (fun s => Inv s /\ Entry s) (init L)) as R.
  apply R.
  - split; [apply Inv_init | apply Entry_init].
  - intros s c s' l [I E] H. split; [eapply Inv_step; eauto | eapply Entry_step; eauto].
Qed.
