(* C17, layer 1: files and FileBasedBuffer.  Each method, on a buffer that
   satisfies the representation invariant, is characterised exactly in terms of
   the bytes it stands for ([fb_abs]). *)
From Coq Require Import List NArith ZArith Bool Lia ZifyBool Arith.
From WV Require Import Lib.PyBytes Model.Buffers Spec.Fifo.
Import ListNotations.
Local Open Scope Z_scope.

(* representation invariant of a file based buffer: the file is open, the read
   position is inside the content, and remain counts the bytes after it *)
Definition fb_inv (b : fbuf) : Prop :=
  f_closed (fb_file b) = false /\
  (f_pos (fb_file b) <= length (f_content (fb_file b)))%nat /\
  fb_remain b = Z.of_nat (length (f_content (fb_file b))) - Z.of_nat (f_pos (fb_file b)).

(* the bytes a file based buffer stands for *)
Definition fb_abs (b : fbuf) : list N := skipn (f_pos (fb_file b)) (f_content (fb_file b)).

Lemma fb_abs_len b : fb_inv b -> fb_remain b = q_len (fb_abs b).
Proof.
  intros (_ & Hp & Hr). unfold fb_abs, q_len. rewrite skipn_length. lia.
Qed.

(* ------------------------------------------------------------- files --- *)

Lemma f_write_at_end c cl s :
  f_write (mkfile c (length c) cl) s = mkfile (c ++ s) (length c + length s) cl.
Proof.
  unfold f_write; cbn [f_content f_pos f_closed].
  rewrite firstn_all, Nat.sub_diag. cbn [repeat app].
  rewrite skipn_all2 by lia. now rewrite app_nil_r.
Qed.

Lemma f_write_new data : f_write newfile data = mkfile data (length data) false.
Proof. exact (f_write_at_end [] false data). Qed.

Lemma skipn_app_le {A} n (l1 l2 : list A) : (n <= length l1)%nat -> skipn n (l1 ++ l2) = skipn n l1 ++ l2.
Proof.
  intro H. rewrite skipn_app. replace (n - length l1)%nat with 0%nat by lia. reflexivity.
Qed.

Lemma skipn_skipn {A} x y (l : list A) : skipn x (skipn y l) = skipn (x + y) l.
Proof.
  revert l; induction y as [|y IH]; intro l.
  - now rewrite Nat.add_0_r.
  - rewrite Nat.add_succ_r. destruct l as [|a l]; [now rewrite !skipn_nil | cbn [skipn]; apply IH].
Qed.

Lemma firstn_length_le' {A} n (l : list A) : (length (firstn n l) <= length l)%nat.
Proof. rewrite firstn_length. lia. Qed.

Lemma q_peek_length_le n q : (length (q_peek n q) <= length q)%nat.
Proof. unfold q_peek. destruct (n <? 0); [lia | apply firstn_length_le']. Qed.

Lemma q_peek_prefix n q : is_prefix (q_peek n q) q.
Proof.
  unfold q_peek, is_prefix. destruct (n <? 0).
  - exists []. now rewrite app_nil_r.
  - exists (skipn (Z.to_nat n) q). now rewrite firstn_skipn.
Qed.

(* ------------------------------------------------ FileBasedBuffer --- *)

Lemma fb_inv_fresh k : fb_inv (mkfbuf k newfile 0).
Proof. repeat split; cbn; lia. Qed.

Lemma fb_init_none k : fb_init FNone k None = InitOk (mkfbuf k newfile 0).
Proof. reflexivity. Qed.

(* migration: the whole content is copied and the read position restored, so
   the new buffer wraps a file equal to the old one *)
Lemma fb_init_copy k b : fb_inv b ->
  fb_init FNone k (Some b) = InitOk (mkfbuf k (fb_file b) (fb_remain b)).
Proof.
  intros (Hc & Hp & Hr). destruct b as [k0 [c p cl] r]. cbn in *. subst cl.
  unfold fb_init, f_read_all. cbn [fb_file f_closed f_tell f_pos f_seek_set f_content skipn].
  rewrite f_write_new. cbn [f_tell f_pos f_seek_set f_content f_closed].
  now rewrite Hr.
Qed.

Lemma fb_append_spec b s : fb_inv b ->
  exists b', fb_append false b s = Ok b' /\ fb_inv b' /\ fb_abs b' = fb_abs b ++ s /\
             fb_kind b' = fb_kind b /\ f_pos (fb_file b') = f_pos (fb_file b) /\
             f_content (fb_file b') = f_content (fb_file b) ++ s /\
             fb_remain b' = fb_remain b + lenZ s.
Proof.
  intros (Hc & Hp & Hr). destruct b as [k [c p cl] r]. cbn in *. subst cl.
  unfold fb_append, f_seek_end, f_tell, f_seek_set. cbn [fb_file f_closed f_tell f_pos f_seek_end f_seek_set f_content fb_kind fb_remain].
  rewrite f_write_at_end. cbn [f_seek_set f_content f_closed].
  eexists; split; [reflexivity|].
  unfold fb_inv, fb_abs, lenZ; cbn. rewrite app_length.
  repeat split; try lia. now apply skipn_app_le.
Qed.

Lemma fb_get_noskip b n : fb_inv b ->
  fb_get b n false = Ok (b, q_peek n (fb_abs b)).
Proof.
  intros (Hc & Hp & Hr). destruct b as [k [c p cl] r]. cbn in *. subst cl.
  unfold fb_get, fb_abs, q_peek, f_read_all, f_read_n, f_tell, f_seek_set.
  cbn [fb_file f_closed f_tell f_pos f_seek_set f_content fb_kind fb_remain].
  destruct (n <? 0); reflexivity.
Qed.

Lemma fb_get_skip b n : fb_inv b ->
  exists b', fb_get b n true = Ok (b', q_peek n (fb_abs b)) /\ fb_inv b' /\
             fb_abs b' = skipn (length (q_peek n (fb_abs b))) (fb_abs b) /\
             fb_kind b' = fb_kind b /\
             f_content (fb_file b') = f_content (fb_file b) /\
             f_pos (fb_file b') = (f_pos (fb_file b) + length (q_peek n (fb_abs b)))%nat /\
             fb_remain b' = fb_remain b - lenZ (q_peek n (fb_abs b)).
Proof.
  intros (Hc & Hp & Hr). destruct b as [k [c p cl] r]. cbn in *. subst cl.
  pose proof (q_peek_length_le n (skipn p c)) as Hle. rewrite skipn_length in Hle.
  unfold fb_get, fb_abs, f_read_all, f_read_n, f_tell, f_seek_set.
  cbn [fb_file f_closed f_tell f_pos f_seek_set f_content fb_kind fb_remain].
  unfold q_peek in *.
  destruct (n <? 0); (eexists; split; [reflexivity|]);
    unfold fb_inv, fb_abs, lenZ; cbn [fb_file f_closed f_tell f_pos f_seek_set f_content fb_kind fb_remain];
    rewrite skipn_skipn; repeat split; try lia; f_equal; lia.
Qed.

Lemma fb_skip_ok b n : fb_inv b -> Z.of_N n <= fb_remain b ->
  exists b', fb_skip b n = Ok b' /\ fb_inv b' /\
             fb_abs b' = skipn (N.to_nat n) (fb_abs b) /\ fb_kind b' = fb_kind b /\
             f_content (fb_file b') = f_content (fb_file b) /\
             f_pos (fb_file b') = (f_pos (fb_file b) + N.to_nat n)%nat /\
             fb_remain b' = fb_remain b - Z.of_N n.
Proof.
  intros (Hc & Hp & Hr) Hn. destruct b as [k [c p cl] r]. cbn in *. subst cl.
  unfold fb_skip, f_seek_cur, f_seek_set. cbn [fb_file f_closed f_pos f_seek_cur f_seek_set f_content fb_kind fb_remain].
  destruct (r <? Z.of_N n) eqn:E; [lia|].
  eexists; split; [reflexivity|].
  unfold fb_inv, fb_abs; cbn [fb_file f_closed f_pos f_seek_set f_content fb_kind fb_remain].
  rewrite skipn_skipn. repeat split; try lia. f_equal; lia.
Qed.

(* the error branch: nothing is touched *)
Lemma fb_skip_err b n : fb_remain b < Z.of_N n -> fb_skip b n = Exn ValueErrorSkip.
Proof.
  intro H. unfold fb_skip. destruct (fb_remain b <? Z.of_N n) eqn:E; [reflexivity | lia].
Qed.

(* file.write(s) raising inside append: the finally block seeks back, the buffer object is untouched *)
Lemma fb_append_fails b s : f_closed (fb_file b) = false -> fb_append true b s = Exn OSFault.
Proof. intro H. unfold fb_append. now rewrite H. Qed.
