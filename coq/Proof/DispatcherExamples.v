(* Proof/DispatcherExamples.v -- the hypotheses of the C14 theorems are satisfiable
   by non-trivial reachable states (all by computation). *)
From Coq Require Import List Arith ZArith Bool.
From WV Require Import Lib.Conc Model.Dispatcher Spec.Pool Proof.DispatcherSpec.
Import ListNotations.

(* two workers parked, nothing queued: quiescent, requested = live = 2 *)
Definition ex_idle : list choice := [CResize 2; CWork 0; CWork 1].
Example ex_idle_quiescent :
  quiescent (runD ex_idle) = true /\ length (workers (runD ex_idle)) = 2 /\
  queue (runD ex_idle) = [] /\ requested (runD ex_idle) = 2.
Proof. vm_compute. auto. Qed.

(* a task submitted to a pool without workers: quiescent with a non-empty queue *)
Definition ex_noworkers : list choice := [CResize 1; CWork 0; CResize 0; CWork 0; CSubmit 0].
Example ex_noworkers_quiescent :
  quiescent (runD ex_noworkers) = true /\ queue (runD ex_noworkers) = [0] /\
  workers (runD ex_noworkers) = [].
Proof. vm_compute. auto. Qed.

(* a non-quiescent state in which a notification is pending while another worker sleeps *)
Definition ex_pending : list choice := [CResize 2; CWork 0; CWork 1; CSubmit 1].
Example ex_pending_state :
  quiescent (runD ex_pending) = false /\ queue (runD ex_pending) = [0] /\
  qwait (runD ex_pending) = [0] /\ workers (runD ex_pending) = [(0, WWait); (1, WNotified)].
Proof. vm_compute. auto. Qed.

(* one task running (it submitted a follow-up and will raise), two queued, then
   shutdown(cancel_pending=True) whose expiration passes while the task still runs:
   the two queued tasks and the follow-up are cancelled, the running one is not *)
Definition ex_shutdown : list choice :=
  [CResize 1; CWork 0; CSubmit 0; CSubmit 0; CSubmit 0; CWork 0; CFollow 0 0;
   CSdCall true; CSd true; CSd false; CSd false; CSd false].
Example ex_shutdown_returns :
  exists s' l, step (runD ex_shutdown) (CSd false) = Some (s', l) /\ In (LSdReturn true) l /\
    sd_snap s' = [1; 2; 3] /\ st s' 0 = Running 0 /\ st s' 3 = Cancelled.
Proof. eexists. eexists. split. vm_compute. reflexivity. vm_compute. auto 10. Qed.

Example ex_shutdown_trace :
  submits (traceD ex_shutdown) = [0; 1; 2; 3] /\ takes (traceD ex_shutdown) = [0; 1; 2; 3] /\
  starts (traceD ex_shutdown) = [0].
Proof. vm_compute. auto. Qed.

(* shutdown(cancel_pending=False): the queue is left as it is, all workers stop *)
Definition ex_shutdown_false : list choice :=
  [CResize 1; CWork 0; CSubmit 0; CSubmit 0; CWork 0; CSdCall false; CSd false; CFinish 0 true; CWork 0].
Example ex_shutdown_false_returns :
  exists s' l, step (runD ex_shutdown_false) (CSd false) = Some (s', l) /\ In (LSdReturn false) l /\
    queue s' = [1] /\ workers s' = [] /\ st s' 1 = Queued /\ st s' 0 = Done.
Proof. eexists. eexists. split. vm_compute. reflexivity. vm_compute. auto 10. Qed.

(* the cancel loop holds the lock: nobody else can take a critical section *)
Definition ex_cancelling : list choice :=
  [CResize 1; CWork 0; CSubmit 0; CSubmit 0; CSubmit 0; CWork 0; CSdCall true; CSd true; CSd false].
Example ex_cancelling_locked :
  sd (runD ex_cancelling) = SdCancel /\ lock (runD ex_cancelling) = Some OShutdown /\
  step (runD ex_cancelling) (CSubmit 0) = None /\ step (runD ex_cancelling) (CWork 0) = None /\
  queue (runD ex_cancelling) = [2].
Proof. vm_compute. auto 10. Qed.
