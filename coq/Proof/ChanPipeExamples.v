(* Proof/ChanPipeExamples.v -- the hypotheses of the C04 theorems are satisfiable by non-trivial
   executions.  sched_two is the (default) schedule of a REAL run of two pipelined GET requests on
   the real HTTPChannel (harness/chanpipe.py, scenario "two-get"), mapped to the model's choices by
   the correspondence harness and expanded by the extracted runner (mode "exp"): both requests are
   served, in order, and both responses (94 bytes each: a header write of 93 bytes and a body
   write of 1 byte) are on the wire. *)
From Coq Require Import List Arith Bool ZArith.
From WV Require Import Model.ChanPipe Proof.ChanPipeBase Proof.ChanPipeOwn Proof.ChanPipeLog
                       Proof.ChanPipeOut Proof.ChanPipeOutStep Proof.ChanPipeSpec Proof.ChanPipeRefute.
Import ListNotations.

Definition P_two : params :=
  {| p_look := 0; p_sb := 1%Z; p_clen := 25; p_nw := 1; p_unlocked := false;
     p_script := [ {| r_expect := false; r_nobody := false; r_writes := [93; 1]; r_close := false |};
                   {| r_expect := false; r_nobody := false; r_writes := [93; 1]; r_close := false |} ] |}.

Definition sched_two : list choice :=
  [CWk 0 ENone; CWk 0 ENone] ++
  repeat (CIo ENone) 7 ++
  [CIo (ESel true false)] ++
  [CIo ENone] ++
  [CIo (ERecv 2 false)] ++
  repeat (CIo ENone) 22 ++
  repeat (CWk 0 ENone) 15 ++
  [CWk 0 (ESend 93 93)] ++
  repeat (CWk 0 ENone) 16 ++
  [CWk 0 (ESend 1 1)] ++
  repeat (CWk 0 ENone) 37 ++
  [CWk 0 (ESend 93 93)] ++
  repeat (CWk 0 ENone) 16 ++
  [CWk 0 (ESend 1 1)] ++
  repeat (CWk 0 ENone) 17 ++
  [CIo (ESel false false)] ++
  repeat (CIo ENone) 7.

(* the premises of C04_wire / C04_complete hold: the current shape of handle_write, the connection
   is open, nobody is inside a task *)
Example two_premises :
  p_unlocked P_two = false /\ connected (sh (run P_two sched_two)) = true /\
  in_task (wpc (wk (run P_two sched_two) 0)) = false.
Proof. vm_compute. auto. Qed.

(* ... and the conclusion is not vacuous: both requests arrived, were started and executed, in
   order, and the wire carries the two complete responses, nothing pending *)
Example two_served :
  arrivals (sh (run P_two sched_two)) = [0; 1] /\ starts (sh (run P_two sched_two)) = [0; 1] /\
  execs (sh (run P_two sched_two)) = [0; 1] /\
  wire (sh (run P_two sched_two)) = resp_toks 0 0 94 ++ resp_toks 1 0 94 /\
  pending (sh (run P_two sched_two)) = [] /\
  units (sh (run P_two sched_two)) = [UResp 0 94; UResp 1 94].
Proof. vm_compute. repeat split; reflexivity. Qed.

(* a state in the middle of the run: worker 0 owns the connection (it is inside the first task)
   while the second request is queued on the channel: the dispatcher holds no entry *)
Example mid_owner :
  let st := run P_two (firstn 45 sched_two) in
  wk_owner (wpc (wk st 0)) = true /\ requests (sh st) = [0; 1] /\ queue (sh st) = 0.
Proof. vm_compute. auto. Qed.

(* the premises of the quiescence statement: the only worker is parked, not notified *)
Example two_quiescent : all_parked 1 (run P_two sched_two) = true.
Proof. vm_compute. reflexivity. Qed.

(* a worker-side send_continue is inside the proved statement now: the F18 schedule on the repaired
   shape contains one, and the wire statement holds *)
Example f18_fixed_in_scope :
  wsc (sh (run P18_fixed sched18)) = true /\ wire_ok P18_fixed (run P18_fixed sched18) = true.
Proof. vm_compute. auto. Qed.
