(* Proof/ChanFaultIso.v -- C13_isolation, at the level of single steps (the
   unwinding conditions of non-interference).

   Every instruction of the model that is about a connection carries that
   connection's name.  Two facts, both for ARBITRARY states (reachable or not) and
   ARBITRARY environment answers (normal, EOF, any errno):
     LOCAL   an instruction of connection c, whichever thread executes it and whatever
             the environment answers, leaves every other connection's record, every
             other thread, the listener and the trigger untouched, pushes only
             instructions of c and emits only labels of c;
     DET     what an instruction of connection c does -- blocked or not, what it pushes,
             which exception, which labels (the wire bytes among them), the record of c
             afterwards -- is a function of the record of c, the executing thread's
             locals, the configuration and the environment's answer FOR THAT CALL: it is
             the same in any two states that agree on c, however different the other
             connection (faulted, closed, half torn down, absent) is in them.
   From these, for the worker of a connection (whose stack holds only that connection's
   instructions, an invariant) the two-run statement is proved for whole steps:
   [worker_two_run].  For the I/O thread, which serves both connections in turn, the
   step-level facts are LOCAL and DET per instruction plus the facts about the three
   shared instructions of a poll turn ([poll_two_run]: the select lists agree on c). *)
From Coq Require Import List Arith ZArith Bool Lia.
From WV Require Import Lib.Conc Model.ChanFault Proof.ChanFaultSpec Proof.ChanFaultBase Proof.ChanFaultStep.
Import ListNotations.

Definition fd_chan (f : fdt) : option chan := match f with FC c => Some c | _ => None end.

(* the connection an instruction is about *)
Definition chan_of (i : instr) : option chan :=
  match i with
  | IPoll | ISelect _ _ _ | ISelWait _ _ _ | IAccept | ITrigClose | ILstClose => None
  | IDisp _ f | IDisp2 f _ _ _ _ | IRwClose f | KWasyn f | KReadwrite f => fd_chan f
  | ISetOpts c | IInitGso c | IInitSbl c | IAddChan c | IRecv c | IRecvCall c | IExptCall c | ISockCloseCall c | ISetConnF c | IRcvChk c _ | IRcvLoop c _
  | IRcvPost c _ _ | IHwChoose c | IHwNotify c | IHwTail c | IExpt c | IContPre c | IContAppend c
  | IFlushStart c _ | IFlush c _ _ | IFlushSend c _ _ _ | IHClose c | ICloseBufs c | INotifyO c | IDClose1 c
  | IDelMapTest c | IDelMapDo c | IFilenoNone c | IDelAct c _ | ISockClose c | ISockNone c
  | IAcqO c | ITryAcqO c | IRelO c | IWaitO c | IWake c _ | IAcqR c | IRelR c
  | ISvcStart c | ISvcChkWc c | IApp c | IErrTask c | IWsChk1 c | IFbh c | IFbhChk c | IFbhAfter c | IFbhLoop c | IWsChk2 c
  | IWsAppend c _ | IWsFlush c | IWsAfter c | ISvcEnd c | ISetCwf c | ISvcPop c | ISvcTail c | IPull c | IAddTask c
  | KAccTry c | KFlushExc c | KRelO c | KRelR c | KSvcTry c | KSvcTry2 c | KWorkerTop c => Some c
  end.

Definition about (c : chan) (i : instr) : bool :=
  match chan_of i with Some d => chan_eqb c d | None => false end.

(* the connection a label is about; labels about no connection: caught exceptions, the loop, the listener *)
Definition label_chan (l : label) : option chan :=
  match l with
  | LClose _ c | LActDel _ c | LHClose _ c | LBufsClosed _ c | LWCont c | LSetupFault c | LAccepted c
  | LChanAdded c | LWire c _ | LEnv c _ | LApp c _ | LWorkerDied c => Some c
  | LMapDel _ f => fd_chan f
  | LCaught _ _ | LLoopDied _ | LLoopExit | LListenerClosed | LTriggerClosed => None
  end.
Definition labels_of (c : chan) (ls : list label) : list label :=
  filter (fun l => match label_chan l with Some d => chan_eqb c d | None => false end) ls.
Definition not_about (d : chan) (ls : list label) : bool :=
  forallb (fun l => match label_chan l with Some e => negb (chan_eqb d e) | None => true end) ls.

Definition locals (th : thread_st) := (lexc th, lsent th, lcof th).
Definition srv5 (s : state) := (lst_in_map s, trg_in_map s, lst_open s, trg_open s, io_dead s).

(* ---- LOCAL ---------------------------------------------------------------------------------- *)
Lemma srv5_setc : forall s c v, srv5 (setc s c v) = srv5 s.
Proof. intros. unfold srv5. destruct (srv_setc s c v) as (-> & -> & -> & -> & ->). reflexivity. Qed.
Lemma srv5_setth : forall s t v, srv5 (setth s t v) = srv5 s.
Proof. intros. unfold srv5. destruct (srv_setth s t v) as (-> & -> & -> & -> & ->). reflexivity. Qed.

Ltac local_fin Hd :=
  repeat split; auto;
  rewrite ?getc_setth, ?getc_setc_other, ?srv5_setth, ?srv5_setc by (auto; congruence); auto;
  try (simpl; rewrite ?chan_eqb_refl; reflexivity);
  try (destruct (chan_eqb _ _) eqn:?; [rewrite chan_eqb_eq in *; congruence|reflexivity]).

Lemma neq_eqb : forall c d : chan, d <> c -> chan_eqb d c = false.
Proof. intros c d H. destruct (chan_eqb d c) eqn:E; auto. apply chan_eqb_eq in E. congruence. Qed.

Lemma exec_local : forall g t i a s c d,
  chan_of i = Some c -> d <> c ->
  match exec g t i a s with
  | Blocked => True
  | Norm s' push ls =>
      getc s' d = getc s d /\ srv5 s' = srv5 s /\ forallb (about c) push = true /\ not_about d ls = true
  | Raise s' x ls => getc s' d = getc s d /\ srv5 s' = srv5 s /\ not_about d ls = true
  end.
Proof.
  intros g t i a s c d Hc Hd. pose proof (neq_eqb c d Hd) as Hn.
  destruct i; try discriminate Hc; simpl in Hc;
  try match goal with f : fdt |- _ => destruct f as [| |cc]; try discriminate Hc end;
  injection Hc as ->;
  try match goal with k : evk |- _ => destruct k end;
  cbn [exec event chan_event hclose_fd herror hclose hclose_body flush_some write_soon send_continue send_continue_dc app];
  repeat split_innermost; auto;
  repeat split; auto;
  rewrite ?getc_setth, ?getc_setc_other, ?srv5_setth, ?srv5_setc by (auto; congruence); auto;
  unfold about, not_about; simpl; rewrite ?chan_eqb_refl, ?Hn; auto.
Qed.

Lemma frame_local : forall t k x s c d,
  chan_of k = Some c -> d <> c ->
  match frame t k x s with
  | FCatch s' push ls =>
      getc s' d = getc s d /\ srv5 s' = srv5 s /\ forallb (about c) push = true /\ not_about d ls = true
  | FPass s' => getc s' d = getc s d /\ srv5 s' = srv5 s
  end.
Proof.
  intros t k x s c d Hc Hd. pose proof (neq_eqb c d Hd) as Hn.
  destruct k; try discriminate Hc; simpl in Hc;
  try match goal with f : fdt |- _ => destruct f as [| |cc]; try discriminate Hc end;
  injection Hc as ->;
  cbn [frame herror hclose_fd hclose]; repeat split_innermost; auto;
  repeat split; auto;
  rewrite ?getc_setth, ?getc_setc_other, ?srv5_setth, ?srv5_setc by (auto; congruence); auto;
  unfold about, not_about; simpl; rewrite ?chan_eqb_refl, ?Hn; auto.
Qed.

(* ---- DET -------------------------------------------------------------------------------------- *)
Lemma locals_eq : forall a b, locals a = locals b -> lexc a = lexc b /\ lsent a = lsent b /\ lcof a = lcof b.
Proof. unfold locals. intros a b H. injection H as -> -> ->. auto. Qed.

Definition same_outcome (c : chan) (t : tid) (r1 r2 : result) : Prop :=
  match r1, r2 with
  | Blocked, Blocked => True
  | Norm s1 p1 l1, Norm s2 p2 l2 =>
      p1 = p2 /\ l1 = l2 /\ getc s1 c = getc s2 c /\ locals (getth s1 t) = locals (getth s2 t)
  | Raise s1 x1 l1, Raise s2 x2 l2 =>
      x1 = x2 /\ l1 = l2 /\ getc s1 c = getc s2 c /\ locals (getth s1 t) = locals (getth s2 t)
  | _, _ => False
  end.

Lemma exec_det : forall g t i a s1 s2 c,
  chan_of i = Some c -> getc s1 c = getc s2 c -> locals (getth s1 t) = locals (getth s2 t) ->
  same_outcome c t (exec g t i a s1) (exec g t i a s2).
Proof.
  intros g t i a s1 s2 c Hc H12 Hl.
  destruct (locals_eq _ _ Hl) as (E1 & E2 & E3).
  destruct i; try discriminate Hc; simpl in Hc;
  try match goal with f : fdt |- _ => destruct f as [| |cc]; try discriminate Hc end;
  injection Hc as ->;
  unfold same_outcome; cbn [exec fd_in_map]; rewrite ?H12, ?E1, ?E2, ?E3;
  repeat split_innermost; auto;
  repeat split; auto;
  rewrite ?getth_setth_same, ?getc_setth, ?getth_setc, ?getc_setc_same; auto;
  unfold locals; simpl; rewrite ?getth_setc; congruence.
Qed.

Definition same_fres (c : chan) (t : tid) (r1 r2 : fres) : Prop :=
  match r1, r2 with
  | FCatch s1 p1 l1, FCatch s2 p2 l2 =>
      p1 = p2 /\ l1 = l2 /\ getc s1 c = getc s2 c /\ locals (getth s1 t) = locals (getth s2 t)
  | FPass s1, FPass s2 => getc s1 c = getc s2 c /\ locals (getth s1 t) = locals (getth s2 t)
  | _, _ => False
  end.

Lemma frame_det : forall t k x s1 s2 c,
  chan_of k = Some c -> getc s1 c = getc s2 c -> locals (getth s1 t) = locals (getth s2 t) ->
  same_fres c t (frame t k x s1) (frame t k x s2).
Proof.
  intros t k x s1 s2 c Hc H12 Hl.
  destruct (locals_eq _ _ Hl) as (E1 & E2 & E3).
  destruct k; try discriminate Hc; simpl in Hc;
  try match goal with f : fdt |- _ => destruct f as [| |cc]; try discriminate Hc end;
  injection Hc as ->;
  unfold same_fres; cbn [frame]; rewrite ?H12, ?E1, ?E2, ?E3;
  repeat split_innermost; auto;
  repeat split; auto;
  rewrite ?getth_setth_same, ?getc_setth, ?getth_setc, ?getc_setc_same; auto;
  unfold locals; simpl; rewrite ?getth_setc; congruence.
Qed.

(* ---- a worker's stack holds only its own connection's instructions --------------------------------- *)
Definition wtagged (s : state) (c : chan) : Prop := forallb (about c) (stk (getth s (W c))) = true.

Lemma about_chan_of : forall c i, about c i = true -> chan_of i = Some c.
Proof. unfold about. intros c i H. destruct (chan_of i) as [d|]; [|discriminate]. apply chan_eqb_eq in H. congruence. Qed.

Lemma other_chan : forall c : chan, exists d, d <> c.
Proof. intros [|]; [exists B|exists A]; discriminate. Qed.

Lemma wtagged_step : forall g s ch s' l, (forall c, wtagged s c) -> step g s ch = Some (s', l) -> forall c, wtagged s' c.
Proof.
  intros g s [t a] s' l Hw H c. unfold wtagged.
  destruct (tid_dec t (W c)) as [->|NE]; [|rewrite (step_other_thread g s t a s' l (W c) H NE); apply Hw].
  specialize (Hw c). unfold wtagged in Hw. destruct (other_chan c) as [d Hd].
  unfold step in H.
  destruct (raising (getth s (W c))) as [x|] eqn:R.
  - destruct (drop_to_frame (stk (getth s (W c)))) as [|k rest] eqn:D.
    + injection H as <- _. rewrite getth_setth_same. reflexivity.
    + assert (Hkr : forallb (about c) (k :: rest) = true) by (rewrite <- D; apply forallb_drop_to_frame; auto).
      simpl in Hkr. apply andb_true_iff in Hkr. destruct Hkr as [Hk Hr].
      pose proof (frame_local (W c) k x s c d (about_chan_of _ _ Hk) Hd) as FL.
      destruct (frame (W c) k x s) as [s1 push ls|s1]; injection H as <- _; rewrite getth_setth_same; simpl; auto.
      rewrite forallb_app, Hr. destruct FL as (_ & _ & -> & _). reflexivity.
  - destruct (stk (getth s (W c))) as [|i rest] eqn:S.
    + destruct (queued (getc s c)); [|discriminate]. injection H as <- _. rewrite getth_setth_same. simpl.
      unfold about. simpl. rewrite chan_eqb_refl. reflexivity.
    + simpl in Hw. apply andb_true_iff in Hw. destruct Hw as [Hi Hr].
      pose proof (exec_local g (W c) i a s c d (about_chan_of _ _ Hi) Hd) as EL.
      destruct (exec g (W c) i a s) as [|s1 push ls|s1 x ls]; [discriminate| |]; injection H as <- _;
        rewrite getth_setth_same; simpl; auto.
      rewrite forallb_app, Hr. destruct EL as (_ & _ & -> & _). reflexivity.
Qed.

Theorem wtagged_always : forall g sched c, wtagged (ChanFault.run g sched) c.
Proof.
  intros g sched. apply (inv_rule_tr g (fun s _ => forall c, wtagged s c)).
  - intros [|]; reflexivity.
  - intros s tr ch s' l Hw H. eapply wtagged_step; eauto.
Qed.

(* ---- the two-run statement for a connection's worker ------------------------------------------------ *)
Lemma thread_eq : forall a b l r, locals a = locals b -> mkTh l r (lexc a) (lsent a) (lcof a) = mkTh l r (lexc b) (lsent b) (lcof b).
Proof. intros a b l r H. destruct (locals_eq _ _ H) as (-> & -> & ->). reflexivity. Qed.

Definition same_step (c : chan) (r1 r2 : option (state * list label)) : Prop :=
  match r1, r2 with
  | Some (s1, l1), Some (s2, l2) => getc s1 c = getc s2 c /\ getth s1 (W c) = getth s2 (W c) /\ l1 = l2
  | None, None => True
  | _, _ => False
  end.

(* Two states that agree on connection c and on c's worker -- and differ arbitrarily in the other
   connection, the I/O thread, the listener: the worker's step is the same (enabled or not, labels with the
   wire bytes, the record of c afterwards), for every answer of the environment *)
Theorem worker_two_run : forall g s1 s2 c a,
  wtagged s1 c -> getc s1 c = getc s2 c -> getth s1 (W c) = getth s2 (W c) ->
  same_step c (step g s1 (W c, a)) (step g s2 (W c, a)).
Proof.
  intros g s1 s2 c a Hw H12 Ht. unfold wtagged in Hw. unfold step, same_step. rewrite <- Ht.
  assert (Hl : locals (getth s1 (W c)) = locals (getth s2 (W c))) by (rewrite Ht; reflexivity).
  destruct (raising (getth s1 (W c))) as [x|] eqn:R.
  - destruct (drop_to_frame (stk (getth s1 (W c)))) as [|k rest] eqn:D.
    + rewrite !getc_setth, !getth_setth_same. auto.
    + assert (Hk : about c k = true).
      { assert (X : forallb (about c) (k :: rest) = true) by (rewrite <- D; apply forallb_drop_to_frame; auto).
        simpl in X. apply andb_true_iff in X. tauto. }
      pose proof (frame_det (W c) k x s1 s2 c (about_chan_of _ _ Hk) H12 Hl) as FD.
      unfold same_fres in FD.
      destruct (frame (W c) k x s1) as [t1 p1 l1|t1]; destruct (frame (W c) k x s2) as [t2 p2 l2|t2]; try contradiction.
      * destruct FD as (-> & -> & E & L). rewrite !getc_setth, !getth_setth_same. repeat split; auto.
        unfold set_raising. apply thread_eq. auto.
      * destruct FD as (E & L). rewrite !getc_setth, !getth_setth_same. repeat split; auto.
        unfold set_raising. apply thread_eq. auto.
  - destruct (stk (getth s1 (W c))) as [|i rest] eqn:S.
    + rewrite H12. destruct (queued (getc s2 c)); auto.
      rewrite !getc_setth, !getth_setth_same, !getc_setc_same. auto.
    + assert (Hi : about c i = true) by (simpl in Hw; apply andb_true_iff in Hw; tauto).
      pose proof (exec_det g (W c) i a s1 s2 c (about_chan_of _ _ Hi) H12 Hl) as ED.
      pose proof (exec_own_stack g (W c) i a s1) as O1.
      pose proof (exec_own_stack g (W c) i a s2) as O2.
      unfold same_outcome in ED.
      destruct (exec g (W c) i a s1) as [|t1 p1 l1|t1 x1 l1]; destruct (exec g (W c) i a s2) as [|t2 p2 l2|t2 x2 l2];
        try contradiction; auto.
      * destruct ED as (-> & -> & E & L). rewrite !getc_setth, !getth_setth_same. repeat split; auto.
        unfold set_stk. destruct O1 as [_ ->]. destruct O2 as [_ ->]. rewrite <- Ht, R. apply thread_eq. auto.
      * destruct ED as (-> & -> & E & L). rewrite !getc_setth, !getth_setth_same. repeat split; auto.
        unfold set_raising. apply thread_eq. auto.
Qed.

(* ---- steps of the other connection are invisible -------------------------------------------------------- *)
Lemma not_about_labels : forall d ls, not_about d ls = true -> labels_of d ls = [].
Proof.
  unfold not_about, labels_of. induction ls as [|l ls IH]; simpl; intro H; auto.
  apply andb_true_iff in H. destruct H as [Hl Hr]. rewrite IH by auto.
  destruct (label_chan l); auto. apply negb_true_iff in Hl. rewrite Hl. reflexivity.
Qed.

(* the instruction (or, while unwinding, the frame) a thread executes next *)
Definition next_about (s : state) (t : tid) (c : chan) : Prop :=
  match next_instr s t with Some (i, _) => about c i = true | None => False end.

(* LOCAL for whole steps: a step that executes an instruction of connection c -- with any answer of the
   environment: a fault, EOF, anything -- changes nothing of the other connection d: not its record, not
   its worker, not the listener or the trigger; and it emits no label of d (no wire bytes of d among them) *)
Theorem step_local : forall g s t a s' l c d,
  next_about s t c -> d <> c -> t <> W d -> step g s (t, a) = Some (s', l) ->
  getc s' d = getc s d /\ getth s' (W d) = getth s (W d) /\ srv5 s' = srv5 s /\ labels_of d l = [].
Proof.
  intros g s t a s' l c d Hn Hd Ht H.
  assert (Hth : getth s' (W d) = getth s (W d)) by (eapply step_other_thread; eauto).
  unfold next_about, next_instr in Hn. unfold step in H.
  destruct (raising (getth s t)) as [x|] eqn:R.
  - destruct (drop_to_frame (stk (getth s t))) as [|k rest] eqn:D; [contradiction|].
    pose proof (frame_local t k x s c d (about_chan_of _ _ Hn) Hd) as FL.
    destruct (frame t k x s) as [s1 push ls|s1]; injection H as <- <-.
    + destruct FL as (E1 & E2 & _ & E4). rewrite getc_setth, srv5_setth. repeat split; auto. apply not_about_labels; auto.
    + destruct FL as (E1 & E2). rewrite getc_setth, srv5_setth. repeat split; auto.
  - destruct (stk (getth s t)) as [|i rest] eqn:S; [contradiction|].
    pose proof (exec_local g t i a s c d (about_chan_of _ _ Hn) Hd) as EL.
    destruct (exec g t i a s) as [|s1 push ls|s1 x ls]; [discriminate| |]; injection H as <- <-.
    + destruct EL as (E1 & E2 & _ & E4). rewrite getc_setth, srv5_setth. repeat split; auto. apply not_about_labels; auto.
    + destruct EL as (E1 & E2 & E4). rewrite getc_setth, srv5_setth. repeat split; auto. apply not_about_labels; auto.
Qed.

(* DET for whole steps of the I/O thread: two states whose I/O threads are about to execute the same
   instruction of connection c and that agree on c *)
Theorem io_two_run : forall g s1 s2 c a i r1 r2,
  raising (getth s1 IO) = None -> raising (getth s2 IO) = None ->
  stk (getth s1 IO) = i :: r1 -> stk (getth s2 IO) = i :: r2 -> about c i = true ->
  getc s1 c = getc s2 c -> locals (getth s1 IO) = locals (getth s2 IO) ->
  match step g s1 (IO, a), step g s2 (IO, a) with
  | Some (s1', l1), Some (s2', l2) =>
      getc s1' c = getc s2' c /\ l1 = l2 /\ raising (getth s1' IO) = raising (getth s2' IO) /\
      locals (getth s1' IO) = locals (getth s2' IO) /\
      exists push, stk (getth s1' IO) = push ++ r1 /\ stk (getth s2' IO) = push ++ r2
  | None, None => True
  | _, _ => False
  end.
Proof.
  intros g s1 s2 c a i r1 r2 R1 R2 S1 S2 Hi H12 Hl. unfold step. rewrite R1, R2, S1, S2.
  pose proof (exec_det g IO i a s1 s2 c (about_chan_of _ _ Hi) H12 Hl) as ED.
  pose proof (exec_own_stack g IO i a s1) as O1.
  pose proof (exec_own_stack g IO i a s2) as O2.
  unfold same_outcome in ED.
  destruct (exec g IO i a s1) as [|t1 p1 l1|t1 x1 l1]; destruct (exec g IO i a s2) as [|t2 p2 l2|t2 x2 l2];
    try contradiction; auto.
  - destruct ED as (-> & -> & E & L). rewrite !getc_setth, !getth_setth_same. simpl.
    destruct O1 as [_ ->]. destruct O2 as [_ ->]. rewrite R1, R2. repeat split; auto.
    exists p2. split; reflexivity.
  - destruct ED as (-> & -> & E & L). rewrite !getc_setth, !getth_setth_same. simpl. repeat split; auto.
    exists []. split; reflexivity.
Qed.

(* the shared instructions of a poll turn: whether connection c is asked about in select's lists depends on c only *)
Transparent asked_r asked_w getc.
Theorem poll_two_run : forall g s1 s2 c, getc s1 c = getc s2 c ->
  mem_fd (FC c) (asked_r g s1) = mem_fd (FC c) (asked_r g s2) /\
  mem_fd (FC c) (asked_w s1) = mem_fd (FC c) (asked_w s2).
Proof.
  intros g s1 s2 c H. unfold asked_r, asked_w, mem_fd. rewrite !existsb_app.
  destruct c; simpl in H; rewrite H; split;
  repeat match goal with |- context [if ?b then _ else _] => destruct b end; reflexivity.
Qed.
Opaque asked_r asked_w getc.
