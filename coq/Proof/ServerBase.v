From Coq Require Import List ZArith Bool Lia ZifyBool Arith.
From WV Require Import Gen.GenPreds Model.Server.
Import ListNotations.
Local Open Scope Z_scope.

Ltac zcmp :=
  repeat match goal with
  | |- context [Z.gtb ?a ?b] => rewrite (Z.gtb_ltb a b)
  | |- context [Z.geb ?a ?b] => rewrite (Z.geb_leb a b)
  end;
  repeat match goal with
  | |- context [Z.eqb ?a ?b] => destruct (Z.eqb_spec a b)
  | |- context [Z.ltb ?a ?b] => destruct (Z.ltb_spec a b)
  | |- context [Z.leb ?a ?b] => destruct (Z.leb_spec a b)
  end.

Ltac pred_tac :=
  intros;
  repeat match goal with b : bool |- _ => destruct b end;
  cbv beta iota zeta delta [andb orb negb];
  zcmp; cbv beta iota zeta delta [andb orb negb];
  try reflexivity; try lia; repeat (f_equal; try lia).

Lemma gen_chan_readable_spec : forall wc cwf n la tot,
  gen_chan_readable wc cwf n la tot = negb (wc || cwf || (la <? n) || negb (tot =? 0)).
Proof. unfold gen_chan_readable. pred_tac. Qed.

Lemma gen_chan_writable_spec : forall tot wc cwf,
  gen_chan_writable tot wc cwf = ((0 <? tot) || wc || cwf).
Proof. unfold gen_chan_writable. pred_tac. Qed.

(* the model flushes for either flush function (the outbuf lock is free during a
   poll turn), so the interface is: does handle_write flush at all *)
Definition flushes (k : flush_kind) : bool := match k with FlushNone => false | _ => true end.

Lemma gen_hw_flush_spec : forall n tot sb hw,
  flushes (gen_hw_flush n tot sb hw) = ((n =? 0) || (sb <=? tot) || (hw <? tot)).
Proof. unfold gen_hw_flush, flushes. pred_tac. Qed.

Lemma gen_hw_after_spec : forall cwf wc tot,
  gen_hw_after cwf wc tot = if cwf && (tot =? 0) then (false, true, true) else (cwf, wc, wc).
Proof. unfold gen_hw_after. pred_tac. Qed.

Lemma gen_maint_spec : forall n la now tmo,
  gen_maint_test n la (gen_maint_cutoff now tmo) = ((n =? 0) && (la <? now - tmo)).
Proof. unfold gen_maint_test, gen_maint_cutoff. pred_tac. Qed.

Lemma gen_srv_readable_spec : forall now ncc itv acc ovf ml lim,
  gen_srv_readable now ncc itv acc ovf ml lim =
  (if ncc <=? now then now + itv else ncc, ncc <=? now, if acc then lim <=? ml else ovf, acc && (ml <? lim)).
Proof. unfold gen_srv_readable. pred_tac. Qed.

Lemma gen_poll_r_spec : forall r w a, gen_poll_r r w a = r.
Proof. unfold gen_poll_r. pred_tac. Qed.
Lemma gen_poll_w_spec : forall r w a, gen_poll_w r w a = (w && negb a).
Proof. unfold gen_poll_w. pred_tac. Qed.

(* ------------------------------------------------------------------------- *)
(* One poll turn, per channel: the read loop and the write loop of poll()
   act on disjoint objects, so the two passes fuse into one pass. *)

Definition chan_turn (p : params) (now : Z) (c : chan) : list chan :=
  let '(r, w) := chan_sel p c in
  match (if r then handle_read p now c else Some c) with
  | None => []
  | Some c1 => if w then match handle_write p now c1 with Some c2 => [c2] | None => [] end else [c1]
  end.

Lemma dispatch_writes_app : forall p now a b,
  dispatch_writes p now (a ++ b) = dispatch_writes p now a ++ dispatch_writes p now b.
Proof. intros. unfold dispatch_writes. apply flat_map_app. Qed.

Lemma dispatch_fused : forall p now cs,
  dispatch_writes p now (dispatch_reads p now (map (fun c => let '(r, w) := chan_sel p c in (c, r, w)) cs))
  = flat_map (chan_turn p now) cs.
Proof.
  induction cs as [|c cs IH]; [reflexivity|].
  cbn [map flat_map dispatch_reads]. fold (dispatch_reads p now).
  change (flat_map (fun x : chan * bool * bool => match x with (c0, r, w) =>
     if r then match handle_read p now c0 with Some c' => [(c', w)] | None => [] end else [(c0, w)] end))
    with (dispatch_reads p now).
  rewrite dispatch_writes_app, IH. f_equal.
  unfold chan_turn. destruct (chan_sel p c) as [r w].
  destruct r; [destruct (handle_read p now c)|]; cbn; try reflexivity;
    destruct w; try reflexivity; match goal with |- context [handle_write ?p ?n ?x] => destruct (handle_write p n x) end;
    reflexivity.
Qed.

(* ------------------------------------------------------------------------- *)
(* Closed forms of the first loop and of the accept dispatch *)

Definition lr_listener (p : params) (now mlen : Z) (l : listener) : listener * bool :=
  (mkListener (l_accepting l) (if l_accepting l then p_limit p <=? mlen else l_overflow l)
     (if l_ncc l <=? now then now + p_interval p else l_ncc l) (l_backlog l),
   l_accepting l && (mlen <? p_limit p)).

(* is maintenance of the listener with index o run in this turn? *)
Fixpoint due_owner (now : Z) (idx : nat) (ls : list listener) (o : nat) : bool :=
  match ls with
  | [] => false
  | l :: r => if Nat.eqb o idx then l_ncc l <=? now else due_owner now (S idx) r o
  end.

Definition expired (p : params) (now : Z) (c : chan) : bool :=
  (len_requests c =? 0) && (c_last c <? now - p_timeout p).

Definition mark (p : params) (now : Z) (idx : nat) (ls : list listener) (c : chan) : chan :=
  if due_owner now idx ls (c_owner c) && expired p now c then set_wc c true else c.

Lemma due_owner_lt : forall now ls idx o, (o < idx)%nat -> due_owner now idx ls o = false.
Proof.
  induction ls as [|l r IH]; intros; cbn; [reflexivity|].
  destruct (Nat.eqb_spec o idx); [lia|]. apply IH. lia.
Qed.

Lemma listeners_readable_eq : forall p now mlen ls idx cs,
  listeners_readable p now mlen idx ls cs = (map (lr_listener p now mlen) ls, map (mark p now idx ls) cs).
Proof.
  induction ls as [|l r IH]; intros; cbn [listeners_readable map].
  - f_equal. rewrite <- (map_id cs) at 1. apply map_ext. intros c. unfold mark. cbn. reflexivity.
  - rewrite gen_srv_readable_spec. rewrite IH. unfold lr_listener at 2. f_equal.
    destruct (l_ncc l <=? now) eqn:Hdue.
    + unfold maintenance. rewrite map_map. apply map_ext. intros c.
      rewrite gen_maint_spec. fold (expired p now c). unfold mark. cbn [due_owner].
      rewrite (Nat.eqb_sym (c_owner c) idx).
      destruct (Nat.eqb_spec idx (c_owner c)) as [E|E].
      * rewrite Hdue. cbn [andb]. destruct (expired p now c) eqn:He.
        -- cbn [c_owner set_wc]. rewrite due_owner_lt by lia. reflexivity.
        -- rewrite due_owner_lt by lia. reflexivity.
      * cbn [andb]. reflexivity.
    + apply map_ext. intros c. unfold mark. cbn [due_owner].
      destruct (Nat.eqb_spec (c_owner c) idx) as [E|E].
      * rewrite Hdue, due_owner_lt by lia. reflexivity.
      * reflexivity.
Qed.

Definition acc_ok (p : params) (mlen : Z) (l : listener) : bool :=
  l_accepting l && (mlen <? p_limit p) && negb (is_nil (l_backlog l)).

(* a listener after the turn *)
Definition la_listener (p : params) (now mlen : Z) (l : listener) : listener :=
  mkListener (l_accepting l) (if l_accepting l then p_limit p <=? mlen else l_overflow l)
    (if l_ncc l <=? now then now + p_interval p else l_ncc l)
    (if acc_ok p mlen l then tl (l_backlog l) else l_backlog l).

Fixpoint accepted (p : params) (now mlen : Z) (idx : nat) (ls : list listener) : list chan :=
  match ls with
  | [] => []
  | l :: r =>
    (if acc_ok p mlen l then match l_backlog l with k :: _ => [new_chan now idx k] | [] => [] end else [])
    ++ accepted p now mlen (S idx) r
  end.

Lemma accept_phase_eq : forall p now mlen ls idx,
  accept_phase now idx (map (lr_listener p now mlen) ls)
  = (map (la_listener p now mlen) ls, accepted p now mlen idx ls).
Proof.
  induction ls as [|l r IH]; intros; cbn [map accept_phase accepted]; [reflexivity|].
  unfold lr_listener at 1. rewrite IH. rewrite gen_poll_r_spec.
  cbn [l_accepting l_backlog l_overflow l_ncc].
  unfold la_listener, acc_ok.
  destruct (l_accepting l) eqn:Ha; cbn [andb]; [|reflexivity].
  destruct (mlen <? p_limit p) eqn:Hm; cbn [andb]; [|reflexivity].
  destruct (l_backlog l) as [|k bl] eqn:Hb; cbn; reflexivity.
Qed.

Definition poll_chans (p : params) (s : state) : list chan :=
  flat_map (chan_turn p (st_clock s)) (map (mark p (st_clock s) 0 (st_listeners s)) (st_chans s))
  ++ accepted p (st_clock s) (map_len s) 0 (st_listeners s).

Lemma poll_eq : forall p s,
  poll p s = mkState (st_clock s) (map (la_listener p (st_clock s) (map_len s)) (st_listeners s))
                     (poll_chans p s) (st_nextfd s).
Proof.
  intros. unfold poll, poll_chans. rewrite listeners_readable_eq, accept_phase_eq, dispatch_fused. reflexivity.
Qed.

(* ------------------------------------------------------------------------- *)
(* Channel handlers through the interface lemmas *)

Lemma chan_sel_spec : forall p c,
  chan_sel p c =
  (negb (c_wc c || c_cwf c || (p_lookahead p <? len_requests c) || negb (c_pend c =? 0)) && sel_readable (c_sock c),
   ((0 <? c_pend c) || c_wc c || c_cwf c) && sel_writable (c_sock c)).
Proof.
  intros. unfold chan_sel, chan_is_r, chan_is_w.
  rewrite gen_poll_r_spec, gen_poll_w_spec, gen_chan_readable_spec, gen_chan_writable_spec.
  cbn [negb]. rewrite andb_true_r. reflexivity.
Qed.

Lemma set_flags_id : forall c, set_wc (set_cwf c (c_cwf c)) (c_wc c) = c.
Proof. destruct c; reflexivity. Qed.

Definition hw_flushes (p : params) (c : chan) : bool :=
  (len_requests c =? 0) || (p_send_bytes p <=? c_pend c) || (p_high_watermark p <? c_pend c).

Lemma handle_write_spec : forall p now c,
  handle_write p now c =
  match (if hw_flushes p c then flush_some true now c else Some c) with
  | None => None
  | Some c1 => if c_cwf c1 && (c_pend c1 =? 0) then None else if c_wc c1 then None else Some c1
  end.
Proof.
  intros. unfold handle_write, hw_flushes. rewrite <- gen_hw_flush_spec.
  assert (T : forall c1, (let '(cwf', wc', closed) := gen_hw_after (c_cwf c1) (c_wc c1) (c_pend c1) in
                          if closed then None else Some (set_wc (set_cwf c1 cwf') wc'))
                         = if c_cwf c1 && (c_pend c1 =? 0) then None else if c_wc c1 then None else Some c1).
  { intros c1. rewrite gen_hw_after_spec. destruct (c_cwf c1 && (c_pend c1 =? 0)); [reflexivity|].
    destruct (c_wc c1) eqn:E; [reflexivity|]. rewrite <- E. rewrite set_flags_id. reflexivity. }
  destruct (gen_hw_flush (len_requests c) (c_pend c) (p_send_bytes p) (p_high_watermark p)); cbn [flushes];
    try (destruct (flush_some true now c); [apply T|reflexivity]).
  apply T.
Qed.

(* what _flush_some can change: the socket's room, pending output, last_activity *)
Lemma flush_some_some : forall b now c c',
  flush_some b now c = Some c' ->
  c_fd c' = c_fd c /\ c_owner c' = c_owner c /\ c_requests c' = c_requests c /\ c_inreq c' = c_inreq c /\
  c_wc c' = c_wc c /\ c_cwf c' = c_cwf c /\ s_rx (c_sock c') = s_rx (c_sock c) /\
  s_gone (c_sock c') = s_gone (c_sock c) /\ s_reading (c_sock c') = s_reading (c_sock c).
Proof.
  intros b now c c' H. unfold flush_some in H.
  destruct (c_pend c <=? 0). { inversion H; subst; repeat split; reflexivity. }
  destruct (s_gone (c_sock c)) eqn:G.
  { destruct b; [discriminate|]. inversion H; subst; rewrite ?G; repeat split; reflexivity. }
  inversion H; subst; clear H.
  destruct (s_reading (c_sock c)) eqn:R;
    match goal with |- context [if ?x then _ else _] => destruct x end;
    unfold c_fd; cbn; rewrite ?G, ?R; repeat split; reflexivity.
Qed.

Lemma received_tok_fields : forall c t,
  c_sock (received_tok c t) = c_sock c /\ c_owner (received_tok c t) = c_owner c /\
  c_wc (received_tok c t) = c_wc c /\ c_cwf (received_tok c t) = c_cwf c /\
  c_last (received_tok c t) = c_last c /\ c_pend (received_tok c t) = c_pend c.
Proof. intros c [|cl]; cbn; repeat split; reflexivity. Qed.

Lemma received_fields : forall d c,
  c_sock (received c d) = c_sock c /\ c_owner (received c d) = c_owner c /\
  c_wc (received c d) = c_wc c /\ c_cwf (received c d) = c_cwf c /\
  c_last (received c d) = c_last c /\ c_pend (received c d) = c_pend c.
Proof.
  intros d c. unfold received. destruct (c_wc c || c_cwf c); [repeat split; reflexivity|].
  revert c. induction d as [|t d IH]; intros c; cbn [fold_left]; [repeat split; reflexivity|].
  destruct (IH (received_tok c t)) as (A & B & C & D & E & F).
  destruct (received_tok_fields c t) as (A' & B' & C' & D' & E' & F').
  repeat split; congruence.
Qed.

Lemma handle_read_some : forall p now c c',
  handle_read p now c = Some c' ->
  c_fd c' = c_fd c /\ c_owner c' = c_owner c /\ c_wc c' = c_wc c /\ c_cwf c' = c_cwf c /\ c_pend c' = c_pend c /\
  s_rx (c_sock c) <> [].
Proof.
  intros p now c c' H. unfold handle_read in H.
  destruct (s_rx (c_sock c)) as [|t d] eqn:E; [discriminate|]. inversion H; subst; clear H.
  match goal with |- context [received ?x ?y] => destruct (received_fields y x) as (A & B & C & D & _ & F) end.
  unfold c_fd. rewrite A, B, C, D, F. cbn. repeat split; try reflexivity. discriminate.
Qed.

Lemma handle_write_some : forall p now c c',
  handle_write p now c = Some c' ->
  c_fd c' = c_fd c /\ c_owner c' = c_owner c /\ c_requests c' = c_requests c /\
  c_wc c' = false /\ c_wc c = false /\ c_cwf c' = c_cwf c.
Proof.
  intros p now c c' H. rewrite handle_write_spec in H.
  assert (K : forall c1, (c_fd c1 = c_fd c /\ c_owner c1 = c_owner c /\ c_requests c1 = c_requests c /\
                          c_wc c1 = c_wc c /\ c_cwf c1 = c_cwf c) ->
             (if c_cwf c1 && (c_pend c1 =? 0) then None else if c_wc c1 then None else Some c1) = Some c' ->
             c_fd c' = c_fd c /\ c_owner c' = c_owner c /\ c_requests c' = c_requests c /\
             c_wc c' = false /\ c_wc c = false /\ c_cwf c' = c_cwf c).
  { intros c1 (A & B & C & D & E) H1. destruct (c_cwf c1 && (c_pend c1 =? 0)); [discriminate|].
    destruct (c_wc c1) eqn:W; [discriminate|]. inversion H1; subst. repeat split; congruence. }
  destruct (hw_flushes p c).
  - destruct (flush_some true now c) as [c1|] eqn:F; [|discriminate].
    apply flush_some_some in F. apply (K c1); [|exact H]. intuition congruence.
  - apply (K c); [|exact H]. repeat split; reflexivity.
Qed.

Lemma chan_turn_len : forall p now c, (length (chan_turn p now c) <= 1)%nat.
Proof.
  intros. unfold chan_turn. destruct (chan_sel p c) as [r w].
  destruct (if r then handle_read p now c else Some c); [|cbn; lia].
  destruct w; [destruct (handle_write p now c0)|]; cbn; lia.
Qed.

Lemma chan_turn_id : forall p now c c', In c' (chan_turn p now c) -> c_fd c' = c_fd c /\ c_owner c' = c_owner c.
Proof.
  intros p now c c' H. unfold chan_turn in H. destruct (chan_sel p c) as [r w].
  assert (R : forall c1, (if r then handle_read p now c else Some c) = Some c1 -> c_fd c1 = c_fd c /\ c_owner c1 = c_owner c).
  { intros c1 H1. destruct r; [apply handle_read_some in H1; intuition|inversion H1; auto]. }
  destruct (if r then handle_read p now c else Some c) as [c1|]; [|contradiction].
  destruct (R c1 eq_refl) as [A B].
  destruct w.
  - destruct (handle_write p now c1) as [c2|] eqn:W; [|contradiction].
    destruct H as [<-|[]]. apply handle_write_some in W. intuition congruence.
  - destruct H as [<-|[]]. auto.
Qed.

Lemma mark_fields : forall p now idx ls c,
  c_sock (mark p now idx ls c) = c_sock c /\ c_owner (mark p now idx ls c) = c_owner c /\
  c_requests (mark p now idx ls c) = c_requests c /\ c_cwf (mark p now idx ls c) = c_cwf c /\
  c_last (mark p now idx ls c) = c_last c /\ c_pend (mark p now idx ls c) = c_pend c /\
  c_inreq (mark p now idx ls c) = c_inreq c.
Proof. intros. unfold mark. destruct (_ && _); cbn; repeat split; reflexivity. Qed.

Lemma mark_fd : forall p now idx ls c, c_fd (mark p now idx ls c) = c_fd c.
Proof. intros. unfold c_fd. destruct (mark_fields p now idx ls c) as (A & _). rewrite A. reflexivity. Qed.

Lemma flat_map_len_le : forall (A B : Type) (f : A -> list B) l,
  (forall x, (length (f x) <= 1)%nat) -> (length (flat_map f l) <= length l)%nat.
Proof.
  induction l as [|x l IH]; intros H; cbn; [lia|]. rewrite app_length. specialize (IH H). specialize (H x). lia.
Qed.

Lemma accepted_len : forall p now mlen ls idx, (length (accepted p now mlen idx ls) <= length ls)%nat.
Proof.
  induction ls as [|l r IH]; intros; cbn [accepted length]; [lia|].
  rewrite app_length. specialize (IH (S idx)).
  destruct (acc_ok p mlen l); [destruct (l_backlog l)|]; cbn [length]; lia.
Qed.

Lemma accepted_nil_at_limit : forall p now mlen ls idx, p_limit p <= mlen -> accepted p now mlen idx ls = [].
Proof.
  induction ls as [|l r IH]; intros; cbn [accepted]; [reflexivity|].
  rewrite IH by assumption. unfold acc_ok.
  destruct (Z.ltb_spec mlen (p_limit p)); [lia|]. rewrite andb_false_r. reflexivity.
Qed.
