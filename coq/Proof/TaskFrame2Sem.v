(* C03, widening of the end-to-end frame theorems: the model side.

   Applications of the class [wapp]: one start_response, then any number of
   calls of the write() callable (empty ones included), then an iterable
   (sized, generator, or a file wrapper that is not handed over) of byte
   chunks (empty ones included); nothing raised, client connected.

   Every write() call and every non-empty chunk is one Task.write; [tw_seq] is
   that sequence, [ws_sem] is its pure meaning once the head is out (chunk
   coding / Content-Length clamp / no-body statuses), and [wapp_wire] is what
   HTTPChannel.service puts on the wire and decides about the connection. *)
From Coq Require Import String.
From Coq Require Import List NArith ZArith Bool Lia Arith.
From WV Require Import Lib.PyBytes Gen.GenTables Model.Task Spec.ClientParse
  Proof.TaskLines Proof.TaskHead Proof.TaskStart Proof.TaskRun Proof.TaskChunk Proof.TaskC09
  Proof.TaskBody Proof.TaskSimple.
Import ListNotations.
Local Open Scope N_scope.

Definition wapp (status : str) (hs : list (pyobj * pyobj)) (ws : list bytes) (kind : ikind)
           (chunks : list bytes) (hc : bool) : app :=
  mkApp (AStart (PStr status) hs None :: map AWrite ws) kind (plain_steps chunks) hc None.

Definition nonempty (d : bytes) : bool := match d with [] => false | _ => true end.

(* the blocks a file wrapper delivers: iteration stops at the first empty read *)
Fixpoint take_ne (chunks : list bytes) : list bytes :=
  match chunks with
  | [] => []
  | [] :: _ => []
  | d :: rest => d :: take_ne rest
  end.

(* the Task.write calls the iteration makes *)
Definition eff (kind : ikind) (chunks : list bytes) : list bytes :=
  if is_file kind then take_ne chunks else filter nonempty chunks.

(* the bytes the iterable delivers *)
Definition produced (kind : ikind) (chunks : list bytes) : bytes :=
  if is_file kind then file_content (plain_steps chunks) else concat chunks.

Lemma concat_filter_nonempty chunks : concat (filter nonempty chunks) = concat chunks.
Proof. induction chunks as [|[|x d] l IH]; cbn [filter nonempty concat List.app]; congruence. Qed.

Lemma concat_take_ne chunks : concat (take_ne chunks) = file_content (plain_steps chunks).
Proof.
  induction chunks as [|[|x d] l IH]; cbn [take_ne concat plain_steps map file_content s_res]; auto.
  fold (plain_steps l). rewrite IH. reflexivity.
Qed.

Lemma concat_eff kind chunks : concat (eff kind chunks) = produced kind chunks.
Proof. unfold eff, produced. destruct (is_file kind); [apply concat_take_ne|apply concat_filter_nonempty]. Qed.

(* ---- Task.write's second half as a pure function (client connected) ------------ *)

Definition wb (t : task) (data : bytes) : task * bytes :=
  match data with
  | [] => (t, [])
  | _ :: _ =>
      if has_body t then
        if t_chunked t then (t, to_hex_upper (lenN data) ++ CRLF ++ data ++ CRLF)
        else match t_clen t with
             | Some cl => let tw := py_slice_to data (cl - t_cbw t)%Z in
                          (set_cbw (t_cbw t + Z.of_nat (length tw))%Z t, tw)
             | None => (t, data)
             end
      else (set_cbw (t_cbw t + Z.of_nat (length data))%Z t, [])
  end.

Fixpoint ws_sem (t : task) (ds : list bytes) : task * bytes :=
  match ds with
  | [] => (t, [])
  | d :: ds' => let '(t1, b1) := wb t d in let '(t2, b2) := ws_sem t1 ds' in (t2, b1 ++ b2)
  end.

Lemma wb_same t d : same_head t (fst (wb t d)).
Proof.
  unfold wb. destruct d; [apply same_head_refl|].
  destruct (has_body t); [destruct (t_chunked t); [apply same_head_refl|destruct (t_clen t)]|];
    cbn [fst]; unfold same_head; cbn; tauto.
Qed.

Lemma ws_sem_same ds : forall t, same_head t (fst (ws_sem t ds)).
Proof.
  induction ds as [|d ds IH]; intro t; cbn [ws_sem]; [apply same_head_refl|].
  pose proof (wb_same t d) as S1. destruct (wb t d) as [t1 b1]. cbn [fst] in S1.
  pose proof (IH t1) as S2. destruct (ws_sem t1 ds) as [t2 b2]. cbn [fst] in *.
  eapply same_head_trans; eauto.
Qed.

Lemma ws_sem_app a : forall t b,
  ws_sem t (a ++ b) = (fst (ws_sem (fst (ws_sem t a)) b), snd (ws_sem t a) ++ snd (ws_sem (fst (ws_sem t a)) b)).
Proof.
  induction a as [|d a IH]; intros t b; cbn [List.app ws_sem fst snd].
  - destruct (ws_sem t b); reflexivity.
  - destruct (wb t d) as [t1 b1]. rewrite IH.
    destruct (ws_sem t1 a) as [t2 b2]. cbn [fst snd]. rewrite app_assoc. reflexivity.
Qed.

(* the four ways a body is sent *)
Lemma ws_sem_chunked ds : forall t, has_body t = true -> t_chunked t = true ->
  ws_sem t ds = (t, flat_map encode_chunk ds).
Proof.
  induction ds as [|d ds IH]; intros t Hb Hk; cbn [ws_sem flat_map]; auto.
  assert (E : wb t d = (t, encode_chunk d)).
  { unfold wb, encode_chunk. destruct d; auto. rewrite Hb, Hk. reflexivity. }
  rewrite E, IH by auto. reflexivity.
Qed.

Lemma ws_sem_eof ds : forall t, has_body t = true -> t_chunked t = false -> t_clen t = None ->
  ws_sem t ds = (t, concat ds).
Proof.
  induction ds as [|d ds IH]; intros t Hb Hk Hc; cbn [ws_sem concat]; auto.
  assert (E : wb t d = (t, d)).
  { unfold wb. destruct d; auto. rewrite Hb, Hk, Hc. reflexivity. }
  rewrite E, IH by auto. reflexivity.
Qed.

Lemma ws_sem_nobody ds : forall t, has_body t = false ->
  snd (ws_sem t ds) = [] /\ t_cbw (fst (ws_sem t ds)) = (t_cbw t + Z.of_nat (length (concat ds)))%Z.
Proof.
  induction ds as [|d ds IH]; intros t Hb; cbn [ws_sem concat fst snd length].
  - split; auto. lia.
  - pose proof (wb_same t d) as S1.
    assert (E : snd (wb t d) = [] /\ t_cbw (fst (wb t d)) = (t_cbw t + Z.of_nat (length d))%Z).
    { unfold wb. destruct d; cbn [fst snd length]; [split; auto; lia|]. rewrite Hb. cbn. auto. }
    destruct (wb t d) as [t1 b1]. cbn [fst snd] in *. destruct E as [-> E2].
    destruct (IH t1) as [I1 I2]; [rewrite (same_head_has_body _ _ S1); auto|].
    destruct (ws_sem t1 ds) as [t2 b2]. cbn [fst snd] in *. subst b2. split; auto.
    rewrite I2, E2, app_length, Nat2Z.inj_add. lia.
Qed.

Lemma firstn_app_firstn {A} n (a b : list A) :
  firstn n (a ++ b) = firstn n a ++ firstn (n - length a) b.
Proof. apply firstn_app. Qed.

(* Content-Length clamp: never more than the declared length goes out *)
Lemma ws_sem_len ds : forall t cl, has_body t = true -> t_chunked t = false -> t_clen t = Some cl ->
  (0 <= t_cbw t <= cl)%Z ->
  snd (ws_sem t ds) = firstn (Z.to_nat (cl - t_cbw t)) (concat ds)
  /\ t_cbw (fst (ws_sem t ds)) = Z.min cl (t_cbw t + Z.of_nat (length (concat ds)))%Z.
Proof.
  induction ds as [|d ds IH]; intros t cl Hb Hk Hc Hr; cbn [ws_sem concat fst snd length].
  - rewrite firstn_nil. split; auto. lia.
  - pose proof (wb_same t d) as S1.
    assert (E : snd (wb t d) = firstn (Z.to_nat (cl - t_cbw t)) d
                /\ t_cbw (fst (wb t d)) = Z.min cl (t_cbw t + Z.of_nat (length d))%Z).
    { unfold wb. destruct d as [|x d]; [rewrite firstn_nil; cbn; split; auto; lia|].
      rewrite Hb, Hk, Hc. cbn [fst snd t_cbw set_cbw]. unfold py_slice_to.
      destruct (cl - t_cbw t <? 0)%Z eqn:En; [lia|]. split; auto.
      rewrite firstn_length. generalize (length (x :: d)). clear - Hr En. intro n. lia. }
    destruct (wb t d) as [t1 b1]. cbn [fst snd] in *. destruct E as [-> E2].
    destruct S1 as (A1 & A2 & A3 & A4 & A5 & A6 & A7 & A8).
    destruct (IH t1 cl) as [I1 I2]; try congruence.
    { unfold has_body in *. rewrite A1. exact Hb. }
    { rewrite E2. clear - Hr. lia. }
    destruct (ws_sem t1 ds) as [t2 b2]. cbn [fst snd] in *. subst b2.
    rewrite firstn_app. split.
    + f_equal. f_equal. rewrite E2. generalize (length d). clear - Hr. intro n. lia.
    + rewrite I2, E2, app_length, Nat2Z.inj_add. generalize (length d) (length (concat ds)). clear - Hr. intros n m. lia.
Qed.

Section Sem.
Variable cap : str -> str.
Variable lower : str -> str.
Variable c : cfg.
Variable r : req.

Lemma write_body_wb t ch data :
  exists ch', write_body None (t, ch) data = ((fst (wb t data), ch'), Ok tt)
              /\ chan_wire ch' = chan_wire ch ++ snd (wb t data).
Proof.
  unfold write_body, wb. destruct data as [|x data].
  - exists ch. cbn. rewrite app_nil_r. auto.
  - destruct (has_body t).
    + destruct (t_chunked t).
      * destruct (to_hex_upper (lenN (x :: data)) ++ CRLF ++ (x :: data) ++ CRLF) as [|y tw] eqn:Et.
        { exfalso. pose proof (to_hex_nonempty (lenN (x :: data))) as Hne.
          destruct (to_hex_upper (lenN (x :: data))); [congruence|discriminate]. }
        rewrite write_soon_connected. eexists. split; [reflexivity|]. destruct ch as [w n]. apply chan_wire_push.
      * destruct (t_clen t) as [cl|].
        -- cbn [fst snd]. destruct (py_slice_to (x :: data) (cl - t_cbw t)) as [|y tw].
           ++ exists ch. rewrite app_nil_r. auto.
           ++ rewrite write_soon_connected. eexists. split; [reflexivity|]. destruct ch as [w n]. apply chan_wire_push.
        -- rewrite write_soon_connected. eexists. split; [reflexivity|]. destruct ch as [w n]. apply chan_wire_push.
    + exists ch. cbn. rewrite app_nil_r. auto.
Qed.

(* a sequence of Task.write calls *)
Fixpoint tw_seq (s : st) (ds : list bytes) : st * outcome unit :=
  match ds with
  | [] => (s, Ok tt)
  | d :: ds' => match task_write cap lower c r None s d with
                | (s1, Exn e) => (s1, Exn e)
                | (s1, Ok _) => tw_seq s1 ds'
                end
  end.

Lemma tw_seq_app a : forall s b,
  tw_seq s (a ++ b) = match tw_seq s a with
                      | (s1, Exn e) => (s1, Exn e)
                      | (s1, Ok _) => tw_seq s1 b
                      end.
Proof.
  induction a as [|d a IH]; intros s b; cbn [List.app tw_seq]; auto.
  destruct (task_write cap lower c r None s d) as [s1 [u|e]]; auto.
Qed.

Lemma run_actions_writes ws : forall s,
  run_actions cap lower c r None s (map AWrite ws) = tw_seq s ws.
Proof.
  induction ws as [|w ws IH]; intro s; cbn [map run_actions run_action tw_seq]; auto.
  destruct (task_write cap lower c r None s w) as [s1 [u|e]]; auto.
Qed.

(* Task.write never touches content_length *)
Lemma task_write_clen s d s' o : task_write cap lower c r None s d = (s', o) -> t_clen (fst s') = t_clen (fst s).
Proof.
  unfold task_write. destruct (negb (t_complete (fst s))); [intro H; inversion H; auto|].
  destruct s as [t ch]. unfold write_header. cbn [fst].
  destruct (negb (t_wrote_header t)).
  - unfold build_response_header. destruct (keeps_bh_prepare cap lower c r t) as (_ & _ & K3 & _).
    destruct (encode_latin1 _); [|intro H; inversion H; subst; auto].
    destruct (write_soon None ch _) as [ch1 [u|e]]; [|intro H; inversion H; subst; auto].
    destruct (write_body_wb (set_wrote true (bh_prepare cap lower c r t)) ch1 d) as (ch2 & E & _).
    rewrite E. intro H; inversion H; subst. cbn [fst].
    destruct (wb_same (set_wrote true (bh_prepare cap lower c r t)) d) as (_ & _ & _ & _ & _ & A6 & _).
    rewrite A6. exact K3.
  - destruct (write_body_wb t ch d) as (ch2 & E & _). rewrite E. intro H; inversion H; subst. cbn [fst].
    destruct (wb_same t d) as (_ & _ & _ & _ & _ & A6 & _). exact A6.
Qed.

Lemma tw_seq_clen ds : forall s s' o, tw_seq s ds = (s', o) -> t_clen (fst s') = t_clen (fst s).
Proof.
  induction ds as [|d ds IH]; intros s s' o H; cbn [tw_seq] in H; [inversion H; auto|].
  destruct (task_write cap lower c r None s d) as [s1 [u|e]] eqn:E.
  - rewrite (IH _ _ _ H). eapply task_write_clen; eauto.
  - inversion H; subst. eapply task_write_clen; eauto.
Qed.

(* the iteration over an iterable that is not a file *)
Lemma iterate_plain_nf chunks : forall l1 first t ch,
  first && l1 && match t_clen t with None => true | Some _ => false end = false ->
  iterate cap lower c r None false l1 first (t, ch) (plain_steps chunks) = tw_seq (t, ch) (filter nonempty chunks).
Proof.
  induction chunks as [|d chunks IH]; intros l1 first t ch Hf; [reflexivity|].
  cbn [plain_steps map iterate run_actions s_acts s_res andb]. fold (plain_steps chunks).
  assert (Et : (if first then match t_clen t with
                              | None => if l1 then set_clen (Some (Z.of_nat (length d))) t else t
                              | Some _ => t end else t) = t).
  { destruct first; auto. destruct (t_clen t); auto. destruct l1; auto. discriminate. }
  rewrite Et. destruct d as [|x d]; cbn [filter nonempty].
  - apply IH. reflexivity.
  - cbn [tw_seq]. destruct (task_write cap lower c r None (t, ch) (x :: d)) as [[t2 ch2] [u|e]]; auto.
Qed.

(* ... and over a file wrapper that is not handed over *)
Lemma iterate_plain_file chunks : forall first t ch,
  iterate cap lower c r None true false first (t, ch) (plain_steps chunks) = tw_seq (t, ch) (take_ne chunks).
Proof.
  induction chunks as [|d chunks IH]; intros first t ch; [reflexivity|].
  cbn [plain_steps map iterate run_actions s_acts s_res andb]. fold (plain_steps chunks).
  destruct d as [|x d]; cbn [take_ne]; [reflexivity|].
  assert (Et : (if first then match t_clen t with None => t | Some _ => t end else t) = t)
    by (destruct first; auto; destruct (t_clen t); auto).
  rewrite Et. cbn [tw_seq]. destruct (task_write cap lower c r None (t, ch) (x :: d)) as [[t2 ch2] [u|e]]; auto.
Qed.

(* the sequence once the head is out *)
Lemma tw_seq_after ds : forall t ch, t_complete t = true -> t_wrote_header t = true ->
  exists ch', tw_seq (t, ch) ds = ((fst (ws_sem t ds), ch'), Ok tt)
              /\ chan_wire ch' = chan_wire ch ++ snd (ws_sem t ds).
Proof.
  induction ds as [|d ds IH]; intros t ch Hc Hw; cbn [tw_seq ws_sem].
  - exists ch. cbn. rewrite app_nil_r. auto.
  - rewrite task_write_body by auto.
    destruct (write_body_wb t ch d) as (ch1 & E & W1). rewrite E.
    pose proof (wb_same t d) as (A1 & A2 & A3 & A4 & A5 & A6 & A7 & A8).
    destruct (wb t d) as [t1 b1]. cbn [fst snd] in *.
    destruct (IH t1 ch1) as (ch2 & E2 & W2); try congruence.
    rewrite E2. destruct (ws_sem t1 ds) as [t2 b2]. cbn [fst snd] in *.
    exists ch2. split; auto. rewrite W2, W1, app_assoc. reflexivity.
Qed.

(* ... and from a fresh state: the first call sends the head *)
Lemma tw_seq_fresh d ds t ch s' :
  t_complete t = true -> t_wrote_header t = false ->
  tw_seq (t, ch) (d :: ds) = (s', Ok tt) ->
  exists tp head, build_response_header cap lower c r t = (tp, Ok head)
    /\ fst s' = fst (ws_sem (set_wrote true tp) (d :: ds))
    /\ chan_wire (snd s') = chan_wire ch ++ head ++ snd (ws_sem (set_wrote true tp) (d :: ds)).
Proof.
  intros Hc Hw H. cbn [tw_seq] in H. unfold task_write in H. cbn [fst] in H. rewrite Hc in H. cbn [negb] in H.
  destruct (write_header cap lower c r None (t, ch)) as [s1 o1] eqn:Eh.
  pose proof (write_header_fresh cap lower c r t ch s1 o1 Hw Eh) as Hh.
  destruct (build_response_header cap lower c r t) as [tp [head|e]] eqn:Eb.
  2: { subst o1. inversion H. }
  destruct Hh as (-> & Ht & Hwire). destruct s1 as [t1 ch1]. cbn [fst snd] in *. subst t1.
  assert (Kc : t_complete tp = true).
  { unfold build_response_header in Eb. injection Eb as <- _.
    destruct (keeps_bh_prepare cap lower c r t) as (K1 & _). congruence. }
  destruct (write_body_wb (set_wrote true tp) ch1 d) as (ch2 & E2 & W2). rewrite E2 in H.
  pose proof (wb_same (set_wrote true tp) d) as (A1 & A2 & A3 & A4 & A5 & A6 & A7 & A8).
  destruct (wb (set_wrote true tp) d) as [t2 b2] eqn:Ewb. cbn [fst snd] in *.
  destruct (tw_seq_after ds t2 ch2) as (ch3 & E3 & W3); try (cbn [t_complete t_wrote_header set_wrote] in *; congruence).
  rewrite E3 in H. inversion H; subst s'. clear H. destruct (ws_sem t2 ds) as [t3 b3] eqn:Ews. cbn [fst snd] in *.
  exists tp, head. split; auto. cbn [ws_sem]. rewrite Ewb, Ews. cbn [fst snd]. split; auto.
  rewrite W3, W2, Hwire, <- !app_assoc. reflexivity.
Qed.

(* ---- WSGITask.execute's "too few bytes" test ------------------------------------ *)

Definition toofew (t : task) : bool :=
  match t_clen t with
  | Some cl => negb (t_cbw t =? cl)%Z && negb (r_head r)
  | None => false
  end.

Definition toofew_adj (t : task) : task :=
  match t_clen t with
  | Some cl => if negb (t_cbw t =? cl)%Z && negb (r_head r) then set_close_on_finish cap lower t else t
  | None => t
  end.

Lemma toofew_adj_spec t : toofew_adj t = if toofew t then set_close_on_finish cap lower t else t.
Proof. unfold toofew_adj, toofew. destruct (t_clen t); auto. Qed.

(* the iterable is iterated, not handed over to the channel (whatever the status; after a
   1xx/204/304 status NO iterable is handed over: fix d117733, see execute_body_iterated) *)
Definition no_handover (kind : ikind) (ws : list bytes) : Prop :=
  is_file kind = false \/ kind = KFile false \/ ws <> [].

Lemma execute_body_iterated kind chunks t ch a :
  a_kind a = kind -> a_steps a = plain_steps chunks ->
  is_file kind = false \/ kind = KFile false \/ t_wrote_header t = true \/ has_body t = false ->
  len1 kind && match t_clen t with None => true | Some _ => false end = false ->
  execute_body cap lower c r None (t, ch) a =
  match tw_seq (t, ch) (eff kind chunks) with
  | (s1, Exn e) => (s1, Exn e, true)
  | ((t2, ch2), Ok _) => ((toofew_adj t2, ch2), Ok tt, true)
  end.
Proof.
  intros Ek Es Hnh Hl. unfold execute_body. rewrite Es.
  set (ho := match a_kind a with KFile _ => _ | _ => None end).
  assert (Hho : ho = None).
  { subst ho. rewrite Ek. destruct kind as [n| |sk]; auto.
    destruct Hnh as [H|[H|[H|H]]]; [discriminate| | |].
    - inversion H; subst sk. reflexivity.
    - rewrite H. destruct (_ =? 0)%Z; reflexivity.
    - (* fix d117733: no hand-over after a 1xx/204/304 status *)
      rewrite H. destruct (_ =? 0)%Z; [reflexivity|]. destruct (t_wrote_header t); reflexivity. }
  rewrite Hho. clear Hho ho. rewrite Ek. unfold eff.
  destruct kind as [n| |sk]; cbn [is_file].
  - rewrite iterate_plain_nf by (cbn [len1] in Hl; rewrite andb_true_l; exact Hl).
    destruct (tw_seq _ _) as [[t2 ch2] [u|e]]; reflexivity.
  - rewrite iterate_plain_nf by reflexivity.
    destruct (tw_seq _ _) as [[t2 ch2] [u|e]]; reflexivity.
  - rewrite iterate_plain_file.
    destruct (tw_seq _ _) as [[t2 ch2] [u|e]]; reflexivity.
Qed.

End Sem.
