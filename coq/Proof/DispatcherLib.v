(* Proof/DispatcherLib.v -- facts about the list helpers of Model/Dispatcher.v *)
From Coq Require Import List Arith ZArith Bool Lia.
From WV Require Import Model.Dispatcher.
Import ListNotations.

Definition b2n (b : bool) : nat := if b then 1 else 0.

(* ---- upd --------------------------------------------------------------- *)

Lemma upd_length : forall A (f : A -> A) l n, length (upd n f l) = length l.
Proof. induction l; destruct n; simpl; auto. Qed.

Lemma upd_nth_same : forall A (f : A -> A) d l n, n < length l -> nth n (upd n f l) d = f (nth n l d).
Proof. induction l; destruct n; simpl; intros; try lia; auto. apply IHl; lia. Qed.

Lemma upd_nth_other : forall A (f : A -> A) d l n m, m <> n -> nth m (upd n f l) d = nth m l d.
Proof. induction l; destruct n; destruct m; simpl; intros; try lia; auto. Qed.

(* ---- discard ------------------------------------------------------------- *)

Lemma In_discard : forall w l x, In x (discard w l) <-> x <> w /\ In x l.
Proof.
  intros. unfold discard. rewrite filter_In. rewrite negb_true_iff, Nat.eqb_neq. tauto.
Qed.

Lemma NoDup_filter : forall A (f : A -> bool) l, NoDup l -> NoDup (filter f l).
Proof.
  induction l; simpl; intros; auto. inversion H; subst.
  destruct (f a); auto. constructor; auto. rewrite filter_In. tauto.
Qed.

Lemma NoDup_discard : forall w l, NoDup l -> NoDup (discard w l).
Proof. intros. apply NoDup_filter; auto. Qed.

Lemma discard_notin : forall w l, ~ In w l -> discard w l = l.
Proof.
  induction l; simpl; intros; auto.
  destruct (a =? w) eqn:E; simpl.
  - apply Nat.eqb_eq in E. tauto.
  - f_equal. apply IHl. tauto.
Qed.

Lemma discard_length : forall w l, NoDup l -> In w l -> S (length (discard w l)) = length l.
Proof.
  induction l; simpl; intros; try tauto. inversion H; subst.
  destruct (a =? w) eqn:E; simpl.
  - apply Nat.eqb_eq in E. subst. rewrite discard_notin; auto.
  - apply Nat.eqb_neq in E. f_equal. apply IHl; auto. destruct H0; tauto.
Qed.

(* ---- remove_nth ---------------------------------------------------------- *)

Lemma In_remove_nth : forall (l : list nat) k w x,
  NoDup l -> nth_error l k = Some w -> (In x (remove_nth k l) <-> x <> w /\ In x l).
Proof.
  induction l; destruct k; simpl; intros; try discriminate.
  - inversion H0; subst. inversion H; subst. split.
    + intros. split; auto. intro; subst; tauto.
    + intros [? [?|?]]; auto. congruence.
  - inversion H; subst. rewrite (IHl k w x H4 H0). split.
    + intros [?|[? ?]]; subst; auto. split; auto. intro; subst.
      apply H3. eapply nth_error_In; eauto.
    + intros [? [?|?]]; auto.
Qed.

Lemma NoDup_remove_nth : forall (l : list nat) k, NoDup l -> NoDup (remove_nth k l).
Proof.
  induction l; destruct k; simpl; intros; auto; inversion H; subst; auto.
  constructor; auto. intro.
  destruct (nth_error l k) eqn:E.
  - rewrite (In_remove_nth l k n a H3 E) in H0. tauto.
  - apply H2. clear -H0 E. revert k H0 E. induction l; destruct k; simpl; intros; try discriminate; auto.
    destruct H0; auto. right. eapply IHl; eauto.
Qed.

Lemma remove_nth_nil_inv : forall (l : list nat) k, remove_nth k l <> [] -> l <> [].
Proof. destruct l; simpl; intros; auto. destruct k; auto. discriminate. Qed.

(* ---- workers as an association list ---------------------------------------- *)

Lemma get_pc_In : forall (ws : list (nat * wpc)) w pc, NoDup (map fst ws) -> (get_pc w ws = Some pc <-> In (w, pc) ws).
Proof.
  induction ws as [|[v p] ws IH]; simpl; intros w pc Hnd.
  - split; intros H; [discriminate | tauto].
  - inversion Hnd as [|? ? Hnotin Hnd']; subst. destruct (v =? w) eqn:E.
    + apply Nat.eqb_eq in E. subst. split.
      * intros H. inversion H; auto.
      * intros [H|H]. inversion H; auto.
        exfalso. apply Hnotin. apply in_map_iff. exists (w, pc); auto.
    + apply Nat.eqb_neq in E. rewrite IH; auto. split; auto.
      intros [H|H]; auto. inversion H; congruence.
Qed.

Lemma In_fst : forall (ws : list (nat * wpc)) w pc, In (w, pc) ws -> In w (map fst ws).
Proof. intros. apply in_map_iff. exists (w, pc); auto. Qed.

Lemma In_unique : forall (ws : list (nat * wpc)) w p1 p2, NoDup (map fst ws) -> In (w, p1) ws -> In (w, p2) ws -> p1 = p2.
Proof.
  intros ws w p1 p2 Hnd Ha Hb.
  apply (get_pc_In ws w p1 Hnd) in Ha. apply (get_pc_In ws w p2 Hnd) in Hb. congruence.
Qed.

Lemma map_fst_set_pc : forall w pc ws, map fst (set_pc w pc ws) = map fst ws.
Proof.
  induction ws as [|[v p] ws]; simpl; auto.
  destruct (v =? w) eqn:E; simpl; f_equal; auto. apply Nat.eqb_eq in E; auto.
Qed.

Lemma In_set_pc : forall w pc ws v p,
  In (v, p) (set_pc w pc ws) <-> (v = w /\ p = pc /\ In w (map fst ws)) \/ (v <> w /\ In (v, p) ws).
Proof.
  intros. unfold set_pc. rewrite in_map_iff. split.
  - intros [[u q] [Hf Hin]]. simpl in Hf. destruct (u =? w) eqn:E.
    + apply Nat.eqb_eq in E. subst u. inversion Hf; subst. left. repeat split; auto.
      eapply In_fst; eauto.
    + apply Nat.eqb_neq in E. inversion Hf; subst. right. split; auto.
  - intros [[Hv [Hp Hin]]|[Hne Hin]].
    + subst. apply in_map_iff in Hin. destruct Hin as [[u q] [Hu Hin]]. simpl in Hu. subst u.
      exists (w, q). simpl. rewrite Nat.eqb_refl. auto.
    + exists (v, p). simpl. destruct (v =? w) eqn:E; auto. apply Nat.eqb_eq in E. congruence.
Qed.

Lemma map_fst_del_w : forall w ws, map fst (del_w w ws) = discard w (map fst ws).
Proof.
  induction ws as [|[v p] ws]; simpl; auto.
  destruct (v =? w); simpl; f_equal; auto.
Qed.

Lemma In_del_w : forall w ws v p, In (v, p) (del_w w ws) <-> v <> w /\ In (v, p) ws.
Proof.
  intros. unfold del_w. rewrite filter_In. simpl. rewrite negb_true_iff, Nat.eqb_neq. tauto.
Qed.

Lemma map_fst_wake_all : forall ws, map fst (wake_all ws) = map fst ws.
Proof.
  induction ws as [|[v p] ws]; simpl; auto. f_equal; auto. unfold wake1; simpl. destruct p; auto.
Qed.

Lemma In_wake_all : forall ws v p,
  In (v, p) (wake_all ws) <-> (p = WNotified /\ In (v, WWait) ws) \/ (p <> WWait /\ In (v, p) ws).
Proof.
  intros. unfold wake_all. rewrite in_map_iff. split.
  - intros [[u q] [Hf Hin]]. unfold wake1 in Hf; simpl in Hf.
    destruct q; inversion Hf; subst; try (right; split; [discriminate|assumption]). left; auto.
  - intros [[Hp Hin]|[Hne Hin]].
    + subst. exists (v, WWait). auto.
    + exists (v, p). split; auto. unfold wake1; simpl. destruct p; auto. congruence.
Qed.

(* ---- cnt -------------------------------------------------------------------- *)

Lemma cnt_cons : forall p v q ws, cnt p ((v, q) :: ws) = b2n (p q) + cnt p ws.
Proof. intros. unfold cnt. simpl. destruct (p q); auto. Qed.

Lemma cnt_app : forall p ws ws', cnt p (ws ++ ws') = cnt p ws + cnt p ws'.
Proof. intros. unfold cnt. rewrite filter_app, app_length. auto. Qed.

Lemma set_pc_notin : forall w pc ws, ~ In w (map fst ws) -> set_pc w pc ws = ws.
Proof.
  induction ws as [|[v q] ws]; simpl; intros; auto.
  destruct (v =? w) eqn:E.
  - apply Nat.eqb_eq in E. tauto.
  - f_equal. apply IHws. tauto.
Qed.

Lemma del_w_notin : forall w ws, ~ In w (map fst ws) -> del_w w ws = ws.
Proof.
  induction ws as [|[v q] ws]; simpl; intros; auto.
  destruct (v =? w) eqn:E; simpl.
  - apply Nat.eqb_eq in E. tauto.
  - f_equal. apply IHws. tauto.
Qed.

Lemma cnt_set_pc : forall p w pc old ws, NoDup (map fst ws) -> In (w, old) ws ->
  cnt p (set_pc w pc ws) + b2n (p old) = cnt p ws + b2n (p pc).
Proof.
  induction ws as [|[v q] ws]; simpl; intros; try tauto.
  inversion H; subst.
  destruct (v =? w) eqn:E.
  - apply Nat.eqb_eq in E. subst. destruct H0.
    + inversion H0; subst. fold (set_pc w pc ws). rewrite set_pc_notin; auto.
      rewrite !cnt_cons. lia.
    + exfalso. apply H3. eapply In_fst; eauto.
  - apply Nat.eqb_neq in E. destruct H0. inversion H0; congruence.
    fold (set_pc w pc ws). rewrite !cnt_cons. specialize (IHws H4 H0). lia.
Qed.

Lemma cnt_del_w : forall p w old ws, NoDup (map fst ws) -> In (w, old) ws ->
  cnt p (del_w w ws) + b2n (p old) = cnt p ws.
Proof.
  induction ws as [|[v q] ws]; simpl; intros; try tauto.
  inversion H; subst.
  destruct (v =? w) eqn:E; simpl.
  - apply Nat.eqb_eq in E. subst. destruct H0.
    + inversion H0; subst. fold (del_w w ws). rewrite del_w_notin; auto. rewrite cnt_cons. lia.
    + exfalso. apply H3. eapply In_fst; eauto.
  - apply Nat.eqb_neq in E. destruct H0. inversion H0; congruence.
    fold (del_w w ws). rewrite !cnt_cons. specialize (IHws H4 H0). lia.
Qed.

Lemma cnt_wake_all_active : forall ws, cnt is_active (wake_all ws) = cnt is_active ws.
Proof.
  induction ws as [|[v q] ws]; simpl; auto.
  unfold wake1; simpl. destruct q; rewrite !cnt_cons; simpl; auto.
Qed.

Lemma cnt_zero : forall p ws, (forall v q, In (v, q) ws -> p q = false) -> cnt p ws = 0.
Proof.
  induction ws as [|[v q] ws]; simpl; intros; auto.
  rewrite cnt_cons. rewrite (H v q); auto. simpl. apply IHws. intros. eapply H; eauto.
Qed.

(* ---- first_free / spawn -------------------------------------------------------- *)

Lemma mem_In : forall n l, mem n l = true <-> In n l.
Proof.
  intros. unfold mem. rewrite existsb_exists. split.
  - intros [x [? E]]. apply Nat.eqb_eq in E. subst; auto.
  - intros. exists n. split; auto. apply Nat.eqb_refl.
Qed.

Definition above (n : nat) (l : list nat) : nat := length (filter (fun x => n <=? x) l).

Lemma filter_len_mono : forall (f g : nat -> bool) l,
  (forall x, f x = true -> g x = true) -> length (filter f l) <= length (filter g l).
Proof.
  induction l; simpl; intros H; auto. specialize (IHl H).
  destruct (f a) eqn:E1.
  - rewrite (H a E1). simpl. lia.
  - destruct (g a); simpl; lia.
Qed.

Lemma above_S : forall n l, In n l -> above (S n) l < above n l.
Proof.
  unfold above. induction l as [|a l IHl]; intros H; [inversion H|]. cbn [filter].
  assert (M : length (filter (fun x => S n <=? x) l) <= length (filter (fun x => n <=? x) l)).
  { apply filter_len_mono. intros x Hx. apply Nat.leb_le in Hx. apply Nat.leb_le. lia. }
  destruct H as [H|H].
  - subst a. rewrite Nat.leb_refl.
    assert (F : (S n <=? n) = false) by (apply Nat.leb_gt; lia). rewrite F. cbn [length]. lia.
  - specialize (IHl H). destruct (S n <=? a) eqn:E1.
    + assert (F : (n <=? a) = true) by (apply Nat.leb_le in E1; apply Nat.leb_le; lia).
      rewrite F. cbn [length]. lia.
    + destruct (n <=? a); cbn [length]; lia.
Qed.

Lemma first_free_notin : forall fuel n ths, above n ths < fuel -> ~ In (first_free fuel n ths) ths.
Proof.
  induction fuel; simpl; intros. lia.
  destruct (mem n ths) eqn:E.
  - apply mem_In in E. apply IHfuel. pose proof (above_S n ths E). lia.
  - intro. apply mem_In in H0. congruence.
Qed.

Lemma above_le : forall n l, above n l <= length l.
Proof.
  intros. unfold above. induction l; simpl; auto. destruct (n <=? a); simpl; lia.
Qed.

Lemma NoDup_snoc : forall (l : list nat) x, NoDup l -> ~ In x l -> NoDup (l ++ [x]).
Proof.
  induction l; simpl; intros x Hnd Hx.
  - constructor; auto.
  - inversion Hnd; subst. constructor.
    + rewrite in_app_iff. simpl. intros [?|[?|?]]; subst; tauto.
    + apply IHl; auto.
Qed.

Lemma spawn_spec : forall n no ths ws act ls ths' ws' act' ls',
  spawn n no ths ws act ls = (ths', ws', act', ls') ->
  NoDup ths ->
  exists new, ths' = ths ++ new /\ ws' = ws ++ map (fun x => (x, WAcq)) new /\
              length new = n /\ NoDup (ths ++ new) /\ act' = (act + Z.of_nat n)%Z /\
              ls' = ls ++ map LStart new.
Proof.
  induction n; intros no ths ws act ls ths' ws' act' ls' H Hnd.
  - simpl in H. inversion H; subst. exists []. simpl. rewrite !app_nil_r. repeat split; auto. lia.
  - cbn [spawn] in H.
    remember (first_free (S (length ths)) no ths) as x.
    assert (Hx : ~ In x ths).
    { subst x. apply first_free_notin. pose proof (above_le no ths). lia. }
    apply IHn in H; [|apply NoDup_snoc; auto].
    destruct H as [new [H1 [H2 [H3 [H4 [H5 H6]]]]]]. exists (x :: new).
    rewrite <- app_assoc in H1, H2, H4, H6. simpl in H1, H2, H4, H6.
    repeat split; auto.
    + simpl. lia.
    + rewrite H5. rewrite Nat2Z.inj_succ. lia.
Qed.
