(* Non-vacuity: the hypotheses of the C07 theorems are satisfied by concrete
   runs, and the conclusions have the expected concrete content. *)
From Coq Require Import List NArith ZArith Bool.
From RecordUpdate Require Import RecordUpdate.
From WV Require Import Lib.PyBytes Model.Receiver Model.UrlSplit Model.Parser Model.Environ Spec.Pep3333
  Proof.EnvironDict Proof.EnvironParse Proof.EnvironRun Proof.EnvironFields Proof.EnvironTarget
  Proof.EnvironLatin1 Proof.EnvironBody.
Import ListNotations.
Local Open Scope N_scope.

Definition ex_adj : adj :=
  {| max_request_header_size := 262144; max_request_body_size := 1073741824;
     adj_url_scheme := [104;116;116;112;115] (* "https" *) |}.

Definition ex_cfg : config :=
  {| url_prefix := [47;112] (* "/p" *); server_name := [115;114;118] (* "srv" *);
     effective_port := PortInt 8080; ident := [119;97;105;116;114;101;115;115] (* "waitress" *);
     peer_addr := PeerTCP [49;48;46;48;46;48;46;55] (* "10.0.0.7" *) 39830 |}.

(* POST //p/q%41%zz?x=%41#f HTTP/1.1 | Host: h | X-Foo: 1  | x-foo:<TAB>2 | X_Foo: 3 |
   Remote-Addr: 6.6.6.6 | Content-Length: 99 | Transfer-Encoding: chunked || 5 hello 0 *)
Definition ex_head : bytes :=
  [80;79;83;84;32;47;47;112;47;113;37;52;49;37;122;122;63;120;61;37;52;49;35;102;32;72;84;84;80;47;49;46;49;13;10;72;111;115;116;58;32;104;13;10;88;45;70;111;111;58;32;49;32;13;10;120;45;102;111;111;58;9;50;13;10;88;95;70;111;111;58;32;51;13;10;82;101;109;111;116;101;45;65;100;100;114;58;32;54;46;54;46;54;46;54;13;10;67;111;110;116;101;110;116;45;76;101;110;103;116;104;58;32;57;57;13;10;84;114;97;110;115;102;101;114;45;69;110;99;111;100;105;110;103;58;32;99;104;117;110;107;101;100;13;10;13;10].
Definition ex_body : bytes := [53;13;10;104;101;108;108;111;13;10;48;13;10;13;10].

Definition ex_p : parser :=
  match feed_all ex_adj [ex_head; ex_body] with Some p => p | None => parser_init end.

Example ex_run :
  feed_all ex_adj [ex_head; ex_body] = Some ex_p /\
  completed ex_p = true /\ error ex_p = None /\ empty ex_p = false /\ chunked ex_p = true.
Proof. vm_compute. repeat split. Qed.

Example ex_inputs_ok : Forall ok [ex_head; ex_body] /\ ok (adj_url_scheme ex_adj) /\ ok_config ex_cfg.
Proof.
  split; [|split].
  - repeat constructor.
  - repeat constructor.
  - constructor; cbn; repeat constructor.
Qed.

Example ex_wf_target : wf_target (request_uri ex_p).
Proof. vm_compute. reflexivity. Qed.

Definition str_PATH : bytes := [47;113;65;37;122;122].          (* "/qA%zz" *)
Example ex_environ :
  let env := get_environment ex_cfg ex_p in
  eget env k_SCRIPT_NAME = Some (VStr [47;112]) /\
  eget env k_PATH_INFO = Some (VStr str_PATH) /\
  eget env k_QUERY_STRING = Some (VStr [120;61;37;52;49]) /\                       (* "x=%41" *)
  eget env k_REQUEST_METHOD = Some (VStr [80;79;83;84]) /\
  eget env k_SERVER_PROTOCOL = Some (VStr [72;84;84;80;47;49;46;49]) /\
  eget env k_REMOTE_ADDR = Some (VStr [49;48;46;48;46;48;46;55]) /\                (* the peer, not 6.6.6.6 *)
  eget env (cgi_key [82;101;109;111;116;101;45;65;100;100;114])                    (* HTTP_REMOTE_ADDR *)
    = Some (VStr [54;46;54;46;54;46;54]) /\
  eget env (cgi_key [88;45;70;111;111]) = Some (VStr [49;44;32;50]) /\             (* HTTP_X_FOO = "1, 2" *)
  eget env c_CONTENT_LENGTH = Some (VStr [53]) /\                                  (* "5", not 99 *)
  eget env c_HTTP_TRANSFER_ENCODING = None /\
  eget env k_wsgi_input = Some (VInput [104;101;108;108;111]).
Proof. vm_compute. repeat split. Qed.

(* a Content-Length body: "03" stays as sent, wsgi.input yields 3 bytes *)
Definition ex2_head : bytes :=
  [80;85;84;32;47;97;32;72;84;84;80;47;49;46;48;13;10;67;111;110;116;101;110;116;45;76;101;110;103;116;104;58;32;48;51;13;10;13;10].
Definition ex2_p : parser :=
  match feed_all ex_adj [ex2_head; [97;98]; [99;100;101;102]] with Some p => p | None => parser_init end.
Example ex2_run :
  feed_all ex_adj [ex2_head; [97;98]; [99;100;101;102]] = Some ex2_p /\
  completed ex2_p = true /\ error ex2_p = None /\ empty ex2_p = false /\
  eget (get_environment ex_cfg ex2_p) c_CONTENT_LENGTH = Some (VStr [48;51]) /\
  eget (get_environment ex_cfg ex2_p) k_wsgi_input = Some (VInput [97;98;99]).
Proof. vm_compute. repeat split. Qed.

(* the statement of C07_no_override is about any dictionary whatsoever: a
   parser state whose dictionary claims REMOTE_ADDR directly *)
Example ex_hostile_dict :
  eget (get_environment ex_cfg (ex_p <| headers := [(k_REMOTE_ADDR, [54]); ([82;69;77;79;84;69;95;65;68;68;82], [54])] |>))
       k_REMOTE_ADDR = Some (VStr [49;48;46;48;46;48;46;55]).
Proof. vm_compute. reflexivity. Qed.

(* the fixed receiver, offered more than it wants *)
Example ex_fixed :
  f_buf (fixed_feed (fixed_init 3) [[97;98]; [99;100;101;102]]) = [97;98;99].
Proof. vm_compute. reflexivity. Qed.
