(* Proof/ChanFlowAcct.v -- L3: byte accounting and the C12 bound.
   While the outbufs are open, total_outbufs_len equals the bytes they hold, up to
   the one subtraction / addition that is in flight; bytes on the wire + bytes
   held = bytes accepted; bytes held <= high_watermark + size of the last accepted
   write. *)
From Coq Require Import List ZArith Bool Arith Lia.
From WV Require Import Lib.Conc Model.ChanFlow Proof.ChanFlow Proof.ChanFlowReq Proof.ChanFlowFlags.
Import ListNotations.
Local Open Scope Z_scope.

Definition sub_io (pc : iopc) : Z := match pc with IoSubL k => k | _ => 0 end.
Definition sub_w (pc : wpc) : Z := match pc with WSub _ k => k | _ => 0 end.
Definition add_w (pc : wpc) : Z := match pc with WAdd n => n | _ => 0 end.

Definition L3 (p : params) (s : state) : Prop :=
  (closed_bufs s = false -> pending s + sub_io (io s) + sub_w (wk s) = total s + add_w (wk s))
  /\ 0 <= pending s /\ 0 <= sub_io (io s)
  /\ pending s <= hw p + last_write s
  /\ match wk s with WFbParkedE _ true => total s <= hw p \/ closed_bufs s = true | _ => True end
  /\ match io s with IoNotify => total s <= hw p | _ => True end
  /\ wire s + pending s <= appended s
  /\ (closed_bufs s = false -> wire s + pending s = appended s)
  /\ Forall (fun n => 0 <= n) (wq s).

Lemma L3_init p : 0 <= hw p -> L3 p init.
Proof.
  intros Hhw. unfold L3, init; cbn.
  repeat split; intros; try lia; try exact I; try discriminate; try apply Forall_nil.
Qed.

Lemma Forall_tl (P : Z -> Prop) l : Forall P l -> Forall P (tl l).
Proof. destruct l; cbn; auto. inversion 1; auto. Qed.

Lemma Forall_map_max l : Forall (fun n => 0 <= n) (map (Z.max 0) l).
Proof. induction l; cbn; constructor; auto. lia. Qed.

Ltac fa := match goal with
  | H : Forall _ (?x :: ?l) |- _ => inversion H; subst; clear H
  end.

Ltac mw := match goal with |- match ?w with _ => _ end => destruct w; try exact I; cbn in *; try exact I; try absurd_hyp; spec; try zl;
   try (match goal with |- match ?b with _ => _ end => destruct b; try exact I end);
   try (match goal with H : _ \/ _ |- _ => destruct H; [left; zl | right; assumption] end); try (left; zl); try (right; reflexivity) end.

Ltac fin3 := dk; unfold L3; unf; cbn; gifs; cbn; repeat split; try assumption; intros;
  spec; conj; try assumption; try absurd_hyp; try exact I; hifs;
  b2p; subst; cbn in *; rewrite ?orb_true_r in *; b2p; spec; conj; try exact I; try assumption; try absurd_hyp;
  try (repeat fa; zl); try zl; try (fa; assumption);
  try (apply Forall_tl; assumption); try (apply Forall_map_max);
  try (left; zl); try (right; reflexivity); try hcc; try mw;
  try (match goal with H : ?b = true -> _ -> is_hcconn _ = true |- _ => is_var b; destruct b end; spec; conj; try hcc; try absurd_hyp; try assumption; try zl; try (left; zl); try (right; reflexivity); try mw;
    try (match goal with H : _ \/ _ |- _ => destruct H; try absurd_hyp; try zl end)).

Lemma L3_step_io p s r res s' l :
  L0 s -> L1 p s -> L2 s -> L3 p s -> step_io p s r res = Some (s', l) -> L3 p s'.
Proof.
  intros H0 H1 H2 H E. ds s. unfold L3 in H. unfold L0 in H0. unfold L1 in H1. unfold L2 in H2. cbn in H, H0, H1, H2.
  destruct H0 as (Ho & Hc & Hx & _).
  destruct H1 as (Ha & Hq & _).
  destruct H2 as (F1 & F2 & F3 & F4 & F5 & F6 & F7 & F8 & F9).
  destruct H as (A1 & A3 & A4 & A5 & A6 & A7 & A8 & A9 & A10).
  unfold step_io in E. cbn [ChanFlow.io] in E.
  destruct io0; cbn in A1, A4, A7, F2, F3, F7, F8, Ho, Hc, Hx.
  all: cbn in E; unf; cbn in E.
  all: split_ifs E; try discriminate; try inv_some.
  all: fin3.
Qed.

Lemma L3_step_w p s r s' l :
  L0 s -> L1 p s -> L2 s -> L3 p s -> step_w p s r = Some (s', l) -> L3 p s'.
Proof.
  intros H0 H1 H2 H E. ds s. unfold L3 in H. unfold L0 in H0. unfold L1 in H1. unfold L2 in H2. cbn in H, H0, H1, H2.
  destruct H0 as (Ho & Hc & Hx & _).
  destruct H1 as (Ha & Hq & _).
  destruct H2 as (F1 & F2 & F3 & F4 & F5 & F6 & F7 & F8 & F9).
  destruct H as (A1 & A3 & A4 & A5 & A6 & A7 & A8 & A9 & A10).
  unfold step_w in E. cbn [ChanFlow.wk] in E.
  destruct wk0; cbn in A1, A6, F6, F9, Ho, Hc, Hx, Ha, Hq.
  all: cbn in E; unf; cbn in E.
  all: split_ifs E; try discriminate; try inv_some.
  all: fin3.
Qed.

Lemma L3_step p s c s' l :
  L0 s -> L1 p s -> L2 s -> L3 p s -> step p s c = Some (s', l) -> L3 p s'.
Proof.
  destruct c as [r res|r|n|a]; cbn [step].
  - apply L3_step_io.
  - apply L3_step_w.
  - intros _ _ _ H E. ds s. unfold step_tail in E. destruct n as [|[|[|[|[|[|n]]]]]]; cbn in E; try discriminate.
    all: split_ifs E; try discriminate; inv_some; exact H.
  - intros _ _ _ H E. ds s. destruct a; cbn in E; split_ifs E; try discriminate; inv_some; exact H.
Qed.

Definition Lall (p : params) (s : state) : Prop := L0 s /\ L1 p s /\ L2 s /\ L3 p s.

Theorem Lall_step p s c s' l : Lall p s -> step p s c = Some (s', l) -> Lall p s'.
Proof.
  intros (A & B & C & D) E. split; [|split; [|split]].
  - eapply L0_step; eauto.
  - eapply L1_step; eauto.
  - eapply L2_step; eauto.
  - eapply L3_step; eauto.
Qed.

Theorem Lall_run p sched : 0 <= hw p -> Lall p (run p sched).
Proof.
  intros Hhw. unfold run. apply invariant_rule.
  - split; [|split; [|split]]. apply L0_init. apply L1_init. apply L2_init. apply L3_init; assumption.
  - intros; eapply Lall_step; eauto.
Qed.

(* ---- C12_bound ----------------------------------------------------------- *)

Theorem bound_pending p sched : 0 <= hw p ->
  pending (run p sched) <= hw p + last_write (run p sched).
Proof. intros H. destruct (Lall_run p sched H) as (_ & _ & _ & L). apply L. Qed.

(* the counter itself: equal to the bytes held whenever no subtraction / addition is in flight *)
Theorem total_is_pending p sched : 0 <= hw p ->
  let s := run p sched in
  closed_bufs s = false -> sub_io (io s) = 0 -> sub_w (wk s) = 0 -> add_w (wk s) = 0 ->
  total s = pending s.
Proof.
  intros H s C A B D. destruct (Lall_run p sched H) as (_ & _ & _ & L).
  destruct L as (L1 & _). fold s in L1. specialize (L1 C). lia.
Qed.

(* ---- C12_order ------------------------------------------------------------- *)

Theorem order_counts p sched : 0 <= hw p ->
  let s := run p sched in
  wire s + pending s <= appended s /\ (closed_bufs s = false -> wire s + pending s = appended s).
Proof.
  intros H s. destruct (Lall_run p sched H) as (_ & _ & _ & L). fold s in L.
  destruct L as (_ & _ & _ & _ & _ & _ & L8 & L9 & _). split; assumption.
Qed.

Theorem accounting p sched : 0 <= hw p ->
  let s := run p sched in
  closed_bufs s = false ->
  pending s + sub_io (io s) + sub_w (wk s) = total s + add_w (wk s).
Proof.
  intros H s C. destruct (Lall_run p sched H) as (_ & _ & _ & L). fold s in L.
  destruct L as (L1 & _). auto.
Qed.

(* every mutation of the outbufs / of total_outbufs_len happens under outbuf_lock *)
Definition io_touches (pc : iopc) : bool :=
  match pc with IoFlush | IoSubL _ | IoHcTot _ => true | _ => false end.
Definition w_touches (pc : wpc) : bool :=
  match pc with WFlush _ _ | WSub _ _ | WFlushExn _ | WAdd _ => true | _ => false end.

Theorem touches_locked p sched :
  let s := run p sched in
  (io_touches (io s) = true -> olock s = Some TIo /\ w_touches (wk s) = false)
  /\ (w_touches (wk s) = true -> olock s = Some TW /\ io_touches (io s) = false).
Proof.
  intros s. destruct (L0_all p sched) as (Ho & _ & Hx & _). fold s in Ho, Hx.
  split; intros T.
  - assert (Hh : io_holds (io s) = true) by (destruct (io s); cbn in *; congruence).
    rewrite Hh in *. cbn in Hx. split; auto. destruct (wk s); cbn in *; congruence.
  - assert (Hh : w_holds (wk s) = true) by (destruct (wk s); cbn in *; congruence).
    rewrite Hh in *. rewrite andb_true_r in Hx. rewrite Hx in Ho. split; auto.
    destruct (io s); cbn in *; try congruence; destruct k; cbn in *; congruence.
Qed.
