(* Proof/ChanCloseRefute.v -- the full statement of C11 (every kind of close decision) is false
   of the faithful model: two concrete schedules, checked by computation.

   sched_f22 (finding F22): two pipelined requests arrive in one read; the worker serving the
   first one hits a send error that is not a disconnect inside write_soon: _flush_exception sets
   will_close := True on the worker, without requests_lock; the task finishes normally
   (close_on_finish = False), service() pops the request, sees connected and a non-empty
   `requests`, and chains the second request, whose service() calls the application.

   sched_f22_io: the same with the send error hit by the I/O thread in handle_write
   (_flush_some_if_lockable while the first task runs): will_close := True at the I/O thread, and
   before handle_write reaches `if self.will_close: self.handle_close()` the worker chains and
   the second request is executed. *)
From Coq Require Import List Arith Bool.
From WV Require Import Lib.Conc Model.ChanClose.
Import ListNotations.

Definition io_n (n : nat) : list choice := repeat (CIo ENone) n.
Definition wk_n (w n : nat) : list choice := repeat (CWk w WNone) n.

(* one poll turn: readable() = True, writable() = False, select reports the socket readable,
   recv returns two complete requests, received() queues both and submits the channel *)
Definition read_two : list choice :=
  io_n 3 ++ [CIo (ELen 0); CIo (ELen 0)] ++ io_n 2 ++
  [CIo (ESelect true false); CIo (ERecv (RData [IReq false; IReq false]))] ++ io_n 11.

Definition sched_f22 : list choice :=
  read_two ++
  wk_n 0 4 ++                        (* popleft; service(); requests[0]; connected -> application *)
  [CWk 0 WFlushErr] ++               (* write_soon: _flush_exception -> will_close := True *)
  [CWk 0 (WLock false)] ++           (* close_on_finish = False: keep branch *)
  wk_n 0 6 ++                        (* pop(0); connected; requests; add_task; release; end *)
  wk_n 0 4.                          (* popleft; service(); requests[0]; connected -> application *)

Definition sched_f22_io : list choice :=
  read_two ++
  wk_n 0 4 ++
  (* next poll turn: readable() False (output pending), writable() True, socket writable *)
  io_n 3 ++ [CIo (ELen 1); CIo (ELen 1); CIo (ESelect false true)] ++
  [CIo (EFlush FErr)] ++             (* handle_write: _flush_exception -> will_close := True *)
  [CWk 0 (WLock false)] ++ wk_n 0 6 ++ wk_n 0 4.

Lemma f22_trace : trace step (init 0) sched_f22 =
  [LQueued 0; LAddTask ByIO; LQueued 1; LServiceStart 0; LServiceReq 0 0; LAppCall 0 0;
   LDecide DFlushErrW; LAddTask (ByW 0); LServiceEnd 0; LServiceStart 1; LServiceReq 1 1; LAppCall 1 1].
Proof. vm_compute. reflexivity. Qed.

Lemma f22_io_trace : trace step (init 0) sched_f22_io =
  [LQueued 0; LAddTask ByIO; LQueued 1; LServiceStart 0; LServiceReq 0 0; LAppCall 0 0;
   LDecide DFlushErrIO; LAddTask (ByW 0); LServiceEnd 0; LServiceStart 1; LServiceReq 1 1; LAppCall 1 1].
Proof. vm_compute. reflexivity. Qed.

Lemma f22_monitor : monitor all_kinds (trace step (init 0) sched_f22) = false /\
                    monitor covered (trace step (init 0) sched_f22) = true.
Proof. rewrite f22_trace. split; vm_compute; reflexivity. Qed.

Lemma f22_io_monitor : monitor all_kinds (trace step (init 0) sched_f22_io) = false /\
                       monitor covered (trace step (init 0) sched_f22_io) = true.
Proof. rewrite f22_io_trace. split; vm_compute; reflexivity. Qed.

(* The full statement: every kind of decision.  It is false (C11_full_refuted); the theorem that
   holds is the same statement restricted to the kinds with [covered k = true]
   (Proof/ChanCloseInv.v, C11_partial_positions). *)
Definition C11_statement (good : dkind -> bool) : Prop :=
  forall L sched i j kd k,
    let tr := trace step (init L) sched in
    nth_error tr i = Some (LDecide kd) -> good kd = true ->
    nth_error tr j = Some (LServiceStart k) -> i < j ->
    forall r, ~ In (LAppCall k r) tr.

Definition C11_full : Prop := C11_statement all_kinds.

Lemma C11_full_refuted : ~ C11_full.
Proof.
  intro F. unfold C11_full, C11_statement in F.
  specialize (F 0 sched_f22 6 9 DFlushErrW 1). cbv zeta in F.
  rewrite f22_trace in F.
  apply (F eq_refl eq_refl eq_refl) with (r := 1).
  - repeat constructor.
  - cbv [In]. tauto.
Qed.

(* the same, naming the decision of the witness: worker-side and I/O-side flush error *)
Definition refuted_by (kd : dkind) : Prop := exists L sched i j k r,
  nth_error (trace step (init L) sched) i = Some (LDecide kd) /\
  nth_error (trace step (init L) sched) j = Some (LServiceStart k) /\ i < j /\
  In (LAppCall k r) (trace step (init L) sched).

Lemma C11_refuted_worker_flush : refuted_by DFlushErrW.
Proof.
  exists 0, sched_f22, 6, 9, 1, 1.
  rewrite f22_trace.
  split; [reflexivity|]. split; [reflexivity|]. split; [repeat constructor|]. cbv [In]. tauto.
Qed.

Lemma C11_refuted_io_flush : refuted_by DFlushErrIO.
Proof.
  exists 0, sched_f22_io, 6, 9, 1, 1.
  rewrite f22_io_trace.
  split; [reflexivity|]. split; [reflexivity|]. split; [repeat constructor|]. cbv [In]. tauto.
Qed.

(* The hypotheses of the partial theorem are satisfiable: a covered decision (handle_close after a
   disconnect seen by handle_write) followed by a service() invocation of a request that was
   queued behind it -- which then does not call the application. *)
Definition sched_nonvacuous : list choice :=
  read_two ++
  io_n 3 ++ [CIo (ELen 1); CIo (ESelect false true); CIo (EFlush FDisc)] ++
  wk_n 0 4.

Example C11_partial_nonvacuous :
  trace step (init 0) sched_nonvacuous =
  [LQueued 0; LAddTask ByIO; LQueued 1; LDecide DHandleClose; LServiceStart 0; LServiceReq 0 0].
Proof. vm_compute. reflexivity. Qed.
