(* Proof/ChanWakeWitness.v -- schedules of the model: the finding excluded from C05_partial
   (found by the extracted explorer, replayed on the real classes by checks/C05.py) and a
   non-trivial run taken from a trace of the real code. *)
From Coq Require Import List ZArith Bool.
From WV Require Import Lib.Conc Model.ChanWake Proof.ChanWakeInv.
Import ListNotations.
Open Scope Z_scope.

(* the head of an expecting request arrives while a request is in service; at the end of
   service() the worker executes send_continue, whose flush is NOT wrapped by _flush_exception:
   a send() failing with an errno outside _DISCONNECTED raises through service(), the final
   pull_trigger is skipped and the 25 bytes of "100 Continue" stay buffered with the I/O thread
   asleep *)
Definition cfg_cont : cfg := mkCfg 0 1 100 false.
Definition sched_cont : list choice := [CIo; CIo; CIo; CIo; CIo; CIo; CIo; CClient [IReq; IHead]; CIo; CIoRecv true false; CIo; CIo; CIo; CIo; CIo; CIo; CIo; CIo; CIo; CIo; CIo; CIo; CIo; CIo; CIo; CW 0; CW 0; CW 0; CWApp 0 None false; CW 0; CW 0; CW 0; CW 0; CW 0; CW 0; CW 0; CW 0; CWSend 0 SErr; CW 0; CW 0; CW 0].

Definition bad_quiescent (c : cfg) (nw : nat) (sched : list choice) : bool :=
  let s := run (step c) (init nw) sched in
  quiescent_parked s && quiescent s && negb (c05_ok s).

Lemma cont_witness :
  bad_quiescent cfg_cont 1 sched_cont = true /\
  taint (run (step cfg_cont) (init 1) sched_cont) = true /\
  no_pending_output (run (step cfg_cont) (init 1) sched_cont) = false.
Proof. vm_compute. repeat split. Qed.

(* a run taken from a trace of the real code (two pipelined requests, partial sends, the
   watermark wait at the end of the first service(), Connection: close on the second): it
   ends in a quiescent state outside the finding class, closed, with nothing pending *)
Definition cfg_example : cfg := mkCfg 0 50 120 false.
Definition sched_example : list choice := [CW 0; CW 1; CIo; CIo; CIo; CIo; CIo; CIo; CIo; CClient [IReq; IReq]; CIo; CIoRecv true false; CIo; CIo; CIo; CIo; CIo; CIo; CIo; CIo; CIo; CIo; CIo; CIo; CIo; CIo; CIo; CIo; CIo; CW 0; CW 0; CW 0; CWApp 0 (Some 95) false; CW 0; CW 0; CW 0; CW 0; CW 0; CW 0; CWSend 0 (SOk 20); CWSend 0 SZero; CW 0; CW 0; CW 0; CWApp 0 (Some 10) false; CW 0; CW 0; CW 0; CW 0; CW 0; CW 0; CWSend 0 (SOk 85); CW 0; CW 0; CW 0; CWApp 0 (Some 300) false; CW 0; CW 0; CW 0; CW 0; CW 0; CW 0; CWSend 0 (SOk 90); CWSend 0 SZero; CW 0; CW 0; CW 0; CWApp 0 None false; CW 0; CW 0; CW 0; CW 0; CWSend 0 (SOk 210); CW 0; CW 0; CW 0; CW 0; CW 0; CW 0; CW 0; CW 0; CW 0; CW 0; CW 0; CW 0; CW 0; CW 0; CWApp 0 (Some 112) false; CW 0; CW 0; CW 0; CW 0; CW 0; CW 0; CWSend 0 (SOk 112); CW 0; CW 0; CW 0; CWApp 0 (Some 5) false; CW 0; CW 0; CW 0; CW 0; CW 0; CW 0; CW 0; CWApp 0 None true; CW 0; CW 0; CW 0; CW 0; CW 0; CW 0; CW 0; CW 1; CIo; CIo; CIo; CIo; CIo; CIo; CIo; CIoSend (SOk 5); CIo; CIo; CIo; CIo; CIo; CIo; CIo; CIo; CIo; CIo; CIoClose false; CIo; CIo; CIo; CIo].

Lemma example_run :
  let s := run (step cfg_example) (init 2) sched_example in
  quiescent_parked s = true /\ in_kf_class s = false /\ closed s = true /\ c05_ok s = true /\
  inv_ok cfg_example s = true.
Proof. vm_compute. repeat split. Qed.

Lemma refuted_continue_raises :
  exists c nw sched, 0 <= hw c /\
    let s := run (step c) (init nw) sched in
    quiescent_parked s = true /\ taint s = true /\ no_pending_output s = false.
Proof.
  exists cfg_cont, 1%nat, sched_cont. destruct cont_witness as (H1 & H2 & H3).
  unfold bad_quiescent in H1. apply andb_prop in H1. destruct H1 as [H1 _]. apply andb_prop in H1. destruct H1 as [H1 _].
  repeat split; try assumption. unfold cfg_cont; simpl; discriminate.
Qed.
