(* Proof/ChanWakeWitness.v -- a non-trivial run of the model taken from a trace of the real
   code (the hypotheses of the theorems are satisfiable by an interesting state). *)
From Coq Require Import List ZArith Bool.
From WV Require Import Lib.Conc Model.ChanWake Proof.ChanWakeInv.
Import ListNotations.
Open Scope Z_scope.

(* a run taken from a trace of the real code (two pipelined requests, partial sends, the
   watermark wait at the end of the first service(), Connection: close on the second): it
   ends in a quiescent state, closed, with nothing pending *)
Definition cfg_example : cfg := mkCfg 0 50 120 false.
Definition sched_example : list choice := [CW 0; CW 1; CIo; CIo; CIo; CIo; CIo; CIo; CIo; CClient [IReq; IReq]; CIo; CIoRecv true false; CIo; CIo; CIo; CIo; CIo; CIo; CIo; CIo; CIo; CIo; CIo; CIo; CIo; CIo; CIo; CIo; CIo; CW 0; CW 0; CW 0; CWApp 0 (Some 95) false; CW 0; CW 0; CW 0; CW 0; CW 0; CW 0; CWSend 0 (SOk 20); CWSend 0 SZero; CW 0; CW 0; CW 0; CWApp 0 (Some 10) false; CW 0; CW 0; CW 0; CW 0; CW 0; CW 0; CWSend 0 (SOk 85); CW 0; CW 0; CW 0; CWApp 0 (Some 300) false; CW 0; CW 0; CW 0; CW 0; CW 0; CW 0; CWSend 0 (SOk 90); CWSend 0 SZero; CW 0; CW 0; CW 0; CWApp 0 None false; CW 0; CW 0; CW 0; CW 0; CWSend 0 (SOk 210); CW 0; CW 0; CW 0; CW 0; CW 0; CW 0; CW 0; CW 0; CW 0; CW 0; CW 0; CW 0; CW 0; CW 0; CWApp 0 (Some 112) false; CW 0; CW 0; CW 0; CW 0; CW 0; CW 0; CWSend 0 (SOk 112); CW 0; CW 0; CW 0; CWApp 0 (Some 5) false; CW 0; CW 0; CW 0; CW 0; CW 0; CW 0; CW 0; CWApp 0 None true; CW 0; CW 0; CW 0; CW 0; CW 0; CW 0; CW 0; CW 1; CIo; CIo; CIo; CIo; CIo; CIo; CIo; CIo; CIo; CIoSend (SOk 5); CIo; CIo; CIo; CIo; CIo; CIo; CIo; CIo; CIo; CIo; CIoClose false; CIo; CIo; CIo; CIo].

Lemma example_run :
  let s := run (step cfg_example) (init 2) sched_example in
  quiescent_parked s = true /\ closed s = true /\ c05_ok s = true /\
  inv_ok cfg_example s = true.
Proof. vm_compute. repeat split. Qed.

