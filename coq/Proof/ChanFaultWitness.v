(* Proof/ChanFaultWitness.v -- the two known findings of C13 as concrete
   schedules of the model (found by the model's explorer, ocaml/chanfault/driver.ml
   `explore`; replayed on the real code by checks/C13.py).

   F17  HTTPChannel.__init__ runs outside handle_accept's try: an OSError from
        getsockopt(SO_SNDBUF) / setblocking closes the listener and its trigger.
   F18  the worker-side send_continue() flushes with do_close=True: on EPIPE the
        WORKER runs handle_close (buffers, map, active_channels, socket.close());
        if the I/O thread has already computed its select lists, select() is then
        called with a closed descriptor, EBADF escapes wasyncore.poll and the
        loop is dead. *)
From Coq Require Import List Arith Bool.
From WV Require Import Model.ChanFault Proof.ChanFaultSpec.
Import ListNotations.

Definition wcfg : cfg := mkCfg 0 1 100 1000 false true false.

Definition w_loop : list choice :=
  [(IO, ANone);
   (IO, ANone);
   (IO, ASel [FL] [] []);
   (IO, ANone);
   (IO, AAcc (AccConn A));
   (IO, ACall None);
   (IO, ANone);
   (IO, ACall None);
   (IO, ACall None);
   (IO, ANone);
   (IO, ANone);
   (IO, ANone);
   (IO, ANone);
   (IO, ASel [FC A] [] []);
   (IO, ANone);
   (IO, ANone);
   (IO, ARecv (RData [mkItem false true false; mkItem true false false]));
   (IO, ANone);
   (IO, ANone);
   (IO, ANone);
   (IO, ANone);
   (IO, ANone);
   (IO, ANone);
   (IO, ANone);
   (IO, ANone);
   (IO, ANone);
   (IO, ANone);
   (W A, ANone);
   (W A, ANone);
   (W A, ANone);
   (W A, AApp (AppDone false));
   (W A, ANone);
   (W A, ANone);
   (W A, ANone);
   (W A, ANone);
   (IO, ANone);
   (W A, ANone);
   (W A, ANone);
   (W A, ANone);
   (W A, ANone);
   (W A, ANone);
   (W A, ASend (SErr EPIPE));
   (W A, ANone);
   (W A, ANone);
   (W A, ABufLen 0);
   (W A, ANone);
   (W A, ANone);
   (W A, ANone);
   (W A, ANone);
   (W A, ANone);
   (W A, ANone);
   (W A, ANone);
   (W A, ANone);
   (W A, ANone);
   (IO, ANone);
   (IO, ANone)].
Definition w_listener : list choice :=
  [(IO, ANone);
   (IO, ANone);
   (IO, ASel [FL] [] []);
   (IO, ANone);
   (IO, AAcc (AccConn A));
   (IO, ACall None);
   (IO, ANone);
   (IO, ACall (Some EINVAL));
   (IO, ANone);
   (IO, ANone);
   (IO, ANone);
   (IO, ANone)].
Definition w_once : list choice :=
  [(IO, ANone);
   (IO, ANone);
   (IO, ASel [FL] [] []);
   (IO, ANone);
   (IO, AAcc (AccConn A));
   (IO, ACall None);
   (IO, ANone);
   (IO, ACall None);
   (IO, ACall None);
   (IO, ANone);
   (IO, ANone);
   (IO, ANone);
   (IO, ANone);
   (IO, ASel [FC A] [] []);
   (IO, ANone);
   (IO, ANone);
   (IO, ARecv (RData [mkItem false true false; mkItem true false false]));
   (IO, ANone);
   (IO, ANone);
   (IO, ANone);
   (IO, ANone);
   (IO, ANone);
   (IO, ANone);
   (IO, ANone);
   (IO, ANone);
   (IO, ANone);
   (W A, ANone);
   (W A, ANone);
   (W A, ANone);
   (W A, AApp (AppDone false));
   (W A, ANone);
   (W A, ANone);
   (W A, ANone);
   (W A, ANone);
   (W A, ANone);
   (W A, ANone);
   (W A, ANone);
   (W A, ANone);
   (W A, ANone);
   (W A, ASend (SErr EPIPE));
   (W A, ANone);
   (W A, ANone);
   (W A, ABufLen 0)].

Lemma listener_refuted_w :
  no_wcont (trace wcfg w_listener) /\ ~ listener_ok (run wcfg w_listener).
Proof.
  split.
  - apply no_wcontb_spec. vm_compute. reflexivity.
  - intros (H & _). vm_compute in H. discriminate.
Qed.

Lemma once_refuted_w :
  no_setup_fault (trace wcfg w_once) /\ ~ once_ok (run wcfg w_once) (trace wcfg w_once).
Proof.
  split.
  - apply no_setup_faultb_spec. vm_compute. reflexivity.
  - intros (H & _). apply io_onlyb_spec in H. vm_compute in H. discriminate.
Qed.

Lemma loop_refuted_w :
  no_setup_fault (trace wcfg w_loop) /\ ~ loop_ok (trace wcfg w_loop).
Proof.
  split.
  - apply no_setup_faultb_spec. vm_compute. reflexivity.
  - intro H. apply loop_okb_spec in H. vm_compute in H. discriminate.
Qed.

(* what the witnesses look like *)
Example w_listener_trace : trace wcfg w_listener =
  [LAccepted A; LEnv A (ACall (Some EINVAL)); LSetupFault A; LCaught IO (XOSError EINVAL);
   LMapDel IO FT; LTriggerClosed; LMapDel IO FL; LListenerClosed; LLoopExit].
Proof. vm_compute. reflexivity. Qed.

Example w_loop_died : In (LLoopDied (XOSError EBADF)) (trace wcfg w_loop) /\ In (LClose (W A) A) (trace wcfg w_loop).
Proof. vm_compute. intuition. Qed.
