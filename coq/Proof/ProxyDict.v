(* Dictionary lemmas for the environ of Model/Proxy.v: lookup after set / pop,
   and the "agree outside a set of keys" relation used by the two-run
   (non-interference) theorems of C15 and C16. *)
From Coq Require Import List NArith Bool.
From WV Require Import Lib.PyBytes Lib.PyStrProxy Spec.ProxySpec.
Import ListNotations.
Local Open Scope N_scope.

Lemma beqb_refl a : beqb a a = true.
Proof. apply beqb_eq. reflexivity. Qed.

Lemma beqb_false a b : beqb a b = false <-> a <> b.
Proof.
  split.
  - intros H E. subst. rewrite beqb_refl in H. discriminate.
  - intro H. destruct (beqb a b) eqn:E; auto. apply beqb_eq in E. contradiction.
Qed.

Lemma beqb_sym a b : beqb a b = beqb b a.
Proof.
  destruct (beqb a b) eqn:E1, (beqb b a) eqn:E2; auto.
  - apply beqb_eq in E1. subst. rewrite beqb_refl in E2. discriminate.
  - apply beqb_eq in E2. subst. rewrite beqb_refl in E1. discriminate.
Qed.

Section D.
  Context {V : Type}.
  Implicit Types d : dict V.

  Lemma lookup_set k k2 (v : V) d :
    lookup k (set k2 v d) = if beqb k k2 then Some v else lookup k d.
  Proof.
    induction d as [|[k' v'] d IH]; simpl.
    - reflexivity.
    - destruct (beqb k2 k') eqn:E2; simpl.
      + apply beqb_eq in E2. subst k'. destruct (beqb k k2); reflexivity.
      + destruct (beqb k k') eqn:E1.
        * apply beqb_eq in E1. subst k'. rewrite beqb_sym, E2. reflexivity.
        * exact IH.
  Qed.

  Lemma lookup_set_same k (v : V) d : lookup k (set k v d) = Some v.
  Proof. rewrite lookup_set, beqb_refl. reflexivity. Qed.

  Lemma lookup_set_other k k2 (v : V) d : beqb k k2 = false -> lookup k (set k2 v d) = lookup k d.
  Proof. intro H. rewrite lookup_set, H. reflexivity. Qed.

  Lemma lookup_pop k k2 d :
    lookup k (pop k2 d) = if beqb k k2 then None else lookup k d.
  Proof.
    induction d as [|[k' v'] d IH]; simpl.
    - destruct (beqb k k2); reflexivity.
    - destruct (beqb k2 k') eqn:E2; simpl.
      + apply beqb_eq in E2. subst k'. rewrite IH. destruct (beqb k k2); reflexivity.
      + destruct (beqb k k') eqn:E1.
        * apply beqb_eq in E1. subst k'. rewrite beqb_sym, E2. reflexivity.
        * exact IH.
  Qed.

  Definition agree (D : str -> bool) (e1 e2 : dict V) : Prop :=
    forall k, D k = false -> lookup k e1 = lookup k e2.

  Lemma agree_refl D d : agree D d d.
  Proof. intros k _. reflexivity. Qed.

  Lemma agree_sym D d1 d2 : agree D d1 d2 -> agree D d2 d1.
  Proof. intros H k Hk. symmetry. auto. Qed.

  Lemma agree_trans D d1 d2 d3 : agree D d1 d2 -> agree D d2 d3 -> agree D d1 d3.
  Proof. intros H1 H2 k Hk. rewrite H1, H2; auto. Qed.

  Lemma agree_set D k (v : V) d1 d2 : agree D d1 d2 -> agree D (set k v d1) (set k v d2).
  Proof. intros H k' Hk'. rewrite !lookup_set. destruct (beqb k' k); auto. Qed.

  Lemma agree_pop D k d1 d2 : agree D d1 d2 -> agree D (pop k d1) (pop k d2).
  Proof. intros H k' Hk'. rewrite !lookup_pop. destruct (beqb k' k); auto. Qed.

  (* writing to / deleting a key inside D is invisible outside D *)
  Lemma agree_set_in_l D k (v : V) d1 d2 : D k = true -> agree D d1 d2 -> agree D (set k v d1) d2.
  Proof.
    intros HD H k' Hk'. rewrite lookup_set. destruct (beqb k' k) eqn:E; auto.
    apply beqb_eq in E. subst. congruence.
  Qed.

  Lemma agree_pop_in_l D k d1 d2 : D k = true -> agree D d1 d2 -> agree D (pop k d1) d2.
  Proof.
    intros HD H k' Hk'. rewrite lookup_pop. destruct (beqb k' k) eqn:E; auto.
    apply beqb_eq in E. subst. congruence.
  Qed.

  Lemma agree_lookup D k d1 d2 : agree D d1 d2 -> D k = false -> lookup k d1 = lookup k d2.
  Proof. auto. Qed.
End D.

Lemma agree_off_agree D (e1 e2 : dict str) : agree_off D e1 e2 <-> agree D e1 e2.
Proof. reflexivity. Qed.
