(* The goal statement of C01 over the channel model, and what is known about
   it.  [observe] reads the model of HTTPChannel.received (Model/ChanSeq.v) the
   way the search reads the real channel: the queued requests in order, each a
   delivered message or a refusal, cut after the first refusal and after the
   first message after which the task layer closes; then whether an
   unfinished message is pending. *)
From Coq Require Import List NArith ZArith Bool Lia.
From WV Require Import Lib.PyBytes Lib.Regex Model.Receiver Model.Parser Model.ChanSeq Spec.Ref9112.
From WV Require Import Proof.C01Lib Proof.C01Framing Proof.C01Close Proof.C01Body.
Import ListNotations.
Local Open Scope N_scope.

Inductive obs :=
| ODeliver (method target version : bytes) (dict : list (bytes * bytes)) (body : bytes) (close : bool)
| ORefuse (code : N)
| OIncomplete.

Definition ref_view (o : ref_outcome) : obs :=
  match o with
  | Deliver m c => ODeliver (m_method m) (m_target m) (m_version m) (delivered_view m) (m_body m) c
  | Refuse code => ORefuse code
  | Incomplete => OIncomplete
  end.

Definition obs_of_parser (p : parser) : obs :=
  match error p with
  | Some e => ORefuse (perr_code e)
  | None =>
    ODeliver (command p) (request_uri p) (version p) (headers p)
             (match body p with Some b => body_bytes b | None => [] end)
             (model_close (version p) (hget_default (headers p) s_CONNECTION []) (connection_close p))
  end.

Definition closes (o : obs) : bool :=
  match o with ODeliver _ _ _ _ _ c => c | ORefuse _ => true | OIncomplete => true end.

Fixpoint cut (l : list obs) : list obs * bool :=
  match l with
  | [] => ([], false)
  | o :: r => if closes o then ([o], true) else let '(r', c) := cut r in (o :: r', c)
  end.

Definition pending (c : chan) : list obs :=
  match request c with
  | Some r => if negb (completed r) && (nonempty (header_plus r) || headers_finished r) then [OIncomplete] else []
  | None => []
  end.

Definition observe (r : chan_res) : option (list obs) :=
  match r with
  | COk c => let '(l, closed) := cut (map obs_of_parser (requests c)) in
             Some (if closed then l else l ++ pending c)
  | _ => None
  end.

Definition cfg_of (a : adj) : cfg :=
  {| max_header := max_request_header_size a; max_body := max_request_body_size a;
     tol_reqline_ws := true; tol_limit_first := true |}.

(* the deviation that the code still shows: trailers are not validated (F10) *)
Definition all_devs : devs := {| dv_trailer := true |}.

(* THE GOAL.  Not proved: the layers T1 (head), T2 (bodies), T3 (framing
   decision), T5 (close decision) are; their composition over the stream
   (offset accounting of the channel loop, C02's territory) is not. *)
Definition C01_full : Prop :=
  forall a s, bytes_ok s ->
  observe (feed a chan_init [s]) = Some (map ref_view (ref_run (cfg_of a) s)).

(* the same statement with the named deviations switched on: what the code is
   conjectured (and tested by K-chanseq + the search) to satisfy today *)
Definition C01_full_dev : Prop :=
  forall a s, bytes_ok s ->
  observe (feed a chan_init [s]) = Some (map ref_view (ref_run_dev (cfg_of a) all_devs s)).

Definition adj0 : adj :=
  {| max_request_header_size := 262144; max_request_body_size := 1073741824; adj_url_scheme := [104;116;116;112] |}.

(* "POST /a HTTP/1.1\r\nTransfer-Encoding: chunked\r\n\r\n0\r\nfoo\r\n\r\n"  (F10) *)
Definition f10_stream : bytes :=
  [80;79;83;84;32;47;97;32;72;84;84;80;47;49;46;49;13;10;
   84;114;97;110;115;102;101;114;45;69;110;99;111;100;105;110;103;58;32;99;104;117;110;107;101;100;13;10;13;10]
  ++ f10_body.

Lemma C01_full_refuted : ~ C01_full.
Proof.
  intro H. specialize (H adj0 f10_stream).
  assert (Hok : bytes_ok f10_stream) by (unfold bytes_ok; repeat constructor).
  specialize (H Hok). vm_compute in H. discriminate H.
Qed.

(* non-vacuity of the goal statement: a pipeline of a chunked POST with
   extension and trailer, a Content-Length PUT and a partial third message *)
Definition example_stream : bytes :=
  (* POST /a HTTP/1.1\r\nHost: h\r\nTransfer-Encoding: Chunked\r\n\r\n3;x=y\r\nabc\r\n0\r\nT: 1\r\n\r\n *)
  [80;79;83;84;32;47;97;32;72;84;84;80;47;49;46;49;13;10; 72;111;115;116;58;32;104;13;10;
   84;114;97;110;115;102;101;114;45;69;110;99;111;100;105;110;103;58;32;67;104;117;110;107;101;100;13;10;13;10;
   51;59;120;61;121;13;10;97;98;99;13;10;48;13;10;84;58;32;49;13;10;13;10]
  (* PUT /b HTTP/1.1\r\nContent-Length: 2\r\nX-A: 1\r\nx-a: 2\r\n\r\nhi *)
  ++ [80;85;84;32;47;98;32;72;84;84;80;47;49;46;49;13;10;
      67;111;110;116;101;110;116;45;76;101;110;103;116;104;58;32;50;13;10;
      88;45;65;58;32;49;13;10;120;45;97;58;32;50;13;10;13;10;104;105]
  (* GET / *)
  ++ [71;69;84;32;47].

Example C01_full_example :
  observe (feed adj0 chan_init [example_stream])
  = Some (map ref_view (ref_run (cfg_of adj0) example_stream))
  /\ length (ref_run (cfg_of adj0) example_stream) = 3%nat.
Proof. split; vm_compute; reflexivity. Qed.
