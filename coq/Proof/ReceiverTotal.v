(* Receivers: termination of the chunked loop for every state and input,
   well-formedness of the carry fields, bounds on the consumed count
   (1 <= n <= len(data)), and boundedness of the carry by the bytes consumed. *)
From Coq Require Import List NArith ZArith Bool Lia Arith.
From WV Require Import Lib.PyBytes Lib.Regex Gen.GenRegex Model.Receiver Proof.PyBytesFacts.
Import ListNotations.

Ltac rsimpl :=
  unfold set_rem, set_validate, set_control, set_chunk_end, set_all, set_trailer, set_completed,
    set_error, buf_append in *;
  cbn [chunk_remainder validate_chunk_end control_line chunk_end all_chunks_received trailer
       c_completed c_error c_buf] in *.

(* ------------------------------------------------------------------ *)
(* termination *)

Definition M (st : chunked_rcv) (s : bytes) : nat :=
  2 * (length s + length (control_line st) + length (chunk_end st))
  + (if validate_chunk_end st then 1 else 0).

Lemma firstn_nonempty {A} n (s : list A) : 0 < n -> s <> [] -> 1 <= length (firstn n s).
Proof. destruct n; [lia|]. destruct s; [congruence|]. simpl. lia. Qed.

Lemma iter_measure st s o : s <> [] ->
  match chunked_iter st s o with
  | Continue st' s' => s' = [] \/ M st' s' < M st s
  | _ => True
  end.
Proof.
  intros Hs. unfold chunked_iter.
  destruct (0 <? chunk_remainder st)%N eqn:Hrm.
  - (* data *)
    apply N.ltb_lt in Hrm. right.
    assert (L : 1 <= length (firstn (N.to_nat (chunk_remainder st)) s))
      by (apply firstn_nonempty; [lia | auto]).
    set (w := firstn (N.to_nat (chunk_remainder st)) s) in *.
    assert (L2 : length (skipn (length w) s) = length s - length w) by apply skipn_length.
    assert (L3 : length w <= length s) by (subst w; rewrite firstn_length; lia).
    destruct (_ =? 0)%N; unfold M; rsimpl; rewrite L2; destruct (validate_chunk_end st); lia.
  - destruct (validate_chunk_end st) eqn:Hv.
    + destruct (find (chunk_end st ++ s) CRLF) as [p|] eqn:Hf.
      * destruct p.
        -- right. unfold M; rsimpl. rewrite Hv. rewrite skipn_length, app_length.
           apply find_bound in Hf. rewrite app_length in Hf. simpl in Hf. simpl. lia.
        -- right. unfold M; rsimpl. rewrite Hv. rewrite app_length. simpl. lia.
      * destruct (length (chunk_end st ++ s) <? 2) eqn:Hl.
        -- now left.
        -- right. unfold M; rsimpl. rewrite Hv. rewrite app_length. simpl. lia.
    + destruct (negb (all_chunks_received st)) eqn:Hall.
      * destruct (find (control_line st ++ s) CRLF) as [p|] eqn:Hf; [|now left].
        pose proof (find_bound _ _ _ Hf) as B. rewrite app_length in B. simpl in B.
        assert (L : length (skipn (p + 2) (control_line st ++ s)) + p + 2
                    = length (control_line st) + length s)
          by (rewrite skipn_length, app_length; lia).
        destruct (firstn p (control_line st ++ s)).
        -- try (right; unfold M; rsimpl; rewrite Hv; simpl; lia); exact I.
        -- destruct (control_line_verdict _); auto.
           destruct (0 <? sz)%N; right; unfold M; rsimpl; rewrite Hv; simpl; lia.
      * destruct (startswith (trailer st ++ s) CRLF); auto.
        destruct (find_double_newline (trailer st ++ s)); auto.
Qed.

Lemma loop_some fuel : forall st s o, M st s < fuel -> chunked_loop fuel st s o <> None.
Proof.
  induction fuel as [|f IH]; intros st s o H; [lia|].
  destruct s as [|x s]; [simpl; discriminate|].
  cbn [chunked_loop].
  pose proof (iter_measure st (x :: s) o ltac:(discriminate)) as Hm.
  destruct (chunked_iter st (x :: s) o) as [st' s'| |]; try discriminate.
  destruct Hm as [-> | Hm].
  - destruct f; simpl; discriminate.
  - apply IH. lia.
Qed.

Theorem chunked_received_total : forall st s, chunked_received st s <> None.
Proof.
  intros st s. unfold chunked_received. destruct (c_completed st); [discriminate|].
  apply loop_some. unfold M, chunked_fuel. destruct (validate_chunk_end st); lia.
Qed.

(* fuel is irrelevant once sufficient *)
Lemma loop_fuel_mono f1 : forall f2 st s o r,
  chunked_loop f1 st s o = Some r -> f1 <= f2 -> chunked_loop f2 st s o = Some r.
Proof.
  induction f1 as [|f1 IH]; intros f2 st s o r H L.
  - destruct s; simpl in H; [|discriminate]. destruct f2; simpl; auto.
  - destruct f2 as [|f2]; [lia|].
    destruct s as [|x s]; [exact H|]. cbn [chunked_loop] in *.
    destruct (chunked_iter st (x :: s) o); auto. apply IH; auto. lia.
Qed.

(* ------------------------------------------------------------------ *)
(* well-formed carry state *)

Record wf_c (st : chunked_rcv) : Prop := {
  wf_ctl : find (control_line st) CRLF = None;
  wf_ce : length (chunk_end st) <= 1;
  wf_tr1 : c_completed st = false -> startswith (trailer st) CRLF = false;
  wf_tr2 : c_completed st = false -> find (trailer st) CRLFCRLF = None;
  wf_all : all_chunks_received st = true ->
           chunk_remainder st = 0%N /\ validate_chunk_end st = false;
  wf_notall : all_chunks_received st = false -> trailer st = []
}.

Lemma wf_init : wf_c chunked_init.
Proof. split; simpl; auto; try reflexivity; try lia; discriminate. Qed.

Definition phi (st : chunked_rcv) : nat :=
  length (control_line st) + length (chunk_end st) + length (trailer st).

(* what is known about the current rest [s] of the loop relative to the
   length [on] of the data of this call *)
Definition Inv (on : nat) (st : chunked_rcv) (s : bytes) : Prop :=
  length s <= on \/
  (all_chunks_received st = true /\ trailer st = [] /\ length s <= on + 1).

Lemma find_nil_CRLF : find [] CRLF = None. Proof. reflexivity. Qed.
Lemma find_nil_CRLFCRLF : find [] CRLFCRLF = None. Proof. reflexivity. Qed.
Lemma sw_nil_CRLF : startswith [] CRLF = false. Proof. reflexivity. Qed.

Lemma fdn_Some s pos : find_double_newline s = Some pos ->
  exists i, find s CRLFCRLF = Some i /\ pos = i + 4.
Proof. unfold find_double_newline. destruct (find s CRLFCRLF); [|discriminate]. intros H; injection H as <-. eauto. Qed.

Lemma fdn_None s : find_double_newline s = None -> find s CRLFCRLF = None.
Proof. unfold find_double_newline. destruct (find s CRLFCRLF); [discriminate|auto]. Qed.

Lemma sw_short_CRLF (s : bytes) : length s <= 1 -> startswith s CRLF = false.
Proof. intros. apply startswith_short. simpl. lia. Qed.

(* the specification of one iteration *)
Lemma iter_spec on st s : wf_c st -> c_completed st = false -> s <> [] -> Inv on st s ->
  match chunked_iter st s (Z.of_nat on) with
  | Continue st' s' =>
      wf_c st' /\ Inv on st' s' /\ phi st' + length s' <= phi st + length s
      /\ c_completed st' = c_completed st
  | Break st' =>
      wf_c st' /\ phi st' <= phi st + length s /\ c_completed st' = c_completed st
  | Return st' v =>
      wf_c st' /\ c_completed st' = true /\ (1 <= v <= Z.of_nat on)%Z
      /\ (Z.of_nat (phi st') + (Z.of_nat on - v) <= Z.of_nat (phi st + length s))%Z
  end.
Proof.
  intros W Hc Hs I. destruct W as [Wctl Wce Wt1 Wt2 Wall Wnall].
  specialize (Wt1 Hc). specialize (Wt2 Hc).
  unfold chunked_iter.
  destruct (0 <? chunk_remainder st)%N eqn:Hrm.
  - (* data *)
    apply N.ltb_lt in Hrm.
    assert (Hall : all_chunks_received st = false).
    { destruct (all_chunks_received st) eqn:E; auto. destruct (Wall eq_refl). lia. }
    set (w := firstn (N.to_nat (chunk_remainder st)) s) in *.
    assert (L2 : length (skipn (length w) s) = length s - length w) by apply skipn_length.
    assert (Hinv : Inv on st s -> length s <= on).
    { intros [H|(H & _)]; [auto | congruence]. }
    specialize (Hinv I).
    destruct (_ =? 0)%N; rsimpl.
    + split; [split; rsimpl; auto; intros; congruence|].
      split; [left; lia|]. unfold phi; rsimpl. split; [lia | auto].
    + split; [split; rsimpl; auto; intros; congruence|].
      split; [left; lia|]. unfold phi; rsimpl. split; [lia | auto].
  - apply N.ltb_ge in Hrm. assert (Hrm0 : chunk_remainder st = 0%N) by lia.
    destruct (validate_chunk_end st) eqn:Hv.
    + (* chunk terminator *)
      assert (Hall : all_chunks_received st = false).
      { destruct (all_chunks_received st) eqn:E; auto. destruct (Wall eq_refl). congruence. }
      assert (Hlen : length s <= on) by (destruct I as [H|(H & _)]; [auto | congruence]).
      pose proof (Wnall Hall) as Htr.
      destruct (find (chunk_end st ++ s) CRLF) as [p|] eqn:Hf.
      * destruct p.
        -- (* CRLF at 0: drop it *)
           apply find_bound in Hf. rewrite app_length in Hf. simpl in Hf.
           split; [split; rsimpl; auto; try (intros; congruence); simpl; lia|].
           split; [left; rewrite skipn_length, app_length; lia|].
           unfold phi; rsimpl. rewrite skipn_length, app_length. simpl. split; [lia | auto].
        -- (* not at 0: error, continue in the trailer phase *)
           split; [split; rsimpl; auto; try (intros; congruence); simpl; lia|].
           split; [right; rsimpl; rewrite app_length; repeat split; auto; lia|].
           unfold phi; rsimpl. rewrite app_length. simpl. split; [lia | auto].
      * destruct (length (chunk_end st ++ s) <? 2) eqn:Hl.
        -- apply Nat.ltb_lt in Hl.
           split; [split; rsimpl; auto; try (intros; congruence); lia|].
           split; [left; simpl; lia|].
           unfold phi; rsimpl. rewrite app_length. simpl. split; [lia | auto].
        -- split; [split; rsimpl; auto; try (intros; congruence); simpl; lia|].
           split; [right; rsimpl; rewrite app_length; repeat split; auto; lia|].
           unfold phi; rsimpl. rewrite app_length. simpl. split; [lia | auto].
    + destruct (negb (all_chunks_received st)) eqn:Hall.
      * (* control line *)
        apply negb_true_iff in Hall.
        assert (Hlen : length s <= on) by (destruct I as [H|(H & _)]; [auto | congruence]).
        pose proof (Wnall Hall) as Htr.
        destruct (find (control_line st ++ s) CRLF) as [p|] eqn:Hf.
        -- pose proof (find_bound _ _ _ Hf) as B. rewrite app_length in B. simpl in B.
           pose proof (find_app_none_l _ _ _ _ Wctl Hf) as B2. simpl in B2.
           assert (L : length (skipn (p + 2) (control_line st ++ s)) + p + 2
                       = length (control_line st) + length s)
             by (rewrite skipn_length, app_length; lia).
           destruct (firstn p (control_line st ++ s)) eqn:Hline.
           ++ split; [split; rsimpl; auto; intros; congruence|].
              first [ split; [left; lia|]; unfold phi; rsimpl; simpl; split; [lia | auto]
                    | unfold phi; rsimpl; simpl; split; [lia | auto] ].
           ++ destruct (control_line_verdict _).
              ** destruct (0 <? sz)%N eqn:Hsz.
                 --- split; [split; rsimpl; auto; intros; congruence|].
                     split; [left; lia|]. unfold phi; rsimpl. simpl. split; [lia | auto].
                 --- split; [split; rsimpl; auto; intros; congruence|].
                     split; [left; lia|]. unfold phi; rsimpl. simpl. split; [lia | auto].
              ** split; [split; rsimpl; auto; intros; congruence|].
                 unfold phi; rsimpl. simpl. split; [lia | auto].
              ** split; [split; rsimpl; auto; intros; congruence|].
                 unfold phi; rsimpl. simpl. split; [lia | auto].
        -- split; [split; rsimpl; auto; intros; congruence|].
           split; [left; simpl; lia|]. unfold phi; rsimpl. rewrite app_length. simpl. split; [lia | auto].
      * (* trailer *)
        apply negb_false_iff in Hall.
        destruct (startswith (trailer st ++ s) CRLF) eqn:Hsw.
        -- (* no trailer *)
           assert (Lt : length (trailer st) <= 1).
           { destruct (le_lt_dec (length (trailer st)) 1); auto.
             rewrite startswith_app_long in Hsw by (simpl; lia). congruence. }
           pose proof (startswith_length _ _ Hsw) as L2. rewrite app_length in L2. simpl in L2.
           split; [split; rsimpl; auto|]. split; [reflexivity|].
           rewrite app_length. unfold phi; rsimpl.
           destruct I as [H|(_ & H1 & H2)]; [|rewrite H1 in *; simpl in *]; lia.
        -- destruct (find_double_newline (trailer st ++ s)) as [pos|] eqn:Hd.
           ++ apply fdn_Some in Hd as (i & Hi & ->).
              pose proof (find_bound _ _ _ Hi) as B. rewrite app_length in B. simpl in B.
              pose proof (find_app_none_l _ _ _ _ Wt2 Hi) as B2. simpl in B2.
              split; [split; rsimpl; auto; intros; congruence|]. split; [reflexivity|].
              rewrite app_length. unfold phi; rsimpl. rewrite firstn_length, app_length.
              destruct I as [H|(_ & H1 & H2)]; [|rewrite H1 in *; simpl in *]; lia.
           ++ apply fdn_None in Hd.
              split; [split; rsimpl; auto; intros; congruence|].
              split; [left; simpl; lia|]. unfold phi; rsimpl. rewrite app_length. simpl. split; [lia | auto].
Qed.

Lemma loop_spec on fuel : forall st s st' n,
  wf_c st -> c_completed st = false -> Inv on st s -> 1 <= on ->
  chunked_loop fuel st s (Z.of_nat on) = Some (st', n) ->
  wf_c st' /\ (1 <= n <= Z.of_nat on)%Z
  /\ (Z.of_nat (phi st') + (Z.of_nat on - n) <= Z.of_nat (phi st + length s))%Z
  /\ (c_completed st' = false -> n = Z.of_nat on).
Proof.
  induction fuel as [|f IH]; intros st s st' n W Hc I Hon H.
  - destruct s; simpl in H; [|discriminate]. injection H as <- <-.
    split; [auto|]. split; [lia|]. split; [lia|auto].
  - destruct s as [|x s].
    + simpl in H. injection H as <- <-. split; [auto|]. split; [lia|]. split; [lia|auto].
    + cbn [chunked_loop] in H.
      pose proof (iter_spec on st (x :: s) W Hc ltac:(discriminate) I) as S.
      destruct (chunked_iter st (x :: s) (Z.of_nat on)) as [st1 s1|st1|st1 v].
      * destruct S as (W1 & I1 & P1 & C1).
        destruct (IH st1 s1 st' n W1 ltac:(congruence) I1 Hon H) as (A & B & C & D).
        split; [auto|]. split; [lia|]. split; [lia|auto].
      * injection H as <- <-. destruct S as (W1 & P1 & C1).
        split; [auto|]. split; [lia|]. split; [lia|auto].
      * injection H as <- <-. destruct S as (W1 & C1 & B1 & P1).
        split; [auto|]. split; [lia|]. split; [lia|]. congruence.
Qed.

(* The receiver as the parser sees it: on a well-formed, not completed state and
   a non-empty read it terminates, consumes between 1 and len(data) bytes, all of
   them unless it completed, keeps the state well-formed, and the carry grows by
   at most the number of bytes consumed. *)
Theorem chunked_received_spec st s : wf_c st -> c_completed st = false -> s <> [] ->
  exists st' n, chunked_received st s = Some (st', n) /\ wf_c st'
    /\ (1 <= n <= Z.of_nat (length s))%Z
    /\ (Z.of_nat (phi st') <= Z.of_nat (phi st) + n)%Z
    /\ (c_completed st' = false -> n = Z.of_nat (length s)).
Proof.
  intros W Hc Hs.
  destruct (chunked_received st s) as [[st' n]|] eqn:E; [|exfalso; revert E; apply chunked_received_total].
  exists st', n. split; auto.
  unfold chunked_received in E. rewrite Hc in E.
  assert (Hon : 1 <= length s) by (destruct s; [congruence | simpl; lia]).
  destruct (loop_spec (length s) _ st s st' n W Hc ltac:(left; lia) Hon E) as (A & B & C & D).
  split; [auto|]. split; [lia|]. split; [lia|auto].
Qed.

(* the fixed-length receiver *)
Lemma fixed_received_spec f data : (1 <= f_remain f)%N -> data <> [] ->
  let '(f', n) := fixed_received f data in
  (1 <= n <= Z.of_nat (length data))%Z /\
  (f_completed f' = true \/ (f_completed f' = f_completed f /\ (1 <= f_remain f')%N /\ n = Z.of_nat (length data))).
Proof.
  intros Hr Hd. unfold fixed_received.
  assert (Hl : (1 <= lenN data)%N) by (destruct data; [congruence | rewrite lenN_cons; lia]).
  destruct (f_remain f <? 1)%N eqn:E1; [apply N.ltb_lt in E1; lia|].
  destruct (f_remain f <=? lenN data)%N eqn:E2.
  - apply N.leb_le in E2. unfold lenN in *. cbn [f_completed f_remain]. split; [lia | auto].
  - apply N.leb_gt in E2. unfold lenN in *. cbn [f_completed f_remain]. split; [lia|]. right. repeat split; lia.
Qed.

(* the only errors the chunked receiver raises *)
Definition chunk_err (e : option perr) : Prop :=
  match e with
  | None | Some EChunkNotTerminated | Some EInvalidChunkExt | Some EInvalidChunkSize => True
  | _ => False
  end.

Lemma iter_err st s o : chunk_err (c_error st) ->
  match chunked_iter st s o with
  | Continue st' _ | Break st' | Return st' _ => chunk_err (c_error st')
  end.
Proof.
  intros H. unfold chunked_iter.
  repeat match goal with
  | |- context [match ?c with _ => _ end] =>
    lazymatch c with
    | context [match _ with _ => _ end] => fail
    | _ => destruct c
    end
  end; rsimpl; auto; exact I.
Qed.

Lemma loop_err f : forall st s o st' n, chunk_err (c_error st) ->
  chunked_loop f st s o = Some (st', n) -> chunk_err (c_error st').
Proof.
  induction f as [|f IH]; intros st s o st' n H E.
  - destruct s; simpl in E; [injection E as <- <-; auto | discriminate].
  - destruct s as [|x s]; [simpl in E; injection E as <- <-; auto|].
    cbn [chunked_loop] in E. pose proof (iter_err st (x :: s) o H) as I.
    destruct (chunked_iter st (x :: s) o).
    + eapply IH; eauto.
    + injection E as <- <-. auto.
    + injection E as <- <-. auto.
Qed.

Lemma chunked_received_err st s st' n : chunk_err (c_error st) ->
  chunked_received st s = Some (st', n) -> chunk_err (c_error st').
Proof.
  intros H. unfold chunked_received. destruct (c_completed st).
  - intros E; injection E as <- <-. auto.
  - apply loop_err; auto.
Qed.
