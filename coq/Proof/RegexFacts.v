(* Generic facts linking regular expressions to list predicates. *)
From Coq Require Import List NArith Bool Lia.
From WV Require Import Lib.Regex Lib.PyBytes.
Import ListNotations.
Local Open Scope N_scope.

Lemma Lang_Cls rs s : Lang (Cls rs) s <-> exists x, s = [x] /\ in_ranges x rs = true.
Proof.
  split.
  - intro H; inversion H; subst; eauto.
  - intros (x & -> & H); constructor; auto.
Qed.

Lemma Lang_star_cls rs s :
  Lang (Star (Cls rs)) s <-> Forall (fun x => in_ranges x rs = true) s.
Proof.
  split.
  - intro H. remember (Star (Cls rs)) as r eqn:E.
    induction H; try discriminate; auto.
    injection E as ->. apply Forall_app. split; auto.
    apply Lang_Cls in H as (x & -> & Hx). constructor; auto.
  - induction 1 as [|x l Hx Hl IH]; [constructor|].
    change (x :: l) with ([x] ++ l). apply LStarS; auto. constructor; auto.
Qed.

Lemma memb_false_forall c s : memb c s = false <-> Forall (fun x => x <> c) s.
Proof.
  unfold memb. induction s as [|x s IH]; simpl.
  - split; auto.
  - rewrite orb_false_iff, IH. split.
    + intros [H1 H2]. constructor; auto. apply N.eqb_neq in H1. congruence.
    + intro H; inversion H; subst. split; auto. apply N.eqb_neq. congruence.
Qed.

(* s.find(bytes([c])) *)
Lemma startswith_single s c :
  startswith s [c] = match s with x :: _ => c =? x | [] => false end.
Proof. destruct s as [|x s']; simpl; auto. destruct s'; simpl; rewrite andb_true_r; auto. Qed.

Lemma find_from_char s c i :
  match find_from s [c] i with
  | None => Forall (fun x => x <> c) s
  | Some j => exists a b, s = a ++ c :: b /\ Forall (fun x => x <> c) a /\ j = (i + length a)%nat
  end.
Proof.
  revert i; induction s as [|x s IH]; intro i.
  - simpl. constructor.
  - cbn [find_from]. rewrite startswith_single.
    destruct (c =? x) eqn:E.
    + apply N.eqb_eq in E; subst. exists [], s. simpl. repeat split; auto; lia.
    + apply N.eqb_neq in E. specialize (IH (S i)).
      destruct (find_from s [c] (S i)) as [j|].
      * destruct IH as (a & b & -> & Ha & ->). exists (x :: a), b. simpl.
        repeat split; auto; lia.
      * constructor; auto.
Qed.

Lemma find_char s c :
  match find s [c] with
  | None => Forall (fun x => x <> c) s
  | Some j => exists a b, s = a ++ c :: b /\ Forall (fun x => x <> c) a /\ j = length a
  end.
Proof. unfold find. pose proof (find_from_char s c 0) as H. destruct (find_from s [c] 0); auto. Qed.

Lemma find_char_unique a b c :
  Forall (fun x => x <> c) a -> find (a ++ c :: b) [c] = Some (length a).
Proof.
  intro Ha. pose proof (find_char (a ++ c :: b) c) as H.
  destruct (find (a ++ c :: b) [c]) as [j|].
  - destruct H as (a' & b' & E & Ha' & ->). f_equal.
    revert a' E Ha'. induction Ha as [|x a Hx Ha IH]; intros a' E Ha'.
    + destruct a' as [|y a']; auto. simpl in E. injection E as -> _. inversion Ha'; congruence.
    + destruct a' as [|y a']; simpl in E.
      * injection E as -> _. congruence.
      * injection E as -> E. inversion Ha'; subst. simpl. f_equal. eauto.
  - exfalso. rewrite Forall_forall in H. apply (H c); auto. apply in_or_app. right. left. auto.
Qed.

Lemma firstn_app_exact {A} (a b : list A) : firstn (length a) (a ++ b) = a.
Proof. induction a; simpl; auto. f_equal; auto. Qed.
Lemma skipn_app_exact {A} (a b : list A) : skipn (length a) (a ++ b) = b.
Proof. induction a; simpl; auto. Qed.

Lemma bytes_ok_app a b : bytes_ok (a ++ b) <-> bytes_ok a /\ bytes_ok b.
Proof. unfold bytes_ok. apply Forall_app. Qed.
