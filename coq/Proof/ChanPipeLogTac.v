(* Proof/ChanPipeLogTac.v -- tactics for the preservation proof of layer L2. *)
From Coq Require Import List Arith Bool ZArith Lia.
From WV Require Import Model.ChanPipe Proof.ChanPipeBase Proof.ChanPipeOwn Proof.ChanPipeLog.
Import ListNotations.


Ltac frame_io HL2 :=
  apply (L2_frame _ _) with (11 := HL2); cbn; try reflexivity; try (intro; reflexivity); try (let X := fresh in intro X; exact X); intro; split; reflexivity.
Ltac frame_wk HL2 me Hw :=
  apply (L2_frame _ _) with (11 := HL2); cbn; try reflexivity; try (intro; reflexivity); try (let X := fresh in intro X; exact X);
  let j := fresh "j" in intro j; unfold upd; destruct (Nat.eqb_spec j me); [subst j; rewrite Hw|]; split; reflexivity.

Ltac slv := solve [ intuition (eauto; try discriminate; try congruence; try lia) ].

Ltac fwd :=
  repeat match goal with
  | H : ?A -> _ |- _ =>
      match type of A with
      | Prop => let HA := fresh in
                assert (HA : A) by (first [ assumption | reflexivity | discriminate | congruence
                                          | left; first [assumption | reflexivity | congruence]
                                          | right; first [assumption | reflexivity | congruence | apply app_one_nonnil ] ]);
                specialize (H HA); clear HA
      end
  end.

Ltac lists :=
  repeat match goal with
  | H : ?a ++ [?x] = ?a |- _ => exfalso; exact (app_one_neq _ _ _ H)
  | H : ?a = ?a ++ [?x] |- _ => exfalso; symmetry in H; exact (app_one_neq _ _ _ H)
  | H : ?l ++ [_] = [] |- _ => exfalso; exact (app_one_nonnil _ _ _ H)
  | H : ?a ++ [?x] = ?b ++ [?y] |- _ => apply app_one_inj in H; destruct H; subst
  | |- prefix _ (_ ++ [_]) => apply prefix_app_r
  | |- hd_error (_ ++ [_]) = Some _ => apply hd_error_app
  | |- _ ++ [_] <> [] => apply app_one_nonnil
  end.

(* use the per-worker clauses for the workers at hand *)
Ltac inst_wk :=
  repeat match goal with
  | C : forall j, serving (wpc (?w j)) = true -> _ /\ _, H : serving (wpc (?w ?j)) = true |- _ =>
      let X := fresh in pose proof (C j H) as X; destruct X; revert H
  end; intros.

Ltac upd_hyps :=
  repeat match goal with
  | H : forall j : nat, ?f (wpc (upd ?w ?me ?x j)) = ?b |- _ =>
      apply (upd_forall_elim (fun y => f (wpc y) = b)) in H; destruct H
  end.

Ltac upd_goal me :=
  try (exists me; rewrite upd_same; reflexivity);
  try (left; exists me; rewrite upd_same; reflexivity);
  unfold upd in *;
  repeat match goal with
  | |- context [Nat.eqb ?j me] => destruct (Nat.eqb_spec j me); [subst j|]
  | H : context [Nat.eqb ?j me] |- _ => destruct (Nat.eqb_spec j me); [subst j|]
  end.

Ltac bool_goal :=
  try match goal with
  | |- ?b = false => match type of b with bool => destruct b eqn:?; [exfalso|reflexivity] end
  end.

Ltac pc_facts2 :=
  repeat match goal with
  | H : execd (wpc ?x) = true |- _ =>
      lazymatch goal with _ : serving (wpc x) = true |- _ => fail | _ => pose proof (execd_serving _ H) end
  | H : is_svconn (wpc ?x) = true |- _ =>
      lazymatch goal with _ : serving (wpc x) = true |- _ => fail | _ => pose proof (is_svconn_serving _ H) end
  | H : is_cb2 (wpc ?x) = true |- _ =>
      lazymatch goal with _ : serving (wpc x) = true |- _ => fail | _ => pose proof (is_cb2_serving _ H) end
  | H : io_app ?pc = true |- _ =>
      lazymatch goal with _ : io_rl pc = true |- _ => fail | _ => pose proof (io_app_rl _ H) end
  end.

Ltac oth_contra :=
  repeat match goal with
  | Hoth : forall j, j <> ?me -> serving (wpc (?w j)) = false, N : ?j <> ?me, H : serving (wpc (?w ?j)) = true |- _ =>
      rewrite (Hoth j N) in H; discriminate H
  end.

Ltac fin :=
  bool_hyps; cbn in *; unfold live in *; cbn in *; lists;
  try solve [ eauto ];
  try slv;
  fwd; inst_wk; lists;
  try slv;
  try (match goal with A : arrivals _ = _ |- _ => rewrite A end; rewrite <- ?app_assoc; reflexivity);
  try (split; [assumption | lists; assumption]);
  bool_goal; fwd;
  try slv;
  pc_facts2; fwd; oth_contra;
  try slv.

(* last resort for the worker cases: split on the request list *)
Ltac fin_req :=
  match goal with
  | s : shared |- _ =>
      destruct (requests s) as [|? ?] eqn:?; cbn in *; fwd; inst_wk; lists; subst;
      rewrite <- ?app_assoc; cbn;
      try slv
  end.

