(* Proof/ChanCloseBase.v -- definitions of the inductive invariant of Model/ChanClose.v and the
   case-analysis tactics shared by the preservation proofs. *)
From Coq Require Import List Arith Bool Lia.
From WV Require Import Model.ChanClose.
Import ListNotations.

(* program points at which the thread owns requests_lock *)
Definition io_holds (p : iopc) : bool :=
  match p with IoRC1 | IoRC2 | IoRCloop | IoRClen | IoRCadd | IoRCrel => true | _ => false end.
Definition wk_holds (p : wpc) : bool :=
  match p with
  | WClose1 _ | WClose2 _ | WClose3 _ | WKeep1 _ | WKeep2 _ | WKeep3 _ | WKeepAdd _ | WKeepE _ | WKeep5 _ => true
  | _ => false
  end.
(* the worker is inside service() (from the popleft on) and has not yet reached the point where it
   hands the channel over (add_task) or gives it up (requests cleared / nothing left / not connected) *)
Definition active (p : wpc) : bool :=
  match p with
  | WPopped | WSvc0 _ _ | WSvc1 _ _ _ | WTask _ _ | WClose1 _ | WClose2 _
  | WKeep1 _ | WKeep2 _ | WKeep3 _ | WKeepAdd _ => true
  | _ => false
  end.
(* ... and the request it serves is still in [requests] *)
Definition prepop (p : wpc) : bool :=
  match p with
  | WPopped | WSvc0 _ _ | WSvc1 _ _ _ | WTask _ _ | WClose1 _ | WClose2 _ | WKeep1 _ | WKeepAdd _ => true
  | _ => false
  end.
(* the worker is about to create a dispatcher entry / to enter service() *)
Definition starter (p : wpc) : bool := match p with WKeepAdd _ | WPopped => true | _ => false end.
Definition at_close2 (p : wpc) : bool := match p with WClose2 _ => true | _ => false end.
(* service() entered after a covered decision, application not yet (and never) called *)
Definition late_early (p : wpc) : bool :=
  match p with WSvc0 _ true | WSvc1 _ true _ => true | _ => false end.

(* the I/O thread is about to create a dispatcher entry *)
Definition tokio (s : state) : Prop :=
  io s = IoRCadd \/ (io s = IoRClen /\ length (reqs s) = 1).

(* received() will refuse, whenever its flag test is evaluated *)
Definition flags_ok (s : state) : Prop :=
  cwf s = true \/ (wc s = true /\ io s <> IoRC2) \/ io s = IoHW3.

(* no service() invocation can start any more *)
Definition Closed (s : state) : Prop :=
  flags_ok s /\
  (io s <> IoRCloop /\ io s <> IoRClen /\ io s <> IoRCadd) /\
  queue s = 0 /\
  (forall w, starter (wk s w) = false) /\
  (reqs s = [] \/ exists w, at_close2 (wk s w) = true).

Record Inv (s : state) : Prop := mkInv {
  i_lock_io : rlock s = Some ByIO <-> io_holds (io s) = true;
  i_lock_wk : forall w, rlock s = Some (ByW w) <-> wk_holds (wk s w) = true;
  i_lock_sd : rlock s <> Some BySD;
  i_q1 : queue s <= 1;
  i_q_excl : queue s = 1 -> (forall w, active (wk s w) = false) /\ ~ tokio s /\ sd s = SdIdle;
  i_act_uniq : forall w1 w2, active (wk s w1) = true -> active (wk s w2) = true -> w1 = w2;
  i_act_excl : forall w, active (wk s w) = true -> ~ tokio s /\ sd s = SdIdle;
  i_tok_sd : tokio s -> sd s = SdIdle;
  i_reqs_q : queue s = 1 -> reqs s <> [];
  i_reqs_io : io s = IoRCadd -> reqs s <> [];
  i_reqs_wk : forall w, prepop (wk s w) = true -> reqs s <> [];
  i_reqs_sd : sd s <> SdIdle -> reqs s <> [];
  i_m2 : io s = IoM2 -> reqs s = [];
  i_mret : mret s = IoTop \/ mret s = IoSel;
  i_cwf : (cwf s = true \/ io s = IoHW1b \/ io s = IoHW2 \/ io s = IoHW3) -> gdec s = true;
  i_safe : gdec s = true -> conn s = false \/ Closed s \/ sd s = SdC2;
  i_late : forall w, late_early (wk s w) = true -> conn s = false
}.

(* ---- case analysis on a step ----------------------------------------------------------- *)
Ltac destr_in H :=
  repeat match type of H with
  | context [match ?x with _ => _ end] => destruct x eqn:?
  end.

Ltac step_inv H :=
  destr_in H; try discriminate H;
  match type of H with Some _ = Some _ => inversion H; subst; clear H end.

Ltac io_cases H := unfold step_io in H; step_inv H.
Ltac wk_cases H := unfold step_wk in H; step_inv H.
Ltac sd_cases H := unfold step_sd in H; step_inv H.

Lemma wk_set_same : forall s w p, wk (set_wk s w p) w = p.
Proof. intros. simpl. rewrite Nat.eqb_refl. reflexivity. Qed.
Lemma wk_set_other : forall s w p w', w' <> w -> wk (set_wk s w p) w' = wk s w'.
Proof. intros. simpl. destruct (Nat.eqb_spec w' w); congruence. Qed.
