(* Proof/ChanCloseBase.v -- definitions of the inductive invariant of Model/ChanClose.v and the
   case-analysis tactics shared by the preservation proofs. *)
From Coq Require Import List Arith Bool Lia.
From WV Require Import Model.ChanClose.
Import ListNotations.

(* program points at which the thread owns requests_lock *)
Definition io_holds (p : iopc) : bool :=
  match p with
  | IoRC1 | IoRC2 | IoRCloop | IoRCapp | IoRCappX | IoRClen | IoRCadd | IoRCrel => true
  | _ => false
  end.
Definition wk_holds (p : wpc) : bool :=
  match p with
  | WClose1 _ | WClose2 _ | WClose3 _ | WKeep1 _ | WKeep2 _ | WKeep3 _ | WKeepAdd _ | WKeepE _ | WKeep5 _ => true
  | _ => false
  end.
(* the worker is inside service() (from the popleft on) and has not yet reached the point where it
   hands the channel over (add_task) or gives it up (requests cleared / nothing left / not connected) *)
Definition active (p : wpc) : bool :=
  match p with
  | WPopped | WSvc0 _ _ | WSvc1 _ _ _ | WSvc1b _ _ _ | WTask _ _ | WClose1 _ | WClose2 _
  | WKeep1 _ | WKeep2 _ | WKeep3 _ | WKeepAdd _ => true
  | _ => false
  end.
(* ... and the request it serves is still in [requests] *)
Definition prepop (p : wpc) : bool :=
  match p with
  | WPopped | WSvc0 _ _ | WSvc1 _ _ _ | WSvc1b _ _ _ | WTask _ _ | WClose1 _ | WClose2 _ | WKeep1 _
  | WKeepAdd _ => true
  | _ => false
  end.
(* the worker is about to create a dispatcher entry / to enter service() *)
Definition starter (p : wpc) : bool := match p with WKeepAdd _ | WPopped => true | _ => false end.
Definition at_close2 (p : wpc) : bool := match p with WClose2 _ => true | _ => false end.
(* service() entered after a decision, before its read of connected / of will_close *)
Definition late_early (p : wpc) : bool :=
  match p with WSvc0 _ true | WSvc1 _ true _ => true | _ => false end.
Definition late_b (p : wpc) : bool :=
  match p with WSvc1b _ true _ => true | _ => false end.

(* the I/O thread is about to create a dispatcher entry *)
Definition tokio (s : state) : Prop :=
  io s = IoRCadd \/ (io s = IoRClen /\ length (reqs s) = 1).

(* received() will refuse, whenever its flag test is evaluated *)
Definition flags_ok (s : state) : Prop :=
  cwf s = true \/ (wc s = true /\ io s <> IoRC2) \/ io s = IoHW3.

(* no service() invocation can start any more *)
Definition Closed (s : state) : Prop :=
  flags_ok s /\
  (io s <> IoRCloop /\ io s <> IoRCapp /\ io s <> IoRCappX /\ io s <> IoRClen /\ io s <> IoRCadd) /\
  queue s = 0 /\
  (forall w, starter (wk s w) = false) /\
  (reqs s = [] \/ exists w, at_close2 (wk s w) = true).

Record Inv (s : state) : Prop := mkInv {
  i_lock_io : rlock s = Some ByIO <-> io_holds (io s) = true;
  i_lock_wk : forall w, rlock s = Some (ByW w) <-> wk_holds (wk s w) = true;
  i_lock_sd : rlock s <> Some BySD;
  i_q1 : queue s <= 1;
  i_q_excl : queue s = 1 -> (forall w, active (wk s w) = false) /\ ~ tokio s /\ sd s = SdIdle;
  i_act_uniq : forall w1 w2, active (wk s w1) = true -> active (wk s w2) = true -> w1 = w2;
  i_act_excl : forall w, active (wk s w) = true -> ~ tokio s /\ sd s = SdIdle;
  i_tok_sd : tokio s -> sd s = SdIdle;
  i_reqs_q : queue s = 1 -> reqs s <> [];
  i_reqs_io : io s = IoRCadd -> reqs s <> [];
  i_reqs_wk : forall w, prepop (wk s w) = true -> reqs s <> [];
  i_reqs_sd : sd s <> SdIdle -> reqs s <> [];
  i_m2 : io s = IoM2 -> reqs s = [];
  i_appx : io s = IoRCappX -> reqs s = [];
  i_mret : mret s = IoTop \/ mret s = IoSel;
  i_cwf : (cwf s = true \/ io s = IoHW1b \/ io s = IoHW2 \/ io s = IoHW3) -> gdec s = true;
  i_safe : gdec s = true -> conn s = false \/ Closed s \/ wc s = true;
  i_late : forall w, late_early (wk s w) = true -> conn s = false \/ wc s = true;
  i_late_b : forall w, late_b (wk s w) = true -> wc s = true
}.

(* ---- tactics ------------------------------------------------------------------------ *)
Ltac unf := unfold after_read, turn_end, decide, handle_close, is_free, tokio in *.
Ltac ifs := repeat match goal with |- context [if ?b then _ else _] => destruct b eqn:? end.
Ltac rw := repeat match goal with
  | H : io ?s = _ |- _ => rewrite H in *
  | H : mret ?s = _ |- _ => rewrite H in *
  | H : sd ?s = _ |- _ => rewrite H in *
  end.
Ltac hyps := repeat match goal with
  | H : _ && _ = true |- _ => apply andb_true_iff in H; destruct H
  | H : (_ =? _) = true |- _ => apply Nat.eqb_eq in H
  | H : (_ =? _) = false |- _ => apply Nat.eqb_neq in H
  | H : context [match ?x with _ => _ end] |- _ => destruct x eqn:?
  end.
Ltac act_contra := match goal with
  | H : forall w : nat, active (wk ?s w) = false, E : wk ?s ?w0 = _ |- _ =>
      let A := fresh in pose proof (H w0) as A; rewrite E in A; simpl in A; discriminate A end.
Lemma len_plus1 : forall (A : Type) (l : list A), length l + 1 = 1 -> l = [].
Proof. intros A [|x l] H; simpl in H; [reflexivity|lia]. Qed.
Ltac lens := repeat match goal with
  | H : context [length (_ ++ _)] |- _ => rewrite app_length in H; simpl in H
  | |- context [length (_ ++ _)] => rewrite app_length; simpl
  | H : length ?l + 1 = 1 |- _ => apply len_plus1 in H
  end.
(* drop implications whose premise is a false equation between constructors *)
Ltac junk := repeat match goal with
  | H : ?a = ?b -> _ |- _ => first [ (assert (a = b) as _ by reflexivity); specialize (H eq_refl)
                                   | (assert (a <> b) as _ by discriminate); clear H ]
  | H : ?a = ?a |- _ => clear H
  end.
Lemma app1_nonnil : forall (A : Type) (l : list A) x, l ++ [x] <> [].
Proof. intros A [|y l] x; discriminate. Qed.
Ltac len1 := match goal with H : length ?l + 1 = 1 |- _ => apply len_plus1 in H end.
Ltac wgoal := match goal with |- context [if ?a =? ?b then _ else _] =>
  destruct (Nat.eqb_spec a b); [subst|]; simpl; auto; try congruence end.
Ltac base := try wgoal; try congruence; try (apply app1_nonnil);
  try (match goal with H : _ ++ [_] = [] |- _ => exact (app1_nonnil _ _ _ H) end); try discriminate; try lia; try act_contra; try (len1; congruence); try (len1; tauto);
  try solve [rw; simpl in *; intuition congruence].
Ltac orbs := rewrite ?orb_true_r, ?orb_false_r in *.
Ltac q0 := match goal with I : Inv ?s, H : queue ?s = S ?n |- _ =>
  let Z := fresh in assert (Z : n = 0) by (pose proof (i_q1 s I); lia); subst n end.
Ltac prep := unf; simpl in *; orbs; hyps; try q0; ifs; simpl in *; rw; simpl in *; lens.
Ltac heavy := junk; intuition base.
Ltac fin := prep; heavy.
Ltac wsplit w' w := destruct (Nat.eqb_spec w' w); [subst w'|].
Ltac qsplit := match goal with I : Inv ?s |- _ =>
  let Q := fresh "Q" in
  assert (Q : queue s = 0 \/ queue s = 1) by (pose proof (i_q1 s I); lia);
  destruct Q as [Q|Q]; rewrite Q in * end.
Ltac showall := idtac "=========== LEFT"; try match goal with H : ?T |- _ => idtac H ":" T; fail end;
  match goal with |- ?G => idtac "|-" G end.
Ltac leftover := showall; fail 1 "leftover".

Ltac close3 cheap := prep; first [ solve [cheap] | solve [heavy] | solve [qsplit; heavy] | leftover ].
Ltac close2 := prep; first [ solve [heavy] | solve [qsplit; heavy] | leftover ].

(* ---- case analysis on a step ----------------------------------------------------------- *)
Ltac destr_in H :=
  repeat match type of H with
  | context [match ?x with _ => _ end] => destruct x eqn:?
  end.

Ltac step_inv H :=
  destr_in H; try discriminate H;
  match type of H with Some _ = Some (?s', ?l) =>
    let E1 := fresh in let E2 := fresh "E" in injection H as E1 E2; subst s'; subst l end.

Ltac io_cases H := unfold step_io in H; step_inv H.
Ltac wk_cases H := unfold step_wk in H; step_inv H.
Ltac sd_cases H := unfold step_sd in H; step_inv H.

Lemma wk_set_same : forall s w p, wk (set_wk s w p) w = p.
Proof. intros. simpl. rewrite Nat.eqb_refl. reflexivity. Qed.
Lemma wk_set_other : forall s w p w', w' <> w -> wk (set_wk s w p) w' = wk s w'.
Proof. intros. simpl. destruct (Nat.eqb_spec w' w); congruence. Qed.
