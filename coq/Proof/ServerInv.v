(* C18: invariants of all reachable states (never-busy, maintenance period,
   descriptors are never duplicated) *)
From Coq Require Import List ZArith Bool Lia ZifyBool Arith.
From WV Require Import Gen.GenPreds Model.Server Proof.ServerBase.
Import ListNotations.
Local Open Scope Z_scope.

Definition reachable (p : params) (nl : nat) (t0 fd0 : Z) (s : state) : Prop :=
  exists es, s = run p (init nl t0 fd0) es.

Lemma run_app : forall p es1 es2 s, run p s (es1 ++ es2) = run p (run p s es1) es2.
Proof. intros. unfold run. apply fold_left_app. Qed.

Lemma run_snoc : forall p es e s, run p s (es ++ [e]) = step p (run p s es) e.
Proof. intros. rewrite run_app. reflexivity. Qed.

(* induction principle over reachable states *)
Lemma reachable_ind : forall p nl t0 fd0 (P : state -> Prop),
  P (init nl t0 fd0) ->
  (forall s e, reachable p nl t0 fd0 s -> P s -> P (step p s e)) ->
  forall s, reachable p nl t0 fd0 s -> P s.
Proof.
  intros p nl t0 fd0 P H0 HS s [es ->].
  induction es as [|e es IH] using rev_ind; [exact H0|].
  rewrite run_snoc. apply HS; [exists es; reflexivity|exact IH].
Qed.

(* ------------------------------------------------------------------------- *)
(* never busy: a channel with a queued / executing request is neither marked
   for closing nor waiting to close after the flush *)

Definition flags_ok (c : chan) : Prop := c_requests c <> [] -> c_wc c = false /\ c_cwf c = false.

Lemma len_requests_0 : forall c, len_requests c = 0 -> c_requests c = [].
Proof. intros c H. unfold len_requests in H. destruct (c_requests c); [reflexivity|cbn in H; lia]. Qed.

Lemma mark_flags_ok : forall p now idx ls c, flags_ok c -> flags_ok (mark p now idx ls c).
Proof.
  intros p now idx ls c H. unfold mark. destruct (due_owner now idx ls (c_owner c)); cbn [andb]; [|exact H].
  destruct (expired p now c) eqn:E; [|exact H].
  unfold expired in E. apply andb_prop in E. destruct E as [E _]. apply Z.eqb_eq, len_requests_0 in E.
  intros N. cbn in N. congruence.
Qed.

Lemma handle_read_flags_ok : forall p now c c', flags_ok c -> handle_read p now c = Some c' -> flags_ok c'.
Proof.
  intros p now c c' H R. unfold handle_read in R.
  destruct (s_rx (c_sock c)) as [|t d] eqn:E; [discriminate|]. inversion R; subst; clear R.
  set (c0 := set_last (set_sock c (set_rx (c_sock c) [])) now).
  destruct (received_fields (t :: d) c0) as (_ & _ & W & F & _).
  intros N. rewrite W, F. cbn.
  destruct (c_wc c || c_cwf c) eqn:O.
  - unfold received in N. change (c_wc c0) with (c_wc c) in N. change (c_cwf c0) with (c_cwf c) in N.
    rewrite O in N. cbn in N. apply H in N. destruct N as [N1 N2]. rewrite N1, N2 in O. discriminate.
  - apply orb_false_elim in O. exact O.
Qed.

Lemma handle_write_flags_ok : forall p now c c', flags_ok c -> handle_write p now c = Some c' -> flags_ok c'.
Proof.
  intros p now c c' H W. apply handle_write_some in W. destruct W as (_ & _ & R & W1 & W2 & F).
  intros N. rewrite R in N. apply H in N. rewrite W1, F. exact (conj eq_refl (proj2 N)).
Qed.

Lemma chan_turn_flags_ok : forall p now c c', flags_ok c -> In c' (chan_turn p now c) -> flags_ok c'.
Proof.
  intros p now c c' H I. unfold chan_turn in I. destruct (chan_sel p c) as [r w].
  assert (R : forall c1, (if r then handle_read p now c else Some c) = Some c1 -> flags_ok c1).
  { intros c1 H1. destruct r; [eapply handle_read_flags_ok; eauto|inversion H1; subst; exact H]. }
  destruct (if r then handle_read p now c else Some c) as [c1|]; [|contradiction].
  specialize (R c1 eq_refl). destruct w.
  - destruct (handle_write p now c1) as [c2|] eqn:W; [|contradiction]. destruct I as [<-|[]].
    eapply handle_write_flags_ok; eauto.
  - destruct I as [<-|[]]. exact R.
Qed.

Lemma in_accepted : forall p now mlen ls idx c,
  In c (accepted p now mlen idx ls) ->
  exists l k o, In l ls /\ In k (l_backlog l) /\ c = new_chan now o k.
Proof.
  induction ls as [|l r IH]; intros idx c H; cbn [accepted] in H; [contradiction|].
  apply in_app_or in H. destruct H as [H|H].
  - destruct (acc_ok p mlen l); [|contradiction]. destruct (l_backlog l) as [|k bl] eqn:B; [contradiction|].
    destruct H as [<-|[]]. exists l, k, idx. rewrite B. cbn. auto.
  - apply IH in H. destruct H as (l' & k & o & A & B & C). exists l', k, o. cbn. auto.
Qed.

Lemma write_soon_fields : forall p now c n,
  c_fd (write_soon p now c n) = c_fd c /\ c_owner (write_soon p now c n) = c_owner c /\
  c_requests (write_soon p now c n) = c_requests c /\ c_wc (write_soon p now c n) = c_wc c /\
  c_cwf (write_soon p now c n) = c_cwf c.
Proof.
  intros. unfold write_soon. destruct (Z.of_N n <=? 0); [repeat split; reflexivity|].
  destruct (_ >=? _); [|repeat split; reflexivity].
  destruct (flush_some false now _) as [c2|] eqn:F; [|repeat split; reflexivity].
  apply flush_some_some in F. cbn in F. intuition.
Qed.

Lemma writes_fields : forall p now ws c,
  c_fd (fold_left (write_soon p now) ws c) = c_fd c /\ c_owner (fold_left (write_soon p now) ws c) = c_owner c /\
  c_requests (fold_left (write_soon p now) ws c) = c_requests c /\ c_wc (fold_left (write_soon p now) ws c) = c_wc c /\
  c_cwf (fold_left (write_soon p now) ws c) = c_cwf c.
Proof.
  induction ws as [|n ws IH]; intros c; cbn [fold_left]; [repeat split; reflexivity|].
  destruct (IH (write_soon p now c n)) as (A & B & C & D & E).
  destruct (write_soon_fields p now c n) as (A' & B' & C' & D' & E').
  repeat split; congruence.
Qed.

Lemma service_fd : forall p now c ws, c_fd (service p now c ws) = c_fd c /\ c_owner (service p now c ws) = c_owner c.
Proof.
  intros. unfold service. destruct (c_requests c) as [|cl rest]; [auto|].
  destruct (writes_fields p now ws c) as (A & B & _). destruct cl; unfold c_fd in *; cbn; auto.
Qed.

Lemma service_flags_ok : forall p now c ws, flags_ok c -> flags_ok (service p now c ws).
Proof.
  intros p now c ws H. unfold service. destruct (c_requests c) as [|cl rest] eqn:R; [exact H|].
  destruct (writes_fields p now ws c) as (_ & _ & _ & D & E).
  assert (N : c_requests c <> []) by (rewrite R; discriminate). apply H in N. destruct N as [N1 N2].
  destruct cl; intros Q; cbn in *; [congruence|]. rewrite D, E. auto.
Qed.

Lemma Forall_map_inv : forall (A : Type) (P : A -> Prop) (g : A -> A) l,
  (forall x, P x -> P (g x)) -> Forall P l -> Forall P (map g l).
Proof. intros A P g l H F. apply Forall_forall. intros y I. apply in_map_iff in I. destruct I as (x & <- & I).
  apply H. eapply Forall_forall; eauto. Qed.

Lemma step_flags_ok : forall p s e, Forall flags_ok (st_chans s) -> Forall flags_ok (st_chans (step p s e)).
Proof.
  intros p s e H. destruct e; cbn [step]; try exact H.
  - destruct (add_backlog l _ _); exact H.
  - cbn. apply Forall_map_inv; [|exact H]. intros c Hc. destruct (c_fd c =? fd); exact Hc.
  - cbn. apply Forall_map_inv; [|exact H]. intros c Hc. destruct (c_fd c =? fd); [apply service_flags_ok|]; exact Hc.
  - cbn. apply Forall_map_inv; [|exact H]. intros c Hc. destruct (c_fd c =? fd); exact Hc.
  - cbn. apply Forall_map_inv; [|exact H]. intros c Hc. destruct (c_fd c =? fd); exact Hc.
  - cbn. apply Forall_map_inv; [|exact H]. intros c Hc. destruct (c_fd c =? fd); exact Hc.
  - rewrite poll_eq. cbn [st_chans]. unfold poll_chans. apply Forall_forall. intros c I.
    apply in_app_or in I. destruct I as [I|I].
    + apply in_flat_map in I. destruct I as (c1 & I1 & I2). apply in_map_iff in I1. destruct I1 as (c0 & <- & I0).
      eapply chan_turn_flags_ok; [|exact I2]. apply mark_flags_ok. eapply Forall_forall; eauto.
    + apply in_accepted in I. destruct I as (l & k & o & _ & _ & ->). intros N. cbn in N. congruence.
Qed.

Theorem never_busy_reachable : forall p nl t0 fd0 s,
  reachable p nl t0 fd0 s -> Forall flags_ok (st_chans s).
Proof.
  intros p nl t0 fd0. apply reachable_ind.
  - cbn. constructor.
  - intros s e _ H. apply step_flags_ok. exact H.
Qed.

(* a busy connection whose peer is still there survives every event except its own disconnect *)
Lemma chan_turn_busy : forall p now c,
  c_requests c <> [] -> c_wc c = false -> c_cwf c = false -> s_gone (c_sock c) = false ->
  exists c', chan_turn p now c = [c'] /\ c_fd c' = c_fd c.
Proof.
  intros p now c R W F G. unfold chan_turn. rewrite chan_sel_spec.
  assert (SR : sel_readable (c_sock c) = true -> exists c1, handle_read p now c = Some c1 /\ c_fd c1 = c_fd c /\
              c_wc c1 = false /\ c_cwf c1 = false /\ s_gone (c_sock c1) = false /\ c_requests c1 <> [] /\ c_pend c1 = c_pend c).
  { intros S. unfold sel_readable in S. rewrite G, orb_false_r in S. unfold handle_read.
    destruct (s_rx (c_sock c)) as [|t d] eqn:E; [discriminate|]. eexists. split; [reflexivity|].
    set (c0 := set_last (set_sock c (set_rx (c_sock c) [])) now).
    destruct (received_fields (t :: d) c0) as (A & _ & W' & F' & _ & P').
    unfold c_fd. rewrite A, W', F', P'. cbn. rewrite W, F, G. repeat split; try reflexivity.
    unfold received. change (c_wc c0) with (c_wc c). change (c_cwf c0) with (c_cwf c). rewrite W, F. cbn [orb].
    assert (Q : forall d c1, c_requests c1 <> [] -> c_requests (fold_left received_tok d c1) <> []).
    { induction d0 as [|t0 d0 IH]; intros c1 N; cbn [fold_left]; [exact N|]. apply IH.
      destruct t0; cbn; [exact N|]. destruct (c_requests c1); cbn; congruence. }
    apply Q. exact R. }
  assert (HW : forall c1, c_fd c1 = c_fd c -> c_wc c1 = false -> c_cwf c1 = false -> s_gone (c_sock c1) = false ->
               exists c2, handle_write p now c1 = Some c2 /\ c_fd c2 = c_fd c).
  { intros c1 A W1 F1 G1. rewrite handle_write_spec.
    assert (T : forall c3, c_fd c3 = c_fd c -> c_wc c3 = false -> c_cwf c3 = false ->
                exists c2, (if c_cwf c3 && (c_pend c3 =? 0) then None else if c_wc c3 then None else Some c3) = Some c2 /\ c_fd c2 = c_fd c).
    { intros c3 A3 W3 F3. rewrite W3, F3. cbn. eauto. }
    destruct (hw_flushes p c1); [|apply T; assumption].
    destruct (flush_some true now c1) as [c3|] eqn:FS.
    - apply flush_some_some in FS. apply T; intuition congruence.
    - unfold flush_some in FS. destruct (c_pend c1 <=? 0); [discriminate|]. rewrite G1 in FS. discriminate. }
  rewrite W, F. cbn [orb].
  destruct (negb ((p_lookahead p <? len_requests c) || negb (c_pend c =? 0)) && sel_readable (c_sock c)) eqn:RR.
  - apply andb_prop in RR. destruct RR as [_ S]. destruct (SR S) as (c1 & E1 & A1 & W1 & F1 & G1 & _ & P1). rewrite E1.
    destruct (((0 <? c_pend c) || false || false) && sel_writable (c_sock c)).
    + destruct (HW c1 A1 W1 F1 G1) as (c2 & E2 & A2). rewrite E2. eauto.
    + eauto.
  - destruct (((0 <? c_pend c) || false || false) && sel_writable (c_sock c)).
    + destruct (HW c eq_refl W F G) as (c2 & E2 & A2). rewrite E2. eauto.
    + eauto.
Qed.

Theorem busy_not_closed : forall p nl t0 fd0 s c e,
  reachable p nl t0 fd0 s -> In c (st_chans s) ->
  c_requests c <> [] -> s_gone (c_sock c) = false -> e <> EDisconnect (c_fd c) ->
  exists c', In c' (st_chans (step p s e)) /\ c_fd c' = c_fd c.
Proof.
  intros p nl t0 fd0 s c e HR I R G NE.
  assert (FO : flags_ok c) by (eapply Forall_forall; [eapply never_busy_reachable; eauto|exact I]).
  destruct (FO R) as [W F].
  assert (M : forall g, (forall x, c_fd (g x) = c_fd x) -> exists c', In c' (map g (st_chans s)) /\ c_fd c' = c_fd c).
  { intros g Hg. exists (g c). split; [apply in_map; exact I|apply Hg]. }
  destruct e; cbn [step].
  - destruct (add_backlog l _ _); cbn; eauto.
  - cbn. apply M. intros x. destruct (c_fd x =? fd); [|reflexivity]. unfold c_fd; cbn.
    destruct (s_gone (c_sock x)); reflexivity.
  - cbn. apply M. intros x. destruct (c_fd x =? fd); [apply service_fd|reflexivity].
  - cbn. apply M. intros x. destruct (c_fd x =? fd); [|reflexivity]. unfold c_fd; cbn.
    destruct (s_reading (c_sock x)); reflexivity.
  - cbn. apply M. intros x. destruct (c_fd x =? fd); reflexivity.
  - cbn. apply M. intros x. destruct (c_fd x =? fd); reflexivity.
  - cbn. eauto.
  - rewrite poll_eq. cbn [st_chans]. unfold poll_chans.
    set (c1 := mark p (st_clock s) 0 (st_listeners s) c).
    destruct (mark_fields p (st_clock s) 0 (st_listeners s) c) as (A1 & _ & R1 & F1 & _).
    assert (W1 : c_wc c1 = false).
    { unfold c1, mark. destruct (due_owner _ _ _ _); cbn [andb]; [|exact W].
      destruct (expired p (st_clock s) c) eqn:E; [|exact W].
      unfold expired in E. apply andb_prop in E. destruct E as [E _]. apply Z.eqb_eq, len_requests_0 in E. congruence. }
    destruct (chan_turn_busy p (st_clock s) c1) as (c' & E' & A'); fold c1 in A1, R1, F1; try congruence.
    exists c'. split.
    + apply in_or_app. left. apply in_flat_map. exists c1. split; [apply in_map; exact I|rewrite E'; left; reflexivity].
    + rewrite A'. unfold c_fd. rewrite A1. reflexivity.
Qed.

(* ------------------------------------------------------------------------- *)
(* maintenance period: next_channel_cleanup is never more than cleanup_interval ahead *)

Definition ncc_ok (p : params) (s : state) : Prop :=
  Forall (fun l => l_ncc l <= Z.max 0 (st_clock s + p_interval p)) (st_listeners s).

Lemma add_backlog_forall : forall (P : listener -> Prop) i k ls ls',
  (forall l bl, P l -> P (mkListener (l_accepting l) (l_overflow l) (l_ncc l) bl)) ->
  add_backlog i k ls = Some ls' -> Forall P ls -> Forall P ls'.
Proof.
  induction i as [|i IH]; intros k ls ls' HP H F; destruct ls as [|l r]; cbn in H; try discriminate.
  - inversion H; subst. inversion F; subst. constructor; auto.
  - destruct (add_backlog i k r) eqn:E; [|discriminate]. inversion H; subst. inversion F; subst.
    constructor; [assumption|]. eapply IH; eauto.
Qed.

Lemma step_ncc_ok : forall p s e, ncc_ok p s -> ncc_ok p (step p s e).
Proof.
  intros p s e H. unfold ncc_ok in *.
  assert (U : forall fd g, Forall (fun l => l_ncc l <= Z.max 0 (st_clock s + p_interval p)) (st_listeners (upd_sock fd g s))).
  { intros fd g. cbn. apply Forall_forall. intros l I. apply in_map_iff in I. destruct I as (l0 & <- & I). cbn.
    eapply Forall_forall in H; eauto. }
  destruct e; cbn [step]; try exact H; try apply U.
  - destruct (add_backlog l _ (st_listeners s)) eqn:E; [|exact H]. cbn.
    eapply add_backlog_forall; [|exact E|exact H]. intros l1 bl Hl. exact Hl.
  - cbn. eapply Forall_impl; [|exact H]. cbn. intros l Hl. lia.
  - rewrite poll_eq. cbn. apply Forall_forall. intros l I. apply in_map_iff in I. destruct I as (l0 & <- & I). cbn.
    eapply Forall_forall in H; eauto. cbn in H. destruct (l_ncc l0 <=? st_clock s); lia.
Qed.

Theorem maintenance_period : forall p nl t0 fd0 s,
  reachable p nl t0 fd0 s -> ncc_ok p s.
Proof.
  intros p nl t0 fd0. apply reachable_ind.
  - unfold ncc_ok, init. cbn. apply Forall_forall. intros l I. apply repeat_spec in I. subst. cbn. lia.
  - intros s e _ H. apply step_ncc_ok. exact H.
Qed.

Lemma step_clock_mono : forall p s e, st_clock s <= st_clock (step p s e).
Proof.
  intros p s e. destruct e; cbn [step]; try (cbn; lia).
  - destruct (add_backlog l _ _); cbn; lia.
  - rewrite poll_eq. cbn. lia.
Qed.

Lemma run_clock_mono : forall p es s, st_clock s <= st_clock (run p s es).
Proof.
  induction es as [|e es IH]; intros s; cbn; [lia|]. unfold run in IH.
  pose proof (step_clock_mono p s e). specialize (IH (step p s e)). lia.
Qed.

Lemma clock_reachable : forall p nl t0 fd0 s, reachable p nl t0 fd0 s -> t0 <= st_clock s.
Proof. intros p nl t0 fd0 s [es ->]. apply (run_clock_mono p es (init nl t0 fd0)). Qed.

Theorem never_busy_all_histories : forall p nl t0 fd0 es c,
  In c (st_chans (run p (init nl t0 fd0) es)) -> c_requests c <> [] -> c_wc c = false /\ c_cwf c = false.
Proof.
  intros p nl t0 fd0 es c I.
  assert (H : Forall flags_ok (st_chans (run p (init nl t0 fd0) es))).
  { eapply never_busy_reachable. exists es. reflexivity. }
  eapply Forall_forall in H; [|exact I]. exact H.
Qed.

Theorem maintenance_period_in : forall p nl t0 fd0 s l,
  reachable p nl t0 fd0 s -> In l (st_listeners s) -> l_ncc l <= Z.max 0 (st_clock s + p_interval p).
Proof.
  intros p nl t0 fd0 s l HR I. pose proof (maintenance_period _ _ _ _ _ HR) as H.
  unfold ncc_ok in H. eapply Forall_forall in H; [|exact I]. exact H.
Qed.

(* the hypotheses of busy_not_closed are satisfiable: a request is executing
   while the clock runs far past channel_timeout and maintenance runs *)
Example busy_example :
  let p := mkParams 100 5 2 1 0 65536 16777216 in
  let s := run p (init 1 1000 1000) [EConnect 0; EPoll; ESend 1000 (TComplete false); EPoll; EAdvance 100000; EPoll; EPoll] in
  map (fun c => (c_fd c, c_requests c, c_wc c)) (st_chans s) = [(1000, [false], false)].
Proof. vm_compute. reflexivity. Qed.
