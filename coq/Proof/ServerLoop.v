(* The two I/O loop bodies of wasyncore (poll: select(); poll2: select.poll()),
   at the level of one object in one turn: which handle_*_event can be
   dispatched, as a function of what readable() / writable() / accepting said
   when the map was scanned.  Everything is stated about the terms regenerated
   from wasyncore.poll / poll2 / readwrite on this run (Gen/GenPreds.v).

   Kernel side (hypotheses, not code):
     select(r, w, e)  returns sub-lists of the lists it was given;
     poll()           reports only registered descriptors, and for each of them
                      revents is a subset of the registered events plus
                      POLLERR / POLLHUP / POLLNVAL, which need not be requested.
   Exceptions: a handler that raises ends the dispatch for that object
   (handle_close / handle_error); it never causes a further handle_*_event. *)
From Coq Require Import Bool.
From WV Require Import Gen.GenPreds.

(* ---- interface lemmas of the generated items (truth tables) *)

Lemma gen_poll_dispatch_spec : forall in_r in_w in_e, gen_poll_dispatch in_r in_w in_e = (in_r, in_w, in_e).
Proof. intros [] [] []; reflexivity. Qed.

Lemma gen_poll_e_spec : forall r w a, gen_poll_e r w a = (r || w).
Proof. intros [] [] []; reflexivity. Qed.

Lemma gen_poll_rw_spec : forall r w a, gen_poll_r r w a = r /\ gen_poll_w r w a = (w && negb a).
Proof. intros [] [] []; split; reflexivity. Qed.

(* POLLIN and POLLPRI are registered iff readable(); POLLOUT iff writable() on a
   non-accepting object; the error flags are never requested; an object with an
   empty mask is not registered at all *)
Lemma gen_poll2_reg_spec : forall r w a,
  gen_poll2_reg r w a = (mkPF r r (w && negb a) false false false, r || (w && negb a)).
Proof. intros [] [] []; reflexivity. Qed.

(* readwrite: POLLIN -> handle_read_event, POLLOUT -> handle_write_event,
   POLLPRI -> handle_expt_event, POLLHUP | POLLERR | POLLNVAL -> handle_close *)
Lemma gen_readwrite_spec : forall i p o e h n, gen_readwrite i p o e h n = (i, o, p, e || h || n).
Proof. intros [] [] [] [] [] []; reflexivity. Qed.

Lemma gen_poll2_dispatch_spec : gen_poll2_dispatches_readwrite = true.
Proof. reflexivity. Qed.

(* ---- the kernel's side *)

Definition select_returns (in_r in_w in_e ret_r ret_w ret_e : bool) : Prop :=
  (ret_r = true -> in_r = true) /\ (ret_w = true -> in_w = true) /\ (ret_e = true -> in_e = true).

Definition poll_returns (reg : pollflags * bool) (rv : pollflags) : Prop :=
  snd reg = true /\
  (pf_in rv = true -> pf_in (fst reg) = true) /\
  (pf_pri rv = true -> pf_pri (fst reg) = true) /\
  (pf_out rv = true -> pf_out (fst reg) = true).

(* what one object gets in one turn *)
Definition select_turn (ret_r ret_w ret_e : bool) := gen_poll_dispatch ret_r ret_w ret_e.
Definition poll2_turn (rv : pollflags) :=
  gen_readwrite (pf_in rv) (pf_pri rv) (pf_out rv) (pf_err rv) (pf_hup rv) (pf_nval rv).

Definition sel_read (x : bool * bool * bool) : bool := fst (fst x).
Definition sel_write (x : bool * bool * bool) : bool := snd (fst x).
Definition sel_expt (x : bool * bool * bool) : bool := snd x.
Definition p2_read (x : bool * bool * bool * bool) : bool := fst (fst (fst x)).
Definition p2_write (x : bool * bool * bool * bool) : bool := snd (fst (fst x)).
Definition p2_expt (x : bool * bool * bool * bool) : bool := snd (fst x).
Definition p2_close (x : bool * bool * bool * bool) : bool := snd x.

(* ---- poll(): select variant *)
Theorem select_loop_dispatch : forall r w a ret_r ret_w ret_e,
  select_returns (gen_poll_r r w a) (gen_poll_w r w a) (gen_poll_e r w a) ret_r ret_w ret_e ->
  (sel_read (select_turn ret_r ret_w ret_e) = true -> r = true) /\
  (sel_write (select_turn ret_r ret_w ret_e) = true -> w = true /\ a = false) /\
  (sel_expt (select_turn ret_r ret_w ret_e) = true -> r = true \/ w = true).
Proof.
  intros r w a ret_r ret_w ret_e (Hr & Hw & He). unfold select_turn. rewrite gen_poll_dispatch_spec.
  destruct (gen_poll_rw_spec r w a) as [Er Ew]. rewrite Er in Hr. rewrite Ew in Hw. rewrite gen_poll_e_spec in He.
  cbn. split; [exact Hr|]. split.
  - intros H. apply Hw in H. apply andb_prop in H. destruct H as [H1 H2]. apply negb_true_iff in H2. auto.
  - intros H. apply He in H. apply orb_prop in H. exact H.
Qed.

(* ---- poll2(): select.poll variant *)
Theorem poll2_registration : forall r w a,
  let '(f, registered) := gen_poll2_reg r w a in
  pf_in f = r /\ pf_pri f = r /\ pf_out f = (w && negb a) /\
  pf_err f = false /\ pf_hup f = false /\ pf_nval f = false /\
  registered = (r || (w && negb a)).
Proof. intros r w a. rewrite gen_poll2_reg_spec. cbn. repeat split; reflexivity. Qed.

Theorem poll2_loop_dispatch : forall r w a rv,
  poll_returns (gen_poll2_reg r w a) rv ->
  (p2_read (poll2_turn rv) = true -> r = true) /\
  (p2_write (poll2_turn rv) = true -> w = true /\ a = false) /\
  (p2_expt (poll2_turn rv) = true -> r = true) /\
  p2_close (poll2_turn rv) = (pf_err rv || pf_hup rv || pf_nval rv) /\
  (r = true \/ (w = true /\ a = false)).
Proof.
  intros r w a rv. rewrite gen_poll2_reg_spec. intros (Hreg & Hi & Hp & Ho). cbn in Hreg, Hi, Hp, Ho.
  unfold poll2_turn. rewrite gen_readwrite_spec. cbn.
  assert (O : w && negb a = true -> w = true /\ a = false).
  { intros H. apply andb_prop in H. destruct H as [H1 H2]. apply negb_true_iff in H2. auto. }
  split; [exact Hi|]. split; [intros H; apply O, Ho, H|]. split; [exact Hp|]. split; [reflexivity|].
  apply orb_prop in Hreg. destruct Hreg as [H|H]; [left; exact H|right; apply O, H].
Qed.

(* ---- the fact other properties cite (C06: consumption stops; C11: nothing is
   read after the close decision): whichever loop body runs, handle_read_event
   reaches an object in a turn only if its readable() returned true when the map
   was scanned in that turn, and handle_write_event only if writable() did *)
Theorem loop_read_only_if_readable :
  (forall r w a ret_r ret_w ret_e,
     select_returns (gen_poll_r r w a) (gen_poll_w r w a) (gen_poll_e r w a) ret_r ret_w ret_e ->
     sel_read (select_turn ret_r ret_w ret_e) = true -> r = true) /\
  (forall r w a rv,
     poll_returns (gen_poll2_reg r w a) rv -> p2_read (poll2_turn rv) = true -> r = true).
Proof.
  split.
  - intros r w a ret_r ret_w ret_e H. exact (proj1 (select_loop_dispatch r w a ret_r ret_w ret_e H)).
  - intros r w a rv H. exact (proj1 (poll2_loop_dispatch r w a rv H)).
Qed.

Theorem loop_write_only_if_writable :
  (forall r w a ret_r ret_w ret_e,
     select_returns (gen_poll_r r w a) (gen_poll_w r w a) (gen_poll_e r w a) ret_r ret_w ret_e ->
     sel_write (select_turn ret_r ret_w ret_e) = true -> w = true /\ a = false) /\
  (forall r w a rv,
     poll_returns (gen_poll2_reg r w a) rv -> p2_write (poll2_turn rv) = true -> w = true /\ a = false).
Proof.
  split.
  - intros r w a ret_r ret_w ret_e H. exact (proj1 (proj2 (select_loop_dispatch r w a ret_r ret_w ret_e H))).
  - intros r w a rv H. exact (proj1 (proj2 (poll2_loop_dispatch r w a rv H))).
Qed.

(* the hypotheses are satisfiable, and the error flags do reach a registered
   object that did not ask for them: a writable, non-readable channel whose
   peer hung up gets handle_write_event and handle_close, not handle_read_event *)
Example poll2_example :
  let rv := mkPF false false true false true false in
  poll_returns (gen_poll2_reg false true false) rv /\
  poll2_turn rv = (false, true, false, true).
Proof. cbn. repeat split; auto; discriminate. Qed.
