(* C06: the boundaries of the three limits on concrete streams (computed in the
   model), and non-trivial states satisfying the hypotheses of the C06 theorems. *)
From Coq Require Import List NArith ZArith Bool Lia Arith.
From RecordUpdate Require Import RecordUpdate.
From WV Require Import Lib.PyBytes Lib.Regex Gen.GenRegex Model.Receiver Model.UrlSplit Model.Parser Model.ChanSeq
  Proof.PyBytesFacts Proof.ReceiverTotal Proof.ParserTotal Proof.ParserTotalChan Proof.ParserTotalLimits.
Import ListNotations.
Local Open Scope N_scope.

Definition adjx (mh mb : N) : adj :=
  {| max_request_header_size := mh; max_request_body_size := mb; adj_url_scheme := [104;116;116;112] |}.

(* error of every queued request after feeding the reads to a fresh channel *)
Definition errs (a : adj) (reads : list bytes) : list (option perr) :=
  match feed a chan_init reads with
  | COk c => map error (requests c)
  | _ => []
  end.

Definition bytewise (s : bytes) : list bytes := map (fun b => [b]) s.

(* POST with Content-Length: 9 and its body, max_request_body_size = 10 *)
Definition cl_9 : bytes := [80;79;83;84;32;47;32;72;84;84;80;47;49;46;49;13;10;67;111;110;116;101;110;116;45;76;101;110;103;116;104;58;32;57;13;10;13;10;120;120;120;120;120;120;120;120;120].
(* POST with Content-Length: 10 and its body, max_request_body_size = 10 *)
Definition cl_10 : bytes := [80;79;83;84;32;47;32;72;84;84;80;47;49;46;49;13;10;67;111;110;116;101;110;116;45;76;101;110;103;116;104;58;32;49;48;13;10;13;10;120;120;120;120;120;120;120;120;120;120].
(* POST with Content-Length: 11 and its body, max_request_body_size = 10 *)
Definition cl_11 : bytes := [80;79;83;84;32;47;32;72;84;84;80;47;49;46;49;13;10;67;111;110;116;101;110;116;45;76;101;110;103;116;104;58;32;49;49;13;10;13;10;120;120;120;120;120;120;120;120;120;120;120].

Example declared_below : errs (adjx 262144 10) [cl_9] = [None] /\ errs (adjx 262144 10) (bytewise cl_9) = [None].
Proof. split; vm_compute; reflexivity. Qed.
Example declared_at : errs (adjx 262144 10) [cl_10] = [Some EBodyTooLarge]
  /\ errs (adjx 262144 10) (bytewise cl_10) = [Some EBodyTooLarge].
Proof. split; vm_compute; reflexivity. Qed.
Example declared_above : hd None (errs (adjx 262144 10) [cl_11]) = Some EBodyTooLarge.
Proof. vm_compute; reflexivity. Qed.

(* a head of exactly 39 bytes, max_request_header_size = 40 *)
Definition head_39 : bytes := [71;69;84;32;47;32;72;84;84;80;47;49;46;49;13;10;88;58;32;97;97;97;97;97;97;97;97;97;97;97;97;97;97;97;97;13;10;13;10].
(* a head of exactly 40 bytes, max_request_header_size = 40 *)
Definition head_40 : bytes := [71;69;84;32;47;32;72;84;84;80;47;49;46;49;13;10;88;58;32;97;97;97;97;97;97;97;97;97;97;97;97;97;97;97;97;97;13;10;13;10].
(* a head of exactly 41 bytes, max_request_header_size = 40 *)
Definition head_41 : bytes := [71;69;84;32;47;32;72;84;84;80;47;49;46;49;13;10;88;58;32;97;97;97;97;97;97;97;97;97;97;97;97;97;97;97;97;97;97;13;10;13;10].

Example head_below : errs (adjx 40 1000) [head_39] = [None] /\ errs (adjx 40 1000) (bytewise head_39) = [None].
Proof. split; vm_compute; reflexivity. Qed.
Example head_at : errs (adjx 40 1000) [head_40] = [Some EHeaderTooLarge] /\ errs (adjx 40 1000) (bytewise head_40) = [Some EHeaderTooLarge].
Proof. split; vm_compute; reflexivity. Qed.
Example head_above : errs (adjx 40 1000) [head_41] = [Some EHeaderTooLarge].
Proof. vm_compute; reflexivity. Qed.

(* a well-formed chunked body of exactly 19 wire bytes, max_request_body_size = 20 *)
Definition chunked_19 : bytes := [80;79;83;84;32;47;32;72;84;84;80;47;49;46;49;13;10;84;114;97;110;115;102;101;114;45;69;110;99;111;100;105;110;103;58;32;99;104;117;110;107;101;100;13;10;13;10;57;13;10;100;100;100;100;100;100;100;100;100;13;10;48;13;10;13;10].
(* a well-formed chunked body of exactly 20 wire bytes, max_request_body_size = 20 *)
Definition chunked_20 : bytes := [80;79;83;84;32;47;32;72;84;84;80;47;49;46;49;13;10;84;114;97;110;115;102;101;114;45;69;110;99;111;100;105;110;103;58;32;99;104;117;110;107;101;100;13;10;13;10;97;13;10;100;100;100;100;100;100;100;100;100;100;13;10;48;13;10;13;10].
(* a well-formed chunked body of exactly 21 wire bytes, max_request_body_size = 20 *)
Definition chunked_21 : bytes := [80;79;83;84;32;47;32;72;84;84;80;47;49;46;49;13;10;84;114;97;110;115;102;101;114;45;69;110;99;111;100;105;110;103;58;32;99;104;117;110;107;101;100;13;10;13;10;98;13;10;100;100;100;100;100;100;100;100;100;100;100;13;10;48;13;10;13;10].

Example chunked_below : errs (adjx 262144 20) [chunked_19] = [None] /\ errs (adjx 262144 20) (bytewise chunked_19) = [None].
Proof. split; vm_compute; reflexivity. Qed.
Example chunked_at : errs (adjx 262144 20) [chunked_20] = [Some EBodyTooLarge] /\ hd None (errs (adjx 262144 20) (bytewise chunked_20)) = Some EBodyTooLarge.
Proof. split; vm_compute; reflexivity. Qed.
Example chunked_above : hd None (errs (adjx 262144 20) [chunked_21]) = Some EBodyTooLarge.
Proof. vm_compute; reflexivity. Qed.

(* a parser in the middle of a chunked body (one data byte missing) is well-formed *)
Example ex_wf_chunked :
  match feed (adjx 262144 20) chan_init [firstn 55 chunked_19] with
  | COk c => match request c with
             | Some r => body r <> None /\ completed r = false
             | None => False
             end
  | _ => False
  end.
Proof. vm_compute. split; [discriminate | reflexivity]. Qed.

Example ex_wf_chan : wf_chan (adjx 40 1000) (chan_init <| request := Some (P0 [71;69;84]) |>).
Proof.
  unfold wf_chan. cbn [request set]. unfold wf_p, wf_body. cbn.
  split; [reflexivity|]. split; [reflexivity|]. split; [eexists; split; reflexivity|].
  split; [right; reflexivity | left; reflexivity].
Qed.
