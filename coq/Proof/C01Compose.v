(* C01, the whole-stream composition (T4).  For every configuration and every
   byte stream delivered in one read, what the channel model queues -- the
   delivered and refused messages in order, cut after the first refusal and
   after the first message that closes the connection, each with method,
   target, version, field dict, body bytes and close-after verdict, and the
   unfinished message at the end -- is the list the RFC 9112 reference
   extracts from the same stream (with the one remaining deviation switch,
   dv_trailer = F10).  Proof: induction over the messages of the stream with
   the invariant "the requests queued so far, uncut, are the reference's
   outcomes on the consumed prefix"; per message the head step
   (C01ComposeHead: T1 T3 T4a), the body step (C01ComposeBody: T2) and the
   close decision (T5); the loop's offset accounting is the consumed counts of
   those steps. *)
From Coq Require Import List NArith ZArith Bool Lia Arith.
From RecordUpdate Require Import RecordUpdate.
From WV Require Import Lib.PyBytes Lib.Regex Gen.GenRegex Model.Receiver Model.UrlSplit Model.Parser Model.ChanSeq Spec.Ref9112.
From WV Require Import Proof.PyBytesFacts Proof.ReceiverTotal Proof.ParserTotal Proof.ParserTotalChan
  Proof.SplitParser Proof.SplitChan.
From WV Require Import Proof.C01Lib Proof.C01Body Proof.C01Block Proof.C01Boundary Proof.C01Head Proof.C01Framing
  Proof.C01Close Proof.C01ParseHeader Proof.C01Observe Proof.C01ComposeLib Proof.C01ComposeHead Proof.C01ComposeBody.
Import ListNotations.
Local Open Scope N_scope.

(* ---------------------------------------------------------------- *)
(* one iteration of the channel loop *)

Definition eqx (r2 r1 : parser) : Prop := r2 = r1 \/ r2 = r1 <| expect_continue := false |>.

Lemma eqx_fields r2 r1 : eqx r2 r1 ->
  obs_of_parser r2 = obs_of_parser r1 /\ completed r2 = completed r1 /\ body r2 = body r1 /\
  body_bytes_received r2 = body_bytes_received r1 /\ chunked r2 = chunked r1 /\ error r2 = error r1 /\
  headers r2 = headers r1 /\ header_plus r2 = header_plus r1 /\ headers_finished r2 = headers_finished r1 /\
  same_head r1 r2.
Proof. intros [->| ->]; repeat split. Qed.

Lemma post_facts c r1 : exists r2, eqx r2 r1 /\
  requests (post c r1) = requests c ++ (if completed r1 && negb (empty r1) then [r2] else []) /\
  request (post c r1) = if completed r1 then None else Some r2.
Proof.
  rewrite post_eq. unfold post'. cbv zeta.
  destruct (send_cond c r1); [exists (r1 <| expect_continue := false |>) | exists r1];
    (split; [first [left; reflexivity | right; reflexivity]|]);
    (destruct (completed r1); [destruct (negb (empty r1)); [destruct (_ =? _)%nat|]|]);
    csimpl; cbn [andb]; rewrite ?app_nil_r; split; reflexivity.
Qed.

Definition cont (f : nat) (a : adj) (c1 : chan) (data : bytes) (n : Z) : chan_res :=
  if (Z.of_nat (length data) <=? n)%Z then COk c1 else received_loop f a c1 (skipn (Z.to_nat n) data).

Lemma loop_unfold f a c data : received_loop (S f) a c data =
  match received a (cur c) data with
  | ROk r1 n => cont f a (post c r1) data n
  | REscapes => CEscapes
  | ROutOfFuel => COutOfFuel
  | RUnmodelled => CUnmodelled
  end.
Proof. rewrite received_loop_eq. reflexivity. Qed.

Lemma loop_mono a : forall f c d c', received_loop f a c d = COk c' -> exists ext, requests c' = requests c ++ ext.
Proof.
  induction f as [|f IH]; intros c d c' H; [discriminate|].
  rewrite loop_unfold in H. destruct (received a (cur c) d) as [r1 n| | |]; try discriminate.
  destruct (post_facts c r1) as (r2 & _ & Hq & _). unfold cont in H.
  destruct (Z.of_nat (length d) <=? n)%Z.
  - injection H as <-. eauto.
  - apply IH in H as [ext E]. rewrite E, Hq, <- app_assoc. eauto.
Qed.

Lemma cont_mono f a c1 data n c' : cont f a c1 data n = COk c' -> exists ext, requests c' = requests c1 ++ ext.
Proof.
  unfold cont. destruct (_ <=? _)%Z.
  - intro H. injection H as <-. exists []. rewrite app_nil_r. reflexivity.
  - apply loop_mono.
Qed.

Lemma cont_cases f a c1 s k c' : (k <= length s)%nat -> cont f a c1 s (Z.of_nat k) = COk c' ->
  (skipn k s = [] /\ c' = c1) \/ (skipn k s <> [] /\ received_loop f a c1 (skipn k s) = COk c').
Proof.
  intros Hk. unfold cont. rewrite Nat2Z.id. destruct (Z.leb_spec (Z.of_nat (length s)) (Z.of_nat k)).
  - intro H0. injection H0 as <-. left. split; auto. apply skipn_all2. lia.
  - intro H0. right. split; auto. intro E. apply (f_equal (@length N)) in E. rewrite skipn_length in E. cbn in E. lia.
Qed.

(* ---------------------------------------------------------------- *)
(* observations *)

Lemma obs_refuse q e : error q = Some e -> obs_of_parser q = ORefuse (perr_code e).
Proof. intro H. unfold obs_of_parser. rewrite H. reflexivity. Qed.

Lemma cut_all_open l : Forall (fun o => closes o = false) l -> cut l = (l, false).
Proof.
  induction 1 as [|o l Ho _ IH]; [reflexivity|]. cbn [cut]. rewrite Ho, IH. reflexivity.
Qed.

Lemma finish_closed c' Q L r ext : cut (map obs_of_parser Q) = (L, false) ->
  closes (obs_of_parser r) = true -> requests c' = (Q ++ [r]) ++ ext ->
  observe (COk c') = Some (L ++ [obs_of_parser r]).
Proof.
  intros Hc Hr E. unfold observe. rewrite E, <- app_assoc, map_app, (cut_app_open _ _ L Hc).
  cbn [app map cut]. rewrite Hr. reflexivity.
Qed.

Lemma finish_open c' L : cut (map obs_of_parser (requests c')) = (L, false) ->
  observe (COk c') = Some (L ++ pending c').
Proof. intros Hc. unfold observe. rewrite Hc. reflexivity. Qed.

Section Steps.
Variable a : adj.

(* the step completed a refused / closing message *)
Lemma step_closed f c0 q data n c' L :
  cut (map obs_of_parser (requests c0)) = (L, false) -> completed q = true -> empty q = false ->
  closes (obs_of_parser q) = true -> cont f a (post c0 q) data n = COk c' ->
  observe (COk c') = Some (L ++ [obs_of_parser q]).
Proof.
  intros Hc Hcomp Hemp Hcl Hrun.
  destruct (post_facts c0 q) as (r2 & Hx & Hq & _). destruct (eqx_fields r2 q Hx) as (Xo & _).
  rewrite Hcomp, Hemp in Hq. cbn [negb andb] in Hq.
  apply cont_mono in Hrun as [ext E]. rewrite Hq in E. rewrite <- Xo.
  eapply finish_closed; eauto. rewrite Xo. exact Hcl.
Qed.

(* the step left an unfinished message and the data is used up *)
Lemma step_pending c0 q L :
  cut (map obs_of_parser (requests c0)) = (L, false) -> completed q = false ->
  nonempty (header_plus q) || headers_finished q = true ->
  observe (COk (post c0 q)) = Some (L ++ [OIncomplete]).
Proof.
  intros Hc Hcomp Hp.
  destruct (post_facts c0 q) as (r2 & Hx & Hq & Hrq).
  destruct (eqx_fields r2 q Hx) as (_ & Xc & _ & _ & _ & _ & _ & Xhp & Xhf & _).
  rewrite Hcomp in Hq, Hrq. cbn [andb] in Hq. rewrite app_nil_r in Hq.
  rewrite finish_open with (L := L) by (rewrite Hq; exact Hc).
  unfold pending. rewrite Hrq, Xc, Hcomp, Xhp, Xhf, Hp. reflexivity.
Qed.

(* the step completed a delivered message after which the connection stays open *)
Lemma step_open c0 q L :
  cut (map obs_of_parser (requests c0)) = (L, false) -> completed q = true -> empty q = false ->
  closes (obs_of_parser q) = false ->
  request (post c0 q) = None /\
  cut (map obs_of_parser (requests (post c0 q))) = (L ++ [obs_of_parser q], false).
Proof.
  intros Hc Hcomp Hemp Hcl.
  destruct (post_facts c0 q) as (r2 & Hx & Hq & Hrq). destruct (eqx_fields r2 q Hx) as (Xo & _).
  rewrite Hcomp in Hrq. rewrite Hcomp, Hemp in Hq. cbn [negb andb] in Hq.
  split; [exact Hrq|]. rewrite Hq, map_app, (cut_app_open _ _ L Hc). cbn [map cut].
  rewrite Xo, Hcl. reflexivity.
Qed.

(* the step completed an empty message (only blank lines) *)
Lemma step_empty c0 q :
  completed q = true -> empty q = true ->
  request (post c0 q) = None /\ requests (post c0 q) = requests c0.
Proof.
  intros Hcomp Hemp. destruct (post_facts c0 q) as (r2 & _ & Hq & Hrq).
  rewrite Hcomp in Hrq. rewrite Hcomp, Hemp in Hq. cbn [negb andb] in Hq. rewrite app_nil_r in Hq. auto.
Qed.

(* the step did not complete the message *)
Lemma step_more c0 q : completed q = false ->
  exists r2, eqx r2 q /\ request (post c0 q) = Some r2 /\ requests (post c0 q) = requests c0.
Proof.
  intros Hcomp. destruct (post_facts c0 q) as (r2 & Hx & Hq & Hrq).
  rewrite Hcomp in Hq, Hrq. cbn [andb] in Hq. rewrite app_nil_r in Hq. eauto.
Qed.

End Steps.

(* ---------------------------------------------------------------- *)
(* the delivered message as observed *)

Lemma hget_app_other d k k' x : beqb k k' = false -> hget (d ++ [(k', x)]) k = hget d k.
Proof.
  intro Hk. induction d as [|[k0 v0] d IH]; cbn [app hget].
  - rewrite Hk. reflexivity.
  - destruct (beqb k k0); auto.
Qed.

Lemma hget_delivered_conn v dict fr bd :
  hget (delivered_dict v dict fr bd) s_CONNECTION = hget dict s_CONNECTION.
Proof.
  unfold delivered_dict.
  assert (H1 : hget (if beqb v v11 then remove dict K_TE else dict) s_CONNECTION = hget dict s_CONNECTION).
  { destruct (beqb v v11); auto. rewrite <- hpop_remove. apply hget_hpop_other. reflexivity. }
  destruct fr; auto.
  rewrite hget_app_other by reflexivity. rewrite <- hpop_remove, hget_hpop_other by reflexivity. exact H1.
Qed.

Lemma obs_deliver q m t v fs bd :
  values_clean (combined fs) -> error q = None -> command q = m -> request_uri q = t -> version q = v ->
  connection_close q = model_cc (combined fs) v ->
  headers q = delivered_dict v (combined fs) (framing_of v (combined fs)) bd ->
  (match body q with Some b => body_bytes b | None => [] end) = bd ->
  obs_of_parser q = ref_view (Deliver (mk_msg m t v fs bd) (close_after_of v (combined fs))).
Proof.
  intros Hcl He Hm Ht Hv Hcc Hh Hb. unfold obs_of_parser, ref_view, delivered_view, mk_msg.
  cbn [m_method m_target m_version m_fields m_body]. rewrite He, Hm, Ht, Hv, Hcc, Hh, Hb. f_equal.
  unfold hget_default. rewrite hget_delivered_conn.
  apply (close_decision (combined fs) v). intros c0 Hc0. eapply hget_clean; eauto.
Qed.

Lemma hd1_delivered v dict fr bd : fr <> FrChunked -> hd1 dict v = delivered_dict v dict fr bd.
Proof.
  intro Hfr. unfold hd1, delivered_dict. change s_1_1 with v11.
  rewrite hpop_remove. destruct fr; try reflexivity. congruence.
Qed.

Lemma framing_chunked_v11 v d : framing_of v d = FrChunked -> beqb v v11 = true.
Proof.
  unfold framing_of. destruct (beqb v v11); auto.
  destruct (lookup d K_CL) as [v0|]; [|discriminate].
  destruct (content_length_of v0) as [[|q]|]; discriminate.
Qed.

Lemma chunked_delivered v dict bd : uniq dict -> framing_of v dict = FrChunked ->
  hset (hpop (hpop dict s_TRANSFER_ENCODING) s_CONTENT_LENGTH) s_CONTENT_LENGTH (to_dec (lenN bd))
  = delivered_dict v dict FrChunked bd.
Proof.
  intros Hu Hfr. unfold delivered_dict. rewrite (framing_chunked_v11 v dict Hfr).
  rewrite hset_absent by (apply hget_hpop_same, uniq_hpop; exact Hu).
  rewrite !hpop_remove. reflexivity.
Qed.

(* ---------------------------------------------------------------- *)
(* the reference loop, one message at a time, over the head outcome *)

Lemma ref_loop_nil f c d : ref_loop f c d [] = [].
Proof. destruct f; reflexivity. Qed.

Lemma ref_loop_step f c d s : s <> [] ->
  ref_loop (S f) c d s =
  match read_head s [] [] 0 with
  | None => if max_header c <=? lenN s then [Refuse 431] else [Incomplete]
  | Some (lines, rest, n) =>
    if max_header c <=? n then [Refuse 431]
    else
      match ref_head_out c lines with
      | HOEmpty => ref_loop f c d rest
      | HORefuse code => [Refuse code]
      | HOMsg m t v fs =>
        let dict := combined fs in
        let close := close_after_of v dict in
        let continue (o : ref_outcome) (rest' : bytes) :=
          o :: (if close then [] else ref_loop f c d rest') in
        match framing_of v dict with
        | FrRefuse code => [Refuse code]
        | FrNone => continue (Deliver (mk_msg m t v fs []) close) rest
        | FrLength k =>
          if max_body c <=? k then [Refuse 413]
          else if lenN rest <? k then [Incomplete]
          else continue (Deliver (mk_msg m t v fs (firstn (N.to_nat k) rest)) close)
                        (skipn (N.to_nat k) rest)
        | FrChunked =>
          match ref_chunked d rest with
          | ChIncomplete => if max_body c <=? lenN rest then [Refuse 413] else [Incomplete]
          | ChBad examined =>
            if tol_limit_first c && (max_body c <=? examined) then [Refuse 413] else [Refuse 400]
          | ChDone body rest' =>
            if max_body c <=? lenN rest - lenN rest' then [Refuse 413]
            else continue (Deliver (mk_msg m t v fs body) close) rest'
          end
        end
      end
  end.
Proof.
  intro Hne. destruct s as [|x s']; [congruence|]. cbn [ref_loop].
  destruct (read_head (x :: s') [] [] 0) as [[[lines rest] n]|]; [|reflexivity].
  destruct (max_header c <=? n); [reflexivity|].
  unfold ref_head_out, ref_msg_out.
  destruct (drop_leading lines) as [|rl flines]; [reflexivity|].
  destruct (head_fields flines) as [fs|]; [|reflexivity].
  destruct (parse_request_line (prepare_request_line c rl)) as [[[m t] v]|]; [|reflexivity].
  destruct (framing_of v (combined fs)) eqn:E; cbv zeta; rewrite ?E; reflexivity.
Qed.

(* ---------------------------------------------------------------- *)
(* the induction over the messages of the stream *)

Section Main.
Variable a : adj.
Hypothesis Hmb : 0 < max_request_body_size a.

Lemma ref_chunked_nil d : ref_chunked d [] = ChIncomplete.
Proof. reflexivity. Qed.

Lemma compose_loop : forall n s, (length s <= n)%nat -> forall fuel rf c L c',
  s <> [] -> bytes_ok s -> targets_ok s -> (length s < fuel)%nat -> (length s < rf)%nat ->
  request c = None -> cut (map obs_of_parser (requests c)) = (L, false) ->
  received_loop fuel a c s = COk c' ->
  observe (COk c') = Some (L ++ map ref_view (ref_loop rf (cfg_of a) all_devs s)).
Proof.
  induction n as [|n IH]; intros s Hn fuel rf c L c' Hne Hok Htg Hfuel Hrf Hreq Hcut Hrun.
  { destruct s; [congruence | cbn in Hn; lia]. }
  (* going on after a completed message that leaves the connection open *)
  assert (Hcont : forall data k f1 rf1 c1 L1, bytes_ok data -> targets_ok data -> (k <= length data)%nat ->
            (length (skipn k data) <= n)%nat -> (length (skipn k data) < f1)%nat ->
            (length (skipn k data) < rf1)%nat ->
            request c1 = None -> cut (map obs_of_parser (requests c1)) = (L1, false) ->
            cont f1 a c1 data (Z.of_nat k) = COk c' ->
            observe (COk c') = Some (L1 ++ map ref_view (ref_loop rf1 (cfg_of a) all_devs (skipn k data)))).
  { intros data k f1 rf1 c1 L1 Hokd Htgd Hk Hln Hlf Hlr Hreq1 Hcut1 Hrun1.
    destruct (cont_cases f1 a c1 data k c' Hk Hrun1) as [[E ->]|[E Hrun2]].
    - rewrite E, ref_loop_nil. cbn [map]. rewrite (finish_open c1 L1 Hcut1).
      unfold pending. rewrite Hreq1. reflexivity.
    - apply (IH (skipn k data) Hln f1 rf1 c1 L1 c'); auto.
      + apply bytes_ok_skipn; auto.
      + eapply targets_ok_infix; [apply infix_skipn | exact Htgd]. }
  (* a refused message *)
  assert (Hclosed : forall c0 q data nq f1 code, cut (map obs_of_parser (requests c0)) = (L, false) ->
            completed q = true -> empty q = false -> (exists e, error q = Some e /\ perr_code e = code) ->
            cont f1 a (post c0 q) data nq = COk c' ->
            observe (COk c') = Some (L ++ map ref_view [Refuse code])).
  { intros c0 q data nq f1 code Hc0 Qc Qe (e & Qerr & Hcode) Hrun1.
    rewrite (step_closed a f1 c0 q data nq c' L Hc0 Qc Qe); [|rewrite (obs_refuse q e Qerr); reflexivity | exact Hrun1].
    rewrite (obs_refuse q e Qerr), Hcode. reflexivity. }
  (* a delivered message *)
  assert (Hdeliver : forall c0 q data k f1 rf1 msg cl, bytes_ok data -> targets_ok data -> (k <= length data)%nat ->
            (length (skipn k data) <= n)%nat -> (length (skipn k data) < f1)%nat ->
            (length (skipn k data) < rf1)%nat ->
            cut (map obs_of_parser (requests c0)) = (L, false) ->
            completed q = true -> empty q = false -> obs_of_parser q = ref_view (Deliver msg cl) ->
            cont f1 a (post c0 q) data (Z.of_nat k) = COk c' ->
            observe (COk c') = Some (L ++ map ref_view (Deliver msg cl ::
               (if cl then [] else ref_loop rf1 (cfg_of a) all_devs (skipn k data))))).
  { intros c0 q data k f1 rf1 msg cl Hokd Htgd Hk Hln Hlf Hlr Hc0 Qc Qe Qo Hrun1.
    destruct cl.
    - rewrite (step_closed a f1 c0 q data (Z.of_nat k) c' L Hc0 Qc Qe); [|rewrite Qo; reflexivity | exact Hrun1].
      rewrite Qo. reflexivity.
    - destruct (step_open c0 q L Hc0 Qc Qe) as (R1 & R2); [rewrite Qo; reflexivity|].
      rewrite (Hcont data k f1 rf1 (post c0 q) (L ++ [obs_of_parser q])); auto.
      rewrite Qo, <- app_assoc. reflexivity. }
  destruct fuel as [|f]; [lia|]. destruct rf as [|rf']; [lia|].
  rewrite loop_unfold in Hrun. unfold cur in Hrun. rewrite Hreq in Hrun.
  rewrite (ref_loop_step rf' (cfg_of a) all_devs s Hne).
  change (max_header (cfg_of a)) with (max_request_header_size a).
  change (max_body (cfg_of a)) with (max_request_body_size a).
  change (tol_limit_first (cfg_of a)) with true.
  destruct (read_head s [] [] 0) as [[[lines rest] hn]|] eqn:Hrh.
  2:{ (* no complete head in the stream *)
      destruct (head_step_none a s Hrh) as (p & Ep & Hp). rewrite Ep in Hrun.
      destruct (max_request_header_size a <=? lenN s).
      - destruct Hp as (Pc & Pe & Perr). eapply Hclosed; eauto.
      - destruct Hp as (Pc & Php & Phf). unfold cont in Hrun. rewrite Z.leb_refl in Hrun. injection Hrun as <-.
        apply step_pending; auto. rewrite Php. destruct s; [congruence|reflexivity]. }
  destruct (head_rest s lines rest hn Hrh) as (i & -> & -> & Hi).
  assert (Hokr : bytes_ok (skipn i s)) by (apply bytes_ok_skipn; exact Hok).
  assert (Htgr : targets_ok (skipn i s)) by (eapply targets_ok_infix; [apply infix_skipn | exact Htg]).
  assert (Hlr : length (skipn i s) = (length s - i)%nat) by apply skipn_length.
  destruct (max_request_header_size a <=? N.of_nat i) eqn:Hmh.
  { destruct (head_step_431 a s lines _ _ Hrh Hmh) as (p & Ep & Pc & Pe & Perr). rewrite Ep in Hrun.
    eapply Hclosed; eauto. }
  destruct (head_step a s lines _ _ Hok Htg Hrh Hmh) as (p & Ep & Hbb & Hrel). rewrite Ep, nat_N_Z in Hrun.
  pose proof (ref_head_out_clean (cfg_of a) lines) as Hclean.
  destruct (ref_head_out (cfg_of a) lines) as [|code|m t v fs].
  - (* only empty lines *)
    destruct Hrel as (Pc & Pe). destruct (step_empty c p Pc Pe) as (R1 & R2).
    apply (Hcont s i f rf' (post c p) L); auto; try lia. rewrite R2. exact Hcut.
  - (* the head is refused *)
    destruct Hrel as (Pc & Pe & Perr). eapply Hclosed; eauto.
  - (* the head of a message *)
    destruct Hrel as (Pe & Phf & Pm & Pt & Pv & Pcc & Hfr). specialize (Hclean m t v fs eq_refl).
    cbv zeta.
    destruct (framing_of v (combined fs)) as [|k| |code] eqn:Efr.
    + (* no body *)
      destruct Hfr as (Pc & Perr & Pb & Ph).
      apply (Hdeliver c p s i f rf'); auto; try lia.
      apply obs_deliver; auto.
      * rewrite Ph. apply hd1_delivered. rewrite Efr. discriminate.
      * rewrite Pb. reflexivity.
    + (* Content-Length k *)
      destruct Hfr as (Pb & Pch & Ph & Hk & Hlim).
      destruct (max_request_body_size a <=? k) eqn:Emb.
      { destruct Hlim as (Pc & Perr). eapply Hclosed; eauto; try (exists EBodyTooLarge; auto). }
      destruct Hlim as (Pc & Perr).
      destruct (step_more c p Pc) as (r2 & Hx & Rq & Rqs).
      destruct (eqx_fields r2 p Hx) as (_ & Xc & Xb & Xbb & Xch & Xe & Xh & _ & Xhf & (S1 & S2 & S3 & S4 & S5 & S6)).
      assert (Hcut1 : cut (map obs_of_parser (requests (post c p))) = (L, false)) by (rewrite Rqs; exact Hcut).
      destruct (cont_cases f a (post c p) s i c' ltac:(lia) Hrun) as [[E ->]|[E Hrun2]].
      * rewrite E. replace (lenN [] <? k) with true by (symmetry; apply N.ltb_lt; exact Hk).
        apply step_pending; auto. rewrite Phf. apply orb_true_r.
      * set (rest := skipn i s) in *.
        destruct f as [|f2]; [lia|]. rewrite loop_unfold in Hrun2. unfold cur in Hrun2. rewrite Rq in Hrun2.
        destruct (lenN rest <? k) eqn:Elt.
        -- apply N.ltb_lt in Elt.
           destruct (body_fixed_short a r2 k rest) as (q & Eq & (T1 & T2 & T3 & T4 & T5 & T6) & Qc); try congruence.
           rewrite Eq in Hrun2. unfold cont in Hrun2. rewrite Z.leb_refl in Hrun2. injection Hrun2 as <-.
           apply step_pending; auto. replace (headers_finished q) with true by congruence. apply orb_true_r.
        -- apply N.ltb_ge in Elt.
           destruct (body_fixed_complete a r2 k rest) as (q & Eq & (T1 & T2 & T3 & T4 & T5 & T6) & Qc & Qe & Qb & Qh);
             try congruence.
           rewrite Eq in Hrun2. replace (Z.of_N k) with (Z.of_nat (N.to_nat k)) in Hrun2 by lia.
           unfold lenN in Elt.
           apply (Hdeliver (post c p) q rest (N.to_nat k) f2 rf');
             [exact Hokr | exact Htgr | lia | rewrite skipn_length; lia | rewrite skipn_length; lia
             | rewrite skipn_length; lia | exact Hcut1 | exact Qc | congruence | | exact Hrun2].
           apply obs_deliver; auto; try congruence.
           ++ rewrite Qh, Xh, Ph. apply hd1_delivered. rewrite Efr. discriminate.
           ++ rewrite Qb. reflexivity.
    + (* chunked *)
      destruct Hfr as (Pb & Pch & Ph & Pc & Perr).
      destruct (step_more c p Pc) as (r2 & Hx & Rq & Rqs).
      destruct (eqx_fields r2 p Hx) as (_ & Xc & Xb & Xbb & Xch & Xe & Xh & _ & Xhf & (S1 & S2 & S3 & S4 & S5 & S6)).
      assert (Hcut1 : cut (map obs_of_parser (requests (post c p))) = (L, false)) by (rewrite Rqs; exact Hcut).
      destruct (cont_cases f a (post c p) s i c' ltac:(lia) Hrun) as [[E ->]|[E Hrun2]].
      * rewrite E, ref_chunked_nil.
        replace (max_request_body_size a <=? lenN []) with false by (symmetry; apply N.leb_gt; exact Hmb).
        apply step_pending; auto. rewrite Phf. apply orb_true_r.
      * set (rest := skipn i s) in *.
        destruct f as [|f2]; [lia|]. rewrite loop_unfold in Hrun2. unfold cur in Hrun2. rewrite Rq in Hrun2.
        change all_devs with d_recv.
        pose proof (body_chunked a r2 rest) as BC.
        destruct (ref_chunked d_recv rest) as [bd rest'|ex|].
        -- destruct BC as (Er' & Hle & q & Eq & (T1 & T2 & T3 & T4 & T5 & T6) & Qc & Hq); try congruence.
           rewrite Eq in Hrun2.
           destruct (max_request_body_size a <=? lenN rest - lenN rest').
           ++ eapply Hclosed; eauto; try congruence; try (exists EBodyTooLarge; auto).
           ++ destruct Hq as (Qe & (st & Qb & Qbuf) & Qh).
              replace (ref_loop rf' (cfg_of a) d_recv rest')
                with (ref_loop rf' (cfg_of a) all_devs (skipn (length rest - length rest') rest))
                by (rewrite <- Er'; reflexivity).
              apply (Hdeliver (post c p) q rest (length rest - length rest')%nat f2 rf');
                [exact Hokr | exact Htgr | lia | rewrite <- Er'; lia | rewrite <- Er'; lia
                | rewrite <- Er'; lia | exact Hcut1 | exact Qc | congruence | | exact Hrun2].
              apply obs_deliver; auto; try congruence.
              ** rewrite Qh, Xh, Ph, Efr. apply chunked_delivered; [apply uniq_combined | exact Efr].
              ** rewrite Qb. exact Qbuf.
        -- destruct BC as (q & nq & Eq & (T1 & T2 & T3 & T4 & T5 & T6) & Qc & e & Qe & Hcode); try congruence.
           rewrite Eq in Hrun2. cbn [andb].
           destruct (max_request_body_size a <=? ex); eapply Hclosed; eauto; try congruence.
        -- destruct BC as (q & Eq & (T1 & T2 & T3 & T4 & T5 & T6) & Hq); try congruence.
           rewrite Eq in Hrun2.
           destruct (max_request_body_size a <=? lenN rest).
           ++ destruct Hq as (Qc & Qe). eapply Hclosed; eauto; try congruence; try (exists EBodyTooLarge; auto).
           ++ unfold cont in Hrun2. rewrite Z.leb_refl in Hrun2. injection Hrun2 as <-.
              apply step_pending; auto. replace (headers_finished q) with true by congruence. apply orb_true_r.
    + contradiction.
Qed.

End Main.

(* ---------------------------------------------------------------- *)
(* T4: the whole stream in one read *)

Theorem compose_one_read a s c' :
  0 < max_request_body_size a -> bytes_ok s -> targets_ok s ->
  feed a chan_init [s] = COk c' ->
  observe (COk c') = Some (map ref_view (ref_run_dev (cfg_of a) all_devs s)).
Proof.
  intros Hmb Hok Htg. cbn [feed]. unfold chan_received.
  destruct (list_eq_dec N.eq_dec s []) as [->|Hne].
  - intro H. injection H as <-. reflexivity.
  - replace (match s with [] => COk chan_init | _ :: _ =>
               if will_close chan_init || close_when_flushed chan_init then COk chan_init
               else received_loop (S (length s)) a chan_init s end)
      with (received_loop (S (length s)) a chan_init s) by (destruct s; [congruence|reflexivity]).
    destruct (received_loop (S (length s)) a chan_init s) as [c1| | |] eqn:E; try discriminate.
    intro H. injection H as <-. unfold ref_run_dev.
    apply (compose_loop a Hmb (length s) s (le_n _) (S (length s)) (S (length s)) chan_init [] c1); auto.
Qed.
