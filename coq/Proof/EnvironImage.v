(* The capstone: for every accepted run with a well-formed target and version
   1.0 / 1.1, the environ of the model and the environ of Spec/Pep3333
   (spec_environ, the function the search extracts and runs against the real
   code) are the same finite map. *)
From Coq Require Import List NArith ZArith Bool Lia.
From RecordUpdate Require Import RecordUpdate.
From WV Require Import Lib.PyBytes Lib.Regex Gen.GenRegex Model.Receiver Model.UrlSplit Model.Parser
  Model.Environ Spec.Pep3333 Proof.EnvironDict Proof.EnvironParse Proof.EnvironRun Proof.EnvironFields
  Proof.EnvironTarget Proof.EnvironLatin1 Proof.EnvironBody.
Import ListNotations.
Local Open Scope N_scope.

Definition sval_of (v : evalue) : sval :=
  match v with
  | VStr s => SStr s
  | VTuple10 => SVersion10
  | VStderr => SObject
  | VBool b => SBool b
  | VInput d => SInput d
  | VFileWrapper => SObject
  | VDisconnected => SObject
  end.

Definition gateway_of (a : adj) (c : config) : gateway :=
  {| gw_prefix := url_prefix c; gw_server_name := server_name c;
     gw_server_port := str_port (effective_port c); gw_software := ident c;
     gw_remote_addr := addr0 (peer_addr c); gw_remote_port := str_addr1 (peer_addr c);
     gw_scheme := adj_url_scheme a |}.

(* ------------------------------------------------------------------ *)
(* association lists *)

Lemma slookup_app e1 e2 k :
  slookup (e1 ++ e2) k = match slookup e1 k with Some v => Some v | None => slookup e2 k end.
Proof. induction e1 as [|[k' v] e1 IH]; cbn [app slookup]; auto. destruct (beqb k k'); auto. Qed.

Definition smap (e : edict) : list (bytes * sval) := map (fun kv => (fst kv, sval_of (snd kv))) e.

Lemma slookup_smap e k : slookup (smap e) k = option_map sval_of (eget e k).
Proof. induction e as [|[k' v] e IH]; cbn [smap map slookup eget fst snd]; auto. destruct (beqb k k'); auto. Qed.

Lemma slookup_notin e k : ~ In k (map fst e) -> slookup e k = None.
Proof.
  induction e as [|[k' v] e IH]; cbn [map fst slookup]; auto. intro H.
  destruct (beqb k k') eqn:E; [apply beqb_eq in E; subst; cbn in H; tauto|]. apply IH. cbn in H. tauto.
Qed.

Lemma slookup_in e k v : NoDup (map fst e) -> In (k, v) e -> slookup e k = Some v.
Proof.
  induction e as [|[k' v'] e IH]; cbn [map fst slookup]; intros ND H; [contradiction|].
  inversion ND; subst. destruct H as [H|H].
  - injection H as -> ->. rewrite beqb_refl. reflexivity.
  - destruct (beqb k k') eqn:E.
    + apply beqb_eq in E. subst k'. exfalso. apply H2. apply in_map_iff. exists (k, v). auto.
    + apply IH; auto.
Qed.

(* two duplicate-free association lists with the same entries are the same map *)
Lemma slookup_same_entries e1 e2 :
  NoDup (map fst e1) -> NoDup (map fst e2) -> (forall kv, In kv e1 -> In kv e2) ->
  (forall k, In k (map fst e2) -> In k (map fst e1)) ->
  forall k, slookup e1 k = slookup e2 k.
Proof.
  intros N1 N2 Sub Keys k.
  destruct (slookup e1 k) as [v|] eqn:E1.
  - assert (In (k, v) e1).
    { clear - E1. induction e1 as [|[k' v'] e1 IH]; cbn [slookup] in E1; [discriminate|].
      destruct (beqb k k') eqn:E.
      - apply beqb_eq in E. injection E1 as ->. subst. left. reflexivity.
      - right. auto. }
    symmetry. apply slookup_in; auto.
  - symmetry. apply slookup_notin. intro H. apply Keys in H.
    apply in_map_iff in H as ([k' v] & Hk & Hin). cbn in Hk. subst k'.
    rewrite (slookup_in e1 k v N1 Hin) in E1. discriminate.
Qed.

Fixpoint nodup_check (l : list bytes) : bool :=
  match l with [] => true | x :: l' => negb (existsb (beqb x) l') && nodup_check l' end.
Lemma nodup_check_sound l : nodup_check l = true -> NoDup l.
Proof.
  induction l as [|x l IH]; intro H; constructor.
  - apply andb_true_iff in H as [H _]. intro Hin. apply negb_true_iff in H.
    assert (existsb (beqb x) l = true) by (apply existsb_exists; exists x; split; auto; apply beqb_refl).
    congruence.
  - apply IH. apply andb_true_iff in H as [_ H]. exact H.
Qed.

(* ------------------------------------------------------------------ *)
(* the protocol-specific part of spec_environ *)

Lemma slookup_flat_entries rq ks k :
  slookup (flat_map (fun k' => match spec_header rq k' with Some v => [(k', SStr v)] | None => [] end) ks) k
  = if existsb (beqb k) ks then option_map SStr (spec_header rq k) else None.
Proof.
  induction ks as [|k' ks IH]; cbn [flat_map existsb]; auto.
  rewrite slookup_app, IH. destruct (beqb k k') eqn:E; cbn [orb].
  - apply beqb_eq in E. subst k'. destruct (spec_header rq k) as [v|]; cbn [slookup option_map].
    + rewrite beqb_refl. reflexivity.
    + destruct (existsb (beqb k) ks); reflexivity.
  - destruct (spec_header rq k') as [v'|]; cbn [slookup]; [rewrite E|]; reflexivity.
Qed.

Lemma nodup_keys_complete ks : forall seen k,
  In k ks -> existsb (beqb k) (nodup_keys ks seen) = true \/ existsb (beqb k) seen = true.
Proof.
  induction ks as [|x ks IH]; intros seen k H; [contradiction|]. cbn [nodup_keys].
  destruct H as [->|H].
  - destruct (existsb (beqb k) seen) eqn:E; auto. left. cbn [existsb]. rewrite beqb_refl. reflexivity.
  - destruct (existsb (beqb x) seen) eqn:E.
    + apply IH. exact H.
    + destruct (IH (x :: seen) k H) as [A|A].
      * left. cbn [existsb]. rewrite A, orb_true_r. reflexivity.
      * cbn [existsb] in A. apply orb_true_iff in A as [A|A]; auto.
        left. cbn [existsb]. rewrite A. reflexivity.
Qed.

Lemma nodup_keys_sound ks : forall seen k,
  existsb (beqb k) (nodup_keys ks seen) = true -> In k ks.
Proof.
  induction ks as [|x ks IH]; intros seen k H; cbn [nodup_keys] in H; [discriminate|].
  destruct (existsb (beqb x) seen).
  - right. eapply IH; eauto.
  - cbn [existsb] in H. apply orb_true_iff in H as [H|H].
    + apply beqb_eq in H. left. auto.
    + right. eapply IH; eauto.
Qed.

Definition key_candidates (rq : request) : list bytes :=
  (if rq_chunked rq then [c_CONTENT_LENGTH] else [])
  ++ map (fun nv => cgi_key (fst nv)) (filter (fun nv => negb (has_underscore (fst nv))) (rq_fields rq)).

Lemma field_values_some fields k :
  field_values fields k <> [] ->
  In k (map (fun nv => cgi_key (fst nv)) (filter (fun nv => negb (has_underscore (fst nv))) fields)).
Proof.
  unfold field_values. induction fields as [|[n v] fields IH]; cbn [flat_map filter fst snd]; [tauto|].
  destruct (has_underscore n); cbn [negb andb app map].
  - exact IH.
  - destruct (beqb (cgi_key n) k) eqn:E; cbn [app fst].
    + intros _. left. apply beqb_eq. exact E.
    + intro H. right. apply IH. exact H.
Qed.

Lemma spec_header_some_in rq k v : spec_header rq k = Some v -> In k (key_candidates rq).
Proof.
  unfold spec_header, key_candidates.
  destruct (beqb (rq_version rq) c_1_1 && beqb k c_HTTP_TRANSFER_ENCODING); [discriminate|].
  destruct (rq_chunked rq); cbn [andb].
  - destruct (beqb k c_CONTENT_LENGTH) eqn:E.
    + intros _. apply beqb_eq in E. left. auto.
    + intro H. right. apply field_values_some. intro X. rewrite X in H. discriminate.
  - intro H. cbn [app]. apply field_values_some. intro X. rewrite X in H. discriminate.
Qed.

Lemma key_candidates_header_form rq k : In k (key_candidates rq) -> is_header_key k = true.
Proof.
  unfold key_candidates. intro H. apply in_app_or in H as [H|H].
  - destruct (rq_chunked rq); [|contradiction]. destruct H as [<-|[]]. reflexivity.
  - apply in_map_iff in H as ([n v] & <- & _). apply cgi_key_header_form.
Qed.

Lemma slookup_header_entries rq k :
  slookup (header_entries rq) k = if is_header_key k then option_map SStr (spec_header rq k) else None.
Proof.
  unfold header_entries. rewrite slookup_flat_entries. unfold header_keys.
  fold (key_candidates rq).
  destruct (existsb (beqb k) (nodup_keys (key_candidates rq) [])) eqn:E.
  - apply nodup_keys_sound in E. rewrite (key_candidates_header_form _ _ E). reflexivity.
  - destruct (is_header_key k); auto.
    destruct (spec_header rq k) as [v|] eqn:S; auto.
    apply spec_header_some_in in S. destruct (nodup_keys_complete _ [] _ S) as [A|A]; [congruence|discriminate].
Qed.

(* ------------------------------------------------------------------ *)
(* the server part *)

Definition spec_server_part (gw : gateway) (rq : request) : list (bytes * sval) :=
  firstn 21 (spec_environ gw rq).

Lemma spec_environ_split gw rq :
  spec_environ gw rq =
  spec_server_part gw rq
  ++ match spec_protocol rq with
     | Some v => [(k_SERVER_PROTOCOL, SStr v)]
     | None => []
     end
  ++ header_entries rq.
Proof. reflexivity. Qed.

Lemma get_environment_other c p k :
  is_header_key k = false ->
  eget (get_environment c p) k =
  eget (base_environ c p ++ [(k_waitress_client_disconnected, VDisconnected)]) k.
Proof.
  intro H. unfold get_environment. rewrite eget_eset, eget_app.
  rewrite fold_add_header_eget_other by exact H.
  destruct (beqb k k_waitress_client_disconnected) eqn:E.
  - apply beqb_eq in E. subst k. reflexivity.
  - cbn [eget]. rewrite E. destruct (eget (base_environ c p) k); reflexivity.
Qed.

Section Image.
  Variables (a : adj) (c : config) (p : parser) (lines : list bytes).
  Hypothesis Hscheme : url_scheme p = adj_url_scheme a.
  Hypothesis Hmethod : upper_str (command p) = command p.
  Hypothesis Hversion : version p = s_1_0 \/ version p = s_1_1.
  Hypothesis Hpath : path p = pct_decode (raw_path (request_uri p)).
  Hypothesis Hquery : query p = raw_query (request_uri p).

  Let gw := gateway_of a c.
  Let rq := request_of p lines.

  Lemma server_part_same_map k :
    slookup (smap (base_environ c p ++ [(k_waitress_client_disconnected, VDisconnected)])) k =
    slookup (spec_server_part gw rq ++ match spec_protocol rq with
                                       | Some v => [(k_SERVER_PROTOCOL, SStr v)]
                                       | None => []
                                       end) k.
  Proof.
    assert (P : spec_protocol rq = Some (k_HTTPslash ++ task_version p)).
    { unfold spec_protocol, rq, request_of, task_version. cbn [rq_version].
      change c_1_0 with s_1_0. change c_1_1 with s_1_1.
      destruct Hversion as [E|E]; rewrite E; reflexivity. }
    rewrite P.
    apply slookup_same_entries.
    - apply nodup_check_sound. vm_compute. reflexivity.
    - apply nodup_check_sound. vm_compute. reflexivity.
    - intros kv H. unfold base_environ, smap in H. cbn [map app fst snd sval_of] in H.
      unfold spec_server_part, spec_environ, gw, rq, gateway_of, request_of, spec_path_info.
      cbn [firstn app gw_remote_addr gw_remote_port gw_server_port gw_server_name gw_software gw_prefix
           gw_scheme rq_method rq_target rq_body].
      rewrite Hmethod, Hscheme, environ_path_spec, Hpath, Hquery in H.
      unfold str.
      repeat (destruct H as [H|H]; [subst kv; cbn [In]; repeat (first [left; reflexivity | right])|]). contradiction.
    - intros k0 H. unfold base_environ, smap. cbn [map app fst snd].
      unfold spec_server_part, spec_environ in H. cbn [firstn app map fst] in H. unfold str in H.
      repeat (destruct H as [H|H]; [subst k0; cbn [In]; repeat (first [left; reflexivity | right])|]). contradiction.
  Qed.
End Image.

Theorem environ_image a c ds p :
  Forall ok ds ->
  feed_all a ds = Some p -> completed p = true -> error p = None -> empty p = false ->
  wf_target (request_uri p) -> (version p = s_1_0 \/ version p = s_1_1) ->
  exists hp fl lines,
    head_of ds hp /\ head_lines hp fl lines /\
    forall k, option_map sval_of (eget (get_environment c p) k) =
              slookup (spec_environ (gateway_of a c) (request_of p lines)) k.
Proof.
  intros Hds H Hc He Hm W V.
  destruct (run_accepted _ _ _ H Hc He Hm) as (p0 & p1 & hp & AR).
  destruct (parse_header_ok _ _ _ _ (ar_parse _ _ _ _ _ _ AR)) as (fl & lines & h1 & AH).
  pose proof (ok_head_of _ _ Hds (ar_head _ _ _ _ _ _ AR)) as Hhp.
  pose proof (ar_reqline _ _ _ _ _ _ AR) as R. unfold reqline in R. injection R as R1 R2 R3 R4 R5 R6.
  assert (Hfl : ok fl).
  { destruct (ah_find _ _ _ _ _ _ _ AH) as (index & _ & -> & _). apply ok_rstrip, ok_firstn, Hhp. }
  destruct (crack_first_line_method _ _ _ _ Hfl (ah_crack _ _ _ _ _ _ _ AH) (ah_crack_ne _ _ _ _ _ _ _ AH))
    as (_ & _ & M3).
  destruct (ah_split _ _ _ _ _ _ _ AH) as (sc & nl & fr & SP).
  assert (W1 : wf_target (request_uri p1)) by congruence.
  destruct (split_uri_spec _ _ _ _ _ _ W1 SP) as (P & Q).
  exists hp, fl, lines. split; [exact (ar_head _ _ _ _ _ _ AR)|]. split; [exact (ah_find _ _ _ _ _ _ _ AH)|].
  intro k. rewrite spec_environ_split, !slookup_app, slookup_header_entries.
  destruct (is_header_key k) eqn:HK.
  - (* protocol-specific keys *)
    rewrite (header_entries_image _ _ _ _ _ _ _ _ _ AR AH c k HK).
    assert (S1 : slookup (spec_server_part (gateway_of a c) (request_of p lines)) k = None).
    { apply slookup_notin. unfold spec_server_part, spec_environ. cbn [firstn map fst]. unfold str.
      intro X. repeat (destruct X as [X|X]; [subst k; vm_compute in HK; discriminate|]). contradiction. }
    rewrite S1.
    assert (S2 : slookup (match spec_protocol (request_of p lines) with
                          | Some v => [(k_SERVER_PROTOCOL, SStr v)] | None => [] end) k = None).
    { destruct (spec_protocol _); [|reflexivity]. cbn [slookup].
      destruct (beqb k k_SERVER_PROTOCOL) eqn:E; [|reflexivity].
      apply beqb_eq in E. subst k. vm_compute in HK. discriminate. }
    rewrite S2. destruct (spec_header (request_of p lines) k); reflexivity.
  - rewrite get_environment_other by exact HK. rewrite <- slookup_smap.
    rewrite (server_part_same_map a c p lines).
    + rewrite slookup_app.
      destruct (slookup (spec_server_part _ _) k); [reflexivity|].
      destruct (slookup (match spec_protocol _ with Some v => _ | None => [] end) k); reflexivity.
    + rewrite R6. exact (ah_scheme _ _ _ _ _ _ _ AH).
    + rewrite R1. apply upper_str_identity. exact M3.
    + exact V.
    + congruence.
    + congruence.
Qed.
