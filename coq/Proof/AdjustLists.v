(* aslist / aslist_cronly / splitlines: the list-valued casts of
   waitress.adjustments, characterised for ALL strings.

   Main results
     aslist_str_split_ws : aslist(s) = s.split()      (every line separator of
                           str.splitlines is a whitespace character, so the
                           splitlines/strip/filter pipeline adds nothing)
     aslist_str_app_sep  : aslist(a + ws + b) = aslist(a) + aslist(b)
     aslist_accumulated  : the string accumulated by repeated --listen options
                           casts to the concatenation of the single casts
     aslist_joined       : ... and so does the single keyword value " ".join(vs) *)
From Coq Require Import List NArith Bool Lia.
From WV Require Import Lib.PyBytes Gen.GenAdjust Model.Adjust.
Import ListNotations.
Local Open Scope N_scope.

Section SplitWs.
  Variable f : N -> bool.

  Lemma split_ws_go_app_sep : forall a x b cur, f x = true ->
    split_ws_go f (a ++ x :: b) cur = split_ws_go f a cur ++ split_ws_go f b [].
  Proof.
    induction a as [|y a IH]; intros x b cur Hx; cbn [app split_ws_go].
    - rewrite Hx. destruct cur; reflexivity.
    - destruct (f y).
      + destruct cur; cbn [app]; rewrite IH by assumption; reflexivity.
      + apply IH; assumption.
  Qed.

  Lemma split_ws_app_sep : forall a x b, f x = true ->
    split_ws f (a ++ x :: b) = split_ws f a ++ split_ws f b.
  Proof. intros. unfold split_ws. apply split_ws_go_app_sep; assumption. Qed.

  Lemma split_ws_cons_sep : forall x b, f x = true -> split_ws f (x :: b) = split_ws f b.
  Proof. intros x b Hx. apply (split_ws_app_sep [] x b Hx). Qed.

  Lemma split_ws_nil : split_ws f [] = [].
  Proof. reflexivity. Qed.

  (* trailing whitespace contributes nothing *)
  Lemma split_ws_go_app_ws : forall t a cur, forallb f t = true ->
    split_ws_go f (a ++ t) cur = split_ws_go f a cur.
  Proof.
    induction t as [|x t IH]; intros a cur Ht.
    - rewrite app_nil_r. reflexivity.
    - cbn [forallb] in Ht. apply andb_true_iff in Ht as [Hx Ht].
      rewrite split_ws_go_app_sep by assumption.
      specialize (IH [] [] Ht). cbn [app] in IH. rewrite IH. cbn [split_ws_go]. apply app_nil_r.
  Qed.

  Lemma split_ws_all_ws : forall t, forallb f t = true -> split_ws f t = [].
  Proof. intros t Ht. apply (split_ws_go_app_ws t [] [] Ht). Qed.

  Lemma lstrip_decomp : forall s, exists pre, s = pre ++ lstrip_by f s /\ forallb f pre = true.
  Proof.
    induction s as [|x s IH]; cbn [lstrip_by].
    - exists []. split; reflexivity.
    - destruct (f x) eqn:E.
      + destruct IH as [pre [H1 H2]]. exists (x :: pre). split.
        * cbn [app]. f_equal. exact H1.
        * cbn [forallb]. rewrite E, H2. reflexivity.
      + exists []. split; reflexivity.
  Qed.

  Lemma forallb_rev : forall l, forallb f (rev l) = forallb f l.
  Proof.
    induction l as [|x l IH]; [reflexivity|].
    cbn [rev forallb]. rewrite forallb_app. cbn [forallb]. rewrite IH.
    destruct (f x), (forallb f l); reflexivity.
  Qed.

  Lemma rstrip_decomp : forall s, exists post, s = rstrip_by f s ++ post /\ forallb f post = true.
  Proof.
    intro s. unfold rstrip_by. destruct (lstrip_decomp (rev s)) as [pre [H1 H2]].
    exists (rev pre). split.
    - rewrite <- rev_app_distr, <- H1, rev_involutive. reflexivity.
    - rewrite forallb_rev. exact H2.
  Qed.

  Lemma split_ws_lstrip : forall s, split_ws f (lstrip_by f s) = split_ws f s.
  Proof.
    induction s as [|x s IH]; [reflexivity|]. cbn [lstrip_by].
    destruct (f x) eqn:E; [|reflexivity]. rewrite IH. symmetry. apply split_ws_cons_sep. exact E.
  Qed.

  Lemma split_ws_rstrip : forall s, split_ws f (rstrip_by f s) = split_ws f s.
  Proof.
    intro s. destruct (rstrip_decomp s) as [post [H1 H2]].
    rewrite H1 at 2. unfold split_ws. rewrite split_ws_go_app_ws by assumption. reflexivity.
  Qed.

  Lemma split_ws_strip : forall s, split_ws f (strip_by f s) = split_ws f s.
  Proof. intro s. unfold strip_by. rewrite split_ws_rstrip. apply split_ws_lstrip. Qed.
End SplitWs.

Lemma linebreak_is_ws : forall x, is_linebreak x = true -> is_str_ws x = true.
Proof.
  intros x H. unfold is_linebreak in H.
  repeat (apply orb_true_iff in H; destruct H as [H|H]);
    apply N.eqb_eq in H; subst x; reflexivity.
Qed.

(* filtering out the lines that are empty after stripping loses nothing *)
Lemma lines_pipeline : forall l,
  flat_map (split_ws is_str_ws) (filter nonempty (map (strip_by is_str_ws) l))
  = flat_map (split_ws is_str_ws) l.
Proof.
  induction l as [|s l IH]; [reflexivity|].
  cbn [map filter flat_map].
  destruct (strip_by is_str_ws s) eqn:E.
  - cbn [nonempty]. rewrite IH. rewrite <- (split_ws_strip is_str_ws s), E. reflexivity.
  - cbn [nonempty flat_map]. rewrite IH. rewrite <- E, split_ws_strip. reflexivity.
Qed.

Lemma splitlines_flat : forall s cur acr, (acr = true -> cur = []) ->
  flat_map (split_ws is_str_ws) (splitlines_go s cur acr) = split_ws is_str_ws (rev cur ++ s).
Proof.
  induction s as [|x s IH]; intros cur acr Hinv; cbn [splitlines_go].
  - rewrite app_nil_r. destruct cur; [reflexivity|]. cbn [flat_map]. apply app_nil_r.
  - destruct (acr && (x =? 10)) eqn:E1.
    + apply andb_true_iff in E1 as [Ha Hx]. apply N.eqb_eq in Hx. subst x.
      rewrite (Hinv Ha). cbn [rev app]. rewrite IH by (intros; reflexivity).
      cbn [rev app]. symmetry. apply split_ws_cons_sep. reflexivity.
    + destruct (is_linebreak x) eqn:E2.
      * cbn [flat_map]. rewrite IH by (intros; reflexivity). cbn [rev app].
        symmetry. apply split_ws_app_sep. apply linebreak_is_ws. exact E2.
      * rewrite IH by (intro Hf; discriminate Hf). cbn [rev]. rewrite <- app_assoc. reflexivity.
Qed.

(* aslist(s) == s.split() for every str s *)
Theorem aslist_str_split_ws : forall s, aslist_str s = split_ws is_str_ws s.
Proof.
  intro s. unfold aslist_str, aslist_of_lines, aslist_cronly_str, splitlines.
  rewrite lines_pipeline. apply (splitlines_flat s [] false). intro H; discriminate H.
Qed.

Theorem aslist_str_app_sep : forall a x b, is_str_ws x = true ->
  aslist_str (a ++ x :: b) = aslist_str a ++ aslist_str b.
Proof. intros. rewrite !aslist_str_split_ws. apply split_ws_app_sep. assumption. Qed.

Theorem aslist_str_cons_sep : forall x b, is_str_ws x = true -> aslist_str (x :: b) = aslist_str b.
Proof. intros. rewrite !aslist_str_split_ws. apply split_ws_cons_sep. assumption. Qed.

(* what repeated --listen options accumulate: "" then "{} {}".format(old, value) *)
Definition accumulated (vs : list str) : str := fold_left (fun acc v => acc ++ [32] ++ v) vs [].

Lemma fold_accumulate : forall vs acc,
  fold_left (fun acc v => acc ++ [32] ++ v) vs acc = acc ++ concat (map (cons 32) vs).
Proof.
  induction vs as [|v vs IH]; intro acc; cbn [fold_left map concat].
  - symmetry. apply app_nil_r.
  - rewrite IH. rewrite <- app_assoc. reflexivity.
Qed.

Lemma aslist_concat_sep : forall vs,
  aslist_str (concat (map (cons 32) vs)) = flat_map aslist_str vs.
Proof.
  induction vs as [|v vs IH]; [reflexivity|].
  cbn [map concat flat_map]. cbn [app].
  rewrite aslist_str_cons_sep by reflexivity.
  destruct vs as [|v2 vs].
  - cbn [map concat flat_map]. rewrite !app_nil_r. reflexivity.
  - cbn [map concat] in *. cbn [app] in *.
    rewrite aslist_str_app_sep by reflexivity.
    rewrite <- IH. rewrite aslist_str_cons_sep by reflexivity. reflexivity.
Qed.

Theorem aslist_accumulated : forall vs, aslist_str (accumulated vs) = flat_map aslist_str vs.
Proof. intro vs. unfold accumulated. rewrite fold_accumulate. cbn [app]. apply aslist_concat_sep. Qed.

Theorem aslist_joined : forall vs, aslist_str (join [32] vs) = flat_map aslist_str vs.
Proof.
  induction vs as [|v vs IH]; [reflexivity|].
  destruct vs as [|v2 vs].
  - cbn [join flat_map]. rewrite app_nil_r. reflexivity.
  - change (join [32] (v :: v2 :: vs)) with (v ++ 32 :: join [32] (v2 :: vs)).
    rewrite aslist_str_app_sep by reflexivity. rewrite IH. reflexivity.
Qed.

(* the keyword value " ".join(vs) and the runner's accumulation of --listen=v1 ... --listen=vn
   denote the same list *)
Theorem aslist_accumulated_joined : forall vs, aslist_str (accumulated vs) = aslist_str (join [32] vs).
Proof. intro vs. rewrite aslist_accumulated, aslist_joined. reflexivity. Qed.

Lemma aslist_accumulated_both : forall vs,
  aslist_str (accumulated vs) = flat_map aslist_str vs
  /\ aslist_str (accumulated vs) = aslist_str (join [32] vs).
Proof. intro vs. split; [apply aslist_accumulated | apply aslist_accumulated_joined]. Qed.

Example aslist_example :
  aslist_str [32; 97; 58; 49; 13; 10; 98; 58; 50; 9; 32; 99; 133; 100] = [[97;58;49]; [98;58;50]; [99]; [100]].
Proof. vm_compute. reflexivity. Qed.   (* " a:1\r\nb:2\t c\x85d" *)
