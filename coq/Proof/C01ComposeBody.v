(* C01, composition, step 2: the body of one message.  What Parser.received
   makes of the rest of the stream once the head has installed a body
   receiver (T2: fixed and chunked), with the consumed-byte count, the 413
   limit on the running count, and the rest of the stream left for the next
   message. *)
From Coq Require Import List NArith ZArith Bool Lia Arith.
From RecordUpdate Require Import RecordUpdate.
From WV Require Import Lib.PyBytes Lib.Regex Gen.GenRegex Model.Receiver Model.UrlSplit Model.Parser Spec.Ref9112.
From WV Require Import Proof.PyBytesFacts Proof.ReceiverTotal Proof.ParserTotal Proof.SplitParser.
From WV Require Import Proof.C01Lib Proof.C01Body Proof.C01ComposeLib.
Import ListNotations.
Local Open Scope N_scope.

(* what the body phase never touches *)
Definition same_head (p q : parser) : Prop :=
  command q = command p /\ request_uri q = request_uri p /\ version q = version p /\
  connection_close q = connection_close p /\ empty q = empty p /\ headers_finished q = headers_finished p.

Lemma same_head_refl p : same_head p p.
Proof. repeat split. Qed.

(* ---------------------------------------------------------------- *)
(* fixed length *)

Lemma zleb_N a b : (Z.of_N a <=? 0 + Z.of_N b)%Z = (a <=? b).
Proof.
  destruct (a <=? b) eqn:E.
  - apply N.leb_le in E. apply Z.leb_le. lia.
  - apply N.leb_gt in E. apply Z.leb_gt. lia.
Qed.

Lemma body_fixed_complete a p k rest :
  completed p = false -> body p = Some (BFixed (fixed_init k)) -> body_bytes_received p = 0%Z ->
  chunked p = false -> 0 < k -> (max_request_body_size a <=? k) = false -> k <= lenN rest ->
  exists q, received a p rest = ROk q (Z.of_N k) /\ same_head p q /\ completed q = true /\ error q = error p
    /\ body q = Some (BFixed {| f_remain := 0; f_buf := firstn (N.to_nat k) rest; f_completed := true |})
    /\ headers q = headers p.
Proof.
  intros Hc Hb Hbb Hch Hk Hmax Hl.
  rewrite (received_body_eq a p _ rest Hc Hb). rewrite (fixed_equiv_complete k rest Hk Hl).
  unfold body_fin. cbv zeta. rewrite Hbb, zleb_N, Hmax. cbn [f_completed]. psimpl. rewrite Hch.
  eexists. split; [reflexivity|]. psimpl. repeat split.
Qed.

Lemma body_fixed_short a p k rest :
  completed p = false -> body p = Some (BFixed (fixed_init k)) -> body_bytes_received p = 0%Z ->
  (max_request_body_size a <=? k) = false -> lenN rest < k ->
  exists q, received a p rest = ROk q (Z.of_nat (length rest)) /\ same_head p q /\ completed q = false.
Proof.
  intros Hc Hb Hbb Hmax Hl.
  rewrite (received_body_eq a p _ rest Hc Hb). rewrite (fixed_equiv_incomplete k rest Hl).
  unfold body_fin. cbv zeta. rewrite Hbb, zleb_N.
  replace (max_request_body_size a <=? lenN rest) with false
    by (symmetry; apply N.leb_gt; apply N.leb_gt in Hmax; lia).
  cbn [f_completed].
  replace (Z.of_N (lenN rest)) with (Z.of_nat (length rest)) by (unfold lenN; lia).
  eexists. split; [reflexivity|]. psimpl. repeat split. exact Hc.
Qed.

(* ---------------------------------------------------------------- *)
(* chunked: the rest of the stream the reference leaves is a suffix *)

Lemma read_trailer_suffix : forall fuel d tr r, read_trailer fuel d tr = Some (Some r) -> exists k, r = skipn k tr.
Proof.
  induction fuel as [|fu IHf]; intros d0 tr r; cbn [read_trailer]; [discriminate|].
  rewrite read_line_find. cbn [rev app].
  destruct (find tr CRLF) as [q|] eqn:Fq; [|discriminate].
  destruct (firstn q tr) as [|c0 l0].
  - intro E. injection E as <-. eauto.
  - destruct (dv_trailer d0).
    + intro E. apply IHf in E as [k ->]. rewrite skipn_skipn'. eauto.
    + destruct (has_crlf_byte (c0 :: l0)); [discriminate|].
      destruct (parse_field_line (c0 :: l0)); [|discriminate].
      intro E. apply IHf in E as [k ->]. rewrite skipn_skipn'. eauto.
Qed.

Lemma read_chunks_suffix : forall rf d s total acc body rest,
  read_chunks rf d s total acc = ChDone body rest -> exists k, rest = skipn k s.
Proof.
  induction rf as [|rf IH]; intros d s total acc body rest; cbn [read_chunks]; [discriminate|].
  rewrite read_line_find. cbn [rev app].
  destruct (find s CRLF) as [pos|] eqn:F; [|discriminate].
  destruct (firstn pos s) as [|c l'].
  - discriminate.
  - destruct (parse_chunk_line (c :: l')) as [[|p]|]; [| |discriminate].
    + destruct (read_trailer (S (length (skipn (pos + 2) s))) d (skipn (pos + 2) s)) as [[r|]|] eqn:Et;
        try discriminate.
      intro E. injection E as _ <-. apply read_trailer_suffix in Et as [k ->]. rewrite skipn_skipn'. eauto.
    + cbv zeta. destruct (Nat.ltb _ _); [discriminate|].
      destruct (skipn (N.to_nat (N.pos p)) (skipn (pos + 2) s)) as [|a0 [|b0 r']] eqn:Es; try discriminate.
      destruct ((a0 =? 13) && (b0 =? 10)); [|discriminate].
      intro E. apply IH in E as [k ->].
      replace r' with (skipn 2 (skipn (N.to_nat (N.pos p)) (skipn (pos + 2) s))) by (rewrite Es; reflexivity).
      rewrite !skipn_skipn'. eauto.
Qed.

(* ---------------------------------------------------------------- *)
(* chunked: Parser.received on the rest of the stream *)

Lemma zleb_N' a b : (Z.of_N a <=? 0 + b)%Z = (a <=? Z.to_N b) \/ (b < 0)%Z.
Proof.
  destruct (Z.ltb_spec b 0); [right; assumption|left].
  destruct (a <=? Z.to_N b) eqn:E.
  - apply N.leb_le in E. apply Z.leb_le. lia.
  - apply N.leb_gt in E. apply Z.leb_gt. lia.
Qed.

Lemma body_chunked a p rest :
  completed p = false -> body p = Some (BChunked chunked_init) -> body_bytes_received p = 0%Z ->
  chunked p = true -> bytes_ok rest ->
  match ref_chunked d_recv rest with
  | ChDone bd rest' =>
      rest' = skipn (length rest - length rest') rest /\ (length rest' <= length rest)%nat /\
      exists q, received a p rest = ROk q (Z.of_nat (length rest - length rest')) /\ same_head p q /\
        completed q = true /\
        if max_request_body_size a <=? lenN rest - lenN rest'
        then error q = Some EBodyTooLarge
        else error q = error p /\
             (exists st, body q = Some (BChunked st) /\ c_buf st = bd) /\
             headers q = hset (headers p) s_CONTENT_LENGTH (to_dec (lenN bd))
  | ChBad ex =>
      exists q n, received a p rest = ROk q n /\ same_head p q /\ completed q = true /\
        exists e, error q = Some e /\ perr_code e = if max_request_body_size a <=? ex then 413 else 400
  | ChIncomplete =>
      exists q, received a p rest = ROk q (Z.of_nat (length rest)) /\ same_head p q /\
        if max_request_body_size a <=? lenN rest
        then completed q = true /\ error q = Some EBodyTooLarge
        else completed q = false
  end.
Proof.
  intros Hc Hb Hbb Hch Hok.
  pose proof (chunked_equiv_dev rest Hok) as A.
  rewrite (received_body_eq a p _ rest Hc Hb).
  destruct (ref_chunked d_recv rest) as [bd rest'|ex|] eqn:ER; cbn [agrees] in A.
  - destruct A as (st & E & Hcomp & Herr & Hbuf).
    pose proof (read_chunks_le _ _ _ _ _ _ _ ER) as Hle.
    destruct (read_chunks_suffix _ _ _ _ _ _ _ ER) as [k Hk].
    split; [apply (skipn_suffix_len _ _ k Hk)|]. split; [exact Hle|].
    rewrite E. unfold body_fin. cbv zeta. rewrite Hbb, Herr, Hcomp.
    replace (Z.of_nat (length rest) - Z.of_nat (length rest'))%Z with (Z.of_nat (length rest - length rest')) by lia.
    replace (Z.of_N (max_request_body_size a) <=? 0 + Z.of_nat (length rest - length rest'))%Z
      with (max_request_body_size a <=? lenN rest - lenN rest').
    2:{ unfold lenN. destruct (max_request_body_size a <=? N.of_nat (length rest) - N.of_nat (length rest')) eqn:E2;
          symmetry; [apply N.leb_le in E2; apply Z.leb_le; lia | apply N.leb_gt in E2; apply Z.leb_gt; lia]. }
    destruct (max_request_body_size a <=? lenN rest - lenN rest').
    + eexists. split; [reflexivity|]. psimpl. repeat split.
    + psimpl. rewrite Hch. eexists. split; [reflexivity|]. psimpl. cbn [body_len]. rewrite Hbuf.
      repeat split. eexists. split; [reflexivity | exact Hbuf].
  - destruct A as (st & e & E & Herr).
    rewrite E. unfold body_fin. cbv zeta. rewrite Hbb, Herr.
    pose proof (chunked_received_err chunked_init rest st _ I E) as CE. rewrite Herr in CE.
    replace (Z.of_nat (length rest) - Z.of_N (lenN rest) + Z.of_N ex)%Z with (Z.of_N ex) by (unfold lenN; lia).
    rewrite zleb_N.
    destruct (max_request_body_size a <=? ex).
    + eexists _, _. split; [reflexivity|]. psimpl. repeat split. exists EBodyTooLarge. split; reflexivity.
    + eexists _, _. split; [reflexivity|]. psimpl. repeat split. exists e. split; [reflexivity|].
      destruct e; try contradiction; reflexivity.
  - destruct A as (st & E & Hcomp & Herr).
    rewrite E. unfold body_fin. cbv zeta. rewrite Hbb, Herr, Hcomp.
    replace (Z.of_N (max_request_body_size a) <=? 0 + Z.of_nat (length rest))%Z
      with (max_request_body_size a <=? lenN rest).
    2:{ unfold lenN. destruct (max_request_body_size a <=? N.of_nat (length rest)) eqn:E2;
          symmetry; [apply N.leb_le in E2; apply Z.leb_le; lia | apply N.leb_gt in E2; apply Z.leb_gt; lia]. }
    destruct (max_request_body_size a <=? lenN rest).
    + eexists. split; [reflexivity|]. psimpl. repeat split.
    + eexists. split; [reflexivity|]. psimpl. repeat split. exact Hc.
Qed.
