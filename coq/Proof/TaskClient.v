(* The client's view of a serialised head (C03): reading the lines back,
   splitting the fields. *)
From Coq Require Import List NArith Bool Lia Arith ZifyBool.
From WV Require Import Lib.PyBytes Gen.GenTables Model.Task Spec.ClientParse
  Proof.TaskLines Proof.TaskHead Proof.TaskChunk.
Import ListNotations.
Local Open Scope N_scope.

Lemma clean_no_cr l : clean l -> no_cr l.
Proof.
  unfold no_cr. induction l as [|x l IH]; intro H; auto.
  apply has_crlf_cons in H as (H1 & H2 & H3). cbn [forallb]. rewrite IH by auto.
  unfold CR in H1. destruct (x =? 13) eqn:E; [lia|reflexivity].
Qed.

(* the client reads back exactly the lines of a terminated block *)
Lemma read_lines_terminated lines rest :
  Forall (fun l => clean l /\ l <> []) lines ->
  forall fuel, (length lines < fuel)%nat ->
  read_lines fuel (terminated lines ++ CRLF ++ rest) = Some (lines, rest).
Proof.
  induction 1 as [|l ls [Hc Hne] Hls IH]; intros fuel Hf.
  - destruct fuel; [simpl in Hf; lia|]. cbn [terminated flat_map List.app read_lines].
    change (CRLF ++ rest) with ([] ++ [13; 10] ++ rest). rewrite read_line_exact by reflexivity. reflexivity.
  - destruct fuel as [|f]; [simpl in Hf; lia|].
    change (terminated (l :: ls)) with ((l ++ CRLF) ++ terminated ls).
    rewrite <- !app_assoc. cbn [read_lines].
    change (l ++ CRLF ++ terminated ls ++ CRLF ++ rest) with (l ++ [13; 10] ++ (terminated ls ++ CRLF ++ rest)).
    rewrite read_line_exact by (apply clean_no_cr; auto).
    destruct l as [|x l]; [congruence|].
    rewrite IH by (simpl in Hf; lia). reflexivity.
Qed.

(* head_text = terminated (head lines) ++ CRLF *)
Lemma head_text_terminated t : head_text t = terminated (head_lines t) ++ CRLF.
Proof. unfold head_text, head_lines. rewrite app_assoc, join_terminated. reflexivity. Qed.

(* name ": " value, as the client splits it: name up to the first colon, value OWS-stripped *)
Definition client_field (h : str * str) : bytes * bytes := (fst h, strip_by is_sp_htab (snd h)).

Definition no_colon (s : str) : Prop := forallb (fun x => negb (x =? 58)) s = true.

Lemma find_first s c rest : forallb (fun x => negb (x =? c)) s = true ->
  find (s ++ c :: rest) [c] = Some (length s).
Proof.
  unfold find. intro H.
  assert (G : forall i, find_from (s ++ c :: rest) [c] i = Some (i + length s)%nat).
  { induction s as [|x s IH]; intro i.
    - cbn [List.app find_from startswith]. rewrite N.eqb_refl. cbn [andb].
      destruct rest; cbn [startswith]; f_equal; simpl; lia.
    - cbn [forallb] in H. apply andb_true_iff in H as [Hx Hs].
      cbn [List.app find_from startswith]. rewrite N.eqb_sym. destruct (x =? c); [discriminate|]. cbn [andb].
      rewrite IH by auto. f_equal. simpl. lia. }
  rewrite G. reflexivity.
Qed.

Lemma lstrip_sp v : lstrip_by is_sp_htab (32 :: v) = lstrip_by is_sp_htab v.
Proof. reflexivity. Qed.

Lemma parse_header_line h : no_colon (fst h) -> parse_field (header_line h) = Some (client_field h).
Proof.
  intro Hn. unfold parse_field, header_line, client_field.
  change (fst h ++ [58; 32] ++ snd h) with (fst h ++ 58 :: (32 :: snd h)).
  rewrite find_first by exact Hn.
  rewrite firstn_app, firstn_all, Nat.sub_diag. cbn [firstn]. rewrite app_nil_r.
  replace (S (length (fst h))) with (length (fst h) + 1)%nat by lia.
  rewrite skipn_app.
  rewrite skipn_all2 by lia. cbn [List.app].
  replace (length (fst h) + 1 - length (fst h))%nat with 1%nat by lia. cbn [skipn].
  unfold strip_by. rewrite lstrip_sp. reflexivity.
Qed.

Lemma parse_header_lines l : Forall (fun h => no_colon (fst h)) l ->
  parse_fields (map header_line l) = Some (map client_field l).
Proof.
  induction 1 as [|h l Hh Hl IH]; [reflexivity|].
  cbn [map parse_fields]. rewrite parse_header_line by auto. rewrite IH. reflexivity.
Qed.
