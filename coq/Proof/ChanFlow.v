(* Proof/ChanFlow.v -- invariants of Model/ChanFlow.v, layer by layer.
   L0 lock discipline; L1 request-queue discipline (the unlocked flush of the I/O
   thread never coexists with an active producer); L2 close flags; L3 byte
   accounting, the C12 bound; (ChanFlowLive.v) release / abort. *)
From Coq Require Import List ZArith Bool Arith Lia.
From WV Require Import Lib.Conc Model.ChanFlow.
Import ListNotations.
Local Open Scope Z_scope.

(* ---- L0: who holds outbuf_lock / requests_lock, with which depth --------- *)

Definition io_holds (pc : iopc) : bool :=
  match pc with
  | IoFlush ML | IoSubL _ | IoRelX | IoNotify | IoRelL => true
  | IoHcTot _ | IoHcConn _ | IoHcNotify _ | IoHcRel _ => true
  | IoHcClose (KFlush ML) => true
  | _ => false
  end.

Definition io_cnt (pc : iopc) : nat :=
  match pc with
  | IoHcTot (KFlush ML) | IoHcConn (KFlush ML) | IoHcNotify (KFlush ML) => 2
  | _ => if io_holds pc then 1 else 0
  end.

Definition io_ok (pc : iopc) : bool :=
  match pc with
  | IoHcAcq (KFlush ML) | IoHcRel (KFlush ML) => false
  | _ => true
  end.

Definition w_holds (pc : wpc) : bool :=
  match pc with
  | WFlush _ _ | WSub _ _ | WFlushExn _ | WFbPullE _ | WFbWaitE _ | WFbPull _ | WFbWait _
  | WAdd _ | WPull | WRel | WRelRaise | WFbRel => true
  | _ => false
  end.

Definition w_cnt (pc : wpc) : nat :=
  match pc with
  | WFlush FW _ | WSub FW _ | WFlushExn FW | WFbPullE FW | WFbWaitE FW | WFbPull FW | WFbWait FW => 2
  | _ => if w_holds pc then 1 else 0
  end.

(* flush_below program points never carry the "after append" context *)
Definition w_ok (pc : wpc) : bool :=
  match pc with
  | WFbPullE FA | WFbWaitE FA | WFbParkedE FA _ | WFbPull FA | WFbWait FA | WFbParked FA _ => false
  | _ => true
  end.

Definition r_io (pc : iopc) : bool :=
  match pc with IoRcvWc _ | IoRcvCwf _ | IoRcvApp _ | IoRcvRel _ => true | _ => false end.
Definition r_w (pc : wpc) : bool :=
  match pc with WCloseCwf | WCloseReq | WCloseRel | WPopPop | WPopConn | WPopRel => true | _ => false end.

Definition L0 (s : state) : Prop :=
  olock s = (if io_holds (io s) then Some TIo else if w_holds (wk s) then Some TW else None)
  /\ ocount s = (if io_holds (io s) then io_cnt (io s) else w_cnt (wk s))
  /\ io_holds (io s) && w_holds (wk s) = false
  /\ rlock s = (if r_io (io s) then Some TIo else if r_w (wk s) then Some TW else None)
  /\ r_io (io s) && r_w (wk s) = false
  /\ io_ok (io s) = true /\ w_ok (wk s) = true.

Ltac inv_some :=
  match goal with
  | H : Some _ = Some _ |- _ => inversion H; subst; clear H
  | H : None = Some _ |- _ => discriminate H
  end.

Ltac split_ifs H :=
  repeat match type of H with
  | context [if ?b then _ else _] => let E := fresh "E" in destruct b eqn:E
  | context [match ?x with _ => _ end] => let E := fresh "E" in destruct x eqn:E
  end.

Ltac ds s := destruct s as [total0 pending0 connected0 will_close0 cwf0 nreq0 olock0 ocount0 rlock0 pulled0 in_map0 sock_closed0 closed_bufs0 reading0 gone0 pending_in0 io0 wk0 wq0 wclose0 cur0 queued0 tailsA0 tailsB0 appended0 wire0 last_write0].

Ltac unf := unfold to_top, wake_w, acq, rel, rdy_r, rdy_w, send_ok, io_flush_done, enter_io_flush, enter_hc, end_service, next_write, goto_append, fb_exit, fb_loop, w_flush_done, enter_flush, set_total, set_pending, set_connected, set_will_close, set_cwf, set_nreq, set_olock, set_ocount, set_rlock, set_pulled, set_in_map, set_sock_closed, set_closed_bufs, set_reading, set_gone, set_pending_in, set_io, set_wk, set_wq, set_wclose, set_cur, set_queued, set_tailsA, set_tailsB, set_appended, set_wire, set_last_write in *.

Lemma L0_init : L0 init.
Proof. unfold L0, init; cbn; repeat split; reflexivity. Qed.
