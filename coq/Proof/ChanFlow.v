(* Proof/ChanFlow.v -- invariants of Model/ChanFlow.v, layer by layer.
   L0 lock discipline; L1 request-queue discipline (the unlocked flush of the I/O
   thread never coexists with an active producer); L2 close flags; L3 byte
   accounting, the C12 bound; (ChanFlowLive.v) release / abort. *)
From Coq Require Import List ZArith Bool Arith Lia.
From WV Require Import Lib.Conc Model.ChanFlow.
Import ListNotations.
Local Open Scope Z_scope.

Global Arguments Z.ltb : simpl never.
Global Arguments Z.leb : simpl never.
Global Arguments Z.eqb : simpl never.
Global Arguments Z.max : simpl never.
Global Arguments Z.min : simpl never.
Global Arguments Z.add : simpl never.
Global Arguments Z.sub : simpl never.
Global Arguments Nat.ltb : simpl never.
Global Arguments Nat.leb : simpl never.
Global Arguments Nat.eqb : simpl never.
Global Arguments Nat.add : simpl never.
Global Arguments nth : simpl never.

(* ---- L0: who holds outbuf_lock / requests_lock, with which depth --------- *)

Definition io_holds (pc : iopc) : bool :=
  match pc with
  | IoFlush | IoSubL _ | IoRelX | IoNotify | IoRelL => true
  | IoHcTot _ | IoHcConn _ | IoHcNotify _ | IoHcRel _ => true
  | IoHcClose KFlush => true
  | _ => false
  end.

Definition io_cnt (pc : iopc) : nat :=
  match pc with
  | IoHcTot KFlush | IoHcConn KFlush | IoHcNotify KFlush => 2
  | _ => if io_holds pc then 1 else 0
  end.

Definition io_ok (pc : iopc) : bool :=
  match pc with
  | IoHcAcq KFlush | IoHcRel KFlush => false
  | _ => true
  end.

Definition w_holds (pc : wpc) : bool :=
  match pc with
  | WFlush _ _ | WSub _ _ | WFlushExn _ | WFbPullE _ | WFbWaitE _ | WFbPull _ | WFbWait _
  | WAdd _ | WPull | WRel | WRelRaise | WFbRel => true
  | _ => false
  end.

Definition w_cnt (pc : wpc) : nat :=
  match pc with
  | WFlush FW _ | WSub FW _ | WFlushExn FW | WFbPullE FW | WFbWaitE FW | WFbPull FW | WFbWait FW => 2
  | _ => if w_holds pc then 1 else 0
  end.

(* flush_below program points never carry the "after append" context *)
Definition w_ok (pc : wpc) : bool :=
  match pc with
  | WFbPullE FA | WFbWaitE FA | WFbParkedE FA _ | WFbPull FA | WFbWait FA | WFbParked FA _ => false
  | _ => true
  end.

Definition L0 (s : state) : Prop :=
  olock s = (if io_holds (io s) then Some TIo else if w_holds (wk s) then Some TW else None)
  /\ ocount s = (if io_holds (io s) then io_cnt (io s) else w_cnt (wk s))
  /\ io_holds (io s) && w_holds (wk s) = false
  /\ io_ok (io s) = true /\ w_ok (wk s) = true.

Ltac inv_some :=
  match goal with
  | H : Some _ = Some _ |- _ => inversion H; subst; clear H
  | H : None = Some _ |- _ => discriminate H
  end.

Ltac split_ifs H :=
  repeat match type of H with
  | context [if ?b then _ else _] => let E := fresh "E" in destruct b eqn:E
  | context [match ?x with _ => _ end] => let E := fresh "E" in destruct x eqn:E
  end.

Ltac arith_goal := match goal with
  | |- (_ <= _)%Z => idtac | |- (_ < _)%Z => idtac | |- @eq Z _ _ => idtac
  | |- (_ <= _)%nat => idtac | |- (_ < _)%nat => idtac | |- @eq nat _ _ => idtac
  | |- False => idtac | |- _ <> _ => idtac end.
Ltac keep_arith := repeat match goal with H : ?T |- _ => lazymatch T with
  | (_ <= _)%Z => fail | (_ < _)%Z => fail | @eq Z _ _ => fail | (_ <> _) => fail
  | (_ <= _)%nat => fail | (_ < _)%nat => fail | @eq nat _ _ => fail | _ => clear H end end.
(* lia on arithmetic goals only, after dropping every non-arithmetic hypothesis (zify is slow on large contexts) *)
Ltac zl := arith_goal; keep_arith; lia.

Ltac b2p := repeat match goal with
  | H : (_ <? _) = true |- _ => apply Z.ltb_lt in H
  | H : (_ <? _) = false |- _ => apply Z.ltb_ge in H
  | H : (_ <=? _) = true |- _ => apply Z.leb_le in H
  | H : (_ <=? _) = false |- _ => apply Z.leb_gt in H
  | H : (_ =? _) = true |- _ => apply Z.eqb_eq in H
  | H : (_ =? _) = false |- _ => apply Z.eqb_neq in H
  | H : (_ <? _)%nat = true |- _ => apply Nat.ltb_lt in H
  | H : (_ <? _)%nat = false |- _ => apply Nat.ltb_ge in H
  | H : (_ =? _)%nat = true |- _ => apply Nat.eqb_eq in H
  | H : (_ =? _)%nat = false |- _ => apply Nat.eqb_neq in H
  | H : _ && _ = true |- _ => apply andb_true_iff in H; destruct H
  | H : negb _ = true |- _ => apply negb_true_iff in H
  end.

Ltac ds s := destruct s as [total0 pending0 connected0 will_close0 cwf0 nreq0 olock0 ocount0 rlock0 pulled0 in_map0 sock_closed0 closed_bufs0 reading0 gone0 pending_in0 io0 wk0 wq0 wclose0 cur0 queued0 tlc0 trel0 tailsA0 tailsB0 appended0 wire0 last_write0].

Ltac unf := unfold enter_fb, hand_over, enter_flush, w_flush_done, fb_loop, fb_exit, goto_append, next_write, end_service, enter_io_flush, io_flush_done, enter_hc, to_top, wake_w, acq, rel, send_ok, rdy_r, rdy_w in *.

Lemma L0_init : L0 init.
Proof. unfold L0, init; cbn; repeat split; reflexivity. Qed.

Lemma w_cnt0 pc : w_holds pc = false -> w_cnt pc = 0%nat.
Proof. destruct pc; cbn; try discriminate; try reflexivity; destruct c; cbn; congruence. Qed.

Lemma io_cnt0 pc : io_holds pc = false -> io_cnt pc = 0%nat.
Proof. destruct pc; cbn; try discriminate; try reflexivity; try (destruct k; cbn; congruence). Qed.

Ltac rw := repeat match goal with
  | H : w_holds ?x = _ |- context [w_holds ?x] => rewrite H
  | H : io_holds ?x = _ |- context [io_holds ?x] => rewrite H
  end.
Ltac gifs := repeat match goal with |- context [if ?b then _ else _] => let E := fresh "G" in destruct b eqn:E end.
Ltac hifs := repeat match goal with H : (if ?b then _ else _) = _ |- _ => let E := fresh "G" in destruct b eqn:E; try discriminate H end.
Ltac dk := repeat match goal with k : hck |- _ => destruct k | c : fctx |- _ => destruct c end.
Ltac fin0 := dk; hifs; try discriminate; unfold L0; unf; cbn; rw; gifs; cbn; rw; repeat split;
  try reflexivity; try assumption; try congruence;
  try (rewrite w_cnt0 by assumption; reflexivity);
  try (rewrite io_cnt0 by assumption; reflexivity);
  try (cbn in *; congruence).

Lemma L0_step_io p s r res s' l : L0 s -> step_io p s r res = Some (s', l) -> L0 s'.
Proof.
  intros H E. ds s. unfold L0 in H. cbn in H.
  destruct H as (Ho & Hc & Hx & Hio & Hw).
  unfold step_io in E. cbn [ChanFlow.io] in E.
  destruct io0; cbn in Ho, Hc, Hx, Hio; subst olock0 ocount0.
  all: cbn in E; unf; cbn in E.
  all: split_ifs E; try discriminate; try inv_some.
  all: fin0.
Qed.

Lemma L0_step_w p s r s' l : L0 s -> step_w p s r = Some (s', l) -> L0 s'.
Proof.
  intros H E. ds s. unfold L0 in H. cbn in H.
  destruct H as (Ho & Hc & Hx & Hio & Hw).
  unfold step_w in E. cbn [ChanFlow.wk] in E.
  destruct wk0; cbn in Ho, Hc, Hx, Hw; subst olock0 ocount0.
  all: cbn in E; unf; cbn in E.
  all: split_ifs E; try discriminate; try inv_some.
  all: fin0.
Qed.

Lemma L0_step p s c s' l : L0 s -> step p s c = Some (s', l) -> L0 s'.
Proof.
  destruct c as [r res|r|n|a]; cbn [step].
  - apply L0_step_io.
  - apply L0_step_w.
  - intros H E. ds s. unfold step_tail in E. cbn in E.
    split_ifs E; try discriminate; inv_some; exact H.
  - intros H E. ds s. destruct a; cbn in E; split_ifs E; try discriminate; inv_some; exact H.
Qed.

Theorem L0_all p sched : L0 (run p sched).
Proof. unfold run. apply invariant_rule. apply L0_init. intros; eapply L0_step; eauto. Qed.
