(* C01, composition over the stream: small facts used by C01ComposeHead /
   C01ComposeBody / C01Compose.  Substrings, the hypothesis on request-targets,
   the cut of the observation list, header dicts with unique keys, stripping. *)
From Coq Require Import List NArith ZArith Bool Lia Arith.
From RecordUpdate Require Import RecordUpdate.
From WV Require Import Lib.PyBytes Lib.Regex Model.Receiver Model.UrlSplit Model.Parser Model.ChanSeq Spec.Ref9112.
From WV Require Import Proof.C01Lib Proof.C01Body Proof.C01Block Proof.C01Head Proof.C01Framing Proof.C01Observe.
Import ListNotations.
Local Open Scope N_scope.

(* ---------------------------------------------------------------- *)
(* substrings *)

Definition infix (t s : bytes) : Prop := exists pre post, s = pre ++ t ++ post.

Lemma infix_refl s : infix s s.
Proof. exists [], []. rewrite app_nil_r. reflexivity. Qed.

Lemma infix_trans a b c : infix a b -> infix b c -> infix a c.
Proof.
  intros (p1 & q1 & ->) (p2 & q2 & ->). exists (p2 ++ p1), (q1 ++ q2).
  rewrite <- !app_assoc. reflexivity.
Qed.

Lemma infix_app_l t a b : infix t a -> infix t (a ++ b).
Proof. intros (p & q & ->). exists p, (q ++ b). rewrite <- !app_assoc. reflexivity. Qed.

Lemma infix_app_r t a b : infix t b -> infix t (a ++ b).
Proof. intros (p & q & ->). exists (a ++ p), q. rewrite <- !app_assoc. reflexivity. Qed.

Lemma infix_mid t a b : infix t (a ++ t ++ b).
Proof. exists a, b. reflexivity. Qed.

Lemma infix_prefix t b : infix t (t ++ b).
Proof. exists [], b. reflexivity. Qed.

Lemma infix_skipn k s : infix (skipn k s) s.
Proof. exists (firstn k s), []. rewrite app_nil_r. symmetry. apply firstn_skipn. Qed.

Lemma infix_firstn k s : infix (firstn k s) s.
Proof. exists [], (skipn k s). symmetry. apply firstn_skipn. Qed.

Lemma infix_cons x s : infix s (x :: s).
Proof. exists [x], []. rewrite app_nil_r. reflexivity. Qed.

Lemma infix_drop_while f s : infix (drop_while f s) s.
Proof.
  induction s as [|x s IH]; cbn [drop_while]; [apply infix_refl|].
  destruct (f x); [|apply infix_refl]. eapply infix_trans; [exact IH | apply infix_cons].
Qed.

Lemma infix_rev a b : infix a b -> infix (rev a) (rev b).
Proof. intros (p & q & ->). exists (rev q), (rev p). rewrite !rev_app_distr, <- app_assoc. reflexivity. Qed.

Lemma infix_trim f s : infix (trim f s) s.
Proof.
  unfold trim. eapply infix_trans; [apply infix_rev, infix_drop_while|].
  rewrite rev_involutive. apply infix_drop_while.
Qed.

Lemma infix_memb x t s : infix t s -> memb x s = false -> memb x t = false.
Proof.
  intros (p & q & ->). unfold memb. rewrite !existsb_app. intro H.
  apply orb_false_iff in H as [_ H]. apply orb_false_iff in H as [H _]. exact H.
Qed.

Lemma infix_bytes_ok t s : infix t s -> bytes_ok s -> bytes_ok t.
Proof.
  intros (p & q & ->) H. apply bytes_ok_app in H as [_ H]. apply bytes_ok_app in H as [H _]. exact H.
Qed.

(* ---------------------------------------------------------------- *)
(* the hypothesis on request-targets: on every substring of the stream that
   has the shape of a request-target, urllib's urlsplit (as modelled) decides
   what RFC 3986 decides (the reference's target_policy) and the model of
   urlsplit is defined (no bracketed host handed to the ipaddress module) *)

Definition uri_ok (t : bytes) : Prop :=
  split_uri t <> SUnmodelled /\ (split_uri t = SBadURI <-> target_policy t = false).

Definition targets_ok (s : bytes) : Prop :=
  forall t, infix t s -> target_shape t = true -> uri_ok t.

Lemma targets_ok_infix s' s : infix s' s -> targets_ok s -> targets_ok s'.
Proof. intros Hi H t Ht. apply H. eapply infix_trans; eauto. Qed.

(* ---------------------------------------------------------------- *)
(* cut *)

Lemma cut_app_open : forall l1 l2 L, cut l1 = (L, false) ->
  cut (l1 ++ l2) = (L ++ fst (cut l2), snd (cut l2)).
Proof.
  induction l1 as [|o l1 IH]; intros l2 L; cbn [cut app].
  - intro H. injection H as <-. destruct (cut l2); reflexivity.
  - destruct (closes o); [discriminate|].
    destruct (cut l1) as [r c] eqn:E. intro H. injection H as <- ->.
    rewrite (IH l2 r eq_refl). reflexivity.
Qed.

Lemma cut_app_closed : forall l1 l2 L, cut l1 = (L, true) -> cut (l1 ++ l2) = (L, true).
Proof.
  induction l1 as [|o l1 IH]; intros l2 L; cbn [cut app]; [discriminate|].
  destruct (closes o); [auto|].
  destruct (cut l1) as [r c] eqn:E. intro H. injection H as <- ->.
  rewrite (IH l2 r eq_refl). reflexivity.
Qed.

Lemma cut_closing o : closes o = true -> cut [o] = ([o], true).
Proof. intro H. cbn [cut]. rewrite H. reflexivity. Qed.

Lemma cut_open1 o : closes o = false -> cut [o] = ([o], false).
Proof. intro H. cbn [cut]. rewrite H. reflexivity. Qed.

(* ---------------------------------------------------------------- *)
(* dicts with unique keys: combined field sections *)

Fixpoint uniq (d : hdict) : Prop :=
  match d with
  | [] => True
  | (k, _) :: r => hget r k = None /\ uniq r
  end.

Lemma hget_combine_add_other d k v k' : beqb k' k = false -> hget (combine_add d k v) k' = hget d k'.
Proof.
  intro Hk. induction d as [|[k0 v0] d IH]; cbn [combine_add hget].
  - rewrite Hk. reflexivity.
  - destruct (beqb k k0) eqn:E; cbn [hget].
    + apply beqb_eq in E. subst k0. rewrite Hk. reflexivity.
    + rewrite IH. reflexivity.
Qed.

Lemma beqb_sym a b : beqb a b = beqb b a.
Proof.
  destruct (beqb a b) eqn:E; symmetry.
  - apply beqb_eq in E. subst. apply beqb_refl.
  - destruct (beqb b a) eqn:E'; auto. apply beqb_eq in E'. subst. rewrite beqb_refl in E. discriminate.
Qed.

Lemma uniq_combine_add d k v : uniq d -> uniq (combine_add d k v).
Proof.
  induction d as [|[k0 v0] d IH]; cbn [combine_add uniq]; [auto|].
  intros [H1 H2]. destruct (beqb k k0) eqn:E; cbn [uniq].
  - auto.
  - split; [|auto]. rewrite hget_combine_add_other; auto. rewrite beqb_sym. exact E.
Qed.

Lemma uniq_fold_add : forall fs d, uniq d -> uniq (fold_add d fs).
Proof.
  induction fs as [|[n v] fs IH]; intros d H; cbn [fold_add fold_left]; auto.
  apply IH. apply uniq_combine_add. exact H.
Qed.

Lemma uniq_combined fs : uniq (combined fs).
Proof. apply (uniq_fold_add fs []). exact I. Qed.

Lemma hget_hpop_same d k : uniq d -> hget (hpop d k) k = None.
Proof.
  induction d as [|[k0 v0] d IH]; cbn [hpop hget uniq]; auto.
  intros [H1 H2]. destruct (beqb k k0) eqn:E.
  - apply beqb_eq in E. subst. exact H1.
  - cbn [hget]. rewrite E. auto.
Qed.

Lemma uniq_hpop d k : uniq d -> uniq (hpop d k).
Proof.
  induction d as [|[k0 v0] d IH]; cbn [hpop uniq]; auto.
  intros [H1 H2]. destruct (beqb k k0) eqn:E; auto.
  cbn [uniq]. split; auto.
  destruct (beqb k0 k) eqn:E'.
  - apply beqb_eq in E'. subst. rewrite beqb_refl in E. discriminate.
  - rewrite hget_hpop_other; auto.
Qed.

Lemma hset_absent d k v : hget d k = None -> hset d k v = d ++ [(k, v)].
Proof.
  induction d as [|[k0 v0] d IH]; cbn [hget hset app]; auto.
  destruct (beqb k k0); [discriminate|]. intro H. rewrite IH; auto.
Qed.

Lemma hpop_remove d k : hpop d k = remove d k.
Proof. induction d as [|[k0 v0] d IH]; cbn [hpop remove]; [reflexivity|]. rewrite IH. reflexivity. Qed.

(* ---------------------------------------------------------------- *)
(* stripping *)

Lemma strip_leading_crlf_step f s :
  strip_leading_crlf (S f) s =
  match s with
  | x :: y :: s' => if (x =? 13) && (y =? 10) then strip_leading_crlf f s' else s
  | _ => s
  end.
Proof.
  destruct s as [|x [|y s']]; [reflexivity| |].
  - destruct x as [|p]; [reflexivity|].
    do 4 (try (destruct p as [p|p|]; try reflexivity)); reflexivity.
  - destruct ((x =? 13) && (y =? 10)) eqn:C.
    + apply andb_true_iff in C as [C1 C2]. apply N.eqb_eq in C1. apply N.eqb_eq in C2. subst. reflexivity.
    + destruct x as [|p]; [reflexivity|].
      do 4 (try (destruct p as [p|p|]; try reflexivity)); try reflexivity.
      destruct y as [|q]; [reflexivity|].
      do 4 (try (destruct q as [q|q|]; try reflexivity)); try reflexivity. discriminate C.
Qed.

(* a non-empty line without CRLF, followed by CRLF: nothing to strip *)
Lemma strip_crlf_line f l X : l <> [] -> crlf_free l = true ->
  strip_leading_crlf f (l ++ CRLF ++ X) = l ++ CRLF ++ X.
Proof.
  intros Hne Hf. destruct f as [|f]; [reflexivity|]. rewrite strip_leading_crlf_step.
  destruct l as [|x [|y l']]; [congruence| |].
  - cbn [app CRLF]. replace ((x =? 13) && (13 =? 10)) with false by (rewrite andb_false_r; reflexivity).
    reflexivity.
  - cbn [app]. cbn [crlf_free] in Hf. apply andb_true_iff in Hf as [Hf _].
    apply negb_true_iff in Hf. rewrite Hf. reflexivity.
Qed.

Lemma lstrip_app_keep f a b : lstrip_by f a <> [] -> lstrip_by f (a ++ b) = lstrip_by f a ++ b.
Proof.
  induction a as [|x a IH]; cbn [lstrip_by app]; [congruence|].
  destruct (f x); auto.
Qed.

Lemma lstrip_app_all f a b : lstrip_by f a = [] -> lstrip_by f (a ++ b) = lstrip_by f b.
Proof.
  induction a as [|x a IH]; cbn [lstrip_by app]; auto.
  destruct (f x); [auto|discriminate].
Qed.

Lemma lstrip_head f s : match lstrip_by f s with x :: _ => f x = false | [] => True end.
Proof.
  induction s as [|x s IH]; cbn [lstrip_by]; auto. destruct (f x) eqn:E; auto.
Qed.

Lemma lstrip_idem f s : lstrip_by f (lstrip_by f s) = lstrip_by f s.
Proof.
  pose proof (lstrip_head f s) as H. destruct (lstrip_by f s) as [|x r]; [reflexivity|].
  cbn [lstrip_by]. rewrite H. reflexivity.
Qed.

Lemma rstrip_idem f s : rstrip_by f (rstrip_by f s) = rstrip_by f s.
Proof. unfold rstrip_by. rewrite rev_involutive, lstrip_idem. reflexivity. Qed.

(* rstrip keeps a first byte that is not stripped *)
Lemma lstrip_snoc_keep f s x : f x = false -> exists r, lstrip_by f (s ++ [x]) = r ++ [x].
Proof.
  intro Hx. induction s as [|y s IH]; cbn [app lstrip_by].
  - rewrite Hx. exists []. reflexivity.
  - destruct (f y); [exact IH|]. exists (y :: s). reflexivity.
Qed.

Lemma rstrip_cons_keep f x s : f x = false -> exists r, rstrip_by f (x :: s) = x :: r.
Proof.
  intro Hx. unfold rstrip_by. cbn [rev].
  destruct (lstrip_snoc_keep f (rev s) x Hx) as (r & ->).
  rewrite rev_app_distr. cbn. eauto.
Qed.

Lemma crlf_free_app_l a b : crlf_free (a ++ b) = true -> crlf_free a = true.
Proof.
  induction a as [|x a IH]; cbn [app crlf_free]; auto.
  intro H. apply andb_true_iff in H as [H1 H2]. rewrite (IH H2), andb_true_r.
  destruct a as [|y a']; cbn [app] in *.
  - rewrite andb_false_r. reflexivity.
  - exact H1.
Qed.

Lemma crlf_free_app_r a b : crlf_free (a ++ b) = true -> crlf_free b = true.
Proof.
  induction a as [|x a IH]; cbn [app crlf_free]; auto.
  intro H. apply andb_true_iff in H as [_ H2]. auto.
Qed.

Lemma crlf_free_infix t s : infix t s -> crlf_free s = true -> crlf_free t = true.
Proof. intros (p & q & ->) H. apply crlf_free_app_r in H. apply crlf_free_app_l in H. exact H. Qed.

Lemma rstrip_prefix f s : exists post, s = rstrip_by f s ++ post.
Proof.
  unfold rstrip_by.
  assert (H : forall l, exists pre, l = pre ++ lstrip_by f l).
  { induction l as [|x l [pre IH]]; cbn [lstrip_by]; [exists []; reflexivity|].
    destruct (f x); [exists (x :: pre); cbn; f_equal; exact IH | exists []; reflexivity]. }
  destruct (H (rev s)) as [pre E]. exists (rev pre).
  rewrite <- rev_app_distr, <- E, rev_involutive. reflexivity.
Qed.

Lemma rstrip_nonempty f x s : f x = false -> rstrip_by f (x :: s) <> [].
Proof. intro H. destruct (rstrip_cons_keep f x s H) as (r & ->). discriminate. Qed.

(* ---------------------------------------------------------------- *)
(* misc *)

Lemma skipn_suffix_len {A} (r s : list A) k : r = skipn k s -> r = skipn (length s - length r) s.
Proof.
  intros ->. destruct (Nat.le_gt_cases k (length s)) as [H|H].
  - rewrite skipn_length. replace (length s - (length s - k))%nat with k by lia. reflexivity.
  - rewrite (skipn_all2 s) by lia. cbn [length]. rewrite Nat.sub_0_r, skipn_all. reflexivity.
Qed.

Lemma nonempty_length {A} (s : list A) : s <> [] -> (1 <= length s)%nat.
Proof. destruct s; [congruence|cbn; lia]. Qed.
