(* C01, composition: the model's "unmodelled" result (a request-target with a
   bracketed host, which urlsplit hands to the ipaddress module) cannot occur
   under the hypothesis on request-targets; the statement for a whole feed;
   a decidable sufficient condition for the hypothesis (no '[' / ']' in the
   stream); the inputs on which C01_full_dev itself fails; every
   segmentation (with C02). *)
From Coq Require Import List NArith ZArith Bool Lia Arith.
From RecordUpdate Require Import RecordUpdate.
From WV Require Import Lib.PyBytes Lib.Regex Gen.GenRegex Model.Receiver Model.UrlSplit Model.Parser Model.ChanSeq Spec.Ref9112.
From WV Require Import Proof.PyBytesFacts Proof.ReceiverTotal Proof.ParserTotal Proof.ParserTotalChan
  Proof.SplitParser Proof.SplitChan.
From WV Require Import Proof.C01Lib Proof.C01Body Proof.C01Block Proof.C01Boundary Proof.C01Head Proof.C01Framing
  Proof.C01Close Proof.C01ReqLine Proof.C01ParseHeader Proof.C01Observe Proof.C01ComposeLib Proof.C01ComposeHead
  Proof.C01ComposeBody Proof.C01Compose.
Import ListNotations.
Local Open Scope N_scope.

(* ---------------------------------------------------------------- *)
(* where "unmodelled" can come from *)

Lemma infix_strip_crlf : forall f s, infix (strip_leading_crlf f s) s.
Proof.
  induction f as [|f IH]; intro s; [apply infix_refl|].
  rewrite strip_leading_crlf_step. destruct s as [|x [|y s']]; try apply infix_refl.
  destruct ((x =? 13) && (y =? 10)); [|apply infix_refl].
  eapply infix_trans; [apply IH|]. exists [x; y], []. rewrite app_nil_r. reflexivity.
Qed.

Lemma infix_rstrip f s : infix (rstrip_by f s) s.
Proof. destruct (rstrip_prefix f s) as [post E]. rewrite E at 2. apply infix_prefix. Qed.

Lemma ph_unmodelled a p hp : bytes_ok hp -> snd (parse_header a p hp) = PSUnmodelled ->
  exists t, infix t hp /\ target_shape t = true /\ split_uri t = SUnmodelled.
Proof.
  intros Hok. rewrite parse_header_eq.
  destruct (find hp CRLF) as [idx|]; [|discriminate]. cbv zeta.
  set (fl := rstrip_by is_reqline_ws (firstn idx hp)).
  destruct (has_cr_or_lf fl) eqn:Hcr; [discriminate|].
  destruct (get_header_lines _); [discriminate|].
  destruct (add_header_lines _ l) as [[e h0]|h1]; [discriminate|].
  assert (Ifl : infix fl hp) by (eapply infix_trans; [apply infix_rstrip | apply infix_firstn]).
  assert (Hokfl : bytes_ok fl) by (eapply infix_bytes_ok; eauto).
  rewrite has_cr_or_lf_ref in Hcr.
  pose proof (request_line_equiv fl Hokfl Hcr) as RE.
  destruct (crack_first_line fl) as [[[cmd uri] ver]|]; [|discriminate].
  destruct (beqb cmd [] && beqb uri [] && beqb ver []); [discriminate|].
  destruct (shape_facts fl cmd uri ver RE) as (_ & Iu & Hu).
  unfold ph_mid. destruct (split_uri uri) as [sc nl pa qu fr| | |] eqn:Su; try discriminate.
  - cbv zeta. destruct (ph_v11 _ h1 ver _) as [p2 [e|]]; [discriminate|].
    intro H. exfalso. exact (proj2 (ph_tail_no_escape p2) H).
  - intros _. exists uri. split; [eapply infix_trans; eauto|]. auto.
Qed.

Lemma received_init_unmodelled a data : bytes_ok data -> received a parser_init data = RUnmodelled ->
  exists t, infix t data /\ target_shape t = true /\ split_uri t = SUnmodelled.
Proof.
  intros Hok. change parser_init with (P0 []). rewrite (received_head_eq a [] data). cbn [app].
  destruct (find_double_newline data) as [i|].
  - unfold head_found. cbv zeta. destruct (_ <=? _).
    + destruct (head_431_fields a (N.of_nat i) (Z.of_N (lenN data) - (Z.of_nat (length data) - Z.of_nat i))%Z) as (p & -> & _).
      discriminate.
    + set (hp := lstrip_by is_reqline_ws (strip_leading_crlf (length data) (firstn i data))).
      assert (Ihp : infix hp data).
      { unfold hp. rewrite lstrip_drop_while. eapply infix_trans; [apply infix_drop_while|].
        eapply infix_trans; [apply infix_strip_crlf | apply infix_firstn]. }
      destruct hp as [|h0 hs] eqn:Ehp; [discriminate|]. rewrite <- Ehp in *.
      pose proof (ph_unmodelled a (P0 [] <| header_bytes_received := N.of_nat i |>) hp
                    (infix_bytes_ok _ _ Ihp Hok)) as U.
      destruct (parse_header a _ hp) as [p1 [| | |]]; try discriminate.
      intros _. destruct (U eq_refl) as (t & It & Ht & St). exists t. split; [eapply infix_trans; eauto|]. auto.
  - unfold head_more. cbv zeta. destruct (_ <=? _); [|discriminate].
    destruct (head_431_fields a (header_bytes_received (P0 []) + lenN data) (Z.of_N (lenN data))) as (p & -> & _).
    discriminate.
Qed.

Lemma received_body_ok a p br data : completed p = false -> body p = Some br ->
  received a p data <> RUnmodelled /\
  forall q n, received a p data = ROk q n -> completed q = true \/ exists br', body q = Some br'.
Proof.
  intros Hc Hb. rewrite (received_body_eq a p br data Hc Hb).
  assert (K : forall br' n e d, body_fin a p br' n e d <> RUnmodelled /\
            forall q m, body_fin a p br' n e d = ROk q m -> completed q = true \/ exists b, body q = Some b).
  { intros br' n e d. unfold body_fin. cbv zeta.
    destruct (_ <=? _)%Z; [split; [discriminate|intros q m H; injection H as <- <-; left; reflexivity]|].
    destruct e; [split; [discriminate|intros q m H; injection H as <- <-; left; reflexivity]|].
    destruct d.
    - psimpl. destruct (chunked p); (split; [discriminate|intros q m H; injection H as <- <-; left; reflexivity]).
    - split; [discriminate|]. intros q m H; injection H as <- <-. right. psimpl. eauto. }
  destruct br as [f|c0].
  - destruct (fixed_received f data). apply K.
  - destruct (chunked_received c0 data) as [[c1 n]|]; [apply K|]. split; [discriminate|discriminate].
Qed.

Lemma received_init_shape a data q n : received a parser_init data = ROk q n ->
  completed q = true \/ (exists br, body q = Some br) \/ n = Z.of_nat (length data).
Proof.
  change parser_init with (P0 []). rewrite (received_head_eq a [] data). cbn [app].
  destruct (find_double_newline data) as [i|].
  - unfold head_found. cbv zeta. destruct (_ <=? _).
    + destruct (head_431_fields a (N.of_nat i) (Z.of_N (lenN data) - (Z.of_nat (length data) - Z.of_nat i))%Z) as (p & -> & Pc & _).
      intro H. injection H as <- <-. auto.
    + destruct (lstrip_by _ _); [intro H; injection H as <- <-; left; reflexivity|].
      destruct (parse_header a _ _) as [p1 [| | |]]; try discriminate.
      * destruct (body p1) as [bb1|] eqn:Hb1.
        -- destruct (_ && _); intro H; injection H as <- <-; [left; reflexivity|].
           right; left. psimpl. eauto.
        -- destruct (_ && _); intro H; injection H as <- <-; left; reflexivity.
      * intro H; injection H as <- <-; left; reflexivity.
  - unfold head_more. cbv zeta. destruct (_ <=? _).
    + destruct (head_431_fields a (header_bytes_received (P0 []) + lenN data) (Z.of_N (lenN data))) as (p & -> & Pc & _).
      intro H. injection H as <- <-. auto.
    + intro H. injection H as <- <-. right; right. unfold lenN. lia.
Qed.

Definition in_body (c : chan) : Prop :=
  match request c with
  | None => True
  | Some r => completed r = false /\ exists br, body r = Some br
  end.

Lemma loop_modelled a : forall f c data, bytes_ok data -> targets_ok data -> in_body c ->
  received_loop f a c data <> CUnmodelled.
Proof.
  induction f as [|f IH]; intros c data Hok Htg Hin; [discriminate|].
  rewrite loop_unfold. unfold cur. unfold in_body in Hin.
  assert (Hnext : forall r1 n, received a (match request c with Some r => r | None => parser_init end) data = ROk r1 n ->
            (completed r1 = true \/ (exists br, body r1 = Some br) \/ n = Z.of_nat (length data)) ->
            cont f a (post c r1) data n <> CUnmodelled).
  { intros r1 n _ Hs. unfold cont. destruct (Z.leb_spec (Z.of_nat (length data)) n); [discriminate|].
    apply IH.
    - apply bytes_ok_skipn; auto.
    - eapply targets_ok_infix; [apply infix_skipn | exact Htg].
    - unfold in_body. destruct (post_facts c r1) as (r2 & Hx & _ & Hrq). rewrite Hrq.
      destruct (completed r1) eqn:Hc1; [exact I|].
      destruct (eqx_fields r2 r1 Hx) as (_ & Xc & Xb & _). rewrite Xc, Xb. split; auto.
      destruct Hs as [Hs|[Hs|Hs]]; [congruence | exact Hs | lia]. }
  destruct (request c) as [r|].
  - destruct Hin as (Hc & br & Hb). destruct (received_body_ok a r br data Hc Hb) as (NU & Hs).
    destruct (received a r data) as [r1 n| | |] eqn:E; try discriminate; [|congruence].
    apply (Hnext r1 n eq_refl). destruct (Hs r1 n eq_refl); auto.
  - destruct (received a parser_init data) as [r1 n| | |] eqn:E; try discriminate.
    + apply (Hnext r1 n eq_refl). eapply received_init_shape; eauto.
    + exfalso. destruct (received_init_unmodelled a data Hok E) as (t & It & Ht & St).
      destruct (Htg t It Ht) as [NU _]. exact (NU St).
Qed.

Lemma feed_modelled a s : bytes_ok s -> targets_ok s -> exists c', feed a chan_init [s] = COk c'.
Proof.
  intros Hok Htg.
  destruct (feed_total a [s] chan_init (wf_chan_init a)) as [E|(c' & E & _)]; [|eauto].
  exfalso. revert E. cbn [feed]. unfold chan_received.
  destruct s as [|x s']; [discriminate|]. cbn [will_close close_when_flushed chan_init orb].
  pose proof (loop_modelled a (S (length (x :: s'))) chan_init (x :: s') Hok Htg I) as NU.
  destruct (received_loop (S (length (x :: s'))) a chan_init (x :: s')); try discriminate. congruence.
Qed.

(* T4 for one read, without reference to the run *)
Theorem compose_whole a s :
  0 < max_request_body_size a -> bytes_ok s -> targets_ok s ->
  observe (feed a chan_init [s]) = Some (map ref_view (ref_run_dev (cfg_of a) all_devs s)).
Proof.
  intros Hmb Hok Htg. destruct (feed_modelled a s Hok Htg) as (c' & E). rewrite E.
  apply compose_one_read; auto.
Qed.

(* ---------------------------------------------------------------- *)
(* a decidable sufficient condition for the hypothesis on request-targets:
   the stream contains neither '[' nor ']' *)

Lemma memb_In x l : memb x l = true <-> In x l.
Proof.
  unfold memb. rewrite existsb_exists. split.
  - intros (y & Hy & E). apply N.eqb_eq in E. subst. exact Hy.
  - intro H. exists x. split; auto. apply N.eqb_refl.
Qed.

Lemma memb_incl x a b : incl a b -> memb x b = false -> memb x a = false.
Proof.
  intros Hi Hb. destruct (memb x a) eqn:E; auto. apply memb_In in E. apply Hi in E. apply memb_In in E. congruence.
Qed.

Lemma incl_lstrip f s : incl (lstrip_by f s) s.
Proof.
  induction s as [|x s IH]; cbn [lstrip_by]; [apply incl_refl|].
  destruct (f x); [apply incl_tl; exact IH | apply incl_refl].
Qed.

Lemma incl_skipn' k (s : bytes) : incl (skipn k s) s.
Proof. rewrite <- (firstn_skipn k s) at 2. apply incl_appr, incl_refl. Qed.

Lemma incl_firstn' k (s : bytes) : incl (firstn k s) s.
Proof. rewrite <- (firstn_skipn k s) at 2. apply incl_appl, incl_refl. Qed.

Lemma incl_take_until f s : incl (take_until f s) s.
Proof.
  induction s as [|x s IH]; cbn [take_until]; [apply incl_refl|].
  destruct (f x); [intros y []|]. apply incl_cons; [left; reflexivity | apply incl_tl; exact IH].
Qed.

Section CutAt.
Variable f : N -> bool.
Fixpoint cut_go (s acc : bytes) : bytes * bytes :=
  match s with
  | [] => (rev acc, [])
  | x :: s' => if f x then (rev acc, s) else cut_go s' (x :: acc)
  end.

Lemma cut_at_go s : cut_at f s = cut_go s [].
Proof. reflexivity. Qed.

Lemma cut_go_incl : forall s acc, incl (fst (cut_go s acc)) (rev acc ++ s).
Proof.
  induction s as [|x s IH]; intro acc; cbn [cut_go].
  - cbn [fst]. rewrite app_nil_r. apply incl_refl.
  - destruct (f x).
    + cbn [fst]. apply incl_appl, incl_refl.
    + specialize (IH (x :: acc)). cbn [rev] in IH. rewrite <- app_assoc in IH. exact IH.
Qed.

Lemma cut_at_incl s : incl (fst (cut_at f s)) s.
Proof. rewrite cut_at_go. exact (cut_go_incl s []). Qed.
End CutAt.

Lemma urlsplit_cases t :
  (existsb (fun x => 128 <=? x) t = true /\ urlsplit t = UUnicodeError) \/
  (existsb (fun x => 128 <=? x) t = false /\
   ((exists nl, incl nl t /\
       ((memb 91 nl = true /\ memb 93 nl = true /\ urlsplit t = UUnmodelled) \/
        (memb 91 nl <> memb 93 nl /\ urlsplit t = UValueError))) \/
    exists sc n p q f, urlsplit t = UOk sc n p q f)).
Proof.
  unfold urlsplit. destruct (existsb (fun x => 128 <=? x) t); [left; auto|]. right. split; auto.
  set (url2 := filter (fun x => negb ((x =? 9) || (x =? 13) || (x =? 10))) (lstrip_by is_c0_or_space t)).
  assert (I2 : incl url2 t) by (unfold url2; eapply incl_tran; [apply incl_filter | apply incl_lstrip]).
  match goal with
  | |- context [match ?m with (scheme, url3) => _ end] =>
    match m with context [find url2 [58]] => destruct m as [scheme url3] eqn:Esch end
  end.
  assert (I3 : incl url3 url2).
  { destruct (find url2 [58]) as [[|i']|]; try (injection Esch as _ <-; apply incl_refl).
    pose proof (incl_skipn' (S (S i')) url2) as Isk.
    set (sk := skipn (S (S i')) url2) in *. clearbody sk.
    destruct url2 as [|c0 u2]; [injection Esch as _ <-; apply incl_refl|].
    destruct (UrlSplit.is_alpha c0 && _); injection Esch as _ <-; [exact Isk | apply incl_refl]. }
  destruct (startswith url3 [47; 47]).
  - cbv zeta. pose proof (cut_at_incl (fun x => (x =? 47) || (x =? 63) || (x =? 35)) (skipn 2 url3)) as Ic.
    destruct (cut_at (fun x => (x =? 47) || (x =? 63) || (x =? 35)) (skipn 2 url3)) as [nl u]. cbn [fst] in Ic.
    assert (In' : incl nl t).
    { eapply incl_tran; [exact Ic|]. eapply incl_tran; [apply incl_skipn'|]. eapply incl_tran; eauto. }
    destruct (memb 91 nl) eqn:E1, (memb 93 nl) eqn:E2; cbn [andb orb N.eqb Pos.eqb].
    + left. exists nl. split; [exact In'|]. left. split; [exact E1|]. split; [exact E2 | reflexivity].
    + left. exists nl. split; [exact In'|]. right. split; [congruence|reflexivity].
    + left. exists nl. split; [exact In'|]. right. split; [congruence|reflexivity].
    + right. destruct (find u [35]); [destruct (find (firstn n u) [63]) | destruct (find u [63])]; repeat eexists.
  - cbn [N.eqb]. right.
    destruct (find url3 [35]); [destruct (find (firstn n url3) [63]) | destruct (find url3 [63])]; repeat eexists.
Qed.

Lemma split_uri_unmodelled_bracket t : split_uri t = SUnmodelled -> memb 91 t = true /\ memb 93 t = true.
Proof.
  unfold split_uri. destruct (beqb (firstn 2 t) [47; 47]).
  - destruct (existsb _ t); [discriminate|].
    destruct (find t [35]); [destruct (find (firstn n t) [63]) | destruct (find t [63])]; discriminate.
  - destruct (urlsplit_cases t) as [[_ E]|[_ [(nl & Inl & [(H1 & H2 & E)|(_ & E)])|(sc & n & p & q & f & E)]]];
      rewrite E; try discriminate.
    intros _. split; apply memb_In; apply Inl; apply memb_In; assumption.
Qed.

Lemma split_uri_nobracket t : memb 91 t = false -> memb 93 t = false ->
  (split_uri t = SBadURI <-> existsb (fun x => 128 <=? x) t = true).
Proof.
  intros H1 H2. unfold split_uri. destruct (beqb (firstn 2 t) [47; 47]).
  - destruct (existsb _ t); [tauto|].
    destruct (find t [35]); [destruct (find (firstn n t) [63]) | destruct (find t [63])]; split; discriminate.
  - destruct (urlsplit_cases t) as [[Ex E]|[Ex [(nl & Inl & [(A & B & E)|(A & E)])|(sc & n & p & q & f & E)]]];
      rewrite E, Ex.
    + tauto.
    + rewrite (memb_incl 91 nl t Inl H1) in A. discriminate.
    + exfalso. apply A. rewrite (memb_incl 91 nl t Inl H1), (memb_incl 93 nl t Inl H2). reflexivity.
    + split; discriminate.
Qed.

Lemma forallb_ascii t : forallb (fun x => x <? 128) t = negb (existsb (fun x => 128 <=? x) t).
Proof.
  induction t as [|x t IH]; [reflexivity|]. cbn [forallb existsb]. rewrite IH, negb_orb. f_equal.
  rewrite N.ltb_antisym. reflexivity.
Qed.

Lemma auth_pat (l : bytes) (g : bytes -> bytes) au :
  match l with 58 :: 47 :: 47 :: r => Some (g r) | _ => None end = Some au ->
  exists r, l = 58 :: 47 :: 47 :: r /\ au = g r.
Proof.
  destruct l as [|x1 l]; [discriminate|].
  destruct x1 as [|p1]; [discriminate|].
  do 6 (try (destruct p1 as [p1|p1|]; try discriminate)).
  destruct l as [|x2 l]; [discriminate|].
  destruct x2 as [|p2]; [discriminate|].
  do 6 (try (destruct p2 as [p2|p2|]; try discriminate)).
  destruct l as [|x3 r]; [discriminate|].
  destruct x3 as [|p3]; [discriminate|].
  do 6 (try (destruct p3 as [p3|p3|]; try discriminate)).
  intro H. injection H as <-. eauto.
Qed.

Lemma target_policy_nobracket t : memb 91 t = false -> memb 93 t = false ->
  target_policy t = negb (existsb (fun x => 128 <=? x) t).
Proof.
  intros H1 H2. unfold target_policy. rewrite forallb_ascii.
  destruct (authority_of t) as [au|] eqn:Ea; [|apply andb_true_r].
  assert (Ia : incl au t).
  { unfold authority_of in Ea. destruct (take_until (fun x => x =? 58) t) as [|c sch]; [discriminate|].
    destruct (is_alpha c && forallb is_scheme_ch (c :: sch)); [|discriminate].
    pose proof (incl_skipn' (length (c :: sch)) t) as Is.
    apply auth_pat in Ea as (r & El & ->). rewrite El in Is.
    eapply incl_tran; [apply incl_take_until|].
    intros y Hy. apply Is. right; right; right. exact Hy. }
  rewrite (memb_incl 91 au t Ia H1), (memb_incl 93 au t Ia H2). apply andb_true_r.
Qed.

Theorem targets_ok_nobracket s : memb 91 s = false -> memb 93 s = false -> targets_ok s.
Proof.
  intros H1 H2 t It _.
  pose proof (infix_memb 91 t s It H1) as T1. pose proof (infix_memb 93 t s It H2) as T2.
  split.
  - intro E. apply split_uri_unmodelled_bracket in E as [E _]. congruence.
  - rewrite (split_uri_nobracket t T1 T2), (target_policy_nobracket t T1 T2).
    destruct (existsb _ t); cbn [negb]; split; auto; discriminate.
Qed.

Corollary compose_whole_nobracket a s :
  0 < max_request_body_size a -> bytes_ok s -> memb 91 s = false -> memb 93 s = false ->
  observe (feed a chan_init [s]) = Some (map ref_view (ref_run_dev (cfg_of a) all_devs s)).
Proof. intros Hmb Hok H1 H2. apply compose_whole; auto. apply targets_ok_nobracket; auto. Qed.

(* ---------------------------------------------------------------- *)
(* every segmentation (with C02): however the stream is divided into reads,
   the events of the I/O side up to and including the first refused request
   are those of the single read, and those are the requests whose observation
   is the reference's list.  ([SplitParser.obs true] erases carry fields and
   identifies 413 with a chunk error inside a chunked body: F12 / kf_c02_1.) *)

Theorem compose_any_segmentation a reads :
  0 < max_request_body_size a -> bytes_ok (concat reads) -> targets_ok (concat reads) ->
  SplitChan.cut (snd (feed_tr true a chan_init reads))
  = SplitChan.cut (snd (feed_tr true a chan_init [concat reads]))
  /\ exists c' t, feed_tr true a chan_init [concat reads] = (COk c', t)
       /\ map (SplitParser.obs true) (requests c') = flat_map ev_reqs t
       /\ observe (COk c') = Some (map ref_view (ref_run_dev (cfg_of a) all_devs (concat reads))).
Proof.
  intros Hmb Hok Htg. split; [apply split_vs_whole|].
  destruct (feed_modelled a (concat reads) Hok Htg) as (c' & E).
  pose proof (feed_tr_fst true a [concat reads] chan_init) as F. rewrite E in F.
  destruct (feed_tr true a chan_init [concat reads]) as [res t] eqn:ET. cbn [fst] in F. subst res.
  exists c', t. split; [reflexivity|]. split.
  - destruct (feed_trace true a [concat reads] chan_init c' t ET) as (_ & R). exact R.
  - apply compose_one_read; auto.
Qed.

(* ---------------------------------------------------------------- *)
(* C01_full_dev as stated (no side conditions) is false of the model: the
   three classes of inputs outside the theorem above *)

Definition adj_mb0 : adj :=
  {| max_request_header_size := 262144; max_request_body_size := 0; adj_url_scheme := [104;116;116;112] |}.

(* "POST / HTTP/1.1\r\nTransfer-Encoding: chunked\r\n\r\n" with max_request_body_size = 0:
   the reference refuses (413: the limit is reached with 0 body bytes), the code waits for a byte *)
Definition mb0_stream : bytes :=
  [80;79;83;84;32;47;32;72;84;84;80;47;49;46;49;13;10;84;114;97;110;115;102;101;114;45;69;110;99;111;100;105;110;103;58;32;99;104;117;110;107;101;100;13;10;13;10].

(* "GET \x01http://[/ HTTP/1.1\r\n\r\n": a C0 control byte in the target.  Until /repo fix (control
   characters refused in the request-target) this was a witness against the unconditional statement:
   urlsplit stripped the leading C0 control and then saw an unbalanced '[' -> 400, while the reference
   (target = any octets but SP CR LF) delivered it.  Now the request-line gate and the reference both
   refuse the line: the stream is kept as a regression example of agreement. *)
Definition c0_target_stream : bytes :=
  [71;69;84;32;1;104;116;116;112;58;47;47;91;47;32;72;84;84;80;47;49;46;49;13;10;13;10].

(* "GET http://[::1]/ HTTP/1.1\r\n\r\n": a bracketed host, which Model/UrlSplit.v does not model *)
Definition bracket_stream : bytes :=
  [71;69;84;32;104;116;116;112;58;47;47;91;58;58;49;93;47;32;72;84;84;80;47;49;46;49;13;10;13;10].

Lemma full_dev_refuted_zero_body_limit :
  observe (feed adj_mb0 chan_init [mb0_stream]) = Some [OIncomplete] /\
  map ref_view (ref_run_dev (cfg_of adj_mb0) all_devs mb0_stream) = [ORefuse 413].
Proof. split; vm_compute; reflexivity. Qed.

Lemma full_dev_c0_target_agree :
  observe (feed adj0 chan_init [c0_target_stream]) = Some [ORefuse 400] /\
  map ref_view (ref_run_dev (cfg_of adj0) all_devs c0_target_stream) = [ORefuse 400].
Proof. split; vm_compute; reflexivity. Qed.

Lemma full_dev_unmodelled_bracket : feed adj0 chan_init [bracket_stream] = CUnmodelled.
Proof. vm_compute. reflexivity. Qed.

Lemma full_dev_refuted : ~ C01_full_dev.
Proof.
  intro H. specialize (H adj_mb0 mb0_stream).
  assert (Hok : bytes_ok mb0_stream) by (unfold bytes_ok; repeat constructor).
  specialize (H Hok). destruct full_dev_refuted_zero_body_limit as [A B].
  assert (X : Some [OIncomplete] = Some [ORefuse 413]).
  { rewrite <- A, <- B. exact H. }
  discriminate X.
Qed.

(* non-vacuity of the hypotheses: the example stream of C01Observe (a chunked
   POST with extension and trailer, a Content-Length PUT, a partial GET) *)
Example compose_example :
  0 < max_request_body_size adj0 /\ bytes_ok example_stream /\ targets_ok example_stream /\
  length (ref_run_dev (cfg_of adj0) all_devs example_stream) = 3%nat.
Proof.
  split; [reflexivity|]. split; [unfold bytes_ok; repeat constructor|]. split; [|vm_compute; reflexivity].
  apply targets_ok_nobracket; vm_compute; reflexivity.
Qed.

(* against the strict reference, outside F10: wherever the deviation switch
   makes no difference on this stream *)
Corollary compose_whole_strict a s :
  0 < max_request_body_size a -> bytes_ok s -> targets_ok s ->
  ref_run (cfg_of a) s = ref_run_dev (cfg_of a) all_devs s ->
  observe (feed a chan_init [s]) = Some (map ref_view (ref_run (cfg_of a) s)).
Proof. intros Hmb Hok Htg E. rewrite E. apply compose_whole; auto. Qed.
