(* T2 -- bodies.  The fixed receiver delivers exactly the next n bytes; the
   chunked receiver run on a stream in ONE call yields the same decoded bytes,
   the same end offset and the same verdict as the reference's recursive
   descent decoder. *)
From Coq Require Import List NArith ZArith Bool Lia Arith.
From WV Require Import Lib.PyBytes Lib.Regex Gen.GenRegex Spec.Grammar Proof.C10Gates.
From WV Require Import Model.Receiver Spec.Ref9112 Proof.C01Lib.
Import ListNotations.
Local Open Scope N_scope.

(* ---------------------------------------------------------------- *)
(* fixed length *)

Theorem fixed_equiv_complete : forall n s, 0 < n -> n <= lenN s ->
  fixed_received (fixed_init n) s =
  ({| f_remain := 0; f_buf := firstn (N.to_nat n) s; f_completed := true |}, Z.of_N n).
Proof.
  intros n s Hn Hl. unfold fixed_received, fixed_init. cbn [f_remain f_buf f_completed].
  replace (n <? 1) with false by (symmetry; apply N.ltb_ge; lia).
  replace (n <=? lenN s) with true by (symmetry; apply N.leb_le; lia). reflexivity.
Qed.

Theorem fixed_equiv_incomplete : forall n s, lenN s < n ->
  fixed_received (fixed_init n) s =
  ({| f_remain := n - lenN s; f_buf := s; f_completed := false |}, Z.of_N (lenN s)).
Proof.
  intros n s Hl. unfold fixed_received, fixed_init. cbn [f_remain f_buf f_completed].
  replace (n <? 1) with false by (symmetry; apply N.ltb_ge; lia).
  replace (n <=? lenN s) with false by (symmetry; apply N.leb_gt; lia). reflexivity.
Qed.

(* ---------------------------------------------------------------- *)
(* find(b"\r\n") and the reference's line reader *)

Lemma find_from_shift s p i : find_from s p (S i) = option_map S (find_from s p i).
Proof.
  revert i; induction s as [|x s IH]; intro i; cbn [find_from].
  - destruct (startswith [] p); reflexivity.
  - destruct (startswith (x :: s) p); [reflexivity|]. apply IH.
Qed.

Lemma find_cons x s p : find (x :: s) p =
  if startswith (x :: s) p then Some O else option_map S (find s p).
Proof. unfold find. cbn [find_from]. rewrite find_from_shift. reflexivity. Qed.

Lemma startswith_crlf s : startswith s CRLF =
  match s with x :: y :: _ => (x =? 13) && (y =? 10) | _ => false end.
Proof.
  destruct s as [|x [|y r]]; cbn [startswith CRLF]; auto.
  - rewrite andb_false_r. reflexivity.
  - rewrite startswith_nil, andb_true_r, (N.eqb_sym 13 x), (N.eqb_sym 10 y). reflexivity.
Qed.

Lemma read_line_find : forall s acc,
  read_line s acc = match find s CRLF with
                    | Some pos => Some (rev acc ++ firstn pos s, skipn (pos + 2) s)
                    | None => None
                    end.
Proof.
  induction s as [|x r IH]; intro acc.
  - reflexivity.
  - rewrite find_cons, startswith_crlf. cbn [read_line].
    destruct r as [|y r'].
    + reflexivity.
    + destruct ((x =? 13) && (y =? 10)).
      * cbn. rewrite app_nil_r. reflexivity.
      * rewrite IH. destruct (find (y :: r') CRLF) as [pos|]; cbn [option_map]; [|reflexivity].
        cbn [firstn rev]. rewrite <- app_assoc. reflexivity.
Qed.

Lemma find_crlf_zero s : find s CRLF = Some O <-> startswith s CRLF = true.
Proof.
  destruct s as [|x s]; [cbn; split; discriminate|].
  rewrite find_cons. destruct (startswith (x :: s) CRLF); [tauto|].
  destruct (find s CRLF); cbn; split; discriminate.
Qed.

Lemma find_some_lt s p pos : p <> [] -> find s p = Some pos -> (pos + length p <= length s)%nat.
Proof.
  intro Hp. revert pos. induction s as [|x s IH]; intro pos.
  - destruct p; [congruence|]. cbn. discriminate.
  - rewrite find_cons. destruct (startswith (x :: s) p) eqn:E.
    + intro H. injection H as <-.
      clear IH. revert E. generalize (x :: s) as l. induction p as [|c p IHp]; intros l E; [congruence|].
      destruct l as [|y l]; [discriminate|]. cbn [startswith] in E. apply andb_true_iff in E as [_ E].
      destruct p as [|c' p'].
      * cbn. lia.
      * specialize (IHp ltac:(discriminate) l E). cbn in *. lia.
    + destruct (find s p) as [q|]; cbn; [|discriminate]. intro H. injection H as <-.
      specialize (IH q eq_refl). cbn. lia.
Qed.

(* ---------------------------------------------------------------- *)
(* one control line: chunk-size [ chunk-ext ] *)

Lemma hexdig_ranges x : x < 256 -> in_ranges x [(48,57); (65,70); (97,102)] = is_hexdig x.
Proof.
  apply (byte_table (fun x => in_ranges x [(48,57); (65,70); (97,102)]) is_hexdig). vm_compute. reflexivity.
Qed.

Lemma gate_chunk_size_ref sz : bytes_ok sz ->
  matches gate_chunk_size sz = nonempty sz && forallb is_hexdig sz.
Proof.
  intro Hok. apply iff_bool. rewrite matches_correct, (chunk_size_exact sz Hok).
  unfold spec_chunk_size, HEXDIG. rewrite Lang_plus_cls.
  rewrite (forallb_ext_in _ is_hexdig).
  - destruct sz as [|x sz].
    + cbn. split; [intros [A _]; congruence | discriminate].
    + cbn [nonempty andb]. split; [intros [_ B]; exact B | intro B; split; [discriminate | exact B]].
  - intros x Hx. apply hexdig_ranges. unfold bytes_ok in Hok. rewrite Forall_forall in Hok. auto.
Qed.

Lemma gate_chunk_ext_ref e : bytes_ok e -> matches gate_chunk_ext e = matches spec_chunk_ext e.
Proof.
  intro Hok. apply iff_bool. rewrite !matches_correct. apply chunk_ext_exact. exact Hok.
Qed.

Lemma take_until_none c s : forallb (fun x => negb (x =? c)) s = true ->
  take_until (fun x => x =? c) s = s.
Proof.
  induction s as [|x s IH]; cbn [take_until forallb]; auto. intro H.
  apply andb_true_iff in H as [H1 H2]. destruct (x =? c); [discriminate|]. rewrite IH; auto.
Qed.

Lemma take_until_some c pre post : forallb (fun x => negb (x =? c)) pre = true ->
  take_until (fun x => x =? c) (pre ++ c :: post) = pre.
Proof.
  induction pre as [|x pre IH]; cbn [take_until forallb app].
  - rewrite N.eqb_refl. reflexivity.
  - intro H. apply andb_true_iff in H as [H1 H2]. destruct (x =? c); [discriminate|]. rewrite IH; auto.
Qed.

Lemma skipn_length_app {A} (a b : list A) : skipn (length a) (a ++ b) = b.
Proof. induction a; cbn; auto. Qed.

Lemma firstn_length_app {A} (a b : list A) : firstn (length a) (a ++ b) = a.
Proof. induction a; cbn; auto. f_equal. auto. Qed.

Lemma verdict_ref line : bytes_ok line ->
  parse_chunk_line line = match control_line_verdict line with
                          | LVSize n => Some n
                          | _ => None
                          end.
Proof.
  intro Hok. unfold parse_chunk_line, control_line_verdict, find.
  destruct (first_occurrence 59 line) as [H|(pre & post & -> & H)].
  - rewrite find_from_one_none by exact H. rewrite take_until_none by exact H.
    rewrite skipn_all. cbn [negb].
    rewrite (gate_chunk_size_ref line Hok).
    change (matches spec_chunk_ext []) with true. rewrite andb_true_r.
    destruct (nonempty line && forallb is_hexdig line); reflexivity.
  - rewrite find_from_one_some by exact H. rewrite take_until_some by exact H.
    cbn [Nat.add]. rewrite skipn_length_app, firstn_length_app.
    apply bytes_ok_app in Hok as [Ho1 Ho2].
    rewrite (gate_chunk_size_ref pre Ho1), (gate_chunk_ext_ref _ Ho2).
    destruct (matches spec_chunk_ext (59 :: post)); cbn [negb]; [|rewrite andb_false_r; reflexivity].
    rewrite andb_true_r. destruct (nonempty pre && forallb is_hexdig pre); reflexivity.
Qed.

(* ---------------------------------------------------------------- *)
(* CRLF CRLF search: find_double_newline and the structural scan *)

Lemma lf_cr_lf_cons y r : lf_cr_lf (y :: r) = (y =? 10) && startswith r CRLF.
Proof.
  rewrite startswith_crlf. destruct r as [|b [|c r']]; cbn [lf_cr_lf].
  - rewrite andb_false_r. reflexivity.
  - rewrite andb_false_r. reflexivity.
  - rewrite andb_assoc. reflexivity.
Qed.

Lemma startswith_crlfcrlf x r : startswith (x :: r) CRLFCRLF = (x =? 13) && lf_cr_lf r.
Proof.
  destruct r as [|a [|b [|c r']]]; cbn [startswith CRLFCRLF lf_cr_lf];
    rewrite ?andb_false_r; auto.
  rewrite startswith_nil, andb_true_r, (N.eqb_sym 13 x), (N.eqb_sym 10 a), (N.eqb_sym 13 b), (N.eqb_sym 10 c).
  rewrite !andb_assoc. reflexivity.
Qed.

Lemma adc_fdn : forall s n,
  after_double_crlf s n = option_map (fun p => n + N.of_nat p) (find_double_newline s).
Proof.
  unfold find_double_newline.
  induction s as [|x r IH]; intro n; [reflexivity|].
  cbn [after_double_crlf]. rewrite find_cons, startswith_crlfcrlf.
  destruct ((x =? 13) && lf_cr_lf r).
  - cbn. f_equal.
  - rewrite IH. destruct (find r CRLFCRLF); cbn; [f_equal; lia|reflexivity].
Qed.

Lemma adc_shift s n : after_double_crlf s n = option_map (fun p => n + p) (after_double_crlf s 0).
Proof.
  rewrite !adc_fdn. destruct (find_double_newline s); cbn; [f_equal|reflexivity].
Qed.

Lemma head_crlf_false x r : startswith (x :: r) CRLF = false -> (x =? 13) && lf_cr_lf r = false.
Proof.
  rewrite startswith_crlf. destruct r as [|y r']; [intros _; apply andb_false_r|].
  rewrite lf_cr_lf_cons. intro H. destruct (x =? 13), (y =? 10); cbn in *; auto; discriminate.
Qed.

Lemma adc_none : forall tr n, find tr CRLF = None -> after_double_crlf tr n = None.
Proof.
  induction tr as [|x r IH]; intros n; [reflexivity|].
  rewrite find_cons. destruct (startswith (x :: r) CRLF) eqn:E; [discriminate|].
  destruct (find r CRLF) eqn:F; [discriminate|]. intros _.
  cbn [after_double_crlf]. rewrite (head_crlf_false _ _ E). apply IH. reflexivity.
Qed.

Lemma adc_find_crlf : forall tr pos n, find tr CRLF = Some pos ->
  after_double_crlf tr n =
  if startswith (skipn (pos + 2) tr) CRLF then Some (n + N.of_nat pos + 4)
  else after_double_crlf (skipn (pos + 2) tr) (n + N.of_nat pos + 2).
Proof.
  induction tr as [|x r IH]; intros pos n; [discriminate|].
  rewrite find_cons. destruct (startswith (x :: r) CRLF) eqn:E.
  - intro H. injection H as <-. rewrite startswith_crlf in E.
    destruct r as [|y r']; [discriminate|]. apply andb_true_iff in E as [E1 E2].
    cbn [Nat.add skipn after_double_crlf]. rewrite lf_cr_lf_cons, E1, E2. cbn [andb].
    destruct (startswith r' CRLF).
    + f_equal. lia.
    + cbn [after_double_crlf]. apply N.eqb_eq in E2. subst y. cbn [N.eqb Pos.eqb andb].
      f_equal. lia.
  - destruct (find r CRLF) as [pos'|] eqn:F; [|discriminate]. intro H. injection H as <-.
    cbn [after_double_crlf]. rewrite (head_crlf_false _ _ E).
    rewrite (IH pos' (n + 1) eq_refl). cbn [Nat.add skipn].
    destruct (startswith (skipn (pos' + 2) r) CRLF); f_equal; lia.
Qed.

Lemma skipn_skipn' {A} : forall a b (l : list A), skipn a (skipn b l) = skipn (b + a) l.
Proof.
  intros a b. induction b as [|b IH]; intro l; [reflexivity|].
  destruct l; cbn [skipn Nat.add]; [destruct a; reflexivity|]. apply IH.
Qed.

(* the trailer section when trailer lines are not validated (F10): everything
   up to the first empty line *)
Lemma trailer_dev : forall fuel d tr, dv_trailer d = true -> (length tr < fuel)%nat ->
  read_trailer fuel d tr =
  if startswith tr CRLF then Some (Some (skipn 2 tr))
  else match after_double_crlf tr 0 with
       | Some p => Some (Some (skipn (N.to_nat p) tr))
       | None => None
       end.
Proof.
  induction fuel as [|f IH]; intros d tr Hd Hl; [lia|].
  cbn [read_trailer]. rewrite read_line_find. cbn [rev app].
  destruct (find tr CRLF) as [pos|] eqn:F.
  - pose proof (find_some_lt tr CRLF pos ltac:(discriminate) F) as Hlen. cbn [length CRLF] in Hlen.
    destruct pos as [|pos'].
    + apply find_crlf_zero in F as F'. rewrite F'. cbn [firstn Nat.add]. reflexivity.
    + assert (Hsw : startswith tr CRLF = false).
      { destruct (startswith tr CRLF) eqn:E; auto. apply find_crlf_zero in E. congruence. }
      rewrite Hsw. destruct tr as [|x tr']; [cbn in Hlen; lia|]. cbn [firstn]. rewrite Hd.
      rewrite IH; auto.
      2:{ rewrite skipn_length. lia. }
      rewrite (adc_find_crlf _ _ 0 F).
      destruct (startswith (skipn (S pos' + 2) (x :: tr')) CRLF).
      * f_equal. f_equal. rewrite skipn_skipn'. f_equal. lia.
      * rewrite (adc_shift _ (0 + N.of_nat (S pos') + 2)).
        destruct (after_double_crlf (skipn (S pos' + 2) (x :: tr')) 0); cbn [option_map]; [|reflexivity].
        f_equal. f_equal. rewrite skipn_skipn'. f_equal. lia.
  - assert (Hsw : startswith tr CRLF = false).
    { destruct (startswith tr CRLF) eqn:E; auto. apply find_crlf_zero in E. congruence. }
    rewrite Hsw, (adc_none _ _ F). reflexivity.
Qed.

(* ---------------------------------------------------------------- *)
(* the phases of ChunkedReceiver.received, one iteration each *)

Definition mkst rem val ctl ce allr tr comp err buf : chunked_rcv :=
  {| chunk_remainder := rem; validate_chunk_end := val; control_line := ctl; chunk_end := ce;
     all_chunks_received := allr; trailer := tr; c_completed := comp; c_error := err; c_buf := buf |}.

Definition st_ctl (acc : bytes) : chunked_rcv := mkst 0 false [] [] false [] false None acc.

Lemma loop_nil fuel st orig : chunked_loop fuel st [] orig = Some (st, orig).
Proof. destruct fuel; reflexivity. Qed.

Lemma loop_step f st x s orig :
  chunked_loop (S f) st (x :: s) orig =
  match chunked_iter st (x :: s) orig with
  | Continue st' s' => chunked_loop f st' s' orig
  | Break st' => Some (st', orig)
  | Return st' v => Some (st', v)
  end.
Proof. reflexivity. Qed.

Lemma loop_step' f st s orig : s <> [] ->
  chunked_loop (S f) st s orig =
  match chunked_iter st s orig with
  | Continue st' s' => chunked_loop f st' s' orig
  | Break st' => Some (st', orig)
  | Return st' v => Some (st', v)
  end.
Proof. destruct s; [congruence|reflexivity]. Qed.

Lemma iter_ctl acc s orig :
  chunked_iter (st_ctl acc) s orig =
  match find s CRLF with
  | None => Continue (mkst 0 false s [] false [] false None acc) []
  | Some pos =>
    match firstn pos s with
    | [] => Break (mkst 0 false [] [] true [] false (Some EInvalidChunkSize) acc)
    | line =>
      match control_line_verdict line with
      | LVBadExt => Break (mkst 0 false [] [] true [] false (Some EInvalidChunkExt) acc)
      | LVBadSize => Break (mkst 0 false [] [] true [] false (Some EInvalidChunkSize) acc)
      | LVSize sz =>
        if 0 <? sz then Continue (mkst sz false [] [] false [] false None acc) (skipn (pos + 2) s)
        else Continue (mkst 0 false [] [] true [] false None acc) (skipn (pos + 2) s)
      end
    end
  end.
Proof.
  unfold chunked_iter, st_ctl, mkst. cbn -[find control_line_verdict firstn skipn N.ltb].
  destruct (find s CRLF) as [pos|]; [|reflexivity].
  destruct (firstn pos s) as [|c l]; [reflexivity|].
  destruct (control_line_verdict (c :: l)); try reflexivity.
Qed.

Lemma iter_data sz acc s orig : 0 < sz ->
  chunked_iter (mkst sz false [] [] false [] false None acc) s orig =
  let w := firstn (N.to_nat sz) s in
  Continue (mkst (sz - lenN w) (sz - lenN w =? 0) [] [] false [] false None (acc ++ w)) (skipn (length w) s).
Proof.
  intro H. unfold chunked_iter, mkst. cbn -[firstn skipn N.ltb N.sub N.eqb lenN].
  replace (0 <? sz) with true by (symmetry; apply N.ltb_lt; exact H).
  cbn -[firstn skipn N.sub N.eqb lenN].
  destruct (sz - lenN (firstn (N.to_nat sz) s) =? 0); reflexivity.
Qed.

Lemma iter_validate acc s orig :
  chunked_iter (mkst 0 true [] [] false [] false None acc) s orig =
  match find s CRLF with
  | None => if (length s <? 2)%nat then Continue (mkst 0 true [] s false [] false None acc) []
            else Continue (mkst 0 false [] [] true [] false (Some EChunkNotTerminated) acc) s
  | Some O => Continue (st_ctl acc) (skipn 2 s)
  | Some (S _) => Continue (mkst 0 false [] [] true [] false (Some EChunkNotTerminated) acc) s
  end.
Proof.
  unfold chunked_iter, st_ctl, mkst. cbn -[find skipn Nat.ltb].
  destruct (find s CRLF) as [[|p]|]; try reflexivity.
Qed.

Lemma iter_trailer err acc s orig :
  chunked_iter (mkst 0 false [] [] true [] false err acc) s orig =
  if startswith s CRLF
  then Return (mkst 0 false [] [] true [] true err acc) (orig - (Z.of_nat (length s) - 2))%Z
  else match find_double_newline s with
       | None => Continue (mkst 0 false [] [] true s false err acc) []
       | Some pos => Return (mkst 0 false [] [] true (firstn pos s) true err acc)
                            (orig - (Z.of_nat (length s) - Z.of_nat pos))%Z
       end.
Proof.
  unfold chunked_iter, mkst. cbn -[startswith find_double_newline firstn CRLF].
  destruct (startswith s CRLF); [reflexivity|].
  destruct (find_double_newline s); reflexivity.
Qed.

(* ---------------------------------------------------------------- *)
(* T2 chunked *)

(* the receiver as it is: trailers not validated (F10) *)
Definition d_recv : devs := {| dv_trailer := true |}.

Definition agrees (r : chunked_result) (m : option (chunked_rcv * Z)) (orig : Z) (total : N) : Prop :=
  match r with
  | ChDone body rest =>
    exists st, m = Some (st, (orig - Z.of_nat (length rest))%Z)
               /\ c_completed st = true /\ c_error st = None /\ c_buf st = body
  | ChBad ex =>
    exists st e, m = Some (st, (orig - Z.of_N total + Z.of_N ex)%Z) /\ c_error st = Some e
  | ChIncomplete =>
    exists st, m = Some (st, orig) /\ c_completed st = false /\ c_error st = None
  end.

Lemma bytes_ok_skipn k s : bytes_ok s -> bytes_ok (skipn k s).
Proof. intro H. rewrite <- (firstn_skipn k s) in H. apply bytes_ok_app in H. tauto. Qed.
Lemma bytes_ok_firstn k s : bytes_ok s -> bytes_ok (firstn k s).
Proof. intro H. rewrite <- (firstn_skipn k s) in H. apply bytes_ok_app in H. tauto. Qed.

Lemma lenN_skipn k s : lenN (skipn k s) <= lenN s.
Proof. unfold lenN. rewrite skipn_length. lia. Qed.

Ltac t_inc := eexists; split; [reflexivity | split; reflexivity].
Ltac t_done := eexists; split; [apply f_equal; apply f_equal2; [reflexivity|] | repeat split; reflexivity].
Ltac t_bad := eexists; eexists; split; [apply f_equal; apply f_equal2; [reflexivity|] | reflexivity].

Lemma chunks_agree : forall n s, (length s <= n)%nat ->
  forall acc fuel rf orig total,
  bytes_ok s -> (2 * length s + 4 <= fuel)%nat -> (length s < rf)%nat -> lenN s <= total ->
  agrees (read_chunks rf d_recv s total acc) (chunked_loop fuel (st_ctl acc) s orig) orig total.
Proof.
  induction n as [|n IH]; intros s Hn acc fuel rf orig total Hok Hfuel Hrf Htot.
  { destruct s; [|cbn in Hn; lia]. destruct rf; [lia|]. cbn [read_chunks read_line]. rewrite loop_nil.
    t_inc. }
  destruct s as [|x0 s0].
  { destruct rf; [lia|]. cbn [read_chunks read_line]. rewrite loop_nil. t_inc. }
  assert (Hne : x0 :: s0 <> []) by discriminate.
  remember (x0 :: s0) as s eqn:Es. clear Es x0 s0.
  destruct rf as [|rf']; [lia|].
  destruct fuel as [|[|[|[|f4]]]]; try lia.
  cbn [read_chunks]. rewrite read_line_find. cbn [rev app].
  rewrite loop_step' by exact Hne. rewrite iter_ctl.
  destruct (find s CRLF) as [pos|] eqn:F.
  2:{ rewrite loop_nil. t_inc. }
  pose proof (find_some_lt s CRLF pos ltac:(discriminate) F) as Hlen. cbn [length CRLF] in Hlen.
  assert (Hs2 : length (skipn (pos + 2) s) = (length s - (pos + 2))%nat) by apply skipn_length.
  set (s2 := skipn (pos + 2) s) in *.
  assert (Hok2 : bytes_ok s2) by (apply bytes_ok_skipn; exact Hok).
  assert (Htot2 : lenN s2 <= total) by (pose proof (lenN_skipn (pos + 2) s); fold s2 in H; lia).
  destruct (firstn pos s) as [|c l] eqn:Eline.
  - (* empty line: refused *)
    t_bad. lia.
  - assert (Hokl : bytes_ok (c :: l)) by (rewrite <- Eline; apply bytes_ok_firstn; exact Hok).
    rewrite (verdict_ref _ Hokl).
    destruct (control_line_verdict (c :: l)) as [sz| |].
    + destruct sz as [|psz].
      * (* last chunk: trailer *)
        cbn [N.ltb N.compare].
        destruct (list_eq_dec N.eq_dec s2 []) as [Es2|Es2].
        { rewrite Es2. rewrite loop_nil. cbn. t_inc. }
        rewrite loop_step' by exact Es2.
        rewrite iter_trailer, trailer_dev by (auto; lia).
        destruct (startswith s2 CRLF) eqn:Esw.
        -- t_done.
           rewrite startswith_crlf in Esw. destruct s2 as [|a [|b s2'']]; try discriminate.
           cbn [skipn length]. lia.
        -- rewrite adc_fdn. destruct (find_double_newline s2) as [p|] eqn:Ef; cbn [option_map].
           ++ unfold find_double_newline in Ef. destruct (find s2 CRLFCRLF) as [i|] eqn:Ei; [|discriminate].
              injection Ef as <-.
              pose proof (find_some_lt s2 CRLFCRLF i ltac:(discriminate) Ei) as Hl4. cbn [length CRLFCRLF] in Hl4.
              t_done.
              replace (N.to_nat (0 + N.of_nat (i + 4))) with (i + 4)%nat by lia.
              rewrite skipn_length. lia.
           ++ rewrite loop_nil. t_inc.
      * (* a chunk of N.pos psz bytes *)
        replace (0 <? N.pos psz) with true by reflexivity.
        set (sz := N.pos psz) in *. set (k := N.to_nat sz).
        destruct (list_eq_dec N.eq_dec s2 []) as [Es2|Es2].
        { rewrite Es2. rewrite loop_nil. rewrite firstn_nil. cbn [length].
          replace (Nat.ltb 0 k) with true by (symmetry; apply Nat.ltb_lt; lia).
          t_inc. }
        rewrite loop_step' by exact Es2.
        rewrite iter_data by reflexivity. cbv zeta. fold k.
        destruct (Nat.ltb (length (firstn k s2)) k) eqn:Elt.
        -- (* fewer than sz bytes there *)
           apply Nat.ltb_lt in Elt. rewrite firstn_length in Elt.
           assert (Hk : (length s2 < k)%nat) by lia.
           rewrite firstn_all2 by lia. rewrite skipn_all. rewrite loop_nil. t_inc.
        -- apply Nat.ltb_ge in Elt. rewrite firstn_length in Elt.
           assert (Hk : (k <= length s2)%nat) by lia.
           assert (Hw : length (firstn k s2) = k) by (rewrite firstn_length; lia).
           rewrite Hw. unfold lenN. rewrite Hw.
           replace (sz - N.of_nat k) with 0 by lia. cbn [N.eqb].
           set (after := skipn k s2).
           assert (Hafter : length after = (length s2 - k)%nat) by apply skipn_length.
           destruct after as [|a [|b rest']] eqn:Eafter.
           ++ rewrite loop_nil. t_inc.
           ++ rewrite loop_step, iter_validate. cbn [find find_from startswith CRLF]. rewrite andb_false_r.
              cbn [length Nat.ltb Nat.leb]. rewrite loop_nil. t_inc.
           ++ rewrite loop_step, iter_validate. rewrite find_cons, startswith_crlf.
              destruct ((a =? 13) && (b =? 10)) eqn:Eab.
              ** (* properly terminated: next chunk *)
                 cbn [skipn]. apply IH; try (cbn [length] in *; lia).
                 --- assert (bytes_ok (a :: b :: rest')) by (rewrite <- Eafter; apply bytes_ok_skipn; exact Hok2).
                     apply (bytes_ok_skipn 2 (a :: b :: rest')). exact H.
                 --- unfold lenN in *. cbn [length] in *. lia.
              ** (* not terminated by CRLF *)
                 assert (Hcont : forall m, match option_map S m with
                                 | Some O => Continue (st_ctl (acc ++ firstn k s2)) (skipn 2 (a :: b :: rest'))
                                 | Some (S _) => Continue (mkst 0 false [] [] true [] false (Some EChunkNotTerminated) (acc ++ firstn k s2)) (a :: b :: rest')
                                 | None => if (length (a :: b :: rest') <? 2)%nat
                                           then Continue (mkst 0 true [] (a :: b :: rest') false [] false None (acc ++ firstn k s2)) []
                                           else Continue (mkst 0 false [] [] true [] false (Some EChunkNotTerminated) (acc ++ firstn k s2)) (a :: b :: rest')
                                 end = Continue (mkst 0 false [] [] true [] false (Some EChunkNotTerminated) (acc ++ firstn k s2)) (a :: b :: rest')).
                 { intros [m|]; reflexivity. }
                 rewrite Hcont. rewrite loop_step, iter_trailer, startswith_crlf, Eab.
                 rewrite adc_fdn.
                 destruct (find_double_newline (a :: b :: rest')) as [p|] eqn:Ef; cbn [option_map].
                 --- unfold find_double_newline in Ef.
                     destruct (find (a :: b :: rest') CRLFCRLF) as [i|] eqn:Ei; [|discriminate]. injection Ef as <-.
                     pose proof (find_some_lt _ CRLFCRLF i ltac:(discriminate) Ei) as Hl4. cbn [length CRLFCRLF] in Hl4.
                     t_bad.
                     assert (lenN (a :: b :: rest') <= total).
                     { unfold lenN in *. rewrite Hafter. lia. }
                     unfold lenN in *. cbn [length] in *. lia.
                 --- rewrite loop_nil. t_bad. lia.
    + t_bad. lia.
    + t_bad. lia.
Qed.

(* running the chunked receiver on a stream in one call = the reference decoder *)
Theorem chunked_equiv_dev : forall s, bytes_ok s ->
  agrees (ref_chunked d_recv s) (chunked_received chunked_init s) (Z.of_nat (length s)) (lenN s).
Proof.
  intros s Hok. unfold ref_chunked, chunked_received, chunked_fuel. cbn [c_completed chunked_init control_line chunk_end length].
  apply (chunks_agree (length s)); auto; try lia.
Qed.

(* the reference's rest is a suffix *)
Lemma read_trailer_le : forall fuel d tr r, read_trailer fuel d tr = Some (Some r) -> (length r <= length tr)%nat.
Proof.
  induction fuel as [|fu IHf]; intros d0 tr r; cbn [read_trailer]; [discriminate|].
  rewrite read_line_find. cbn [rev app].
  destruct (find tr CRLF) as [q|] eqn:Fq; [|discriminate].
  assert (Hq : length (skipn (q + 2) tr) = (length tr - (q + 2))%nat) by apply skipn_length.
  destruct (firstn q tr) as [|c0 l0].
  - intro E. injection E as <-. lia.
  - destruct (dv_trailer d0).
    + intro E. apply IHf in E. lia.
    + destruct (has_crlf_byte (c0 :: l0)); [discriminate|].
      destruct (parse_field_line (c0 :: l0)); [|discriminate]. intro E. apply IHf in E. lia.
Qed.

Lemma read_chunks_le : forall rf d s total acc body rest,
  read_chunks rf d s total acc = ChDone body rest -> (length rest <= length s)%nat.
Proof.
  induction rf as [|rf IH]; intros d s total acc body rest; cbn [read_chunks]; [discriminate|].
  rewrite read_line_find. cbn [rev app].
  destruct (find s CRLF) as [pos|] eqn:F; [|discriminate].
  assert (Hs2 : length (skipn (pos + 2) s) = (length s - (pos + 2))%nat) by apply skipn_length.
  destruct (firstn pos s) as [|c l'].
  - discriminate.
  - destruct (parse_chunk_line (c :: l')) as [[|p]|]; [| |discriminate].
    + destruct (read_trailer (S (length (skipn (pos + 2) s))) d (skipn (pos + 2) s)) as [[r|]|] eqn:Et;
        try discriminate.
      intro E. injection E as _ <-. apply read_trailer_le in Et. lia.
    + cbv zeta. destruct (Nat.ltb _ _); [discriminate|].
      assert (Ha : length (skipn (N.to_nat (N.pos p)) (skipn (pos + 2) s)) =
                   (length (skipn (pos + 2) s) - N.to_nat (N.pos p))%nat) by apply skipn_length.
      destruct (skipn (N.to_nat (N.pos p)) (skipn (pos + 2) s)) as [|a [|b r']]; try discriminate.
      destruct ((a =? 13) && (b =? 10)); [|discriminate].
      intro E. apply IH in E. cbn [length] in Ha. lia.
Qed.

(* reading the statement: decoded bytes, end offset, verdict *)
Corollary chunked_equiv_done : forall s body rest, bytes_ok s ->
  ref_chunked d_recv s = ChDone body rest ->
  exists st, chunked_received chunked_init s = Some (st, Z.of_nat (length s - length rest))
             /\ c_completed st = true /\ c_error st = None /\ c_buf st = body.
Proof.
  intros s body rest Hok H. pose proof (chunked_equiv_dev s Hok) as A. rewrite H in A.
  destruct A as (st & A & B). exists st. split; auto. rewrite A. f_equal. f_equal.
  apply read_chunks_le in H. lia.
Qed.

(* outside the two classes the strict reference takes the same path *)
Theorem chunked_equiv_partial : forall s, bytes_ok s ->
  ref_chunked no_devs s = ref_chunked d_recv s ->
  agrees (ref_chunked no_devs s) (chunked_received chunked_init s) (Z.of_nat (length s)) (lenN s).
Proof. intros s Hok E. rewrite E. apply chunked_equiv_dev. exact Hok. Qed.

(* F10: "0\r\nfoo\r\n\r\n" ; the former F11: "\r\n0\r\n\r\n" *)
Definition f10_body : bytes := [48;13;10; 102;111;111;13;10; 13;10].
Definition f11_body : bytes := [13;10; 48;13;10; 13;10].

Lemma chunked_refuted_trailer :
  ref_chunked no_devs f10_body = ChBad (lenN f10_body) /\
  exists st, chunked_received chunked_init f10_body = Some (st, 10%Z) /\ c_completed st = true /\ c_error st = None.
Proof. split; [vm_compute; reflexivity|]. eexists. vm_compute. repeat split. Qed.

(* F11 is repaired (272e5a4): an empty line where a chunk-size is expected is refused by both *)
Example chunked_empty_line_refused :
  ref_chunked no_devs f11_body = ChBad (lenN f11_body) /\
  exists st, chunked_received chunked_init f11_body = Some (st, 7%Z) /\ c_error st = Some EInvalidChunkSize.
Proof. split; [vm_compute; reflexivity|]. eexists. vm_compute. split; reflexivity. Qed.

(* "5;a=b\r\nhello\r\n0\r\nX: y\r\n\r\nNEXT" *)
Example chunked_equiv_example :
  ref_chunked no_devs [53;59;97;61;98;13;10; 104;101;108;108;111;13;10; 48;13;10; 88;58;32;121;13;10; 13;10; 78;69;88;84]
  = ChDone [104;101;108;108;111] [78;69;88;84].
Proof. vm_compute. reflexivity. Qed.
