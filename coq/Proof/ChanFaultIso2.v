(* Proof/ChanFaultIso2.v -- C13_isolation at the level of whole runs.

   PROVED (isolation_trace): for every configuration g with the two repaired knob values, every
   pair of distinct connections a, b and EVERY schedule sched1 of the two-connection system (all
   interleavings, all lengths, every answer of the environment to every socket call -- faults on a's
   recv / send / getsockopt / setsockopt / setblocking, EOF, partial sends, exceptional conditions,
   a's application raising, anything) there EXISTS a schedule sched2 of the same system in which
   connection a is ABSENT (no label of a in the whole trace: accept() never delivers it; its record
   is the initial one; its worker never ran) such that
       view b (trace g sched1) = view b (trace g sched2)
   -- the observer of b sees the same sequence of events: every label of b (environment answers, WIRE
   BYTES, handle_close, socket.close, ...) and every label of the loop, the listener and the trigger --
   and the final record of b, b's worker and the listener / trigger / loop flags are the same.
   Since sched2 is itself a schedule of the system, the set of b-views of ALL runs equals the set of
   b-views of the runs without a (isolation_views): what b can observe does not depend on whether a
   exists, let alone on the faults injected on it.

   This is existential schedule matching by a stuttering simulation (ChanFaultIso2Sim.v), in the
   direction "faulted a  ==>  a absent".  NOT proved: matching against a run in which a is PRESENT and
   fault-free with a prescribed behaviour of its own (that needs inserting a's steps, not deleting
   them); and nothing is claimed for the old knob values (with init_guarded = false a's set-up fault
   closes the listener, with wc_close = true a's worker can kill the loop: C13_*_refuted_old). *)
From Coq Require Import List Arith ZArith Bool Lia.
From WV Require Import Lib.Conc Model.ChanFault Proof.ChanFaultSpec Proof.ChanFaultBase Proof.ChanFaultStep
                       Proof.ChanFaultOnce Proof.ChanFaultListener Proof.ChanFaultIso Proof.ChanFaultIso2Cov Proof.ChanFaultIso2Proj
                       Proof.ChanFaultIso2Sim.
Import ListNotations.

(* ---- whole runs --------------------------------------------------------------------------------------------------- *)
Lemma run_tr_snoc : forall g sched ch, ChanFault.run_tr g (sched ++ [ch]) = ChanFault.exec1 g (ChanFault.run_tr g sched) ch.
Proof. intros. unfold ChanFault.run_tr. rewrite fold_left_app. reflexivity. Qed.

Theorem isolation_sim : forall g a b sched1,
  a <> b -> wc_close g = false -> init_guarded g = true ->
  exists sched2,
    rel a b (ChanFault.run g sched1) (ChanFault.run g sched2) /\
    view b (ChanFault.trace g sched1) = view b (ChanFault.trace g sched2) /\
    labels_of a (ChanFault.trace g sched2) = [].
Proof.
  intros g a b sched1 Hab Hwc Hg. induction sched1 as [|ch sched1 IH] using rev_ind.
  - exists []. split; [apply rel_init; auto|split; reflexivity].
  - destruct IH as (sched2 & HR & HV & HA).
    destruct (ioI_always g sched1 Hwc Hg) as [HS HI].
    destruct (listener_repaired g sched1 Hg) as (HL & _).
    pose proof (fun c => wtagged_always g sched1 c) as Hw.
    unfold ChanFault.run, ChanFault.trace in *. rewrite run_tr_snoc. unfold ChanFault.exec1.
    destruct (step g (fst (ChanFault.run_tr g sched1)) ch) as [[s1' l1]|] eqn:H.
    + destruct (sim_step g a b _ _ ch s1' l1 Hab Hg HS HI HL Hw HR H) as (o & s2' & l2 & Ho & HR' & HV' & HA').
      destruct o as [ch2|].
      * exists (sched2 ++ [ch2]). rewrite run_tr_snoc. unfold ChanFault.exec1. rewrite Ho. simpl.
        split; [auto|]. rewrite !view_app, labels_of_app, HV, HV', HA, HA'. auto.
      * destruct Ho as [-> ->]. exists sched2. simpl. split; [auto|].
        rewrite view_app, HV, HV'. rewrite app_nil_r. auto.
    + exists sched2. auto.
Qed.

(* the wire log of a connection: the byte counts the kernel accepted on it, in order *)
Definition wire_log (b : chan) (tr : list label) : list nat :=
  flat_map (fun l => match l with LWire c n => if chan_eqb b c then [n] else [] | _ => [] end) tr.

Lemma wire_log_view : forall b tr, wire_log b (view b tr) = wire_log b tr.
Proof.
  intros b tr. unfold wire_log, view. induction tr as [|l tr IH]; simpl; auto.
  destruct (vis b l) eqn:V; simpl; rewrite IH; auto.
  destruct l; simpl in *; auto. rewrite V. reflexivity.
Qed.

(* THE TRACE-LEVEL ISOLATION THEOREM.  For every schedule of the two-connection system -- every interleaving,
   every length, the environment answering the socket calls of connection a (and of b, and of the listener) with
   anything at all -- there is a schedule of the same system in which connection a never appears (accept() never
   delivers it: no label of a in the whole trace, its record is the initial one, its worker never ran) and
   which the observer of connection b cannot tell from the first: the same sequence of visible events -- all
   events of b, the wire bytes among them, and all events of the loop, the listener and the trigger -- and the
   same final record of b, worker of b, listener and trigger state. *)
Theorem isolation_trace : forall g a b sched1,
  a <> b -> wc_close g = false -> init_guarded g = true ->
  exists sched2,
    (labels_of a (ChanFault.trace g sched2) = [] /\
     getc (ChanFault.run g sched2) a = chan0 /\ getth (ChanFault.run g sched2) (W a) = th0 []) /\
    view b (ChanFault.trace g sched1) = view b (ChanFault.trace g sched2) /\
    getc (ChanFault.run g sched1) b = getc (ChanFault.run g sched2) b /\
    getth (ChanFault.run g sched1) (W b) = getth (ChanFault.run g sched2) (W b) /\
    srv5 (ChanFault.run g sched1) = srv5 (ChanFault.run g sched2).
Proof.
  intros g a b sched1 Hab Hwc Hg.
  destruct (isolation_sim g a b sched1 Hab Hwc Hg) as (sched2 & [(Hb & Hs & Ha) Rwb Rwa _ _] & HV & HA).
  exists sched2. repeat split; auto.
Qed.

Corollary isolation_wire : forall g a b sched1,
  a <> b -> wc_close g = false -> init_guarded g = true ->
  exists sched2,
    labels_of a (ChanFault.trace g sched2) = [] /\
    wire_log b (ChanFault.trace g sched1) = wire_log b (ChanFault.trace g sched2) /\
    wire (getc (ChanFault.run g sched1) b) = wire (getc (ChanFault.run g sched2) b).
Proof.
  intros g a b sched1 Hab Hwc Hg.
  destruct (isolation_trace g a b sched1 Hab Hwc Hg) as (sched2 & (HA & _) & HV & Hb & _).
  exists sched2. split; [auto|split].
  - rewrite <- (wire_log_view b (ChanFault.trace g sched1)), HV. apply wire_log_view.
  - rewrite Hb. reflexivity.
Qed.

(* connection a is absent from a run *)
Definition absent (g : cfg) (a : chan) (sched : list choice) : Prop :=
  labels_of a (ChanFault.trace g sched) = [] /\
  getc (ChanFault.run g sched) a = chan0 /\ getth (ChanFault.run g sched) (W a) = th0 [].

(* what b can observe: the same set of views with and without a *)
Corollary isolation_views : forall g a b v,
  a <> b -> wc_close g = false -> init_guarded g = true ->
  ((exists sched, view b (ChanFault.trace g sched) = v) <->
   (exists sched, absent g a sched /\ view b (ChanFault.trace g sched) = v)).
Proof.
  intros g a b v Hab Hwc Hg. split.
  - intros [sched1 <-]. destruct (isolation_trace g a b sched1 Hab Hwc Hg) as (sched2 & HA & HV & _).
    exists sched2. split; [exact HA|]. symmetry. exact HV.
  - intros [sched [_ H]]. exists sched. exact H.
Qed.

(* no label of a: in particular no environment answer on a's socket, no fault *)
Lemma absent_no_label : forall a tr l, labels_of a tr = [] -> In l tr -> label_chan l <> Some a.
Proof.
  intros a tr l H Hin E. unfold labels_of in H.
  assert (X : In l (filter (fun l => match label_chan l with Some d => chan_eqb a d | None => false end) tr)).
  { apply filter_In. split; auto. rewrite E. apply chan_eqb_refl. }
  rewrite H in X. destruct X.
Qed.

(* ---- a concrete instance: a is accepted, reset by its client in recv() and torn down while b is accepted,
   sends a request, is served and gets 10 bytes on the wire; the matching run has b only ------------------------ *)
Definition xcfg : cfg := mkCfg 1 5 1000 50 false false true.
Definition xio (n : nat) := repeat (IO, ANone) n.
Definition xacc (c : chan) : list choice :=
  xio 2 ++ [(IO, ASel [FL] [] [])] ++ xio 1
  ++ [(IO, AAcc (AccConn c)); (IO, ACall None); (IO, ACall None); (IO, ACall None)] ++ xio 3.
Definition xitem := mkItem false true false.
Definition xworker : list choice :=
  [(W B, ANone); (W B, ANone); (W B, ANone); (W B, AApp (AppWrite 10))] ++ repeat (W B, ANone) 8 ++ [(W B, ASend (SOk 10))].
Definition x_faulted : list choice :=
  xacc A ++ xacc B ++ xio 2 ++ [(IO, ASel [FC A; FC B] [] [])] ++ xio 2 ++ [(IO, ARecv (RErr ECONNRESET))] ++ xio 20
  ++ [(IO, ARecv (RData [xitem]))] ++ xio 12 ++ xworker.
Definition x_alone : list choice :=
  xacc B ++ xio 2 ++ [(IO, ASel [FC B] [] [])] ++ xio 2 ++ [(IO, ARecv (RData [xitem]))] ++ xio 12 ++ xworker.

Example isolation_example :
  view B (ChanFault.trace xcfg x_faulted) = view B (ChanFault.trace xcfg x_alone) /\
  absent xcfg A x_alone /\
  In (LEnv A (ARecv (RErr ECONNRESET))) (ChanFault.trace xcfg x_faulted) /\
  In (LClose IO A) (ChanFault.trace xcfg x_faulted) /\
  In (LWire B 10) (ChanFault.trace xcfg x_faulted) /\
  wire_log B (ChanFault.trace xcfg x_alone) = [10].
Proof. unfold absent. vm_compute. intuition. Qed.
