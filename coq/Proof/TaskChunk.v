(* Chunked coding: what Task.write emits is decoded by the client back to the
   application's bytes (C03). *)
From Coq Require Import List NArith Bool Lia Arith ZifyBool.
From WV Require Import Lib.PyBytes Gen.GenTables Model.Task Spec.ClientParse.
Import ListNotations.
Local Open Scope N_scope.

(* ---- hex(n)[2:].upper() and int(s, 16) -------------------------------------- *)

Lemma hexval_hexdigit d : d < 16 -> hexval (hexdigit_upper d) = Some d.
Proof.
  intro H. unfold hexdigit_upper, hexval.
  destruct (d <? 10) eqn:E.
  - assert ((48 <=? 48 + d) && (48 + d <=? 57) = true) as -> by lia. f_equal. lia.
  - assert ((48 <=? 55 + d) && (55 + d <=? 57) = false) as -> by lia.
    assert ((97 <=? 55 + d) && (55 + d <=? 102) = false) as -> by lia.
    assert ((65 <=? 55 + d) && (55 + d <=? 70) = true) as -> by lia. f_equal. lia.
Qed.

Lemma hex_roundtrip_fuel fuel : forall n acc, n < 16 ^ N.of_nat fuel ->
  hex_value_acc (to_hex_fuel fuel n acc) 0 = hex_value_acc acc n.
Proof.
  induction fuel as [|f IH]; intros n acc Hn.
  - simpl in Hn. assert (n = 0) by lia. subst. reflexivity.
  - cbn [to_hex_fuel].
    assert (Hd : n mod 16 < 16) by (apply N.mod_lt; lia).
    destruct (n <? 16) eqn:E.
    + cbn [hex_value_acc]. rewrite hexval_hexdigit by auto.
      rewrite N.mod_small by lia. f_equal.
    + rewrite IH.
      * cbn [hex_value_acc]. rewrite hexval_hexdigit by auto. f_equal.
        rewrite (N.div_mod n 16) at 3 by lia. reflexivity.
      * rewrite Nat2N.inj_succ, N.pow_succ_r' in Hn.
        apply N.div_lt_upper_bound; lia.
Qed.

Lemma size_bound n : n < 16 ^ N.of_nat (S (N.to_nat (N.size n))).
Proof.
  rewrite Nat2N.inj_succ, N2Nat.id.
  destruct n as [|p]; [reflexivity|].
  assert (H : N.pos p < 2 ^ N.size (N.pos p)) by (apply N.size_gt).
  eapply N.lt_le_trans; [exact H|].
  eapply N.le_trans with (16 ^ N.size (N.pos p)).
  - apply N.pow_le_mono_l. lia.
  - apply N.pow_le_mono_r; lia.
Qed.

Theorem hex_roundtrip n : hex_value (to_hex_upper n) = n.
Proof.
  unfold hex_value, to_hex_upper. rewrite hex_roundtrip_fuel by apply size_bound. reflexivity.
Qed.

(* the digits are 0-9A-F: hexadecimal, and none of CR, ';' *)
Definition is_hex_upper (x : N) : bool := ((48 <=? x) && (x <=? 57)) || ((65 <=? x) && (x <=? 70)).

Lemma hexdigit_is_hex d : d < 16 -> is_hex_upper (hexdigit_upper d) = true.
Proof. intro H. unfold is_hex_upper, hexdigit_upper. destruct (d <? 10) eqn:E; lia. Qed.

Lemma to_hex_fuel_digits fuel : forall n acc, forallb is_hex_upper acc = true ->
  forallb is_hex_upper (to_hex_fuel fuel n acc) = true.
Proof.
  induction fuel as [|f IH]; intros n acc Ha; cbn [to_hex_fuel]; auto.
  assert (Hd : n mod 16 < 16) by (apply N.mod_lt; lia).
  assert (Hc : forallb is_hex_upper (hexdigit_upper (n mod 16) :: acc) = true).
  { cbn [forallb]. rewrite hexdigit_is_hex by auto. exact Ha. }
  destruct (n <? 16); auto.
Qed.

Lemma to_hex_digits n : forallb is_hex_upper (to_hex_upper n) = true.
Proof. unfold to_hex_upper. apply to_hex_fuel_digits. reflexivity. Qed.

Lemma to_hex_fuel_nonempty fuel n acc : to_hex_fuel (S fuel) n acc <> [].
Proof.
  revert n acc. induction fuel as [|f IH]; intros n acc; cbn [to_hex_fuel].
  - destruct (n <? 16); discriminate.
  - destruct (n <? 16); [discriminate|]. apply IH.
Qed.

Lemma to_hex_nonempty n : to_hex_upper n <> [].
Proof. unfold to_hex_upper. apply to_hex_fuel_nonempty. Qed.

(* ---- the client's line reader on lines without CR --------------------------- *)

Definition no_cr (l : bytes) : Prop := forallb (fun x => negb (x =? 13)) l = true.

Lemma read_line_exact l rest : no_cr l -> read_line (l ++ [13; 10] ++ rest) = Some (l, rest).
Proof.
  unfold no_cr. induction l as [|x l IH]; intro H.
  - reflexivity.
  - cbn [forallb] in H. apply andb_true_iff in H as [Hx Hl].
    change ((x :: l) ++ [13; 10] ++ rest) with (x :: (l ++ [13; 10] ++ rest)). cbn [read_line].
    destruct (x =? 13); [discriminate|]. cbn [andb].
    rewrite IH by auto. reflexivity.
Qed.

Lemma hex_no_cr s : forallb is_hex_upper s = true -> no_cr s.
Proof.
  unfold no_cr. induction s as [|x s IH]; intro H; auto.
  cbn [forallb] in *. apply andb_true_iff in H as [Hx Hs]. rewrite IH by auto.
  unfold is_hex_upper in Hx. destruct (x =? 13) eqn:E; [lia|reflexivity].
Qed.

Lemma find_absent s c : forallb (fun x => negb (x =? c)) s = true -> find s [c] = None.
Proof.
  unfold find. generalize 0%nat. induction s as [|x s IH]; intros i H.
  - reflexivity.
  - cbn [forallb] in H. apply andb_true_iff in H as [Hx Hs].
    cbn [find_from startswith]. rewrite N.eqb_sym. destruct (x =? c); [discriminate|]. cbn [andb].
    apply IH. auto.
Qed.

Lemma hex_no_semicolon s : forallb is_hex_upper s = true -> find s [59] = None.
Proof.
  intro H. apply find_absent. induction s as [|x s IH]; auto.
  cbn [forallb] in *. apply andb_true_iff in H as [Hx Hs]. rewrite IH by auto.
  unfold is_hex_upper in Hx. destruct (x =? 59) eqn:E; [lia|reflexivity].
Qed.

Lemma hex_all_hex s : s <> [] -> forallb is_hex_upper s = true -> all_hex s = true.
Proof.
  intros Hne H. unfold all_hex. destruct s as [|x s]; [congruence|].
  revert H. generalize (x :: s). clear. induction l as [|y l IH]; intro H; auto.
  cbn [forallb] in *. apply andb_true_iff in H as [Hy Hl]. rewrite IH by auto.
  unfold is_hex_upper in Hy. unfold hexval.
  destruct ((48 <=? y) && (y <=? 57)) eqn:E1; [reflexivity|].
  destruct ((97 <=? y) && (y <=? 102)) eqn:E2; [reflexivity|].
  destruct ((65 <=? y) && (y <=? 70)) eqn:E3; [reflexivity|]. lia.
Qed.

(* ---- the round trip ----------------------------------------------------------- *)

(* what Task.write sends for one application chunk under chunked coding *)
Definition encode_chunk (d : bytes) : bytes :=
  match d with
  | [] => []                                   (* `if chunk:` -- nothing is written *)
  | _ => to_hex_upper (lenN d) ++ CRLF ++ d ++ CRLF
  end.

Definition encode_chunked (cs : list bytes) : bytes :=
  flat_map encode_chunk cs ++ chunk_terminator.

Lemma decode_terminator fuel rest : decode_chunked (S fuel) (chunk_terminator ++ rest) = Some ([], rest).
Proof.
  unfold chunk_terminator. cbn [decode_chunked].
  change ([48; 13; 10; 13; 10] ++ rest) with ([48] ++ [13; 10] ++ ([13; 10] ++ rest)).
  rewrite read_line_exact by reflexivity.
  cbn. reflexivity.
Qed.

Lemma decode_one_chunk fuel d more : d <> [] ->
  decode_chunked (S fuel) (encode_chunk d ++ more) =
  match decode_chunked fuel more with
  | Some (body, rest) => Some (d ++ body, rest)
  | None => None
  end.
Proof.
  intro Hd. unfold encode_chunk. destruct d as [|x d]; [congruence|]. set (dd := x :: d) in *.
  cbn [decode_chunked].
  pose proof (to_hex_digits (lenN dd)) as Hh.
  pose proof (to_hex_nonempty (lenN dd)) as Hne.
  rewrite <- !app_assoc.
  rewrite read_line_exact by (apply hex_no_cr; auto).
  rewrite hex_no_semicolon by auto.
  rewrite hex_all_hex by auto. cbn [negb].
  rewrite hex_roundtrip.
  assert (Hlen : lenN dd =? 0 = false) by (unfold lenN; subst dd; cbn [length]; lia).
  rewrite Hlen.
  assert (Hlt : lenN (dd ++ CRLF ++ more) <? lenN dd + 2 = false).
  { unfold lenN. rewrite !app_length. cbn [length CRLF]. lia. }
  rewrite Hlt.
  unfold lenN. rewrite Nat2N.id.
  rewrite firstn_app, firstn_all, Nat.sub_diag. cbn [firstn]. rewrite app_nil_r.
  rewrite skipn_app, skipn_all, Nat.sub_diag. cbn [skipn List.app].
  assert (Hs : startswith (CRLF ++ more) [13; 10] = true) by (destruct more; reflexivity).
  rewrite Hs. cbn [negb]. reflexivity.
Qed.

(* C03, chunk_roundtrip: for every list of chunks (empty ones included, which are
   skipped), a client decodes the emitted chunked body to exactly their
   concatenation and stops exactly at its end. *)
Theorem chunk_roundtrip cs rest fuel : (length cs < fuel)%nat ->
  decode_chunked fuel (encode_chunked cs ++ rest) = Some (concat cs, rest).
Proof.
  unfold encode_chunked. revert fuel. induction cs as [|d cs IH]; intros fuel Hf.
  - destruct fuel; [simpl in Hf; lia|]. cbn [flat_map List.app concat]. apply decode_terminator.
  - destruct fuel as [|f]; [simpl in Hf; lia|]. cbn [flat_map concat]. rewrite <- !app_assoc.
    destruct d as [|x d].
    + cbn [encode_chunk List.app]. rewrite app_assoc. apply IH. simpl in Hf. lia.
    + rewrite decode_one_chunk by discriminate. rewrite app_assoc, IH by (simpl in Hf; lia). reflexivity.
Qed.
